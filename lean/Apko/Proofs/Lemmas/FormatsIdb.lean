/-
C16 helper lemmas: the installed db as a whole — package lines through `idbStep`, the `i:` line that
is written with Go's default list formatting (F16a-idb), one package, a list of packages,
`ParseInstalled ∘ AddInstalledPackage*`.
-/
import Apko.Proofs.Lemmas.FormatsIdbFiles

namespace Apko.Formats
open Apko

/-! ## package lines -/

theorem idbStep_row (c : Codec) (hc : c.Lawful) (cs : List Case) (g : Bool) (r : Row) (p : Pkg) (st : IdbState)
    (hr : rowOK cs r = true) (hs : valSafe (get p r.field) = true) :
    idbStep c cs g st (r.tag :: ':' :: fmtVal c r.fmt (get p r.field)) =
      .ok { st with cur := set st.cur r.field (get p r.field) } := by
  unfold rowOK at hr
  simp only [Bool.and_eq_true] at hr
  obtain ⟨_, hcase⟩ := hr
  cases hfc : findCase cs r.tag with
  | none => simp [hfc] at hcase
  | some a =>
    cases a with
    | field f d =>
      simp only [hfc, Bool.and_eq_true, beq_iff_eq] at hcase
      obtain ⟨rfl, hfit⟩ := hcase
      rw [fits_kind {} p] at hfit
      simp [idbStep, hfc, applyField, decode_fmtVal c hc _ _ _ _ hs hfit, Res.ofOption, Res.bind]
    | dirLine => simp [hfc] at hcase
    | dirPerm a => simp [hfc] at hcase
    | fileLine => simp [hfc] at hcase
    | filePerm a => simp [hfc] at hcase

theorem idbFold_rows (c : Codec) (hc : c.Lawful) (cs : List Case) (g : Bool) (p : Pkg) (rest : List Text) :
    ∀ (rows : List Row) (st : IdbState), (∀ r ∈ rows, rowOK cs r = true) →
      (fieldsOf rows).Pairwise (· ≠ ·) → (∀ r ∈ rows, valSafe (get p r.field) = true) →
      (∀ r ∈ rows, get st.cur r.field = get {} r.field) →
      idbFold c cs g st (recLines c rows p ++ rest) =
        idbFold c cs g { st with cur := copyFields p st.cur rows } rest := by
  intro rows
  induction rows with
  | nil => intro st _ _ _ _; simp [recLines, copyFields]
  | cons r rs ih =>
    intro st hok hd hs hq
    have hd' : (fieldsOf rs).Pairwise (· ≠ ·) := (List.pairwise_cons.mp hd).2
    have hne : ∀ r' ∈ rs, r'.field ≠ r.field := by
      intro r' hr' e
      exact (List.pairwise_cons.mp hd).1 r'.field (List.mem_map.mpr ⟨r', hr', rfl⟩) e.symm
    have hrow := hok r (by simp)
    by_cases he : evalCond p r.cond = true
    · have hq' : ∀ r' ∈ rs, get (set st.cur r.field (get p r.field)) r'.field = get {} r'.field := by
        intro r' hr'
        rw [get_set_ne _ _ _ _ (hne r' hr')]
        exact hq r' (by simp [hr'])
      have := ih { st with cur := set st.cur r.field (get p r.field) } (fun x hx => hok x (by simp [hx])) hd'
        (fun x hx => hs x (by simp [hx])) hq'
      simp only [recLines, List.flatMap_cons, renderRow, he, if_true,
        List.cons_append, idbFold, copyFields] at this ⊢
      rw [idbStep_row c hc cs g r p st hrow (hs r (by simp))]
      simpa [Res.bind] using this
    · have he' : evalCond p r.cond = false := by simpa using he
      have hcf : condFits r.field r.cond = true := by
        unfold rowOK at hrow; simp only [Bool.and_eq_true] at hrow; exact hrow.1.2
      have hdef := cond_false_default p r.field r.cond hcf he'
      have hsame : set st.cur r.field (get p r.field) = st.cur := by
        rw [hdef, ← hq r (by simp), set_get_self]
      have := ih st (fun x hx => hok x (by simp [hx])) hd' (fun x hx => hs x (by simp [hx]))
        (fun x hx => hq x (by simp [hx]))
      simp only [recLines, List.flatMap_cons, renderRow, he', copyFields, hsame] at this ⊢
      simpa using this

/-! ## the `i:` line (F16a-idb) -/

/-- the line of `PackageToInstalled` that prints `InstallIf` with `%s` -/
def lossyRow : Row := ⟨'i', .installIf, .plain, .always⟩

/-- what `ParseInstalled` gives back of a package record: everything, except that `install_if` is the
space-split of Go's `[a b c]` rendering of the list (F16a-idb) -/
def idbProj (p : Pkg) : Pkg := { p with installIf := splitRepeatedField (goList p.installIf) }

theorem idbProj_get (p : Pkg) (f : Field) (h : f ≠ .installIf) : get (idbProj p) f = get p f := by
  cases f <;> first | rfl | exact absurd rfl h

theorem idbStep_lossy (c : Codec) (cs : List Case) (g : Bool) (st : IdbState) (l : List Text)
    (h : findCase cs 'i' = some (.field .installIf .splitRep)) :
    idbStep c cs g st ('i' :: ':' :: goList l) =
      .ok { st with cur := set st.cur .installIf (.list (splitRepeatedField (goList l))) } := by
  simp [idbStep, h, applyField, decode, Res.ofOption, Res.bind]

theorem recLines_append (c : Codec) (a b : List Row) (p : Pkg) :
    recLines c (a ++ b) p = recLines c a p ++ recLines c b p := by
  simp [recLines]

theorem recLines_lossy (c : Codec) (p : Pkg) : recLines c [lossyRow] p = ['i' :: ':' :: goList p.installIf] := by
  simp [recLines, renderRow, lossyRow, evalCond, fmtVal, get]

/-- the writer / reader table pair of the installed db: all rows but the `i:` row are inverse pairs,
the `i:` row is read with `splitRepeatedField`, every field has a row -/
def idbTableOK (rows : List Row) (cs : List Case) : Bool :=
  let pre := rows.takeWhile (· != lossyRow)
  let post := (rows.dropWhile (· != lossyRow)).drop 1
  rows == pre ++ lossyRow :: post && tableOK (pre ++ post) cs &&
  findCase cs 'i' == some (.field .installIf .splitRep) &&
  allFields.all (fun f => f == .installIf || (fieldsOf (pre ++ post)).contains f) &&
  !(fieldsOf (pre ++ post)).contains .installIf

structure IdbTable (rows : List Row) (cs : List Case) (pre post : List Row) : Prop where
  split : rows = pre ++ lossyRow :: post
  ok : ∀ r ∈ pre ++ post, rowOK cs r = true
  distinct : (fieldsOf (pre ++ post)).Pairwise (· ≠ ·)
  name : Field.name ∈ fieldsOf (pre ++ post)
  icase : findCase cs 'i' = some (.field .installIf .splitRep)
  cover : ∀ f, f ≠ .installIf → f ∈ fieldsOf (pre ++ post)
  noI : Field.installIf ∉ fieldsOf (pre ++ post)

theorem idbTableOK_spec (rows : List Row) (cs : List Case) (h : idbTableOK rows cs = true) :
    ∃ pre post, IdbTable rows cs pre post := by
  unfold idbTableOK at h
  simp only [Bool.and_eq_true, beq_iff_eq, Bool.not_eq_true', List.all_eq_true, Bool.or_eq_true,
    List.contains_iff_mem] at h
  obtain ⟨⟨⟨⟨h1, h2⟩, h3⟩, h4⟩, h5⟩ := h
  unfold tableOK at h2
  simp only [Bool.and_eq_true, decide_eq_true_eq, List.all_eq_true, List.contains_iff_mem] at h2
  refine ⟨_, _, h1, h2.1.1, h2.1.2, h2.2, h3, ?_, ?_⟩
  · intro f hf
    rcases h4 f (by cases f <;> simp [allFields]) with e | e
    · exact absurd e hf
    · exact e
  · intro m
    have : (fieldsOf (rows.takeWhile (· != lossyRow) ++ (rows.dropWhile (· != lossyRow)).drop 1)).contains Field.installIf = true :=
      List.contains_iff_mem.mpr m
    rw [h5] at this; exact absurd this (by simp)

theorem fieldsOf_append (a b : List Row) : fieldsOf (a ++ b) = fieldsOf a ++ fieldsOf b := by
  simp [fieldsOf]

/-- the package lines of one record, read from a fresh record -/
theorem idbFold_pkgLines (c : Codec) (hc : c.Lawful) (cs : List Case) (g : Bool) (rows pre post : List Row)
    (ht : IdbTable rows cs pre post) (p : Pkg) (hs : fieldsSafe p = true)
    (pk : List IPkg) (fs : List FileRec) (ld : Option (Nat × FileRec)) (lf : Option FileRec) (rest : List Text) :
    idbFold c cs g ⟨pk, {}, fs, ld, lf⟩ (recLines c rows p ++ rest) =
      idbFold c cs g ⟨pk, idbProj p, fs, ld, lf⟩ rest := by
  have hdist := ht.distinct
  rw [fieldsOf_append, List.pairwise_append] at hdist
  obtain ⟨hdpre, hdpost, hcross⟩ := hdist
  have hnoI := ht.noI
  rw [fieldsOf_append, List.mem_append, not_or] at hnoI
  rw [ht.split, show pre ++ lossyRow :: post = pre ++ ([lossyRow] ++ post) by simp,
    recLines_append, recLines_append, recLines_lossy, List.append_assoc, List.append_assoc]
  rw [idbFold_rows c hc cs g p _ pre ⟨pk, {}, fs, ld, lf⟩ (fun r hr => ht.ok r (by simp [hr])) hdpre
    (fun r _ => fieldsSafe_get p hs r.field) (fun _ _ => rfl)]
  simp only [List.singleton_append, idbFold_cons, idbStep_lossy c cs g _ _ ht.icase, Res.bind]
  rw [idbFold_rows c hc cs g p rest post _ (fun r hr => ht.ok r (by simp [hr])) hdpost
    (fun r _ => fieldsSafe_get p hs r.field)
    (by
      intro r hr
      have hrf : r.field ∈ fieldsOf post := List.mem_map.mpr ⟨r, hr, rfl⟩
      have h1 : r.field ≠ .installIf := fun e => hnoI.2 (e ▸ hrf)
      have h2 : r.field ∉ fieldsOf pre := fun m => hcross r.field m r.field hrf rfl
      simp only
      rw [get_set_ne _ _ _ _ h1, get_copyFields_not_mem p r.field pre {} h2])]
  congr 2
  apply pkg_ext
  intro f
  simp only
  by_cases hf : f = .installIf
  · subst hf
    rw [get_copyFields_not_mem p _ post _ hnoI.2]
    rfl
  · rw [idbProj_get p f hf]
    by_cases hpost : f ∈ fieldsOf post
    · exact get_copyFields_mem p f post _ hdpost hpost
    · have hpre : f ∈ fieldsOf pre := by
        have := ht.cover f hf
        rw [fieldsOf_append, List.mem_append] at this
        rcases this with h | h
        · exact h
        · exact absurd h hpost
      rw [get_copyFields_not_mem p f post _ hpost, get_set_ne _ _ _ _ hf]
      exact get_copyFields_mem p f pre {} hdpre hpre

/-! ## one package, all packages -/

/-- well-formed installed package: named, fields free of separators and in range, headers well-formed -/
def WFIPkg (ip : IPkg) : Bool := !ip.pkg.name.isEmpty && fieldsSafe ip.pkg && ip.files.all WFFile

/-- what reads back of an installed package -/
def readBack (ip : IPkg) : IPkg :=
  ⟨idbProj ip.pkg, ((sortHeaders ip.files).getD []).map fileProj⟩

/-- the lines `AddInstalledPackage` writes for one package -/
theorem renderInstalled_ok (c : Codec) (rows : List Row) (ip : IPkg) (t : Text)
    (h : renderInstalled c rows ip = .ok t) :
    ∃ sorted fl, sortHeaders ip.files = some sorted ∧ filesLines c sorted = .ok fl ∧
      t = unlines (recLines c rows ip.pkg ++ fl ++ [[]]) := by
  unfold renderInstalled at h
  split at h
  · exact absurd h (by simp)
  · next sorted hs =>
    cases hfl : filesLines c sorted with
    | ok fl => simp only [hfl, Res.bind, Res.ok.injEq] at h; exact ⟨sorted, fl, hs, hfl, h.symm⟩
    | err => simp [hfl, Res.bind] at h
    | oob => simp [hfl, Res.bind] at h

theorem idbFold_pkg (c : Codec) (hc : c.Lawful) (cs : List Case) (g : Bool) (rows pre post : List Row)
    (ht : IdbTable rows cs pre post) (hcs : FileCases cs) (ip : IPkg) (hw : WFIPkg ip = true)
    (sorted : List FileRec) (fl : List Text) (hsort : sortHeaders ip.files = some sorted)
    (hfl : filesLines c sorted = .ok fl) (pk : List IPkg) (rest : List Text) :
    idbFold c cs g ⟨pk, {}, [], none, none⟩ ((recLines c rows ip.pkg ++ fl ++ [[]]) ++ rest) =
      idbFold c cs g ⟨pk ++ [readBack ip], {}, [], none, none⟩ rest := by
  unfold WFIPkg at hw
  simp only [Bool.and_eq_true, Bool.not_eq_true', List.all_eq_true] at hw
  obtain ⟨⟨hname, hsafe⟩, hfiles⟩ := hw
  obtain ⟨hfd, hmem⟩ := sortHeaders_followsDir ip.files sorted hsort
  rw [List.append_assoc, List.append_assoc, idbFold_pkgLines c hc cs g rows pre post ht ip.pkg hsafe]
  obtain ⟨ld, lf, h⟩ := idbFold_files c cs g hcs ([[]] ++ rest) sorted fl ⟨pk, idbProj ip.pkg, [], none, none⟩ none hfl
    (fun f hf => hfiles f (hmem f hf)) hfd rfl
  rw [h]
  have hn : (idbProj ip.pkg).name ≠ [] := by
    intro e
    have : ip.pkg.name = [] := e
    simp [this] at hname
  simp only [List.singleton_append, idbFold_cons, idbStep, if_neg hn, Res.bind, List.nil_append, readBack, hsort,
    Option.getD_some]

theorem pkgLines_safe (c : Codec) (hc : c.Lawful) (cs : List Case) (rows pre post : List Row)
    (ht : IdbTable rows cs pre post) (p : Pkg) (hs : fieldsSafe p = true) :
    ∀ l ∈ recLines c rows p, lineSafe l = true := by
  intro l hl
  rw [ht.split, show pre ++ lossyRow :: post = pre ++ ([lossyRow] ++ post) by simp,
    recLines_append, recLines_append, recLines_lossy] at hl
  simp only [List.mem_append, List.mem_singleton] at hl
  rcases hl with h | h | h
  · exact recLines_safe c hc cs pre p (fun r hr => ht.ok r (by simp [hr])) hs l h
  · subst h
    have := fmtVal_safe c hc .plain (.list p.installIf) (fieldsSafe_get p hs .installIf)
    exact lineSafe_tag ['i', ':'] _ (by decide) this
  · exact recLines_safe c hc cs post p (fun r hr => ht.ok r (by simp [hr])) hs l h

theorem idbFold_all (c : Codec) (hc : c.Lawful) (cs : List Case) (g : Bool) (rows pre post : List Row)
    (ht : IdbTable rows cs pre post) (hcs : FileCases cs) :
    ∀ (ips : List IPkg) (t : Text) (pk : List IPkg), renderInstalledAll c rows ips = .ok t →
      (∀ ip ∈ ips, WFIPkg ip = true) →
      ∃ L, t = unlines L ∧ (∀ l ∈ L, lineSafe l = true) ∧
        idbFold c cs g ⟨pk, {}, [], none, none⟩ L = .ok ⟨pk ++ ips.map readBack, {}, [], none, none⟩ := by
  intro ips
  induction ips with
  | nil =>
    intro t pk h _
    simp only [renderInstalledAll, Res.ok.injEq] at h
    subst h
    exact ⟨[], rfl, by simp, by simp [idbFold]⟩
  | cons ip ips ih =>
    intro t pk h hwf
    simp only [renderInstalledAll] at h
    cases ha : renderInstalled c rows ip with
    | err => simp [ha, Res.bind] at h
    | oob => simp [ha, Res.bind] at h
    | ok a =>
      cases hb : renderInstalledAll c rows ips with
      | err => simp [ha, hb, Res.bind] at h
      | oob => simp [ha, hb, Res.bind] at h
      | ok b =>
        simp only [ha, hb, Res.bind, Res.ok.injEq] at h
        obtain ⟨sorted, fl, hsort, hfl, rfl⟩ := renderInstalled_ok c rows ip a ha
        obtain ⟨L, rfl, hLs, hL⟩ := ih b (pk ++ [readBack ip]) hb (fun x hx => hwf x (by simp [hx]))
        have hw := hwf ip (by simp)
        refine ⟨(recLines c rows ip.pkg ++ fl ++ [[]]) ++ L, by rw [← h, unlines_append (recLines c rows ip.pkg ++ fl ++ [[]]) L], ?_, ?_⟩
        · have hw' := hw
          unfold WFIPkg at hw'
          simp only [Bool.and_eq_true, Bool.not_eq_true', List.all_eq_true] at hw'
          intro l hl
          simp only [List.mem_append, List.mem_singleton] at hl
          rcases hl with ((h1 | h1) | h1) | h1
          · exact pkgLines_safe c hc cs rows pre post ht ip.pkg hw'.1.2 l h1
          · exact filesLines_safe c hc sorted fl hfl
              (fun f hf => hw'.2 f ((sortHeaders_followsDir ip.files sorted hsort).2 f hf)) l h1
          · subst h1; rfl
          · exact hLs l h1
        · rw [idbFold_pkg c hc cs g rows pre post ht hcs ip hw sorted fl hsort hfl pk L, hL]
          simp

/-- `ParseInstalled` of what `AddInstalledPackage` wrote, package by package: every package field but
`install_if`, and of every header (in `sortTarHeaders` order) path, kind, permission bits and owner -/
theorem parseInstalled_render (c : Codec) (hc : c.Lawful) (cs : List Case) (g : Bool) (rows : List Row)
    (ht : idbTableOK rows cs = true) (hcs : fileCasesOK cs = true) (ips : List IPkg) (t : Text)
    (hr : renderInstalledAll c rows ips = .ok t) (hwf : ∀ ip ∈ ips, WFIPkg ip = true)
    (hfit : linesFit defaultTokenMax (rawLines t) = true) :
    parseInstalled c cs g t = .ok (ips.map readBack) := by
  obtain ⟨pre, post, htab⟩ := idbTableOK_spec rows cs ht
  obtain ⟨L, rfl, hLs, hL⟩ := idbFold_all c hc cs g rows pre post htab (fileCasesOK_spec cs hcs) ips t [] hr hwf
  have hn : ∀ l ∈ L, '\n' ∉ l := fun l hl => ((lineSafe_iff l).mp (hLs l hl)).1
  rw [rawLines_unlines L hn] at hfit
  unfold parseInstalled
  rw [scanLines_unlines _ L hLs hfit]
  simp only []
  have : ({} : IdbState) = ⟨[], {}, [], none, none⟩ := rfl
  rw [this, hL]
  simp [Res.bind]

end Apko.Formats
