/-
Lemmas for C01's history theorems (`Model/MemoHistory.lean`): when `Get` hands out private copies on both
paths, every stored map stays what `disqualifyDifference` computed for its key (`Clean`), whatever was built
before; when the miss path hands out the stored object, a key nobody asked for before is still clean.
-/
import Apko.Model.MemoHistory

namespace Apko.MemoHistory

/-- every stored map is what `disqualifyDifference` gives for its key -/
def Clean (diff : Key → Dq) (m : Memo) : Prop := ∀ e ∈ m, e.2 = diff e.1

theorem find_some_mem {m : Memo} {k : Key} {dq : Dq} (h : find m k = some dq) : (k, dq) ∈ m := by
  unfold find at h
  cases hf : m.find? (fun e => e.1 = k) with
  | none => simp [hf] at h
  | some e =>
    simp [hf] at h
    have hm := List.mem_of_find?_eq_some hf
    have hk := List.find?_some hf
    simp at hk
    have : e = (k, dq) := by cases e; simp_all
    exact this ▸ hm

theorem find_clean {diff : Key → Dq} {m : Memo} (hc : Clean diff m) {k : Key} {dq : Dq}
    (h : find m k = some dq) : dq = diff k := hc _ (find_some_mem h)

theorem get_copying {diff : Key → Dq} {m : Memo} (hc : Clean diff m) (k : Key) :
    (get ⟨true, true⟩ diff m k).2.1 = diff k ∧ (get ⟨true, true⟩ diff m k).2.2 = false ∧
      Clean diff (get ⟨true, true⟩ diff m k).1 := by
  unfold get
  cases hf : find m k with
  | some dq => exact ⟨find_clean hc hf, rfl, hc⟩
  | none =>
    refine ⟨rfl, rfl, ?_⟩
    intro e he
    cases he with
    | head => rfl
    | tail _ h => exact hc e h

theorem build_copying {W R : Type} {diff : Key → Dq} (S : Solver W R) {m : Memo} (hc : Clean diff m) (b : Key × W) :
    Clean diff (build ⟨true, true⟩ diff S m b).1 ∧ (build ⟨true, true⟩ diff S m b).2 = S.result b.2 (diff b.1) := by
  obtain ⟨h1, h2, h3⟩ := get_copying hc b.1
  unfold build
  simp only [h1, h2]
  exact ⟨h3, trivial⟩

theorem runHist_copying {W R : Type} {diff : Key → Dq} (S : Solver W R) (hist : List (Key × W)) :
    ∀ {m : Memo}, Clean diff m → Clean diff (runHist ⟨true, true⟩ diff S m hist) := by
  induction hist with
  | nil => intro m hc; exact hc
  | cons b bs ih => intro m hc; exact ih (build_copying S hc b).1

theorem after_copying {W R : Type} (diff : Key → Dq) (S : Solver W R) (hist : List (Key × W)) (target : Key × W) :
    after ⟨true, true⟩ diff S hist target = S.result target.2 (diff target.1) := by
  unfold after
  have hc : Clean diff (runHist ⟨true, true⟩ diff S [] hist) := runHist_copying S hist (by intro e he; cases he)
  exact (build_copying S hc target).2

/-! the miss path hands out the stored object: a key that no earlier build used is not in the memo -/

def Absent (k : Key) (m : Memo) : Prop := ∀ e ∈ m, e.1 ≠ k

theorem find_absent {k : Key} {m : Memo} (h : Absent k m) : find m k = none := by
  unfold find
  cases hf : m.find? (fun e => e.1 = k) with
  | none => rfl
  | some e =>
    have hm := List.mem_of_find?_eq_some hf
    have hk := List.find?_some hf
    simp at hk
    exact absurd hk (h e hm)

theorem store_absent {k k2 : Key} {m : Memo} (v : Dq) (hk : k2 ≠ k) (h : Absent k m) : Absent k (store m k2 v) := by
  intro e he
  unfold store at he
  obtain ⟨e0, h0, rfl⟩ := List.mem_map.mp he
  by_cases hc : e0.1 = k2
  · simp [hc]; exact hk
  · simp [hc]; exact h e0 h0

theorem build_absent {W R : Type} (sh : GetShape) (diff : Key → Dq) (S : Solver W R) {m : Memo} {k : Key}
    (h : Absent k m) (b : Key × W) (hb : b.1 ≠ k) : Absent k (build sh diff S m b).1 := by
  have hg : Absent k (get sh diff m b.1).1 := by
    unfold get
    cases hf : find m b.1 with
    | some dq => exact h
    | none =>
      intro e he
      cases he with
      | head => exact hb
      | tail _ h2 => exact h e h2
  unfold build
  by_cases ha : (get sh diff m b.1).2.2 = true
  · simp only [ha, if_true]; exact store_absent _ hb hg
  · simp only [ha]; exact hg

theorem runHist_absent {W R : Type} (sh : GetShape) (diff : Key → Dq) (S : Solver W R) {k : Key}
    (hist : List (Key × W)) (hh : ∀ b ∈ hist, b.1 ≠ k) : ∀ {m : Memo}, Absent k m → Absent k (runHist sh diff S m hist) := by
  induction hist with
  | nil => intro m h; exact h
  | cons b bs ih =>
    intro m h
    exact ih (fun b2 h2 => hh b2 (List.mem_cons_of_mem _ h2)) (build_absent sh diff S h b (hh b (List.mem_cons_self ..)))

theorem after_absent {W R : Type} (sh : GetShape) (diff : Key → Dq) (S : Solver W R) (hist : List (Key × W))
    (target : Key × W) (hh : ∀ b ∈ hist, b.1 ≠ target.1) :
    after sh diff S hist target = S.result target.2 (diff target.1) := by
  unfold after
  have ha : Absent target.1 (runHist sh diff S [] hist) := runHist_absent sh diff S hist hh (by intro e he; cases he)
  unfold build get
  simp [find_absent ha]

end Apko.MemoHistory
