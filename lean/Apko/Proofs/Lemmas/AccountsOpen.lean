import Apko.Proofs.Lemmas.AccountsExt
/-! Reading back what was just written (`Create` + `Write` then `Open` + read) through the model of
`openFile`, for a path whose last component is not a symbolic link. -/
namespace Apko.Accounts
open Apko Apko.Path Apko.FS Apko.Formats


theorem Ext.refl (fs : FS) : Ext fs fs := ⟨fun _ h => h, fun _ _ _ _ h => h, fun _ _ _ _ _ => ⟨rfl, rfl, rfl⟩⟩

theorem Ext.trans {a b c : FS} (h1 : Ext a b) (h2 : Ext b c) : Ext a c := by
  refine ⟨fun i h => h2.dir i (h1.dir i h), fun d n j hd hl => h2.look d n j (h1.dir d hd) (h1.look d n j hd hl), ?_⟩
  intro d n j hd hl
  have s1 := h1.sym d n j hd hl
  have s2 := h2.sym d n j (h1.dir d hd) (h1.look d n j hd hl)
  exact ⟨s2.1.trans s1.1, s2.2.1.trans s1.2.1, s2.2.2.trans s1.2.2⟩

theorem Ext.of_shape {fs fs' : FS} (h : ShapeEq fs fs') : Ext fs fs' := by
  refine ⟨fun i hd => by rw [h.dir i]; exact hd, ?_, fun d n j _ _ => ⟨h.sym j, h.target j, h.dir j⟩⟩
  intro d n j _ hl
  simp only [FS.lookup, h.children d] at hl ⊢; exact hl

/-- Impl resolution ignores the start stack and returns the bare node -/
theorem resolveFrom_impl {c : Cfg} (hc : c.posix = false) (fs : FS) (st : List Ino) (p : Text) :
    resolveFrom c fs st p = (getNode c fs p).map fun i => ({ ino := i } : Pos) := by
  simp only [getNode, resolveFrom, hc, Bool.false_eq_true, if_false]
  cases getNodeD fs (maxLinks + 1) p 0 with
  | error e => rfl
  | ok v => rfl

end Apko.Accounts
