import Apko.Proofs.Lemmas.AccountsExt
/-! Reading back what was just written (`Create` + `Write` then `Open` + read) through the model of
`openFile`, for a path whose last component is not a symbolic link. -/
namespace Apko.Accounts
open Apko Apko.Path Apko.FS Apko.Formats


theorem Ext.refl (fs : FS) : Ext fs fs := ⟨fun _ h => h, fun _ _ _ _ h => h, fun _ _ _ _ _ => ⟨rfl, rfl, rfl⟩⟩

theorem Ext.trans {a b c : FS} (h1 : Ext a b) (h2 : Ext b c) : Ext a c := by
  refine ⟨fun i h => h2.dir i (h1.dir i h), fun d n j hd hl => h2.look d n j (h1.dir d hd) (h1.look d n j hd hl), ?_⟩
  intro d n j hd hl
  have s1 := h1.sym d n j hd hl
  have s2 := h2.sym d n j (h1.dir d hd) (h1.look d n j hd hl)
  exact ⟨s2.1.trans s1.1, s2.2.1.trans s1.2.1, s2.2.2.trans s1.2.2⟩

theorem Ext.of_shape {fs fs' : FS} (h : ShapeEq fs fs') : Ext fs fs' := by
  refine ⟨fun i hd => by rw [h.dir i]; exact hd, ?_, fun d n j _ _ => ⟨h.sym j, h.target j, h.dir j⟩⟩
  intro d n j _ hl
  simp only [FS.lookup, h.children d] at hl ⊢; exact hl

/-- Impl resolution ignores the start stack and returns the bare node -/
theorem resolveFrom_impl {c : Cfg} (hc : c.posix = false) (fs : FS) (st : List Ino) (p : Text) :
    resolveFrom c fs st p = (getNode c fs p).map fun i => ({ ino := i } : Pos) := by
  simp only [getNode, resolveFrom, hc, Bool.false_eq_true, if_false]
  cases getNodeD fs (maxLinks + 1) p 0 with
  | error e => rfl
  | ok v => rfl



/-- the node an `openFile` that may create ends at, when the last component is not a link -/
def openTarget (fs : FS) (pi : Ino) (b : Name) (perm : Nat) : FS × Ino :=
  match fs.lookup pi b with
  | some a => (fs, a)
  | none => fs.create pi b { mode := perm }

/-- one level of `openFile` with `O_CREATE`, last component not a symbolic link -/
theorem openFileD_nolink (c : Cfg) (hc : c.posix = false) (flag perm budget : Nat) (fs : FS) (start : List Ino)
    (name : Text) (pi : Ino) (hcr : oCreate flag = true ∨ (fs.lookup pi (base name)).isSome = true)
    (hg : getNode c fs (dir name) = .ok pi)
    (hd : (fs.node pi).dir = true)
    (hex : ∀ a, fs.lookup pi (base name) = some a → (fs.node a).dir = false ∧ (fs.node a).isSymlink = false)
    (hperm : perm.testBit 27 = false)
    (hdn : fs.lookup pi (base name) = none → dotName (base name) = false) :
    openFileD c flag perm budget fs start name =
      (let t := openTarget fs pi (base name) perm
       match (if c.backend = .tarfs then teLive c (t.1.node t.2) else none) with
       | some te =>
         if !(oAppend flag || oRdwr flag || oWronly flag) then
           (t.1, .ok { ino := t.2, rc := true, name := name, start := start })
         else (t.1.setNode t.2 { t.1.node t.2 with data := te.content, mat := true },
               .ok { ino := t.2, rc := false, name := name, start := start })
       | none => (t.1, .ok { ino := t.2, rc := false, name := name, start := start })) := by
  unfold openFileD
  simp only [resolveFrom_impl hc, hg, Except.map, hd, Bool.not_true, Bool.false_eq_true, if_false]
  cases hl : fs.lookup pi (base name) with
  | some a =>
    obtain ⟨h1, h2⟩ := hex a hl
    simp only [openTarget, hl, h1, h2, Bool.false_eq_true, if_false, Option.isNone_some, false_and]
    generalize (if c.backend = Backend.tarfs then teLive c (fs.node a) else none) = x
    cases x <;> rfl
  | none =>
    have hn : ((fs.create pi (base name) { mode := perm }).1.node (fs.create pi (base name) { mode := perm }).2).isSymlink = false := by
      rw [create_ino, node_create_new fs pi _ _ hd]; exact hperm
    have hcr' : oCreate flag = true := by simpa [hl] using hcr
    simp only [openTarget, hl, Bool.false_eq_true, if_false, hn, hcr', Bool.not_true, and_false, hdn hl]
    generalize (if c.backend = Backend.tarfs then
      teLive c ((fs.create pi (base name) { mode := perm }).1.node (fs.create pi (base name) { mode := perm }).2) else none) = x
    cases x <;> rfl



/-- an `openFile` that fails before reaching the last component leaves an error -/
theorem openFileD_pre (c : Cfg) (hc : c.posix = false) (flag perm budget : Nat) (fs : FS) (start : List Ino)
    (name : Text) (fs0 : FS) (o : Opened) (h : openFileD c flag perm budget fs start name = (fs0, .ok o)) (hcr : oCreate flag = true) :
    ∃ pi, getNode c fs (dir name) = .ok pi ∧ (fs.node pi).dir = true ∧
      (∀ a, fs.lookup pi (base name) = some a → (fs.node a).dir = false) ∧
      (fs.lookup pi (base name) = none → dotName (base name) = false) := by
  unfold openFileD at h
  simp only [resolveFrom_impl hc] at h
  cases hg : getNode c fs (dir name) with
  | error e => simp [hg, Except.map] at h
  | ok pi =>
    simp only [hg, Except.map] at h
    by_cases hd : (fs.node pi).dir = true
    · refine ⟨pi, rfl, hd, ?_, ?_⟩
      · intro a hl
        simp only [hd, Bool.not_true, Bool.false_eq_true, if_false, hcr, and_false, hl] at h
        by_cases hda : (fs.node a).dir = true
        · simp [hda] at h
        · simpa using hda
      · intro hl
        simp only [hd, Bool.not_true, Bool.false_eq_true, if_false, hcr, and_false, hl] at h
        cases hdn : dotName (base name) with
        | false => rfl
        | true => simp [hdn] at h
    · simp [hd] at h



theorem openTarget_facts (fs : FS) (hi : FS.Inv fs) (pi : Ino) (b : Name) (perm : Nat)
    (hd : (fs.node pi).dir = true) (hperm : perm.testBit 27 = false)
    (hex : ∀ a, fs.lookup pi b = some a → (fs.node a).dir = false ∧ (fs.node a).isSymlink = false) :
    Ext fs (openTarget fs pi b perm).1 ∧
    (openTarget fs pi b perm).1.lookup pi b = some (openTarget fs pi b perm).2 ∧
    ((openTarget fs pi b perm).1.node (openTarget fs pi b perm).2).dir = false ∧
    ((openTarget fs pi b perm).1.node (openTarget fs pi b perm).2).isSymlink = false ∧
    (openTarget fs pi b perm).2 < (openTarget fs pi b perm).1.nodes.length ∧
    ((openTarget fs pi b perm).1.node pi).dir = true := by
  unfold openTarget
  cases hl : fs.lookup pi b with
  | some a =>
    obtain ⟨h1, h2⟩ := hex a hl
    exact ⟨Ext.refl fs, hl, h1, h2, lookup_live hi hl, hd⟩
  | none =>
    simp only []
    have hn := node_create_new fs pi b { mode := perm } hd
    refine ⟨ext_create hi pi b _ hd hl, lookup_create fs pi b _ hd, ?_, ?_, ?_, ?_⟩
    · rw [create_ino, hn]
    · rw [create_ino, hn]; exact hperm
    · rw [create_ino, length_create]; exact Nat.lt_succ_self _
    · exact (ext_create hi pi b _ hd hl).dir pi hd

/-- replacing content (and the `mat` flag) of a node keeps the shape -/
theorem shape_setData (fs : FS) (a : Ino) (d : Text) (m : Bool) :
    ShapeEq fs (fs.setNode a { fs.node a with data := d, mat := m }) :=
  ShapeEq.modify fs a (fun n => { n with data := d, mat := m }) (by intro n; rfl) (by intro n; rfl) rfl (by intro n; rfl)

theorem ShapeEq.trans {a b c : FS} (h1 : ShapeEq a b) (h2 : ShapeEq b c) : ShapeEq a c :=
  ⟨fun i => (h2.dir i).trans (h1.dir i), fun i => (h2.children i).trans (h1.children i),
   fun i => (h2.sym i).trans (h1.sym i), fun i => (h2.target i).trans (h1.target i)⟩

theorem ShapeEq.refl (a : FS) : ShapeEq a a := ⟨fun _ => rfl, fun _ => rfl, fun _ => rfl, fun _ => rfl⟩



/-- replacing a node by one of the same shape keeps the shape -/
theorem shape_setNode (fs : FS) (a : Ino) (n' : Inode) (hd : n'.dir = (fs.node a).dir)
    (hc : n'.children = (fs.node a).children) (hs : n'.isSymlink = (fs.node a).isSymlink)
    (ht : n'.target = (fs.node a).target) : ShapeEq fs (fs.setNode a n') := by
  refine ⟨?_, ?_, ?_, ?_⟩ <;> intro j <;> rw [node_setNode] <;> split <;> try rfl
  · rename_i h; rw [h.1]; exact hd
  · rename_i h; rw [h.1]; exact hc
  · rename_i h; rw [h.1]; exact hs
  · rename_i h; rw [h.1]; exact ht

theorem teLive_none_of_data (c : Cfg) (n : Inode) (h : n.data ≠ []) : teLive c n = none := by
  unfold teLive
  cases n.te with
  | none => rfl
  | some te =>
    have : n.data.length ≠ 0 := by simpa using h
    simp [this]

theorem writeAt_empty (t : Text) (ht : t ≠ []) : writeAt [] 0 t = t := by
  have : 0 < t.length := List.length_pos_iff.mpr ht
  simp [writeAt, ht, zeros]

/-- opening for reading a regular, non-empty, in-memory-backed file at a path whose last component
is not a link: the handle reads the node's data -/
theorem readText_of_entry (c : Cfg) (hc : c.posix = false) (fs : FS) (p : Text) (pi a : Ino)
    (hg : getNode c fs (dir p) = .ok pi) (hd : (fs.node pi).dir = true)
    (hl : fs.lookup pi (base p) = some a) (hda : (fs.node a).dir = false) (hsa : (fs.node a).isSymlink = false)
    (hdata : (fs.node a).data ≠ []) : readText c fs p = (fs.node a).data := by
  have hex : ∀ a', fs.lookup pi (base p) = some a' → (fs.node a').dir = false ∧ (fs.node a').isSymlink = false := by
    intro a' h'; rw [hl] at h'; cases h'; exact ⟨hda, hsa⟩
  unfold readText openCore
  rw [openFileD_nolink c hc 0 0 maxLinks fs [0] p pi (Or.inr (by simp [hl])) hg hd hex (by decide) (by simp [hl])]
  simp [openTarget, hl, teLive_none_of_data c _ hdata, newMemFile, oAppend, oTrunc, handleData]



/-- **read back what was written**: after `Create(p)` + `Write(t)` succeeded (`t` non-empty, the
last component of `p` not a symbolic link), opening `p` for reading delivers exactly `t` — also
when the file was package-backed before. -/
theorem writeBack_readText (c : Cfg) (hc : c.posix = false) (fs fs' : FS) (hi : FS.Inv fs) (p t : Text) (ht : t ≠ [])
    (hnl : ∀ pi a, getNode c fs (dir p) = .ok pi → fs.lookup pi (base p) = some a → (fs.node a).isSymlink = false)
    (h : writeBack c fs p t = (fs', none)) : readText c fs' p = t := by
  simp only [writeBack, act, step] at h
  cases ho : openCore c fs p flagsWriteFile createPerm with
  | mk fs1 r =>
    cases r with
    | error e => simp [ho, errOf] at h
    | ok hdl =>
      simp only [ho, errOf, Prod.mk.injEq, and_true] at h
      subst h
      unfold openCore at ho
      cases hod : openFileD c flagsWriteFile createPerm maxLinks fs [0] p with
      | mk fs0 ro =>
        cases ro with
        | error e => simp [hod] at ho
        | ok o =>
          rw [hod] at ho
          obtain ⟨pi, hg, hd, hdir, hdn⟩ := openFileD_pre c hc _ _ _ fs [0] p fs0 o hod (by decide)
          have hex : ∀ a, fs.lookup pi (base p) = some a → (fs.node a).dir = false ∧ (fs.node a).isSymlink = false :=
            fun a hl => ⟨hdir a hl, hnl pi a hg hl⟩
          obtain ⟨hext, hlk, hda, hsa, hlive, hdp⟩ :=
            openTarget_facts fs hi pi (base p) createPerm hd (by decide) hex
          rw [openFileD_nolink c hc _ _ _ fs [0] p pi (Or.inl (by decide)) hg hd hex (by decide) hdn] at hod
          generalize openTarget fs pi (base p) createPerm = tg at hod hext hlk hda hsa hlive hdp
          obtain ⟨g, a⟩ := tg
          simp only [] at hod hext hlk hda hsa hlive hdp
          -- the state the open returns: `g` with (possibly) the content of node `a` replaced
          have hfs0 : ShapeEq g fs0 ∧ o.ino = a ∧ fs0.nodes.length = g.nodes.length := by
            have hw : (!(oAppend flagsWriteFile || oRdwr flagsWriteFile || oWronly flagsWriteFile)) = false := by decide
            cases hte : (if c.backend = Backend.tarfs then teLive c (g.node a) else none) with
            | none =>
              simp only [hte, Prod.mk.injEq, Except.ok.injEq] at hod
              obtain ⟨rfl, rfl⟩ := hod
              exact ⟨ShapeEq.refl _, rfl, rfl⟩
            | some te =>
              simp only [hte, hw, Bool.false_eq_true, if_false, Prod.mk.injEq, Except.ok.injEq] at hod
              obtain ⟨rfl, rfl⟩ := hod
              exact ⟨shape_setNode g a _ rfl rfl rfl rfl, rfl, by simp [FS.setNode]⟩
          obtain ⟨hs0, hoa, hlen0⟩ := hfs0
          simp only [newMemFile] at ho
          have htr : oTrunc flagsWriteFile = true := by decide
          simp only [htr, if_true, Prod.mk.injEq, Except.ok.injEq] at ho
          obtain ⟨rfl, rfl⟩ := ho
          simp only [hoa]
          -- the two metadata-only updates
          have ha0 : a < fs0.nodes.length := by rw [hlen0]; exact hlive
          obtain ⟨f1, hf1⟩ : ∃ f1, f1 = fs0.setNode a { fs0.node a with data := [], mat := true } := ⟨_, rfl⟩
          rw [← hf1]
          have hs1 : ShapeEq fs0 f1 := by rw [hf1]; exact shape_setNode fs0 a _ rfl rfl rfl rfl
          have hn1 : f1.node a = { fs0.node a with data := [], mat := true } := by
            rw [hf1, node_setNode]; simp [ha0]
          have ha1 : a < f1.nodes.length := by simp [hf1, FS.setNode]; exact ha0
          obtain ⟨f2, hf2⟩ : ∃ f2, f2 = f1.setNode a { f1.node a with data := writeAt (f1.node a).data 0 t } := ⟨_, rfl⟩
          rw [← hf2]
          have hs2 : ShapeEq f1 f2 := by rw [hf2]; exact shape_setNode f1 a _ rfl rfl rfl rfl
          have hn2 : f2.node a = { f1.node a with data := writeAt (f1.node a).data 0 t } := by
            rw [hf2, node_setNode]; simp [ha1]
          have hsh : ShapeEq g f2 := ShapeEq.trans (ShapeEq.trans hs0 hs1) hs2
          have hdata : (f2.node a).data = t := by rw [hn2, hn1]; exact writeAt_empty t ht
          have hE : Ext fs f2 := hext.trans (Ext.of_shape hsh)
          rw [readText_of_entry c hc f2 p pi a (getNode_ext hc hE hg) (hE.dir pi hd)
            (by simp only [FS.lookup, hsh.children pi] ; exact hlk)
            (by rw [hsh.dir a]; exact hda) (by rw [hsh.sym a]; exact hsa) (by rw [hdata]; exact ht)]
          exact hdata

/-- a path whose parent resolves to a directory holding a non-link entry under its base name
resolves to that entry (for paths whose component list is that of `Dir` followed by `Base`) -/
theorem resolve_entry {c : Cfg} (hc : c.posix = false) {fs : FS} {p : Text} {pi a : Ino}
    (hg : getNode c fs (dir p) = .ok pi) (hd : (fs.node pi).dir = true)
    (hl : fs.lookup pi (base p) = some a) (hs : (fs.node a).isSymlink = false)
    (hsplit : parts p = parts (dir p) ++ [base p]) (hp : p ≠ dot ∧ dir p ≠ dot) :
    getNode c fs p = .ok a := by
  simp only [getNode, resolveFrom, hc, Bool.false_eq_true, if_false] at hg ⊢
  rw [getNodeD_eq_walk _ _ _ _ hp.2] at hg
  rw [getNodeD_eq_walk _ _ _ _ hp.1, hsplit]
  cases hw : walkImpl fs (some (getNodeD fs maxLinks)) (parts (dir p)) 0 [] 0 with
  | error e => simp [hw, Except.map] at hg
  | ok v =>
    obtain ⟨n, c'⟩ := v
    have hn : n = pi := by simpa [hw, Except.map] using hg
    subst hn
    rw [walkImpl_append _ _ _ _ _ _ _ _ _ hw]
    unfold walkImpl
    simp [hd, hl, hs, walkImpl, Except.map]

/-- `Create(p)` (then `Close`) where the last component is not a link and not package-backed: the
entry at `p` is a regular node with no content -/
theorem createEmpty_post (c : Cfg) (hc : c.posix = false) (fs fs1 : FS) (hi : FS.Inv fs) (p : Text)
    (hnl : ∀ pi a, getNode c fs (dir p) = .ok pi → fs.lookup pi (base p) = some a →
      (fs.node a).isSymlink = false ∧ (fs.node a).te = none)
    (h : createEmpty c fs p = (fs1, none)) :
    ∃ pi a, getNode c fs1 (dir p) = .ok pi ∧ (fs1.node pi).dir = true ∧ fs1.lookup pi (base p) = some a ∧
      (fs1.node a).dir = false ∧ (fs1.node a).isSymlink = false ∧ (fs1.node a).data = [] ∧
      (fs1.node a).te = none ∧ FS.Inv fs1 := by
  have hi1 : FS.Inv fs1 := by
    have := openCore_inv c fs p flagsWriteFile createPerm hi
    unfold createEmpty at h
    cases ho : openCore c fs p flagsWriteFile createPerm with
    | mk x r => cases r with
      | error e => simp [ho] at h
      | ok hd => simp only [ho, Prod.mk.injEq, and_true] at h; rw [ho] at this; rw [← h]; exact this
  unfold createEmpty at h
  cases ho : openCore c fs p flagsWriteFile createPerm with
  | mk x r =>
    cases r with
    | error e => simp [ho] at h
    | ok hdl =>
      simp only [ho, Prod.mk.injEq, and_true] at h
      subst h
      unfold openCore at ho
      cases hod : openFileD c flagsWriteFile createPerm maxLinks fs [0] p with
      | mk fs0 ro =>
        cases ro with
        | error e => simp [hod] at ho
        | ok o =>
          rw [hod] at ho
          obtain ⟨pi, hg, hd, hdir, hdn⟩ := openFileD_pre c hc _ _ _ fs [0] p fs0 o hod (by decide)
          have hex : ∀ a, fs.lookup pi (base p) = some a → (fs.node a).dir = false ∧ (fs.node a).isSymlink = false :=
            fun a hl => ⟨hdir a hl, (hnl pi a hg hl).1⟩
          obtain ⟨hext, hlk, hda, hsa, hlive, hdp⟩ :=
            openTarget_facts fs hi pi (base p) createPerm hd (by decide) hex
          have hte : ((openTarget fs pi (base p) createPerm).1.node (openTarget fs pi (base p) createPerm).2).te = none := by
            unfold openTarget
            cases hl : fs.lookup pi (base p) with
            | some a => exact (hnl pi a hg hl).2
            | none => simp only []; rw [create_ino, node_create_new fs pi _ _ hd]
          rw [openFileD_nolink c hc _ _ _ fs [0] p pi (Or.inl (by decide)) hg hd hex (by decide) hdn] at hod
          generalize openTarget fs pi (base p) createPerm = tg at hod hext hlk hda hsa hlive hdp hte
          obtain ⟨g, a⟩ := tg
          simp only [] at hod hext hlk hda hsa hlive hdp hte
          -- not package-backed: the open returns `g` itself
          have htl : (if c.backend = Backend.tarfs then teLive c (g.node a) else none) = none := by
            have : teLive c (g.node a) = none := by simp [teLive, hte]
            simp [this]
          simp only [htl, Prod.mk.injEq, Except.ok.injEq] at hod
          obtain ⟨rfl, rfl⟩ := hod
          simp only [newMemFile] at ho
          have htr : oTrunc flagsWriteFile = true := by decide
          simp only [htr, if_true, Prod.mk.injEq, Except.ok.injEq] at ho
          obtain ⟨rfl, _⟩ := ho
          have hsh : ShapeEq g (g.setNode a { g.node a with data := [], mat := true }) :=
            shape_setNode g a _ rfl rfl rfl rfl
          have hn : (g.setNode a { g.node a with data := [], mat := true }).node a =
              { g.node a with data := [], mat := true } := by rw [node_setNode]; simp [hlive]
          have hE := hext.trans (Ext.of_shape hsh)
          refine ⟨pi, a, getNode_ext hc hE hg, hE.dir pi hd, ?_, ?_, ?_, ?_, ?_, hi1⟩
          · simp only [FS.lookup, hsh.children pi]; exact hlk
          · rw [hsh.dir a]; exact hda
          · rw [hsh.sym a]; exact hsa
          · rw [hn]
          · rw [hn]; exact hte

theorem dirBit_setNode {fs : FS} (hb : DirBit fs) (a : Ino) (n' : Inode)
    (hm : n'.mode = (fs.node a).mode) (hd : n'.dir = (fs.node a).dir) : DirBit (fs.setNode a n') := by
  intro i h
  rw [node_setNode] at h ⊢
  split at h
  · rename_i hc; simp only [hc, and_self, if_true]; rw [hm] at h; rw [hd]; exact hb a h
  · rename_i hc; simp only [hc, if_false]; exact hb i h

/-- a new plain file (permission bits only) keeps `DirBit` -/
theorem dirBit_create_file {fs : FS} (hb : DirBit fs) (d : Nat) (n : Name) (perm : Nat)
    (hperm : perm.testBit 31 = false) (hd : (fs.node d).dir = true) :
    DirBit (fs.create d n { mode := perm }).1 :=
  dirBit_create hb d n _ hd (by intro h; simp [hperm] at h)

/-- `DirBit` as a structure (so that unification never unfolds it) -/
structure DB (fs : FS) : Prop where
  h : DirBit fs

theorem DB.setNode {fs : FS} (hb : DB fs) (a : Ino) (n' : Inode)
    (hm : n'.mode = (fs.node a).mode) (hd : n'.dir = (fs.node a).dir) : DB (fs.setNode a n') :=
  ⟨dirBit_setNode hb.h a n' hm hd⟩

theorem DB.createFile {fs : FS} (hb : DB fs) (d : Nat) (n : Name) (perm : Nat)
    (hperm : perm.testBit 31 = false) (hd : (fs.node d).dir = true) : DB (fs.create d n { mode := perm }).1 :=
  ⟨dirBit_create_file hb.h d n perm hperm hd⟩

theorem openFileD_DB (c : Cfg) (flag perm : Nat) (hperm : perm.testBit 31 = false) :
    ∀ (budget : Nat) (fs : FS) (start : List Ino) (name : Text),
      DB fs → DB (openFileD c flag perm budget fs start name).1 := by
  intro budget
  induction budget with
  | zero =>
    intro fs start name hb
    unfold openFileD
    simp only []
    repeat' split
    all_goals (try exact hb)
    all_goals (try exact hb.createFile _ _ _ hperm (by simp_all))
    all_goals (try exact (hb.createFile _ _ _ hperm (by simp_all)).setNode _ _ rfl rfl)
    all_goals (exact hb.setNode _ _ rfl rfl)
  | succ k ih =>
    intro fs start name hb
    unfold openFileD
    simp only []
    repeat' split
    all_goals (try exact hb)
    all_goals (try exact ih _ _ _ hb)
    all_goals (try exact ih _ _ _ (hb.createFile _ _ _ hperm (by simp_all)))
    all_goals (try exact hb.createFile _ _ _ hperm (by simp_all))
    all_goals (try exact (hb.createFile _ _ _ hperm (by simp_all)).setNode _ _ rfl rfl)
    all_goals (exact hb.setNode _ _ rfl rfl)

theorem openCore_dirBit (c : Cfg) (fs : FS) (name : Text) (flag perm : Nat) (hperm : perm.testBit 31 = false)
    (hb : DirBit fs) : DirBit (openCore c fs name flag perm).1 := by
  unfold openCore
  have := openFileD_DB c flag perm hperm maxLinks fs [0] name ⟨hb⟩
  split
  · rename_i heq; simp only [heq] at this; exact this.h
  · rename_i fs1 o heq
    simp only [heq] at this
    simp only [newMemFile]
    split
    · exact dirBit_setNode this.h _ _ rfl rfl
    · exact this.h

end Apko.Accounts
