/-
C12, the creation time of everything a whole `apko build` emits.

`Impl.*` (Model/OciCreated.lean) is `build.New`'s fold of SOURCE_DATE_EPOCH, `Context.GetBuildDateEpoch` and the
`multiArchBDE` computation of `buildImageComponents`, statement by statement; the `tie_created_*` facts are those
statements regenerated from pkg/build/build.go and internal/cli/build.go on every run.  The theorems: a declared
SOURCE_DATE_EPOCH wins (for every build-date option and whatever the installed packages say), without one the
result is the maximum, with neither it is the option (default 0); `Impl = Spec` for the images, for all inputs.
-/
import Apko.Model.OciCreated

namespace Apko.C12.Created
open Apko Apko.OciCreated

/-! ## ties -/

/-- `GetBuildDateEpoch`: the exported SOURCE_DATE_EPOCH is looked at FIRST and returns the option value; only then
the installed packages are folded in, starting from the option value -/
theorem tie_created_get_build_date_epoch : Generated.stmts_GetBuildDateEpoch =
    ["if _, ok := os.LookupEnv(\"SOURCE_DATE_EPOCH\"); ok { return bc.o.SourceDateEpoch, nil }",
     "pl, err := bc.apk.GetInstalled()",
     "if err != nil { return }",
     "bde := bc.o.SourceDateEpoch",
     "for _, p := range pl { ... }",
     "return bde, nil"] := rfl

/-- the loop body is `Impl.foldPkgs`' step -/
theorem tie_created_loop : Generated.loop_GetBuildDateEpoch =
    ["if p.BuildTime.After(bde) { bde = p.BuildTime }"] := rfl

/-- `applySourceDateEpoch` folds an exported non-blank SOURCE_DATE_EPOCH (parsed as a decimal int64) into the
options; `New` and `NewOptions` both call it right after the loop over the options -/
theorem tie_created_new_epoch :
    Generated.newEpochCond = "v, ok := os.LookupEnv(\"SOURCE_DATE_EPOCH\"); ok && len(strings.TrimSpace(v)) != 0" ∧
    Generated.newEpochAssigns = [("sec, err", "strconv.ParseInt(v, 10, 64)"),
      ("bc.o.SourceDateEpoch", "time.Unix(sec, 0).UTC()")] ∧
    Generated.epochAppliers = [("NewOptions", "for _, opt := range opts { ... }"),
      ("New", "for _, opt := range opts { ... }")] := ⟨rfl, rfl, rfl⟩

/-- nobody else in pkg/build, pkg/build/oci, internal/cli reads the variable -/
theorem tie_created_readers : Generated.sourceDateEpochReaders =
    ["build.go:GetBuildDateEpoch", "build.go:applySourceDateEpoch"] := rfl

/-- the index time: starts from the options' value, raised to every architecture's, handed to GenerateIndex -/
theorem tie_created_multi_arch : Generated.multiArchBDE =
    ["multiArchBDE := o.SourceDateEpoch",
     "if bde.After(multiArchBDE)",
     "call bde.After",
     "multiArchBDE = bde",
     "finalDigest, idx, err := oci.GenerateIndex(ctx, *ic, imgs, multiArchBDE)",
     "call oci.GenerateIndex",
     "opts = append(opts, build.WithImageConfiguration(*ic), build.WithSourceDateEpoch(multiArchBDE), )",
     "call build.WithSourceDateEpoch"] := rfl

/-! ## the fold is the maximum -/

theorem foldPkgs_ge_base (b : Int) (l : List Int) : b ≤ Impl.foldPkgs b l := by
  induction l generalizing b with
  | nil => simp [Impl.foldPkgs]
  | cons p ps ih =>
    simp only [Impl.foldPkgs]
    by_cases h : p > b
    · rw [if_pos h]; have := ih p; omega
    · rw [if_neg h]; exact ih b

theorem foldPkgs_ge_mem (b : Int) (l : List Int) : ∀ p ∈ l, p ≤ Impl.foldPkgs b l := by
  induction l generalizing b with
  | nil => simp
  | cons q qs ih =>
    intro p hp
    simp only [Impl.foldPkgs]
    rcases List.mem_cons.mp hp with rfl | h
    · by_cases h : p > b
      · rw [if_pos h]; exact foldPkgs_ge_base p qs
      · rw [if_neg h]; have := foldPkgs_ge_base b qs; omega
    · exact ih _ p h

theorem foldPkgs_attained (b : Int) (l : List Int) : Impl.foldPkgs b l = b ∨ Impl.foldPkgs b l ∈ l := by
  induction l generalizing b with
  | nil => simp [Impl.foldPkgs]
  | cons q qs ih =>
    simp only [Impl.foldPkgs]
    by_cases h : q > b
    · rw [if_pos h]
      rcases ih q with e | e
      · right; rw [e]; simp
      · right; exact List.mem_cons_of_mem _ e
    · rw [if_neg h]
      rcases ih b with e | e
      · left; exact e
      · right; exact List.mem_cons_of_mem _ e

theorem foldPkgs_isMax (b : Int) (l : List Int) : Spec.IsMax (Impl.foldPkgs b l) b l :=
  ⟨foldPkgs_ge_base b l, foldPkgs_ge_mem b l, foldPkgs_attained b l⟩

/-- a maximum is unique -/
theorem isMax_unique {m m' b : Int} {l : List Int} (h : Spec.IsMax m b l) (h' : Spec.IsMax m' b l) : m = m' := by
  obtain ⟨h1, h2, h3⟩ := h
  obtain ⟨h1', h2', h3'⟩ := h'
  have a : m ≤ m' := by
    rcases h3 with e | e
    · omega
    · exact h2' m e
  have b' : m' ≤ m := by
    rcases h3' with e | e
    · omega
    · exact h2 m' e
  omega

theorem foldPkgs_eq_maxOf (b : Int) (l : List Int) : Impl.foldPkgs b l = Spec.maxOf b l := by
  unfold Spec.maxOf
  induction l generalizing b with
  | nil => rfl
  | cons p ps ih =>
    simp only [Impl.foldPkgs, List.foldl_cons]
    rw [ih]
    congr 1
    split <;> omega

theorem maxOf_isMax (b : Int) (l : List Int) : Spec.IsMax (Spec.maxOf b l) b l := by
  rw [← foldPkgs_eq_maxOf]; exact foldPkgs_isMax b l

/-- the order of the installed packages does not matter -/
theorem foldPkgs_perm (b : Int) {l l' : List Int} (h : l.Perm l') : Impl.foldPkgs b l = Impl.foldPkgs b l' := by
  apply isMax_unique (foldPkgs_isMax b l)
  obtain ⟨h1, h2, h3⟩ := foldPkgs_isMax b l'
  exact ⟨h1, fun p hp => h2 p (h.mem_iff.mp hp), h3.imp id (fun e => h.mem_iff.mpr e)⟩

/-! ## GetBuildDateEpoch -/

/-- **the declared epoch wins**: with SOURCE_DATE_EPOCH exported the result is the option value, whatever the
installed packages say -/
theorem getBuildDateEpoch_declared_wins (sde : Int) (pkgs : List Int) :
    Impl.getBuildDateEpoch true sde pkgs = sde := rfl

/-- **else the maximum** of the option value and the packages' build dates -/
theorem getBuildDateEpoch_undeclared_max (sde : Int) (pkgs : List Int) :
    Spec.IsMax (Impl.getBuildDateEpoch false sde pkgs) sde pkgs := by
  simp only [Impl.getBuildDateEpoch]; exact foldPkgs_isMax sde pkgs

/-- **else 0**: nothing declared (the default option value) and nothing installed -/
theorem getBuildDateEpoch_nothing (exported : Bool) : Impl.getBuildDateEpoch exported 0 [] = 0 := by
  cases exported <;> rfl

/-- a package older than (or as old as) the option never shows -/
theorem getBuildDateEpoch_older_packages (e : Bool) (sde : Int) (pkgs : List Int) (h : ∀ p ∈ pkgs, p ≤ sde) :
    Impl.getBuildDateEpoch e sde pkgs = sde := by
  cases e
  · have hm := getBuildDateEpoch_undeclared_max sde pkgs
    obtain ⟨h1, _, h3⟩ := hm
    rcases h3 with e | e
    · exact e
    · have := h _ e; omega
  · rfl

/-- a newer package shows exactly when nothing is exported -/
theorem getBuildDateEpoch_newer_package (e : Bool) (sde p : Int) (pkgs : List Int) (hp : p ∈ pkgs) (hgt : sde < p) :
    (Impl.getBuildDateEpoch e sde pkgs = sde ↔ e = true) := by
  cases e
  · have := (getBuildDateEpoch_undeclared_max sde pkgs).2.1 p hp
    constructor
    · intro h; omega
    · intro h; cases h
  · simp [Impl.getBuildDateEpoch]

/-! ## a whole build: every image -/

/-- the images carry what the demand says, for every environment, option and package list -/
theorem imageCreated_eq_spec (env : Env) (opt : Int) (pkgs : List Int) :
    Impl.imageCreated env opt pkgs = Spec.imageCreated env opt pkgs := by
  cases env <;> simp [Impl.imageCreated, Impl.newEpoch, Spec.imageCreated, Env.exported, Impl.getBuildDateEpoch,
    foldPkgs_eq_maxOf]

/-- **a declared SOURCE_DATE_EPOCH is the creation time of every image**, whatever `--build-date` says and however
recent the installed packages are -/
theorem image_declared_wins (n opt : Int) (pkgs : List Int) : Impl.imageCreated (.value n) opt pkgs = some n := rfl

/-- two builds with the same declaration agree although the repository moved on -/
theorem image_declared_independent_of_packages (n opt opt' : Int) (pkgs pkgs' : List Int) :
    Impl.imageCreated (.value n) opt pkgs = Impl.imageCreated (.value n) opt' pkgs' := rfl

/-- nothing exported: the newest of the build-date option and the installed packages -/
theorem image_undeclared_max (opt : Int) (pkgs : List Int) :
    ∃ t, Impl.imageCreated .unset opt pkgs = some t ∧ Spec.IsMax t opt pkgs :=
  ⟨_, rfl, getBuildDateEpoch_undeclared_max opt pkgs⟩

/-- a malformed SOURCE_DATE_EPOCH fails the build -/
theorem image_malformed_fails (opt : Int) (pkgs : List Int) : Impl.imageCreated .malformed opt pkgs = none := rfl

/-! ## a whole build: the index -/

/-- nothing exported: the index carries the newest creation time of its images (or the option when that is newer) -/
theorem index_undeclared_max (opt : Int) (archPkgs : List (List Int)) :
    ∃ t, Impl.indexCreated .unset opt archPkgs = some t ∧
      Spec.IsMax t opt (archPkgs.map (Impl.getBuildDateEpoch false opt)) :=
  ⟨_, rfl, foldPkgs_isMax _ _⟩

/-- … hence never older than one of its images -/
theorem index_undeclared_ge_images (opt : Int) (archPkgs : List (List Int)) (pkgs : List Int) (h : pkgs ∈ archPkgs)
    (t ti : Int) (ht : Impl.indexCreated .unset opt archPkgs = some t)
    (hi : Impl.imageCreated .unset opt pkgs = some ti) : ti ≤ t := by
  obtain ⟨t', e, hm⟩ := index_undeclared_max opt archPkgs
  rw [ht] at e; cases e
  simp only [Impl.imageCreated, Impl.newEpoch, Env.exported, Option.some.injEq] at hi
  subst hi
  exact hm.2.1 _ (List.mem_map.mpr ⟨pkgs, h, rfl⟩)

/-- The full demand on the index (a build has at least one architecture): a declared SOURCE_DATE_EPOCH is its
creation time, whatever `--build-date` says and however recent the installed packages are. -/
def IndexDeclaredWins (indexCreated : Env → Int → List (List Int) → Option Int) : Prop :=
  ∀ (n opt : Int) (archPkgs : List (List Int)), archPkgs ≠ [] → indexCreated (.value n) opt archPkgs = some n

theorem foldPkgs_const (n : Int) (l : List (List Int)) : Impl.foldPkgs n (l.map fun _ => n) = n := by
  induction l with
  | nil => rfl
  | cons a as ih => simp only [List.map_cons, Impl.foldPkgs]; rw [if_neg (by omega)]; exact ih

/-- **the repaired code meets it** (even without the side condition) -/
theorem index_declared_wins : IndexDeclaredWins Impl.indexCreated := by
  intro n opt archPkgs _
  have hf : Impl.getBuildDateEpoch true n = fun _ => n := by funext x; rfl
  simp only [Impl.indexCreated, Impl.newEpoch, Env.exported, Option.some.injEq, hf]
  exact foldPkgs_const n archPkgs

/-- the index agrees with every one of its images when a time is declared -/
theorem index_declared_eq_images (n opt : Int) (archPkgs : List (List Int)) (pkgs : List Int) (hne : archPkgs ≠ []) :
    Impl.indexCreated (.value n) opt archPkgs = Impl.imageCreated (.value n) opt pkgs := by
  rw [index_declared_wins n opt archPkgs hne]; rfl

/-- the whole index computation is the demand, for every environment, option and package lists -/
theorem indexCreated_eq_spec (env : Env) (opt : Int) (archPkgs : List (List Int)) (hne : archPkgs ≠ []) :
    Impl.indexCreated env opt archPkgs = Spec.indexCreated env opt archPkgs := by
  cases env with
  | value n => exact index_declared_wins n opt archPkgs hne
  | malformed => rfl
  | blank =>
    have hf : Impl.getBuildDateEpoch true opt = fun _ => opt := by funext x; rfl
    simp only [Impl.indexCreated, Impl.newEpoch, Env.exported, Spec.indexCreated, Option.some.injEq, hf]
    exact foldPkgs_const opt archPkgs
  | unset =>
    simp only [Impl.indexCreated, Impl.newEpoch, Env.exported, Spec.indexCreated, Option.some.injEq]
    apply isMax_unique (foldPkgs_isMax _ _)
    obtain ⟨m1, m2, m3⟩ := maxOf_isMax opt archPkgs.flatten
    refine ⟨m1, ?_, ?_⟩
    · intro p hp
      obtain ⟨pk, _, rfl⟩ := List.mem_map.mp hp
      obtain ⟨_, _, a3⟩ := getBuildDateEpoch_undeclared_max opt pk
      rcases a3 with e | e
      · rw [e]; exact m1
      · exact m2 _ (List.mem_flatten.mpr ⟨pk, ‹_›, e⟩)
    · rcases m3 with e | e
      · left; exact e
      · right
        obtain ⟨pk, hpk, hin⟩ := List.mem_flatten.mp e
        refine List.mem_map.mpr ⟨pk, hpk, ?_⟩
        obtain ⟨a1, a2, a3⟩ := getBuildDateEpoch_undeclared_max opt pk
        have h1 := a2 _ hin
        have h2 : Impl.getBuildDateEpoch false opt pk ≤ Spec.maxOf opt archPkgs.flatten := by
          rcases a3 with e3 | e3
          · rw [e3]; exact m1
          · exact m2 _ (List.mem_flatten.mpr ⟨pk, hpk, e3⟩)
        omega

/-- the pinned computation (before F12f) met it only when the build-date option is not later than the declared
epoch (in particular for the default option 0 and a non-negative epoch) -/
theorem pinned_index_declared_wins_partial (n opt : Int) (archPkgs : List (List Int)) (hne : archPkgs ≠ [])
    (h : opt ≤ n) : Pinned.indexCreated (.value n) opt archPkgs = some n := by
  have hf : Impl.getBuildDateEpoch true n = fun _ => n := by funext x; rfl
  simp only [Pinned.indexCreated, Impl.newEpoch, Env.exported, Option.some.injEq, hf]
  obtain ⟨h1, h2, h3⟩ := foldPkgs_isMax opt (archPkgs.map fun _ => n)
  rcases h3 with e | e
  · cases archPkgs with
    | nil => exact absurd rfl hne
    | cons a as =>
      have := h2 n (by simp)
      omega
  · obtain ⟨_, _, e2⟩ := List.mem_map.mp e; exact e2.symm

/-- … and violated it otherwise: SOURCE_DATE_EPOCH=1649999999 with --build-date 2022-04-15T05:20:00Z (the witness
corpus/oci-e2e/F12f.json): the index carried the build date -/
theorem pinned_index_declared_wins_false : ¬ IndexDeclaredWins Pinned.indexCreated := by
  intro h
  have := h 1649999999 1650000000 [[1649827199, 1649999999], [1649827199, 1649999999]] (by decide)
  revert this; decide

example : ∃ n opt archPkgs, opt ≤ n ∧ archPkgs ≠ [] ∧ Pinned.indexCreated (.value n) opt archPkgs = some n :=
  ⟨1700000000, 1650000000, [[1720000000], [1600000000, 1720086400]], by decide, by decide, by decide⟩

end Apko.C12.Created
