/-
C16 / C15: the two line-oriented readers never panic (no index out of range), whatever the input.
-/
import Apko.Model.Formats
namespace Apko.Formats
open Apko

theorem Res.bind_ne_oob {α β : Type} (r : Res α) (f : α → Res β) (h1 : r ≠ .oob) (h2 : ∀ a, f a ≠ .oob) :
    r.bind f ≠ .oob := by
  cases r with
  | ok a => exact h2 a
  | err => simp [Res.bind]
  | oob => exact absurd rfl h1

theorem Res.ofOption_ne_oob {α : Type} (o : Option α) : Res.ofOption o ≠ .oob := by
  cases o <;> simp [Res.ofOption]

/-- with the one-byte-line guard, one iteration of ParseInstalled's loop never indexes out of range -/
theorem idbStep_no_panic (c : Codec) (cs : List Case) (st : IdbState) (line : Text) :
    idbStep c cs true st line ≠ .oob := by
  unfold idbStep
  split
  · simp
  · simp
  · split
    · simp
    · split
      · simp
      · exact Res.bind_ne_oob _ _ (Res.ofOption_ne_oob _) (fun _ => by simp)
      · simp
      · split
        · simp
        · split <;> simp
      · simp
      · split
        · simp
        · split <;> simp

theorem idbFold_no_panic (c : Codec) (cs : List Case) : ∀ (ls : List Text) (st : IdbState),
    idbFold c cs true st ls ≠ .oob := by
  intro ls
  induction ls with
  | nil => intro st; simp [idbFold]
  | cons l ls ih => intro st; exact Res.bind_ne_oob _ _ (idbStep_no_panic c cs st l) (fun st' => ih st')

/-- `ParseInstalled` (with the guard that is in the code today, `tie_idbGuarded`) panics on no input -/
theorem parseInstalled_no_panic (c : Codec) (cs : List Case) (t : Text) : parseInstalled c cs true t ≠ .oob := by
  unfold parseInstalled
  exact Res.bind_ne_oob _ _ (idbFold_no_panic c cs _ _) (fun _ => by simp)

theorem idxStep_no_panic (c : Codec) (cs : List Case) (st : IdxState) (line : Text) : idxStep c cs st line ≠ .oob := by
  unfold idxStep
  split
  · simp
  · simp
  · split
    · simp
    · split
      · exact Res.bind_ne_oob _ _ (Res.ofOption_ne_oob _) (fun _ => by simp)
      · simp

theorem idxFold_no_panic (c : Codec) (cs : List Case) : ∀ (ls : List Text) (st : IdxState),
    idxFold c cs st ls ≠ .oob := by
  intro ls
  induction ls with
  | nil => intro st; simp [idxFold]
  | cons l ls ih => intro st; exact Res.bind_ne_oob _ _ (idxStep_no_panic c cs st l) (fun st' => ih st')

/-- `ParsePackageIndex` panics on no input -/
theorem parseIndex_no_panic (c : Codec) (cs : List Case) (t : Text) : parseIndex c cs t ≠ .oob := by
  unfold parseIndex
  exact Res.bind_ne_oob _ _ (idxFold_no_panic c cs _ _) (fun _ => by split <;> simp)

end Apko.Formats
