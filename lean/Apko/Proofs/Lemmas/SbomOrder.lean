/-
C11 / C01 — the only place where `Generate` reads a Go map in iteration order is the loop
`for id := range targetElementIDs` of ProcessInternalApkSBOM.  The model takes the order as the
parameter `ord`.  This file proves that when every embedded SBOM that is found has at most one target
element, the result of `generate` (document *or* error) does not depend on `ord`, for every pair of
iteration orders (functions returning a rearrangement of the key set they are given).

Also here: what `ProcessInternalApkSBOM` does when the embedded SBOM has *no* target element (nothing is
imported, only the licensing infos are merged), used by the strengthened `one_element_per_apk` theorem.
-/
import Apko.Proofs.Lemmas.SbomGen

namespace Apko.Sbom
open Apko

/-- a Go map iteration order: every call yields a rearrangement of the key set -/
def OrdPerm (ord : List Id → List Id) : Prop := ∀ l, (ord l).Perm l

theorem OrdPerm.ordOk {ord : List Id → List Id} (h : OrdPerm ord) : OrdOk ord :=
  fun l _ hx => (h l).subset hx

theorem ordPerm_id : OrdPerm id := fun _ => List.Perm.refl _

theorem ordPerm_reverse : OrdPerm List.reverse := fun l => List.reverse_perm l

theorem perm_le_one {l l' : List Id} (h : l'.Perm l) (hl : l.length ≤ 1) : l' = l := by
  match l, hl with
  | [], _ => exact List.Perm.eq_nil h
  | [x], _ => exact List.perm_singleton.mp h

theorem ordOk_nil {ord : List Id → List Id} (h : OrdOk ord) : ord [] = [] := by
  cases e : ord [] with
  | nil => rfl
  | cons x xs => exact absurd (h [] x (by rw [e]; simp)) (by simp)

/-- the bound on the targets of the embedded SBOM that `locateApkSBOM` finds, as a statement about `locate` -/
theorem targetCount_le {fs : SbomDir} {a : Apk} {n : Nat} (h : targetCount fs a ≤ n) (emb : Doc)
    (hloc : locate fs (sbomStems a.name a.version) = .ok (some (.doc emb))) : (targets emb a.name).length ≤ n := by
  unfold targetCount at h
  rw [hloc] at h
  exact h

theorem multiTarget_false {o : Opts} {fs : SbomDir} :
    multiTarget o fs = false ↔ ∀ a ∈ o.apks, targetCount fs a ≤ 1 := by
  simp only [multiTarget, List.any_eq_false, decide_eq_true_eq]
  constructor
  · intro h a ha; have := h a ha; omega
  · intro h a ha; have := h a ha; omega

theorem embeddedTarget_false {o : Opts} {fs : SbomDir} :
    embeddedTarget o fs = false ↔ ∀ a ∈ o.apks, targetCount fs a = 0 := by
  simp only [embeddedTarget, List.any_eq_false, decide_eq_true_eq]
  constructor
  · intro h a ha; have := h a ha; omega
  · intro h a ha; have := h a ha; omega

/-! ### order independence -/

theorem processInternal_ord {fs : SbomDir} {ord : List Id → List Id} {doc : Doc} {name version : Text}
    (hord : OrdPerm ord)
    (hone : ∀ emb, locate fs (sbomStems name version) = .ok (some (.doc emb)) → (targets emb name).length ≤ 1) :
    processInternal fs ord doc name version = processInternal fs id doc name version := by
  unfold processInternal
  split
  · rfl
  · rfl
  · rfl
  · rfl
  · next emb hloc =>
    dsimp only
    rw [perm_le_one (hord _) (hone emb hloc)]
    rfl

theorem addApks_ord {fs : SbomDir} {ord : List Id → List Id} {nonce : Text} (hord : OrdPerm ord)
    (apks : List Apk) (hone : ∀ a ∈ apks, targetCount fs a ≤ 1) (doc : Doc) :
    addApks fs ord nonce apks doc = addApks fs id nonce apks doc := by
  induction apks generalizing doc with
  | nil => rfl
  | cons a as ih =>
    simp only [addApks, addApk]
    rw [processInternal_ord hord (targetCount_le (hone a (by simp)))]
    split
    · rfl
    · exact ih (fun b hb => hone b (by simp [hb])) _

/-- with at most one target element per embedded SBOM, `generate` with any iteration order is `generate`
with the identity order -/
theorem generate_ord {o : Opts} {fs : SbomDir} {ord : List Id → List Id} (hord : OrdPerm ord)
    (hone : ∀ a ∈ o.apks, targetCount fs a ≤ 1) : generate o fs ord = generate o fs id := by
  unfold generate
  rw [addApks_ord hord _ hone]

/-! ### an embedded SBOM without a target element imports nothing -/

theorem copyElements_nil (src tgt : Doc) : copyElements src tgt [] = .ok tgt := by
  cases tgt
  simp [copyElements, closure, List.filter_eq_nil_iff]

/-- same element list, relationships and described ids (the licensing infos may differ) -/
def SameBody (d doc : Doc) : Prop :=
  d.packages = doc.packages ∧ d.rels = doc.rels ∧ d.describes = doc.describes

theorem processInternal_noTarget {fs : SbomDir} {ord : List Id → List Id} {doc d : Doc} {name version : Text}
    (hord : OrdOk ord)
    (h0 : ∀ emb, locate fs (sbomStems name version) = .ok (some (.doc emb)) → (targets emb name).length ≤ 0)
    (h : processInternal fs ord doc name version = .ok d) : SameBody d doc := by
  unfold processInternal at h
  split at h
  · cases h
  · cases h; exact ⟨rfl, rfl, rfl⟩
  · cases h; exact ⟨rfl, rfl, rfl⟩
  · cases h; exact ⟨rfl, rfl, rfl⟩
  · next emb hloc =>
    dsimp only at h
    have ht : targets emb name = [] := List.eq_nil_of_length_eq_zero (Nat.le_zero.mp (h0 emb hloc))
    rw [ht, copyElements_nil, ordOk_nil hord] at h
    dsimp only at h
    split at h
    · cases h
    · cases h; exact ⟨rfl, rfl, rfl⟩

theorem addApks_noTarget {fs : SbomDir} {ord : List Id → List Id} {nonce : Text} (hord : OrdOk ord)
    (apks : List Apk) (h0 : ∀ a ∈ apks, targetCount fs a = 0) {doc d : Doc}
    (h : addApks fs ord nonce apks doc = .ok d) :
    d.packages = doc.packages ++ apks.map (apkPackage nonce) ∧ d.rels = doc.rels ∧ d.describes = doc.describes := by
  induction apks generalizing doc with
  | nil => simp only [addApks] at h; cases h; simp
  | cons a as ih =>
    simp only [addApks] at h
    split at h
    · cases h
    · next doc' ha =>
      unfold addApk at ha
      have hs := processInternal_noTarget hord
        (targetCount_le (Nat.le_of_eq (h0 a (by simp)))) ha
      have := ih (fun b hb => h0 b (by simp [hb])) h
      rw [this.1, this.2.1, this.2.2, hs.1, hs.2.1, hs.2.2]
      simp

/-- when no installed apk ships an SBOM with a target element, the document (if one is emitted) has the
header's relationships and described ids, and its elements are the header elements followed by one element
per installed apk, then the de-dup pass -/
theorem generate_noTarget {o : Opts} {fs : SbomDir} {ord : List Id → List Id} {d : Doc} (hord : OrdOk ord)
    (h0 : ∀ a ∈ o.apks, targetCount fs a = 0) (h : generate o fs ord = .ok d) :
    d.packages = dedup ((header o).packages ++ o.apks.map (apkPackage (nonceOf o.imageDigest))) ∧
    d.rels = (header o).rels ∧ d.describes = (header o).describes := by
  unfold generate at h
  split at h
  · cases h
  · split at h
    · cases h
    · next doc ha =>
      cases h
      have := addApks_noTarget hord _ h0 ha
      exact ⟨by rw [← this.1], this.2.1, this.2.2⟩

/-! ### errors without target elements: only a directory at an SBOM path or a licence conflict -/

theorem locate_error {fs : SbomDir} {stems : List Text} {e : Err} (h : locate fs stems = .error e) :
    e = .sbomIsDir := by
  induction stems with
  | nil => simp [locate] at h
  | cons s rest ih =>
    simp only [locate] at h
    split at h
    · exact ih h
    · cases h; rfl
    · cases h

theorem mergeLics_error {s t : List (Text × Text)} {e : Err} (h : mergeLics s t = .error e) :
    e = .licConflict := by
  induction s generalizing t with
  | nil => simp [mergeLics] at h
  | cons x xs ih =>
    simp only [mergeLics] at h
    split at h
    · split at h
      · cases h; rfl
      · exact ih h
    · exact ih h

theorem processInternal_noTarget_err {fs : SbomDir} {ord : List Id → List Id} {doc : Doc} {name version : Text}
    {e : Err}
    (h0 : ∀ emb, locate fs (sbomStems name version) = .ok (some (.doc emb)) → (targets emb name).length ≤ 0)
    (h : processInternal fs ord doc name version = .error e) : e = .sbomIsDir ∨ e = .licConflict := by
  unfold processInternal at h
  split at h
  · next e' hl => cases h; exact Or.inl (locate_error hl)
  · cases h
  · cases h
  · cases h
  · next emb hloc =>
    dsimp only at h
    have ht : targets emb name = [] := List.eq_nil_of_length_eq_zero (Nat.le_zero.mp (h0 emb hloc))
    rw [ht, copyElements_nil] at h
    dsimp only at h
    split at h
    · next e' hm => cases h; exact Or.inr (mergeLics_error hm)
    · cases h

theorem addApks_noTarget_err {fs : SbomDir} {ord : List Id → List Id} {nonce : Text}
    (apks : List Apk) (h0 : ∀ a ∈ apks, targetCount fs a = 0) {doc : Doc} {e : Err}
    (h : addApks fs ord nonce apks doc = .error e) : e = .sbomIsDir ∨ e = .licConflict := by
  induction apks generalizing doc with
  | nil => simp [addApks] at h
  | cons a as ih =>
    simp only [addApks] at h
    split at h
    · next e' ha =>
      cases h
      unfold addApk at ha
      exact processInternal_noTarget_err (targetCount_le (Nat.le_of_eq (h0 a (by simp)))) ha
    · exact ih (fun b hb => h0 b (by simp [hb])) h

/-- when no embedded SBOM has a target element, `Generate` fails only for: no layers, a directory at an SBOM
path, conflicting licensing infos — never with "unable to find elements" -/
theorem generate_noTarget_err {o : Opts} {fs : SbomDir} {ord : List Id → List Id} {e : Err}
    (h0 : ∀ a ∈ o.apks, targetCount fs a = 0) (h : generate o fs ord = .error e) :
    e = .noLayers ∨ e = .sbomIsDir ∨ e = .licConflict := by
  unfold generate at h
  split at h
  · cases h; exact Or.inl rfl
  · split at h
    · next e' ha => cases h; exact Or.inr (addApks_noTarget_err _ h0 ha)
    · cases h

/-! ### errors in general -/

theorem copyElements_error {src tgt : Doc} {t0 : List Id} {e : Err} (h : copyElements src tgt t0 = .error e) :
    e = .fuel ∨ e = .missing := by
  unfold copyElements at h
  split at h
  · cases h; exact Or.inl rfl
  · split at h
    · cases h
    · cases h; exact Or.inr rfl

theorem processInternal_error {fs : SbomDir} {ord : List Id → List Id} {doc : Doc} {name version : Text}
    {e : Err} (h : processInternal fs ord doc name version = .error e) :
    e = .sbomIsDir ∨ e = .fuel ∨ e = .missing ∨ e = .licConflict := by
  unfold processInternal at h
  split at h
  · next e' hl => cases h; exact Or.inl (locate_error hl)
  · cases h
  · cases h
  · cases h
  · dsimp only at h
    split at h
    · next e' hc =>
      cases h
      rcases copyElements_error hc with h | h
      · exact Or.inr (Or.inl h)
      · exact Or.inr (Or.inr (Or.inl h))
    · split at h
      · next e' hm => cases h; exact Or.inr (Or.inr (Or.inr (mergeLics_error hm)))
      · cases h

theorem addApks_error {fs : SbomDir} {ord : List Id → List Id} {nonce : Text}
    (apks : List Apk) {doc : Doc} {e : Err} (h : addApks fs ord nonce apks doc = .error e) :
    e = .sbomIsDir ∨ e = .fuel ∨ e = .missing ∨ e = .licConflict := by
  induction apks generalizing doc with
  | nil => simp [addApks] at h
  | cons a as ih =>
    simp only [addApks] at h
    split at h
    · next e' ha => cases h; unfold addApk at ha; exact processInternal_error ha
    · exact ih h

end Apko.Sbom
