/-
Strict weak orders given as three-way comparators (`α → α → Ordering`), closed under pull-back
along a key function and under lexicographic composition (`Ordering.then`).  Base instances:
Booleans (true first), naturals (both directions), byte strings (`cmpText`), optional parsed
versions (unparsable last, higher version first).

Used by `ComparatorLex.lean` to show that the repaired `comparePackages` is a strict weak order
(C01 / C08: the provider choice does not depend on Go's map iteration order).
-/
import Apko.Model.Resolver
import Apko.Proofs.C03

namespace Apko.Cmp
open Apko Apko.Resolver

/-- a three-way comparator that is a strict weak order: `.lt` is a strict partial order whose
incomparability relation `.eq` is an equivalence (`swap` gives irreflexivity, asymmetry and the
symmetry of `.eq`). -/
structure SWO {α : Type} (cmp : α → α → Ordering) : Prop where
  swap : ∀ a b, (cmp a b).swap = cmp b a
  lt_trans : ∀ a b c, cmp a b = .lt → cmp b c = .lt → cmp a c = .lt
  eq_trans : ∀ a b c, cmp a b = .eq → cmp b c = .eq → cmp a c = .eq

namespace SWO
variable {α : Type} {cmp : α → α → Ordering}

theorem refl (h : SWO cmp) (a : α) : cmp a a = .eq := by
  have := h.swap a a
  cases hc : cmp a a <;> simp [hc] at this ⊢

theorem gt_iff_lt (h : SWO cmp) (a b : α) : cmp a b = .gt ↔ cmp b a = .lt := by
  rw [← h.swap a b]; cases cmp a b <;> simp

theorem lt_iff_gt (h : SWO cmp) (a b : α) : cmp a b = .lt ↔ cmp b a = .gt := by
  rw [← h.swap a b]; cases cmp a b <;> simp

theorem eq_symm (h : SWO cmp) {a b : α} (hab : cmp a b = .eq) : cmp b a = .eq := by
  rw [← h.swap a b, hab]; rfl

theorem eq_comm (h : SWO cmp) (a b : α) : cmp a b = .eq ↔ cmp b a = .eq :=
  ⟨h.eq_symm, h.eq_symm⟩

/-- compatibility of `.lt` with the equivalence, on the left -/
theorem eq_lt_trans (h : SWO cmp) {a b c : α} (h1 : cmp a b = .eq) (h2 : cmp b c = .lt) :
    cmp a c = .lt := by
  cases hc : cmp a c with
  | lt => rfl
  | eq =>
    have : cmp b c = .eq := h.eq_trans b a c (h.eq_symm h1) hc
    rw [h2] at this; cases this
  | gt =>
    have h3 : cmp c a = .lt := (h.gt_iff_lt a c).mp hc
    have : cmp b a = .lt := h.lt_trans b c a h2 h3
    rw [h.eq_symm h1] at this; cases this

/-- compatibility of `.lt` with the equivalence, on the right -/
theorem lt_eq_trans (h : SWO cmp) {a b c : α} (h1 : cmp a b = .lt) (h2 : cmp b c = .eq) :
    cmp a c = .lt := by
  cases hc : cmp a c with
  | lt => rfl
  | eq =>
    have : cmp a b = .eq := h.eq_trans a c b hc (h.eq_symm h2)
    rw [h1] at this; cases this
  | gt =>
    have h3 : cmp c a = .lt := (h.gt_iff_lt a c).mp hc
    have : cmp c b = .lt := h.lt_trans c a b h3 h1
    rw [h.eq_symm h2] at this; cases this

theorem gt_trans (h : SWO cmp) {a b c : α} (h1 : cmp a b = .gt) (h2 : cmp b c = .gt) :
    cmp a c = .gt := by
  rw [h.gt_iff_lt] at *; exact h.lt_trans c b a h2 h1

/-- "not worse than" (`cmp a b ≠ .gt`) is transitive -/
theorem le_trans (h : SWO cmp) {a b c : α} (h1 : cmp a b ≠ .gt) (h2 : cmp b c ≠ .gt) :
    cmp a c ≠ .gt := by
  intro hc
  cases hab : cmp a b with
  | gt => exact h1 hab
  | lt =>
    cases hbc : cmp b c with
    | gt => exact h2 hbc
    | lt => rw [h.lt_trans a b c hab hbc] at hc; cases hc
    | eq => rw [h.lt_eq_trans hab hbc] at hc; cases hc
  | eq =>
    cases hbc : cmp b c with
    | gt => exact h2 hbc
    | lt => rw [h.eq_lt_trans hab hbc] at hc; cases hc
    | eq => rw [h.eq_trans a b c hab hbc] at hc; cases hc

/-- equivalent elements compare alike against everything (left argument) -/
theorem congr_left (h : SWO cmp) {a b : α} (hab : cmp a b = .eq) (c : α) : cmp a c = cmp b c := by
  cases hbc : cmp b c with
  | lt => exact h.eq_lt_trans hab hbc
  | eq => exact h.eq_trans a b c hab hbc
  | gt =>
    rw [h.gt_iff_lt] at hbc ⊢
    exact h.lt_eq_trans hbc (h.eq_symm hab)

theorem congr_right (h : SWO cmp) {a b : α} (hab : cmp a b = .eq) (c : α) : cmp c a = cmp c b := by
  rw [← h.swap a c, ← h.swap b c, h.congr_left hab c]

/-- pull-back along a key function -/
theorem comap {β : Type} {c : β → β → Ordering} (h : SWO c) (f : α → β) :
    SWO (fun a b => c (f a) (f b)) :=
  ⟨fun _ _ => h.swap _ _, fun _ _ _ => h.lt_trans _ _ _, fun _ _ _ => h.eq_trans _ _ _⟩

/-- lexicographic composition: first `c₁`, ties decided by `c₂` -/
theorem lex {c₁ c₂ : α → α → Ordering} (h₁ : SWO c₁) (h₂ : SWO c₂) :
    SWO (fun a b => (c₁ a b).then (c₂ a b)) := by
  refine ⟨?_, ?_, ?_⟩
  · intro a b; simp only [Ordering.swap_then, h₁.swap, h₂.swap]
  · intro a b c hab hbc
    simp only [Ordering.then_eq_lt] at *
    rcases hab with hab | ⟨hab, hab'⟩ <;> rcases hbc with hbc | ⟨hbc, hbc'⟩
    · exact Or.inl (h₁.lt_trans a b c hab hbc)
    · exact Or.inl (h₁.lt_eq_trans hab hbc)
    · exact Or.inl (h₁.eq_lt_trans hab hbc)
    · exact Or.inr ⟨h₁.eq_trans a b c hab hbc, h₂.lt_trans a b c hab' hbc'⟩
  · intro a b c hab hbc
    simp only [Ordering.then_eq_eq] at *
    exact ⟨h₁.eq_trans a b c hab.1 hbc.1, h₂.eq_trans a b c hab.2 hbc.2⟩

end SWO

/-! ## base comparators -/

/-- `true` first (the shape `if x && !y then .lt else if y && !x then .gt else …`) -/
def cmpBool (x y : Bool) : Ordering := if x && !y then .lt else if y && !x then .gt else .eq

theorem cmpBool_swo : SWO cmpBool :=
  ⟨by decide, by decide, by decide⟩

/-- larger number first (`priority`) -/
def cmpNatDesc (x y : Nat) : Ordering := if x != y then (if x > y then .lt else .gt) else .eq

theorem cmpNatDesc_swo : SWO cmpNatDesc := by
  refine ⟨?_, ?_, ?_⟩
  · intro a b; unfold cmpNatDesc
    rcases Nat.lt_trichotomy a b with h | h | h
    · have h1 : ¬ a = b := by omega
      have h2 : ¬ b = a := by omega
      have h3 : ¬ a > b := by omega
      simp [h1, h2, h3, h]
    · subst h; simp
    · have h1 : ¬ a = b := by omega
      have h2 : ¬ b = a := by omega
      have h3 : ¬ b > a := by omega
      simp [h1, h2, h3, h]
  · intro a b c; unfold cmpNatDesc
    simp only [bne_iff_ne, ne_eq]
    intro h1 h2
    have ha : a > b := by
      by_cases hab : a = b
      · simp [hab] at h1
      · by_cases hg : a > b
        · exact hg
        · simp [hab, hg] at h1
    have hb : b > c := by
      by_cases hbc : b = c
      · simp [hbc] at h2
      · by_cases hg : b > c
        · exact hg
        · simp [hbc, hg] at h2
    have h3 : ¬ a = c := by omega
    have h4 : a > c := by omega
    simp [h3, h4]
  · intro a b c; unfold cmpNatDesc
    simp only [bne_iff_ne, ne_eq]
    intro h1 h2
    have ha : a = b := by
      by_cases hab : a = b
      · exact hab
      · by_cases hg : a > b <;> simp [hab, hg] at h1
    have hb : b = c := by
      by_cases hbc : b = c
      · exact hbc
      · by_cases hg : b > c <;> simp [hbc, hg] at h2
    simp [ha, hb]

theorem cmpText_eq_iff (a b : Text) : cmpText a b = .eq ↔ a = b := by
  unfold cmpText
  constructor
  · intro h
    by_cases h1 : a < b
    · simp [h1] at h
    · by_cases h2 : b < a
      · simp [h1, h2] at h
      · exact List.le_antisymm (List.not_lt.mp h2) (List.not_lt.mp h1)
  · rintro rfl; simp [List.lt_irrefl]

theorem cmpText_lt_iff (a b : Text) : cmpText a b = .lt ↔ a < b := by
  unfold cmpText
  by_cases h1 : a < b
  · simp [h1]
  · by_cases h2 : b < a <;> simp [h1, h2]

/-- the final tie-break `cmp.Compare(a.Name, b.Name)` -/
theorem cmpText_swo : SWO cmpText := by
  refine ⟨?_, ?_, ?_⟩
  · intro a b; unfold cmpText
    by_cases h1 : a < b
    · have h2 : ¬ b < a := fun h => List.lt_irrefl _ (List.lt_trans h1 h)
      simp [h1, h2]
    · by_cases h2 : b < a <;> simp [h1, h2]
  · intro a b c h1 h2
    rw [cmpText_lt_iff] at *
    exact List.lt_trans h1 h2
  · intro a b c h1 h2
    rw [cmpText_eq_iff] at *
    exact h1.trans h2

/-- one version step as a comparator on the *parsed* keys: unparsable last, higher version first -/
def cmpOptVer : Option Version → Option Version → Ordering
  | none, none => .eq
  | none, some _ => .gt
  | some _, none => .lt
  | some x, some y => (compareVersions x y).swap

theorem cmpOptVer_swo : SWO cmpOptVer := by
  refine ⟨?_, ?_, ?_⟩
  · intro a b
    cases a <;> cases b <;> simp [cmpOptVer, C03.cmp_swap]
  · intro a b c h1 h2
    match a, b, c, h1, h2 with
    | some x, some y, some z, h1, h2 =>
      simp only [cmpOptVer] at *
      have h1' : compareVersions y x = .lt := by rw [← C03.cmp_swap]; exact h1
      have h2' : compareVersions z y = .lt := by rw [← C03.cmp_swap]; exact h2
      rw [C03.cmp_swap]; exact C03.cmp_lt_trans h2' h1'
    | some _, some _, none, _, _ => rfl
    | some _, none, c', _, h2 => cases c' <;> simp [cmpOptVer] at h2
    | none, b', _, h1, _ => cases b' <;> simp [cmpOptVer] at h1
  · intro a b c h1 h2
    match a, b, c, h1, h2 with
    | some x, some y, some z, h1, h2 =>
      simp only [cmpOptVer] at *
      have h1' : compareVersions y x = .eq := by rw [← C03.cmp_swap]; exact h1
      have h2' : compareVersions z y = .eq := by rw [← C03.cmp_swap]; exact h2
      rw [C03.cmp_swap]; exact C03.cmp_eq_trans h2' h1'
    | none, none, none, _, _ => rfl
    | some _, none, _, h1, _ => simp [cmpOptVer] at h1
    | none, some _, _, h1, _ => simp [cmpOptVer] at h1
    | some _, some _, none, _, h2 => simp [cmpOptVer] at h2
    | none, none, some _, _, h2 => simp [cmpOptVer] at h2

/-- `verStep` with the repaired fall-through is `cmpOptVer` on the parses (`none` = `.eq`) -/
theorem verStep_eq (a b : Text) :
    verStep .eq a b = (match cmpOptVer (pv a) (pv b) with | .eq => none | o => some o) := by
  unfold verStep cmpOptVer
  cases pv a <;> cases pv b <;> simp
  rename_i x y
  cases compareVersions x y <;> simp

end Apko.Cmp
