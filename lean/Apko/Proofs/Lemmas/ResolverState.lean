/-
C02 lemmas, part 2: resolver state — ghost flags, the `selected` map and `pick`, de-duplication by
name, the install_if loops, identity of packages.

Core only.  Everything is stated for all inputs.
-/
import Apko.Proofs.Lemmas.ResolverBasic

namespace Apko.C02
open Apko Apko.Resolver

/-! ## package identity -/

/-- package ids are pairwise distinct in the universe (`id` models Go's pointer identity) -/
def IdsDistinct (u : Universe) : Prop := u.all.Pairwise (fun a b => a.id ≠ b.id)

instance (u : Universe) : Decidable (IdsDistinct u) := by unfold IdsDistinct; infer_instance

theorem eq_of_id_eq_list {l : List Pkg} (h : l.Pairwise (fun a b => a.id ≠ b.id)) {p q : Pkg}
    (hp : p ∈ l) (hq : q ∈ l) (hid : p.id = q.id) : p = q := by
  induction l with
  | nil => simp at hp
  | cons x xs ih =>
    rw [List.pairwise_cons] at h
    rcases List.mem_cons.mp hp with hp1 | hp1 <;> rcases List.mem_cons.mp hq with hq1 | hq1
    · rw [hp1, hq1]
    · subst hp1; exact absurd hid (h.1 q hq1)
    · subst hq1; exact absurd hid.symm (h.1 p hp1)
    · exact ih h.2 hp1 hq1

theorem eq_of_id_eq {u : Universe} (h : IdsDistinct u) {p q : Pkg}
    (hp : p ∈ u.all) (hq : q ∈ u.all) (hid : p.id = q.id) : p = q :=
  eq_of_id_eq_list h hp hq hid

/-! ## ghost flags only grow -/

theorem flag_dq (s : St) (f : String) : (s.flag f).dq = s.dq := by
  unfold St.flag; split <;> rfl

theorem flag_selected (s : St) (f : String) : (s.flag f).selected = s.selected := by
  unfold St.flag; split <;> rfl

/-- raising a flag leaves a non-empty flag list -/
theorem flag_flags_ne (s : St) (f : String) : (s.flag f).flags ≠ [] := by
  unfold St.flag
  split
  · next h =>
    intro he
    rw [he] at h
    simp at h
  · simp

theorem foldl_flag_dq (fl : List String) (s : St) : (fl.foldl St.flag s).dq = s.dq := by
  induction fl generalizing s with
  | nil => rfl
  | cons f fs ih => simp only [List.foldl_cons, ih, flag_dq]

theorem foldl_flag_selected (fl : List String) (s : St) :
    (fl.foldl St.flag s).selected = s.selected := by
  induction fl generalizing s with
  | nil => rfl
  | cons f fs ih => simp only [List.foldl_cons, ih, flag_selected]

theorem foldl_flag_ne (fl : List String) (s : St) (h : s.flags ≠ []) :
    (fl.foldl St.flag s).flags ≠ [] := by
  induction fl generalizing s with
  | nil => exact h
  | cons f fs ih => exact ih _ (flag_flags_ne s f)

/-- T `flags_monotone` (one step): no flag after a batch of raises means the batch was empty and there
was no flag before -/
theorem foldl_flag_nil {fl : List String} {s : St} (h : (fl.foldl St.flag s).flags = []) :
    fl = [] ∧ s.flags = [] := by
  cases fl with
  | nil => exact ⟨rfl, h⟩
  | cons f fs => exact absurd h (foldl_flag_ne fs _ (flag_flags_ne s f))

theorem flag_sub (s : St) (g : String) : ∀ f ∈ s.flags, f ∈ (s.flag g).flags := by
  intro f hf
  unfold St.flag
  split
  · exact hf
  · exact List.mem_append_left _ hf

theorem foldl_flag_sub (fl : List String) (s : St) : ∀ f ∈ s.flags, f ∈ (fl.foldl St.flag s).flags := by
  induction fl generalizing s with
  | nil => exact fun _ h => h
  | cons g gs ih => exact fun f hf => ih _ f (flag_sub s g f hf)

/-! ## association lists -/

theorem lookupT_some_mem {α : Type} {m : List (Text × α)} {k : Text} {v : α}
    (h : lookupT m k = some v) : (k, v) ∈ m := by
  unfold lookupT at h
  rw [Option.map_eq_some_iff] at h
  obtain ⟨e, he, rfl⟩ := h
  have h1 := List.mem_of_find?_eq_some he
  have h2 := List.find?_some he
  simp only [decide_eq_true_eq] at h2
  rw [← h2]
  exact h1

theorem lookupT_none {α : Type} {m : List (Text × α)} {k : Text}
    (h : lookupT m k = none) : ∀ e ∈ m, e.1 ≠ k := by
  unfold lookupT at h
  rw [Option.map_eq_none_iff, List.find?_eq_none] at h
  intro e he
  simpa using h e he

theorem mem_setT {α : Type} {m : List (Text × α)} {k : Text} {v : α} {e : Text × α}
    (h : e ∈ setT m k v) : e ∈ m ∨ e = (k, v) := by
  unfold setT at h
  split at h
  · rw [List.mem_map] at h
    obtain ⟨a, ha, rfl⟩ := h
    split
    · exact Or.inr rfl
    · exact Or.inl ha
  · rcases List.mem_append.mp h with h | h
    · exact Or.inl h
    · exact Or.inr (by simpa using h)

theorem setT_absent {α : Type} {m : List (Text × α)} {k : Text} {v : α}
    (h : lookupT m k = none) : setT m k v = m ++ [(k, v)] := by
  unfold setT
  have : (m.any fun e => decide (e.1 = k)) = false := by
    rw [List.any_eq_false]
    intro e he
    simpa using lookupT_none h e he
  simp [this]

/-- the keys of `setT m k v` are the keys of `m` and `k` -/
theorem key_mem_setT {α : Type} (m : List (Text × α)) (k : Text) (v : α) (k' : Text) :
    k' ∈ (setT m k v).map (·.1) ↔ k' ∈ m.map (·.1) ∨ k' = k := by
  unfold setT
  split
  · next h =>
    rw [List.any_eq_true] at h
    obtain ⟨e0, he0, hk0⟩ := h
    simp only [decide_eq_true_eq] at hk0
    simp only [List.map_map, List.mem_map, Function.comp]
    constructor
    · rintro ⟨a, ha, rfl⟩
      split
      · exact Or.inr rfl
      · exact Or.inl ⟨a, ha, rfl⟩
    · rintro (⟨a, ha, rfl⟩ | rfl)
      · refine ⟨a, ha, ?_⟩
        split
        · next h => exact h.symm
        · rfl
      · exact ⟨e0, he0, by simp [hk0]⟩
  · simp only [List.map_append, List.map_cons, List.map_nil, List.mem_append, List.mem_singleton]

/-! ## `selected` and `pick` -/

/-- the package recorded under a key of `selected` carries that key -/
def KeyOK (e : Text × Pkg) : Prop := Carries e.2 e.1

/-- the provides loop of `pick` -/
def pickStep (pkg : Pkg) (s : List (Text × Pkg)) (prov : Text) : Option (List (Text × Pkg)) :=
  let con := parseConstraint prov
  match lookupT s con.name with
  | some _ => none
  | none => if con.version.isEmpty then some s else some (setT s con.name pkg)

theorem pickFold_spec (pkg : Pkg) (l : List Text) (hl : ∀ pr ∈ l, pr ∈ pkg.provides)
    (s s' : List (Text × Pkg)) (h : l.foldlM (pickStep pkg) s = some s') :
    (∀ e ∈ s, e ∈ s') ∧ (∀ e ∈ s', e ∈ s ∨ (e.2 = pkg ∧ KeyOK e)) := by
  induction l generalizing s with
  | nil =>
    simp only [List.foldlM_nil, pure, Option.some.injEq] at h
    subst h
    exact ⟨fun _ h => h, fun _ h => Or.inl h⟩
  | cons x xs ih =>
    simp only [List.foldlM_cons, bind, Option.bind] at h
    split at h
    · simp at h
    · next s1 h1 =>
      have hx : x ∈ pkg.provides := hl x (List.mem_cons_self ..)
      have ih' := ih (fun pr hpr => hl pr (List.mem_cons_of_mem _ hpr)) s1 h
      unfold pickStep at h1
      simp only at h1
      split at h1
      · simp at h1
      · next hnone =>
        split at h1
        · simp only [Option.some.injEq] at h1
          subst h1
          exact ih'
        · simp only [Option.some.injEq] at h1
          rw [setT_absent hnone] at h1
          subst h1
          refine ⟨fun e he => ih'.1 e (List.mem_append_left _ he), ?_⟩
          intro e he
          rcases ih'.2 e he with h2 | h2
          · rcases List.mem_append.mp h2 with h3 | h3
            · exact Or.inl h3
            · simp only [List.mem_singleton] at h3
              subst h3
              exact Or.inr ⟨rfl, Or.inr ⟨x, hx, rfl⟩⟩
          · exact Or.inr h2

/-- `pick` only appends to `selected`, and every new entry records `pkg` under a key it carries -/
theorem pick_spec {pkg : Pkg} {sel sel' : List (Text × Pkg)} (h : pick pkg sel = some sel') :
    (∀ e ∈ sel, e ∈ sel') ∧ (∀ e ∈ sel', e ∈ sel ∨ (e.2 = pkg ∧ KeyOK e)) := by
  unfold pick at h
  split at h
  · split at h
    · simp only [Option.some.injEq] at h
      subst h
      exact ⟨fun _ h => h, fun _ h => Or.inl h⟩
    · simp at h
  · next hnone =>
    simp only at h
    have := pickFold_spec pkg pkg.provides (fun _ h => h) _ sel' h
    rw [setT_absent hnone] at this
    refine ⟨fun e he => this.1 e (List.mem_append_left _ he), ?_⟩
    intro e he
    rcases this.2 e he with h2 | h2
    · rcases List.mem_append.mp h2 with h3 | h3
      · exact Or.inl h3
      · simp only [List.mem_singleton] at h3
        subst h3
        exact Or.inr ⟨rfl, Or.inl rfl⟩
    · exact Or.inr h2

/-! ## de-duplication by name -/

/-- append every package whose name is not yet present (the loop of `dedupByName` and of the
install-set accumulation in `resolve`) -/
def addFold (kept l : List Pkg) : List Pkg :=
  l.foldl (fun acc p => if acc.any (·.name = p.name) then acc else acc ++ [p]) kept

theorem dedupByName_eq (l : List Pkg) : dedupByName l = addFold [] l := rfl

theorem addFold_sub (kept l : List Pkg) : ∀ x ∈ kept, x ∈ addFold kept l := by
  induction l generalizing kept with
  | nil => exact fun _ h => h
  | cons p ps ih =>
    intro x hx
    simp only [addFold, List.foldl_cons]
    apply ih
    split
    · exact hx
    · exact List.mem_append_left _ hx

theorem addFold_mem (kept l : List Pkg) : ∀ x ∈ addFold kept l, x ∈ kept ∨ x ∈ l := by
  induction l generalizing kept with
  | nil => exact fun _ h => Or.inl h
  | cons p ps ih =>
    intro x hx
    simp only [addFold, List.foldl_cons] at hx
    rcases ih _ x hx with h | h
    · split at h
      · exact Or.inl h
      · rcases List.mem_append.mp h with h | h
        · exact Or.inl h
        · simp only [List.mem_singleton] at h
          subst h
          exact Or.inr (List.mem_cons_self ..)
    · exact Or.inr (List.mem_cons_of_mem _ h)

/-- the fold of the ghost test `dedupDropsOther` -/
def ddoFold (st : List Pkg × Bool) (l : List Pkg) : List Pkg × Bool :=
  l.foldl (fun (st : List Pkg × Bool) p =>
    match st.1.find? (·.name = p.name) with
    | some q => (st.1, st.2 || q.id != p.id)
    | none => (st.1 ++ [p], st.2)) st

theorem dedupDropsOther_eq (kept l : List Pkg) : dedupDropsOther kept l = (ddoFold (kept, false) l).2 := rfl

theorem ddoFold_spec (l : List Pkg) (kept : List Pkg) (b : Bool) (h : (ddoFold (kept, b) l).2 = false) :
    b = false ∧ ∀ p ∈ l, ∃ q ∈ addFold kept l, q.name = p.name ∧ q.id = p.id := by
  induction l generalizing kept b with
  | nil => exact ⟨h, by simp⟩
  | cons p ps ih =>
    simp only [ddoFold, List.foldl_cons] at h
    split at h
    · next q hq =>
      have hqm := List.mem_of_find?_eq_some hq
      have hqn := List.find?_some hq
      simp only [decide_eq_true_eq] at hqn
      have := ih kept (b || q.id != p.id) h
      have hany : (kept.any fun x => decide (x.name = p.name)) = true :=
        List.any_eq_true.mpr ⟨q, hqm, by simpa using hqn⟩
      have hfold : addFold kept (p :: ps) = addFold kept ps := by
        simp only [addFold, List.foldl_cons, hany, if_true]
      rw [hfold]
      simp only [Bool.or_eq_false_iff, bne_eq_false_iff_eq] at this
      refine ⟨this.1.1, ?_⟩
      intro x hx
      rcases List.mem_cons.mp hx with rfl | hx
      · exact ⟨q, addFold_sub kept ps q hqm, hqn, this.1.2⟩
      · exact this.2 x hx
    · next hnone =>
      have := ih (kept ++ [p]) b h
      have hany : (kept.any fun x => decide (x.name = p.name)) = false := by
        rw [List.any_eq_false]
        intro x hx
        have := List.find?_eq_none.mp hnone x hx
        simpa using this
      have hfold : addFold kept (p :: ps) = addFold (kept ++ [p]) ps := by
        simp only [addFold, List.foldl_cons, hany, Bool.false_eq_true, if_false]
      rw [hfold]
      refine ⟨this.1, ?_⟩
      intro x hx
      rcases List.mem_cons.mp hx with rfl | hx
      · exact ⟨x, addFold_sub _ ps x (by simp), rfl, rfl⟩
      · exact this.2 x hx

/-- when the ghost test is false, every package offered is represented, up to (name, id), in the result -/
theorem addFold_keeps {kept l : List Pkg} (h : dedupDropsOther kept l = false) :
    ∀ p ∈ l, ∃ q ∈ addFold kept l, q.name = p.name ∧ q.id = p.id :=
  (ddoFold_spec l kept false h).2

/-- … and, in a universe with distinct ids, literally present -/
theorem addFold_keeps_mem {u : Universe} (hu : IdsDistinct u) {kept l : List Pkg}
    (hk : ∀ p ∈ kept, p ∈ u.all) (hl : ∀ p ∈ l, p ∈ u.all)
    (h : dedupDropsOther kept l = false) : ∀ p ∈ l, p ∈ addFold kept l := by
  intro p hp
  obtain ⟨q, hq, _, hid⟩ := addFold_keeps h p hp
  have hqu : q ∈ u.all := by
    rcases addFold_mem kept l q hq with h1 | h1
    · exact hk q h1
    · exact hl q h1
  rw [← eq_of_id_eq hu hqu (hl p hp) hid]
  exact hq

/-! ## the install_if loops only append, and only packages of the universe -/

theorem installIfMap_mem {u : Universe} {key : Text} {p : Pkg} (h : p ∈ installIfMap u key) :
    p ∈ u.all := by
  unfold installIfMap at h
  simp only [List.mem_flatMap, List.mem_map] at h
  obtain ⟨q, hq, _, _, rfl⟩ := h
  exact hq

theorem installIfStep_append (c : Cfg) (deps : List Pkg) (d : Pkg) :
    ∃ t, installIfStep c deps d = deps ++ t ∧ ∀ x ∈ t, x ∈ c.u.all := by
  unfold installIfStep
  simp only
  have hl : ∀ x ∈ (if (!(installIfMap c.u d.name).isEmpty) = true then installIfMap c.u d.name
      else installIfMap c.u (d.name ++ ['='] ++ d.version)), x ∈ c.u.all := by
    intro x hx
    split at hx <;> exact installIfMap_mem hx
  revert hl
  generalize (if (!(installIfMap c.u d.name).isEmpty) = true then installIfMap c.u d.name
    else installIfMap c.u (d.name ++ ['='] ++ d.version)) = l
  intro hl
  induction l generalizing deps with
  | nil => exact ⟨[], by simp⟩
  | cons x xs ih =>
    simp only [List.foldl_cons]
    have hxs : ∀ y ∈ xs, y ∈ c.u.all := fun y hy => hl y (List.mem_cons_of_mem _ hy)
    split
    · obtain ⟨t, ht, hu⟩ := ih (deps ++ [x]) hxs
      refine ⟨[x] ++ t, by rw [ht]; simp, ?_⟩
      intro y hy
      rcases List.mem_append.mp hy with hy | hy
      · simp only [List.mem_singleton] at hy
        subst hy
        exact hl y (List.mem_cons_self ..)
      · exact hu y hy
    · exact ih deps hxs

theorem installIfFixedLoop_append (c : Cfg) (fuel i : Nat) (deps : List Pkg) :
    ∃ t, installIfFixedLoop c fuel i deps = deps ++ t ∧ ∀ x ∈ t, x ∈ c.u.all := by
  induction fuel generalizing i deps with
  | zero => exact ⟨[], by simp [installIfFixedLoop]⟩
  | succ n ih =>
    unfold installIfFixedLoop
    split
    · exact ⟨[], by simp⟩
    · next d _ =>
      obtain ⟨t1, h1, u1⟩ := installIfStep_append c deps d
      obtain ⟨t2, h2, u2⟩ := ih (i + 1) (installIfStep c deps d)
      refine ⟨t1 ++ t2, by rw [h2, h1]; simp, ?_⟩
      intro y hy
      rcases List.mem_append.mp hy with hy | hy
      · exact u1 y hy
      · exact u2 y hy

theorem installIfMapLoop_append (c : Cfg) (deps : List Pkg) :
    ∃ t, installIfMapLoop c deps = deps ++ t ∧ ∀ x ∈ t, x ∈ c.u.all := by
  unfold installIfMapLoop
  simp only
  generalize c.addedOrder (deps.map (·.name)) = names
  suffices h : ∀ acc : List Pkg, ∃ t, names.foldl (fun acc n =>
      match deps.find? (·.name = n) with
      | some d => installIfStep c acc d
      | none => acc) acc = acc ++ t ∧ ∀ x ∈ t, x ∈ c.u.all from h deps
  induction names with
  | nil => exact fun acc => ⟨[], by simp⟩
  | cons n ns ih =>
    intro acc
    simp only [List.foldl_cons]
    split
    · next d _ =>
      obtain ⟨t1, h1, u1⟩ := installIfStep_append c acc d
      obtain ⟨t2, h2, u2⟩ := ih (installIfStep c acc d)
      refine ⟨t1 ++ t2, by rw [h2, h1]; simp, ?_⟩
      intro y hy
      rcases List.mem_append.mp hy with hy | hy
      · exact u1 y hy
      · exact u2 y hy
    · exact ih acc

theorem eq_of_append_length {α : Type} {a b t : List α} (h : b = a ++ t) (hl : b.length = a.length) :
    b = a := by
  subst h
  have : t = [] := by simpa using hl
  simp [this]

end Apko.C02
