import Apko.Proofs.Lemmas.ConflictInv
/-! C07: what `installedFiles` names is the very header the tree node was written from — so the
permission bits and the checksum a package's record carries (`a:` / `Z:` lines) are the installed ones. -/
namespace Apko.C07
open Apko Apko.Conflict Apko.Path

/-- `installedFiles` names the header: a name it maps to package `j` is a clean name, and the tree holds
at that path the node written from a regular-file header `e` of package `j` of that name -/
def RecInv (pkgs : List Pkg) (st : St) : Prop :=
  ∀ name j, st.inst.lookup name = some j →
    joinNames (parts name) = name ∧
    ∃ e, e ∈ (pkgs.getD j default).entries ∧ e.name = name ∧ e.kind = .reg ∧
      lookupT st.tree (parts name) = some (fileNode j e)

theorem RecInv.owner {pkgs : List Pkg} {st : St} (h : RecInv pkgs st) : OwnerInv st := by
  intro name j hl
  obtain ⟨h1, e, _, _, _, h2⟩ := h name j hl
  exact ⟨h1, e.sum, permOf e, e.size == 0, h2⟩

theorem RecInv_of_shape {pkgs : List Pkg} {i : Nat} {e : Entry} {st st' : St}
    (hmem : e ∈ (pkgs.getD i default).entries)
    (hc' : e.kind = .reg → joinNames (parts e.name) = e.name)
    (hs : Shape i e st st') (hI : RecInv pkgs st) : RecInv pkgs st' := by
  intro name j hl
  cases hs with
  | same ht hi => rw [hi] at hl; rw [ht]; exact hI name j hl
  | grow hi ht =>
    rw [hi] at hl
    obtain ⟨h1, e', m1, m2, m3, h2⟩ := hI name j hl
    exact ⟨h1, e', m1, m2, m3, ht _ _ h2⟩
  | wrote hk hi t0 h0 ht =>
    have hc := hc' hk
    rw [hi] at hl
    by_cases hn : name = e.name
    · rw [hn] at hl ⊢
      have : j = i := by
        simp [List.lookup] at hl
        exact hl.symm
      subst this
      refine ⟨hc, e, hmem, rfl, hk, ?_⟩
      rw [ht, lookupT_setT_self]
    · have hb : (name == e.name) = false := by simpa using hn
      rw [List.lookup_cons, hb] at hl
      obtain ⟨h1, e', m1, m2, m3, h2⟩ := hI name j hl
      have hne : parts name ≠ parts e.name := fun h => hn (parts_inj h1 hc h)
      refine ⟨h1, e', m1, m2, m3, ?_⟩
      rw [ht, lookupT_setT_ne _ _ _ _ hne, h0 _ hne]; exact h2
  | linked hi hn n ht =>
    rw [hi] at hl
    obtain ⟨h1, e', m1, m2, m3, h2⟩ := hI name j hl
    have hne : parts name ≠ parts e.name := by
      intro h; rw [h, hn] at h2; cases h2
    exact ⟨h1, e', m1, m2, m3, by rw [ht, lookupT_setT_ne _ _ _ _ hne]; exact h2⟩

theorem stepEntry_rec (c : Cfg) (hc : c.spec = false) (pkgs : List Pkg) (i : Nat) (e : Entry) (st st' : St) (b : Bool)
    (h : stepEntry c pkgs i e st = .ok (st', b)) (hwf : WFn e) (hmem : e ∈ (pkgs.getD i default).entries) :
    ∃ x, st'.flags = st.flags ++ x ∧ (Benign x → RecInv pkgs st → RecInv pkgs st') := by
  obtain ⟨x, hx, hs⟩ := stepEntry_shape c hc pkgs i e st st' b h hwf
  refine ⟨x, hx, fun h0 hI => RecInv_of_shape hmem (fun hk => ?_) (hs h0).1 hI⟩
  exact (hs h0).2 (by rw [hk]; decide)

/-- `files` only collects headers of the package -/
theorem installPkg_rec (c : Cfg) (hc : c.spec = false) (pkgs : List Pkg) (i : Nat) :
    ∀ (es : List Entry) (st : St) (files : List Entry) (st' : St) (files' : List Entry),
      installPkg c pkgs i es st files = .ok (st', files') → (∀ e ∈ es, WFn e) →
      (∀ e ∈ es, e ∈ (pkgs.getD i default).entries) →
      (∀ e ∈ files', e ∈ files ∨ e ∈ es) ∧
      ∃ x, st'.flags = st.flags ++ x ∧ (Benign x → RecInv pkgs st → RecInv pkgs st') := by
  intro es
  induction es with
  | nil =>
    intro st files st' files' h _ _
    simp [installPkg] at h
    obtain ⟨rfl, rfl⟩ := h
    exact ⟨fun e he => Or.inl he, [], by simp, fun _ hI => hI⟩
  | cons e rest ih =>
    intro st files st' files' h hwf hmem
    unfold installPkg at h
    split at h
    · cases h
    · rename_i st1 app hstep
      obtain ⟨x1, hx1, h1⟩ := stepEntry_rec c hc pkgs i e st st1 app hstep (hwf e (by simp)) (hmem e (by simp))
      obtain ⟨hsub, x2, hx2, h2⟩ := ih st1 _ st' files' h (fun e' he' => hwf e' (by simp [he']))
        (fun e' he' => hmem e' (by simp [he']))
      refine ⟨?_, x1 ++ x2, by rw [hx2, hx1, List.append_assoc], fun h0 hI => ?_⟩
      · intro f hf
        rcases hsub f hf with hf | hf
        · cases app
          · exact Or.inl hf
          · simp only [if_true, List.mem_append, List.mem_singleton] at hf
            rcases hf with hf | hf
            · exact Or.inl hf
            · exact Or.inr (by simp [hf])
        · exact Or.inr (by simp [hf])
      · obtain ⟨a, b⟩ := Benign_append.1 h0
        exact h2 b (h1 a hI)

theorem getD_drop_head (pkgs : List Pkg) (i : Nat) (p : Pkg) (rest : List Pkg) (h : pkgs.drop i = p :: rest) :
    pkgs.getD i default = p ∧ pkgs.drop (i + 1) = rest := by
  have h1 : pkgs[i]? = some p := by
    have := congrArg List.head? h
    simpa [List.head?_drop] using this
  refine ⟨by simp [List.getD, h1], ?_⟩
  have := congrArg List.tail h
  simpa [List.tail_drop] using this

/-- the whole installation: `all[k]` collects headers of package `i + k`, and the invariant is kept -/
theorem installFrom_rec (c : Cfg) (hc : c.spec = false) (pkgs : List Pkg) :
    ∀ (ps : List Pkg) (i : Nat) (st : St) (all : List (List Entry)) (st' : St) (all' : List (List Entry)),
      installFrom c pkgs i ps st all = .ok (st', all') → pkgs.drop i = ps → all.length = i →
      (∀ p ∈ pkgs, ∀ e ∈ p.entries, WFn e) →
      (∀ k files, all[k]? = some files → ∀ e ∈ files, e ∈ (pkgs.getD k default).entries) →
      (∀ k files, all'[k]? = some files → ∀ e ∈ files, e ∈ (pkgs.getD k default).entries) ∧
      ∃ x, st'.flags = st.flags ++ x ∧ (Benign x → RecInv pkgs st → RecInv pkgs st') := by
  intro ps
  induction ps with
  | nil =>
    intro i st all st' all' h _ _ _ hall
    simp [installFrom] at h
    obtain ⟨rfl, rfl⟩ := h
    exact ⟨hall, [], by simp, fun _ hI => hI⟩
  | cons p rest ih =>
    intro i st all st' all' h hdrop hlen hwf hall
    obtain ⟨hp, hrest⟩ := getD_drop_head pkgs i p rest hdrop
    have hpm : p ∈ pkgs := by
      have : p ∈ pkgs.drop i := by rw [hdrop]; simp
      exact List.mem_of_mem_drop this
    unfold installFrom at h
    split at h
    · cases h
    · rename_i st1 files hpk
      obtain ⟨hsub, x1, hx1, h1⟩ := installPkg_rec c hc pkgs i p.entries st [] st1 files hpk (hwf p hpm)
        (fun e he => by rw [hp]; exact he)
      have hall1 : ∀ k fs, (all ++ [files])[k]? = some fs → ∀ e ∈ fs, e ∈ (pkgs.getD k default).entries := by
        intro k fs hk e he
        by_cases hlt : k < all.length
        · rw [List.getElem?_append_left hlt] at hk
          exact hall k fs hk e he
        · have hge : all.length ≤ k := Nat.le_of_not_lt hlt
          rw [List.getElem?_append_right hge] at hk
          have hk0 : k - all.length = 0 := by
            cases hkk : k - all.length with
            | zero => rfl
            | succ m => rw [hkk] at hk; simp at hk
          rw [hk0] at hk
          simp only [List.getElem?_cons_zero, Option.some.injEq] at hk
          subst hk
          have hki : k = i := by omega
          rw [hki, hp]
          rcases hsub e he with h' | h'
          · cases h'
          · exact h'
      obtain ⟨hfin, x2, hx2, h2⟩ := ih (i + 1) st1 _ st' all' h hrest (by simp [hlen]) hwf hall1
      refine ⟨hfin, x1 ++ x2, by rw [hx2, hx1, List.append_assoc], fun h0 hI => ?_⟩
      obtain ⟨a, b⟩ := Benign_append.1 h0
      exact h2 b (h1 a hI)

end Apko.C07
