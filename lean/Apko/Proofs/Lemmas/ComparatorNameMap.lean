/-
The map-order parameter of `nameMap` cannot reach the provider choice: two orders that are
permutations of each other give candidate lists that are permutations of each other in which
same-name packages keep their relative order (`NameStable`); `filterPackages` is a filter by a
per-package predicate, so it preserves that; and the repaired comparator only ties same-name
packages — so `slices.MinFunc` picks the same package.
-/
import Apko.Proofs.Lemmas.ComparatorLex
import Apko.Proofs.Lemmas.ComparatorMin

namespace Apko.Cmp
open Apko Apko.Resolver

/-- `l₂` is a permutation of `l₁` that keeps same-name packages in their relative order -/
def NameStable (l₁ l₂ : List Pkg) : Prop :=
  l₁.Perm l₂ ∧ ∀ m : Text, l₁.filter (fun p => p.name = m) = l₂.filter (fun p => p.name = m)

theorem NameStable.refl (l : List Pkg) : NameStable l l := ⟨List.Perm.refl _, fun _ => rfl⟩

theorem NameStable.symm {l₁ l₂ : List Pkg} (h : NameStable l₁ l₂) : NameStable l₂ l₁ :=
  ⟨h.1.symm, fun m => (h.2 m).symm⟩

theorem NameStable.trans {l₁ l₂ l₃ : List Pkg} (h : NameStable l₁ l₂) (h' : NameStable l₂ l₃) :
    NameStable l₁ l₃ := ⟨h.1.trans h'.1, fun m => (h.2 m).trans (h'.2 m)⟩

theorem NameStable.filter {l₁ l₂ : List Pkg} (h : NameStable l₁ l₂) (P : Pkg → Bool) :
    NameStable (l₁.filter P) (l₂.filter P) := by
  refine ⟨h.1.filter P, fun m => ?_⟩
  rw [List.filter_filter, List.filter_filter]
  have : ∀ l : List Pkg, l.filter (fun a => decide (a.name = m) && P a) =
      (l.filter (fun p => p.name = m)).filter P := by
    intro l; rw [List.filter_filter]; apply List.filter_congr; intro a _; exact Bool.and_comm _ _
  rw [this l₁, this l₂, h.2 m]

theorem NameStable.mem_iff {l₁ l₂ : List Pkg} (h : NameStable l₁ l₂) (p : Pkg) : p ∈ l₁ ↔ p ∈ l₂ :=
  h.1.mem_iff

theorem NameStable.length_eq {l₁ l₂ : List Pkg} (h : NameStable l₁ l₂) : l₁.length = l₂.length :=
  h.1.length_eq

theorem NameStable.isEmpty_eq {l₁ l₂ : List Pkg} (h : NameStable l₁ l₂) : l₁.isEmpty = l₂.isEmpty :=
  h.1.isEmpty_eq

/-! ## nameMap -/

/-- the block appended to `nameMap[name]` for the own name `n` -/
def provBlock (u : Universe) (name n : Text) : List Pkg :=
  (u.all.filter (fun p => p.name = n)).flatMap fun p =>
    (p.provides.filter (fun pr => provName pr = name)).map fun _ => p

theorem nameMap_eq (u : Universe) (order : List Text) (name : Text) :
    nameMap u order name = u.all.filter (fun p => p.name = name) ++ order.flatMap (provBlock u name) := rfl

theorem provBlock_name {u : Universe} {name n : Text} {q : Pkg} (h : q ∈ provBlock u name n) :
    q.name = n := by
  unfold provBlock at h
  simp only [List.mem_flatMap, List.mem_filter, List.mem_map, decide_eq_true_eq] at h
  obtain ⟨p, ⟨_, hp⟩, _, _, rfl⟩ := h
  exact hp

theorem provBlock_filter (u : Universe) (name n m : Text) :
    (provBlock u name n).filter (fun p => p.name = m) = if n = m then provBlock u name n else [] := by
  split
  · next h =>
    subst h
    rw [List.filter_eq_self]
    intro q hq; simp [provBlock_name hq]
  · next h =>
    rw [List.filter_eq_nil_iff]
    intro q hq; simp only [decide_eq_true_eq]; rw [provBlock_name hq]; exact h

theorem flatMap_provBlock_filter (u : Universe) (name m : Text) (order : List Text) :
    (order.flatMap (provBlock u name)).filter (fun p => p.name = m) =
      (order.filter (fun n => n = m)).flatMap (provBlock u name) := by
  induction order with
  | nil => rfl
  | cons n ns ih =>
    rw [List.flatMap_cons, List.filter_append, ih, provBlock_filter]
    by_cases h : n = m
    · rw [List.filter_cons_of_pos (by simp [h]), List.flatMap_cons]; simp [h]
    · rw [List.filter_cons_of_neg (by simp [h])]; simp [h]

theorem perm_filter_eq {o₁ o₂ : List Text} (hp : o₁.Perm o₂) (m : Text) :
    o₁.filter (fun n => n = m) = o₂.filter (fun n => n = m) := by
  rw [List.filter_eq, List.filter_eq, hp.count_eq]

/-- T `nameMap_order_irrelevant`: two map iteration orders that are permutations of each other
(in particular any two permutations of `ownNames u`) give candidate lists that are permutations of
each other in which same-name packages keep their relative order. -/
theorem nameMap_order_irrelevant (u : Universe) (o₁ o₂ : List Text) (hp : o₁.Perm o₂) (name : Text) :
    NameStable (nameMap u o₁ name) (nameMap u o₂ name) := by
  rw [nameMap_eq, nameMap_eq]
  refine ⟨(hp.flatMap_right _).append_left _, fun m => ?_⟩
  rw [List.filter_append, List.filter_append, flatMap_provBlock_filter, flatMap_provBlock_filter,
    perm_filter_eq hp m]

/-! ## filterPackages is a filter by a per-package predicate -/

/-- the per-package predicate `filterPackages` keeps -/
def keepPkg (dq : List Nat) (version : Text) (dep : Dep) (allowPin preferPin : Text)
    (installed : Option Pkg) (p : Pkg) : Bool :=
  (!dq.contains p.id &&
    !((!p.pin.isEmpty && p.pin != allowPin && p.pin != preferPin) &&
      (match installed with | none => true | some i => Pkg.url i != Pkg.url p))) &&
  (if dep = .any then true
   else match pv version with
    | none => false
    | some req =>
      match pv p.version with
      | none => false
      | some act =>
        dep.satisfies act req ||
        p.provides.any fun prov =>
          let v := (parseConstraint prov).version
          if v.isEmpty then false
          else match pv v with
            | none => false
            | some a => dep.satisfies a req)

theorem filterPackages_eq_filter (cands : List Pkg) (dq : List Nat) (version : Text) (dep : Dep)
    (allowPin preferPin : Text) (installed : Option Pkg) :
    filterPackages cands dq version dep allowPin preferPin installed =
      cands.filter (keepPkg dq version dep allowPin preferPin installed) := by
  unfold filterPackages keepPkg
  simp only []
  by_cases hd : dep = .any
  · simp only [hd, if_true, Bool.and_true]; rfl
  · simp only [hd, if_false]
    cases pv version with
    | none => simp
    | some req => simp only [List.filter_filter]; apply List.filter_congr; intro a _; exact Bool.and_comm _ _

theorem filterPackages_stable {l₁ l₂ : List Pkg} (h : NameStable l₁ l₂) (dq : List Nat) (version : Text)
    (dep : Dep) (allowPin preferPin : Text) (installed : Option Pkg) :
    NameStable (filterPackages l₁ dq version dep allowPin preferPin installed)
      (filterPackages l₂ dq version dep allowPin preferPin installed) := by
  rw [filterPackages_eq_filter, filterPackages_eq_filter]; exact h.filter _

/-! ## the provider choice -/

/-- T `minFunc_nameStable`: the repaired comparator picks the same package from two `NameStable`
candidate lists. -/
theorem minFunc_nameStable {l₁ l₂ : List Pkg} (h : NameStable l₁ l₂) (name pin : Text)
    (existing : List (Text × Pkg)) (origins : List Text) :
    minFunc (comparePackages .eq name pin existing origins) l₁ =
      minFunc (comparePackages .eq name pin existing origins) l₂ :=
  minFunc_perm_invariant (comparePackages_swo name pin existing origins) l₁ l₂
    (classes_of_names (comparePackages_eq_same_name name pin existing origins) l₁ l₂ h.2)

/-- T `bestPackage_order_irrelevant` (the `bestPackage(filterPackages(nameMap[…]))` step of
`resolvePackage` and of the dependency loop): with the repaired comparator the chosen provider does
not depend on the map iteration order — for every virtual name, disqualified set, constraint,
pins, installed package, and comparator context. -/
theorem bestPackage_order_irrelevant (u : Universe) (o₁ o₂ : List Text) (hp : o₁.Perm o₂)
    (virt : Text) (dq : List Nat) (version : Text) (dep : Dep) (allowPin preferPin : Text)
    (installed : Option Pkg) (name pin : Text) (existing : List (Text × Pkg)) (origins : List Text) :
    minFunc (comparePackages .eq name pin existing origins)
        (filterPackages (nameMap u o₁ virt) dq version dep allowPin preferPin installed) =
      minFunc (comparePackages .eq name pin existing origins)
        (filterPackages (nameMap u o₂ virt) dq version dep allowPin preferPin installed) :=
  minFunc_nameStable (filterPackages_stable (nameMap_order_irrelevant u o₁ o₂ hp virt) ..) ..

/-- two optional values are both absent or both present and related -/
def OptRel {α : Type} (R : α → α → Prop) : Option α → Option α → Prop
  | some a, some b => R a b
  | none, none => True
  | _, _ => False

theorem optRel_nonempty {l₁ l₂ : List Pkg} (h : NameStable l₁ l₂) :
    OptRel NameStable (if l₁.isEmpty then none else some l₁) (if l₂.isEmpty then none else some l₂) := by
  rw [h.isEmpty_eq]
  cases h2 : l₂.isEmpty <;> simp [OptRel, h]

/-- the candidate filter shared by `resolvePackage` / `nextPackage` -/
theorem candidates_order_irrelevant (c : Cfg) (o₁ o₂ : List Text) (hp : o₁.Perm o₂) (pkgName : Text)
    (dq : List Nat) :
    OptRel NameStable (candidates { c with order := o₁ } pkgName dq)
      (candidates { c with order := o₂ } pkgName dq) := by
  unfold candidates
  by_cases hn : hasName c.u (parseConstraint pkgName).name
  · simp only [hn, Bool.not_true, Bool.false_eq_true, if_false]
    exact optRel_nonempty (filterPackages_stable
      (nameMap_order_irrelevant c.u o₁ o₂ hp (parseConstraint pkgName).name) ..)
  · simp [hn, OptRel]

/-- T `resolvePackage_order_irrelevant`: `resolvePackage` (world entries) returns the same package
for both orders. -/
theorem resolvePackage_order_irrelevant (c : Cfg) (hb : c.bothBad = .eq) (o₁ o₂ : List Text)
    (hp : o₁.Perm o₂) (pkgName : Text) (dq : List Nat) :
    resolvePackage { c with order := o₁ } pkgName dq = resolvePackage { c with order := o₂ } pkgName dq := by
  have hc := candidates_order_irrelevant c o₁ o₂ hp pkgName dq
  unfold resolvePackage
  generalize candidates { c with order := o₁ } pkgName dq = r₁ at hc
  generalize candidates { c with order := o₂ } pkgName dq = r₂ at hc
  match r₁, r₂, hc with
  | none, none, _ => rfl
  | some l₁, some l₂, hc =>
    show minFunc (comparePackages c.bothBad _ _ [] []) l₁ = minFunc (comparePackages c.bothBad _ _ [] []) l₂
    rw [hb]; exact minFunc_nameStable hc ..
  | some _, none, hc => exact False.elim hc
  | none, some _, hc => exact False.elim hc

end Apko.Cmp
