/-
C11 — the iteration orders the `s.gen` handler of the driver tries (`choices (multiLists o fs)` turned into
functions by `ordOf`) are rearrangements of the key set they are applied to, so every theorem stated for
`OrdPerm` / `OrdOk` orders applies to every candidate document the driver computes.  Without multi-target
SBOMs (¬F11d) there is exactly one candidate, computed with the identity order.
-/
import Apko.Proofs.Lemmas.SbomVerdict

namespace Apko.Sbom
open Apko Apko.Driver.Sbom

theorem insertAll_perm (x : Id) (l : List Id) : ∀ r ∈ insertAll x l, r.Perm (x :: l) := by
  induction l with
  | nil => intro r hr; simp only [insertAll, List.mem_singleton] at hr; subst hr; exact List.Perm.refl _
  | cons y ys ih =>
    intro r hr
    simp only [insertAll, List.mem_cons, List.mem_map] at hr
    rcases hr with rfl | ⟨r', hr', rfl⟩
    · exact List.Perm.refl _
    · exact ((ih r' hr').cons y).trans (List.Perm.swap x y ys)

theorem permsAux_perm (l : List Id) : ∀ r ∈ permsAux l, r.Perm l := by
  induction l with
  | nil => intro r hr; simp only [permsAux, List.mem_singleton] at hr; subst hr; exact List.Perm.refl _
  | cons x xs ih =>
    intro r hr
    simp only [permsAux, List.mem_flatMap] at hr
    obtain ⟨r0, hr0, hr⟩ := hr
    exact (insertAll_perm x r0 r hr).trans ((ih r0 hr0).cons x)

theorem perms_perm (l : List Id) : ∀ r ∈ perms l, r.Perm l := by
  intro r hr
  unfold perms at hr
  split at hr
  · simp only [List.mem_cons, List.not_mem_nil, or_false] at hr
    rcases hr with rfl | rfl
    · exact List.Perm.refl _
    · exact List.reverse_perm l
  · exact permsAux_perm l r hr

theorem choices_perm (ls : List (List Id)) : ∀ c ∈ choices ls, ∀ lp ∈ c, lp.2.Perm lp.1 := by
  induction ls with
  | nil => intro c hc; simp only [choices, List.mem_singleton] at hc; subst hc; intro lp h; cases h
  | cons l rest ih =>
    intro c hc
    simp only [choices] at hc
    have hc' := List.mem_of_mem_take hc
    simp only [List.mem_flatMap, List.mem_map] at hc'
    obtain ⟨p, hp, c0, hc0, rfl⟩ := hc'
    intro lp hlp
    rcases List.mem_cons.mp hlp with rfl | hlp
    · exact perms_perm l p hp
    · exact ih c0 hc0 lp hlp

theorem ordOf_perm {c : List (List Id × List Id)} (h : ∀ lp ∈ c, lp.2.Perm lp.1) : OrdPerm (ordOf c) := by
  intro l
  unfold ordOf
  cases hl : c.lookup l with
  | none => exact List.Perm.refl _
  | some p => exact h (l, p) (lookup_mem hl)

/-- every order the driver tries is a rearrangement of the key set -/
theorem driver_orders_perm (o : Opts) (fs : SbomDir) :
    ∀ c ∈ choices (multiLists o fs), OrdPerm (ordOf c) :=
  fun c hc => ordOf_perm (choices_perm _ c hc)

/-- without an embedded SBOM with two target elements the driver has a single candidate: the identity order -/
theorem multiLists_nil {o : Opts} {fs : SbomDir} (h : multiTarget o fs = false) : multiLists o fs = [] := by
  have h1 := multiTarget_false.mp h
  unfold multiLists
  have key : ∀ (l : List (List Id)), l = [] → l.eraseDups = [] := by intro l hl; subst hl; rfl
  apply key
  rw [List.filterMap_eq_nil_iff]
  intro a ha
  split
  · next emb hloc =>
    have := targetCount_le (h1 a ha) emb hloc
    simp only [ge_iff_le]
    rw [if_neg (by omega)]
  · rfl

theorem ordOf_nil : ordOf [] = id := by
  funext l
  simp [ordOf]

theorem driver_single_candidate {o : Opts} {fs : SbomDir} (h : multiTarget o fs = false) :
    (choices (multiLists o fs)).map (fun c => generate o fs (ordOf c)) = [generate o fs id] := by
  rw [multiLists_nil h]
  simp [choices, ordOf_nil]

end Apko.Sbom
