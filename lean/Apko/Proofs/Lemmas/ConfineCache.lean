import Apko.Model.Confine
import Apko.Proofs.Lemmas.ConfinePath
/-!
Normal form of cleaned absolute paths (`absOf out` = `"/" ++ strings.Join(out, "/")` for a list `out` of
components that `Clean` keeps) and the effect of `Clean`, `Join`, `Dir`, `Base` on it, for the cache-naming
theorems of C18.  `stk acc t` is the stack (top first) of `Clean`'s component loop after reading `t`.
-/
namespace Apko.Confine
open Apko Apko.Path

/-- a list of components that `Clean` keeps, none containing the separator -/
def NL (out : List Name) : Prop := ∀ x ∈ out, Normal x ∧ '/' ∉ x

/-- the absolute path with the components `out` -/
def absOf (out : List Name) : Text := '/' :: joinWith slash out

/-- the stack of `Clean`'s loop (rooted) after reading the text `t`, starting from `acc` -/
def stk (acc : List Name) (t : Text) : List Name := (splitOnChar '/' t).foldl (cleanStep true) acc

theorem NL_nil : NL [] := by intro x hx; cases hx

theorem NL_reverse {l : List Name} (h : NL l) : NL l.reverse := fun x hx => h x (List.mem_reverse.1 hx)

theorem NL_of_reverse {l : List Name} (h : NL l.reverse) : NL l := fun x hx => h x (List.mem_reverse.2 hx)

theorem NL_cons {c : Name} {l : List Name} (hc : Normal c ∧ '/' ∉ c) (h : NL l) : NL (c :: l) := by
  intro x hx
  rcases List.mem_cons.1 hx with e | e
  · rw [e]; exact hc
  · exact h x e

theorem NL_tail {l : List Name} (h : NL l) : NL l.tail := fun x hx => h x (List.mem_of_mem_tail hx)

theorem NL_append {a b : List Name} (ha : NL a) (hb : NL b) : NL (a ++ b) := by
  intro x hx
  rcases List.mem_append.1 hx with e | e
  · exact ha x e
  · exact hb x e

theorem NL_dropLast {l : List Name} (h : NL l) : NL l.dropLast := fun x hx => h x (List.dropLast_subset l hx)

theorem stk_append_sep (acc : List Name) (a b : Text) : stk acc (a ++ '/' :: b) = stk (stk acc a) b := by
  simp [stk, splitOnChar_append_sep, List.foldl_append]

theorem stk_NL {acc : List Name} (t : Text) (h : NL acc) : NL (stk acc t) :=
  foldl_cleanStep_rooted_inv (fun c => '/' ∉ c) _ acc h (mem_splitOnChar_no_sep '/' t)

theorem clean_abs_stk {p : Text} (h : isAbs p = true) : clean p = absOf (stk [] p).reverse := clean_abs h

/-! ### one step of the loop -/

theorem cleanStep_nop (r : Bool) (acc : List Name) {c : Name} (h : c = [] ∨ c = dot) : cleanStep r acc c = acc := by
  simp [cleanStep, h]

theorem cleanStep_push (r : Bool) (acc : List Name) {c : Name} (h : Normal c) : cleanStep r acc c = c :: acc := by
  simp [cleanStep, h.1, h.2.1, h.2.2]

theorem cleanStep_pop {acc : List Name} (h : ∀ x ∈ acc, Normal x) : cleanStep true acc dotdot = acc.tail := by
  have h1 : dotdot ≠ ([] : Name) := by decide
  have h2 : dotdot ≠ dot := by decide
  cases acc with
  | nil => simp [cleanStep, h1, h2]
  | cons top rest =>
    have := (h top (by simp)).2.2
    simp [cleanStep, h1, h2, this]

theorem stk_comp (acc : List Name) {c : Name} (h : '/' ∉ c) : stk acc c = cleanStep true acc c := by
  simp [stk, splitOnChar_no_sep _ _ h]

theorem stk_slash (acc : List Name) : stk acc slash = acc := by
  simp [stk, slash, splitOnChar, cleanStep]

theorem stk_nil (acc : List Name) : stk acc [] = acc := by
  simp [stk, splitOnChar, cleanStep]

/-- the effect of one `Base`-shaped element (`"/"`, or a single component) on the stack -/
def applyComp (acc : List Name) (b : Text) : List Name :=
  if b = slash ∨ b = dot then acc else if b = dotdot then acc.tail else b :: acc

/-- what `filepath.Base` returns: `"/"` or one non-empty component -/
def BaseLike (b : Text) : Prop := b = slash ∨ ('/' ∉ b ∧ b ≠ [])

theorem stk_baseLike {acc : List Name} {b : Text} (hb : BaseLike b) (hacc : NL acc) :
    stk acc b = applyComp acc b := by
  unfold applyComp
  rcases hb with e | ⟨hs, hne⟩
  · subst e; simp [stk_slash]
  · rw [stk_comp acc hs]
    have hsl : b ≠ slash := by intro e; subst e; simp [slash] at hs
    by_cases hd : b = dot
    · simp [hd, cleanStep_nop]
    · by_cases hdd : b = dotdot
      · subst hdd
        rw [cleanStep_pop (fun x hx => (hacc x hx).1)]
        simp [hsl, hd]
      · rw [cleanStep_push true acc ⟨hne, hd, hdd⟩]
        simp [hsl, hd, hdd]

theorem applyComp_NL {acc : List Name} {b : Text} (hb : BaseLike b) (hacc : NL acc) : NL (applyComp acc b) := by
  rw [← stk_baseLike hb hacc]; exact stk_NL b hacc

/-! ### the normal form -/

theorem isAbs_absOf (out : List Name) : isAbs (absOf out) = true := by simp [isAbs, absOf]

theorem stk_absOf {out : List Name} (hn : NL out) : stk [] (absOf out) = out.reverse := by
  cases ho : out with
  | nil => simp [absOf, joinWith, stk, splitOnChar, cleanStep]
  | cons a rest =>
    rw [← ho]
    have hne : out ≠ [] := by rw [ho]; simp
    have : splitOnChar '/' (absOf out) = [] :: out := by
      simp only [absOf, splitOnChar, if_true]
      unfold slash
      rw [splitOnChar_joinWith '/' out hne (fun c hc => (hn c hc).2)]
    unfold stk
    rw [this]
    simp only [List.foldl_cons]
    have h0 : cleanStep true [] [] = [] := by simp [cleanStep]
    rw [h0, foldl_cleanStep_normal true out [] (fun c hc => (hn c hc).1)]
    simp

theorem clean_absOf {out : List Name} (hn : NL out) : clean (absOf out) = absOf out := by
  rw [clean_abs_stk (isAbs_absOf out), stk_absOf hn]; simp

theorem parts_absOf {out : List Name} (hn : NL out) : parts (absOf out) = out := by
  unfold absOf; rw [parts_slash_cons, parts_joinWith_normal _ hn]

theorem absOf_inj {a b : List Name} (ha : NL a) (hb : NL b) (h : absOf a = absOf b) : a = b := by
  rw [← parts_absOf ha, ← parts_absOf hb, h]

/-- every cleaned absolute path is in normal form -/
theorem clean_abs_normal {p : Text} (h : isAbs p = true) :
    ∃ out, NL out ∧ clean p = absOf out ∧ out = (stk [] p).reverse :=
  ⟨_, NL_reverse (stk_NL p NL_nil), clean_abs_stk h, rfl⟩

theorem joinWith_snoc (l : List Name) (x : Name) :
    joinWith slash (l ++ [x]) = if l = [] then x else joinWith slash l ++ '/' :: x := by
  induction l with
  | nil => simp [joinWith]
  | cons a rest ih =>
    cases rest with
    | nil => simp [joinWith, slash]
    | cons b rest' =>
      have : (a :: b :: rest') ++ [x] = a :: b :: (rest' ++ [x]) := by simp
      rw [this]
      simp only [joinWith]
      have ih' : joinWith slash (b :: (rest' ++ [x])) = joinWith slash (b :: rest') ++ '/' :: x := by
        have := ih; simp at this; simpa using this
      rw [ih']; simp [slash]

theorem absOf_snoc (out : List Name) (x : Name) :
    absOf (out ++ [x]) = (if out = [] then [] else absOf out) ++ '/' :: x := by
  unfold absOf
  rw [joinWith_snoc]
  by_cases h : out = [] <;> simp [h]

theorem absOf_snoc_length (out : List Name) (x : Name) : (absOf out).length ≤ (absOf (out ++ [x])).length := by
  rw [absOf_snoc]
  by_cases h : out = []
  · subst h; simp [absOf, joinWith]
  · simp [h]

theorem absOf_snoc_lt (out : List Name) {x : Name} (hx : x ≠ []) : (absOf out).length < (absOf (out ++ [x])).length := by
  rw [absOf_snoc]
  have := List.length_pos_iff.2 hx
  by_cases h : out = []
  · subst h; simpa [absOf, joinWith] using this
  · simp [h]

theorem hasPrefix_absOf_snoc (out : List Name) (x : Name) : hasPrefix (absOf (out ++ [x])) (absOf out) = true := by
  rw [absOf_snoc]
  unfold hasPrefix
  rw [List.isPrefixOf_iff_prefix]
  by_cases h : out = []
  · subst h; exact ⟨x, by simp [absOf, joinWith]⟩
  · simp only [h, if_false]; exact List.prefix_append _ _

theorem not_hasPrefix_of_shorter {s pre : Text} (h : s.length < pre.length) : hasPrefix s pre = false := by
  cases hp : hasPrefix s pre with
  | false => rfl
  | true =>
    obtain ⟨r, hr⟩ := hasPrefix_append hp
    rw [hr] at h; simp at h; omega

/-! ### `Join`, `Dir`, `Base` on the normal form -/

theorem join2_absOf {out : List Name} {c : Name} (hn : NL out) (hc : Normal c ∧ '/' ∉ c) :
    join2 (absOf out) c = absOf (out ++ [c]) := by
  have hne : absOf out ≠ [] := by simp [absOf]
  have e : absOf out ++ slash ++ c = absOf out ++ '/' :: c := by simp [slash]
  have ha : isAbs (absOf out ++ '/' :: c) = true := by simp [isAbs, absOf]
  unfold join2
  rw [if_pos hne, e, clean_abs_stk ha, stk_append_sep, stk_absOf hn, stk_comp _ hc.2, cleanStep_push _ _ hc.1]
  simp

theorem uptoLastSlash_append (a x : Text) (hx : '/' ∉ x) : uptoLastSlash (a ++ '/' :: x) = a ++ ['/'] := by
  unfold uptoLastSlash
  have : (a ++ '/' :: x).reverse = x.reverse ++ '/' :: a.reverse := by simp
  rw [this, List.dropWhile_append_of_pos]
  · simp [List.dropWhile]
  · intro c hc
    have : c ≠ '/' := by intro e; subst e; exact hx (List.mem_reverse.1 hc)
    simpa using this

theorem dir_absOf {out : List Name} (hn : NL out) : dir (absOf out) = absOf out.dropLast := by
  rcases List.eq_nil_or_concat out with h | ⟨l, x, h⟩
  · subst h; decide
  · rw [List.concat_eq_append] at h
    subst h
    have hl : NL l := fun y hy => hn y (by simp [hy])
    have hx := hn x (by simp)
    rw [List.dropLast_concat, absOf_snoc]
    unfold dir
    rw [uptoLastSlash_append _ _ hx.2]
    by_cases h : l = []
    · subst h; decide
    · simp only [h, if_false]
      have ha : isAbs (absOf l ++ ['/']) = true := by simp [isAbs, absOf]
      rw [clean_abs_stk ha, stk_append_sep, stk_absOf hl, stk_nil]
      simp

theorem base_ne_nil (p : Text) : base p ≠ [] := by
  unfold base
  split
  · decide
  · simp only
    split
    · decide
    · assumption

theorem mem_takeWhile_imp {α} (p : α → Bool) : ∀ (l : List α) (x : α), x ∈ l.takeWhile p → p x = true
  | [], _, h => by simp at h
  | a :: l, x, h => by
    rw [List.takeWhile_cons] at h
    split at h
    · next hp =>
      rcases List.mem_cons.1 h with e | e
      · rw [e]; exact hp
      · exact mem_takeWhile_imp p l x e
    · simp at h

theorem baseLike_base (p : Text) : BaseLike (base p) := by
  unfold base
  by_cases hp : p = []
  · rw [if_pos hp]; exact Or.inr ⟨by decide, by decide⟩
  · rw [if_neg hp]
    simp only
    by_cases hb : ((stripTrailingSlashes p).reverse.takeWhile (· ≠ '/')).reverse = []
    · rw [if_pos hb]; exact Or.inl rfl
    · rw [if_neg hb]
      refine Or.inr ⟨?_, hb⟩
      intro hc
      have := mem_takeWhile_imp _ _ _ (List.mem_reverse.1 hc)
      simp at this

/-- `Base` of a cleaned absolute path: its last component (`"/"` for the root) -/
theorem base_absOf_snoc (out : List Name) {x : Name} (hx : Normal x ∧ '/' ∉ x) : base (absOf (out ++ [x])) = x := by
  rw [absOf_snoc]
  generalize (if out = [] then [] else absOf out) = a
  obtain ⟨hne, -, -⟩ := hx.1
  -- the last character of `x` is not a separator
  obtain ⟨y, c, hy⟩ : ∃ y c, x.reverse = c :: y := by
    cases hr : x.reverse with
    | nil => simp at hr; exact absurd hr hne
    | cons c y => exact ⟨y, c, rfl⟩
  have hc : c ≠ '/' := by
    intro e; subst e
    exact hx.2 (List.mem_reverse.1 (by rw [hy]; simp))
  have hrev : (a ++ '/' :: x).reverse = x.reverse ++ '/' :: a.reverse := by simp
  have hstrip : stripTrailingSlashes (a ++ '/' :: x) = a ++ '/' :: x := by
    unfold stripTrailingSlashes
    rw [hrev, hy]
    simp [hc]
    have : x = (c :: y).reverse := by rw [← hy]; simp
    rw [this]; simp
  unfold base
  have hn0 : a ++ '/' :: x ≠ [] := by simp
  rw [if_neg hn0]
  simp only [hstrip, hrev]
  rw [List.takeWhile_append_of_pos]
  · simp [List.takeWhile, hne]
  · intro ch hch
    have : ch ≠ '/' := by intro e; subst e; exact hx.2 (List.mem_reverse.1 hch)
    simpa using this

/-! ### `cachePathFromURL` -/

/-- the stack of `Clean(Join(root, esc, Base(Dir(path)), Base(path)))`: the root's components, the escaped
repository, then the two `Base`-shaped elements -/
def cacheStack (root path esc : Text) : List Name :=
  applyComp (applyComp (esc :: stk [] root) (base (dir path))) (base path)

theorem escSafe_normal {esc : Text} (he : EscSafe esc) : Normal esc ∧ '/' ∉ esc :=
  ⟨⟨he.1, he.2.2.1, he.2.2.2⟩, he.2.1⟩

theorem clean_root_eq {root : Text} (hr : isAbs root = true) :
    clean root = absOf (stk [] root).reverse ∧ NL (stk [] root) :=
  ⟨clean_abs_stk hr, stk_NL root NL_nil⟩

theorem cacheFile_eq {root path esc : Text} (hr : isAbs root = true) (he : EscSafe esc) :
    clean (joinList [root, esc, base (dir path), base path]) = absOf (cacheStack root path esc).reverse
    ∧ NL (cacheStack root path esc) := by
  have hrn : root ≠ [] := by obtain ⟨q, rfl⟩ := isAbs_cons hr; simp
  have hn := escSafe_normal he
  have hd := baseLike_base (dir path)
  have hf := baseLike_base path
  have hjl : joinList [root, esc, base (dir path), base path]
      = clean (root ++ '/' :: (esc ++ '/' :: (base (dir path) ++ '/' :: base path))) := by
    simp [joinList, hrn, he.1, base_ne_nil, joinWith, slash]
  have ha : isAbs (root ++ '/' :: (esc ++ '/' :: (base (dir path) ++ '/' :: base path))) = true := by
    obtain ⟨q, rfl⟩ := isAbs_cons hr; simp [isAbs]
  have h0 : NL (esc :: stk [] root) := NL_cons hn (stk_NL root NL_nil)
  rw [hjl, clean_clean_abs ha, clean_abs_stk ha, stk_append_sep, stk_append_sep, stk_append_sep, stk_comp _ hn.2,
    cleanStep_push _ _ hn.1, stk_baseLike hd h0, stk_baseLike hf (applyComp_NL hd h0)]
  exact ⟨rfl, applyComp_NL hf (applyComp_NL hd h0)⟩

theorem cachePathFromURL_some {root path esc v : Text} (hr : isAbs root = true) (he : EscSafe esc)
    (h : cachePathFromURL root path esc = some v) :
    v = absOf (cacheStack root path esc).reverse ∧ v ≠ clean root ∧ hasPrefix v (clean root) = true := by
  unfold cachePathFromURL at h
  simp only at h
  split at h
  · cases h
  · next hc =>
    injection h with h
    rw [(cacheFile_eq hr he).1] at h hc
    subst h
    simp only [not_or, Bool.not_eq_false, Bool.not_eq_eq_eq_not, Bool.not_true] at hc
    exact ⟨rfl, hc.1, by simpa using hc.2⟩

/-- the exact shape of an accepted cache path: below the root's components come the escaped repository,
the architecture directory (unless it is `/` or `.`) and the file name (unless it is `/` or `.`); a `..` as
file name removes the element before it; only a `..` as directory (relative URL paths) removes `esc` -/
theorem cacheStack_shape {root path esc : Text} (hr : isAbs root = true)
    (hne : absOf (cacheStack root path esc).reverse ≠ clean root)
    (hp : hasPrefix (absOf (cacheStack root path esc).reverse) (clean root) = true) :
    ∃ top, cacheStack root path esc = top ++ stk [] root ∧
      (top = [esc] ∨ top = [base path, esc] ∨ top = [base (dir path), esc]
        ∨ top = [base path, base (dir path), esc] ∨ (base (dir path) = dotdot ∧ top = [base path])) := by
  obtain ⟨hcr, hnr⟩ := clean_root_eq hr
  rw [hcr] at hne hp
  generalize hd : base (dir path) = d at *
  generalize hf : base path = f at *
  generalize hR : stk [] root = Rr at *
  have hsd : dotdot ≠ slash := by decide
  have hdd : dotdot ≠ dot := by decide
  -- the two rejected outcomes
  have bad1 : cacheStack root path esc = Rr → False := fun e => hne (by rw [e])
  have bad2 : cacheStack root path esc = Rr.tail → False := by
    intro e
    cases hRr : Rr with
    | nil => exact bad1 (by rw [e, hRr]; rfl)
    | cons x t =>
      rw [e, hRr] at hp
      simp only [List.tail_cons, List.reverse_cons] at hp
      have hx : x ≠ [] := (hnr x (by rw [hRr]; simp)).1.1
      rw [not_hasPrefix_of_shorter (absOf_snoc_lt _ hx)] at hp
      cases hp
  unfold cacheStack at bad1 bad2 ⊢
  rw [hd, hf, hR] at bad1 bad2 ⊢
  unfold applyComp at bad1 bad2 ⊢
  by_cases d1 : d = slash ∨ d = dot
  · simp only [d1, if_true] at bad1 bad2 ⊢
    by_cases f1 : f = slash ∨ f = dot
    · simp only [f1, if_true]; exact ⟨[esc], rfl, Or.inl rfl⟩
    · by_cases f2 : f = dotdot
      · exact absurd (by simp [f2, hsd, hdd]) bad1
      · simp only [f1, f2, if_false]; exact ⟨[f, esc], rfl, Or.inr (Or.inl rfl)⟩
  · by_cases d2 : d = dotdot
    · simp only [d2, hsd, hdd, or_self, if_false, if_true, List.tail_cons] at bad1 bad2 ⊢
      by_cases f1 : f = slash ∨ f = dot
      · exact absurd (by simp [f1]) bad1
      · by_cases f2 : f = dotdot
        · exact absurd (by simp [f2, hsd, hdd]) bad2
        · simp only [f1, f2, if_false]; exact ⟨[f], rfl, Or.inr (Or.inr (Or.inr (Or.inr ⟨trivial, rfl⟩)))⟩
    · simp only [d1, d2, if_false] at bad1 bad2 ⊢
      by_cases f1 : f = slash ∨ f = dot
      · simp only [f1, if_true]; exact ⟨[d, esc], rfl, Or.inr (Or.inr (Or.inl rfl))⟩
      · by_cases f2 : f = dotdot
        · simp only [f2, hsd, hdd, or_self, if_false, if_true, List.tail_cons]; exact ⟨[esc], rfl, Or.inl rfl⟩
        · simp only [f1, f2, if_false]; exact ⟨[f, d, esc], rfl, Or.inr (Or.inr (Or.inr (Or.inl rfl)))⟩

end Apko.Confine
