/-
C10 — full-strength statements, as `Prop`s over the executable model `Apko/Model/Layers.lean`.
`Proofs/C10.lean` proves them (or, where a proof is not finished, keeps them visible and lists
them as unproved).
-/
import Apko.Model.Layers

namespace Apko.C10
open Apko Apko.Layers

/-- a map iteration order: any permutation of the key list -/
def IsPerm (o : Order) : Prop := ∀ l, (o l).Perm l

def UniqueNames (pkgs : List LPkg) : Prop := (pkgs.map (·.name)).Nodup

/-! ## grouping -/

/-- every package is in exactly one group -/
def GroupsPartition : Prop :=
  ∀ (pkgs : List LPkg) (budget : Int) (o1 o2 o3 o4 : Order) (gs : List Grp),
    UniqueNames pkgs → IsPerm o1 → IsPerm o2 → IsPerm o3 → IsPerm o4 →
    groupByOriginAndSize pkgs budget o1 o2 o3 o4 = .ok gs →
    (gs.flatMap (·.pkgs)).Perm pkgs

/-- same origin ⇒ same group; a replaces b (version-checked as in replacesGroup) ⇒ same group -/
def GroupsClosed : Prop :=
  ∀ (pkgs : List LPkg) (budget : Int) (o1 o2 o3 o4 : Order) (gs : List Grp),
    UniqueNames pkgs → IsPerm o1 → IsPerm o2 → IsPerm o3 → IsPerm o4 →
    groupByOriginAndSize pkgs budget o1 o2 o3 o4 = .ok gs →
    ∀ a ∈ pkgs, ∀ b ∈ pkgs, (a.origin = b.origin ∨ replacesEdge pkgs a b = true) →
      sameGroup gs a b = true

/-- the number of groups never exceeds `max budget 1` (no hypothesis on the input at all) -/
def GroupCount : Prop :=
  ∀ (pkgs : List LPkg) (budget : Int) (o1 o2 o3 o4 : Order) (gs : List Grp),
    groupByOriginAndSize pkgs budget o1 o2 o3 o4 = .ok gs →
    gs.length ≤ max budget.toNat 1

/-- the result (groups, their order, the order inside each group, and error / panic outcomes)
does not depend on the four map iteration orders -/
def GroupPermInvariant : Prop :=
  ∀ (pkgs : List LPkg) (budget : Int) (o1 o2 o3 o4 o1' o2' o3' o4' : Order),
    UniqueNames pkgs → IsPerm o1 → IsPerm o2 → IsPerm o3 → IsPerm o4 →
    IsPerm o1' → IsPerm o2' → IsPerm o3' → IsPerm o4' →
    groupByOriginAndSize pkgs budget o1 o2 o3 o4 = groupByOriginAndSize pkgs budget o1' o2' o3' o4'

/-! ## splitting -/

/-- what `walkFS` guarantees: no path twice, the root is skipped, parents are on the main stack -/
def WalkOK (walk : List WEntry) : Prop :=
  (walk.map (·.path)).Nodup ∧ (∀ f ∈ walk, f.path ≠ []) ∧ StackOK walk = true

/-- every owner has a writer (no `packageToWriter[..] missing` panic) -/
def TargetsOK (layerOf : Text → Nat) (n : Nat) (walk : List WEntry) : Prop :=
  ∀ f ∈ walk, target layerOf n f ≤ n

/-- tarfs never attributes a directory to a package (`memFileInfo.Package` needs a tar entry) -/
def DirsUnowned (walk : List WEntry) : Prop := ∀ f ∈ walk, f.isDir = true → f.owner = none

/-- every non-directory entry is emitted in exactly one layer, with its own header: its owner's
group's layer, or top when unowned -/
def FileOnce : Prop :=
  ∀ (layerOf : Text → Nat) (n : Nat) (walk : List WEntry),
    WalkOK walk → TargetsOK layerOf n walk →
    ∀ f ∈ walk, f.isDir = false → ∀ k, k ≤ n →
      ((splitOuts layerOf n walk).getD k []).filter (fun e => e.path = f.path) =
        if k = target layerOf n f then [f.toEntry] else []

/-- in every layer each entry's parent directory precedes it and no path occurs twice -/
def LayerWellFormed : Prop :=
  ∀ (layerOf : Text → Nat) (n : Nat) (walk : List WEntry),
    WalkOK walk → TargetsOK layerOf n walk →
    ∀ L ∈ splitOuts layerOf n walk, layerWellFormed L = true

/-- owned entries are written to a group layer (`packageToWriter` only holds group writers;
`layerOfGroups` returns an index below `groups.length`) -/
def OwnersBelow (layerOf : Text → Nat) (n : Nat) (walk : List WEntry) : Prop :=
  ∀ f ∈ walk, ∀ p, f.owner = some p → layerOf p < n

/-- the top layer is exactly the unowned entries in walk order with their true headers; in
particular it holds every directory with its real header (ModTime included).
(Without `OwnersBelow` the statement is false: an owner mapped to index `n` lands in top.) -/
def TopHasTrueDirs : Prop :=
  ∀ (layerOf : Text → Nat) (n : Nat) (walk : List WEntry),
    WalkOK walk → TargetsOK layerOf n walk → DirsUnowned walk → OwnersBelow layerOf n walk →
    (splitOuts layerOf n walk).getD n [] =
      (walk.filter (fun f => f.owner.isNone)).map (·.toEntry)

/-- extracting the layers in order gives, for every path, the entry the single-layer tar gives -/
def FlattenEqSingle : Prop :=
  ∀ (layerOf : Text → Nat) (n : Nat) (walk : List WEntry),
    WalkOK walk → TargetsOK layerOf n walk → DirsUnowned walk →
    ∀ p, lastFor (splitOuts layerOf n walk).flatten p = lastFor (singleLayer walk) p

/-- the preorder property of `fs.WalkDir` implies the stack condition used above -/
def WellNestedStackOK : Prop :=
  ∀ (walk : List WEntry), (walk.map (·.path)).Nodup → (∀ f ∈ walk, f.path ≠ []) →
    WellNested walk = true → StackOK walk = true

end Apko.C10
