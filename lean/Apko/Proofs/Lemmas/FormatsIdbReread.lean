/-
C16: writing again what was read from the installed db.  Byte for byte this never reproduces the
file (F16a-idb: the `i:` line; F16c: `Z:` lines are not read).  Modulo exactly those two kinds of lines
it does, for packages whose header list is a tree.
-/
import Apko.Proofs.Lemmas.FormatsIdb
import Apko.Proofs.Lemmas.FormatsSortIdem

namespace Apko.Formats
open Apko

/-! ## `sortTarHeaders` commutes with maps that keep name and kind -/

def KeepsKey (g : FileRec → FileRec) : Prop := ∀ f, (g f).name = f.name ∧ (g f).isDir = f.isDir

theorem lookupHeader_map (hs : List FileRec) (g : FileRec → FileRec) (hg : KeepsKey g) (n : Text) :
    lookupHeader (hs.map g) n = (lookupHeader hs n).map g := by
  unfold lookupHeader
  rw [← List.map_reverse, List.find?_map]
  congr 2
  funext h
  simp [(hg h).1]

theorem childrenOf_map (hs : List FileRec) (g : FileRec → FileRec) (hg : KeepsKey g) (n : Text) :
    childrenOf (hs.map g) n = childrenOf hs n := by
  unfold childrenOf
  rw [List.map_map]
  congr 2
  funext h
  simp [(hg h).1]

theorem filesOf_map (hs : List FileRec) (g : FileRec → FileRec) (hg : KeepsKey g) (s : List Text) :
    filesOf (hs.map g) s = (filesOf hs s).map g := by
  unfold filesOf
  rw [show lookupHeader (hs.map g) = fun n => (lookupHeader hs n).map g from funext (lookupHeader_map hs g hg),
    ← List.map_filterMap, List.filter_map]
  congr 2
  funext h
  simp [(hg h).2]

theorem dirsOf_map (hs : List FileRec) (g : FileRec → FileRec) (hg : KeepsKey g) : ∀ (s : List Text),
    dirsOf (hs.map g) s = (dirsOf hs s).map (fun p => (p.1, g p.2)) := by
  intro s
  induction s with
  | nil => rfl
  | cons a s ih =>
    have e : dirOf (hs.map g) a = (dirOf hs a).map (fun p => (p.1, g p.2)) := by
      unfold dirOf
      rw [lookupHeader_map hs g hg a]
      cases lookupHeader hs a with
      | none => rfl
      | some h => cases hd : h.isDir <;> simp [(hg h).2, hd]
    rw [dirsOf_eq, dirsOf_eq] at ih
    rw [dirsOf_eq, dirsOf_eq, List.filterMap_cons, List.filterMap_cons, ih, e]
    cases dirOf hs a <;> simp

theorem sortChildren_map (hs : List FileRec) (g : FileRec → FileRec) (hg : KeepsKey g) :
    ∀ (fuel : Nat) (c : List Text), sortChildren (hs.map g) fuel c = (sortChildren hs fuel c).map (List.map g) := by
  intro fuel
  induction fuel with
  | zero => intro c; rw [sortChildren.eq_1, sortChildren.eq_1]; rfl
  | succ fuel ih =>
    intro c
    have hgo : ∀ (dirs : List (Text × FileRec)),
        sortChildren.go (hs.map g) fuel (dirs.map fun p => (p.1, g p.2)) =
          (sortChildren.go hs fuel dirs).map (List.map g) := by
      intro dirs
      induction dirs with
      | nil => rw [List.map_nil, sortChildren.go.eq_1, sortChildren.go.eq_1]; rfl
      | cons p rest ihd =>
        obtain ⟨n, d⟩ := p
        rw [List.map_cons, sortChildren.go.eq_2, sortChildren.go.eq_2, ihd, childrenOf_map hs g hg n, ih]
        cases sortChildren hs fuel (childrenOf hs n) with
        | none => rfl
        | some sub =>
          cases sortChildren.go hs fuel rest with
          | none => rfl
          | some tl => simp
    rw [sortChildren_unfold, sortChildren_unfold, filesOf_map hs g hg, dirsOf_map hs g hg, hgo]
    cases sortChildren.go hs fuel (dirsOf hs (sortTexts c)) with
    | none => rfl
    | some y => simp

theorem sortHeaders_map (hs : List FileRec) (g : FileRec → FileRec) (hg : KeepsKey g) :
    sortHeaders (hs.map g) = (sortHeaders hs).map (List.map g) := by
  rw [sortHeaders_eq, sortHeaders_eq, List.length_map, ← sortChildren_map hs g hg]
  congr 2
  unfold rawTop
  rw [List.map_map]
  congr 3
  funext h
  simp [(hg h).1]

theorem fileProj_keepsKey : KeepsKey fileProj := fun _ => ⟨rfl, rfl⟩

/-! ## the lines that survive a read -/

/-- not an `i:` line and not a `Z:` line -/
def keepLine (l : Text) : Bool :=
  match l with
  | 'i' :: _ => false
  | 'Z' :: _ => false
  | _ => true

theorem emod_emodPerm (m : Int) : (m.emod 4096).emod 4096 = m.emod 4096 :=
  Int.emod_emod_of_dvd m (by decide)

theorem permLine_proj (tag : Char) (f : FileRec) : permLine tag (fileProj f) = permLine tag f := by
  simp [permLine, fileProj, emod_emodPerm]

theorem fileLines_proj (c : Codec) (f : FileRec) (ls : List Text) (h : fileLines c f = .ok ls) :
    fileLines c (fileProj f) = .ok (ls.filter keepLine) := by
  cases hd : f.isDir with
  | true =>
    unfold fileLines at h ⊢
    simp only [hd, if_true, Res.ok.injEq] at h
    subst h
    simp only [show (fileProj f).isDir = true from hd, if_true, permLine_proj,
      show (fileProj f).mode = f.mode.emod 4096 from rfl, emod_emodPerm,
      show (fileProj f).uid = f.uid from rfl, show (fileProj f).gid = f.gid from rfl,
      show (fileProj f).name = f.name from rfl]
    split <;> simp [keepLine, permLine]
  | false =>
    obtain ⟨zs, hzs, rfl⟩ := fileLines_file c f ls hd h
    unfold fileLines
    simp only [show (fileProj f).isDir = false from hd, Bool.false_eq_true, if_false, permLine_proj,
      show (fileProj f).mode = f.mode.emod 4096 from rfl, emod_emodPerm,
      show (fileProj f).uid = f.uid from rfl, show (fileProj f).gid = f.gid from rfl,
      show (fileProj f).name = f.name from rfl, show (fileProj f).csum = [] from rfl, if_true]
    have hz : zs.filter keepLine = [] := by
      rw [List.filter_eq_nil_iff]
      intro z hz
      obtain ⟨v, rfl⟩ := hzs z hz
      simp [keepLine]
    rw [List.filter_append, hz, List.append_nil]
    split <;> simp [keepLine, permLine]

theorem filesLines_proj (c : Codec) : ∀ (fs : List FileRec) (fl : List Text), filesLines c fs = .ok fl →
    filesLines c (fs.map fileProj) = .ok (fl.filter keepLine) := by
  intro fs
  induction fs with
  | nil => intro fl h; simp only [filesLines, Res.ok.injEq] at h; subst h; rfl
  | cons f fs ih =>
    intro fl h
    obtain ⟨a, b, ha, hb, rfl⟩ := filesLines_cons c f fs fl h
    simp only [List.map_cons, filesLines, fileLines_proj c f a ha, ih b hb, Res.bind, List.filter_append]

/-! ## package lines of the re-read record -/

theorem renderRow_idbProj (c : Codec) (p : Pkg) (r : Row) (hf : r.field ≠ .installIf)
    (hc : condFits r.field r.cond = true) : renderRow c (idbProj p) r = renderRow c p r := by
  have hcond : evalCond (idbProj p) r.cond = evalCond p r.cond := by
    cases hcd : r.cond with
    | always => rfl
    | truthy g =>
      rw [hcd] at hc
      simp only [condFits, Bool.and_eq_true, beq_iff_eq] at hc
      simp only [evalCond, idbProj_get p g (hc.1 ▸ hf)]
    | timeNonZero => rfl
  unfold renderRow
  rw [hcond, idbProj_get p r.field hf]

theorem recLines_idbProj_of (c : Codec) (cs : List Case) (p : Pkg) : ∀ (rows : List Row),
    (∀ r ∈ rows, rowOK cs r = true) → Field.installIf ∉ fieldsOf rows →
    recLines c rows (idbProj p) = recLines c rows p := by
  intro rows
  induction rows with
  | nil => intro _ _; rfl
  | cons r rs ih =>
    intro hok hno
    simp only [fieldsOf, List.map_cons, List.mem_cons, not_or] at hno
    have hrow := hok r (by simp)
    unfold rowOK at hrow
    simp only [Bool.and_eq_true] at hrow
    simp only [recLines, List.flatMap_cons] at ih ⊢
    rw [renderRow_idbProj c p r (fun e => hno.1 e.symm) hrow.1.2, ih (fun x hx => hok x (by simp [hx])) hno.2]

theorem pkgLines_reread (c : Codec) (cs : List Case) (rows pre post : List Row) (ht : IdbTable rows cs pre post)
    (p : Pkg) :
    (recLines c rows (idbProj p)).filter keepLine = (recLines c rows p).filter keepLine := by
  have hnoI := ht.noI
  rw [fieldsOf_append, List.mem_append, not_or] at hnoI
  have hpre : ∀ r ∈ pre, rowOK cs r = true := fun r hr => ht.ok r (by simp [hr])
  have hpost : ∀ r ∈ post, rowOK cs r = true := fun r hr => ht.ok r (by simp [hr])
  rw [ht.split, show pre ++ lossyRow :: post = pre ++ ([lossyRow] ++ post) by simp,
    recLines_append, recLines_append, recLines_append, recLines_append, recLines_lossy, recLines_lossy,
    recLines_idbProj_of c cs p pre hpre hnoI.1, recLines_idbProj_of c cs p post hpost hnoI.2]
  simp [List.filter_append, keepLine]

/-! ## one package, written, read and written again -/

theorem renderInstalled_reread (c : Codec) (cs : List Case) (rows pre post : List Row)
    (ht : IdbTable rows cs pre post) (ip : IPkg) (htree : TreeP ip.files)
    (hn : namesNodup ip.files = true) (t : Text) (hr : renderInstalled c rows ip = .ok t) :
    ∃ L L', t = unlines L ∧ renderInstalled c rows (readBack ip) = .ok (unlines L') ∧
      L'.filter keepLine = L.filter keepLine := by
  obtain ⟨sorted, fl, hsort, hfl, rfl⟩ := renderInstalled_ok c rows ip t hr
  have hidem := sortHeaders_idem ip.files htree hn sorted hsort
  have hs2 : sortHeaders (sorted.map fileProj) = some (sorted.map fileProj) := by
    rw [sortHeaders_map sorted fileProj fileProj_keepsKey, hidem]; rfl
  refine ⟨_, recLines c rows (idbProj ip.pkg) ++ fl.filter keepLine ++ [[]], rfl, ?_, ?_⟩
  · simp only [renderInstalled, readBack, hsort, Option.getD_some, hs2, filesLines_proj c sorted fl hfl, Res.bind]
  · simp only [List.filter_append, List.filter_filter, Bool.and_self,
      pkgLines_reread c cs rows pre post ht ip.pkg]

/-! ## the same at the level of the text -/

/-- the text with its `i:` and `Z:` lines removed -/
def stripIZ (t : Text) : Text := unlines ((rawLines t).filter keepLine)

theorem stripIZ_unlines (L : List Text) (h : ∀ l ∈ L, lineSafe l = true) :
    stripIZ (unlines L) = unlines (L.filter keepLine) := by
  unfold stripIZ
  rw [rawLines_unlines L (fun l hl => ((lineSafe_iff l).mp (h l hl)).1)]

theorem goList_splitRep (l : List Text) :
    goList (splitRepeatedField (goList l)) = '[' :: (goList l ++ [']']) := by
  have hne : goList l ≠ [] := by simp [goList]
  unfold splitRepeatedField
  rw [if_neg hne]
  show '[' :: (joinWith [' '] (splitOnChar ' ' (goList l)) ++ [']']) = _
  rw [joinWith_splitOnChar]

theorem pkgLines_proj_safe (c : Codec) (hc : c.Lawful) (cs : List Case) (rows pre post : List Row)
    (ht : IdbTable rows cs pre post) (p : Pkg) (hs : fieldsSafe p = true) :
    ∀ l ∈ recLines c rows (idbProj p), lineSafe l = true := by
  have hnoI := ht.noI
  rw [fieldsOf_append, List.mem_append, not_or] at hnoI
  have hpre : ∀ r ∈ pre, rowOK cs r = true := fun r hr => ht.ok r (by simp [hr])
  have hpost : ∀ r ∈ post, rowOK cs r = true := fun r hr => ht.ok r (by simp [hr])
  intro l hl
  rw [ht.split, show pre ++ lossyRow :: post = pre ++ ([lossyRow] ++ post) by simp,
    recLines_append, recLines_append, recLines_lossy,
    recLines_idbProj_of c cs p pre hpre hnoI.1, recLines_idbProj_of c cs p post hpost hnoI.2] at hl
  simp only [List.mem_append, List.mem_singleton] at hl
  rcases hl with h | h | h
  · exact recLines_safe c hc cs pre p hpre hs l h
  · subst h
    have hg : lineSafe (goList p.installIf) = true :=
      fmtVal_safe c hc .plain (.list p.installIf) (fieldsSafe_get p hs .installIf)
    show lineSafe ('i' :: ':' :: goList (splitRepeatedField (goList p.installIf))) = true
    rw [goList_splitRep]
    apply lineSafe_of_all
    intro ch hch
    simp only [List.mem_cons, List.mem_append, List.not_mem_nil, or_false] at hch
    rcases hch with h | h | h | h | h
    · subst h; exact ⟨by decide, by decide⟩
    · subst h; exact ⟨by decide, by decide⟩
    · subst h; exact ⟨by decide, by decide⟩
    · exact lineSafe_mem _ hg ch h
    · subst h; exact ⟨by decide, by decide⟩
  · exact recLines_safe c hc cs post p hpost hs l h

/-- written, read, written again: the same text up to the `i:` and `Z:` lines -/
theorem renderInstalled_reread_text (c : Codec) (hc : c.Lawful) (cs : List Case) (rows pre post : List Row)
    (ht : IdbTable rows cs pre post) (ip : IPkg) (hw : WFIPkg ip = true) (htree : TreeP ip.files)
    (hn : namesNodup ip.files = true) (t : Text) (hr : renderInstalled c rows ip = .ok t) :
    ∃ t', renderInstalled c rows (readBack ip) = .ok t' ∧ stripIZ t' = stripIZ t := by
  obtain ⟨sorted, fl, hsort, hfl, rfl⟩ := renderInstalled_ok c rows ip t hr
  have hidem := sortHeaders_idem ip.files htree hn sorted hsort
  have hs2 : sortHeaders (sorted.map fileProj) = some (sorted.map fileProj) := by
    rw [sortHeaders_map sorted fileProj fileProj_keepsKey, hidem]; rfl
  unfold WFIPkg at hw
  simp only [Bool.and_eq_true, Bool.not_eq_true', List.all_eq_true] at hw
  have hflsafe := filesLines_safe c hc sorted fl hfl
    (fun f hf => hw.2 f ((sortHeaders_followsDir ip.files sorted hsort).2 f hf))
  refine ⟨unlines (recLines c rows (idbProj ip.pkg) ++ fl.filter keepLine ++ [[]]), ?_, ?_⟩
  · simp only [renderInstalled, readBack, hsort, Option.getD_some, hs2, filesLines_proj c sorted fl hfl, Res.bind]
  · rw [stripIZ_unlines, stripIZ_unlines]
    · simp only [List.filter_append, List.filter_filter, Bool.and_self,
        pkgLines_reread c cs rows pre post ht ip.pkg]
    · intro l hl
      simp only [List.mem_append, List.mem_singleton] at hl
      rcases hl with (h | h) | h
      · exact pkgLines_safe c hc cs rows pre post ht ip.pkg hw.1.2 l h
      · exact hflsafe l h
      · subst h; rfl
    · intro l hl
      simp only [List.mem_append, List.mem_singleton] at hl
      rcases hl with (h | h) | h
      · exact pkgLines_proj_safe c hc cs rows pre post ht ip.pkg hw.1.2 l h
      · exact hflsafe l (List.mem_filter.mp h).1
      · subst h; rfl

end Apko.Formats
