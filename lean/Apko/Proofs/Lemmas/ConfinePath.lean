import Apko.Model.Confine
/-! Lemmas about `splitOnChar`, `joinWith`, `clean` and `parts` used by the C18 theorems. -/
namespace Apko.Confine
open Apko Apko.Path

theorem splitOnChar_ne_nil (s : Char) (t : Text) : splitOnChar s t ≠ [] := by
  induction t with
  | nil => simp [splitOnChar]
  | cons c cs ih =>
    simp only [splitOnChar]
    split
    · simp
    · split <;> simp

theorem splitOnChar_append_sep (s : Char) (a b : Text) :
    splitOnChar s (a ++ s :: b) = splitOnChar s a ++ splitOnChar s b := by
  induction a with
  | nil => simp [splitOnChar]
  | cons c a ih =>
    simp only [List.cons_append, splitOnChar]
    split
    · simp [ih]
    · rw [ih]
      cases h : splitOnChar s a with
      | nil => exact absurd h (splitOnChar_ne_nil s a)
      | cons x xs => simp

theorem mem_splitOnChar_no_sep (s : Char) (t : Text) : ∀ c ∈ splitOnChar s t, s ∉ c := by
  induction t with
  | nil => intro c hc; simp [splitOnChar] at hc; subst hc; simp
  | cons x xs ih =>
    intro c hc
    simp only [splitOnChar] at hc
    split at hc
    · rcases List.mem_cons.1 hc with h | h
      · subst h; simp
      · exact ih c h
    · next hx =>
      cases h : splitOnChar s xs with
      | nil => rw [h] at hc; simp at hc; subst hc; simp; exact fun e => hx e.symm
      | cons y ys =>
        rw [h] at hc
        rcases List.mem_cons.1 hc with h' | h'
        · subst h'
          have := ih y (by rw [h]; simp)
          simp; exact ⟨fun e => hx e.symm, this⟩
        · exact ih c (by rw [h]; simp [h'])

theorem splitOnChar_no_sep (s : Char) (a : Text) (h : s ∉ a) : splitOnChar s a = [a] := by
  induction a with
  | nil => simp [splitOnChar]
  | cons c a ih =>
    have hc : c ≠ s := fun e => h (by simp [e])
    have ha : s ∉ a := fun e => h (by simp [e])
    simp [splitOnChar, hc, ih ha]

theorem splitOnChar_joinWith (s : Char) : ∀ (l : List Text), l ≠ [] → (∀ c ∈ l, s ∉ c) →
    splitOnChar s (joinWith [s] l) = l
  | [], h, _ => absurd rfl h
  | [a], _, hl => by simpa [joinWith] using splitOnChar_no_sep s a (hl a (by simp))
  | a :: b :: rest, _, hl => by
    have ih := splitOnChar_joinWith s (b :: rest) (by simp) (fun c hc => hl c (by simp [hc]))
    have : joinWith [s] (a :: b :: rest) = a ++ s :: joinWith [s] (b :: rest) := by simp [joinWith]
    rw [this, splitOnChar_append_sep, ih, splitOnChar_no_sep s a (hl a (by simp))]
    simp

/-- a component that `Clean` keeps -/
def Normal (c : Name) : Prop := c ≠ [] ∧ c ≠ dot ∧ c ≠ dotdot

theorem cleanStep_rooted_inv (P : Name → Prop) (acc : List Name) (c : Name)
    (hacc : ∀ x ∈ acc, Normal x ∧ P x) (hc : P c) : ∀ x ∈ cleanStep true acc c, Normal x ∧ P x := by
  intro x hx
  unfold cleanStep at hx
  split at hx
  · exact hacc x hx
  · next h1 =>
    split at hx
    · cases acc with
      | nil => simp at hx
      | cons top rest =>
        simp only at hx
        split at hx
        · next ht => exact absurd ht (hacc top (by simp)).1.2.2
        · exact hacc x (by simp [hx])
    · next h2 =>
      rcases List.mem_cons.1 hx with h | h
      · subst h
        exact ⟨⟨fun e => h1 (Or.inl e), fun e => h1 (Or.inr e), h2⟩, hc⟩
      · exact hacc x h

theorem foldl_cleanStep_rooted_inv (P : Name → Prop) (cs : List Name) : ∀ (acc : List Name),
    (∀ x ∈ acc, Normal x ∧ P x) → (∀ c ∈ cs, P c) →
    ∀ x ∈ cs.foldl (cleanStep true) acc, Normal x ∧ P x := by
  induction cs with
  | nil => intro acc hacc _; simpa using hacc
  | cons c cs ih =>
    intro acc hacc hcs
    simp only [List.foldl_cons]
    exact ih _ (cleanStep_rooted_inv P acc c hacc (hcs c (by simp))) (fun d hd => hcs d (by simp [hd]))

theorem cleanParts_rooted_inv (p : Text) :
    ∀ x ∈ cleanParts true (splitOnChar '/' p), Normal x ∧ '/' ∉ x := by
  intro x hx
  unfold cleanParts at hx
  exact foldl_cleanStep_rooted_inv (fun c => '/' ∉ c) _ [] (by simp) (mem_splitOnChar_no_sep '/' p) x
    (List.mem_reverse.1 hx)

theorem foldl_cleanStep_normal (r : Bool) (l : List Name) : ∀ (acc : List Name), (∀ c ∈ l, Normal c) →
    l.foldl (cleanStep r) acc = l.reverse ++ acc := by
  induction l with
  | nil => intro acc _; simp
  | cons c l ih =>
    intro acc h
    have hc := h c (by simp)
    have : cleanStep r acc c = c :: acc := by simp [cleanStep, hc.1, hc.2.1, hc.2.2]
    simp only [List.foldl_cons, this]
    rw [ih (c :: acc) (fun d hd => h d (by simp [hd]))]
    simp

theorem isAbs_cons {p : Text} (h : isAbs p = true) : ∃ q, p = '/' :: q := by
  cases p with
  | nil => simp [isAbs] at h
  | cons c q => simp [isAbs] at h; exact ⟨q, by rw [h]⟩

theorem clean_abs {p : Text} (h : isAbs p = true) :
    clean p = '/' :: joinWith slash (cleanParts true (splitOnChar '/' p)) := by
  obtain ⟨q, rfl⟩ := isAbs_cons h
  simp [clean, isAbs]

theorem isAbs_clean {p : Text} (h : isAbs p = true) : isAbs (clean p) = true := by
  rw [clean_abs h]; simp [isAbs]

theorem parts_slash_cons (x : Text) : parts ('/' :: x) = parts x := by
  simp [parts, splitOnChar]

theorem parts_joinWith_normal (out : List Name) (h : ∀ x ∈ out, Normal x ∧ '/' ∉ x) :
    parts (joinWith slash out) = out := by
  cases hout : out with
  | nil => simp [joinWith, parts, splitOnChar]
  | cons a rest =>
    rw [← hout]
    have hne : out ≠ [] := by rw [hout]; simp
    unfold parts slash
    rw [splitOnChar_joinWith '/' out hne (fun c hc => (h c hc).2)]
    apply List.filter_eq_self.2
    intro c hc
    simpa using (h c hc).1.1

/-- the components of a cleaned absolute path are exactly what `Clean`'s loop leaves on its stack -/
theorem parts_clean_abs {p : Text} (h : isAbs p = true) :
    parts (clean p) = cleanParts true (splitOnChar '/' p) := by
  rw [clean_abs h, parts_slash_cons, parts_joinWith_normal _ (cleanParts_rooted_inv p)]

theorem clean_clean_abs {p : Text} (h : isAbs p = true) : clean (clean p) = clean p := by
  have h2 := isAbs_clean h
  have hn := cleanParts_rooted_inv p
  rw [clean_abs h2, clean_abs h]
  generalize cleanParts true (splitOnChar '/' p) = out at hn ⊢
  congr 2
  -- the loop over an already clean path pushes every component
  cases ho : out with
  | nil => simp [joinWith, splitOnChar, cleanParts, cleanStep]
  | cons a rest =>
    rw [← ho]
    have hne : out ≠ [] := by rw [ho]; simp
    have : splitOnChar '/' ('/' :: joinWith slash out) = [] :: out := by
      simp only [splitOnChar, if_true]
      unfold slash
      rw [splitOnChar_joinWith '/' out hne (fun c hc => (hn c hc).2)]
    rw [this]
    unfold cleanParts
    simp only [List.foldl_cons]
    have h0 : cleanStep true [] [] = [] := by simp [cleanStep]
    rw [h0, foldl_cleanStep_normal true out [] (fun c hc => (hn c hc).1)]
    simp

theorem parts_append_sep (a b : Text) : parts (a ++ '/' :: b) = parts a ++ parts b := by
  simp [parts, splitOnChar_append_sep]

theorem hasSuffix_slash {b : Text} (h : hasSuffix b slash = true) : ∃ b0, b = b0 ++ ['/'] := by
  unfold hasSuffix slash at h
  cases hr : b.reverse with
  | nil => rw [hr] at h; simp at h
  | cons c t =>
    rw [hr] at h
    simp at h
    refine ⟨t.reverse, ?_⟩
    have : b = (c :: t).reverse := by rw [← hr]; simp
    rw [this, h]; simp

theorem hasPrefix_append {s pre : Text} (h : hasPrefix s pre = true) : ∃ r, s = pre ++ r := by
  unfold hasPrefix at h
  obtain ⟨r, hr⟩ := List.isPrefixOf_iff_prefix.1 h
  exact ⟨r, hr.symm⟩

/-- the separator-aware test implies confinement at the level of path components, for every base -/
theorem isWithin_parts {base v : Text} (h : isWithin base v = true) : parts (clean base) <+: parts v := by
  unfold isWithin at h
  simp only at h
  split at h
  · next he => rw [he]; exact List.prefix_refl _
  · split at h
    · next hs =>
      obtain ⟨b0, hb0⟩ := hasSuffix_slash hs
      obtain ⟨r, hr⟩ := hasPrefix_append h
      rw [hr, hb0]
      have e1 : b0 ++ ['/'] ++ r = b0 ++ '/' :: r := by simp
      have e0 : parts ([] : Text) = [] := by simp [parts, splitOnChar]
      rw [e1, parts_append_sep, parts_append_sep, e0]
      simp
    · obtain ⟨r, hr⟩ := hasPrefix_append h
      rw [hr]
      have e1 : clean base ++ slash ++ r = clean base ++ '/' :: r := by simp [slash]
      rw [e1, parts_append_sep]
      exact List.prefix_append _ _

end Apko.Confine
