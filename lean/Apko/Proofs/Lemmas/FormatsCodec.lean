/-
C16: `Codec.Lawful` is satisfiable on all texts (backslash escaping of LF / CR), so the theorems that
quantify over lawful codecs are not vacuous.
-/
import Apko.Proofs.Lemmas.FormatsIndex
namespace Apko.Formats
open Apko

/-! ## a lawful codec exists -/

def escChar (c : Char) : Text :=
  if c = '\n' then ['\\', 'n'] else if c = '\r' then ['\\', 'r'] else if c = '\\' then ['\\', '\\'] else [c]

def escEnc (t : Text) : Text := t.flatMap escChar

def escDec : Text → Option Text
  | [] => some []
  | '\\' :: 'n' :: r => (escDec r).map ('\n' :: ·)
  | '\\' :: 'r' :: r => (escDec r).map ('\r' :: ·)
  | '\\' :: '\\' :: r => (escDec r).map ('\\' :: ·)
  | '\\' :: _ => none
  | c :: r => (escDec r).map (c :: ·)

/-- backslash escaping of LF / CR: total, injective, line-safe — a stand-in that shows `Codec.Lawful`
is satisfiable on *all* texts (base64 is lawful on byte strings) -/
def escCodec : Codec := ⟨escEnc, escDec⟩

theorem escDec_other (c : Char) (r : Text) (h : c ≠ '\\') : escDec (c :: r) = (escDec r).map (c :: ·) :=
  escDec.eq_6 c r (fun _ e _ => h e) (fun _ e _ => h e) (fun _ e _ => h e) h

theorem escDec_esc (c : Char) (r : Text) : escDec (escChar c ++ r) = (escDec r).map (c :: ·) := by
  unfold escChar
  by_cases h1 : c = '\n'
  · subst h1; simp [escDec]
  · by_cases h2 : c = '\r'
    · subst h2; simp [escDec]
    · by_cases h3 : c = '\\'
      · subst h3; simp [escDec]
      · simp only [h1, h2, h3, if_false, List.singleton_append]
        exact escDec_other c r h3

theorem escChar_safe (c x : Char) (h : x ∈ escChar c) : x ≠ '\n' ∧ x ≠ '\r' := by
  unfold escChar at h
  by_cases h1 : c = '\n'
  · simp [h1] at h; rcases h with h | h <;> subst h <;> exact ⟨by decide, by decide⟩
  · by_cases h2 : c = '\r'
    · simp [h2] at h; rcases h with h | h <;> subst h <;> exact ⟨by decide, by decide⟩
    · by_cases h3 : c = '\\'
      · simp [h3] at h; subst h; exact ⟨by decide, by decide⟩
      · simp [h1, h2, h3] at h; subst h; exact ⟨h1, h2⟩

theorem escCodec_lawful : escCodec.Lawful := by
  constructor
  · intro b
    show escDec (escEnc b) = some b
    induction b with
    | nil => rfl
    | cons c b ih =>
      simp only [escEnc, List.flatMap_cons] at ih ⊢
      rw [escDec_esc, ih]; rfl
  · intro b
    show lineSafe (escEnc b) = true
    apply lineSafe_of_all
    intro c hc
    simp only [escEnc, List.mem_flatMap] at hc
    obtain ⟨x, _, hx⟩ := hc
    exact escChar_safe x c hx

end Apko.Formats
