/-
C02 lemmas, part 4: what `getDeps` / `depLoop` never undo (by induction on fuel, for every input):
`dq` only grows (`dq_monotone`), `selected` only grows, ghost flags only grow (`flags_monotone`), the
emitted dependency list only grows and consists of packages of the universe (`resolve_subset` for the
dependency walk), and every new entry of `selected` records the package being walked or an emitted
dependency under a key it carries.

Core only.
-/
import Apko.Proofs.Lemmas.ResolverLoop

namespace Apko.C02
open Apko Apko.Resolver

/-- the chosen candidate of a pass: it answers a constraint of the list, is a not-disqualified member of
`nameMap` of that constraint's name -/
theorem pass_lowest {c : Cfg} {pkg : Pkg} {allowPin : Text} {ds : DepSt} {constraints : List Text}
    {confs0 : List Text} {opts : List (Text × List Pkg)} {confs : List Text} {fl : List String}
    {lowest : Text} {pkgs : List Pkg} {best : Pkg}
    (hpass : constraints.foldl (passStep c pkg allowPin ds) (some ([], confs0, [])) = some (opts, confs, fl))
    (hlow : lowestOption opts = some (lowest, pkgs)) (hbest : best ∈ pkgs) :
    lowest ∈ constraints ∧ isConflict lowest = false ∧
    best ∈ c.nm (parseConstraint lowest).name ∧ ds.st.dq.contains best.id = false := by
  obtain ⟨_, h2, _, _⟩ := passFold_spec c pkg allowPin ds constraints [] confs0 [] opts confs fl hpass
  rcases h2 _ (lowestOption_mem hlow) with h | ⟨hm, ho⟩
  · simp at h
  · obtain ⟨_, hnc, hp⟩ := depOption_options ho
    simp only at hp hm
    rw [hp] at hbest
    have := mem_filterPackages hbest
    exact ⟨hm, hnc, this.2, this.1⟩

/-- relation between the state before (`deps0`, `st0`) and the result `out` of walking `pkg` -/
structure Mono (c : Cfg) (pkg : Pkg) (deps0 : List Pkg) (st0 : St) (out : DepOut) : Prop where
  /-- T `dq_monotone` -/
  dq : st0.dq ⊆ out.ds.st.dq
  sel : ∀ e ∈ st0.selected, e ∈ out.ds.st.selected
  /-- T `flags_monotone` -/
  flags : out.ds.st.flags = [] → st0.flags = []
  flags_sub : ∀ f ∈ st0.flags, f ∈ out.ds.st.flags
  deps : ∀ p ∈ deps0, p ∈ out.deps
  deps_u : ∀ p ∈ out.deps, p ∈ deps0 ∨ p ∈ c.u.all
  prov : ∀ e ∈ out.ds.st.selected, e ∈ st0.selected ∨ ((e.2 = pkg ∨ e.2 ∈ out.deps) ∧ KeyOK e)

def RecMono (c : Cfg) (rec : Pkg → List (Text × Nat) → DepSt → Res DepOut) : Prop :=
  ∀ p ps d o, rec p ps d = .ok o → Mono c p [] d.st o

theorem depLoop_mono {c : Cfg} {rec : Pkg → List (Text × Nat) → DepSt → Res DepOut} (hrec : RecMono c rec)
    (pkg : Pkg) (allowPin : Text) (parents : List (Text × Nat)) (fuel : Nat) :
    ∀ (constraints : List Text) (acc out : DepOut),
      depLoop c rec pkg allowPin parents fuel constraints acc = .ok out →
      Mono c pkg acc.deps acc.ds.st out := by
  induction fuel with
  | zero => intro _ _ _ h; simp [depLoop] at h
  | succ n ih =>
    intro constraints acc out h
    rcases depLoop_inv h with ⟨_, rfl⟩ | ⟨opts, confs, fl, hpass, hcase⟩
    · exact ⟨fun _ h => h, fun _ h => h, fun h => h, fun _ h => h, fun _ h => h, fun _ h => Or.inl h,
        fun _ h => Or.inl h⟩
    · rcases hcase with ⟨_, rfl⟩ | ⟨lowest, pkgs, best, dq1, sel1, sub, ex, og, hlow, hbest, hdq, hsel,
        hsub, hloop⟩
      · refine ⟨?_, ?_, ?_, ?_, fun _ h => h, fun _ h => Or.inl h, ?_⟩
        · simp only [foldl_flag_dq]; exact fun _ h => h
        · simp only [foldl_flag_selected]; exact fun _ h => h
        · exact fun h => (foldl_flag_nil h).2
        · exact foldl_flag_sub fl _
        · simp only [foldl_flag_selected]; exact fun _ h => Or.inl h
      · have hs := hrec _ _ _ _ hsub
        have hl := ih _ _ _ hloop
        have hpk := pick_spec hsel
        have hbu : best ∈ c.u.all := (nameMap_mem (pass_lowest hpass hlow hbest).2.2.1).1
        simp only at hs hl
        refine ⟨?_, ?_, ?_, ?_, ?_, ?_, ?_⟩
        · exact fun a ha => hl.dq (hs.dq (disqualifyConflicts_infl c best _ _ hdq ha))
        · exact fun e he => hl.sel e (hs.sel e (hpk.1 e he))
        · exact fun h => (foldl_flag_nil (hs.flags (hl.flags h))).2
        · exact fun f hf => hl.flags_sub f (hs.flags_sub f (foldl_flag_sub fl _ f hf))
        · exact fun p hp => hl.deps p (by simp [hp])
        · intro p hp
          rcases hl.deps_u p hp with h1 | h1
          · simp only [List.append_assoc, List.mem_append, List.mem_singleton] at h1
            rcases h1 with h1 | h1 | h1
            · exact Or.inl h1
            · rcases hs.deps_u p h1 with h2 | h2
              · simp at h2
              · exact Or.inr h2
            · subst h1; exact Or.inr hbu
          · exact Or.inr h1
        · intro e he
          rcases hl.prov e he with h1 | h1
          · rcases hs.prov e h1 with h2 | ⟨h2, hk⟩
            · rcases hpk.2 e h2 with h3 | ⟨h3, hk⟩
              · exact Or.inl h3
              · exact Or.inr ⟨Or.inl h3, hk⟩
            · refine Or.inr ⟨Or.inr ?_, hk⟩
              rcases h2 with h2 | h2
              · exact hl.deps _ (by simp [h2])
              · exact hl.deps _ (by simp [h2])
          · exact Or.inr h1

/-- T `getDeps_mono`: the dependency walk never shrinks `dq`, `selected` or the ghost flags; everything
it emits is a package of the universe; new `selected` entries are the walked package or emitted
dependencies under keys they carry. -/
theorem getDeps_mono (c : Cfg) (allowPin : Text) (fuel : Nat) :
    RecMono c (fun p ps d => getDeps c fuel p allowPin ps d) := by
  induction fuel with
  | zero => intro _ _ _ _ h; simp [getDeps] at h
  | succ n ih =>
    intro pkg parents ds out h
    rcases getDeps_inv h with ⟨_, rfl⟩ | ⟨_, dq1, hdq, hloop⟩
    · refine ⟨?_, ?_, ?_, ?_, fun _ h => h, fun _ h => Or.inl h, ?_⟩
      · split
        · simp only [flag_dq]; exact fun _ h => h
        · exact fun _ h => h
      · split
        · simp only [flag_selected]; exact fun _ h => h
        · exact fun _ h => h
      · split
        · exact fun h => absurd h (flag_flags_ne _ _)
        · exact fun h => h
      · split
        · exact flag_sub _ _
        · exact fun _ h => h
      · split
        · simp only [flag_selected]; exact fun _ h => Or.inl h
        · exact fun _ h => Or.inl h
    · have hl := depLoop_mono ih pkg allowPin parents _ _ _ _ hloop
      simp only at hl
      exact ⟨fun a ha => hl.dq (constrain_infl c _ _ _ hdq ha), hl.sel, hl.flags, hl.flags_sub, hl.deps,
        hl.deps_u, hl.prov⟩

end Apko.C02
