/-
C12, the glue between the command line and the image writer.

`apko build` hands `BuildImageFromLayers` the configuration of the build context AFTER the build has resolved it
(`Validate`: service-bundle command; `mutateAccounts`: run-as name → uid of the image's passwd).  `Spec.resolveCfg`
(Model/Oci.lean, executed by the driver for `oci.config-e2e`) is that resolution; the theorems say what the emitted
config must then carry, for every passwd file and every `shlex`.  The `tie_glue_*` facts are regenerated from
internal/cli/build.go, pkg/build/types/image_configuration.go, pkg/build/build.go on every run.
-/
import Apko.Model.Oci
import Apko.Proofs.C12

namespace Apko.C12.Glue
open Apko Apko.Oci

/-! ## ties -/

/-- the per-architecture image is built from the build context's own (resolved) configuration and base image -/
theorem tie_glue_cli_image_config : Generated.cliImageFromLayersArgs =
    ["ctx", "bc.BaseImage()", "layers", "bc.ImageConfiguration()", "bde", "bc.Arch()"] := rfl

theorem tie_glue_service_bundle_command : Generated.serviceBundleCommand = "/bin/s6-svscan /sv" := rfl

/-- what the per-architecture copy of `LockImageConfiguration` (MergeInto into an empty configuration) carries:
every top-level field the image config is made from, vcs-url included -/
theorem tie_glue_merge_into_config : Generated.mergeIntoConfig.map (·.1) =
    ["target.Entrypoint", "target.Cmd", "target.StopSignal", "target.WorkDir", "target.VCSUrl", "target.Layering",
     "target.Archs", "target.Environment", "target.Environment[k]", "target.Paths", "target.Annotations",
     "target.Annotations[k]", "target.Volumes"] := rfl

/-- … and of the contents: keyring, both repository lists, packages and the base image -/
theorem tie_glue_merge_into_contents : Generated.mergeIntoContents =
    [("target.Keyring", "slices.Concat(i.Keyring, target.Keyring)"),
     ("target.BuildRepositories", "slices.Concat(i.BuildRepositories, target.BuildRepositories)"),
     ("target.RuntimeRepositories", "slices.Concat(i.RuntimeRepositories, target.RuntimeRepositories)"),
     ("target.Packages", "slices.Concat(i.Packages, target.Packages)"),
     ("target.BaseImage", "i.BaseImage")] := rfl

/-- the layer file is created with truncation, under a name that is injective on architectures (apk spelling) -/
theorem tie_glue_layer_file : Generated.layerFileOpens =
    ["os.Create(bc.o.TarballPath)", "os.Create(filepath.Join(bc.o.TempDir(), bc.o.TarballFileName()))"] ∧
    Generated.tarballFileNameArgs = ["\"apko-%s.tar.gz\"", "o.Arch.ToAPK()"] := ⟨rfl, rfl⟩

/-! ## the resolution -/

theorem serviceBundleCommand_ne_nil : serviceBundleCommand ≠ [] := by
  unfold serviceBundleCommand; rw [tie_glue_service_bundle_command]; decide

/-- the first passwd entry with the name decides -/
theorem resolveRunAs_first_match (pre post : List (Text × Text)) (name uid : Text)
    (h : ∀ e ∈ pre, e.1 ≠ name) : Spec.resolveRunAs (pre ++ (name, uid) :: post) name = uid := by
  unfold Spec.resolveRunAs
  have : (pre ++ (name, uid) :: post).find? (fun e => decide (e.1 = name)) = some (name, uid) := by
    induction pre with
    | nil => simp
    | cons a pre ih =>
      have ha : a.1 ≠ name := h a (by simp)
      simp only [List.cons_append, List.find?_cons]
      rw [show decide (a.1 = name) = false from by simpa using ha]
      exact ih (fun e he => h e (by simp [he]))
  rw [this]

/-- a name the image does not know (or a number, or uid:gid) stays as written -/
theorem resolveRunAs_unknown (passwd : List (Text × Text)) (r : Text) (h : ∀ e ∈ passwd, e.1 ≠ r) :
    Spec.resolveRunAs passwd r = r := by
  unfold Spec.resolveRunAs
  have : passwd.find? (fun e => decide (e.1 = r)) = none := by
    rw [List.find?_eq_none]; intro e he; simpa using h e he
  rw [this]

/-- resolution touches the entrypoint command and run-as only -/
theorem resolveCfg_other_fields (t : Text) (pw : List (Text × Text)) (ic : ImageCfg) :
    let r := Spec.resolveCfg t pw ic
    r.epShell = ic.epShell ∧ r.cmd = ic.cmd ∧ r.workdir = ic.workdir ∧ r.stopSignal = ic.stopSignal ∧
    r.vcsUrl = ic.vcsUrl ∧ r.volumes = ic.volumes ∧ r.env = ic.env ∧ r.annotations = ic.annotations := by
  simp [Spec.resolveCfg]

/-- nothing to resolve: another entrypoint type and a run-as the passwd file does not name -/
theorem resolveCfg_id (t : Text) (pw : List (Text × Text)) (ic : ImageCfg)
    (ht : t ≠ serviceBundleType) (h : ∀ e ∈ pw, e.1 ≠ ic.runAs) : Spec.resolveCfg t pw ic = ic := by
  unfold Spec.resolveCfg
  rw [if_neg ht, resolveRunAs_unknown pw ic.runAs h]
  cases ic with
  | mk a b c d e f g v en an =>
    by_cases hr : g = []
    · simp [hr]
    · simp [hr]

/-- T resolved_user: whenever the build succeeds on the resolved configuration, `User` is the uid the image's own
passwd gives the declared name (first match), the declared string when no entry has that name, empty when undeclared -/
theorem resolved_user (shlex : Text → Option (List Text)) (t : Text) (pw : List (Text × Text)) (ic : ImageCfg)
    (created arch : Text) (o : OciConfig)
    (h : Impl.buildConfig shlex (Spec.resolveCfg t pw ic) created arch = some o) :
    o.user = if ic.runAs = [] then [] else Spec.resolveRunAs pw ic.runAs := by
  unfold Impl.buildConfig at h
  split at h
  · simp only [Option.some.injEq] at h; subst h; rfl
  · cases h

/-- T resolved_service_bundle: a service-bundle configuration (no shell fragment) gets the shlex tokens of the s6
command as its entrypoint, whatever command the configuration file spelled -/
theorem resolved_service_bundle (shlex : Text → Option (List Text)) (pw : List (Text × Text)) (ic : ImageCfg)
    (created arch : Text) (o : OciConfig) (hs : ic.epShell = [])
    (h : Impl.buildConfig shlex (Spec.resolveCfg serviceBundleType pw ic) created arch = some o) :
    shlex serviceBundleCommand = some o.entrypoint := by
  unfold Impl.buildConfig at h
  split at h
  · next ep cmd hep hcmd =>
    simp only [Option.some.injEq] at h; subst h
    unfold Impl.entrypoint at hep
    have h1 : (Spec.resolveCfg serviceBundleType pw ic).epShell = [] := by simp [Spec.resolveCfg, hs]
    have h2 : (Spec.resolveCfg serviceBundleType pw ic).epCmd = serviceBundleCommand := by simp [Spec.resolveCfg]
    rw [if_neg (by simp [h1]), h2, if_pos serviceBundleCommand_ne_nil] at hep
    exact hep
  · cases h

/-- the end-to-end oracle the driver executes is the specification on the resolved configuration -/
theorem e2eVerdict_pass_iff (shlex : Text → Option (List Text)) (t : Text) (pw : List (Text × Text)) (ic : ImageCfg)
    (created arch : Text) (o : OciConfig) :
    Spec.e2eVerdict shlex t pw ic created arch o = "pass" ↔
      Spec.ConfigOk shlex (Spec.resolveCfg t pw ic) created arch o := by
  unfold Spec.e2eVerdict; exact configVerdict_pass_iff shlex _ created arch o

/-- and the model satisfies it: what Impl builds from the resolved configuration passes (distinct annotation keys) -/
theorem e2e_config_mapping (shlex : Text → Option (List Text)) (t : Text) (pw : List (Text × Text)) (ic : ImageCfg)
    (created arch : Text) (o : OciConfig) (hnd : (keysOf ic.annotations).Nodup)
    (h : Impl.buildConfig shlex (Spec.resolveCfg t pw ic) created arch = some o) :
    Spec.e2eVerdict shlex t pw ic created arch o = "pass" := by
  rw [e2eVerdict_pass_iff]
  exact config_mapping shlex _ created arch o (by simpa [Spec.resolveCfg] using hnd) h

/-- non-vacuous: `run-as: nobody` against a package-shipped passwd, service-bundle entrypoint -/
example : Spec.e2eVerdict (fun s => if s = serviceBundleCommand then some ["/bin/s6-svscan".toList, "/sv".toList] else none)
    serviceBundleType [("root".toList, "0".toList), ("nobody".toList, "65534".toList), ("nobody".toList, "7".toList)]
    { runAs := "nobody".toList }
    "1970-01-01T00:00:00Z".toList "amd64".toList
    { entrypoint := ["/bin/s6-svscan".toList, "/sv".toList], cmd := [], workingDir := [], stopSignal := [],
      user := "65534".toList, volumes := [],
      env := ["PATH=/usr/local/sbin:/usr/local/bin:/usr/bin:/usr/sbin:/sbin:/bin".toList,
              "SSL_CERT_FILE=/etc/ssl/certs/ca-certificates.crt".toList],
      labels := [(keyCreated, "1970-01-01T00:00:00Z".toList)],
      author := "github.com/chainguard-dev/apko".toList, os := "linux".toList,
      created := "1970-01-01T00:00:00Z".toList, architecture := "amd64".toList, variant := [] } = "pass" := by
  decide

end Apko.C12.Glue
