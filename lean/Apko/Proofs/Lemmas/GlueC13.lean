/-
C13, the glue around mutateAccounts: the per-architecture copy of a configuration (ImageAccounts.MergeInto) hands the
users on as they are (no re-derivation of optional fields such as an explicit gid 0), the build resolves run-as into
the build context's own configuration (what /etc/apko.json and the image config are written from), and the account
files are re-serialised as a whole (a shipped last line without newline cannot glue with the first added entry).
Facts regenerated from pkg/build/types/image_configuration.go, pkg/build/build_implementation.go, pkg/build/accounts.go.
-/
import Apko.Generated.GlueLayer

namespace Apko.C13.Glue
open Apko

theorem tie_glue_merge_into_accounts : Generated.mergeIntoAccounts =
    [("target.RunAs", "a.RunAs"), ("target.Users", "slices.Concat(a.Users, target.Users)"),
     ("target.Groups", "slices.Concat(a.Groups, target.Groups)")] := rfl

/-- the LISTS of a configuration (`paths`, `volumes`; users and groups above; keyring, repositories and packages in
`tie_glue_merge_into_contents` of C12) are merged by plain concatenation, included first — each is assigned exactly once:
`Model.Accounts.mergeLists` -/
theorem tie_glue_merge_into_lists :
    Generated.mergeIntoConfig.filter (fun kv => kv.1 == "target.Paths" || kv.1 == "target.Volumes") =
      [("target.Paths", "slices.Concat(ic.Paths, target.Paths)"),
       ("target.Volumes", "slices.Concat(ic.Volumes, target.Volumes)")] := by decide

/-- every assignment of the three MergeInto functions that calls anything is a `slices.Concat(<included>.X, target.X)` of
one field (or the clone of a map): no list goes through a function that could drop, reorder or merge elements -/
theorem tie_glue_merge_into_concat_only :
    ((Generated.mergeIntoConfig ++ Generated.mergeIntoAccounts ++ Generated.mergeIntoContents).filter
        (fun kv => kv.2.toList.contains '(')).map (·.2) =
      ["maps.Clone(ic.Environment)", "slices.Concat(ic.Paths, target.Paths)", "maps.Clone(ic.Annotations)",
       "slices.Concat(ic.Volumes, target.Volumes)", "slices.Concat(a.Users, target.Users)",
       "slices.Concat(a.Groups, target.Groups)", "slices.Concat(i.Keyring, target.Keyring)",
       "slices.Concat(i.BuildRepositories, target.BuildRepositories)",
       "slices.Concat(i.RuntimeRepositories, target.RuntimeRepositories)",
       "slices.Concat(i.Packages, target.Packages)"] := by decide +kernel

/-- the two places a configuration passes through MergeInto on its way to the build: the include (included into
including) and the per-architecture copy of `LockImageConfiguration` (the input into an EMPTY configuration; afterwards
only the package list and the architecture are written): `Model.Accounts.buildPaths` -/
theorem tie_glue_merge_into_callers :
    Generated.includeMergeCalls = ["included.MergeInto(ic)"] ∧
    Generated.lockCopyStatements =
      ["copied := types.ImageConfiguration{}", "input.MergeInto(&copied)", "copied.Contents.Packages = pl",
       "copied.Archs = []types.Architecture{types.ParseArchitecture(arch)}"] := ⟨rfl, rfl⟩

theorem tie_glue_mutate_accounts_on_context_config : Generated.buildImageMutateAccountsArgs = ["bc.fs", "&bc.ic"] := rfl

theorem tie_glue_account_files_rewritten : Generated.mutateAccountsWrites = ["gf.WriteFile(fsys, path)", "uf.WriteFile(path)"] := rfl

end Apko.C13.Glue
