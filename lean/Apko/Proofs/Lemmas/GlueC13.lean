/-
C13, the glue around mutateAccounts: the per-architecture copy of a configuration (ImageAccounts.MergeInto) hands the
users on as they are (no re-derivation of optional fields such as an explicit gid 0), the build resolves run-as into
the build context's own configuration (what /etc/apko.json and the image config are written from), and the account
files are re-serialised as a whole (a shipped last line without newline cannot glue with the first added entry).
Facts regenerated from pkg/build/types/image_configuration.go, pkg/build/build_implementation.go, pkg/build/accounts.go.
-/
import Apko.Generated.GlueLayer

namespace Apko.C13.Glue
open Apko

theorem tie_glue_merge_into_accounts : Generated.mergeIntoAccounts =
    [("target.RunAs", "a.RunAs"), ("target.Users", "slices.Concat(a.Users, target.Users)"),
     ("target.Groups", "slices.Concat(a.Groups, target.Groups)")] := rfl

theorem tie_glue_mutate_accounts_on_context_config : Generated.buildImageMutateAccountsArgs = ["bc.fs", "&bc.ic"] := rfl

theorem tie_glue_account_files_rewritten : Generated.mutateAccountsWrites = ["gf.WriteFile(fsys, path)", "uf.WriteFile(path)"] := rfl

end Apko.C13.Glue
