/-
Helper lemmas for the end-to-end part of C20 (Apko/Proofs/C20Fetch.lean): the consumer loops over the
retry reader and over a bare body, built on the invariant of `Proofs/Lemmas/Retry.lean`.
-/
import Apko.Model.Fetch
import Apko.Proofs.Lemmas.Retry

namespace Apko.Fetch
open Apko Apko.Retry

/-! ### a read that returns nil made progress -/

theorem End.res_ne_ok (e : End) : e.res ≠ .ok := by cases e <;> simp [End.res]

theorem Body.read_ok_nonempty (b : Body) (m : Nat) (h : (b.read (m + 1)).2.2 = .ok) :
    (b.read (m + 1)).2.1 ≠ [] := by
  unfold Body.read at h ⊢
  split
  · next hc => simp [hc] at h
  · next hc =>
    simp only [hc] at h
    split
    · next he => simp [he] at h; exact absurd h (End.res_ne_ok _)
    · next he =>
      simp only
      intro hnil
      have hcap : 1 ≤ b.cap (m + 1) := by
        unfold Body.cap; split <;> omega
      have hne : b.rest ≠ [] := by simpa using he
      cases hr : b.rest with
      | nil => exact hne hr
      | cons a t =>
        rw [hr] at hnil
        have : (a :: t).take (b.cap (m + 1)) ≠ [] := by
          cases hb : b.cap (m + 1) with
          | zero => omega
          | succ n => simp
        exact this hnil

theorem joinErr_ne_ok (a b : Res) : joinErr a b ≠ .ok := by
  unfold joinErr; split <;> simp

theorem readLoop_ok_nonempty (cfg : Cfg) (data : Text) (k : Kind) (m : Nat) :
    ∀ (sched : List Bool) (r : Reader) (last : Text × Res), (last.2 = .ok → sched ≠ []) →
      (Impl.readLoop cfg data k (m + 1) sched r last).2.2 = .ok →
      (Impl.readLoop cfg data k (m + 1) sched r last).2.1 ≠ [] := by
  intro sched
  induction sched with
  | nil =>
    intro r last hl h
    simp only [Impl.readLoop] at h
    exact absurd rfl (hl h)
  | cons retry sched ih =>
    intro r last _ h
    unfold Impl.readLoop at h ⊢
    have hb := Body.read_ok_nonempty r.body m
    generalize r.body.read (m + 1) = x at h hb ⊢
    obtain ⟨b', out, res⟩ := x
    simp only at h hb ⊢
    split
    · next hne =>
      rw [if_pos hne] at h
      exact hb h
    · next hf =>
      rw [if_neg hf] at h
      split
      · next hr => rw [if_pos hr] at h; simp at h
      · next hr =>
        rw [if_neg hr] at h
        split
        · next r2 e heq =>
          rw [heq] at h
          simp only at h
          exact absurd h (joinErr_ne_ok _ _)
        · next r2 o hne heq =>
          have h2 : (Impl.readLoop cfg data k (m + 1) sched r2 (out, Res.fault)).2.2 = .ok := by
            cases o with
            | error e => exact absurd rfl (hne e)
            | installed code => rw [heq] at h; exact h
            | passthrough code => rw [heq] at h; exact h
          exact ih r2 (out, Res.fault) (fun hc => by simp at hc) h2

theorem read_ok_nonempty {cfg : Cfg} (hs : cfg.sched ≠ []) (data : Text) (k : Kind) (r : Reader) (m : Nat)
    (h : (Impl.read cfg data k r (m + 1)).2.2 = .ok) : (Impl.read cfg data k r (m + 1)).2.1 ≠ [] := by
  unfold Impl.read at h ⊢
  have := readLoop_ok_nonempty cfg data k m cfg.sched r ([], Res.ok) (fun _ => hs)
  generalize Impl.readLoop cfg data k (m + 1) cfg.sched r ([], Res.ok) = x at h this ⊢
  obtain ⟨r', out, res⟩ := x
  exact this h

/-! ### one `Read` of the retry reader, with everything the consumers need -/

/-- the checker's state after the log of `r`, with the waiver spelled out -/
def At (data : Text) (k : Kind) (script0 : List Conn) (r : Reader) (w : Bool) : Prop :=
  ∃ lb, Spec.runFrom data k (Spec.init script0) r.log = some ⟨r.progress, lb, r.script, w⟩

theorem At.waive {data : Text} {k : Kind} {script0 : List Conn} {r : Reader} {w : Bool}
    (h : At data k script0 r w) : w = Spec.waiveAfter data k script0 false r.log := by
  obtain ⟨lb, h⟩ := h
  have := Spec.runFrom_waive _ _ _ h
  simpa [Spec.init] using this

theorem read_spec {cfg : Cfg} (hc : cfg.Good) {data : Text} {k : Kind} {script0 : List Conn} (m : Nat)
    {r : Reader} (h : Inv data k script0 r) :
    Inv data k script0 (Impl.read cfg data k r m).1 ∧
    (Impl.read cfg data k r m).1.progress = r.progress + (Impl.read cfg data k r m).2.1.length ∧
    (Impl.read cfg data k r m).2.1 <+: data.drop r.progress ∧
    ∃ w, At data k script0 (Impl.read cfg data k r m).1 w ∧
      (w = false → (Impl.read cfg data k r m).2.2 = .eof →
        (Impl.read cfg data k r m).1.progress = data.length) := by
  have hinv := read_inv hc m h
  unfold Impl.read at hinv ⊢
  have hsp := readLoop_spec hc.discard hc.pass (data := data) (k := k) (script0 := script0) m cfg.sched hc.sched
    r ([], Res.ok) h
  generalize Impl.readLoop cfg data k m cfg.sched r ([], Res.ok) = x at hsp hinv ⊢
  obtain ⟨r', out, res⟩ := x
  obtain ⟨p1, p2, lb, w, p6, p3, p4, p7⟩ := hsp r' out res rfl
  simp only at hinv ⊢
  have c1 : out.isPrefixOf (data.drop r.progress) = true := List.isPrefixOf_iff_prefix.mpr p2
  have c2 : (w || res != .eof || r.progress + out.length == data.length) = true := by
    cases w with
    | true => rfl
    | false =>
      by_cases he : res = .eof
      · simp [p4 rfl he]
      · simp [he]
  have c3 : (!(lb == some Res.fault || lb == some Res.weof) || res.isErr) = true := by
    rcases p7 with h7 | h7
    · simp [h7]
    · subst h7; cases res <;> simp [Res.isErr]
  refine ⟨hinv, by rw [p1], p2, w, ⟨none, ?_⟩, ?_⟩
  · show Spec.runFrom data k (Spec.init script0) (r'.log ++ [Event.result out res]) =
      some ⟨r'.progress + out.length, none, r'.script, w⟩
    rw [Spec.runFrom_snoc _ p6, p1]
    simp only [Spec.stepEvent]
    rw [if_pos (by simp only [c1, c2, c3, Bool.and_self])]
  · intro hw he
    show r'.progress + out.length = data.length
    rw [p1]; exact p4 hw he

theorem close_at {data : Text} {k : Kind} {script0 : List Conn} {r : Reader} {w : Bool}
    (h : At data k script0 r w) : At data k script0 (Impl.close r) w := by
  obtain ⟨lb, h⟩ := h
  refine ⟨lb, ?_⟩
  show Spec.runFrom data k (Spec.init script0) (r.log ++ [Event.close]) = _
  rw [Spec.runFrom_snoc _ h]; rfl

/-! ### the consumer loop over the retry reader -/

theorem take_step {data out : Text} {p : Nat} (h : out <+: data.drop p) :
    data.take p ++ out = data.take (p + out.length) := by
  rw [List.take_add, ← List.prefix_iff_eq_take.mp h]

/-- everything about `drain` at once, by induction on the fuel: the invariant is kept; the bytes gathered
are `data.take progress`; a nil result under a connection that is not waived has the whole file; the fuel
`data.length - progress + 1` is never used up -/
theorem drain_spec {cfg : Cfg} (hc : cfg.Good) {data : Text} {k : Kind} {script0 : List Conn}
    (sz : Reader → Nat) : ∀ (fuel : Nat) (r : Reader) (acc : Text) (w0 : Bool),
      Inv data k script0 r → At data k script0 r w0 → acc = data.take r.progress →
      Inv data k script0 (drain cfg data k sz fuel r acc).1 ∧
      (drain cfg data k sz fuel r acc).2.bytes = data.take (drain cfg data k sz fuel r acc).1.progress ∧
      (∃ w, At data k script0 (drain cfg data k sz fuel r acc).1 w ∧
        ∀ bs, (drain cfg data k sz fuel r acc).2 = .ok bs → w = false → bs = data) ∧
      (data.length - r.progress < fuel → ∀ bs, (drain cfg data k sz fuel r acc).2 ≠ .fuel bs) := by
  intro fuel
  induction fuel with
  | zero =>
    intro r acc w0 hinv hat hacc
    simp only [drain]
    exact ⟨hinv, hacc, ⟨w0, hat, fun bs h => nomatch h⟩, fun h => by omega⟩
  | succ fuel ih =>
    intro r acc w0 hinv hat hacc
    have hsched : cfg.sched ≠ [] := by
      intro h; have := hc.sched; rw [h] at this; simp at this
    obtain ⟨q1, q2, q3, w, q4, q5⟩ := read_spec hc (sz r + 1) hinv
    have hne := read_ok_nonempty hsched data k r (sz r)
    unfold drain
    generalize Impl.read cfg data k r (sz r + 1) = x at q1 q2 q3 q4 q5 hne ⊢
    obtain ⟨r', out, res⟩ := x
    simp only at q1 q2 q3 q4 q5 hne ⊢
    have hacc' : acc ++ out = data.take r'.progress := by
      rw [hacc, q2]; exact take_step q3
    cases res with
    | ok =>
      simp only
      obtain ⟨i1, i2, i3, i4⟩ := ih r' (acc ++ out) w q1 q4 hacc'
      refine ⟨i1, i2, i3, fun hf => i4 ?_⟩
      have := hne rfl
      have hlen : 0 < out.length := List.length_pos_iff.mpr this
      have := q1.le
      omega
    | eof =>
      simp only
      refine ⟨q1, hacc', ⟨w, q4, ?_⟩, fun _ bs h => nomatch h⟩
      intro bs hbs hw
      cases hbs
      rw [hacc', q5 hw rfl, List.take_length]
    | weof =>
      simp only
      exact ⟨q1, hacc', ⟨w, q4, fun bs h => nomatch h⟩, fun _ bs h => nomatch h⟩
    | fault =>
      simp only
      exact ⟨q1, hacc', ⟨w, q4, fun bs h => nomatch h⟩, fun _ bs h => nomatch h⟩

/-! ### `RoundTrip` -/

theorem roundTrip_inv {cfg : Cfg} (hc : cfg.Good) (data : Text) (k : Kind) (script : List Conn) :
    Inv data k script (Impl.roundTrip cfg data k script).1 ∧
    (Impl.roundTrip cfg data k script).1.progress = 0 ∧
    ∃ w, At data k script (Impl.roundTrip cfg data k script).1 w := by
  have hpre : Pre data k script (Impl.start script) :=
    ⟨Nat.zero_le _, ⟨none, false, rfl⟩⟩
  unfold Impl.roundTrip
  generalize hx : Impl.reset cfg data k (Impl.start script) = x
  obtain ⟨r, o⟩ := x
  obtain ⟨q2, lb, w, hlb, q3, q4⟩ := reset_spec hc.discard hc.pass hpre hx
  have hq2 : r.progress = 0 := q2
  refine ⟨?_, hq2, w, lb, by rw [q2]; exact hlb⟩
  cases o with
  | installed code =>
    exact ⟨by rw [hq2]; exact Nat.zero_le _, lb, w, by rw [q2]; exact hlb,
      by rw [q2]; exact Or.inr (q3 code rfl)⟩
  | passthrough code =>
    exact ⟨by rw [hq2]; exact Nat.zero_le _, lb, w, by rw [q2]; exact hlb, Or.inl (q4 (fun _ hc => nomatch hc))⟩
  | error e =>
    exact ⟨by rw [hq2]; exact Nat.zero_le _, lb, w, by rw [q2]; exact hlb, Or.inl (q4 (fun _ hc => nomatch hc))⟩

/-- a response without a body that the callers accept (200) belongs to an empty file -/
theorem reset_passthrough {cfg : Cfg} {data : Text} {k : Kind} {r r' : Reader} {code : Nat}
    (h : Impl.reset cfg data k r = (r', .passthrough code)) (hcode : code = httpOK) : data = [] := by
  unfold Impl.reset at h
  simp only at h
  split at h
  · cases h
  · next c script hsc =>
    split at h
    · cases h
    · have hsv := serve_spec data k c (if r.progress ≠ 0 then some r.progress else none)
      generalize serve data k c (if r.progress ≠ 0 then some r.progress else none) = sv at h hsv
      obtain ⟨c0, content⟩ := sv
      simp only at h hsv
      split at h
      · next hcond =>
        cases h
        have hcont := hsv.1 hcode
        simp only [Bool.and_eq_true, List.isEmpty_iff] at hcond
        rw [← hcont]; exact hcond.1
      · split at h
        · split at h
          · split at h <;> cases h
          · cases h
        · split at h <;> cases h

/-! ### requests -/

theorem read_reqCount_generated (data : Text) (k : Kind) (r : Reader) (m : Nat) :
    reqCount (Impl.read Cfg.generated data k r m).1.log ≤ reqCount r.log + 2 := by
  unfold Impl.read
  have h := readLoop_reqCount Cfg.generated data k m Cfg.generated.sched r ([], Res.ok)
  generalize Impl.readLoop Cfg.generated data k m Cfg.generated.sched r ([], Res.ok) = x at h
  obtain ⟨r', out, res⟩ := x
  simp only [reqCount_append, reqCount] at h ⊢
  have : Cfg.generated.sched.count true = 2 := by decide
  omega

theorem drain_reqCount (hc : Cfg.generated.Good) {data : Text} {k : Kind} {script0 : List Conn}
    (sz : Reader → Nat) : ∀ (fuel : Nat) (r : Reader) (acc : Text), Inv data k script0 r →
      reqCount (drain Cfg.generated data k sz fuel r acc).1.log ≤
        reqCount r.log + 2 * (data.length - r.progress + 1) := by
  intro fuel
  induction fuel with
  | zero => intro r acc _; simp only [drain]; omega
  | succ fuel ih =>
    intro r acc hinv
    have hsched : Cfg.generated.sched ≠ [] := by decide
    obtain ⟨q1, q2, _, _⟩ := read_spec hc (sz r + 1) hinv
    have hne := read_ok_nonempty hsched data k r (sz r)
    have hrc := read_reqCount_generated data k r (sz r + 1)
    unfold drain
    generalize Impl.read Cfg.generated data k r (sz r + 1) = x at q1 q2 hne hrc ⊢
    obtain ⟨r', out, res⟩ := x
    simp only at q1 q2 hne hrc ⊢
    cases res with
    | ok =>
      simp only
      have := ih r' (acc ++ out) q1
      have hlen : 0 < out.length := List.length_pos_iff.mpr (hne rfl)
      have := q1.le
      omega
    | eof => simp only; omega
    | weof => simp only; omega
    | fault => simp only; omega

theorem reqCount_close (r : Reader) : reqCount (Impl.close r).log = reqCount r.log := by
  simp [Impl.close, reqCount_append, reqCount]

/-! ### the consumer loop over a bare body -/

theorem drainBody_spec (sz : Nat → Nat) : ∀ (fuel i : Nat) (b : Body) (acc : Text) (log : List Res),
    b.closed = false →
    (drainBody sz fuel i b acc log).2.1.bytes <+: acc ++ b.rest ∧
    (∀ bs, (drainBody sz fuel i b acc log).2.1 = .ok bs → bs = acc ++ b.rest ∧ b.ending = .clean) ∧
    (b.rest.length < fuel → ∀ bs, (drainBody sz fuel i b acc log).2.1 ≠ .fuel bs) := by
  intro fuel
  induction fuel with
  | zero =>
    intro i b acc log _
    simp only [drainBody, Got.bytes]
    refine ⟨List.prefix_append _ _, ?_, fun h => by omega⟩
    intro bs h; cases h
  | succ fuel ih =>
    intro i b acc log hcl
    obtain ⟨hrest, hend, hcl', heof⟩ := Body.read_open (sz i + 1) hcl
    have hne := Body.read_ok_nonempty b (sz i)
    unfold drainBody
    generalize b.read (sz i + 1) = x at hrest hend hcl' heof hne ⊢
    obtain ⟨b', out, res⟩ := x
    simp only at hrest hend hcl' heof hne ⊢
    have hpre : acc ++ out <+: acc ++ b.rest := by
      rw [hrest, ← List.append_assoc]; exact List.prefix_append _ _
    cases res with
    | ok =>
      simp only
      obtain ⟨i1, i2, i3⟩ := ih (i + 1) b' (acc ++ out) (log ++ [.ok]) hcl'
      have heq : acc ++ out ++ b'.rest = acc ++ b.rest := by rw [hrest, List.append_assoc]
      rw [heq] at i1 i2
      refine ⟨i1, fun bs h => ?_, fun hf => i3 ?_⟩
      · obtain ⟨a1, a2⟩ := i2 bs h
        exact ⟨a1, by rw [← hend]; exact a2⟩
      · have hlen : 0 < out.length := List.length_pos_iff.mpr (hne rfl)
        have := congrArg List.length hrest
        simp only [List.length_append] at this
        omega
    | eof =>
      simp only [Got.bytes]
      refine ⟨hpre, fun bs h => ?_, ?_⟩
      rotate_left
      · intro _ bs h; cases h
      cases h
      obtain ⟨e1, e2⟩ := heof rfl
      exact ⟨by rw [hrest, e2, List.append_nil], e1⟩
    | weof =>
      simp only [Got.bytes]
      refine ⟨hpre, ?_, ?_⟩
      · intro bs h; cases h
      · intro _ bs h; cases h
    | fault =>
      simp only [Got.bytes]
      refine ⟨hpre, ?_, ?_⟩
      · intro bs h; cases h
      · intro _ bs h; cases h

/-- one plain GET answered 200 and a consumer loop over its body: what the loop gathered is a prefix of
the file, and the whole file when it ended with nil and the connection has no invisible clean early end -/
theorem doGet_drain_spec {data : Text} {k : Kind} {c : Conn} {code : Nat} {ob : Option Body}
    (h : doGet data k c = some (code, ob)) (hcode : code = httpOK) (sz : Nat → Nat) :
    (drainResp sz ob).1.bytes <+: data ∧
    (∀ bs, (drainResp sz ob).1 = .ok bs → c.invisibleEnd data k none = false → bs = data) ∧
    (∀ bs, (drainResp sz ob).1 ≠ .fuel bs) := by
  unfold doGet at h
  split at h
  · cases h
  · next hf =>
    have hf' : c.connFail = false := by simpa using hf
    have hsv := serve_spec data k c none
    generalize hsveq : serve data k c none = sv at h hsv
    obtain ⟨c0, content⟩ := sv
    simp only [Option.some.injEq, Prod.mk.injEq] at h hsv
    obtain ⟨rfl, hb⟩ := h
    have hcont := hsv.1 hcode
    subst hcont
    split at hb
    · next hcond =>
      subst hb
      simp only [Bool.and_eq_true, List.isEmpty_iff] at hcond
      simp only [drainResp, Got.bytes]
      refine ⟨List.nil_prefix, ?_, ?_⟩
      · intro bs hbs _; cases hbs; exact hcond.1.symm
      · intro bs hbs; cases hbs
    · subst hb
      have hmk := mkBody_spec content c
      obtain ⟨d1, d2, d3⟩ := drainBody_spec sz ((mkBody content c).rest.length + 1) 0 (mkBody content c) [] [] hmk.1
      simp only [List.nil_append] at d1 d2
      simp only [drainResp]
      refine ⟨d1.trans hmk.2.1, ?_, d3 (by omega)⟩
      intro bs hbs hinv
      obtain ⟨e1, e2⟩ := d2 bs hbs
      rcases mkBody_full hsveq hf' (Or.inl hcode) hinv (by rw [← hmk.2.2.1]; exact e2) with hfull | ⟨_, p, hr, _⟩
      · rw [e1, hfull]
      · cases hr

end Apko.Fetch
