import Apko.Model.Tar
import Apko.Proofs.Lemmas.FSInv
/-! `walk` (the model of `fs.WalkDir` in `Model/FS.lean`): paths strictly increase in the
component-wise order, every path once, parents first.  Used by C06 and C10. -/
namespace Apko.Tar
open Apko Apko.Path Apko.FS

/-! ### `scanAll` -/

theorem scanAll_append {α : Type} (ok : List α → α → Bool) (a c : List α) :
    ∀ pre, scanAll ok pre (a ++ c) = (scanAll ok pre a && scanAll ok (pre ++ a) c) := by
  induction a with
  | nil => intro pre; simp [scanAll]
  | cons x a ih =>
    intro pre
    simp only [List.cons_append, scanAll, ih, Bool.and_assoc]
    simp [List.append_assoc]

/-- the element at any position passes the test with exactly the elements before it -/
theorem scanAll_split {α : Type} {ok : List α → α → Bool} {pre l l1 l2 : List α} {x : α}
    (h : scanAll ok pre l = true) (hl : l = l1 ++ x :: l2) : ok (pre ++ l1) x = true := by
  subst hl
  rw [scanAll_append] at h
  simp only [scanAll, Bool.and_eq_true] at h
  exact h.2.1

theorem scanAll_of_split {α : Type} {ok : List α → α → Bool} (l : List α) :
    ∀ pre, (∀ l1 x l2, l = l1 ++ x :: l2 → ok (pre ++ l1) x = true) → scanAll ok pre l = true := by
  induction l with
  | nil => intro pre _; rfl
  | cons y l ih =>
    intro pre h
    simp only [scanAll, Bool.and_eq_true]
    refine ⟨by simpa using h [] y l rfl, ih _ ?_⟩
    intro l1 x l2 hl
    have := h (y :: l1) x l2 (by simp [hl])
    simpa [List.append_assoc] using this

/-- a test may be replaced by one it implies on every prefix that extends the starting one -/
theorem scanAll_mono {α : Type} {ok1 ok2 : List α → α → Bool} (base : List α)
    (h : ∀ l x, ok1 (base ++ l) x = true → ok2 (base ++ l) x = true) (L : List α) :
    ∀ l, scanAll ok1 (base ++ l) L = true → scanAll ok2 (base ++ l) L = true := by
  induction L with
  | nil => intro l _; rfl
  | cons x L ih =>
    intro l hs
    simp only [scanAll, Bool.and_eq_true] at hs ⊢
    refine ⟨h l x hs.1, ?_⟩
    have := ih (l ++ [x])
    rw [← List.append_assoc] at this
    exact this hs.2

/-! ### order of names and paths -/

theorem name_lt_irrefl (a : Name) : ¬ a < a := List.lt_irrefl a

theorem path_lt_irrefl (a : List Name) : ¬ a < a := List.lt_irrefl a

theorem path_lt_trans {a b c : List Name} (h1 : a < b) (h2 : b < c) : a < c := List.lt_trans h1 h2

/-- a path precedes everything below it -/
theorem path_lt_extend (p : List Name) (n : Name) (r : List Name) : p < p ++ n :: r := by
  have := List.append_left_lt (l₁ := p) (List.nil_lt_cons n r)
  simpa using this

/-- two paths that part at a common prefix compare like the components at which they part -/
theorem path_lt_of_name_lt (p : List Name) {n m : Name} (h : n < m) (r s : List Name) :
    p ++ n :: r < p ++ m :: s :=
  List.append_left_lt (List.cons_lt_cons_iff.mpr (Or.inl h))

/-- listings are strictly increasing by name -/
theorem readdir_strict (fs : FS) (hi : Inv fs) (d : Ino) :
    (readdir fs d).Pairwise (fun a b => a.1 < b.1) := by
  have hs : (readdir fs d).Pairwise (fun a b => a.1 ≤ b.1) := by
    have := List.pairwise_mergeSort (le := fun (a b : Name × Ino) => decide (a.1 ≤ b.1))
      (fun a b c h1 h2 => by simp only [decide_eq_true_eq] at *; exact List.le_trans h1 h2)
      (fun a b => by simp only [Bool.or_eq_true, decide_eq_true_eq]; exact List.le_total a.1 b.1)
      (fs.node d).children
    simpa [readdir, sortNames] using this
  have hp : (readdir fs d).Perm (fs.node d).children := by
    simpa [readdir, sortNames] using List.mergeSort_perm (fs.node d).children _
  have hn : ((readdir fs d).map (·.1)).Nodup := (hp.map _).nodup_iff.mpr (hi.names d)
  have hn' : (readdir fs d).Pairwise (fun a b => a.1 ≠ b.1) := by
    simpa [List.Nodup, List.pairwise_map] using hn
  exact List.Pairwise.imp₂ (fun a b hle hne => by
    rcases List.le_iff_lt_or_eq.mp hle with h | h
    · exact h
    · exact absurd h hne) hs hn'

/-! ### every walk path lies strictly below the walk's prefix -/

theorem walkFrom_below (fs : FS) : ∀ (fuel : Nat) (pre : List Name) (d : Ino),
    ∀ w ∈ walkFrom fs fuel pre d, ∃ n r, w.1 = pre ++ n :: r := by
  intro fuel
  induction fuel with
  | zero => intro pre d w hw; simp [walkFrom] at hw
  | succ fuel ih =>
    intro pre d w hw
    simp only [walkFrom, List.mem_flatMap, List.mem_cons] at hw
    obtain ⟨e, _, hw⟩ := hw
    rcases hw with rfl | hw
    · exact ⟨e.1, [], by simp⟩
    · split at hw
      · obtain ⟨n, r, h⟩ := ih (pre ++ [e.1]) e.2 w hw
        exact ⟨e.1, n :: r, by simp [h]⟩
      · simp at hw

/-! ### sorted, each path once -/

theorem walkFrom_sorted (fs : FS) (hi : Inv fs) : ∀ (fuel : Nat) (pre : List Name) (d : Ino),
    (walkFrom fs fuel pre d).Pairwise (fun a b => a.1 < b.1) := by
  intro fuel
  induction fuel with
  | zero => intro pre d; simp [walkFrom]
  | succ fuel ih =>
    intro pre d
    simp only [walkFrom]
    rw [List.pairwise_flatMap]
    constructor
    · intro e _
      rw [List.pairwise_cons]
      constructor
      · intro w hw
        split at hw
        · obtain ⟨n, r, h⟩ := walkFrom_below fs fuel (pre ++ [e.1]) e.2 w hw
          rw [h]; exact path_lt_extend _ _ _
        · simp at hw
      · split
        · exact ih _ _
        · exact List.Pairwise.nil
    · refine List.Pairwise.imp ?_ (readdir_strict fs hi d)
      intro e1 e2 hlt x hx y hy
      have hx' : ∃ r, x.1 = pre ++ e1.1 :: r := by
        simp only [List.mem_cons] at hx
        rcases hx with rfl | hx
        · exact ⟨[], by simp⟩
        · split at hx
          · obtain ⟨n, r, h⟩ := walkFrom_below fs fuel (pre ++ [e1.1]) e1.2 x hx
            exact ⟨n :: r, by simp [h]⟩
          · simp at hx
      have hy' : ∃ r, y.1 = pre ++ e2.1 :: r := by
        simp only [List.mem_cons] at hy
        rcases hy with rfl | hy
        · exact ⟨[], by simp⟩
        · split at hy
          · obtain ⟨n, r, h⟩ := walkFrom_below fs fuel (pre ++ [e2.1]) e2.2 y hy
            exact ⟨n :: r, by simp [h]⟩
          · simp at hy
      obtain ⟨r, hr⟩ := hx'
      obtain ⟨s, hs⟩ := hy'
      rw [hr, hs]
      exact path_lt_of_name_lt pre hlt r s

/-- **walk_sorted_nodup**: the walk lists paths in strictly increasing component-wise order -/
theorem walk_sorted (fs : FS) (hi : Inv fs) : (walk fs).Pairwise (fun a b => a.1 < b.1) :=
  walkFrom_sorted fs hi _ _ _

/-- … hence every path exactly once -/
theorem walk_nodup (fs : FS) (hi : Inv fs) : ((walk fs).map (·.1)).Nodup := by
  have := walk_sorted fs hi
  simp only [List.Nodup, List.pairwise_map]
  exact this.imp (fun {a b} h heq => by rw [heq] at h; exact path_lt_irrefl _ h)

theorem walk_nonempty (fs : FS) : ∀ w ∈ walk fs, w.1 ≠ [] := by
  intro w hw
  obtain ⟨n, r, h⟩ := walkFrom_below fs _ _ _ w hw
  simp [h]

/-! ### parents first -/

/-- the parent of `w` is the walk's root prefix or an earlier entry, which is a directory -/
def pfOK (fs : FS) (root : List Name) (pre : List (List Name × Ino)) (w : List Name × Ino) : Bool :=
  decide (w.1.dropLast = root) || pre.any fun y => decide (y.1 = w.1.dropLast) && (fs.node y.2).dir

theorem pfOK_weaken (fs : FS) (root : List Name) (n : Name) (i : Ino) (hd : (fs.node i).dir = true)
    (base : List (List Name × Ino)) (hb : (root ++ [n], i) ∈ base) (l : List (List Name × Ino))
    (x : List Name × Ino) (h : pfOK fs (root ++ [n]) (base ++ l) x = true) : pfOK fs root (base ++ l) x = true := by
  simp only [pfOK, Bool.or_eq_true, decide_eq_true_eq, List.any_eq_true, Bool.and_eq_true] at h ⊢
  rcases h with h | h
  · right
    exact ⟨(root ++ [n], i), List.mem_append_left _ hb, h.symm, hd⟩
  · right; exact h

theorem walkFrom_parents (fs : FS) : ∀ (fuel : Nat) (root : List Name) (d : Ino) (acc : List (List Name × Ino)),
    scanAll (pfOK fs root) acc (walkFrom fs fuel root d) = true := by
  intro fuel
  induction fuel with
  | zero => intro root d acc; simp [walkFrom, scanAll]
  | succ fuel ih =>
    intro root d acc
    simp only [walkFrom]
    generalize readdir fs d = es
    induction es generalizing acc with
    | nil => simp [scanAll]
    | cons e es ihe =>
      simp only [List.flatMap_cons]
      rw [scanAll_append, Bool.and_eq_true]
      refine ⟨?_, ihe _⟩
      simp only [scanAll, Bool.and_eq_true]
      constructor
      · simp [pfOK]
      · split
        · rename_i hd
          have h1 := ih (root ++ [e.1]) e.2 (acc ++ [(root ++ [e.1], e.2)])
          have := scanAll_mono (ok1 := pfOK fs (root ++ [e.1])) (ok2 := pfOK fs root)
            (acc ++ [(root ++ [e.1], e.2)])
            (pfOK_weaken fs root e.1 e.2 hd _ (by simp))
            (walkFrom fs fuel (root ++ [e.1]) e.2) []
          simp only [List.append_nil] at this
          exact this h1
        · rfl

/-- **walk_parents_first** (with the fact that the parent entry is a directory) -/
theorem walk_parents_first_dir (fs : FS) (l1 l2 : List (List Name × Ino)) (w : List Name × Ino)
    (h : walk fs = l1 ++ w :: l2) :
    w.1.dropLast = [] ∨ ∃ y ∈ l1, y.1 = w.1.dropLast ∧ (fs.node y.2).dir = true := by
  have := scanAll_split (walkFrom_parents fs fs.nodes.length [] 0 []) h
  simpa [pfOK] using this

/-- **walk_parents_first** in the form stated in `Proofs/C17.lean` -/
theorem walk_parents_first (fs : FS) (l1 l2 : List (List Name × Ino)) (q : List Name) (n : Name) (i : Ino)
    (h : walk fs = l1 ++ (q ++ [n], i) :: l2) : q = [] ∨ ∃ y ∈ l1, y.1 = q := by
  rcases walk_parents_first_dir fs l1 l2 _ h with h | ⟨y, hy, hq, _⟩
  · left; simpa using h
  · right; exact ⟨y, hy, by simpa using hq⟩

end Apko.Tar
