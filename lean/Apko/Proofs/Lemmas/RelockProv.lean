/-
C09, the fixpoint WITH provides (universes with virtual names, versioned provides, several providers of one name; no
install_if): hypotheses, the invariant, and the per-step lemmas (`constrain`, `depOption`, the best candidate,
`disqualifyConflicts`, `pick`).  The loops are in RelockProvLoop.lean, the top level in RelockProvTop.lean.

What changes against the no-provides proof (Lemmas/RelockSucc.lean):
* candidates for a virtual name are not confined to members: the pick is a member because every member is in
  `existing` with its version and `comparePackages` looks at that first (`compare_prefers_existing`,
  `minFunc_prefers`), while a non-member carrying a member's name is disqualified (`Locked`);
* `existing[virtual]` is empty, so a pinned member passes the candidate filter for a virtual name only through
  `allowPin`: every lock entry has to carry the pin (the driver's F09a predicate `pinLost`, not only "own entry");
* `disqualifyConflicts` and `pick` act on the members' provides: two members must not provide one name unless both
  provides are unversioned (`hv`), no member provides a name twice (`hd`);
* no package provides a member's name (`hb`, F09b), no versioned dependency on a name some member provides (`hh`, F09h).
-/
import Apko.Proofs.Lemmas.RelockTop

namespace Apko.LockP
open Apko Apko.Resolver Apko.Lock
open Apko.C02 (Carries)

abbrev pc (s : Text) : Constraint := parseConstraint s

structure PCtx (c : Cfg) (S : List Pkg) : Prop where
  noiif : ∀ q ∈ c.u.all, q.installIf = []
  sIn : ∀ p ∈ S, p ∈ c.u.all
  closed : ∀ p ∈ S, ∀ d ∈ p.deps, isConflict d = false → ∃ q ∈ S, sat q d = true

structure PSide (c : Cfg) (S : List Pkg) : Prop where
  ids : C02.IdsDistinct c.u
  names : ∀ p ∈ S, ∀ q ∈ S, p.name = q.name → p = q
  pvOk : ∀ p ∈ S, (pv p.version).isSome = true
  depPv : ∀ p ∈ S, ∀ d ∈ p.deps, isConflict d = false → (pc d).version = [] ∨ (pv (pc d).version).isSome = true
  /-- providers are appended to `nameMap[virtual]` in the order of `c.order`: it has to know the members -/
  order : ∀ q ∈ S, q.name ∈ c.order
  /-- not F09f / F09n: the candidate filter of `disqualifyProviders` accepts no member for a `!x` dependency of a member -/
  noConf : ∀ p ∈ S, ∀ d ∈ p.deps, isConflict d = true → ∀ q ∈ S, Carries q (pc (d.drop 1)).name →
    acceptsOne [] (pc (d.drop 1)).version (pc (d.drop 1)).dep [] (pc (d.drop 1)).pin none q = false
  /-- not F09b: whatever provides a member's name has that very name -/
  hb : ∀ x ∈ c.u.all, ∀ pr ∈ x.provides, ∀ p ∈ S, provName pr = p.name → x.name = p.name
  /-- not F09m (first half): no member provides its own name -/
  hself : ∀ m ∈ S, ∀ pr ∈ m.provides, provName pr ≠ m.name
  /-- not F09h: a dependency with a version text names nothing that a member provides with a version -/
  hh : ∀ p ∈ S, ∀ d ∈ p.deps, isConflict d = false → (pc d).version ≠ [] →
    ∀ q ∈ S, ∀ pr ∈ q.provides, provName pr = (pc d).name → (pc pr).version = []
  /-- two different members provide one name only without versions -/
  hv : ∀ m1 ∈ S, ∀ m2 ∈ S, m1 ≠ m2 → ∀ pr1 ∈ m1.provides, ∀ pr2 ∈ m2.provides, provName pr1 = provName pr2 →
    (pc pr1).version = [] ∧ (pc pr2).version = []
  /-- not F09m (second half): no member provides a name again after providing it with a version -/
  hd : ∀ m ∈ S, m.provides.Pairwise (fun a b => (pc a).version ≠ [] → provName a ≠ provName b)

/-- every pinned member comes from the repository pinned `P` -/
def PinsIn (S : List Pkg) (P : Text) : Prop := ∀ p ∈ S, p.pin = [] ∨ p.pin = P

/-- whatever provides a member's name is a NON-member of that name (`hb` + `hself` + one member per name) -/
theorem hb2 {c : Cfg} {S : List Pkg} (sd : PSide c S) {x : Pkg} (hx : x ∈ c.u.all) {pr : Text} (hpr : pr ∈ x.provides)
    {p : Pkg} (hp : p ∈ S) (hn : provName pr = p.name) : x.name = p.name ∧ x ∉ S := by
  have hxn := sd.hb x hx pr hpr p hp hn
  refine ⟨hxn, fun hxs => ?_⟩
  have : x = p := sd.names x hxs p hp hxn
  subst this
  exact sd.hself x hxs pr hpr hn

theorem filter_dq_nil {cands : List Pkg} {dq : List Nat} {ver : Text} {dep : Dep} {a p : Text} {i : Option Pkg} {x : Pkg}
    (h : x ∈ filterPackages cands dq ver dep a p i) : x ∈ filterPackages cands [] ver dep a p i := by
  unfold filterPackages at h ⊢
  simp only at h ⊢
  split
  · next hany =>
    simp only [hany, ↓reduceIte, List.mem_filter, Bool.and_eq_true] at h
    simp only [List.mem_filter, Bool.and_eq_true]
    exact ⟨h.1, by simp, h.2.2⟩
  · next hany =>
    simp only [hany, ↓reduceIte] at h
    split
    · next hpv => simp [hpv] at h
    · next req hpv =>
      simp only [hpv, List.mem_filter, Bool.and_eq_true] at h
      simp only [List.mem_filter, Bool.and_eq_true]
      exact ⟨⟨h.1.1, by simp, h.1.2.2⟩, h.2⟩

/-! ### nameMap -/

theorem nm_member {c : Cfg} {S : List Pkg} (sd : PSide c S) {p x : Pkg} (hp : p ∈ S) (hx : x ∈ c.nm p.name) :
    x ∈ c.u.all ∧ x.name = p.name := by
  obtain ⟨hu, hc⟩ := C02.nameMap_mem hx
  refine ⟨hu, ?_⟩
  rcases hc with h | ⟨pr, hpr, hn⟩
  · exact h
  · exact sd.hb x hu pr hpr p hp hn

theorem own_in_nm {c : Cfg} {S : List Pkg} (ctx : PCtx c S) {q : Pkg} (hq : q ∈ S) : q ∈ c.nm q.name := by
  unfold Cfg.nm nameMap
  exact List.mem_append_left _ (List.mem_filter.mpr ⟨ctx.sIn q hq, by simp⟩)

theorem carrier_in_nm {c : Cfg} {S : List Pkg} (ctx : PCtx c S) (sd : PSide c S) {q : Pkg} (hq : q ∈ S) {n : Text}
    (hc : Carries q n) : q ∈ c.nm n := by
  rcases hc with h | ⟨pr, hpr, hn⟩
  · rw [← h]; exact own_in_nm ctx hq
  · unfold Cfg.nm nameMap
    apply List.mem_append_right
    simp only [List.mem_flatMap, List.mem_filter, List.mem_map, decide_eq_true_eq]
    exact ⟨q.name, sd.order q hq, q, ⟨ctx.sIn q hq, rfl⟩, pr, ⟨hpr, hn⟩, rfl⟩

theorem cand_in {c : Cfg} {dq : List Nat} {n ver : Text} {dep : Dep} {allow prefer : Text} {inst : Option Pkg} {x : Pkg}
    (hx : x ∈ filterPackages (c.nm n) dq ver dep allow prefer inst) :
    x ∈ c.u.all ∧ Carries x n ∧ dq.contains x.id = false := by
  obtain ⟨hdq, hnm⟩ := C02.filter_excludes_dq hx
  obtain ⟨hu, hc⟩ := C02.nameMap_mem hnm
  exact ⟨hu, hc, hdq⟩

/-- a candidate for a member's name that is not disqualified is a member -/
theorem cand_member_name {c : Cfg} {S : List Pkg} (sd : PSide c S) {dq : List Nat} (hl : Locked c S dq) {p : Pkg}
    (hp : p ∈ S) {ver : Text} {dep : Dep} {allow prefer : Text} {inst : Option Pkg} {x : Pkg}
    (hx : x ∈ filterPackages (c.nm p.name) dq ver dep allow prefer inst) : x ∈ S := by
  obtain ⟨hdq, hnm⟩ := C02.filter_excludes_dq hx
  obtain ⟨hu, hn⟩ := nm_member sd hp hnm
  by_cases hs : x ∈ S
  · exact hs
  · have := hl x hu ⟨p, hp, hn.symm⟩ hs
    rw [this] at hdq
    cases hdq

/-! ### `constrain` keeps the members free -/

theorem id_ne_of_not_mem {c : Cfg} {S : List Pkg} (ctx : PCtx c S) (sd : PSide c S) {x q : Pkg}
    (hx : x ∈ c.u.all) (hxs : x ∉ S) (hq : q ∈ S) : q.id ≠ x.id := by
  intro h
  have := C02.eq_of_id_eq sd.ids (ctx.sIn q hq) hx h
  exact hxs (this ▸ hq)

theorem disqualifyProviders_free {c : Cfg} {S : List Pkg} (ctx : PCtx c S) (sd : PSide c S) (x : Text) (dq : List Nat)
    (hx : ∀ q ∈ S, Carries q (pc x).name → acceptsOne [] (pc x).version (pc x).dep [] (pc x).pin none q = false)
    (hf : Free S dq) : Free S (disqualifyProviders c x dq) := by
  unfold disqualifyProviders
  simp only
  split
  · exact hf
  · generalize hl : filterPackages (c.nm (parseConstraint x).name) dq (parseConstraint x).version
      (parseConstraint x).dep [] (parseConstraint x).pin none = l
    have hmem : ∀ q ∈ l, q ∈ c.u.all ∧ q ∉ S := by
      intro q hq
      rw [← hl] at hq
      obtain ⟨hu, hc, _⟩ := cand_in hq
      refine ⟨hu, fun hqs => ?_⟩
      have h0 := filter_dq_nil hq
      rw [C02.filter_local, List.mem_filter] at h0
      have := hx q hqs hc
      rw [show pc x = parseConstraint x from rfl, h0.2] at this
      cases this
    clear hl
    induction l generalizing dq with
    | nil => exact hf
    | cons y ys ih =>
      simp only [List.foldl_cons]
      apply ih
      · exact free_dqAdd hf (fun q hq => id_ne_of_not_mem ctx sd (hmem y List.mem_cons_self).1
          (hmem y List.mem_cons_self).2 hq)
      · exact fun q hq => hmem q (List.mem_cons_of_mem _ hq)

theorem constrainStep_free {c : Cfg} {S : List Pkg} (ctx : PCtx c S) (sd : PSide c S) (p : Constraint) (req : Version)
    (d : List Nat) (prov : Pkg) (hprov : prov ∈ c.u.all) (hn : prov.name = p.name)
    (hok : prov ∈ S → ∃ act, pv prov.version = some act ∧ p.dep.satisfies act req = true)
    (hf : Free S d) : Free S (constrainStep p req d prov) := by
  unfold constrainStep
  simp only [hn, ↓reduceIte]
  by_cases hs : prov ∈ S
  · obtain ⟨act, hact, hsat⟩ := hok hs
    simp only [hact, hsat, Bool.not_true, Bool.false_eq_true, ↓reduceIte]
    exact hf
  · have hne : ∀ q ∈ S, q.id ≠ prov.id := fun q hq => id_ne_of_not_mem ctx sd hprov hs hq
    split
    · exact free_dqAdd hf hne
    · split
      · exact free_dqAdd hf hne
      · exact hf

/-- a constraint that leaves the members alone: a conflict whose candidate filter accepts no member, an unversioned constraint,
or a versioned constraint on the name of a member that satisfies it -/
def ConOK (S : List Pkg) (con : Text) : Prop :=
  (∃ x, con = '!' :: x ∧ ∀ q ∈ S, Carries q (pc x).name →
      acceptsOne [] (pc x).version (pc x).dep [] (pc x).pin none q = false) ∨
  ((∀ x, con ≠ '!' :: x) ∧ ((pc con).dep = .any ∨
     ∃ req, pv (pc con).version = some req ∧ ∃ q ∈ S, q.name = (pc con).name ∧
         ∃ act, pv q.version = some act ∧ (pc con).dep.satisfies act req = true))

theorem constrain_free {c : Cfg} {S : List Pkg} (ctx : PCtx c S) (sd : PSide c S) :
    ∀ (l : List Text) (dq : List Nat), (∀ con ∈ l, ConOK S con) → Free S dq →
      ∃ dq', constrain c l dq = some dq' ∧ Free S dq' := by
  intro l
  induction l with
  | nil => intro dq _ hf; exact ⟨dq, by simp [constrain], hf⟩
  | cons con rest ih =>
    intro dq hok hf
    have hrest : ∀ con ∈ rest, ConOK S con := fun x hx => hok x (List.mem_cons_of_mem _ hx)
    rcases hok con List.mem_cons_self with ⟨x, rfl, hx⟩ | ⟨hnb, hc⟩
    · rw [constrain_bang]
      exact ih _ hrest (disqualifyProviders_free ctx sd x dq hx hf)
    · rw [constrain_other c con rest dq hnb]
      split
      · exact ih _ hrest hf
      · next hany =>
        split
        · exact ih _ hrest hf
        · rcases hc with hc | ⟨req, hreq, q, hq, hqn, act, hact, hs⟩
          · exact absurd hc hany
          · simp only [hreq]
            apply ih _ hrest
            have hnm : ∀ prov ∈ c.nm (parseConstraint con).name, prov ∈ c.u.all ∧ prov.name = (parseConstraint con).name := by
              intro prov hp
              have hqn2 : (parseConstraint con).name = q.name := hqn.symm
              rw [hqn2] at hp ⊢
              exact nm_member sd hq hp
            generalize c.nm (parseConstraint con).name = l at hnm
            induction l generalizing dq with
            | nil => exact hf
            | cons y ys ihl =>
              simp only [List.foldl_cons]
              apply ihl
              · refine constrainStep_free ctx sd _ req dq y (hnm y List.mem_cons_self).1 (hnm y List.mem_cons_self).2
                  (fun hys => ?_) hf
                have : y = q := sd.names y hys q hq ((hnm y List.mem_cons_self).2.trans hqn.symm)
                subst this
                exact ⟨act, hact, hs⟩
              · exact fun q hq => hnm q (List.mem_cons_of_mem _ hq)

/-! ### what closure gives for one dependency of a member -/

theorem closed_member {c : Cfg} {S : List Pkg} (ctx : PCtx c S) (sd : PSide c S) {pkg : Pkg} (hpkg : pkg ∈ S) {d : Text}
    (hd : d ∈ pkg.deps) (hnc : isConflict d = false) :
    ∃ q ∈ S, Carries q (pc d).name ∧ ((pc d).dep = .any ∨
      (q.name = (pc d).name ∧ ∃ req act, pv (pc d).version = some req ∧ pv q.version = some act ∧
        (pc d).dep.satisfies act req = true)) := by
  obtain ⟨q, hq, hsat⟩ := ctx.closed pkg hpkg d hd hnc
  refine ⟨q, hq, ?_⟩
  unfold sat at hsat
  simp only [Bool.or_eq_true, Bool.and_eq_true, decide_eq_true_eq, List.any_eq_true, List.isEmpty_iff] at hsat
  by_cases hany : (parseConstraint d).dep = .any
  · refine ⟨?_, Or.inl hany⟩
    rcases hsat with ⟨hn, _⟩ | ⟨pr, hpr, hn, _⟩
    · exact Or.inl hn
    · exact Or.inr ⟨pr, hpr, hn⟩
  · have hv : (parseConstraint d).version ≠ [] := fun h => hany (parse_version_nil_any d h)
    rcases hsat with ⟨hn, h2⟩ | ⟨pr, hpr, hn, h2⟩
    · refine ⟨Or.inl hn, Or.inr ⟨hn, ?_⟩⟩
      rcases h2 with (h2 | h2) | h2
      · exact absurd h2 hv
      · exact absurd h2 hany
      · split at h2
        · next a r ha hr => exact ⟨r, a, hr, ha, h2⟩
        · cases h2
    · exfalso
      have hpv := sd.hh pkg hpkg d hd hnc hv q hq pr hpr hn
      rcases h2 with (h2 | h2) | h2
      · exact hv h2
      · exact hany h2
      · simp [hpv] at h2

theorem dep_conOK {c : Cfg} {S : List Pkg} (ctx : PCtx c S) (sd : PSide c S) {pkg : Pkg} (hpkg : pkg ∈ S) :
    ∀ d ∈ pkg.deps, ConOK S d := by
  intro d hd
  rcases bang_or_not d with ⟨x, rfl⟩ | hnb
  · exact Or.inl ⟨x, rfl, sd.noConf pkg hpkg _ hd rfl⟩
  · right
    refine ⟨hnb, ?_⟩
    obtain ⟨q, hq, _, hv⟩ := closed_member ctx sd hpkg hd (isConflict_false_of_not_bang hnb)
    rcases hv with hv | ⟨hqn, req, act, hreq, hact, hs⟩
    · exact Or.inl hv
    · exact Or.inr ⟨req, hreq, q, hq, hqn, act, hact, hs⟩

/-! ### the invariant of the dependency walk -/

def SelOK (S : List Pkg) (sel : List (Text × Pkg)) : Prop :=
  ∀ n m, lookupT sel n = some m →
    m ∈ S ∧ (m.name = n ∨ ∃ pr ∈ m.provides, provName pr = n ∧ (pc pr).version ≠ []) ∧ lookupT sel m.name = some m

structure PInv (c : Cfg) (S : List Pkg) (ds : DepSt) : Prop where
  locked : Locked c S ds.st.dq
  free : Free S ds.st.dq
  sel : SelOK S ds.st.selected
  ex : ∀ p ∈ S, lookupT ds.existing p.name = some p
  exk : ∀ n m, lookupT ds.existing n = some m → m ∈ S ∧ m.name = n

theorem scan_no_name (name : Text) (req : Version) :
    ∀ (provs : List Text), (∀ pr ∈ provs, provName pr ≠ name) → depOption.scan name req provs = some false := by
  intro provs
  induction provs with
  | nil => intro _; rfl
  | cons pr rest ih =>
    intro h
    have h1 : provName pr ≠ name := h pr List.mem_cons_self
    unfold provName at h1
    rw [depOption.scan]
    simp only [bne_iff_ne, ne_eq, h1, not_false_eq_true, ↓reduceIte]
    exact ih (fun x hx => h x (List.mem_cons_of_mem _ hx))

/-- no dependency of a member fails in a pass of the loop -/
theorem depOption_not_fail {c : Cfg} {S : List Pkg} (ctx : PCtx c S) (sd : PSide c S) {pkg : Pkg} (hpkg : pkg ∈ S)
    {allowPin : Text} (hpins : PinsIn S allowPin) {ds : DepSt} (inv : PInv c S ds) {d : Text} (hd : d ∈ pkg.deps) :
    depOption c pkg allowPin ds d ≠ .fail := by
  rw [C02.depOption_eq]
  unfold C02.depOption'
  split
  · intro h; cases h
  · next hnb =>
    have hnc := isConflict_false_of_not_bang hnb
    obtain ⟨q, hq, hcar, hv⟩ := closed_member ctx sd hpkg hd hnc
    simp only
    split
    · split <;> (intro h; cases h)
    · split
      · intro h; cases h
      · split
        · next picked hsel =>
          obtain ⟨hps, halt, _⟩ := inv.sel _ _ hsel
          unfold C02.selectedCase
          simp only
          split
          · intro h; cases h
          · next hve =>
            have hve2 : (parseConstraint d).version ≠ [] := by simpa using hve
            have hpn : picked.name = (parseConstraint d).name := by
              rcases halt with h | ⟨pr, hpr, hn, hvne⟩
              · exact h
              · exact absurd (sd.hh pkg hpkg d hd hnc hve2 picked hps pr hpr hn) hvne
            have hqp : q = picked := by
              rcases hcar with h | ⟨pr, hpr, hn⟩
              · exact sd.names q hq picked hps (h.trans hpn.symm)
              · exact absurd hq (hb2 sd (ctx.sIn q hq) hpr hps (hn.trans hpn.symm)).2
            subst hqp
            obtain ⟨act, hact⟩ := Option.isSome_iff_exists.mp (sd.pvOk q hq)
            obtain ⟨req, hreq⟩ : ∃ v, pv (parseConstraint d).version = some v := by
              rcases sd.depPv pkg hpkg d hd hnc with h | h
              · exact absurd h hve2
              · exact Option.isSome_iff_exists.mp h
            have hsc : depOption.scan (parseConstraint d).name req q.provides = some false := by
              apply scan_no_name
              intro pr hpr hn
              exact sd.hself q hq pr hpr (hn.trans hpn.symm)
            have hs : (parseConstraint d).dep.satisfies act req = true := by
              rcases hv with hv | ⟨_, req2, act2, hreq2, hact2, hs⟩
              · rw [hv]; rfl
              · rw [hreq] at hreq2; rw [hact] at hact2
                cases hreq2; cases hact2; exact hs
            simp only [hact, hreq, hsc, hs, ↓reduceIte]
            split <;> (intro h; cases h)
        · next hsel =>
          unfold C02.candidateCase
          simp only [C02.hasName_of_mem (ctx.sIn q hq) hcar, Bool.not_true, Bool.false_eq_true, ↓reduceIte]
          have hmem : q ∈ filterPackages (c.nm (parseConstraint d).name) ds.st.dq (parseConstraint d).version
              (parseConstraint d).dep allowPin [] (lookupT ds.existing (parseConstraint d).name) :=
            mem_filter_intro (carrier_in_nm ctx sd hq hcar) (inv.free q hq)
              (by rcases hpins q hq with h | h
                  · exact Or.inl h
                  · exact Or.inr (Or.inl h)) (by
                rcases hv with hv | ⟨_, req, act, h1, h2, h3⟩
                · exact Or.inl hv
                · exact Or.inr ⟨req, act, h1, h2, h3⟩)
          split
          · next he =>
            rw [List.isEmpty_iff] at he
            rw [he] at hmem
            cases hmem
          · intro h; cases h

/-! ### the best candidate is a member -/

theorem best_member {c : Cfg} {S : List Pkg} {ds : DepSt} (inv : PInv c S ds) {name ver : Text} {dep : Dep}
    {allow prefer : Text} {inst : Option Pkg} {q : Pkg} (hq : q ∈ S)
    (hqm : q ∈ filterPackages (c.nm name) ds.st.dq ver dep allow prefer inst)
    {bb : Ordering} {nm2 : Text} {origins : List Text} {best : Pkg}
    (hbest : minFunc (comparePackages bb nm2 [] ds.existing origins)
      (filterPackages (c.nm name) ds.st.dq ver dep allow prefer inst) = some best) : best ∈ S := by
  have hPq : matchesExisting ds.existing q = true := by
    unfold matchesExisting
    rw [inv.ex q hq]
    simp
  have hP := minFunc_prefers (comparePackages bb nm2 [] ds.existing origins) (matchesExisting ds.existing)
    (fun a b ha hb => by
      obtain ⟨h1, h2⟩ := compare_prefers_existing bb nm2 [] ds.existing origins a b ha hb
      exact ⟨h1, by rw [h2]; decide⟩) _ best ⟨q, hqm, hPq⟩ hbest
  unfold matchesExisting at hP
  split at hP
  · next e he =>
    obtain ⟨heS, hen⟩ := inv.exk _ _ he
    obtain ⟨hu, _, hdq⟩ := cand_in (C02.mem_of_minFunc hbest)
    by_cases hs : best ∈ S
    · exact hs
    · have := inv.locked best hu ⟨e, heS, hen⟩ hs
      rw [this] at hdq
      cases hdq
  · cases hP

/-! ### `disqualifyConflicts` of a member spares the members -/

theorem conflictingVersion_spares {c : Cfg} {S : List Pkg} (ctx : PCtx c S) (sd : PSide c S) {best : Pkg} (hb : best ∈ S)
    {pr : Text} (hpr : pr ∈ best.provides) {conflict : Pkg} (hc : conflict ∈ S) (hne : conflict ≠ best)
    (hcar : Carries conflict (pc pr).name) : conflictingVersion (pc pr) conflict = some false := by
  have hnn : conflict.name ≠ (pc pr).name := by
    intro h
    exact (hb2 sd (ctx.sIn best hb) hpr hc h.symm).2 hb
  rcases hcar with h | ⟨pr2, hpr2, hn2⟩
  · exact absurd h hnn
  · have hv0 := (sd.hv best hb conflict hc (fun e => hne e.symm) pr hpr pr2 hpr2 hn2.symm).1
    unfold conflictingVersion
    simp only [show (pc pr).version = [] from hv0, List.isEmpty_nil, Bool.not_true, Bool.false_eq_true, ↓reduceIte, hnn]
    cases hf : conflict.provides.find? (fun p => provName p = (pc pr).name) with
    | none =>
      have := List.find?_eq_none.mp hf pr2 hpr2
      simp [hn2] at this
    | some prf =>
      have hprf := List.mem_of_find?_eq_some hf
      have hnf : provName prf = (pc pr).name := by simpa using List.find?_some hf
      have := (sd.hv best hb conflict hc (fun e => hne e.symm) pr hpr prf hprf hnf.symm).2
      simp only
      rw [show (parseConstraint prf).version = [] from this]
      rfl

theorem conflictingVersion_some {con : Constraint} {conflict : Pkg} (hc : Carries conflict con.name) :
    ∃ b, conflictingVersion con conflict = some b := by
  unfold conflictingVersion
  split
  · exact ⟨_, rfl⟩
  · split
    · exact ⟨_, rfl⟩
    · next hn =>
      rcases hc with h | ⟨pr, hpr, hn2⟩
      · exact absurd h hn
      · cases hf : conflict.provides.find? (fun p => provName p = con.name) with
        | none =>
          have := List.find?_eq_none.mp hf pr hpr
          simp [hn2] at this
        | some prf => exact ⟨_, rfl⟩

theorem dqSub_of_subset {a b : List Nat} (h : a ⊆ b) : dqSub a b := by
  intro i hi
  rw [List.contains_iff_mem] at hi ⊢
  exact h hi

theorem disqualifyConflicts_ok {c : Cfg} {S : List Pkg} (ctx : PCtx c S) (sd : PSide c S) {best : Pkg} (hb : best ∈ S)
    {dq : List Nat} (hf : Free S dq) :
    ∃ dq1, disqualifyConflicts c best dq = some dq1 ∧ Free S dq1 ∧ dqSub dq dq1 := by
  have key : ∀ (l : List Text), (∀ pr ∈ l, pr ∈ best.provides) → ∀ d, Free S d →
      ∃ d1, l.foldlM (fun d prov =>
        let con := parseConstraint prov
        if !hasName c.u con.name then some d else
        (c.nm con.name).foldlM (fun d' conflict =>
          if conflict.id = best.id then some d'
          else if d'.contains conflict.id then some d'
          else match conflictingVersion con conflict with
            | none => none
            | some false => some d'
            | some true => some (dqAdd d' conflict.id)) d) d = some d1 ∧ Free S d1 := by
    intro l
    induction l with
    | nil => intro _ d hd; exact ⟨d, rfl, hd⟩
    | cons pr rest ih =>
      intro hl d hd
      have hpr := hl pr List.mem_cons_self
      simp only [List.foldlM_cons]
      have inner : ∀ (l2 : List Pkg), (∀ x ∈ l2, x ∈ c.nm (parseConstraint pr).name) → ∀ d2, Free S d2 →
          ∃ d3, l2.foldlM (fun d' conflict =>
            if conflict.id = best.id then some d'
            else if d'.contains conflict.id then some d'
            else match conflictingVersion (parseConstraint pr) conflict with
              | none => none
              | some false => some d'
              | some true => some (dqAdd d' conflict.id)) d2 = some d3 ∧ Free S d3 := by
        intro l2
        induction l2 with
        | nil => intro _ d2 hd2; exact ⟨d2, rfl, hd2⟩
        | cons x xs ih2 =>
          intro hx d2 hd2
          simp only [List.foldlM_cons]
          have hxs := fun y hy => hx y (List.mem_cons_of_mem _ hy)
          obtain ⟨hxu, hxc⟩ := C02.nameMap_mem (hx x List.mem_cons_self)
          split
          · simpa using ih2 hxs d2 hd2
          · next hid =>
            split
            · simpa using ih2 hxs d2 hd2
            · obtain ⟨b, hcv⟩ := conflictingVersion_some (con := parseConstraint pr) hxc
              rw [hcv]
              cases b with
              | false => simpa using ih2 hxs d2 hd2
              | true =>
                have hxns : x ∉ S := by
                  intro hxS
                  have hne : x ≠ best := fun e => hid (by rw [e])
                  have := conflictingVersion_spares ctx sd hb hpr hxS hne hxc
                  rw [show pc pr = parseConstraint pr from rfl, hcv] at this
                  cases this
                simpa using ih2 hxs (dqAdd d2 x.id)
                  (free_dqAdd hd2 (fun q hq => id_ne_of_not_mem ctx sd hxu hxns hq))
      split
      · simpa using ih (fun x hx => hl x (List.mem_cons_of_mem _ hx)) d hd
      · obtain ⟨d3, h3, hf3⟩ := inner _ (fun x hx => hx) d hd
        rw [h3]
        simpa using ih (fun x hx => hl x (List.mem_cons_of_mem _ hx)) d3 hf3
  obtain ⟨d1, h1, hf1⟩ := key best.provides (fun _ h => h) dq hf
  have h1' : disqualifyConflicts c best dq = some d1 := h1
  exact ⟨d1, h1', hf1, dqSub_of_subset (C02.disqualifyConflicts_infl c best dq d1 h1')⟩

/-! ### `pick` of a member never conflicts -/

/-- the state of the loop over the provides of `pkg` inside `pick`, after the provides `done` -/
structure PickInv (S : List Pkg) (sel : List (Text × Pkg)) (pkg : Pkg) (done : List Text) (s : List (Text × Pkg)) : Prop where
  src : ∀ n m, lookupT s n = some m → lookupT sel n = some m ∨
    (m = pkg ∧ (n = pkg.name ∨ ∃ pr ∈ done, provName pr = n ∧ (pc pr).version ≠ []))
  own : lookupT s pkg.name = some pkg
  keep : ∀ n m, lookupT sel n = some m → lookupT s n = some m

theorem pick_fold {c : Cfg} {S : List Pkg} (ctx : PCtx c S) (sd : PSide c S) {pkg : Pkg} (hpkg : pkg ∈ S)
    {sel : List (Text × Pkg)} (hsel : SelOK S sel) (hnone : lookupT sel pkg.name = none) :
    ∀ (rest done : List Text), done ++ rest = pkg.provides → ∀ s, PickInv S sel pkg done s →
      ∃ s2, rest.foldlM (fun s prov =>
        let con := parseConstraint prov
        match lookupT s con.name with
        | some _ => none
        | none => if con.version.isEmpty then some s else some (setT s con.name pkg)) s = some s2 ∧
        PickInv S sel pkg pkg.provides s2 := by
  intro rest
  induction rest with
  | nil =>
    intro done hd s hs
    simp only [List.append_nil] at hd
    exact ⟨s, rfl, hd ▸ hs⟩
  | cons prov rest ih =>
    intro done hd s hs
    simp only [List.foldlM_cons]
    have hprov : prov ∈ pkg.provides := by rw [← hd]; simp
    have hpw := sd.hd pkg hpkg
    rw [← hd, List.pairwise_append] at hpw
    have hfree : lookupT s (parseConstraint prov).name = none := by
      cases hl : lookupT s (parseConstraint prov).name with
      | none => rfl
      | some m =>
        exfalso
        rcases hs.src _ _ hl with h | ⟨rfl, h | ⟨pr, hpr, hn, hvpr⟩⟩
        · obtain ⟨hmS, halt, hmm⟩ := hsel _ _ h
          have hne : m ≠ pkg := by
            intro e
            rw [e, hnone] at hmm
            cases hmm
          rcases halt with hmn | ⟨pr2, hpr2, hn2, hv2⟩
          · exact (hb2 sd (ctx.sIn pkg hpkg) hprov hmS hmn.symm).2 hpkg
          · exact hv2 (sd.hv pkg hpkg m hmS (fun e => hne e.symm) prov hprov pr2 hpr2 hn2.symm).2
        · exact sd.hself m hpkg prov hprov h
        · exact hpw.2.2 pr hpr prov (by simp) hvpr hn
    simp only [hfree]
    have hd2 : (done ++ [prov]) ++ rest = pkg.provides := by rw [← hd]; simp
    split
    · simp only [Option.bind_eq_bind, Option.bind_some]
      refine ih (done ++ [prov]) hd2 s ⟨?_, hs.own, hs.keep⟩
      intro n m h
      rcases hs.src n m h with h1 | ⟨h1, h2 | ⟨pr, hpr, h3⟩⟩
      · exact Or.inl h1
      · exact Or.inr ⟨h1, Or.inl h2⟩
      · exact Or.inr ⟨h1, Or.inr ⟨pr, List.mem_append_left _ hpr, h3⟩⟩
    · next hve =>
      simp only [Option.bind_eq_bind, Option.bind_some]
      refine ih (done ++ [prov]) hd2 _ ⟨?_, ?_, ?_⟩
      · intro n m h
        rw [lkp_setT] at h
        split at h
        · next e =>
          simp only [Option.some.injEq] at h
          refine Or.inr ⟨h.symm, Or.inr ⟨prov, by simp, e.symm, by simpa using hve⟩⟩
        · rcases hs.src n m h with h1 | ⟨h1, h2 | ⟨pr, hpr, h3⟩⟩
          · exact Or.inl h1
          · exact Or.inr ⟨h1, Or.inl h2⟩
          · exact Or.inr ⟨h1, Or.inr ⟨pr, List.mem_append_left _ hpr, h3⟩⟩
      · rw [lkp_setT]
        split
        · rfl
        · exact hs.own
      · intro n m h
        rw [lkp_setT]
        split
        · next e =>
          have hk := hs.keep n m h
          rw [e, hfree] at hk
          cases hk
        · exact hs.keep n m h

theorem pick_ok {c : Cfg} {S : List Pkg} (ctx : PCtx c S) (sd : PSide c S) {pkg : Pkg} (hpkg : pkg ∈ S)
    {sel : List (Text × Pkg)} (hsel : SelOK S sel) : ∃ sel2, pick pkg sel = some sel2 ∧ SelOK S sel2 := by
  unfold pick
  cases hl : lookupT sel pkg.name with
  | some conflict =>
    obtain ⟨h1, h2, _⟩ := hsel _ _ hl
    have : conflict = pkg := by
      rcases h2 with h2 | ⟨pr, hpr, hn, _⟩
      · exact sd.names conflict h1 pkg hpkg h2
      · exact absurd h1 (hb2 sd (ctx.sIn conflict h1) hpr hpkg hn).2
    subst this
    exact ⟨sel, by simp, hsel⟩
  | none =>
    simp only
    have h0 : PickInv S sel pkg [] (setT sel pkg.name pkg) := by
      refine ⟨?_, by rw [lkp_setT]; simp, ?_⟩
      · intro n m h
        rw [lkp_setT] at h
        split at h
        · next e => simp only [Option.some.injEq] at h; exact Or.inr ⟨h.symm, Or.inl e⟩
        · exact Or.inl h
      · intro n m h
        rw [lkp_setT]
        split
        · next e => rw [e, hl] at h; cases h
        · exact h
    obtain ⟨s2, hs2, hinv⟩ := pick_fold ctx sd hpkg hsel hl pkg.provides [] (by simp) _ h0
    refine ⟨s2, hs2, ?_⟩
    intro n m h
    rcases hinv.src n m h with h1 | ⟨rfl, h2⟩
    · obtain ⟨a, b, c2⟩ := hsel n m h1
      exact ⟨a, b, hinv.keep _ _ c2⟩
    · refine ⟨hpkg, ?_, hinv.own⟩
      rcases h2 with h2 | ⟨pr, hpr, hn, hv⟩
      · exact Or.inl h2.symm
      · exact Or.inr ⟨pr, hpr, hn, hv⟩

end Apko.LockP
