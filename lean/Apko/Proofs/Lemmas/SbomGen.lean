/-
Invariants carried through `copySBOMElements`, `ProcessInternalApkSBOM` and `Generate`'s apk loop (C11).
-/
import Apko.Proofs.Lemmas.SbomDoc

namespace Apko.Sbom
open Apko

/-! ### copyElements -/

theorem copyElements_spec {src tgt d : Doc} {t0 : List Id} (h : copyElements src tgt t0 = .ok d) :
    ∃ todo, ClosedUnder src.rels todo ∧ (∀ x ∈ t0, x ∈ todo) ∧
      (∀ t ∈ todo, ∃ p ∈ src.packages, p.id = t) ∧
      d.packages = tgt.packages ++ src.packages.filter (fun p => todo.contains p.id) ∧
      d.rels = tgt.rels ++ src.rels.filter (fun r => todo.contains r.element && !isFileRef r.related) ∧
      d.describes = tgt.describes ∧ d.lics = tgt.lics := by
  unfold copyElements at h
  split at h
  · cases h
  · next todo hc =>
    have hs := closure_spec hc (fun e => by
      have : t0 = [] := List.eq_nil_of_length_eq_zero e
      subst this
      intro r _ _ he; cases he)
    split at h
    · next hall =>
      cases h
      refine ⟨todo, hs.1, hs.2, ?_, rfl, rfl, rfl, rfl⟩
      intro t ht
      have := (List.all_eq_true.mp hall) t ht
      simpa using this
    · cases h

theorem copyElements_inv {src tgt d : Doc} {t0 : List Id} (hi : Inv tgt)
    (h : copyElements src tgt t0 = .ok d) :
    Inv d ∧ (∀ x ∈ t0, x ∈ d.ids) ∧ (∀ p ∈ d.packages, p ∈ tgt.packages ∨ p ∈ src.packages) ∧
      d.lics = tgt.lics := by
  obtain ⟨todo, hcl, hsub, hfound, hp, hr, hd, hl⟩ := copyElements_spec h
  have hin : ∀ t ∈ todo, t ∈ d.ids := by
    intro t ht
    obtain ⟨p, hp', rfl⟩ := hfound t ht
    simp only [Doc.ids, hp, List.map_append, List.mem_append, List.mem_map]
    right
    exact ⟨p, List.mem_filter.mpr ⟨hp', by simpa using ht⟩, rfl⟩
  have hold : ∀ i ∈ tgt.ids, i ∈ d.ids := by
    intro i hi'
    simp only [Doc.ids, hp, List.map_append, List.mem_append]
    exact Or.inl hi'
  refine ⟨⟨⟨?_, ?_⟩, by rw [hd]; exact hi.one⟩, fun x hx => hin x (hsub x hx), ?_, hl⟩
  · intro r hr'
    rw [hr] at hr'
    rcases List.mem_append.mp hr' with hr' | hr'
    · exact ⟨hold _ (hi.closed.1 r hr').1, hold _ (hi.closed.1 r hr').2⟩
    · have hf := List.mem_filter.mp hr'
      simp only [Bool.and_eq_true, Bool.not_eq_true'] at hf
      have he : r.element ∈ todo := by simpa using hf.2.1
      exact ⟨hin _ he, hin _ (hcl r hf.1 hf.2.2 he)⟩
  · intro i hi'
    rw [hd] at hi'
    exact hold _ (hi.closed.2 i hi')
  · intro p hp'
    rw [hp] at hp'
    rcases List.mem_append.mp hp' with hp' | hp'
    · exact Or.inl hp'
    · exact Or.inr (List.mem_filter.mp hp').1

/-! ### locate -/

theorem lookup_mem {α β} [BEq α] [LawfulBEq α] {l : List (α × β)} {k : α} {v : β}
    (h : l.lookup k = some v) : (k, v) ∈ l := by
  induction l with
  | nil => simp [List.lookup] at h
  | cons x xs ih =>
    obtain ⟨k', v'⟩ := x
    simp only [List.lookup] at h
    split at h
    · next e => cases h; have : k = k' := by simpa using e
                subst this; simp
    · exact List.mem_cons_of_mem _ (ih h)

theorem locate_mem {fs : SbomDir} {stems : List Text} {e : FsEntry} (h : locate fs stems = .ok (some e)) :
    ∃ s, (s, e) ∈ fs := by
  induction stems with
  | nil => simp [locate] at h
  | cons s rest ih =>
    simp only [locate] at h
    split at h
    · exact ih h
    · cases h
    · next e' _ hl => cases h; exact ⟨s, lookup_mem hl⟩

theorem locate_doc_embedded {fs : SbomDir} {stems : List Text} {emb : Doc}
    (h : locate fs stems = .ok (some (.doc emb))) : ∀ p ∈ emb.packages, p.id ∈ embeddedIds fs := by
  obtain ⟨s, hs⟩ := locate_mem h
  intro p hp
  simp only [embeddedIds, List.mem_flatMap]
  exact ⟨(s, .doc emb), hs, by simp [Doc.ids]; exact ⟨p, hp, rfl⟩⟩

/-! ### ProcessInternalApkSBOM -/

/-- what is needed of the map iteration order: it only yields target ids -/
def OrdOk (ord : List Id → List Id) : Prop := ∀ l x, x ∈ ord l → x ∈ l

/-- packages are only ever taken from the previous document or from an embedded SBOM -/
theorem processInternal_packages {fs : SbomDir} {ord : List Id → List Id} {doc d : Doc} {name version : Text}
    (h : processInternal fs ord doc name version = .ok d) :
    ∀ p ∈ d.packages, p ∈ doc.packages ∨ p.id ∈ embeddedIds fs := by
  unfold processInternal at h
  split at h
  · cases h
  · cases h; exact fun p hp => Or.inl hp
  · cases h; exact fun p hp => Or.inl hp
  · cases h; exact fun p hp => Or.inl hp
  · next emb hloc =>
    dsimp only at h
    split at h
    · cases h
    · next doc1 hcp =>
      split at h
      · cases h
      · next lics hl =>
        cases h
        intro p hp
        have hp1 := foldl_replaceRound_packages_sub _ hp
        have : p ∈ doc1.packages := hp1
        obtain ⟨todo, _, _, _, hpk, _, _, _⟩ := copyElements_spec hcp
        rw [hpk] at this
        rcases List.mem_append.mp this with hp | hp
        · exact Or.inl hp
        · exact Or.inr (locate_doc_embedded hloc p (List.mem_filter.mp hp).1)

theorem targets_le_one_all_eq {ts : List Id} (h : ts.length ≤ 1) :
    ∃ t, ∀ x ∈ ts, x = t := by
  match ts, h with
  | [], _ => exact ⟨[], fun x hx => by cases hx⟩
  | [t], _ => exact ⟨t, fun x hx => by simpa using hx⟩

theorem processInternal_inv {fs : SbomDir} {ord : List Id → List Id} {doc d : Doc} {name version : Text}
    (hord : OrdOk ord) (hi : Inv doc)
    (hone : ∀ emb, locate fs (sbomStems name version) = .ok (some (.doc emb)) → (targets emb name).length ≤ 1)
    (h : processInternal fs ord doc name version = .ok d) : Inv d := by
  unfold processInternal at h
  split at h
  · cases h
  · cases h; exact hi
  · cases h; exact hi
  · cases h; exact hi
  · next emb hloc =>
    dsimp only at h
    split at h
    · cases h
    · next doc1 hcp =>
      split at h
      · cases h
      · next lics hl =>
        cases h
        have hc := copyElements_inv hi hcp
        have hi1 : Inv { doc1 with lics := lics } := ⟨hc.1.closed, hc.1.one⟩
        obtain ⟨t, ht⟩ := targets_le_one_all_eq (hone emb hloc)
        by_cases hem : ord (targets emb name) = []
        · rw [hem]; exact hi1
        · obtain ⟨x, hx⟩ := List.exists_mem_of_ne_nil _ hem
          have hxt : x ∈ targets emb name := hord _ _ hx
          have hxe : x = t := ht x hxt
          subst hxe
          exact foldl_replaceRound_inv _ (fun y hy => ht y (hord _ _ hy)) hi1 (hc.2.1 x hxt)

/-! ### the apk loop -/

theorem append_pkg_inv {doc : Doc} (p : Pkg) (hi : Inv doc) :
    Inv { doc with packages := doc.packages ++ [p] } := by
  have hold : ∀ i ∈ doc.ids, i ∈ Doc.ids { doc with packages := doc.packages ++ [p] } := by
    intro i h; simp only [Doc.ids, List.map_append, List.mem_append]; exact Or.inl h
  exact ⟨⟨fun r hr => ⟨hold _ (hi.closed.1 r hr).1, hold _ (hi.closed.1 r hr).2⟩,
          fun i h => hold _ (hi.closed.2 i h)⟩, hi.one⟩

theorem addApks_inv {fs : SbomDir} {ord : List Id → List Id} {nonce : Text} (hord : OrdOk ord)
    (apks : List Apk) (hone : ∀ a ∈ apks, targetCount fs a ≤ 1) {doc d : Doc} (hi : Inv doc)
    (h : addApks fs ord nonce apks doc = .ok d) : Inv d := by
  induction apks generalizing doc with
  | nil => simp only [addApks] at h; cases h; exact hi
  | cons a as ih =>
    simp only [addApks] at h
    split at h
    · cases h
    · next doc' ha =>
      refine ih (fun b hb => hone b (by simp [hb])) ?_ h
      unfold addApk at ha
      refine processInternal_inv hord (append_pkg_inv _ hi) ?_ ha
      intro emb hloc
      have := hone a (by simp)
      unfold targetCount at this
      rw [hloc] at this
      exact this

/-- provenance of identifiers: valid `SPDXRef-…` or taken from an embedded SBOM -/
def GoodIds (fs : SbomDir) (d : Doc) : Prop :=
  ∀ p ∈ d.packages, validSpdxId p.id = true ∨ p.id ∈ embeddedIds fs

theorem apkId_valid (nonce : Text) (a : Apk) : validSpdxId (apkId nonce a) = true := by
  unfold apkId
  have e : pfx ++ nonce ++ ('-' :: a.name ++ '-' :: a.version) =
      pfx ++ (nonce ++ ('-' :: a.name ++ '-' :: a.version)) := List.append_assoc _ _ _
  simp only [List.append_assoc] at e ⊢
  rw [sti_pfx_append]
  exact validSpdxId_pfx (sti_alphabet _)

theorem addApks_goodIds {fs : SbomDir} {ord : List Id → List Id} {nonce : Text}
    (apks : List Apk) {doc d : Doc} (hg : GoodIds fs doc)
    (h : addApks fs ord nonce apks doc = .ok d) : GoodIds fs d := by
  induction apks generalizing doc with
  | nil => simp only [addApks] at h; cases h; exact hg
  | cons a as ih =>
    simp only [addApks] at h
    split at h
    · cases h
    · next doc' ha =>
      refine ih ?_ h
      unfold addApk at ha
      intro p hp
      rcases processInternal_packages ha p hp with hp | hp
      · rcases List.mem_append.mp hp with hp | hp
        · exact hg p hp
        · simp only [List.mem_singleton] at hp
          subst hp
          exact Or.inl (apkId_valid nonce a)
      · exact Or.inr hp

/-! ### the header -/

theorem imageId_eq (digest : Text) : imageId digest = pfx ++ stringToIdentifier digest := sti_pfx_append _

theorem imageId_valid (digest : Text) : validSpdxId (imageId digest) = true := by
  rw [imageId_eq]; exact validSpdxId_pfx (sti_alphabet _)

theorem layerId_valid (l : Text) : validSpdxId (layerId l) = true := validSpdxId_pfx (sti_alphabet _)

theorem sourceId_valid (v : Text) : validSpdxId (sourceId v) = true := validSpdxId_pfx (sti_alphabet _)

theorem header_goodIds (fs : SbomDir) (o : Opts) : GoodIds fs (header o) := by
  intro p hp
  left
  unfold header at hp
  split at hp
  · simp only [layerPackages, List.mem_map] at hp
    obtain ⟨l, _, rfl⟩ := hp
    exact layerId_valid l
  · split at hp
    · simp only [List.mem_cons, layerPackages, List.mem_map] at hp
      rcases hp with rfl | ⟨l, _, rfl⟩
      · exact imageId_valid _
      · exact layerId_valid l
    · simp only [addSourcePackage, List.mem_append, List.mem_cons, layerPackages, List.mem_map,
        List.not_mem_nil, or_false] at hp
      rcases hp with (rfl | ⟨l, _, rfl⟩) | rfl
      · exact imageId_valid _
      · exact layerId_valid l
      · exact sourceId_valid _

/-- image + layers, before the source element -/
def headerBase (o : Opts) : Doc :=
  { describes := [imageId o.imageDigest],
    packages := imagePackage o.imageDigest :: layerPackages o,
    rels := o.layers.map (fun l => (⟨imageId o.imageDigest, "CONTAINS".toList, layerId l⟩ : Rel)),
    lics := [] }

theorem header_image {o : Opts} (h : o.imageDigest.isEmpty = false) :
    header o = if o.vcsUrl.isEmpty then headerBase o
               else addSourcePackage o.vcsUrl (headerBase o) (imageId o.imageDigest) := by
  unfold header
  rw [if_neg (by rw [h]; exact Bool.false_ne_true)]
  rfl

theorem headerBase_inv (o : Opts) : Inv (headerBase o) := by
  refine ⟨⟨?_, ?_⟩, by simp [headerBase]⟩
  · intro r hr
    simp only [headerBase, List.mem_map] at hr
    obtain ⟨l, hl, rfl⟩ := hr
    simp only [headerBase, Doc.ids, List.map_cons, List.mem_cons, layerPackages, List.map_map, List.mem_map]
    exact ⟨Or.inl rfl, Or.inr ⟨l, hl, rfl⟩⟩
  · intro i hi
    simp only [headerBase, List.mem_singleton] at hi
    subst hi
    simp [headerBase, Doc.ids, imagePackage]

theorem addSourcePackage_inv {d : Doc} (vcs : Text) {parent : Id} (hi : Inv d) (hp : parent ∈ d.ids) :
    Inv (addSourcePackage vcs d parent) := by
  have hold : ∀ i ∈ d.ids, i ∈ (addSourcePackage vcs d parent).ids := by
    intro i h; simp only [addSourcePackage, Doc.ids, List.map_append, List.mem_append]; exact Or.inl h
  refine ⟨⟨?_, ?_⟩, hi.one⟩
  · intro r hr
    simp only [addSourcePackage] at hr
    rcases List.mem_append.mp hr with hr | hr
    · exact ⟨hold _ (hi.closed.1 r hr).1, hold _ (hi.closed.1 r hr).2⟩
    · simp only [List.mem_singleton] at hr
      subst hr
      refine ⟨hold _ hp, ?_⟩
      simp [addSourcePackage, Doc.ids, sourcePackage]
  · intro i h
    exact hold _ (hi.closed.2 i h)

theorem header_inv (o : Opts) : Inv (header o) := by
  cases he : o.imageDigest.isEmpty
  · rw [header_image he]
    split
    · exact headerBase_inv o
    · exact addSourcePackage_inv _ (headerBase_inv o) (by simp [headerBase, Doc.ids, imagePackage])
  · unfold header
    simp only [he, if_true]
    refine ⟨⟨fun r hr => (by cases hr), ?_⟩, ?_⟩
    · intro i hi
      simp only at hi
      split at hi
      · next l hl =>
        simp only [List.mem_singleton] at hi
        subst hi
        simp only [Doc.ids, layerPackages, List.map_map, List.mem_map]
        exact ⟨l, List.mem_of_getLast? hl, rfl⟩
      · cases hi
    · simp only; split <;> simp

end Apko.Sbom
