import Apko.Proofs.Lemmas.AccountsWF
import Apko.Proofs.Lemmas.AccountsHomes
/-! C13, the two goroutines of `mutateAccounts`: what one of them does to the *content* of its file
(`FS.modify g F` with a content-only transformer `F`) commutes with every file-system operation of the
home-directory loop of the other (`Stat`, `MkdirAll`, `Mkdir`, `Chown`): those neither read nor write
content, and what they add to the graph does not depend on it. -/
namespace Apko.Accounts
open Apko Apko.Path Apko.FS Apko.Formats

/-- a transformer of a node's content: it reads `data`, `mat`, `te` and writes `data`, `mat` only -/
def DataOnly (F : Inode → Inode) : Prop :=
  ∃ (fd : Text → Bool → Option TarEntry → Text) (fm : Text → Bool → Option TarEntry → Bool),
    ∀ n : Inode, F n = { n with data := fd n.data n.mat n.te, mat := fm n.data n.mat n.te }

theorem FS.ext_nodes {a b : FS} (hl : a.nodes.length = b.nodes.length) (hn : ∀ j, a.node j = b.node j)
    (hh : a.handles = b.handles) : a = b := by
  cases a with
  | mk an ah =>
    cases b with
    | mk bn bh =>
      simp only at hl hh
      subst hh
      congr 1
      apply List.ext_getElem hl
      intro i h1 h2
      have := hn i
      simp only [FS.node, List.getD_eq_getElem?_getD, List.getElem?_eq_getElem h1, List.getElem?_eq_getElem h2,
        Option.getD_some] at this
      exact this

theorem handles_modify (fs : FS) (i : Nat) (f : Inode → Inode) : (fs.modify i f).handles = fs.handles := rfl

theorem DataOnly.shape {F : Inode → Inode} (hF : DataOnly F) (fs : FS) (g : Ino) : ShapeEq fs (fs.modify g F) := by
  obtain ⟨fd, fm, hF⟩ := hF
  exact ShapeEq.modify fs g F (by intro n; rw [hF]) (by intro n; rw [hF]) (by rw [hF]; rfl)
    (by intro n; rw [hF])

/-- two node transformers that commute pointwise commute as updates of the graph -/
theorem modify_comm (fs : FS) (g i : Nat) (f1 f2 : Inode → Inode) (hc : ∀ n, f2 (f1 n) = f1 (f2 n)) :
    (fs.modify g f1).modify i f2 = (fs.modify i f2).modify g f1 := by
  apply FS.ext_nodes
  · simp
  · intro j
    simp only [node_modify, length_modify]
    by_cases hji : j = i <;> by_cases hjg : j = g <;> by_cases hil : i < fs.nodes.length <;>
      by_cases hgl : g < fs.nodes.length <;> simp_all
  · rfl

/-- updates of two different nodes commute -/
theorem modify_comm_ne (fs : FS) (g i : Nat) (f1 f2 : Inode → Inode) (hne : g ≠ i) :
    (fs.modify g f1).modify i f2 = (fs.modify i f2).modify g f1 := by
  apply FS.ext_nodes
  · simp
  · intro j
    simp only [node_modify, length_modify]
    by_cases hji : j = i <;> by_cases hjg : j = g <;> simp_all
  · rfl

/-- entering a new node commutes with a content update of an old one -/
theorem create_modify (fs : FS) (g : Nat) (F : Inode → Inode) (hF : DataOnly F) (hg : g < fs.nodes.length)
    (pi : Nat) (b : Name) (nd : Inode) (hd : (fs.node pi).dir = true) :
    ((fs.modify g F).create pi b nd).1 = (fs.create pi b nd).1.modify g F := by
  have hsh := hF.shape fs g
  have hd' : ((fs.modify g F).node pi).dir = true := by rw [hsh.dir]; exact hd
  have hpl : pi < fs.nodes.length := dir_lt fs pi hd
  have hlen : (fs.modify g F).nodes.length = fs.nodes.length := length_modify fs g F
  obtain ⟨fd, fm, hFe⟩ := hF
  apply FS.ext_nodes
  · simp [length_create]
  · intro (j : Nat)
    by_cases hjn : j = fs.nodes.length
    · have e1 : ((fs.modify g F).create pi b nd).1.node j = nd := by
        rw [hjn, ← hlen]; exact node_create_new _ pi b nd hd'
      have e2 : (fs.create pi b nd).1.node j = nd := by rw [hjn]; exact node_create_new fs pi b nd hd
      rw [e1, node_modify, e2]
      have : ¬ (j = g ∧ g < (fs.create pi b nd).1.nodes.length) := by intro h; omega
      simp only [this, if_false]
    · have r1 : ((fs.create pi b nd).1.modify g F).node j =
          if j = g ∧ g < fs.nodes.length + 1 then F ((fs.create pi b nd).1.node g)
          else (fs.create pi b nd).1.node j := by rw [node_modify, length_create]
      by_cases hjp : j = pi
      · have e1 : ((fs.modify g F).create pi b nd).1.node j =
            { (fs.modify g F).node pi with
              children := setChild ((fs.modify g F).node pi).children b (fs.modify g F).nodes.length } := by
          rw [hjp]; exact node_create_parent _ pi b nd hd'
        have e2 : (fs.create pi b nd).1.node j =
            { fs.node pi with children := setChild (fs.node pi).children b fs.nodes.length } := by
          rw [hjp]; exact node_create_parent fs pi b nd hd
        rw [e1, r1]
        by_cases hpg : pi = g
        · have c1 : pi = g ∧ g < fs.nodes.length := ⟨hpg, hg⟩
          have c2 : j = g ∧ g < fs.nodes.length + 1 := ⟨hjp.trans hpg, by omega⟩
          have e3 : (fs.create pi b nd).1.node g =
              { fs.node pi with children := setChild (fs.node pi).children b fs.nodes.length } := by
            rw [← hpg]; exact node_create_parent fs pi b nd hd
          have e4 : (fs.modify g F).node pi = F (fs.node pi) := by rw [node_modify, if_pos c1, hpg]
          rw [if_pos c2, e3, e4, hlen, hFe, hFe]
        · have c1 : ¬ (pi = g ∧ g < fs.nodes.length) := fun h => hpg h.1
          have c2 : ¬ (j = g ∧ g < fs.nodes.length + 1) := fun h => hpg (hjp.symm.trans h.1)
          have e4 : (fs.modify g F).node pi = fs.node pi := by rw [node_modify, if_neg c1]
          rw [if_neg c2, e2, e4, hlen]
      · have e1 : ((fs.modify g F).create pi b nd).1.node j = (fs.modify g F).node j :=
          node_create_other _ pi j b nd hjp (by rw [hlen]; exact hjn)
        have e2 : (fs.create pi b nd).1.node j = fs.node j := node_create_other fs pi j b nd hjp hjn
        rw [e1, r1]
        by_cases hjg : j = g
        · have c1 : j = g ∧ g < fs.nodes.length := ⟨hjg, hg⟩
          have c2 : j = g ∧ g < fs.nodes.length + 1 := ⟨hjg, by omega⟩
          have e4 : (fs.modify g F).node j = F (fs.node g) := by rw [node_modify, if_pos c1]
          rw [if_pos c2, e4, ← hjg, e2]
        · have c1 : ¬ (j = g ∧ g < fs.nodes.length) := fun h => hjg h.1
          have c2 : ¬ (j = g ∧ g < fs.nodes.length + 1) := fun h => hjg h.1
          rw [if_neg c2, e2, node_modify, if_neg c1]
  · rfl

theorem lookup_modify_data {F : Inode → Inode} (hF : DataOnly F) (fs : FS) (g d : Ino) (n : Name) :
    (fs.modify g F).lookup d n = fs.lookup d n := by
  simp only [FS.lookup, (hF.shape fs g).children d]

/-! ### the operations of the home-directory loop -/

theorem chown_modify (c : Cfg) (fs : FS) (g : Ino) (F : Inode → Inode) (hF : DataOnly F) (p : Text) (uid gid : Int) :
    step c (fs.modify g F) (.chown p uid gid) =
      ((step c fs (.chown p uid gid)).1.modify g F, (step c fs (.chown p uid gid)).2) := by
  simp only [step, getNode_shape (hF.shape fs g)]
  cases getNode c fs p with
  | error e => rfl
  | ok i =>
    simp only [Prod.mk.injEq, and_true]
    obtain ⟨fd, fm, hFe⟩ := hF
    exact modify_comm fs g i F _ (by intro n; rw [hFe, hFe])

theorem mkdir_modify (c : Cfg) (fs : FS) (g : Nat) (F : Inode → Inode) (hF : DataOnly F) (hg : g < fs.nodes.length)
    (hb : DirBit fs) (p : Text) (perm : Nat) :
    step c (fs.modify g F) (.mkdir p perm) =
      ((step c fs (.mkdir p perm)).1.modify g F, (step c fs (.mkdir p perm)).2) := by
  have hsh := hF.shape fs g
  simp only [step, parentOf, getNode_shape hsh]
  cases getNode c fs (dir p) with
  | error e => rfl
  | ok pi =>
    have hmode : ((fs.modify g F).node pi).mode = (fs.node pi).mode := by
      obtain ⟨fd, fm, hFe⟩ := hF
      rw [node_modify]; split
      · rename_i h; rw [h.1, hFe]
      · rfl
    simp only [hmode, lookup_modify_data hF]
    by_cases hbit : (fs.node pi).mode.testBit 31 = true
    · simp only [hbit, Bool.not_true, Bool.false_eq_true, if_false]
      split
      · rfl
      · split
        · rfl
        · simp only [Prod.mk.injEq, and_true]
          exact create_modify fs g F hF hg pi _ _ (hb pi hbit)
    · simp [hbit]

theorem stat_modify (c : Cfg) (fs : FS) (g : Ino) (F : Inode → Inode) (hF : DataOnly F) (p : Text) :
    (match (step c (fs.modify g F) (.stat p)).2 with
     | .ok (.stat s) => (some s.isDir, none)
     | .err e => (none, some e)
     | _ => (none, none)) =
    (match (step c fs (.stat p)).2 with
     | .ok (.stat s) => (some s.isDir, none)
     | .err e => (none, some e)
     | _ => (none, (none : Option Err))) := by
  have hsh := hF.shape fs g
  simp only [step, getNode_shape hsh]
  cases getNode c fs p with
  | error e => rfl
  | ok i => simp only [statOf, hsh.dir i]

/-- the rest of an iteration of `MkdirAll`'s loop as a function of the resolved position -/
def tailOf (c : Cfg) (mode : Nat) (rest tr : List Name) (part : Name) (fsk : FS) (r : Except Err Pos) : FS × Option Err :=
  match r with
  | .error e => (fsk, some e)
  | .ok p =>
    if !(fsk.node p.ino).dir then (fsk, some .pathNotDir)
    else mkdirAllLoop c mode rest fsk p (tr ++ [part])

theorem mkdirAllTail_eq (c : Cfg) (mode : Nat) (rest tr : List Name) (part : Name) (at_ : Pos) (fsk : FS) (nn : Ino) :
    mkdirAllTail c mode rest tr part at_ fsk nn =
      tailOf c mode rest tr part fsk
        (if (fsk.node nn).isSymlink then
          resolveFrom c fsk at_.stack (linkDest c (joinNames tr) (fsk.node nn).target)
         else .ok { ino := nn, stack := nn :: at_.stack }) := rfl

theorem mkdirAllLoop_modify (c : Cfg) (mode : Nat) (g : Nat) (F : Inode → Inode) (hF : DataOnly F) :
    ∀ (ps : List Name) (fs : FS) (at_ : Pos) (tr : List Name), g < fs.nodes.length → (fs.node at_.ino).dir = true →
      mkdirAllLoop c mode ps (fs.modify g F) at_ tr =
        ((mkdirAllLoop c mode ps fs at_ tr).1.modify g F, (mkdirAllLoop c mode ps fs at_ tr).2) := by
  intro ps
  induction ps with
  | nil => intro fs at_ tr _ _; rfl
  | cons part rest ih =>
    intro fs at_ tr hg hd
    rw [mkdirAllLoop_cons, mkdirAllLoop_cons, lookup_modify_data hF]
    -- the tail, from a state of the form `fsk.modify g F`
    have tail : ∀ (fsk : FS) (nn : Ino), g < fsk.nodes.length →
        mkdirAllTail c mode rest tr part at_ (fsk.modify g F) nn =
          ((mkdirAllTail c mode rest tr part at_ fsk nn).1.modify g F, (mkdirAllTail c mode rest tr part at_ fsk nn).2) := by
      intro fsk nn hgk
      have hsh := hF.shape fsk g
      have key : ∀ r : Except Err Pos, tailOf c mode rest tr part (fsk.modify g F) r =
          ((tailOf c mode rest tr part fsk r).1.modify g F, (tailOf c mode rest tr part fsk r).2) := by
        intro r
        cases r with
        | error e => rfl
        | ok p =>
          simp only [tailOf, hsh.dir p.ino]
          by_cases hpd : (fsk.node p.ino).dir = true
          · simp only [hpd, Bool.not_true, Bool.false_eq_true, if_false]; exact ih fsk p _ hgk hpd
          · simp [hpd]
      rw [mkdirAllTail_eq, mkdirAllTail_eq, hsh.sym nn, hsh.target nn, resolveFrom_shape hsh]
      exact key _
    cases hl : fs.lookup at_.ino part with
    | some x => exact tail fs x hg
    | none =>
      simp only []
      have hcm := create_modify fs g F hF hg at_.ino part (newDir mode) hd
      have h2 : ((fs.modify g F).create at_.ino part (newDir mode)).2 = (fs.create at_.ino part (newDir mode)).2 := by
        simp [create_ino]
      rw [hcm, h2]
      exact tail _ _ (by rw [length_create]; omega)

theorem mkdirAll_modify (c : Cfg) (fs : FS) (g : Nat) (F : Inode → Inode) (hF : DataOnly F)
    (hg : g < fs.nodes.length) (hi : FS.Inv fs) (p : Text) (perm : Nat) :
    step c (fs.modify g F) (.mkdirAll p perm) =
      ((step c fs (.mkdirAll p perm)).1.modify g F, (step c fs (.mkdirAll p perm)).2) := by
  simp only [step, mkdirAll]
  split
  · rfl
  · rw [mkdirAllLoop_modify c _ g F hF _ fs { ino := 0 } [] hg hi.root]
    cases mkdirAllLoop c (modeDir ||| perm) (List.filter (fun x => decide (x ≠ dot)) (parts p)) fs { ino := 0 } [] with
    | mk f e => cases e <;> rfl

end Apko.Accounts
