/-
The invariant behind `relock_fixpoint_partial` (C09): in a universe without `provides` and `install_if`, once every
non-member package that carries a member's name is disqualified (`Locked`, established by `constrain_locks`),
every package the resolver picks — at the top level and anywhere in `getPackageDependencies` — is a member.
-/
import Apko.Proofs.Lemmas.Relock

namespace Apko.Lock
open Apko Apko.Resolver

structure Ctx (c : Cfg) (S : List Pkg) : Prop where
  noprov : ∀ q ∈ c.u.all, q.provides = []
  noiif : ∀ q ∈ c.u.all, q.installIf = []
  sIn : ∀ p ∈ S, p ∈ c.u.all
  closed : ∀ p ∈ S, ∀ d ∈ p.deps, isConflict d = false → ∃ q ∈ S, sat q d = true

/-- every non-member that carries a member's name is disqualified -/
def Locked (c : Cfg) (S : List Pkg) (dq : List Nat) : Prop :=
  ∀ x ∈ c.u.all, (∃ p ∈ S, p.name = x.name) → x ∉ S → dq.contains x.id = true

theorem Locked.mono {c : Cfg} {S : List Pkg} {dq dq' : List Nat} (h : Locked c S dq) (hs : dqSub dq dq') :
    Locked c S dq' := fun x hx hn hns => hs _ (h x hx hn hns)

theorem nameMap_noprov (u : Universe) (order : List Text) (name : Text) (h : ∀ q ∈ u.all, q.provides = []) :
    nameMap u order name = u.all.filter (·.name = name) := by
  unfold nameMap
  have : (order.flatMap fun n => (u.all.filter (·.name = n)).flatMap fun p =>
      (p.provides.filter (fun pr => provName pr = name)).map fun _ => p) = [] := by
    rw [List.flatMap_eq_nil_iff]
    intro n _
    rw [List.flatMap_eq_nil_iff]
    intro p hp
    have := h p (List.mem_filter.mp hp).1
    simp [this]
  rw [this, List.append_nil]

theorem candidate_in {c : Cfg} {S : List Pkg} (ctx : Ctx c S) {dq : List Nat} {name ver : Text} {dep : Dep}
    {allow prefer : Text} {inst : Option Pkg} {x : Pkg}
    (hx : x ∈ filterPackages (c.nm name) dq ver dep allow prefer inst) :
    x ∈ c.u.all ∧ x.name = name ∧ dq.contains x.id = false := by
  obtain ⟨hdq, hnm⟩ := C02.filter_excludes_dq hx
  unfold Cfg.nm at hnm
  rw [nameMap_noprov _ _ _ ctx.noprov] at hnm
  obtain ⟨hu, hn⟩ := List.mem_filter.mp hnm
  exact ⟨hu, by simpa using hn, hdq⟩

theorem candidate_member {c : Cfg} {S : List Pkg} (ctx : Ctx c S) {dq : List Nat} (hl : Locked c S dq)
    {name ver : Text} {dep : Dep} {allow prefer : Text} {inst : Option Pkg} (hname : ∃ p ∈ S, p.name = name)
    {x : Pkg} (hx : x ∈ filterPackages (c.nm name) dq ver dep allow prefer inst) : x ∈ S := by
  obtain ⟨hu, hn, hdq⟩ := candidate_in ctx hx
  by_cases hs : x ∈ S
  · exact hs
  · obtain ⟨p, hp, e⟩ := hname
    have := hl x hu ⟨p, hp, e.trans hn.symm⟩ hs
    rw [this] at hdq
    cases hdq

theorem sat_noprov (q : Pkg) (d : Text) (hp : q.provides = []) (h : sat q d = true) :
    q.name = (parseConstraint d).name := by
  unfold sat at h
  simp only [hp, List.any_nil, Bool.or_false, Bool.and_eq_true, decide_eq_true_eq] at h
  exact h.1

theorem depOption_options (c : Cfg) (pkg : Pkg) (allowPin : Text) (ds : DepSt) (dep d : Text) (pkgs : List Pkg)
    (h : depOption c pkg allowPin ds dep = .options d pkgs) :
    d = dep ∧ isConflict dep = false ∧
    pkgs = filterPackages (c.nm (parseConstraint dep).name) ds.st.dq (parseConstraint dep).version
        (parseConstraint dep).dep allowPin [] (lookupT ds.existing (parseConstraint dep).name) := by
  unfold depOption at h
  split at h
  · cases h
  · next hnc =>
    have hc : isConflict dep = false := by
      unfold isConflict
      split
      · next x => exact absurd rfl (hnc x)
      · rfl
    simp only at h
    repeat' split at h
    all_goals cases h
    all_goals exact ⟨rfl, hc, rfl⟩

theorem mem_setT {α} (m : List (Text × α)) (k : Text) (v : α) (e : Text × α) (h : e ∈ setT m k v) :
    e = (k, v) ∨ e ∈ m := by
  unfold setT at h
  split at h
  · obtain ⟨e0, he0, rfl⟩ := List.mem_map.mp h
    split
    · exact Or.inl rfl
    · exact Or.inr he0
  · rcases List.mem_append.mp h with h | h
    · exact Or.inr h
    · exact Or.inl (by simpa using h)

/-- what one pass of the dependency loop records in `opts` -/
def OptsOK (c : Cfg) (allowPin : Text) (ds : DepSt) (constraints : List Text) (opts : List (Text × List Pkg)) : Prop :=
  ∀ e ∈ opts, e.1 ∈ constraints ∧ isConflict e.1 = false ∧
    e.2 = filterPackages (c.nm (parseConstraint e.1).name) ds.st.dq (parseConstraint e.1).version
      (parseConstraint e.1).dep allowPin [] (lookupT ds.existing (parseConstraint e.1).name)

theorem foldl_opts (c : Cfg) (pkg : Pkg) (allowPin : Text) (ds : DepSt) (constraints : List Text)
    (step : Option (List (Text × List Pkg) × List Text × List String) → Text →
      Option (List (Text × List Pkg) × List Text × List String))
    (hnone : ∀ dep, step none dep = none)
    (hsome : ∀ o cf fl dep o' cf' fl', step (some (o, cf, fl)) dep = some (o', cf', fl') →
      o' = o ∨ ∃ d pkgs, depOption c pkg allowPin ds dep = .options d pkgs ∧ o' = setT o d pkgs) :
    ∀ (cs : List Text) (o : List (Text × List Pkg)) (cf : List Text) (fl : List String)
      (o' : List (Text × List Pkg)) (cf' : List Text) (fl' : List String),
      (∀ d ∈ cs, d ∈ constraints) → OptsOK c allowPin ds constraints o →
      cs.foldl step (some (o, cf, fl)) = some (o', cf', fl') → OptsOK c allowPin ds constraints o' := by
  intro cs
  induction cs with
  | nil =>
    intro o cf fl o' cf' fl' _ ho h
    simp only [List.foldl_nil, Option.some.injEq, Prod.mk.injEq] at h
    exact h.1 ▸ ho
  | cons dep cs ih =>
    intro o cf fl o' cf' fl' hcs ho h
    simp only [List.foldl_cons] at h
    cases hs : step (some (o, cf, fl)) dep with
    | none =>
      rw [hs] at h
      have : ∀ l : List Text, l.foldl step none = none := by
        intro l; induction l with
        | nil => rfl
        | cons x xs ihx => simp only [List.foldl_cons, hnone, ihx]
      rw [this] at h
      cases h
    | some t =>
      obtain ⟨o1, cf1, fl1⟩ := t
      rw [hs] at h
      refine ih o1 cf1 fl1 o' cf' fl' (fun d hd => hcs d (List.mem_cons_of_mem _ hd)) ?_ h
      rcases hsome o cf fl dep o1 cf1 fl1 hs with rfl | ⟨d, pkgs, hopt, rfl⟩
      · exact ho
      · obtain ⟨hd, hc, hp⟩ := depOption_options c pkg allowPin ds dep d pkgs hopt
        intro e he
        rcases mem_setT _ _ _ _ he with rfl | he'
        · subst hd
          exact ⟨hcs _ List.mem_cons_self, hc, hp⟩
        · exact ho e he'

theorem lowestOption_mem (opts : List (Text × List Pkg)) (x : Text × List Pkg)
    (h : lowestOption opts = some x) : x ∈ opts := by
  cases opts with
  | nil => simp [lowestOption] at h
  | cons a as =>
    simp only [lowestOption, Option.some.injEq] at h
    subst h
    suffices ∀ (ys : List (Text × List Pkg)) (m : Text × List Pkg),
        ys.foldl (fun m y => if y.2.length < m.2.length then y
          else if y.2.length = m.2.length && y.1 < m.1 then y else m) m ∈ m :: ys from this as a
    intro ys
    induction ys with
    | nil => intro m; simp
    | cons y ys ih =>
      intro m
      simp only [List.foldl_cons]
      have := ih (if y.2.length < m.2.length then y else if y.2.length = m.2.length && y.1 < m.1 then y else m)
      rcases List.mem_cons.mp this with h | h
      · rw [h]
        split
        · simp
        · split <;> simp
      · exact List.mem_cons_of_mem _ (List.mem_cons_of_mem _ h)

theorem flag_dq (s : St) (f : String) : (s.flag f).dq = s.dq := by
  unfold St.flag; split <;> rfl

theorem ite_flag_dq (b : Prop) [Decidable b] (s : St) (f : String) : (if b then s.flag f else s).dq = s.dq := by
  split
  · exact flag_dq s f
  · rfl

theorem foldl_flag_dq (fl : List String) (s : St) : (fl.foldl St.flag s).dq = s.dq := by
  induction fl generalizing s with
  | nil => rfl
  | cons f fl ih => simp only [List.foldl_cons, ih, flag_dq]

theorem disqualifyConflicts_noprov (c : Cfg) (pkg : Pkg) (dq : List Nat) (h : pkg.provides = []) :
    disqualifyConflicts c pkg dq = some dq := by
  unfold disqualifyConflicts
  rw [h]
  rfl

/-- the property carried through the dependency resolution -/
def Good (c : Cfg) (S : List Pkg) (out : DepOut) : Prop :=
  (∀ d ∈ out.deps, d ∈ S) ∧ Locked c S out.ds.st.dq

theorem depLoop_inv {c : Cfg} {S : List Pkg} (ctx : Ctx c S)
    (rec : Pkg → List (Text × Nat) → DepSt → Res DepOut)
    (hrec : ∀ best ps ds out, best ∈ S → Locked c S ds.st.dq → rec best ps ds = .ok out → Good c S out)
    (pkg : Pkg) (hpkg : pkg ∈ S) (allowPin : Text) (parents : List (Text × Nat)) :
    ∀ (fuel : Nat) (constraints : List Text) (acc out : DepOut),
      (∀ d ∈ constraints, d ∈ pkg.deps) → Good c S acc →
      depLoop c rec pkg allowPin parents fuel constraints acc = .ok out → Good c S out := by
  intro fuel
  induction fuel with
  | zero => intro constraints acc out _ _ h; simp [depLoop] at h
  | succ fuel ih =>
    intro constraints acc out hcs hacc h
    rw [depLoop] at h
    split at h
    · simp only [Res.ok.injEq] at h; exact h ▸ hacc
    · simp only at h
      split at h
      · cases h
      · next opts confs fl hfold =>
        have hopts : OptsOK c allowPin acc.ds constraints opts := by
          refine foldl_opts c pkg allowPin acc.ds constraints _ ?_ ?_ constraints [] _ [] opts confs fl
            (fun d hd => hd) (by intro e he; cases he) hfold
          · intro dep; rfl
          · intro o cf fl0 dep o' cf' fl' hs
            simp only at hs
            split at hs
            · simp only [Option.some.injEq, Prod.mk.injEq] at hs; exact Or.inl hs.1.symm
            · simp only [Option.some.injEq, Prod.mk.injEq] at hs; exact Or.inl hs.1.symm
            · simp only [Option.some.injEq, Prod.mk.injEq] at hs; exact Or.inl hs.1.symm
            · cases hs
            · next d pkgs hopt =>
              simp only [Option.some.injEq, Prod.mk.injEq] at hs
              exact Or.inr ⟨d, pkgs, hopt, hs.1.symm⟩
        have hlk : Locked c S (fl.foldl St.flag acc.ds.st).dq := by rw [foldl_flag_dq]; exact hacc.2
        split at h
        · simp only [Res.ok.injEq] at h
          rw [← h]
          exact ⟨hacc.1, hlk⟩
        · next lowest pkgs hlow =>
          obtain ⟨hlc, hnc, hpk⟩ := hopts _ (lowestOption_mem _ _ hlow)
          simp only at hlc hnc hpk
          split at h
          · cases h
          · next best hbest =>
            have hbmem : best ∈ pkgs := C02.minFunc_mem hbest
            -- the dependency is satisfied by a member, which (no provides) carries the dependency's name
            obtain ⟨q, hqS, hsat⟩ := ctx.closed pkg hpkg lowest (hcs _ hlc) hnc
            have hqn := sat_noprov q lowest (ctx.noprov q (ctx.sIn q hqS)) hsat
            rw [hpk] at hbmem
            have hbS : best ∈ S := candidate_member ctx hacc.2 ⟨q, hqS, hqn⟩ hbmem
            have hbprov : best.provides = [] := ctx.noprov best (ctx.sIn best hbS)
            rw [disqualifyConflicts_noprov c best _ hbprov] at h
            simp only at h
            split at h
            · cases h
            · next sel1 _ =>
              split at h
              · cases h
              · cases h
              · next sub hsub =>
                have hgsub : Good c S sub := hrec best _ _ sub hbS (by simpa using hlk) hsub
                refine ih _ _ out ?_ ?_ h
                · intro d hd
                  have hd' := (List.mem_filter.mp hd).1
                  obtain ⟨e, he, rfl⟩ := List.mem_map.mp hd'
                  exact hcs _ (hopts e he).1
                · refine ⟨?_, hgsub.2⟩
                  intro d hd
                  simp only [List.mem_append, List.mem_singleton] at hd
                  rcases hd with (hd | hd) | rfl
                  · exact hacc.1 d hd
                  · exact hgsub.1 d hd
                  · exact hbS

theorem getDeps_inv {c : Cfg} {S : List Pkg} (ctx : Ctx c S) :
    ∀ (fuel : Nat) (pkg : Pkg) (allowPin : Text) (parents : List (Text × Nat)) (ds : DepSt) (out : DepOut),
      pkg ∈ S → Locked c S ds.st.dq → getDeps c fuel pkg allowPin parents ds = .ok out → Good c S out := by
  intro fuel
  induction fuel with
  | zero => intro pkg allowPin parents ds out _ _ h; simp [getDeps] at h
  | succ fuel ih =>
    intro pkg allowPin parents ds out hpkg hl h
    rw [getDeps] at h
    split at h
    · simp only [Res.ok.injEq] at h
      rw [← h]
      refine ⟨(by intro d hd; cases hd), ?_⟩
      simp only
      split
      · simpa [flag_dq] using hl
      · exact hl
    · split at h
      · cases h
      · next dq1 hcon =>
        simp only at h
        refine depLoop_inv ctx _ (fun best ps ds' out' hb hl' hr => ih best allowPin ps ds' out' hb hl' hr)
          pkg hpkg allowPin parents _ _ _ out (fun d hd => hd) ⟨(by intro d hd; cases hd), ?_⟩ h
        exact hl.mono (constrain_sub c _ _ _ hcon)

/-! ### the top level -/

theorem installIfMap_nil (u : Universe) (key : Text) (h : ∀ q ∈ u.all, q.installIf = []) : installIfMap u key = [] := by
  unfold installIfMap
  rw [List.flatMap_eq_nil_iff]
  intro p hp
  simp [h p hp]

theorem installIfStep_id {c : Cfg} {S : List Pkg} (ctx : Ctx c S) (deps : List Pkg) (dep : Pkg) :
    installIfStep c deps dep = deps := by
  unfold installIfStep
  simp [installIfMap_nil _ _ ctx.noiif]

theorem installIfFixedLoop_id {c : Cfg} {S : List Pkg} (ctx : Ctx c S) :
    ∀ (fuel i : Nat) (deps : List Pkg), installIfFixedLoop c fuel i deps = deps := by
  intro fuel
  induction fuel with
  | zero => intro i deps; rfl
  | succ fuel ih =>
    intro i deps
    rw [installIfFixedLoop]
    split
    · rfl
    · rw [installIfStep_id ctx, ih]

theorem installIfMapLoop_id {c : Cfg} {S : List Pkg} (ctx : Ctx c S) (deps : List Pkg) :
    installIfMapLoop c deps = deps := by
  unfold installIfMapLoop
  simp only
  generalize c.addedOrder (deps.map (·.name)) = names
  suffices ∀ acc : List Pkg, names.foldl (fun acc n =>
      match deps.find? (·.name = n) with
      | some d => installIfStep c acc d
      | none => acc) acc = acc from this deps
  induction names with
  | nil => intro acc; rfl
  | cons n ns ih =>
    intro acc
    simp only [List.foldl_cons]
    split
    · rw [installIfStep_id ctx, ih]
    · rw [ih]

/-- `acc ++ (the elements of l whose name is not there yet)` — the de-duplication used twice in the resolver -/
def addAbsent (l acc : List Pkg) : List Pkg :=
  l.foldl (fun acc p => if acc.any (·.name = p.name) then acc else acc ++ [p]) acc

theorem addAbsent_mem (l : List Pkg) : ∀ (acc : List Pkg) (x : Pkg), x ∈ addAbsent l acc → x ∈ acc ∨ x ∈ l := by
  induction l with
  | nil => intro acc x h; exact Or.inl h
  | cons p ps ih =>
    intro acc x h
    simp only [addAbsent, List.foldl_cons] at h
    rcases ih _ x h with h1 | h1
    · split at h1
      · exact Or.inl h1
      · rcases List.mem_append.mp h1 with h2 | h2
        · exact Or.inl h2
        · exact Or.inr (by simp only [List.mem_singleton] at h2; rw [h2]; exact List.mem_cons_self)
    · exact Or.inr (List.mem_cons_of_mem _ h1)

theorem addAbsent_keeps (l : List Pkg) : ∀ (acc : List Pkg) (x : Pkg), x ∈ acc → x ∈ addAbsent l acc := by
  induction l with
  | nil => intro acc x h; exact h
  | cons p ps ih =>
    intro acc x h
    simp only [addAbsent, List.foldl_cons]
    apply ih
    split
    · exact h
    · exact List.mem_append_left _ h

theorem addAbsent_has (l : List Pkg) : ∀ (acc : List Pkg) (p : Pkg), p ∈ l → ∃ y ∈ addAbsent l acc, y.name = p.name := by
  induction l with
  | nil => intro acc p h; cases h
  | cons q qs ih =>
    intro acc p h
    simp only [addAbsent, List.foldl_cons]
    rcases List.mem_cons.mp h with rfl | h'
    · split
      · next hany =>
        obtain ⟨y, hy, hn⟩ := List.any_eq_true.mp hany
        exact ⟨y, addAbsent_keeps qs _ y hy, by simpa using hn⟩
      · exact ⟨p, addAbsent_keeps qs _ p (List.mem_append_right _ (List.mem_singleton.mpr rfl)), rfl⟩
    · exact ih _ p h'

theorem dedupByName_mem (l : List Pkg) (x : Pkg) (h : x ∈ dedupByName l) : x ∈ l := by
  have := addAbsent_mem l [] x (by simpa [dedupByName, addAbsent] using h)
  rcases this with h | h
  · cases h
  · exact h

theorem resolvePackage_mem {c : Cfg} {w : Text} {dq : List Nat} {p : Pkg} (h : resolvePackage c w dq = some p) :
    p ∈ filterPackages (c.nm (parseConstraint w).name) dq (parseConstraint w).version (parseConstraint w).dep []
      (parseConstraint w).pin none := by
  unfold resolvePackage candidates at h
  simp only at h
  split at h
  · cases h
  · next l hl =>
    split at hl
    · cases hl
    · split at hl
      · cases hl
      · simp only [Option.some.injEq] at hl
        have := C02.minFunc_mem h
        rw [← hl] at this
        exact this

/-- a world entry that names a member -/
def NamesMember (S : List Pkg) (w : Text) : Prop := ∃ p ∈ S, p.name = (parseConstraint w).name

theorem getPWD_inv {c : Cfg} {S : List Pkg} (ctx : Ctx c S) (fuel : Nat) (w : Text)
    (existing : List (Text × Pkg)) (st : St) (r : WithDeps) (hw : NamesMember S w) (hl : Locked c S st.dq)
    (h : getPackageWithDependencies c fuel w existing st = .ok r) :
    r.pkg ∈ S ∧ r.pkg.name = (parseConstraint w).name ∧ (∀ d ∈ r.deps, d ∈ S) ∧ Locked c S r.st.dq := by
  unfold getPackageWithDependencies at h
  simp only at h
  split at h
  · cases h
  · next pkg hres =>
    have hcand := resolvePackage_mem hres
    have hS : pkg ∈ S := candidate_member ctx hl hw hcand
    have hn : pkg.name = (parseConstraint w).name := (candidate_in ctx hcand).2.1
    split at h
    · cases h
    · cases h
    · next out hout =>
      have hg : Good c S out := getDeps_inv ctx fuel pkg _ [] _ out hS hl hout
      simp only [Res.ok.injEq] at h
      rw [← h]
      refine ⟨hS, hn, ?_, ?_⟩
      · intro d hd
        simp only at hd
        split at hd
        · rw [installIfFixedLoop_id ctx] at hd
          exact hg.1 d (dedupByName_mem _ _ hd)
        · rw [installIfMapLoop_id ctx] at hd
          exact hg.1 d (dedupByName_mem _ _ hd)
      · simp only [ite_flag_dq]
        exact hg.2

theorem go_inv {c : Cfg} {S : List Pkg} (ctx : Ctx c S) :
    ∀ (ws : List Text) (depMap : List (Text × Pkg)) (st : St) (inst : List Pkg) (confs : List Text) (r : Resolution),
      (∀ w ∈ ws, NamesMember S w) → (∀ x ∈ inst, x ∈ S) → Locked c S st.dq →
      resolve.go c ws depMap st inst confs = .ok r →
      (∀ x ∈ r.install, x ∈ S) ∧ (∀ y ∈ inst, y ∈ r.install) ∧
      (∀ w ∈ ws, ∃ y ∈ r.install, y.name = (parseConstraint w).name) := by
  intro ws
  induction ws with
  | nil =>
    intro depMap st inst confs r _ hin _ h
    simp only [resolve.go, Res.ok.injEq] at h
    rw [← h]
    exact ⟨hin, fun y hy => hy, fun w hw => by cases hw⟩
  | cons w ws ih =>
    intro depMap st inst confs r hws hin hl h
    simp only [resolve.go] at h
    split at h
    · cases h
    · cases h
    · next rr hrr =>
      obtain ⟨hp, hpn, hd, hl'⟩ := getPWD_inv ctx _ w depMap st rr (hws w List.mem_cons_self) hl hrr
      have hinst' : ∀ x ∈ addAbsent (rr.deps ++ [rr.pkg]) inst, x ∈ S := by
        intro x hx
        rcases addAbsent_mem _ _ x hx with h1 | h1
        · exact hin x h1
        · rcases List.mem_append.mp h1 with h2 | h2
          · exact hd x h2
          · simp only [List.mem_singleton] at h2; rw [h2]; exact hp
      have hl'' : Locked c S (if dedupDropsOther inst (rr.deps ++ [rr.pkg]) = true then rr.st.flag "F02a" else rr.st).dq := by
        split
        · rw [flag_dq]; exact hl'
        · exact hl'
      obtain ⟨a1, a2, a3⟩ := ih _ _ _ _ r (fun w' hw' => hws w' (List.mem_cons_of_mem _ hw')) hinst' hl'' h
      refine ⟨a1, fun y hy => a2 y (addAbsent_keeps _ _ y hy), fun w' hw' => ?_⟩
      rcases List.mem_cons.mp hw' with rfl | hw''
      · obtain ⟨y, hy, hyn⟩ := addAbsent_has (rr.deps ++ [rr.pkg]) inst rr.pkg (List.mem_append_right _ (List.mem_singleton.mpr rfl))
        exact ⟨y, a2 y hy, hyn.trans hpn⟩
      · exact a3 w' hw''

theorem worldLoop_dq {c : Cfg} {S : List Pkg} (ctx : Ctx c S) :
    ∀ (fuel : Nat) (constraints : List Text) (depMap : List (Text × Pkg)) (dq : List Nat)
      (dm : List (Text × Pkg)) (dq' : List Nat),
      worldLoop c fuel constraints depMap dq = .ok (dm, dq') → dq' = dq := by
  intro fuel
  induction fuel with
  | zero => intro cs dm0 dq dm dq' h; simp [worldLoop] at h
  | succ fuel ih =>
    intro cs dm0 dq dm dq' h
    rw [worldLoop] at h
    split at h
    · simp only [Res.ok.injEq, Prod.mk.injEq] at h; exact h.2.symm
    · split at h
      · cases h
      · split at h
        · cases h
        · next pkg hres =>
          have hu := (candidate_in ctx (resolvePackage_mem hres)).1
          rw [disqualifyConflicts_noprov c pkg dq (ctx.noprov pkg hu)] at h
          exact ih _ _ _ _ _ h

end Apko.Lock
