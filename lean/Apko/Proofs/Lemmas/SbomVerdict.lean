/-
C11 — the verdict of the driver's oracle on the model's own output.

* `generate_common`       for every input: identifiers valid and unique, no stray element
* `generate_benign`       without identifier collisions and without target elements in embedded SBOMs:
                          image, layers and apk elements are right
* `generate_unclaimed`    with embedded SBOMs of arbitrary shape, provided nothing else claims the names or
                          identifiers of image and layers: image and layers are right
* `oracle_pass_of_benign` the oracle passes under `benign`
* `classOf_model_listed`  the class the driver computes for the model's output is never `unlisted`
-/
import Apko.Driver.Sbom
import Apko.Proofs.Lemmas.SbomKeep
import Apko.Proofs.Lemmas.SbomOrder

namespace Apko.Sbom
open Apko

/-! ### the input predicates (all decidable) -/

/-- header elements (image, layers, source) with the same identifier are the same element — a layer digest
listed twice is allowed, two digests sanitising to one identifier are not — and the source element (url,
commit as version and SHA1) does not read like an entry of the installed database -/
def headerOk (o : Opts) : Bool :=
  ((header o).packages.all fun p => (header o).packages.all fun q => p.id ≠ q.id || p = q) &&
  o.apks.all fun a => (srcPkgs o).all fun p => !matchesApk a p

/-- nothing else claims the names or identifiers of the image and layer elements: no apk is named like one
of their digests or sanitises to one of their identifiers, no embedded element carries one -/
def unclaimed (o : Opts) (fs : SbomDir) : Bool :=
  (o.apks.all fun a => !(protNames o).contains a.name &&
      !(protIds2 o).contains (apkId (nonceOf o.imageDigest) a)) &&
  (embeddedIds fs).all fun i => !(protIds2 o).contains i

/-- the inputs on which the SBOM is claimed to describe the image: a well-formed header and none of the
three finding classes, as the driver computes them -/
def benign (o : Opts) (fs : SbomDir) : Bool :=
  headerOk o && !idCollision o && !embeddedTarget o fs && !multiTarget o fs

theorem headerOk_iff {o : Opts} : headerOk o = true ↔
    HdrInj o ∧ ∀ a ∈ o.apks, ∀ p ∈ srcPkgs o, matchesApk a p = false := by
  simp only [headerOk, HdrInj, Bool.and_eq_true, List.all_eq_true, Bool.or_eq_true, decide_eq_true_eq,
    Bool.not_eq_true']
  constructor
  · rintro ⟨h1, h2⟩
    refine ⟨fun p hp q hq e => ?_, h2⟩
    rcases h1 p hp q hq with h | h
    · exact absurd e h
    · exact h
  · rintro ⟨h1, h2⟩
    refine ⟨fun p hp q hq => ?_, h2⟩
    by_cases e : p.id = q.id
    · exact Or.inr (h1 p hp q hq e)
    · exact Or.inl e

theorem unclaimed_iff {o : Opts} {fs : SbomDir} : unclaimed o fs = true ↔
    (∀ a ∈ o.apks, a.name ∉ protNames o) ∧ (∀ a ∈ o.apks, apkId (nonceOf o.imageDigest) a ∉ protIds2 o) ∧
    (∀ i ∈ embeddedIds fs, i ∉ protIds2 o) := by
  simp only [unclaimed, Bool.and_eq_true, List.all_eq_true, Bool.not_eq_true', List.contains_eq_mem,
    decide_eq_false_iff_not]
  constructor
  · rintro ⟨h1, h2⟩; exact ⟨fun a ha => (h1 a ha).1, fun a ha => (h1 a ha).2, h2⟩
  · rintro ⟨h1, h2, h3⟩; exact ⟨fun a ha => ⟨h1 a ha, h2 a ha⟩, h3⟩

/-- a document without target elements has, a fortiori, no SBOM with two of them -/
theorem multiTarget_of_embeddedTarget_false {o : Opts} {fs : SbomDir} (h : embeddedTarget o fs = false) :
    multiTarget o fs = false := by
  rw [multiTarget_false]
  intro a ha
  have := embeddedTarget_false.mp h a ha
  omega

theorem benign_iff {o : Opts} {fs : SbomDir} : benign o fs = true ↔
    headerOk o = true ∧ idCollision o = false ∧ embeddedTarget o fs = false ∧ multiTarget o fs = false := by
  simp [benign, and_assoc]

/-! ### clauses that hold of every document the model emits -/

theorem generate_common {o : Opts} {fs : SbomDir} {ord : List Id → List Id} {d : Doc}
    (h : generate o fs ord = .ok d) : GoodIds fs d ∧ d.ids.Nodup ∧ NoStray o fs d := by
  refine ⟨?_, ?_, generate_noStray h⟩
  · unfold generate at h
    split at h
    · cases h
    · split at h
      · cases h
      · next doc ha =>
        cases h
        intro p hp
        exact addApks_goodIds _ (header_goodIds fs o) ha p (dedup_mem hp)
  · unfold generate at h
    split at h
    · cases h
    · split at h
      · cases h
      · cases h; exact dedup_nodup _

theorem generate_closed {o : Opts} {fs : SbomDir} {ord : List Id → List Id} {d : Doc}
    (hord : OrdOk ord) (hone : multiTarget o fs = false) (h : generate o fs ord = .ok d) : Closed d := by
  unfold generate at h
  split at h
  · cases h
  · split at h
    · cases h
    · next doc ha =>
      cases h
      have hi := addApks_inv hord _ (multiTarget_false.mp hone) (header_inv o) ha
      have hids : ∀ i, i ∈ doc.ids → i ∈ Doc.ids { doc with packages := dedup doc.packages } :=
        fun i hi' => (dedup_ids doc.packages i).mpr hi'
      exact ⟨fun r hr => ⟨hids _ (hi.closed.1 r hr).1, hids _ (hi.closed.1 r hr).2⟩,
             fun i hi' => hids _ (hi.closed.2 i hi')⟩

/-! ### image, layers, apks without target elements -/

theorem prot_no_match {o : Opts} {a : Apk} {p : Pkg} (hp : p ∈ protPkgs o) : matchesApk a p = false := by
  simp only [protPkgs, List.mem_append, layerPackages, List.mem_map] at hp
  rcases hp with hp | ⟨l, _, rfl⟩
  · split at hp
    · cases hp
    · simp only [List.mem_singleton] at hp
      subst hp
      simp [matchesApk, imagePackage]
  · simp [matchesApk, layerPackage]

theorem apkPackage_match {nonce : Text} {a b : Apk} (h : matchesApk a (apkPackage nonce b) = true) : b = a := by
  cases a; cases b
  simp only [matchesApk, apkPackage, Bool.and_eq_true, decide_eq_true_eq, List.contains_eq_mem,
    List.mem_singleton, Prod.mk.injEq, true_and] at h
  obtain ⟨⟨h1, h2⟩, h3⟩ := h
  have e1 := of_decide_eq_true h1
  have e2 := of_decide_eq_true h2
  subst e1 e2 h3
  rfl

theorem apksOk_noTarget {o : Opts} {fs : SbomDir} {d : Doc}
    (hpk : d.packages = dedup ((header o).packages ++ o.apks.map (apkPackage (nonceOf o.imageDigest))))
    (hcol : idCollision o = false)
    (hsrc : ∀ a ∈ o.apks, ∀ p ∈ srcPkgs o, matchesApk a p = false) : ApksOk o fs d := by
  obtain ⟨hhdr, hinj⟩ := idCollision_false.mp hcol
  intro a ha
  -- what an element of the list before the de-dup pass that matches `a`, or has its identifier, can be
  have hwho : ∀ x ∈ (header o).packages ++ o.apks.map (apkPackage (nonceOf o.imageDigest)),
      (matchesApk a x = true ∨ x.id = apkId (nonceOf o.imageDigest) a) →
        x = apkPackage (nonceOf o.imageDigest) a := by
    intro x hx hm
    rcases List.mem_append.mp hx with hx | hx
    · exfalso
      rcases hm with hm | hm
      · rw [header_packages] at hx
        rcases List.mem_append.mp hx with hx | hx
        · rw [prot_no_match hx] at hm; cases hm
        · rw [hsrc a ha x hx] at hm; cases hm
      · exact hhdr a ha (hm ▸ List.mem_map_of_mem (f := fun x : Pkg => x.id) hx)
    · obtain ⟨b, hb, rfl⟩ := List.mem_map.mp hx
      rcases hm with hm | hm
      · rw [apkPackage_match hm]
      · rw [hinj b hb a ha hm]
  constructor
  · have hi : apkId (nonceOf o.imageDigest) a ∈ d.packages.map (·.id) := by
      rw [hpk, dedup_ids]
      simp only [List.map_append, List.map_map, List.mem_append, List.mem_map]
      exact Or.inr ⟨a, ha, rfl⟩
    obtain ⟨p, hp, hpi⟩ := List.mem_map.mp hi
    have : p = apkPackage (nonceOf o.imageDigest) a := hwho p (dedup_mem (hpk ▸ hp)) (Or.inr hpi)
    exact ⟨p, hp, this ▸ matches_apkPackage _ a⟩
  · have hnd : d.packages.Nodup := by
      rw [hpk]; exact nodup_of_nodup_map (fun x : Pkg => x.id) (dedup_nodup _)
    refine length_le_one_of_all_eq (c := apkPackage (nonceOf o.imageDigest) a)
      ((hnd.sublist List.filter_sublist).sublist List.filter_sublist) ?_
    intro x hx
    have hx1 := List.mem_filter.mp (List.mem_filter.mp hx).1
    exact hwho x (dedup_mem (hpk ▸ hx1.1)) (Or.inl hx1.2)

/-- without identifier collisions and without target elements the image, layer and apk clauses hold -/
theorem generate_benign {o : Opts} {fs : SbomDir} {ord : List Id → List Id} {d : Doc}
    (hord : OrdOk ord) (hh : headerOk o = true) (hcol : idCollision o = false)
    (h0 : embeddedTarget o fs = false) (h : generate o fs ord = .ok d) :
    ImageOk o d ∧ LayersOk o d ∧ ApksOk o fs d := by
  obtain ⟨hnd, hsrc⟩ := headerOk_iff.mp hh
  have hpk := (generate_noTarget hord (embeddedTarget_false.mp h0) h).1
  refine ⟨?_, ?_, apksOk_noTarget hpk hcol hsrc⟩ <;>
  · unfold generate at h
    split at h
    · cases h
    · split at h
      · cases h
      · next doc ha =>
        cases h
        obtain ⟨hp, hr, hds⟩ := addApks_noTarget hord _ (embeddedTarget_false.mp h0) ha
        have hk0 := header_keep hnd
        have hk : Keep o doc := by
          refine ⟨fun he => hds ▸ hk0.desc he, fun he => hr ▸ hk0.rels he,
            fun p hp' => hp ▸ List.mem_append_left _ (hk0.keep p hp'), ?_⟩
          intro p hp' hpi
          rw [hp] at hp'
          rcases List.mem_append.mp hp' with hp' | hp'
          · exact hk0.only p hp' hpi
          · obtain ⟨b, hb, rfl⟩ := List.mem_map.mp hp'
            exfalso
            refine (idCollision_false.mp hcol).1 b hb ?_
            rw [header_ids]
            exact List.mem_append_left _ hpi
        first
          | exact keep_imageOk hnd hk
          | exact keep_layersOk hnd hk

/-- with embedded SBOMs of arbitrary shape and every iteration order, the image and layer clauses hold
provided nothing else claims their names or identifiers -/
theorem generate_unclaimed {o : Opts} {fs : SbomDir} {ord : List Id → List Id} {d : Doc}
    (hh : HdrInj o) (hu : unclaimed o fs = true) (h : generate o fs ord = .ok d) :
    ImageOk o d ∧ LayersOk o d := by
  obtain ⟨hname, hapk, hemb⟩ := unclaimed_iff.mp hu
  unfold generate at h
  split at h
  · cases h
  · split at h
    · cases h
    · next doc ha =>
      cases h
      have hk := addApks_keep _ hname hemb hapk (header_keep hh) ha
      exact ⟨keep_imageOk hh hk, keep_layersOk hh hk⟩

/-! ### the verdict -/

/-- under `benign` the model's document satisfies the whole specification -/
theorem describes_of_benign {o : Opts} {fs : SbomDir} {ord : List Id → List Id} {d : Doc}
    (hord : OrdOk ord) (hb : benign o fs = true) (h : generate o fs ord = .ok d) : Describes o fs d := by
  obtain ⟨hh, hcol, h0, h1⟩ := benign_iff.mp hb
  obtain ⟨c1, c2, c3⟩ := generate_common h
  obtain ⟨b1, b2, b3⟩ := generate_benign hord hh hcol h0 h
  exact ⟨c1, c2, generate_closed hord h1 h, b1, b2, b3, c3⟩

theorem oracle_pass_of_benign {o : Opts} {fs : SbomDir} {ord : List Id → List Id} {d : Doc}
    (hord : OrdOk ord) (hb : benign o fs = true) (h : generate o fs ord = .ok d) : oracle o fs d = none :=
  (oracle_none_iff o fs d).mpr (describes_of_benign hord hb h)

/-- the oracle's answer on the model's output, when image and layers are protected: only the two clauses
for which finding classes exist can fail -/
theorem oracle_model_cases {o : Opts} {fs : SbomDir} {ord : List Id → List Id} {d : Doc}
    (hh : headerOk o = true) (hu : unclaimed o fs = true) (h : generate o fs ord = .ok d) :
    oracle o fs d = if refsResolve d = false then some "dangling-reference"
      else if apksOk o fs d = false then some "apk-element" else none := by
  obtain ⟨c1, c2, c3⟩ := generate_common h
  obtain ⟨u1, u2⟩ := generate_unclaimed (headerOk_iff.mp hh).1 hu h
  exact oracle_two_clauses c1 c2 u1 u2 c3

/-- the class the driver attaches to the verdict on the model's own output is never `unlisted` -/
theorem classOf_model_listed {o : Opts} {fs : SbomDir} {ord : List Id → List Id} {d : Doc}
    (hord : OrdOk ord) (hh : headerOk o = true) (hu : unclaimed o fs = true)
    (h : generate o fs ord = .ok d) :
    Driver.Sbom.classOf o fs (oracle o fs d) ∈ ["-", "F11a", "F11c", "F11d"] := by
  rw [oracle_model_cases hh hu h]
  split
  · next hr =>
    have hm : multiTarget o fs = true := by
      cases hm : multiTarget o fs
      · have := (refsResolve_iff d).mpr (generate_closed hord hm h)
        rw [hr] at this; cases this
      · rfl
    simp [Driver.Sbom.classOf, hm]
  · split
    · next ha =>
      cases hc : idCollision o
      · cases he : embeddedTarget o fs
        · have := (apksOk_iff o fs d).mpr (generate_benign hord hh hc he h).2.2
          rw [ha] at this; cases this
        · simp [Driver.Sbom.classOf, hc, he]
      · simp [Driver.Sbom.classOf, hc]
    · simp [Driver.Sbom.classOf]

end Apko.Sbom
