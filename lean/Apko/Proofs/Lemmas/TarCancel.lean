import Apko.Model.TarCancel
/-! Lemmas about the layer writer under a context that becomes done (`Model/TarCancel.lean`), for `Proofs/C06.lean`. -/
namespace Apko.Tar

theorem errAt_none (k : Nat) : errAt none k = none := rfl

/-- a done context stays done -/
theorem errAt_mono (ctx : Option Ctx) (k j : Nat) (e : CtxErr) (h : errAt ctx k = some e) (hj : k ≤ j) :
    errAt ctx j = some e := by
  cases ctx with
  | none => simp [errAt] at h
  | some c =>
    simp only [errAt] at h ⊢
    split at h
    · cases h
    · rename_i hk; rw [if_neg (by omega)]; exact h

/-- every error a context reports is its one error -/
theorem errAt_err (c : Ctx) (k : Nat) (e : CtxErr) (h : errAt (some c) k = some e) : e = c.err := by
  simp only [errAt] at h
  split at h
  · cases h
  · cases h; rfl

theorem firstErr_none_ctx (k n : Nat) : firstErr none k n = none := by
  induction n generalizing k with
  | zero => rfl
  | succ n ih => simp [firstErr, errAt, ih]

/-- a check that follows a done check reports the error -/
theorem firstErr_of_done (ctx : Option Ctx) (k j n : Nat) (e : CtxErr) (h : errAt ctx k = some e) (hj : k ≤ j) (hn : 0 < n) :
    firstErr ctx j n = some e := by
  cases n with
  | zero => omega
  | succ n => simp [firstErr, errAt_mono ctx k j e h hj]

theorem firstErr_err (c : Ctx) (k n : Nat) (e : CtxErr) (h : firstErr (some c) k n = some e) : e = c.err := by
  induction n generalizing k with
  | zero => simp [firstErr] at h
  | succ n ih =>
    simp only [firstErr] at h
    split at h
    · rename_i e' he; cases h; exact errAt_err c k _ he
    · exact ih _ h

/-! ### the walk -/

/-- with a context that is never done the walk yields everything -/
theorem walkItems_live (od : OnDone) (k : Nat) (es : List Entry) :
    (walkItems od none k es).yielded = es ∧ (walkItems od none k es).err = none := by
  induction es generalizing k with
  | nil => simp [walkItems]
  | cons e es ih =>
    cases od <;> simp [walkItems, cbCheck, errAt, ih]

/-- what the walk yields is a prefix of the complete list -/
theorem walkItems_prefix (od : OnDone) (ctx : Option Ctx) (k : Nat) (es : List Entry) :
    (walkItems od ctx k es).yielded <+: es := by
  induction es generalizing k with
  | nil => simp [walkItems]
  | cons e es ih =>
    simp only [walkItems]
    split
    · exact List.nil_prefix
    · exact List.cons_prefix_cons.mpr ⟨rfl, ih _⟩

/-- `returnErr`: the walk ends with the error or yields everything -/
theorem walkItems_returnErr (ctx : Option Ctx) (k : Nat) (es : List Entry) :
    (walkItems .returnErr ctx k es).err.isSome ∨
      ((walkItems .returnErr ctx k es).yielded = es ∧ (walkItems .returnErr ctx k es).err = none) := by
  induction es generalizing k with
  | nil => right; simp [walkItems]
  | cons e es ih =>
    simp only [walkItems, cbCheck]
    cases h : errAt ctx k with
    | some x => left; simp
    | none =>
      rcases ih (k + 1) with h1 | ⟨h1, h2⟩
      · left; simpa using h1
      · right; simp [h1, h2]

/-- no check: everything is yielded -/
theorem walkItems_noCheck (od : OnDone) (hod : od = .noCheck ∨ od = .unknown) (ctx : Option Ctx) (k : Nat) (es : List Entry) :
    (walkItems od ctx k es).yielded = es ∧ (walkItems od ctx k es).err = none := by
  induction es generalizing k with
  | nil => simp [walkItems]
  | cons e es ih =>
    rcases hod with rfl | rfl <;> simp [walkItems, cbCheck, ih]

/-- `skipAll`: no error; either everything is yielded, or some check at or before `next - 1` saw the context done -/
theorem walkItems_skipAll (ctx : Option Ctx) (k : Nat) (es : List Entry) :
    (walkItems .skipAll ctx k es).err = none ∧
      ((walkItems .skipAll ctx k es).yielded = es ∨
        ∃ j e, j < (walkItems .skipAll ctx k es).next ∧ errAt ctx j = some e) := by
  induction es generalizing k with
  | nil => simp [walkItems]
  | cons x es ih =>
    simp only [walkItems, cbCheck]
    cases h : errAt ctx k with
    | some e => exact ⟨rfl, Or.inr ⟨k, e, by simp, h⟩⟩
    | none =>
      obtain ⟨h1, h2⟩ := ih (k + 1)
      refine ⟨by simpa using h1, ?_⟩
      rcases h2 with h2 | ⟨j, e, hj, he⟩
      · left; simp [h2]
      · right; exact ⟨j, e, by simpa using hj, he⟩

theorem walkFSCtx_prefix (od : OnDone) (ctx : Option Ctx) (k : Nat) (es : List Entry) :
    (walkFSCtx od ctx k es).yielded <+: es := by
  simp only [walkFSCtx]
  split
  · exact List.nil_prefix
  · exact walkItems_prefix _ _ _ _

theorem walkFSCtx_live (od : OnDone) (k : Nat) (es : List Entry) :
    (walkFSCtx od none k es).yielded = es ∧ (walkFSCtx od none k es).err = none := by
  cases od <;> simp [walkFSCtx, cbCheck, errAt, walkItems_live]

/-! ### the whole call -/

/-- **error or complete** for every safe plan, every context and every entry list -/
theorem layerCtx_error_or_complete (p : CtxPlan) (hs : p.safe = true) (ctx : Option Ctx) (es : List Entry) :
    (∃ e, layerCtx p ctx es = .error e) ∨ layerCtx p ctx es = .ok es := by
  obtain ⟨od, nb, na⟩ := p
  simp only [CtxPlan.safe, Bool.or_eq_true, Bool.and_eq_true, decide_eq_true_eq] at hs
  simp only [layerCtx]
  cases hb : firstErr ctx 0 nb with
  | some e => left; exact ⟨e, rfl⟩
  | none =>
    simp only
    rcases hs with (rfl | rfl) | ⟨rfl, hpos⟩
    · -- returnErr
      simp only [walkFSCtx, cbCheck]
      cases h0 : errAt ctx nb with
      | some e => left; exact ⟨e, rfl⟩
      | none =>
        simp only
        rcases walkItems_returnErr ctx (nb + 1) es with h | ⟨h1, h2⟩
        · cases he : (walkItems .returnErr ctx (nb + 1) es).err with
          | none => simp [he] at h
          | some e => left; exact ⟨e, rfl⟩
        · rw [h2]; simp only
          cases ha : firstErr ctx (walkItems .returnErr ctx (nb + 1) es).next na with
          | some e => left; exact ⟨e, rfl⟩
          | none => right; simp [h1]
    · -- noCheck
      simp only [walkFSCtx, cbCheck]
      obtain ⟨h1, h2⟩ := walkItems_noCheck .noCheck (Or.inl rfl) ctx nb es
      rw [h2]; simp only
      cases ha : firstErr ctx (walkItems .noCheck ctx nb es).next na with
      | some e => left; exact ⟨e, rfl⟩
      | none => right; simp [h1]
    · -- skipAll with a check after the walk
      simp only [walkFSCtx, cbCheck]
      cases h0 : errAt ctx nb with
      | some e =>
        left; simp only
        exact ⟨e, by rw [firstErr_of_done ctx nb (nb + 1) na e h0 (by omega) hpos]⟩
      | none =>
        simp only
        obtain ⟨h1, h2⟩ := walkItems_skipAll ctx (nb + 1) es
        rw [h1]; simp only
        rcases h2 with h2 | ⟨j, e, hj, he⟩
        · cases ha : firstErr ctx (walkItems .skipAll ctx (nb + 1) es).next na with
          | some e => left; exact ⟨e, rfl⟩
          | none => right; simp [h2]
        · left
          exact ⟨e, by rw [firstErr_of_done ctx j _ na e he (by omega) hpos]⟩

/-- a context that is never done: the complete list, whatever the plan -/
theorem layerCtx_live (p : CtxPlan) (es : List Entry) : layerCtx p none es = .ok es := by
  simp only [layerCtx, firstErr_none_ctx]
  obtain ⟨h1, h2⟩ := walkFSCtx_live p.onDone p.before es
  rw [h2]; simp [h1]

/-- whatever the plan, a layer that is emitted holds a prefix of the walk -/
theorem layerCtx_ok_prefix (p : CtxPlan) (ctx : Option Ctx) (es l : List Entry) (h : layerCtx p ctx es = .ok l) : l <+: es := by
  simp only [layerCtx] at h
  split at h
  · cases h
  · split at h
    · cases h
    · split at h
      · cases h
      · cases h; exact walkFSCtx_prefix _ _ _ _

end Apko.Tar
