/-
Lifting to whole resolutions, part 2: the dependency walk (`depOption`, `depLoop`, `getDeps`).
-/
import Apko.Proofs.Lemmas.ComparatorDq

namespace Apko.Cmp
open Apko Apko.Resolver

def StRel (s₁ s₂ : St) : Prop := DqEq s₁.dq s₂.dq ∧ s₁.selected = s₂.selected ∧ s₁.flags = s₂.flags

def DepStRel (a b : DepSt) : Prop := StRel a.st b.st ∧ a.existing = b.existing ∧ a.origins = b.origins

def DepOutRel (a b : DepOut) : Prop := a.deps = b.deps ∧ a.conflicts = b.conflicts ∧ DepStRel a.ds b.ds

theorem StRel.flag {s₁ s₂ : St} (h : StRel s₁ s₂) (f : String) : StRel (s₁.flag f) (s₂.flag f) := by
  obtain ⟨h1, h2, h3⟩ := h
  unfold St.flag
  rw [h3]
  split
  · exact ⟨h1, h2, h3⟩
  · exact ⟨h1, h2, by simp⟩

theorem StRel.foldl_flag {s₁ s₂ : St} (h : StRel s₁ s₂) (fl : List String) :
    StRel (fl.foldl St.flag s₁) (fl.foldl St.flag s₂) := by
  induction fl generalizing s₁ s₂ with
  | nil => exact h
  | cons f fs ih => exact ih (h.flag f)

/-- what one dependency contributes, related across the two orders -/
def OptR : Opt → Opt → Prop
  | .skip, .skip => True
  | .skipF f, .skipF g => f = g
  | .conflict x, .conflict y => x = y
  | .options d l, .options d' l' => d = d' ∧ NameStable l l'
  | .fail, .fail => True
  | _, _ => False

theorem OptR.refl (o : Opt) : OptR o o := by
  cases o <;> simp [OptR, NameStable.refl]

theorem depOption_rel {c₁ c₂ : Cfg} (hc : CfgRel c₁ c₂) (pkg : Pkg) (allowPin : Text) {ds₁ ds₂ : DepSt}
    (hds : DepStRel ds₁ ds₂) (dep : Text) :
    OptR (depOption c₁ pkg allowPin ds₁ dep) (depOption c₂ pkg allowPin ds₂ dep) := by
  obtain ⟨⟨hdq, hsel, hfl⟩, hex, hog⟩ := hds
  unfold depOption
  simp only [hc.u, hsel, hex]
  have hl := filterPackages_rel (hc.nm (parseConstraint dep).name) hdq (parseConstraint dep).version
    (parseConstraint dep).dep allowPin [] (lookupT ds₂.existing (parseConstraint dep).name)
  generalize filterPackages (c₁.nm _) ds₁.st.dq _ _ _ _ _ = l₁ at hl ⊢
  generalize filterPackages (c₂.nm _) ds₂.st.dq _ _ _ _ _ = l₂ at hl ⊢
  rw [hl.isEmpty_eq]
  repeat' first
    | exact OptR.refl _
    | exact ⟨rfl, hl⟩
    | split

/-! ## the options map of one pass -/

inductive OptsRel : List (Text × List Pkg) → List (Text × List Pkg) → Prop
  | nil : OptsRel [] []
  | cons {k : Text} {l₁ l₂ : List Pkg} {t₁ t₂ : List (Text × List Pkg)} :
      NameStable l₁ l₂ → OptsRel t₁ t₂ → OptsRel ((k, l₁) :: t₁) ((k, l₂) :: t₂)

theorem OptsRel.map_fst {a b : List (Text × List Pkg)} (h : OptsRel a b) :
    a.map (·.1) = b.map (·.1) := by
  induction h with
  | nil => rfl
  | cons _ _ ih => simp [ih]

theorem OptsRel.append {a b a' b' : List (Text × List Pkg)} (h : OptsRel a b) (h' : OptsRel a' b') :
    OptsRel (a ++ a') (b ++ b') := by
  induction h with
  | nil => exact h'
  | cons hl _ ih => exact .cons hl ih

theorem OptsRel.any_key {a b : List (Text × List Pkg)} (h : OptsRel a b) (k : Text) :
    a.any (fun e => e.1 = k) = b.any (fun e => e.1 = k) := by
  induction h with
  | nil => rfl
  | cons _ _ ih => simp [List.any_cons, ih]

theorem OptsRel.map_set {a b : List (Text × List Pkg)} (h : OptsRel a b) (k : Text) {l₁ l₂ : List Pkg}
    (hl : NameStable l₁ l₂) :
    OptsRel (a.map (fun e => if e.1 = k then (k, l₁) else e))
      (b.map (fun e => if e.1 = k then (k, l₂) else e)) := by
  induction h with
  | nil => exact .nil
  | @cons k' _ _ _ _ hl' _ ih =>
    simp only [List.map_cons]
    by_cases hk : k' = k
    · simp only [hk, if_true]; exact .cons hl ih
    · simp only [hk, if_false]; exact .cons hl' ih

theorem setT_rel {a b : List (Text × List Pkg)} (h : OptsRel a b) (k : Text) {l₁ l₂ : List Pkg}
    (hl : NameStable l₁ l₂) : OptsRel (setT a k l₁) (setT b k l₂) := by
  unfold setT
  rw [h.any_key]
  split
  · exact h.map_set k hl
  · exact h.append (.cons hl .nil)

def PairRel (a b : Text × List Pkg) : Prop := a.1 = b.1 ∧ NameStable a.2 b.2

theorem lowestFold_rel {xs ys : List (Text × List Pkg)} (h : OptsRel xs ys) {m m' : Text × List Pkg}
    (hm : PairRel m m') :
    PairRel (xs.foldl (fun m y =>
        if y.2.length < m.2.length then y
        else if y.2.length = m.2.length && y.1 < m.1 then y else m) m)
      (ys.foldl (fun m y =>
        if y.2.length < m.2.length then y
        else if y.2.length = m.2.length && y.1 < m.1 then y else m) m') := by
  induction h generalizing m m' with
  | nil => exact hm
  | cons hl _ ih =>
    simp only [List.foldl_cons]
    apply ih
    rw [hl.length_eq, hm.2.length_eq, hm.1]
    split
    · exact ⟨rfl, hl⟩
    · split
      · exact ⟨rfl, hl⟩
      · exact hm

theorem lowestOption_rel {a b : List (Text × List Pkg)} (h : OptsRel a b) :
    OptRel PairRel (lowestOption a) (lowestOption b) := by
  cases h with
  | nil => trivial
  | cons hl ht => exact lowestFold_rel ht ⟨rfl, hl⟩

/-! ## one pass and what follows it, as named pieces of `depLoop` -/

abbrev PassSt := Option (List (Text × List Pkg) × List Text × List String)

def passStep (c : Cfg) (pkg : Pkg) (allowPin : Text) (ds : DepSt) (s : PassSt) (dep : Text) : PassSt :=
  match s with
  | none => none
  | some (opts, confs, fl) =>
    match depOption c pkg allowPin ds dep with
    | .skip => some (opts, confs, fl)
    | .skipF f => some (opts, confs, fl ++ [f])
    | .conflict x => some (opts, confs ++ [x], fl)
    | .fail => none
    | .options d pkgs => some (setT opts d pkgs, confs, fl)

/-- everything after the pass; `k` is the next iteration of the loop -/
def afterPass (c : Cfg) (rec : Pkg → List (Text × Nat) → DepSt → Res DepOut) (pkg : Pkg)
    (parents : List (Text × Nat)) (acc : DepOut) (opts : List (Text × List Pkg)) (confs : List Text)
    (k : List Text → DepOut → Res DepOut) : Res DepOut :=
  match lowestOption opts with
  | none => .ok { acc with conflicts := confs }
  | some (lowest, pkgs) =>
    let name := (parseConstraint lowest).name
    let rest := (opts.map (·.1)).filter (· != lowest)
    match minFunc (comparePackages c.bothBad name [] acc.ds.existing acc.ds.origins) pkgs with
    | none => .err
    | some best =>
      match disqualifyConflicts c best acc.ds.st.dq with
      | none => .err
      | some dq1 =>
        match pick pkg acc.ds.st.selected with
        | none => .err
        | some sel1 =>
          let ds1 : DepSt := { acc.ds with st := { acc.ds.st with dq := dq1, selected := sel1 } }
          match rec best (parents ++ [(pkg.name, pkg.id)]) ds1 with
          | .err => .err
          | .outOfFuel => .outOfFuel
          | .ok sub =>
            let ex := sub.deps.foldl (fun e d => setT e d.name d) sub.ds.existing
            let og := sub.deps.foldl (fun o d => if o.contains d.origin then o else o ++ [d.origin])
              sub.ds.origins
            k rest
              { deps := acc.deps ++ sub.deps ++ [best],
                conflicts := confs ++ sub.conflicts,
                ds := { st := sub.ds.st, existing := ex, origins := og } }

theorem depLoop_succ (c : Cfg) (rec : Pkg → List (Text × Nat) → DepSt → Res DepOut) (pkg : Pkg)
    (allowPin : Text) (parents : List (Text × Nat)) (fuel : Nat) (constraints : List Text) (acc : DepOut) :
    depLoop c rec pkg allowPin parents (fuel + 1) constraints acc =
      if constraints.isEmpty then .ok acc else
      match constraints.foldl (passStep c pkg allowPin acc.ds) (some ([], acc.conflicts, [])) with
      | none => .err
      | some (opts, confs, fl) =>
        afterPass c rec pkg parents
          { acc with ds := { acc.ds with st := fl.foldl St.flag acc.ds.st } } opts confs
          (depLoop c rec pkg allowPin parents fuel) := by
  rw [depLoop.eq_2]; rfl

def PassRel : PassSt → PassSt → Prop :=
  OptRel (fun a b => OptsRel a.1 b.1 ∧ a.2 = b.2)

theorem passStep_rel {c₁ c₂ : Cfg} (hc : CfgRel c₁ c₂) (pkg : Pkg) (allowPin : Text) {ds₁ ds₂ : DepSt}
    (hds : DepStRel ds₁ ds₂) {s₁ s₂ : PassSt} (hs : PassRel s₁ s₂) (dep : Text) :
    PassRel (passStep c₁ pkg allowPin ds₁ s₁ dep) (passStep c₂ pkg allowPin ds₂ s₂ dep) := by
  match s₁, s₂, hs with
  | none, none, _ => trivial
  | some _, none, h => exact False.elim h
  | none, some _, h => exact False.elim h
  | some (o₁, cf₁, fl₁), some (o₂, cf₂, fl₂), h =>
    obtain ⟨ho, he⟩ := h
    simp only [Prod.mk.injEq] at he
    obtain ⟨rfl, rfl⟩ := he
    have hd := depOption_rel hc pkg allowPin hds dep
    unfold passStep
    simp only []
    generalize depOption c₁ pkg allowPin ds₁ dep = r₁ at hd
    generalize depOption c₂ pkg allowPin ds₂ dep = r₂ at hd
    cases r₁ <;> cases r₂ <;> simp only [OptR] at hd
    · exact ⟨ho, rfl⟩
    · subst hd; exact ⟨ho, rfl⟩
    · subst hd; exact ⟨ho, rfl⟩
    · obtain ⟨rfl, hl⟩ := hd; exact ⟨setT_rel ho _ hl, rfl⟩
    · trivial

theorem pass_rel {c₁ c₂ : Cfg} (hc : CfgRel c₁ c₂) (pkg : Pkg) (allowPin : Text) {ds₁ ds₂ : DepSt}
    (hds : DepStRel ds₁ ds₂) (cs : List Text) {s₁ s₂ : PassSt} (hs : PassRel s₁ s₂) :
    PassRel (cs.foldl (passStep c₁ pkg allowPin ds₁) s₁) (cs.foldl (passStep c₂ pkg allowPin ds₂) s₂) := by
  induction cs generalizing s₁ s₂ with
  | nil => exact hs
  | cons d rest ih => exact ih (passStep_rel hc pkg allowPin hds hs d)

def RecRel (rec₁ rec₂ : Pkg → List (Text × Nat) → DepSt → Res DepOut) : Prop :=
  ∀ p ps d₁ d₂, DepStRel d₁ d₂ → ResRel DepOutRel (rec₁ p ps d₁) (rec₂ p ps d₂)

def ContRel (k₁ k₂ : List Text → DepOut → Res DepOut) : Prop :=
  ∀ rest a₁ a₂, DepOutRel a₁ a₂ → ResRel DepOutRel (k₁ rest a₁) (k₂ rest a₂)

theorem afterPass_rel {c₁ c₂ : Cfg} (hc : CfgRel c₁ c₂) {rec₁ rec₂} (hrec : RecRel rec₁ rec₂) (pkg : Pkg)
    (parents : List (Text × Nat)) {acc₁ acc₂ : DepOut} (hacc : DepOutRel acc₁ acc₂)
    {opts₁ opts₂ : List (Text × List Pkg)} (ho : OptsRel opts₁ opts₂) (confs : List Text)
    {k₁ k₂} (hk : ContRel k₁ k₂) :
    ResRel DepOutRel (afterPass c₁ rec₁ pkg parents acc₁ opts₁ confs k₁)
      (afterPass c₂ rec₂ pkg parents acc₂ opts₂ confs k₂) := by
  obtain ⟨deps₁, cf₁, ⟨⟨dq₁, sel₁, fl₁⟩, ex₁, og₁⟩⟩ := acc₁
  obtain ⟨deps₂, cf₂, ⟨⟨dq₂, sel₂, fl₂⟩, ex₂, og₂⟩⟩ := acc₂
  obtain ⟨hdeps, hconf, ⟨hdq, hsel, hfl⟩, hex, hog⟩ := hacc
  simp only at hdeps hconf hdq hsel hfl hex hog
  subst hdeps hconf hsel hfl hex hog
  unfold afterPass
  have hlo := lowestOption_rel ho
  generalize lowestOption opts₁ = lo₁ at hlo
  generalize lowestOption opts₂ = lo₂ at hlo
  match lo₁, lo₂, hlo with
  | none, none, _ => exact .ok ⟨rfl, rfl, ⟨hdq, rfl, rfl⟩, rfl, rfl⟩
  | some _, none, h => exact False.elim h
  | none, some _, h => exact False.elim h
  | some (low₁, pk₁), some (low₂, pk₂), h =>
    obtain ⟨hlow, hpk⟩ := h
    simp only at hlow hpk
    subst hlow
    simp only [hc.bb₁, hc.bb₂, ho.map_fst]
    rw [minFunc_nameStable hpk]
    cases minFunc (comparePackages .eq (parseConstraint low₁).name [] ex₁ og₁) pk₂ with
    | none => exact .err
    | some best =>
      simp only []
      have hdc := disqualifyConflicts_rel hc best hdq
      generalize disqualifyConflicts c₁ best dq₁ = r₁ at hdc
      generalize disqualifyConflicts c₂ best dq₂ = r₂ at hdc
      match r₁, r₂, hdc with
      | none, none, _ => exact .err
      | some _, none, h => exact False.elim h
      | none, some _, h => exact False.elim h
      | some e₁, some e₂, hdc =>
        simp only []
        cases pick pkg sel₁ with
        | none => exact .err
        | some sel1 =>
          simp only []
          have hr := hrec best (parents ++ [(pkg.name, pkg.id)])
            ⟨⟨e₁, sel1, fl₁⟩, ex₁, og₁⟩ ⟨⟨e₂, sel1, fl₁⟩, ex₁, og₁⟩ ⟨⟨hdc, rfl, rfl⟩, rfl, rfl⟩
          generalize rec₁ best _ _ = q₁ at hr
          generalize rec₂ best _ _ = q₂ at hr
          cases hr with
          | err => exact .err
          | outOfFuel => exact .outOfFuel
          | ok hsub =>
            obtain ⟨sd, sc, ⟨sst, sex, sog⟩⟩ := hsub
            simp only []
            apply hk
            exact ⟨by rw [sd], by rw [sc], sst, by rw [sd, sex], by rw [sd, sog]⟩

theorem depLoop_rel {c₁ c₂ : Cfg} (hc : CfgRel c₁ c₂) {rec₁ rec₂} (hrec : RecRel rec₁ rec₂) (pkg : Pkg)
    (allowPin : Text) (parents : List (Text × Nat)) (fuel : Nat) (cs : List Text) {acc₁ acc₂ : DepOut}
    (hacc : DepOutRel acc₁ acc₂) :
    ResRel DepOutRel (depLoop c₁ rec₁ pkg allowPin parents fuel cs acc₁)
      (depLoop c₂ rec₂ pkg allowPin parents fuel cs acc₂) := by
  induction fuel generalizing cs acc₁ acc₂ with
  | zero => exact .outOfFuel
  | succ fuel ih =>
    rw [depLoop_succ, depLoop_succ]
    split
    · exact .ok hacc
    · obtain ⟨hdeps, hconf, hds⟩ := hacc
      have hp := pass_rel hc pkg allowPin hds cs (s₁ := some ([], acc₁.conflicts, []))
        (s₂ := some ([], acc₂.conflicts, [])) ⟨.nil, by rw [hconf]⟩
      generalize cs.foldl (passStep c₁ pkg allowPin acc₁.ds) _ = r₁ at hp
      generalize cs.foldl (passStep c₂ pkg allowPin acc₂.ds) _ = r₂ at hp
      match r₁, r₂, hp with
      | none, none, _ => exact .err
      | some _, none, h => exact False.elim h
      | none, some _, h => exact False.elim h
      | some (o₁, cf₁, fl₁), some (o₂, cf₂, fl₂), h =>
        obtain ⟨ho, he⟩ := h
        simp only [Prod.mk.injEq] at he
        obtain ⟨rfl, rfl⟩ := he
        simp only []
        apply afterPass_rel hc hrec pkg parents _ ho
        · intro rest a₁ a₂ ha; exact ih rest ha
        · exact ⟨hdeps, hconf, hds.1.foldl_flag _, hds.2.1, hds.2.2⟩

theorem getDeps_rel {c₁ c₂ : Cfg} (hc : CfgRel c₁ c₂) (fuel : Nat) (pkg : Pkg) (allowPin : Text)
    (parents : List (Text × Nat)) {ds₁ ds₂ : DepSt} (hds : DepStRel ds₁ ds₂) :
    ResRel DepOutRel (getDeps c₁ fuel pkg allowPin parents ds₁) (getDeps c₂ fuel pkg allowPin parents ds₂) := by
  induction fuel generalizing pkg parents ds₁ ds₂ with
  | zero => exact .outOfFuel
  | succ fuel ih =>
    unfold getDeps
    split
    · apply ResRel.ok
      refine ⟨rfl, rfl, ?_⟩
      split
      · exact ⟨hds.1.flag _, hds.2.1, hds.2.2⟩
      · exact hds
    · have hcn := constrain_rel hc pkg.deps hds.1.1
      generalize constrain c₁ pkg.deps ds₁.st.dq = r₁ at hcn
      generalize constrain c₂ pkg.deps ds₂.st.dq = r₂ at hcn
      match r₁, r₂, hcn with
      | none, none, _ => exact .err
      | some _, none, h => exact False.elim h
      | none, some _, h => exact False.elim h
      | some e₁, some e₂, h =>
        simp only []
        apply depLoop_rel hc _ pkg allowPin parents
        · exact ⟨rfl, rfl, ⟨h, hds.1.2.1, hds.1.2.2⟩, hds.2.1, hds.2.2⟩
        · intro p ps d₁ d₂ hd; exact ih p ps hd

end Apko.Cmp
