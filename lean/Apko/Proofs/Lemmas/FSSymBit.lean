import Apko.Proofs.Lemmas.FSWalkDir
import Apko.Proofs.Lemmas.FSShape
/-! `SymOK` (directories are not symbolic links — what path resolution needs in order to descend into
a directory entry instead of following a link target) is preserved by every operation whose
permission argument carries no `ModeSymlink` bit. -/
namespace Apko.FS
open Apko Apko.Path

def SOK (n : Inode) : Prop := n.dir = true → n.isSymlink = false

structure SB (fs : FS) : Prop where
  ok : ∀ i, SOK (fs.node i)

theorem SB.toSymOK {fs : FS} (h : SB fs) : SymOK fs := h.ok
theorem SB.of {fs : FS} (h : SymOK fs) : SB fs := ⟨h⟩

theorem SOK.default : SOK (default : Inode) := by intro h; cases h

/-- a node that is not a directory -/
theorem SOK.file (n : Inode) (h : n.dir = false) : SOK n := by intro h'; rw [h] at h'; cases h'

theorem SB.empty : SB FS.empty := by
  refine ⟨fun i => ?_⟩
  rcases i with _ | i
  · intro _; decide
  · rw [node_empty_succ]; exact SOK.default

theorem SB.of_nodes_eq {fs fs' : FS} (h : fs'.nodes = fs.nodes) (hb : SB fs) : SB fs' := by
  refine ⟨fun i => ?_⟩
  have : fs'.node i = fs.node i := by simp [FS.node, h]
  rw [this]; exact hb.ok i

theorem SB.handles {fs : FS} (hs : List Handle) (hb : SB fs) : SB { fs with handles := hs } :=
  SB.of_nodes_eq (fs := fs) rfl hb

theorem SB.setNode {fs : FS} (hb : SB fs) (i : Nat) (n : Inode) (hn : SOK n) : SB (fs.setNode i n) := by
  refine ⟨fun j => ?_⟩
  rw [node_setNode]
  split
  · exact hn
  · exact hb.ok j

theorem SB.modify {fs : FS} (hb : SB fs) (i : Nat) (f : Inode → Inode)
    (hf : SOK (fs.node i) → SOK (f (fs.node i))) : SB (fs.modify i f) :=
  hb.setNode i _ (hf (hb.ok i))

theorem SB.modify_same {fs : FS} (hb : SB fs) (i : Nat) (f : Inode → Inode)
    (hm : ∀ n, (f n).mode = n.mode) (hd : ∀ n, (f n).dir = n.dir) : SB (fs.modify i f) :=
  hb.modify i f (by intro h; unfold SOK Inode.isSymlink; rw [hm, hd]; exact h)

theorem SB.setNode_same {fs : FS} (hb : SB fs) (i : Nat) (n : Inode)
    (hm : n.mode = (fs.node i).mode) (hd : n.dir = (fs.node i).dir) : SB (fs.setNode i n) :=
  hb.setNode i n (by intro h; unfold Inode.isSymlink; rw [hm]; rw [hd] at h; exact hb.ok i h)

theorem SB.alloc {fs : FS} (hb : SB fs) (nd : Inode) (hn : SOK nd) : SB (fs.alloc nd).1 := by
  refine ⟨fun j => ?_⟩
  rw [node_alloc]
  split
  · exact hn
  · exact hb.ok j

theorem SB.link {fs : FS} (hb : SB fs) (d : Nat) (n : Name) (t : Nat) : SB (fs.link d n t) :=
  hb.modify_same d _ (fun _ => rfl) (fun _ => rfl)

theorem SB.unlink {fs : FS} (hb : SB fs) (d : Nat) (n : Name) : SB (fs.unlink d n) :=
  hb.modify_same d _ (fun _ => rfl) (fun _ => rfl)

theorem SB.create {fs : FS} (hb : SB fs) (d : Nat) (n : Name) (nd : Inode) (hn : SOK nd) :
    SB (fs.create d n nd).1 := by
  unfold FS.create
  exact (hb.alloc nd hn).link d n _

/-- a permission argument without the `ModeSymlink` bit -/
def noSymBit (perm : Nat) : Prop := perm.testBit 27 = false

theorem sok_newDir (mode : Nat) (hm : noSymBit mode) : SOK (newDir mode) := fun _ => hm

theorem dirMode_noSymBit (perm : Nat) (hp : noSymBit perm) : noSymBit (modeDir ||| perm) := by
  unfold noSymBit at *
  rw [Nat.testBit_or, modeDir_bit27, hp]; rfl

theorem mkdirAllLoop_sb (c : Cfg) (mode : Nat) (hm : noSymBit mode) :
    ∀ (rest : List Name) (fs : FS) (at_ : Pos) (tr : List Name),
      SB fs → SB (mkdirAllLoop c mode rest fs at_ tr).1 := by
  intro rest
  induction rest with
  | nil => intro fs at_ tr hb; simpa [mkdirAllLoop] using hb
  | cons part rest ih =>
    intro fs at_ tr hb
    unfold mkdirAllLoop
    cases hl : fs.lookup at_.ino part with
    | some n =>
      simp only []
      repeat' split
      all_goals (try exact hb)
      all_goals (exact ih _ _ _ hb)
    | none =>
      have hb1 := hb.create at_.ino part (newDir mode) (sok_newDir mode hm)
      simp only []
      repeat' split
      all_goals (try exact hb1)
      all_goals (exact ih _ _ _ hb1)

theorem mkdirAll_sb (c : Cfg) (fs : FS) (p : Text) (perm : Nat) (hp : noSymBit perm) (hb : SB fs) :
    SB (mkdirAll c fs p perm).1 := by
  unfold mkdirAll
  simp only []
  split
  · exact hb
  · have := mkdirAllLoop_sb c (modeDir ||| perm) (dirMode_noSymBit perm hp) ((parts p).filter (· ≠ dot)) fs { ino := 0 } [] hb
    split <;> simp_all

theorem openFileD_sb (c : Cfg) (flag perm : Nat) :
    ∀ (budget : Nat) (fs : FS) (start : List Ino) (name : Text),
      SB fs → SB (openFileD c flag perm budget fs start name).1 := by
  intro budget
  induction budget with
  | zero =>
    intro fs start name hb
    unfold openFileD
    simp only []
    repeat' split
    all_goals (try exact hb)
    all_goals (try exact hb.create _ _ _ (SOK.file _ rfl))
    all_goals (try exact SB.setNode_same (hb.create _ _ _ (SOK.file _ rfl)) _ _ rfl rfl)
    all_goals (exact SB.setNode_same hb _ _ rfl rfl)
  | succ k ih =>
    intro fs start name hb
    unfold openFileD
    simp only []
    repeat' split
    all_goals (try exact hb)
    all_goals (try exact ih _ _ _ hb)
    all_goals (try exact ih _ _ _ (hb.create _ _ _ (SOK.file _ rfl)))
    all_goals (try exact hb.create _ _ _ (SOK.file _ rfl))
    all_goals (try exact SB.setNode_same (hb.create _ _ _ (SOK.file _ rfl)) _ _ rfl rfl)
    all_goals (exact SB.setNode_same hb _ _ rfl rfl)

theorem openCore_sb (c : Cfg) (fs : FS) (name : Text) (flag perm : Nat) (hb : SB fs) :
    SB (openCore c fs name flag perm).1 := by
  unfold openCore
  have := openFileD_sb c flag perm maxLinks fs [0] name hb
  split
  · rename_i heq; simpa [heq] using this
  · rename_i fs1 o heq
    simp only [heq] at this
    simp only [newMemFile]
    split
    · exact SB.setNode_same this _ _ rfl rfl
    · exact this

theorem setXattr_sb (c : Cfg) (fs : FS) (p : Text) (a : Name) (d : Text) (hb : SB fs) :
    SB (setXattr c fs p a d).1 := by
  unfold setXattr
  split
  · exact hb
  · simp only []
    apply SB.modify_same hb <;> (intro n; rfl)

theorem setXattrs_sb (c : Cfg) (name : Text) :
    ∀ (l : List (Name × Text)) (fs : FS), SB fs → SB (setXattrs c name l fs).1 := by
  intro l
  induction l with
  | nil => intro fs hb; simpa [setXattrs] using hb
  | cons e rest ih =>
    intro fs hb
    obtain ⟨k, v⟩ := e
    unfold setXattrs
    have := setXattr_sb c fs name k v hb
    generalize setXattr c fs name k v = r at this
    obtain ⟨fs1, o⟩ := r
    cases o <;> simp only [] <;> first | exact ih _ this | exact this

theorem finishXattrs_sb (c : Cfg) (h : Hdr) (fs : FS) (v : Val) (hb : SB fs) : SB (finishXattrs c h fs v).1 := by
  unfold finishXattrs
  have := setXattrs_sb c h.name h.xattrs fs hb
  split <;> simp_all

theorem linkOp_sb (c : Cfg) (fs : FS) (o n : Text) (hdr : Bool) (hb : SB fs) : SB (linkOp c fs o n hdr).1 := by
  unfold linkOp
  repeat' split
  all_goals (try exact hb)
  all_goals
    simp only []
    apply SB.modify_same (hb.link _ _ _) <;> (intro n; rfl)

theorem writeHeaderFile_sb (c : Cfg) (fs : FS) (h : Hdr) (sum : Text) (hb : SB fs) :
    SB (writeHeaderFile c fs h sum).1 := by
  unfold writeHeaderFile
  simp only []
  repeat' split
  all_goals (try exact hb)
  all_goals exact hb.create _ _ _ (SOK.file _ rfl)

theorem perm777_noSymBit (m : Nat) : noSymBit (m &&& 0o777) := by
  unfold noSymBit
  rw [Nat.testBit_and]
  have : (0o777 : Nat).testBit 27 = false := by decide
  simp [this]

theorem whDir_sb (c : Cfg) (fs : FS) (h : Hdr) (hb : SB fs) : SB (whDir c fs h).1 := by
  unfold whDir
  have h1 := mkdirAll_sb c fs h.name (h.mode &&& 0o777) (perm777_noSymBit _) hb
  generalize mkdirAll c fs h.name (h.mode &&& 0o777) = r at h1
  obtain ⟨fs1, o⟩ := r
  cases o with
  | ok v =>
    simp only []
    split
    · exact h1
    · apply finishXattrs_sb
      apply SB.modify_same h1 <;> (intro n; rfl)
  | err e => exact h1
  | nohandle => exact h1

theorem whFile_sb (c : Cfg) (fs : FS) (h : Hdr) (hb : SB fs) : SB (whFile c fs h).1 := by
  unfold whFile
  split
  · exact hb
  · split
    · exact hb
    · rename_i sum _
      have h1 := writeHeaderFile_sb c fs h sum hb
      generalize writeHeaderFile c fs h sum = r at h1 ⊢
      obtain ⟨fs1, o⟩ := r
      cases o with
      | error e => exact h1
      | ok b => exact finishXattrs_sb c h fs1 _ h1

theorem writeHeaderOp_sb (c : Cfg) (fs : FS) (h : Hdr) (hb : SB fs) : SB (writeHeaderOp c fs h).1 := by
  unfold writeHeaderOp
  split
  · exact hb
  · split
    · exact whDir_sb c fs h hb
    · split
      · exact whFile_sb c fs h hb
      · split
        · have h1 := linkOp_sb c fs h.linkname h.name true hb
          generalize linkOp c fs h.linkname h.name true = r at h1
          obtain ⟨fs1, o⟩ := r
          cases o <;> exact h1
        · exact hb

/-- the permission arguments that end up in the mode of a directory carry no `ModeSymlink` bit -/
def opSymOK : Op → Prop
  | .mkdir _ perm => noSymBit perm
  | .mkdirAll _ perm => noSymBit perm
  | .chmod _ perm => noSymBit perm
  | _ => True

theorem sb_step (c : Cfg) (fs : FS) (op : Op) (hm : opSymOK op) (hb : SB fs) : SB (step c fs op).1 := by
  cases op with
  | mkdirAll p perm => exact mkdirAll_sb c fs p perm hm hb
  | openFile p flag perm =>
    simp only [step]
    have := openCore_sb c fs p flag perm hb
    split <;> (rename_i heq; simp only [heq] at this; exact SB.handles _ this)
  | create p =>
    simp only [step]
    have := openCore_sb c fs p flagsWriteFile 0o666 hb
    split <;> (rename_i heq; simp only [heq] at this; exact SB.handles _ this)
  | readFile p =>
    simp only [step]
    have := openCore_sb c fs p 0 0o644 hb
    split <;> (rename_i heq; simp only [heq] at this; exact this)
  | writeFile p data perm =>
    simp only [step]
    have := openCore_sb c fs p flagsWriteFile perm hb
    split
    · rename_i heq; simp only [heq] at this; exact this
    · rename_i heq; simp only [heq] at this; exact SB.setNode_same this _ _ rfl rfl
  | setXattr p a d => exact setXattr_sb c fs p a d hb
  | link o n => exact linkOp_sb c fs o n false hb
  | writeHeader h => exact writeHeaderOp_sb c fs h hb
  | chmod p perm =>
    simp only [step]
    split
    · exact hb
    · simp only []
      apply hb.modify
      intro h0 h1
      have hm' : perm.testBit 27 = false := hm
      show (typeKeep _ perm).testBit 27 = false
      rw [typeKeep_bit27 _ _ hm']
      exact h0 h1
  | mkdir p perm =>
    simp only [step]
    repeat' split
    all_goals (try exact hb)
    exact hb.create _ _ _ (sok_newDir _ (dirMode_noSymBit perm hm))
  | _ =>
    simp only [step]
    repeat' split
    all_goals (try exact hb)
    all_goals (try exact SB.handles _ hb)
    all_goals (try exact hb.create _ _ _ (SOK.file _ rfl))
    all_goals (try (simp only []; apply SB.modify_same hb <;> (intro n; rfl)))
    all_goals (try exact SB.handles _ (SB.setNode_same hb _ _ rfl rfl))
    all_goals (try exact SB.unlink (SB.modify_same hb _ _ (by intro n; rfl) (by intro n; rfl)) _ _)

/-- **symok_step** -/
theorem symok_step (c : Cfg) (fs : FS) (op : Op) (hm : opSymOK op) (hb : SymOK fs) : SymOK (step c fs op).1 :=
  (sb_step c fs op hm ⟨hb⟩).ok

end Apko.FS
