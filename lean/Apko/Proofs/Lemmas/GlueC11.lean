/-
C11, the glue after the generator: `apko publish` attaches to a manifest the document generated for THAT digest and
platform (variant included), and a document is encoded straight into its own file (no shared buffer between the
per-architecture generators).  Facts regenerated from pkg/build/oci/sbom.go and pkg/sbom/generator/spdx/spdx.go.
-/
import Apko.Generated.GlueLayer

namespace Apko.C11.Glue
open Apko

theorem tie_glue_attach_by_digest_and_platform : Generated.attachSBOMConds =
    ["s.Digest != h",
     "(s.Arch == \"\" && platform == nil) || types.ParseArchitecture(s.Arch).ToOCIPlatform().String() == platform.String()"] := rfl

theorem tie_glue_render_doc : Generated.renderDocCalls =
    ["os.Create(path)", "fmt.Errorf(\"opening SBOM path %s for writing: %w\", path, err)", "out.Close()",
     "json.NewEncoder(out)", "enc.SetIndent(\"\", \" \")", "enc.SetEscapeHTML(true)", "enc.Encode(doc)",
     "fmt.Errorf(\"encoding spdx sbom: %w\", err)"] := rfl

/-- where GenerateImageSBOM takes every input of the generator from: layers and digest from the image that was built,
the package list from the installed database of the file system that becomes the image, OS data and embedded SBOMs
from the build's own file system (`bc.fs`: on top of a base image that is the new layer only) -/
theorem tie_glue_sbom_inputs : Generated.sbomImageInputs =
    ["s := newSBOM(ctx, bc.fs, bc.o, bc.ic, bde)",
     "s.ImageInfo.Layers = m.Layers <- img.Manifest()",
     "s.OS.Name = info.Name <- readReleaseData(bc.fs)",
     "s.OS.ID = info.ID <- readReleaseData(bc.fs)",
     "s.OS.Version = info.VersionID <- readReleaseData(bc.fs)",
     "s.Packages = pkgs <- bc.apk.GetInstalled()",
     "s.ImageInfo.ImageDigest = h.String() <- img.Digest()",
     "s.ImageInfo.Arch = arch",
     "generator.Generators(bc.fs)"] := rfl

theorem tie_glue_sbom_packages_expr : Generated.sbomPackagesExpr = "bc.apk.GetInstalled()" := rfl

end Apko.C11.Glue
