/-
C11, the glue after the generator: `apko publish` attaches to a manifest the document generated for THAT digest and
platform (variant included), and a document is encoded straight into its own file (no shared buffer between the
per-architecture generators).  Facts regenerated from pkg/build/oci/sbom.go and pkg/sbom/generator/spdx/spdx.go.
-/
import Apko.Generated.GlueLayer

namespace Apko.C11.Glue
open Apko

theorem tie_glue_attach_by_digest_and_platform : Generated.attachSBOMConds =
    ["s.Digest != h",
     "(s.Arch == \"\" && platform == nil) || types.ParseArchitecture(s.Arch).ToOCIPlatform().String() == platform.String()"] := rfl

theorem tie_glue_render_doc : Generated.renderDocCalls =
    ["os.Create(path)", "fmt.Errorf(\"opening SBOM path %s for writing: %w\", path, err)", "out.Close()",
     "json.NewEncoder(out)", "enc.SetIndent(\"\", \" \")", "enc.SetEscapeHTML(true)", "enc.Encode(doc)",
     "fmt.Errorf(\"encoding spdx sbom: %w\", err)"] := rfl

end Apko.C11.Glue
