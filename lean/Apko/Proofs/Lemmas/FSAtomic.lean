import Apko.Proofs.Lemmas.FSBasic
/-! Failure atomicity of the in-memory file systems: an operation that reports an error returns the
state it was given. -/
namespace Apko.FS
open Apko Apko.Path

theorem dir_lt (fs : FS) (d : Nat) (h : (fs.node d).dir = true) : d < fs.nodes.length := by
  by_cases hl : d < fs.nodes.length
  · exact hl
  · rw [node_default_of_ge fs d (by omega)] at h; exact absurd h (by decide)

@[simp] theorem create_ino (fs : FS) (d : Nat) (n : Name) (nd : Inode) : (fs.create d n nd).2 = fs.nodes.length := rfl

theorem node_create_new (fs : FS) (d : Nat) (n : Name) (nd : Inode) (h : (fs.node d).dir = true) :
    (fs.create d n nd).1.node fs.nodes.length = nd := by
  have hd := dir_lt fs d h
  simp only [FS.create, FS.link, node_modify, node_alloc]
  have : fs.nodes.length ≠ d := by omega
  simp [this]

theorem node_create_parent (fs : FS) (d : Nat) (n : Name) (nd : Inode) (h : (fs.node d).dir = true) :
    (fs.create d n nd).1.node d =
      { fs.node d with children := setChild (fs.node d).children n fs.nodes.length } := by
  have hd := dir_lt fs d h
  simp only [FS.create, FS.link, node_modify, node_alloc]
  have : d ≠ fs.nodes.length := by omega
  simp [this]; omega

theorem node_create_other (fs : FS) (d j : Nat) (n : Name) (nd : Inode)
    (h1 : j ≠ d) (h2 : j ≠ fs.nodes.length) : (fs.create d n nd).1.node j = fs.node j := by
  simp only [FS.create, FS.link, node_modify, node_alloc]
  simp [h1, h2]

/-- a permission argument that does not carry the symlink type bit (every caller in apko) -/
def permOK (perm : Nat) : Prop := perm.testBit 27 = false

theorem isSymlink_new (perm : Nat) (hp : permOK perm) : Inode.isSymlink { mode := perm } = false := hp

theorem openFileD_err (c : Cfg) (flag perm : Nat) (hp : permOK perm) :
    ∀ (budget : Nat) (fs : FS) (start : List Ino) (name : Text) (e : Err),
      (openFileD c flag perm budget fs start name).2 = .error e →
      (openFileD c flag perm budget fs start name).1 = fs := by
  intro budget
  induction budget with
  | zero =>
    intro fs start name e
    unfold openFileD
    simp only []
    repeat' split
    all_goals (try simp)
    all_goals simp_all [node_create_new, isSymlink_new]
  | succ k ih =>
    intro fs start name e
    unfold openFileD
    simp only []
    repeat' split
    all_goals (try simp)
    all_goals (try exact ih _ _ _ e)
    all_goals simp_all [node_create_new, isSymlink_new]

theorem modeDir_bit27 : modeDir.testBit 27 = false := by decide

theorem dirMode_ok (perm : Nat) (hp : permOK perm) : (modeDir ||| perm).testBit 27 = false := by
  rw [Nat.testBit_or, modeDir_bit27, hp]; rfl

theorem isSymlink_newDir (mode : Nat) (hm : mode.testBit 27 = false) : (newDir mode).isSymlink = false := hm

/-- inside a directory that was just created nothing can fail -/
theorem mkdirAllLoop_fresh (c : Cfg) (mode : Nat) (hm : mode.testBit 27 = false) :
    ∀ (rest : List Name) (fs : FS) (at_ : Pos) (tr : List Name),
      (fs.node at_.ino).dir = true → (fs.node at_.ino).children = [] →
      (mkdirAllLoop c mode rest fs at_ tr).2 = none := by
  intro rest
  induction rest with
  | nil => intros; simp [mkdirAllLoop]
  | cons part rest ih =>
    intro fs at_ tr hd hc
    unfold mkdirAllLoop
    have hl : fs.lookup at_.ino part = none := by simp [FS.lookup, hc]
    simp only [hl, create_ino, node_create_new fs _ _ _ hd, isSymlink_newDir mode hm]
    simp only [newDir, Bool.false_eq_true, if_false]
    have hn : (fs.create at_.ino part { dir := true, mode := mode }).1.node fs.nodes.length =
        { dir := true, mode := mode } := node_create_new fs _ _ _ hd
    simp only [hn, Bool.not_true, Bool.false_eq_true, if_false]
    apply ih
    · simp [hn]
    · simp [hn]

theorem mkdirAllLoop_err (c : Cfg) (mode : Nat) (hm : mode.testBit 27 = false) :
    ∀ (rest : List Name) (fs : FS) (at_ : Pos) (tr : List Name) (e : Err),
      (fs.node at_.ino).dir = true →
      (mkdirAllLoop c mode rest fs at_ tr).2 = some e →
      (mkdirAllLoop c mode rest fs at_ tr).1 = fs := by
  intro rest
  induction rest with
  | nil => intros; simp_all [mkdirAllLoop]
  | cons part rest ih =>
    intro fs at_ tr e hd
    cases hl : fs.lookup at_.ino part with
    | some n =>
      unfold mkdirAllLoop
      simp only [hl]
      repeat' split
      all_goals (try simp)
      all_goals (try (apply ih; simp_all))
      all_goals simp_all
    | none =>
      intro h
      exfalso
      have := mkdirAllLoop_fresh c mode hm rest (fs.create at_.ino part (newDir mode)).1
        { ino := fs.nodes.length, stack := fs.nodes.length :: at_.stack } (tr ++ [part])
        (by simp [node_create_new fs _ _ _ hd, newDir]) (by simp [node_create_new fs _ _ _ hd, newDir])
      unfold mkdirAllLoop at h
      simp only [hl, create_ino, node_create_new fs _ _ _ hd, isSymlink_newDir mode hm] at h
      simp only [newDir, Bool.false_eq_true, if_false] at h this
      have hn : (fs.create at_.ino part { dir := true, mode := mode }).1.node fs.nodes.length =
          { dir := true, mode := mode } := node_create_new fs _ _ _ hd
      simp only [hn, Bool.not_true, Bool.false_eq_true, if_false] at h
      rw [this] at h
      cases h

end Apko.FS
