/-
C16: a non-trivial installed package that satisfies every hypothesis of the installed-db theorems
(evaluated with the `sortChildren` equations, since `decide` cannot run well-founded recursion).
-/
import Apko.Proofs.Lemmas.FormatsIdb

namespace Apko.Formats
open Apko

/-- a header list in `sortTarHeaders` order: nested directories, special modes, owners, both checksum forms -/
def sampleFiles : List FileRec :=
  [⟨"etc".toList, true, 0o755, 0, 0, []⟩,
   ⟨"etc/passwd".toList, false, 0o644, 0, 0, []⟩,
   ⟨"etc/shadow".toList, false, 0o640, 0, 42, "00ff".toList⟩,
   ⟨"usr".toList, true, 0o755, 0, 0, []⟩,
   ⟨"usr/bin".toList, true, 0o700, 1, -1, []⟩,
   ⟨"usr/bin/sh".toList, false, 0o4755, 0, 0, "Q1abc=".toList⟩]

theorem sampleFiles_sorted : sortHeaders sampleFiles = some sampleFiles := by
  unfold sortHeaders
  simp only []
  have h1 : (dedupTexts (sampleFiles.map fun h => pathDir (pathClean h.name))).filter (fun d => pathDir d = ['.'])
      = [".".toList, "etc".toList, "usr".toList] := by decide
  rw [h1, sortTexts_sorted _ (by decide)]
  apply Eq.trans
  · apply sortChildren_eval
    · decide
    · apply go_eval_cons                                  -- etc
      · apply sortChildren_eval
        · decide
        · exact sortChildren.go.eq_1 _ _
      · apply go_eval_cons                                -- usr
        · apply sortChildren_eval
          · decide
          · apply go_eval_cons                            -- usr/bin
            · apply sortChildren_eval
              · decide
              · exact sortChildren.go.eq_1 _ _
            · exact sortChildren.go.eq_1 _ _
        · exact sortChildren.go.eq_1 _ _
  · decide

/-- the same headers in another order: `sortTarHeaders` restores the order above -/
theorem sampleFiles_shuffled : sortHeaders sampleFiles.reverse = some sampleFiles := by
  unfold sortHeaders
  simp only []
  have h1 : (dedupTexts (sampleFiles.reverse.map fun h => pathDir (pathClean h.name))).filter (fun d => pathDir d = ['.'])
      = ["usr".toList, ".".toList, "etc".toList] := by decide
  have h2 : sortTexts ["usr".toList, ".".toList, "etc".toList] = [".".toList, "etc".toList, "usr".toList] := by
    simp [sortTexts, List.mergeSort, List.MergeSort.Internal.splitInTwo, textLe]
  rw [h1, h2]
  have h3 : sortTexts (childrenOf sampleFiles.reverse "etc".toList) = ["etc/passwd".toList, "etc/shadow".toList] := by
    rw [show childrenOf sampleFiles.reverse "etc".toList = ["etc/shadow".toList, "etc/passwd".toList] by decide]
    simp [sortTexts, List.mergeSort, List.MergeSort.Internal.splitInTwo, textLe]
  apply Eq.trans
  · apply sortChildren_eval
    · decide
    · apply go_eval_cons
      · apply sortChildren_evalSorted _ _ _ _ _ h3
        exact sortChildren.go.eq_1 _ _
      · apply go_eval_cons
        · apply sortChildren_eval
          · decide
          · apply go_eval_cons
            · apply sortChildren_eval
              · decide
              · exact sortChildren.go.eq_1 _ _
            · exact sortChildren.go.eq_1 _ _
        · exact sortChildren.go.eq_1 _ _
  · decide

def samplePkgI : Pkg :=
  { name := "busybox".toList, version := "1.36.1-r2".toList, arch := "x86_64".toList, description := "a b".toList,
    checksum := "abc".toList, deps := ["so:libc.musl-x86_64.so.1".toList, "a>1".toList], provides := [],
    installIf := ["x".toList, "y=1".toList], replaces := ["r".toList], size := 18446744073709551615,
    installedSize := 0, priority := 7, buildTime := 1700000000 }

def sampleIPkg : IPkg := ⟨samplePkgI, sampleFiles⟩
def sampleIPkg' : IPkg := ⟨{ name := ['b'] }, sampleFiles.reverse⟩

end Apko.Formats
