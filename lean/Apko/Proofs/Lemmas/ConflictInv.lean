import Apko.Proofs.Lemmas.Conflict
/-! the owner invariant of the installation fold (C07) -/
namespace Apko.C07
open Apko Apko.Conflict Apko.Path

/-- `installedFiles` tells the truth about the tree: a name it maps to package `j` is a clean name
and the tree holds, at that path, a regular file whose content is `j`'s -/
def OwnerInv (st : St) : Prop :=
  ∀ name j, st.inst.lookup name = some j →
    joinNames (parts name) = name ∧
    ∃ sum perm emp, lookupT st.tree (parts name) = some (.file sum perm (some j) emp)

/-- the ghost flags that cannot break the owner invariant: a decision that differs from the rule table
(F07b, F07h) still updates tree and `installedFiles` together, and a kept base file (F07i) changes neither -/
def Flag.benign : Flag → Bool
  | .emptyOrigin _ => true
  | .versioned _ => true
  | .baseKept _ => true
  | _ => false

/-- every raised flag is benign -/
def Benign (x : List Flag) : Prop := ∀ f ∈ x, Flag.benign f = true

theorem Benign_nil : Benign [] := by intro f hf; cases hf

theorem Benign_append {x y : List Flag} : Benign (x ++ y) ↔ Benign x ∧ Benign y := by
  unfold Benign
  constructor
  · intro h; exact ⟨fun f hf => h f (List.mem_append_left _ hf), fun f hf => h f (List.mem_append_right _ hf)⟩
  · rintro ⟨h1, h2⟩ f hf
    rcases List.mem_append.1 hf with hf | hf
    · exact h1 f hf
    · exact h2 f hf

/-- what one header may do to (tree, installedFiles) when it raises no flag -/
inductive Shape (i : Nat) (e : Entry) (st st' : St) : Prop
  | same (ht : st'.tree = st.tree) (hi : st'.inst = st.inst)
  | grow (hi : st'.inst = st.inst)
      (ht : ∀ q n, lookupT st.tree q = some n → lookupT st'.tree q = some n)
  | wrote (hk : e.kind = .reg) (hi : st'.inst = (e.name, i) :: st.inst) (t0 : Tree)
      (h0 : ∀ q, q ≠ parts e.name → lookupT t0 q = lookupT st.tree q)
      (ht : st'.tree = setT t0 (parts e.name) (fileNode i e))
  | linked (hi : st'.inst = st.inst) (hn : lookupT st.tree (parts e.name) = none) (n : Node)
      (ht : st'.tree = setT st.tree (parts e.name) n)

theorem parts_inj {a b : Text} (ha : joinNames (parts a) = a) (hb : joinNames (parts b) = b)
    (h : parts a = parts b) : a = b := by
  rw [← ha, ← hb, h]

theorem OwnerInv_of_shape {i : Nat} {e : Entry} {st st' : St} (hc' : e.kind = .reg → joinNames (parts e.name) = e.name)
    (hs : Shape i e st st') (hI : OwnerInv st) : OwnerInv st' := by
  intro name j hl
  cases hs with
  | same ht hi => rw [hi] at hl; rw [ht]; exact hI name j hl
  | grow hi ht =>
    rw [hi] at hl
    obtain ⟨h1, s, p, em, h2⟩ := hI name j hl
    exact ⟨h1, s, p, em, ht _ _ h2⟩
  | wrote hk hi t0 h0 ht =>
    have hc := hc' hk
    rw [hi] at hl
    by_cases hn : name = e.name
    · rw [hn] at hl ⊢
      have : j = i := by
        simp [List.lookup] at hl
        exact hl.symm
      subst this
      refine ⟨hc, e.sum, permOf e, e.size == 0, ?_⟩
      rw [ht, lookupT_setT_self]; rfl
    · have hb : (name == e.name) = false := by simpa using hn
      rw [List.lookup_cons, hb] at hl
      obtain ⟨h1, s, p, em, h2⟩ := hI name j hl
      have hne : parts name ≠ parts e.name := fun h => hn (parts_inj h1 hc h)
      refine ⟨h1, s, p, em, ?_⟩
      rw [ht, lookupT_setT_ne _ _ _ _ hne, h0 _ hne]; exact h2
  | linked hi hn n ht =>
    rw [hi] at hl
    obtain ⟨h1, s, p, em, h2⟩ := hI name j hl
    have hne : parts name ≠ parts e.name := by
      intro h; rw [h, hn] at h2; cases h2
    exact ⟨h1, s, p, em, by rw [ht, lookupT_setT_ne _ _ _ _ hne]; exact h2⟩

/-- `MkdirAll` only adds directories where nothing was -/
theorem mkdirAllAux_grows (perm : Nat) :
    ∀ comps t trav cur t', mkdirAllAux perm comps t trav cur = some t' →
      ∀ q n, lookupT t q = some n → lookupT t' q = some n := by
  intro comps
  induction comps with
  | nil => intro t trav cur t' h q n hq; simp [mkdirAllAux] at h; subst h; exact hq
  | cons c rest ih =>
    intro t trav cur t' h q n hq
    unfold mkdirAllAux at h
    split at h
    · rename_i hnone
      refine ih _ _ _ _ h q n ?_
      have hne : q ≠ cur ++ [c] := by
        intro he; rw [he, hnone] at hq; cases hq
      have hb : (q == cur ++ [c]) = false := by simpa using hne
      show List.lookup q ((cur ++ [c], Node.dir perm) :: t) = some n
      rw [List.lookup_cons, hb]; exact hq
    · exact ih _ _ _ _ h q n hq
    · cases h
    · split at h
      · split at h
        · exact ih _ _ _ _ h q n hq
        · cases h
      · cases h

end Apko.C07

namespace Apko.C07
open Apko Apko.Conflict Apko.Path

theorem dropLast_getLastD (l : List Name) (h : l ≠ []) : l.dropLast ++ [l.getLastD []] = l := by
  have := List.dropLast_concat_getLast h
  rw [List.getLastD_eq_getLast?, List.getLast?_eq_some_getLast h]
  simpa using this

/-- no alias flag: the directory of the entry is its lexical directory -/
theorem own_path {t : Tree} {e : Entry} {d : PathK} (hp : parentOf t (parts e.name) = some d)
    (hal : aliasFlag t e = []) (hne : parts e.name ≠ []) :
    d ++ [(parts e.name).getLastD []] = parts e.name := by
  unfold aliasFlag at hal
  split at hal
  · cases hal
  · rw [hp] at hal
    by_cases hd : d = (parts e.name).dropLast
    · rw [hd]; exact dropLast_getLastD _ hne
    · simp [hd] at hal

/-- no alias flag: the header name is a clean path -/
theorem clean_of_aliasFlag {t : Tree} {e : Entry} (hal : aliasFlag t e = []) : joinNames (parts e.name) = e.name := by
  unfold aliasFlag at hal
  split at hal
  · cases hal
  · rename_i h; simpa using h

theorem append_eq_self {α} (l x : List α) (h : l ++ x = l) : x = [] := by
  have := congrArg List.length h
  simpa using this

theorem streamLink_shape (c : Cfg) (i : Nat) (e : Entry) (st st' : St) (b : Bool)
    (h : streamLink c i e st = .ok (st', b)) (hne : parts e.name ≠ []) (hal : aliasFlag st.tree e = []) :
    st'.flags = st.flags ∧ Shape i e st st' := by
  unfold streamLink at h
  dsimp only at h
  split at h
  · cases h
  · rename_i d hp
    have hown := own_path hp hal hne
    simp only [hown] at h
    split at h
    · rename_i hnone
      cases h
      exact ⟨rfl, Shape.linked rfl hnone _ rfl⟩
    · split at h
      · cases h; exact ⟨rfl, Shape.same rfl rfl⟩
      · cases h
    · cases h


theorem overwrite_ne (c : Cfg) (hc : c.spec = false) (got : Pkg) (gs : Text) (want : Pkg) (ws : Text)
    (h : decideOwned c got gs want ws = .overwrite) : gs ≠ ws := by
  intro he
  subst he
  unfold decideOwned at h
  rw [hc] at h
  cases hb : c.backend <;> simp [hb, decideLazy, decideStream] at h
  all_goals (split at h <;> simp_all)

theorem lazyFile_shape (c : Cfg) (hc : c.spec = false) (pkgs : List Pkg) (i : Nat) (e : Entry) (st st' : St) (b : Bool)
    (h : lazyFile c pkgs i e st = .ok (st', b)) (hne : parts e.name ≠ []) (hal : aliasFlag st.tree e = [])
    (hkd : e.kind ≠ .dir) :
    ∃ x, st'.flags = st.flags ++ x ∧ (Benign x → Shape i e st st') := by
  unfold lazyFile at h
  dsimp only at h
  split at h
  · cases h
  · rename_i d hp
    have hown := own_path hp hal hne
    simp only [hown] at h
    split at h
    · -- nothing there: the node is created
      rename_i hnone
      cases h
      refine ⟨[], by simp, fun _ => ?_⟩
      by_cases hk : e.kind = .reg
      · refine Shape.wrote hk (by simp [hk]) st.tree (fun _ _ => rfl) ?_
        have : e.kind ≠ .link := by rw [hk]; decide
        simp [this]
      · exact Shape.linked (by simp [hk]) hnone _ rfl
    · cases h
    · -- a symlink is there
      split at h
      · cases h; exact ⟨[], by simp, fun _ => Shape.same rfl rfl⟩
      · split at h
        · cases h
        · rename_i j
          split at h
          · cases h
            exact ⟨_, by first | rfl | rw [List.append_assoc], fun _ => Shape.same rfl rfl⟩
          · rename_i hdec
            cases h
            refine ⟨_, by first | rfl | rw [List.append_assoc], fun hx => ?_⟩
            have hsum := overwrite_ne c hc _ _ _ _ hdec
            have hk : e.kind = .reg := by
              by_cases hk : e.kind = .reg
              · exact hk
              · exfalso
                have hb := (Benign_append.1 hx).2 (.linkUntracked e.name) (by simp [hc, hk, hsum])
                simp [Flag.benign] at hb
            refine Shape.wrote hk (by simp [hk]) st.tree (fun _ _ => rfl) ?_
            have : e.kind ≠ .link := by rw [hk]; decide
            simp [this]
          · cases h
    · -- a regular file is there
      split at h
      · split at h
        · cases h
        · split at h
          · cases h
            exact ⟨_, rfl, fun _ => Shape.same rfl rfl⟩
          · cases h
      · rename_i j
        split at h
        · cases h
          exact ⟨_, by first | rfl | rw [List.append_assoc], fun _ => Shape.same rfl rfl⟩
        · rename_i hdec
          cases h
          refine ⟨_, by first | rfl | rw [List.append_assoc], fun hx => ?_⟩
          have hsum := overwrite_ne c hc _ _ _ _ hdec
          have hk : e.kind = .reg := by
            by_cases hk : e.kind = .reg
            · exact hk
            · exfalso
              have hl : e.kind = .link := by
                cases hkk : e.kind <;> simp_all
              have hb := (Benign_append.1 hx).2 (.linkUntracked e.name) (by simp [hc, hl, hsum])
              simp [Flag.benign] at hb
          refine Shape.wrote hk (by simp [hk]) st.tree (fun _ _ => rfl) ?_
          have : e.kind ≠ .link := by rw [hk]; decide
          simp [this]
        · cases h



theorem streamReg_shape (c : Cfg) (pkgs : List Pkg) (i : Nat) (e : Entry) (st st' : St) (b : Bool)
    (h : streamReg c pkgs i e st = .ok (st', b)) (hne : parts e.name ≠ []) (hal : aliasFlag st.tree e = [])
    (hk : e.kind = .reg) :
    ∃ x, st'.flags = st.flags ++ x ∧ (Benign x → Shape i e st st') := by
  unfold streamReg at h
  dsimp only at h
  split at h
  · -- `Stat` succeeds
    split at h
    · split at h
      · cases h
        exact ⟨_, rfl, fun _ => Shape.same rfl rfl⟩
      · split at h
        · cases h
        · rename_i d hp
          have hown := own_path hp hal hne
          simp only [hown] at h
          cases h
          exact ⟨_, rfl, fun _ => Shape.wrote hk rfl (removeT st.tree (parts e.name))
            (fun q hq => lookupT_removeT_ne _ _ _ hq) rfl⟩
      · cases h
    · cases h
  · -- `Stat` fails: the file is created
    split at h
    · rename_i p d hp
      have hown := own_path hp hal hne
      simp only [hown] at h
      split at h
      · rename_i hpe
        cases h
        refine ⟨[], by simp, fun _ => Shape.wrote hk rfl st.tree (fun _ _ => rfl) ?_⟩
        simp [hpe]
      · split at h
        · cases h
        · cases h
          exact ⟨_, rfl, fun hx => by
            have hb := hx _ (List.mem_singleton.2 rfl)
            simp [Flag.benign] at hb⟩
    · cases h



/-! flags only grow -/

theorem lazyFile_flags (c : Cfg) (pkgs : List Pkg) (i : Nat) (e : Entry) (st st' : St) (b : Bool)
    (h : lazyFile c pkgs i e st = .ok (st', b)) : ∃ x, st'.flags = st.flags ++ x := by
  unfold lazyFile at h
  dsimp only at h
  repeat' (split at h)
  all_goals first
    | (cases h; done)
    | (cases h; first | exact ⟨_, rfl⟩ | exact ⟨_, List.append_assoc _ _ _⟩ | exact ⟨[], (List.append_nil _).symm⟩)

theorem streamReg_flags (c : Cfg) (pkgs : List Pkg) (i : Nat) (e : Entry) (st st' : St) (b : Bool)
    (h : streamReg c pkgs i e st = .ok (st', b)) : ∃ x, st'.flags = st.flags ++ x := by
  unfold streamReg at h
  dsimp only at h
  repeat' (split at h)
  all_goals first
    | (cases h; done)
    | (cases h; first | exact ⟨_, rfl⟩ | exact ⟨_, List.append_assoc _ _ _⟩ | exact ⟨[], (List.append_nil _).symm⟩)

theorem streamLink_flags (c : Cfg) (i : Nat) (e : Entry) (st st' : St) (b : Bool)
    (h : streamLink c i e st = .ok (st', b)) : ∃ x, st'.flags = st.flags ++ x := by
  unfold streamLink at h
  dsimp only at h
  repeat' (split at h)
  all_goals first
    | (cases h; done)
    | (cases h; first | exact ⟨_, rfl⟩ | exact ⟨_, List.append_assoc _ _ _⟩ | exact ⟨[], (List.append_nil _).symm⟩)



theorem addFlags_ok {fl : List Flag} {r : Except (Outcome × List Flag) (St × Bool)} {st' : St} {b : Bool}
    (h : addFlags fl r = .ok (st', b)) :
    ∃ st1, r = .ok (st1, b) ∧ st'.tree = st1.tree ∧ st'.inst = st1.inst ∧ st'.flags = st1.flags ++ fl := by
  cases r with
  | error x => cases h
  | ok v => obtain ⟨st1, b1⟩ := v; cases h; exact ⟨st1, rfl, rfl, rfl, rfl⟩

theorem Shape.congr {i : Nat} {e : Entry} {st st1 st' : St} (ht : st'.tree = st1.tree) (hi : st'.inst = st1.inst)
    (hs : Shape i e st st1) : Shape i e st st' := by
  cases hs with
  | same a b => exact .same (ht.trans a) (hi.trans b)
  | grow a b => exact .grow (hi.trans a) (fun q n hq => by rw [ht]; exact b q n hq)
  | wrote a b t0 h0 c => exact .wrote a (hi.trans b) t0 h0 (ht.trans c)
  | linked a b n c => exact .linked (hi.trans a) b n (ht.trans c)

/-- well-formed header name of a file or symlink: a clean relative path with at least one component -/
def WF (e : Entry) : Prop := e.kind ≠ .dir → (joinNames (parts e.name) = e.name ∧ parts e.name ≠ [])

/-- the name of a file or symlink has at least one component (both install loops refuse an empty name;
nothing is assumed about how the path is spelled: an unclean spelling raises the `alias` flag) -/
def WFn (e : Entry) : Prop := e.kind ≠ .dir → parts e.name ≠ []

theorem WF.toWFn {e : Entry} (h : WF e) : WFn e := fun hk => (h hk).2

/-- the alias flag (F07g) is never benign: a benign list of alias flags is empty -/
theorem aliasFlag_benign {t : Tree} {e : Entry} (h : Benign (aliasFlag t e)) : aliasFlag t e = [] := by
  unfold aliasFlag at h ⊢
  split
  · rename_i hu
    rw [if_pos hu] at h
    have := h _ (List.mem_singleton.2 rfl)
    simp [Flag.benign] at this
  · rename_i hu
    rw [if_neg hu] at h
    split
    · split
      · rfl
      · rename_i hp hd
        simp only [hp, hd, if_false] at h
        have := h _ (List.mem_singleton.2 rfl)
        simp [Flag.benign] at this
    · rfl

/-- combine "flags only grow" with the shape lemma of the inner function -/
theorem combine {i : Nat} {e : Entry} {st st1 st' : St} {al : List Flag} {P : Prop}
    (ht : st'.tree = st1.tree) (hi : st'.inst = st1.inst) (hfl : st'.flags = st1.flags ++ al)
    (hmono : ∃ x, st1.flags = st.flags ++ x) (hP : Benign al → P)
    (hshape : Benign al → ∃ x, st1.flags = st.flags ++ x ∧ (Benign x → Shape i e st st1)) :
    ∃ x, st'.flags = st.flags ++ x ∧ (Benign x → Shape i e st st' ∧ P) := by
  obtain ⟨x, hx⟩ := hmono
  refine ⟨x ++ al, by rw [hfl, hx, List.append_assoc], fun h0 => ?_⟩
  have hx0 : Benign x := (Benign_append.1 h0).1
  have hal : Benign al := (Benign_append.1 h0).2
  obtain ⟨x', hx', hs⟩ := hshape hal
  have : x' = x := List.append_cancel_left (hx'.symm.trans hx)
  exact ⟨Shape.congr ht hi (hs (this ▸ hx0)), hP hal⟩

theorem stepEntry_shape (c : Cfg) (hc : c.spec = false) (pkgs : List Pkg) (i : Nat) (e : Entry) (st st' : St) (b : Bool)
    (h : stepEntry c pkgs i e st = .ok (st', b)) (hwf : WFn e) :
    ∃ x, st'.flags = st.flags ++ x ∧
      (Benign x → Shape i e st st' ∧ (e.kind ≠ .dir → joinNames (parts e.name) = e.name)) := by
  unfold stepEntry at h
  split at h
  · -- directory
    rename_i hk
    split at h
    · cases h
    · rename_i t hm
      cases h
      exact ⟨[], by simp, fun _ => ⟨Shape.grow rfl (mkdirAllAux_grows _ _ _ _ _ _ hm), fun hn => absurd hk hn⟩⟩
  · -- regular file
    rename_i hk
    have hne := hwf (by rw [hk]; decide)
    simp only [hc] at h
    split at h
    · obtain ⟨st1, hr, ht, hi, hfl⟩ := addFlags_ok h
      refine combine ht hi hfl (lazyFile_flags _ _ _ _ _ _ _ hr)
        (fun hal _ => clean_of_aliasFlag (aliasFlag_benign (by simpa using hal))) (fun hal => ?_)
      exact lazyFile_shape c hc pkgs i e st st1 b hr hne (aliasFlag_benign (by simpa using hal)) (by rw [hk]; decide)
    · obtain ⟨st1, hr, ht, hi, hfl⟩ := addFlags_ok h
      have hal0 : Benign (if false = true then [] else aliasFlag st.tree e ++ statThroughFlag st.tree e) →
          aliasFlag st.tree e = [] := by
        intro hal
        simp only [Bool.false_eq_true, if_false] at hal
        exact aliasFlag_benign (Benign_append.1 hal).1
      refine combine ht hi hfl (streamReg_flags _ _ _ _ _ _ _ hr)
        (fun hal _ => clean_of_aliasFlag (hal0 hal)) (fun hal => ?_)
      exact streamReg_shape c pkgs i e st st1 b hr hne (hal0 hal) hk
  · -- symlink
    rename_i hk
    have hne := hwf (by rw [hk]; decide)
    simp only [hc] at h
    obtain ⟨st1, hr, ht, hi, hfl⟩ := addFlags_ok h
    split at hr
    · refine combine ht hi hfl (lazyFile_flags _ _ _ _ _ _ _ hr)
        (fun hal _ => clean_of_aliasFlag (aliasFlag_benign (by simpa using hal))) (fun hal => ?_)
      exact lazyFile_shape c hc pkgs i e st st1 b hr hne (aliasFlag_benign (by simpa using hal)) (by rw [hk]; decide)
    · refine combine ht hi hfl (streamLink_flags _ _ _ _ _ _ hr)
        (fun hal _ => clean_of_aliasFlag (aliasFlag_benign (by simpa using hal))) (fun hal => ?_)
      obtain ⟨h1, h2⟩ := streamLink_shape c i e st st1 b hr hne (aliasFlag_benign (by simpa using hal))
      exact ⟨[], by simp [h1], fun _ => h2⟩

/-- one header: flags only grow, and if none is raised the invariant is kept -/
theorem stepEntry_inv (c : Cfg) (hc : c.spec = false) (pkgs : List Pkg) (i : Nat) (e : Entry) (st st' : St) (b : Bool)
    (h : stepEntry c pkgs i e st = .ok (st', b)) (hwf : WFn e) :
    ∃ x, st'.flags = st.flags ++ x ∧ (Benign x → OwnerInv st → OwnerInv st') := by
  obtain ⟨x, hx, hs⟩ := stepEntry_shape c hc pkgs i e st st' b h hwf
  refine ⟨x, hx, fun h0 hI => OwnerInv_of_shape (fun hk => ?_) (hs h0).1 hI⟩
  exact (hs h0).2 (by rw [hk]; decide)

theorem installPkg_inv (c : Cfg) (hc : c.spec = false) (pkgs : List Pkg) (i : Nat) :
    ∀ (es : List Entry) (st : St) (files : List Entry) (st' : St) (files' : List Entry),
      installPkg c pkgs i es st files = .ok (st', files') → (∀ e ∈ es, WFn e) →
      ∃ x, st'.flags = st.flags ++ x ∧ (Benign x → OwnerInv st → OwnerInv st') := by
  intro es
  induction es with
  | nil => intro st files st' files' h _; simp [installPkg] at h; obtain ⟨rfl, _⟩ := h; exact ⟨[], by simp, fun _ hI => hI⟩
  | cons e rest ih =>
    intro st files st' files' h hwf
    unfold installPkg at h
    split at h
    · cases h
    · rename_i st1 app hstep
      obtain ⟨x1, hx1, h1⟩ := stepEntry_inv c hc pkgs i e st st1 app hstep (hwf e (by simp))
      obtain ⟨x2, hx2, h2⟩ := ih st1 _ st' files' h (fun e' he' => hwf e' (by simp [he']))
      refine ⟨x1 ++ x2, by rw [hx2, hx1, List.append_assoc], fun h0 hI => ?_⟩
      obtain ⟨a, b⟩ := Benign_append.1 h0
      exact h2 b (h1 a hI)

theorem installFrom_inv (c : Cfg) (hc : c.spec = false) (pkgs : List Pkg) :
    ∀ (ps : List Pkg) (i : Nat) (st : St) (all : List (List Entry)) (st' : St) (all' : List (List Entry)),
      installFrom c pkgs i ps st all = .ok (st', all') → (∀ p ∈ ps, ∀ e ∈ p.entries, WFn e) →
      ∃ x, st'.flags = st.flags ++ x ∧ (Benign x → OwnerInv st → OwnerInv st') := by
  intro ps
  induction ps with
  | nil => intro i st all st' all' h _; simp [installFrom] at h; obtain ⟨rfl, _⟩ := h; exact ⟨[], by simp, fun _ hI => hI⟩
  | cons p rest ih =>
    intro i st all st' all' h hwf
    unfold installFrom at h
    split at h
    · cases h
    · rename_i st1 files hp
      obtain ⟨x1, hx1, h1⟩ := installPkg_inv c hc pkgs i p.entries st [] st1 files hp (hwf p (by simp))
      obtain ⟨x2, hx2, h2⟩ := ih (i + 1) st1 _ st' all' h (fun q hq => hwf q (by simp [hq]))
      refine ⟨x1 ++ x2, by rw [hx2, hx1, List.append_assoc], fun h0 hI => ?_⟩
      obtain ⟨a, b⟩ := Benign_append.1 h0
      exact h2 b (h1 a hI)


end Apko.C07
