import Apko.Proofs.Lemmas.FSWalkDir
/-! Impl resolution (`getNodeD`/`walkImpl`: lexical, what memfs/tarfs do) against POSIX resolution
(`resolvePosixD`/`walkPosix`: the Spec), part 1: **absolute link targets**.

The two component loops branch differently at exactly three places:

1. `.` and `..` components (Spec: stay / pop the directory stack; Impl: looked up as literal names) —
   excluded here by `NoDots` on the path and on every link target;
2. the start of a link target (Spec: the root for an absolute target, the directory stack that holds the
   link otherwise; Impl: always the root, after joining a relative target to the traversed prefix) — the
   same place when the target is absolute;
3. the special cases `/` and `.` of `getNodeD` (Spec has none) — `/` has no components and `.` is not
   dot-free.

Everything else — the directory test, the lookup, the link test, the counter test `cnt + 1 > maxLinks`, the
nesting budget (`recur = none` at the bottom), the order of the tests — is literally the same, so the
counter and the fuel evolve identically and the two answers are equal (`getNode_impl_eq_spec`): the
same node or the same error. -/
namespace Apko.FS
open Apko Apko.Path

/-- no component is `.` or `..` -/
def NoDots (ps : List Name) : Prop := ∀ c ∈ ps, c ≠ dot ∧ c ≠ dotdot

theorem NoDots.tail {p : Name} {ps : List Name} (h : NoDots (p :: ps)) : NoDots ps :=
  fun c hc => h c (List.mem_cons_of_mem _ hc)

/-- the answers agree: the same error, or the same node (the top of the Spec's directory stack) and the
same value of the traversal counter -/
def ResAgree : Except Err (Ino × Nat) → Except Err (List Ino × Nat) → Prop
  | .error e, .error e' => e = e'
  | .ok r, .ok r' => r'.1.headD 0 = r.1 ∧ r'.2 = r.2
  | _, _ => False

/-- the nested lookups (one nesting level down) agree on every link target of the state -/
def RecAgree (fs : FS) : Option (Text → Nat → Except Err (Ino × Nat)) →
    Option (List Ino → List Name → Nat → Except Err (List Ino × Nat)) → Prop
  | none, none => True
  | some ri, some rs => ∀ i : Nat, (fs.node i).isSymlink = true → ∀ cnt,
      ResAgree (ri (fs.node i).target cnt) (rs [0] (parts (fs.node i).target) cnt)
  | _, _ => False

/-- **one component loop**: from the same node, over the same dot-free components, with the same counter,
and with nested lookups that agree, the two loops agree — whatever the traversed prefix is (it is only
used for relative targets) -/
theorem walk_agree_abs {fs : FS}
    (habs : ∀ i : Nat, (fs.node i).isSymlink = true → isAbs (fs.node i).target = true)
    (ri : Option (Text → Nat → Except Err (Ino × Nat)))
    (rs : Option (List Ino → List Name → Nat → Except Err (List Ino × Nat)))
    (hr : RecAgree fs ri rs) :
    ∀ (ps : List Name) (node : Ino) (tr : List Name) (st : List Ino) (cnt : Nat),
      NoDots ps → st.headD 0 = node →
      ResAgree (walkImpl fs ri ps node tr cnt) (walkPosix fs rs ps st cnt) := by
  intro ps
  induction ps with
  | nil => intro node tr st cnt _ hst; simpa [walkImpl, walkPosix, ResAgree] using hst
  | cons part rest ih =>
    intro node tr st cnt hnd hst
    have hp := hnd part List.mem_cons_self
    unfold walkImpl walkPosix
    simp only [hst, hp.1, hp.2, if_false]
    by_cases hd : (fs.node node).dir = true
    · simp only [hd, Bool.not_true, Bool.false_eq_true, if_false]
      cases hl : fs.lookup node part with
      | none => simp [ResAgree]
      | some child =>
        simp only []
        by_cases hs : (fs.node child).isSymlink = true
        · simp only [hs, if_true, habs child hs]
          by_cases hc : cnt + 1 > maxLinks
          · simp [hc, ResAgree]
          · simp only [hc, if_false]
            cases ri with
            | none =>
              cases rs with
              | none => simp [ResAgree]
              | some _ => exact absurd hr (by simp [RecAgree])
            | some ri =>
              cases rs with
              | none => exact absurd hr (by simp [RecAgree])
              | some rs =>
                simp only []
                have := hr child hs (cnt + 1)
                revert this
                cases ri (fs.node child).target (cnt + 1) with
                | error e =>
                  cases rs [0] (parts (fs.node child).target) (cnt + 1) with
                  | error e' => intro h; simpa [ResAgree] using h
                  | ok r' => intro h; exact absurd h (by simp [ResAgree])
                | ok r =>
                  cases rs [0] (parts (fs.node child).target) (cnt + 1) with
                  | error e' => intro h; exact absurd h (by simp [ResAgree])
                  | ok r' =>
                    intro h
                    obtain ⟨tn, c1⟩ := r
                    obtain ⟨st', c2⟩ := r'
                    simp only [ResAgree] at h
                    obtain ⟨h1, h2⟩ := h
                    subst h2
                    exact ih tn (tr ++ [part]) st' c2 hnd.tail h1
        · simp only [hs, Bool.false_eq_true, if_false]
          exact ih child (tr ++ [part]) (child :: st) cnt hnd.tail (by simp)
    · simp [hd, ResAgree]

/-- **induction on the nesting budget** (the fuel): the lookups agree at every budget `d`, from every
value of the counter, on every dot-free path -/
theorem getNodeD_agree_abs {fs : FS}
    (hnd : ∀ i : Nat, NoDots (parts (fs.node i).target))
    (habs : ∀ i : Nat, (fs.node i).isSymlink = true → isAbs (fs.node i).target = true) :
    ∀ (d : Nat) (p : Text) (cnt : Nat), NoDots (parts p) →
      ResAgree (getNodeD fs d p cnt) (resolvePosixD fs d [0] (parts p) cnt) := by
  intro d
  induction d with
  | zero =>
    intro p cnt hp
    unfold getNodeD resolvePosixD
    split
    · rename_i hsd
      rcases hsd with rfl | rfl
      · simp [parts_slash, walkPosix, ResAgree]
      · exact absurd (hp dot (by simp [parts_dot])).1 (by simp)
    · exact walk_agree_abs habs none none trivial _ _ _ _ _ hp rfl
  | succ d ih =>
    intro p cnt hp
    unfold getNodeD resolvePosixD
    split
    · rename_i hsd
      rcases hsd with rfl | rfl
      · simp [parts_slash, walkPosix, ResAgree]
      · exact absurd (hp dot (by simp [parts_dot])).1 (by simp)
    · exact walk_agree_abs habs (some (getNodeD fs d)) (some (resolvePosixD fs d))
        (fun i _ cnt => ih _ cnt (hnd i)) _ _ _ _ _ hp rfl

/-- **Impl = Spec on dot-free input with absolute link targets** -/
theorem getNode_impl_eq_spec {ci cs : Cfg} (hi : ci.posix = false) (hs : cs.posix = true) {fs : FS}
    (hnd : ∀ i : Nat, NoDots (parts (fs.node i).target))
    (habs : ∀ i : Nat, (fs.node i).isSymlink = true → isAbs (fs.node i).target = true)
    (p : Text) (hp : NoDots (parts p)) : getNode ci fs p = getNode cs fs p := by
  have h := getNodeD_agree_abs hnd habs (maxLinks + 1) p 0 hp
  simp only [getNode, resolveFrom, hi, hs, Bool.false_eq_true, if_false, if_true, ite_self]
  revert h
  cases getNodeD fs (maxLinks + 1) p 0 with
  | error e =>
    cases resolvePosixD fs (maxLinks + 1) [0] (parts p) 0 with
    | error e' => intro h; simp only [ResAgree] at h; subst h; rfl
    | ok r' => intro h; exact absurd h (by simp [ResAgree])
  | ok r =>
    cases resolvePosixD fs (maxLinks + 1) [0] (parts p) 0 with
    | error e' => intro h; exact absurd h (by simp [ResAgree])
    | ok r' =>
      intro h
      simp only [ResAgree] at h
      simpa [Except.map] using h.1.symm

end Apko.FS
