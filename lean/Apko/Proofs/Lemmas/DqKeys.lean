/-
C14 — what `disqualifyDifference` looks at in a package record.

`disqualifyDifference` (Model/Resolver.lean) factors through the *key view* of a family: per architecture the list
of (object identity, name, version) of the records its indexes list.  Everything else a record carries — origin,
repository, pin, priority, dependencies, provides, install_if in the model; the architecture FIELD `A:`, checksum,
sizes, … in Go, which the model does not even have — cannot reach the set (`dq_factors_through_keys`, and for the
siblings only the SET of (name, version) pairs matters: `dq_siblings_as_sets`).  The tie to the code is the
regenerated statement list of `disqualifyDifference` and the list of selector chains it reads of a record
(`C14.tie_dqStmts`, `C14.tie_dqPkgReads`).
-/
import Apko.Model.Resolver

namespace Apko.C14
open Apko Apko.Resolver

/-- all that `disqualifyDifference` reads of a package record: the identity of the object (the map key
`pkg.RepositoryPackage`), `pkg.Name`, `pkg.Version` -/
abbrev PKey := Nat × Text × Text

def pkey (p : Pkg) : PKey := (p.id, p.name, p.version)

/-- a family as `disqualifyDifference` sees it -/
def keyView (archs : List (Text × Universe)) : List (Text × List PKey) :=
  archs.map fun e => (e.1, e.2.all.map pkey)

/-- `disqualifyDifference` written over the key views -/
def dqOfKeys (ks : List (Text × List PKey)) (self : Text) : List Nat :=
  if ks.length = 1 then [] else
  match lookupT ks self with
  | none => []
  | some mine =>
    (mine.filter fun k =>
      ks.any fun e => e.1 != self && !(e.2.any fun q => q.2.1 = k.2.1 && q.2.2 = k.2.2)).map (·.1)

theorem lookupT_map {α β} (f : α → β) (m : List (Text × α)) (k : Text) :
    lookupT (m.map fun e => (e.1, f e.2)) k = (lookupT m k).map f := by
  induction m with
  | nil => rfl
  | cons e es ih =>
    unfold lookupT at ih ⊢
    by_cases h : e.1 = k
    · simp [h]
    · simpa [List.find?_cons, h] using ih

/-- the model's `disqualifyDifference` is a function of the key view and of nothing else -/
theorem dq_factors_through_keys (archs : List (Text × Universe)) (self : Text) :
    disqualifyDifference archs self = dqOfKeys (keyView archs) self := by
  unfold disqualifyDifference dqOfKeys
  simp only [keyView, List.length_map]
  split
  · rfl
  · rw [lookupT_map (fun u : Universe => u.all.map pkey)]
    cases lookupT archs self with
    | none => rfl
    | some u =>
      simp only [Option.map_some, List.filter_map, List.map_map]
      congr 1
      apply List.filter_congr
      intro p _
      simp only [List.any_map, pkey, Function.comp_def]
      congr 1

/-- the (name, version) pairs an architecture lists, as a membership test -/
def listed (ks : List PKey) (n v : Text) : Bool := ks.any fun q => q.2.1 = n && q.2.2 = v

/-- for the SIBLINGS only the SET of (name, version) pairs matters: order, repetitions, identities are irrelevant -/
theorem dqOfKeys_siblings_as_sets (k1 k2 : List (Text × List PKey)) (self : Text)
    (hlen : k1.length = k2.length) (hself : lookupT k1 self = lookupT k2 self)
    (hsib : ∀ n v, (k1.any fun e => e.1 != self && !listed e.2 n v) = (k2.any fun e => e.1 != self && !listed e.2 n v)) :
    dqOfKeys k1 self = dqOfKeys k2 self := by
  unfold dqOfKeys
  rw [hlen, hself]
  split
  · rfl
  · cases lookupT k2 self with
    | none => rfl
    | some mine =>
      simp only
      congr 1
      apply List.filter_congr
      intro k _
      exact hsib k.2.1 k.2.2

end Apko.C14
