import Apko.Model.FS
/-! # The disk half of `DirFS`: hard links share content, names stay well-formed

Lemmas about `Apko.FS.Disk` (`Model/FS.lean`), the model of what the host does with the calls `DirFS` makes for
regular files.  The driver runs it next to the reference file system for the `dirfs-hl` cases (`fs.dirhl`). -/
namespace Apko.FS
open Apko Apko.Path

theorem disk_lookup_mem {α : Type} (l : List (Text × α)) (p : Text) (i : α) (h : l.lookup p = some i) : (p, i) ∈ l := by
  induction l with
  | nil => simp [List.lookup] at h
  | cons e rest ih =>
    obtain ⟨k, v⟩ := e
    by_cases hk : p = k
    · subst hk; simp [List.lookup] at h; subst h; simp
    · have : (p == k) = false := by simpa using hk
      simp only [List.lookup, this] at h
      exact List.mem_cons_of_mem _ (ih h)

theorem disk_lookup_append_none {α : Type} (l : List (Text × α)) (p : Text) (e : Text × α) (h : l.lookup p = none) :
    (l ++ [e]).lookup p = if p = e.1 then some e.2 else none := by
  induction l with
  | nil =>
    obtain ⟨k, v⟩ := e
    by_cases hk : p = k
    · subst hk; simp [List.lookup]
    · have hb : (p == k) = false := by simpa using hk
      simp [List.lookup, hb, hk]
  | cons x rest ih =>
    obtain ⟨k, v⟩ := x
    by_cases hk : p = k
    · subst hk; simp [List.lookup] at h
    · have hb : (p == k) = false := by simpa using hk
      simp only [List.lookup, hb] at h
      simp only [List.cons_append, List.lookup, hb]
      exact ih h

theorem disk_lookup_append_some {α : Type} (l : List (Text × α)) (p : Text) (e : Text × α) (i : α) (h : l.lookup p = some i) :
    (l ++ [e]).lookup p = some i := by
  induction l with
  | nil => simp [List.lookup] at h
  | cons x rest ih =>
    obtain ⟨k, v⟩ := x
    by_cases hk : p = k
    · subst hk; simp [List.lookup] at h ⊢; exact h
    · have hb : (p == k) = false := by simpa using hk
      simp only [List.lookup, hb] at h
      simp only [List.cons_append, List.lookup, hb]
      exact ih h

/-- `os.WriteFile` on one name of an inode is read back through every other name of it -/
theorem Disk.writeFile_shared (d : Disk) (p q : Text) (i : Nat) (b : Text)
    (hp : d.ino p = some i) (hq : d.ino q = some i) (hl : i < d.inodes.length) :
    (d.writeFile p b).read q = some b := by
  simp only [Disk.ino] at hp hq
  simp [Disk.writeFile, Disk.read, Disk.ino, hp, hq, hl]

/-- … and the other names of other inodes are left alone -/
theorem Disk.writeFile_other (d : Disk) (p q : Text) (i j : Nat) (b : Text)
    (hp : d.ino p = some i) (hq : d.ino q = some j) (hij : i ≠ j) :
    (d.writeFile p b).read q = d.read q := by
  simp only [Disk.ino] at hp hq
  simp [Disk.writeFile, Disk.read, Disk.ino, hp, hq, List.getElem?_set, hij]

/-- truncation through `OpenFile(O_TRUNC)` / `Create` of one name empties every name of the inode -/
theorem Disk.openTrunc_shared (d : Disk) (p q : Text) (i : Nat) (flag : Nat)
    (hp : d.ino p = some i) (hq : d.ino q = some i) (hl : i < d.inodes.length) (ht : oTrunc flag = true) :
    (d.openOk p flag).read q = some [] := by
  simp only [Disk.ino] at hp hq
  simp [Disk.openOk, Disk.read, Disk.ino, hp, hq, hl, ht]

/-- a write through a handle is visible under every name of the handle's inode -/
theorem Disk.write_shared (d : Disk) (h : Nat) (q : Text) (i off : Nat) (app : Bool) (b : Text)
    (hh : d.handles[h]? = some (some (i, off, app))) (hq : d.ino q = some i) (hl : i < d.inodes.length) :
    (d.write h b).read q =
      some (writeAt (d.inodes.getD i []) (if app then (d.inodes.getD i []).length else off) b) := by
  simp only [Disk.ino] at hq
  simp [Disk.write, Disk.read, Disk.ino, hh, hq, hl]

/-- `os.Link`: the new name is the old name's inode, which has one name more -/
theorem Disk.link_shares (d d2 : Disk) (o n : Text) (h : d.link o n = some d2) :
    ∃ i, d.ino o = some i ∧ d2.ino o = some i ∧ d2.ino n = some i ∧ d2.nlink i = d.nlink i + 1 ∧
      d2.inodes = d.inodes := by
  unfold Disk.link at h
  cases ho : d.ino o with
  | none => simp [ho] at h
  | some i =>
    cases hn : d.ino n with
    | some j => simp [ho, hn] at h
    | none =>
      simp only [ho, hn, Option.some.injEq] at h
      subst h
      refine ⟨i, rfl, ?_, ?_, ?_, rfl⟩
      · simpa [Disk.ino] using disk_lookup_append_some d.names o (n, i) i ho
      · have := disk_lookup_append_none d.names n (n, i) hn
        simpa [Disk.ino] using this
      · simp [Disk.nlink, List.filter_append]

/-- replacing the file under one name by a new file (temporary file + rename) splits the name off its inode:
the other name keeps the old bytes.  This is why `DirFS.WriteFile` must write in place. -/
theorem Disk.replace_splits :
    ∃ (d : Disk) (p q : Text) (b : Text), d.ino p = d.ino q ∧ (d.ino p).isSome ∧
      (d.writeFile p b).read q = some b ∧ (d.replaceFile p b).read q ≠ some b := by
  refine ⟨{ names := [("f".toList, 0), ("h1".toList, 0)], inodes := ["old".toList] }, "f".toList, "h1".toList,
    "new".toList, ?_, ?_, ?_, ?_⟩ <;> decide

/-! ### the invariant -/

theorem Disk.Inv.empty : Disk.Inv {} := ⟨by intro p i h; simp at h, by simp⟩

theorem Disk.inv_createNew (d : Disk) (p b : Text) (hi : d.Inv) (hn : d.ino p = none) : (d.createNew p b).Inv := by
  refine ⟨?_, ?_⟩
  · intro q i h
    simp only [Disk.createNew, List.mem_append, List.mem_singleton, Prod.mk.injEq, List.length_append,
      List.length_cons, List.length_nil] at h ⊢
    rcases h with h | ⟨_, h⟩
    · have := hi.live q i h; omega
    · omega
  · simp only [Disk.createNew, List.map_append, List.map_cons, List.map_nil]
    rw [List.nodup_append]
    refine ⟨hi.nodup, by simp, ?_⟩
    intro a ha b' hb
    simp only [List.mem_singleton] at hb
    subst hb
    intro hab
    subst hab
    obtain ⟨⟨k, v⟩, hm, hk⟩ := List.mem_map.mp ha
    simp only at hk
    subst hk
    have : d.names.lookup k ≠ none := by
      intro hnone
      have := List.lookup_eq_none_iff.mp hnone (k, v) hm
      simp at this
    exact this hn

theorem Disk.inv_setInode (d : Disk) (i : Nat) (b : Text) (hi : d.Inv) :
    ({ d with inodes := d.inodes.set i b } : Disk).Inv :=
  ⟨by intro q j h; simpa using hi.live q j h, hi.nodup⟩

theorem Disk.inv_handles (d : Disk) (hs : List (Option (Nat × Nat × Bool))) (hi : d.Inv) :
    ({ d with handles := hs } : Disk).Inv := ⟨hi.live, hi.nodup⟩

theorem Disk.inv_writeFile (d : Disk) (p b : Text) (hi : d.Inv) : (d.writeFile p b).Inv := by
  unfold Disk.writeFile
  cases h : d.ino p with
  | some j => exact Disk.inv_setInode d j b hi
  | none => exact Disk.inv_createNew d p b hi h

theorem Disk.inv_remove (d : Disk) (p : Text) (hi : d.Inv) : (d.remove p).Inv := by
  refine ⟨?_, ?_⟩
  · intro q i h
    simp only [Disk.remove, List.mem_filter] at h
    exact hi.live q i h.1
  · simp only [Disk.remove]
    have := hi.nodup
    rw [List.nodup_iff_pairwise_ne] at this ⊢
    rw [List.pairwise_map] at this ⊢
    exact this.filter _

theorem Disk.inv_link (d d2 : Disk) (o n : Text) (hi : d.Inv) (h : d.link o n = some d2) : d2.Inv := by
  unfold Disk.link at h
  cases ho : d.ino o with
  | none => simp [ho] at h
  | some i =>
    cases hn : d.ino n with
    | some j => simp [ho, hn] at h
    | none =>
      simp only [ho, hn, Option.some.injEq] at h
      subst h
      refine ⟨?_, ?_⟩
      · intro q j hm
        simp only [List.mem_append, List.mem_singleton, Prod.mk.injEq] at hm
        rcases hm with hm | ⟨_, hm⟩
        · exact hi.live q j hm
        · rw [hm]; exact hi.live o i (disk_lookup_mem d.names o i ho)
      · simp only [List.map_append, List.map_cons, List.map_nil]
        rw [List.nodup_append]
        refine ⟨hi.nodup, by simp, ?_⟩
        intro a ha b' hb
        simp only [List.mem_singleton] at hb
        subst hb
        intro hab
        subst hab
        obtain ⟨⟨k, v⟩, hm, hk⟩ := List.mem_map.mp ha
        simp only at hk
        subst hk
        have : d.names.lookup k ≠ none := by
          intro hnone
          have := List.lookup_eq_none_iff.mp hnone (k, v) hm
          simp at this
        exact this hn

theorem Disk.inv_openOk (d : Disk) (p : Text) (flag : Nat) (hi : d.Inv) : (d.openOk p flag).Inv := by
  have h1 : (if (d.ino p).isNone then d.createNew p [] else d).Inv := by
    cases h : d.ino p with
    | none => simpa using Disk.inv_createNew d p [] hi h
    | some i => simpa using hi
  simp only [Disk.openOk]
  generalize (if (d.ino p).isNone then d.createNew p [] else d) = d1 at h1 ⊢
  cases h : d1.ino p with
  | none => exact Disk.inv_handles d1 _ h1
  | some i =>
    by_cases ht : oTrunc flag = true
    · simp only [ht, if_true]
      exact Disk.inv_handles _ _ (Disk.inv_setInode d1 i [] h1)
    · simp only [ht, Bool.false_eq_true, if_false]
      exact Disk.inv_handles d1 _ h1

theorem Disk.inv_write (d : Disk) (h : Nat) (b : Text) (hi : d.Inv) : (d.write h b).Inv := by
  unfold Disk.write
  split
  · exact Disk.inv_handles _ _ (Disk.inv_setInode d _ _ hi)
  · exact hi

/-- **disk_inv_apply**: every `DirFS` call keeps the names of the disk well-formed -/
theorem Disk.inv_apply (d : Disk) (op : Op) (ok : Bool) (hi : d.Inv) : (d.apply op ok).Inv := by
  cases op <;> cases ok <;> simp only [Disk.apply] <;>
    first
    | exact hi
    | exact Disk.inv_writeFile _ _ _ hi
    | exact Disk.inv_remove _ _ hi
    | exact Disk.inv_openOk _ _ _ hi
    | exact Disk.inv_write _ _ _ hi
    | exact Disk.inv_handles _ _ hi
    | (cases hl : d.link (clean _) (clean _) with
       | none => simpa using hi
       | some d2 => simpa using Disk.inv_link d d2 _ _ hi hl)

end Apko.FS
