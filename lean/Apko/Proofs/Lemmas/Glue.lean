/-
The configuration glue in front of the resolver (`Model/Glue.lean`; driver ops `g.*`), and the abstraction
from Go's package POINTERS to the model's ids that the cross-architecture filter rests on.

1. `sortedSet` (= `sets.List(sets.New(…))`) has exactly the members of its input, is strictly ascending, and
   is therefore a function of the SET of entries (`sortedSet_ext`): the order and multiplicity in which
   packages / repositories are written cannot reach the resolver — and every entry that is written does.
2. `mem_world` / `valid_as_written` / `glue_resolve_sound_partial`: a resolution of `Glue.world` that is valid
   (C02) is valid for the entries AS WRITTEN in `contents.packages` and `--package-append`; a range written as
   two entries keeps both bounds.  (A world keyed by package name — one entry per name — does not have this
   property: `world_by_name_loses_bound`.)
3. `indexesOf_sub`, `indexesOf_lines`: the indexes handed to the resolver are indexes of configured lines,
   one per distinct line.
4. Pointers.  Go keys the cross-architecture disqualifications by `*RepositoryPackage`; the model uses ids.
   `ResolveWorld` builds its resolver from one fetch of its own indexes; the disqualification map is computed
   from `allArchs`, whose entry for the architecture itself was — before the repair `fix: ResolveWorld hands
   its own index objects …` — the result of a SECOND fetch.  With objects modelled as (architecture, id,
   generation of the fetch), `effectiveDq_iff` says exactly what the abstraction assumes: the filter the
   resolver experiences is the model's `disqualifyDifference` iff the generation in `allArchs[self]` is the
   generation the resolver was built from, and is EMPTY otherwise (`effectiveDq_refetched`: no ETag, offline
   cache, a concurrent duplicate parse — finding F14b, witness `F14b_witness`).  The repaired wiring passes the
   resolver's own objects, so the hypothesis holds by construction whatever the index cache does
   (`effectiveDq_own`), for every behaviour of the fetches of the SIBLINGS (their generation is irrelevant).
   `effectiveDq_own_eq` / `glue_available_partial`: with distinct ids the wired filter is literally the model's
   list, so C14's headline holds for the wired resolution.
-/
import Apko.Model.Glue
import Apko.Generated.Glue
import Apko.Proofs.C02
import Apko.Proofs.C14

namespace Apko.GlueThm
open Apko Apko.Resolver

/-! ## 1. the sorted set -/

theorem lt_of_not_lt_ne {a b : Text} (h : ¬ a < b) (h2 : a ≠ b) : b < a := by
  have h1 : b ≤ a := List.not_lt.mp h
  rcases List.le_iff_lt_or_eq.mp h1 with h' | h'
  · exact h'
  · exact absurd h'.symm h2

theorem mem_insertName (x y : Text) (l : List Text) : y ∈ insertName x l ↔ y = x ∨ y ∈ l := by
  induction l with
  | nil => simp [insertName]
  | cons z zs ih =>
    unfold insertName
    split
    · simp
    · split
      · next h => subst h; simp
      · simp only [List.mem_cons, ih]
        constructor
        · rintro (h | h | h)
          · exact Or.inr (Or.inl h)
          · exact Or.inl h
          · exact Or.inr (Or.inr h)
        · rintro (h | h | h)
          · exact Or.inr (Or.inl h)
          · exact Or.inl h
          · exact Or.inr (Or.inr h)

theorem sortNames_cons (a : Text) (l : List Text) : sortNames (a :: l) = insertName a (sortNames l) := rfl

/-- every entry that is written is in the sorted set, and nothing else is -/
theorem mem_sortedSet (y : Text) (l : List Text) : y ∈ Glue.sortedSet l ↔ y ∈ l := by
  induction l with
  | nil => simp [Glue.sortedSet, sortNames]
  | cons a as ih =>
    show y ∈ sortNames (a :: as) ↔ _
    rw [sortNames_cons, mem_insertName]
    simp only [List.mem_cons]
    exact or_congr Iff.rfl ih

def Ascending (l : List Text) : Prop := l.Pairwise (· < ·)

theorem insertName_ascending (x : Text) (l : List Text) (hs : Ascending l) : Ascending (insertName x l) := by
  induction l with
  | nil => simp [insertName, Ascending]
  | cons z zs ih =>
    have hz := (List.pairwise_cons.mp hs).1
    have hzs := (List.pairwise_cons.mp hs).2
    unfold insertName
    split
    · next hxz =>
      refine List.pairwise_cons.mpr ⟨?_, hs⟩
      intro y hy
      rcases List.mem_cons.mp hy with rfl | hy
      · exact hxz
      · exact List.lt_trans hxz (hz y hy)
    · next hxz =>
      split
      · exact hs
      · next hne =>
        refine List.pairwise_cons.mpr ⟨?_, ih hzs⟩
        intro y hy
        rcases (mem_insertName x y zs).mp hy with rfl | hy
        · exact lt_of_not_lt_ne hxz hne
        · exact hz y hy

/-- strictly ascending, hence without repetitions -/
theorem sortedSet_ascending (l : List Text) : Ascending (Glue.sortedSet l) := by
  induction l with
  | nil => simp [Glue.sortedSet, sortNames, Ascending]
  | cons a as ih => exact insertName_ascending a _ ih

theorem ascending_ext : ∀ {l₁ l₂ : List Text}, Ascending l₁ → Ascending l₂ → (∀ x, x ∈ l₁ ↔ x ∈ l₂) → l₁ = l₂
  | [], [], _, _, _ => rfl
  | [], b :: bs, _, _, h => absurd ((h b).mpr (List.mem_cons_self ..)) (by simp)
  | a :: as, [], _, _, h => absurd ((h a).mp (List.mem_cons_self ..)) (by simp)
  | a :: as, b :: bs, h1, h2, h => by
    have ha := (List.pairwise_cons.mp h1)
    have hb := (List.pairwise_cons.mp h2)
    have hab : a = b := by
      rcases List.mem_cons.mp ((h a).mp (List.mem_cons_self ..)) with e | hin
      · exact e
      · rcases List.mem_cons.mp ((h b).mpr (List.mem_cons_self ..)) with e | hin'
        · exact e.symm
        · exact absurd (List.lt_trans (hb.1 a hin) (ha.1 b hin')) (List.lt_irrefl b)
    subst hab
    congr 1
    refine ascending_ext ha.2 hb.2 fun x => ⟨fun hx => ?_, fun hx => ?_⟩
    · rcases List.mem_cons.mp ((h x).mp (List.mem_cons_of_mem _ hx)) with e | hin
      · exact absurd (e ▸ ha.1 x hx) (List.lt_irrefl _)
      · exact hin
    · rcases List.mem_cons.mp ((h x).mpr (List.mem_cons_of_mem _ hx)) with e | hin
      · exact absurd (e ▸ hb.1 x hx) (List.lt_irrefl _)
      · exact hin

/-- T `sortedSet_ext`: the sorted set is a function of the SET of entries — neither the order in which they are
written (configuration, command line, Go map iteration) nor repetitions can reach what is derived from it -/
theorem sortedSet_ext {l₁ l₂ : List Text} (h : ∀ x, x ∈ l₁ ↔ x ∈ l₂) : Glue.sortedSet l₁ = Glue.sortedSet l₂ :=
  ascending_ext (sortedSet_ascending l₁) (sortedSet_ascending l₂) fun x => by
    rw [mem_sortedSet, mem_sortedSet]; exact h x

theorem sortedSet_perm {l₁ l₂ : List Text} (h : l₁.Perm l₂) : Glue.sortedSet l₁ = Glue.sortedSet l₂ :=
  sortedSet_ext fun _ => h.mem_iff

/-! ## 2. the world -/

/-- T `mem_world`: the resolver is asked for exactly the entries written in `contents.packages` and appended on
the command line — every bound of a range written as two entries is among them -/
theorem mem_world (c : Text) (pk ex : List Text) : c ∈ Glue.world pk ex ↔ c ∈ pk ∨ c ∈ ex := by
  simp [Glue.world, mem_sortedSet]

theorem world_comm (pk ex : List Text) : Glue.world pk ex = Glue.world ex pk :=
  sortedSet_ext fun x => by simp [or_comm]

theorem valid_congr_world {u : Universe} {w w' : List Text} {s : List Pkg} (h : ∀ c, c ∈ w ↔ c ∈ w') :
    C02.Valid u w s ↔ C02.Valid u w' s := by
  unfold C02.Valid
  constructor
  · rintro ⟨h1, h2⟩; exact ⟨fun c hc => h1 c ((h c).mpr hc), h2⟩
  · rintro ⟨h1, h2⟩; exact ⟨fun c hc => h1 c ((h c).mp hc), h2⟩

/-- T `valid_as_written`: validity (C02) for the world the resolver reads back is validity for the entries as
written — what the oracle of `g.resolve` evaluates on every Go answer (`validB_as_written`) -/
theorem valid_as_written (u : Universe) (pk ex : List Text) (s : List Pkg) :
    C02.Valid u (Glue.world pk ex) s ↔ C02.Valid u (pk ++ ex) s :=
  valid_congr_world fun c => by rw [mem_world, List.mem_append]

theorem validB_as_written (u : Universe) (pk ex : List Text) (s : List Pkg) :
    validB u (pk ++ ex) s = true ↔ C02.Valid u (Glue.world pk ex) s := by
  rw [C02.validB_iff, valid_as_written]

/-- T `glue_resolve_sound_partial`: C02's soundness theorem carried through the glue — a successful, flag-free
resolution of the world derived from the configuration satisfies EVERY entry as written -/
theorem glue_resolve_sound_partial (c : Cfg) (pk ex : List Text) (dq0 : List Nat) (r : Resolution)
    (hu : C02.UniverseWF c) (h : resolve c (Glue.world pk ex) dq0 = .ok r) (hf : r.flags = []) :
    C02.Valid c.u (pk ++ ex) r.install :=
  (valid_as_written c.u pk ex r.install).mp (C02.resolve_sound_partial c _ dq0 r hu h hf)

/-- the world of a glue that keeps ONE entry per package name (last one written wins) -/
def worldByName (entries : List Text) : List Text :=
  Glue.sortedSet ((dedup (entries.map fun e => (parseConstraint e).name)).filterMap fun n =>
    (entries.reverse.find? fun e => (parseConstraint e).name = n))

/-- such a glue loses a bound: `foo<2.0` written before `foo>=1.0` never reaches the resolver -/
theorem world_by_name_loses_bound :
    "foo<2.0".toList ∈ Glue.world ["foo<2.0".toList, "foo>=1.0".toList] [] ∧
    "foo<2.0".toList ∉ worldByName ["foo<2.0".toList, "foo>=1.0".toList] := by decide

/-! ## 3. the indexes -/

theorem indexOf_mem {lines : List Text} {u : Universe} {l : Text} {ix : Index}
    (h : Glue.indexOf lines u l = some ix) : ix ∈ u ∧ l ∈ lines := by
  unfold Glue.indexOf at h
  cases hf : (lines.zip u).find? (fun e => e.1 = l) with
  | none => simp [hf] at h
  | some e =>
    simp only [hf, Option.map_some, Option.some.injEq] at h
    have hm := List.mem_of_find?_eq_some hf
    have he : e.1 = l := by simpa using List.find?_some hf
    have := List.of_mem_zip hm
    exact ⟨h ▸ this.2, he ▸ this.1⟩

/-- T `indexesOf_sub`: every index handed to the resolver is an index of a configured repository -/
theorem indexesOf_sub (lines : List Text) (u : Universe) (ix : Index) (h : ix ∈ Glue.indexesOf lines u) :
    ix ∈ u := by
  unfold Glue.indexesOf at h
  obtain ⟨l, _, hl⟩ := List.mem_filterMap.mp h
  exact (indexOf_mem hl).1

theorem indexesOf_all_sub (lines : List Text) (u : Universe) (p : Pkg) (h : p ∈ (Glue.indexesOf lines u).all) :
    p ∈ u.all := by
  unfold Universe.all at *
  obtain ⟨ix, hix, hp⟩ := List.mem_flatMap.mp h
  exact List.mem_flatMap.mpr ⟨ix, indexesOf_sub lines u ix hix, hp⟩

/-- at most one index per distinct line -/
theorem indexesOf_length (lines : List Text) (u : Universe) :
    (Glue.indexesOf lines u).length ≤ (Glue.sortedSet lines).length := by
  unfold Glue.indexesOf
  exact List.length_filterMap_le _ _

/-! ## 4. pointers and ids -/

/-- a Go package object: (architecture, model id, generation of the index fetch that created it) -/
abbrev Obj := Text × Nat × Nat

/-- the keys of the disqualification map `disqualifyDifference(allArchs)` computes, when the index objects
found under `allArchs[a]` are of generation `gen a` -/
def dqObjects (archs : List (Text × Universe)) (gen : Text → Nat) : List Obj :=
  archs.flatMap fun e => (disqualifyDifference archs e.1).map fun i => (e.1, i, gen e.1)

/-- the filter the resolver of `self` experiences: its candidates are the objects of generation `g0` (the fetch
its `nameMap` was built from); a candidate is disqualified iff that very object is a key of the map -/
def effectiveDq (archs : List (Text × Universe)) (self : Text) (g0 : Nat) (gen : Text → Nat) : List Nat :=
  match lookupT archs self with
  | none => []
  | some u => (u.all.map (·.id)).filter fun i => (dqObjects archs gen).contains (self, i, g0)

theorem dq_sub_ids (archs : List (Text × Universe)) (self : Text) (i : Nat)
    (h : i ∈ disqualifyDifference archs self) : ∃ u, lookupT archs self = some u ∧ i ∈ u.all.map (·.id) := by
  unfold disqualifyDifference at h
  split at h
  · simp at h
  · split at h
    · simp at h
    · next u hu =>
      refine ⟨u, hu, ?_⟩
      obtain ⟨p, hp, rfl⟩ := List.mem_map.mp h
      exact List.mem_map.mpr ⟨p, (List.mem_filter.mp hp).1, rfl⟩

/-- T `effectiveDq_iff`: what the abstraction "pointer = id" assumes, exactly.  The resolver of `self` is filtered
by the model's `disqualifyDifference` iff the objects under `allArchs[self]` are the resolver's own
(`gen self = g0`); the generations of the SIBLINGS' objects never matter. -/
theorem effectiveDq_iff (archs : List (Text × Universe)) (self : Text) (g0 : Nat) (gen : Text → Nat) (i : Nat) :
    i ∈ effectiveDq archs self g0 gen ↔ i ∈ disqualifyDifference archs self ∧ gen self = g0 := by
  have key : (dqObjects archs gen).contains (self, i, g0) = true ↔
      (∃ e ∈ archs, e.1 = self) ∧ i ∈ disqualifyDifference archs self ∧ gen self = g0 := by
    simp only [dqObjects, List.contains_iff_mem, List.mem_flatMap, List.mem_map, Prod.mk.injEq]
    constructor
    · rintro ⟨e, he, j, hj, hs, rfl, hg⟩
      subst hs
      exact ⟨⟨e, he, rfl⟩, hj, hg⟩
    · rintro ⟨⟨e, he, hs⟩, hj, hg⟩
      exact ⟨e, he, i, hs ▸ hj, hs, rfl, hs ▸ hg⟩
  unfold effectiveDq
  cases hl : lookupT archs self with
  | none =>
    simp only [List.not_mem_nil, false_iff, not_and]
    intro hi
    obtain ⟨u, hu, _⟩ := dq_sub_ids archs self i hi
    rw [hl] at hu; cases hu
  | some u =>
    simp only [List.mem_filter, key]
    constructor
    · rintro ⟨_, _, h2⟩; exact h2
    · rintro ⟨hi, hg⟩
      obtain ⟨u', hu', hm⟩ := dq_sub_ids archs self i hi
      rw [hl] at hu'; cases hu'
      have he := C14.lookupT_mem hl
      exact ⟨hm, ⟨(self, u), he, rfl⟩, hi, hg⟩

/-- T `effectiveDq_own` (the repaired wiring): `allArchs[self]` holds the resolver's own index objects, so
whatever generations the fetches of the siblings produce (index cache hit or miss, ETag or none, online or
offline, duplicate concurrent parses) the resolver is filtered by exactly the model's set -/
theorem effectiveDq_own (archs : List (Text × Universe)) (self : Text) (g0 : Nat) (gen : Text → Nat)
    (hown : gen self = g0) (i : Nat) :
    i ∈ effectiveDq archs self g0 gen ↔ i ∈ disqualifyDifference archs self := by
  rw [effectiveDq_iff]; exact ⟨fun h => h.1, fun h => ⟨h, hown⟩⟩

/-- T `effectiveDq_refetched` (the pinned wiring when the second fetch of the own indexes is not answered from
the index cache): nothing is filtered -/
theorem effectiveDq_refetched (archs : List (Text × Universe)) (self : Text) (g0 : Nat) (gen : Text → Nat)
    (hre : gen self ≠ g0) : effectiveDq archs self g0 gen = [] := by
  apply List.eq_nil_iff_forall_not_mem.mpr
  intro i hi
  exact hre ((effectiveDq_iff archs self g0 gen i).mp hi).2

theorem filter_ids_eq {l : List Pkg} (hd : l.Pairwise (fun a b => a.id ≠ b.id)) (P : Pkg → Bool) :
    (l.map (·.id)).filter (fun i => decide (i ∈ (l.filter P).map (·.id))) = (l.filter P).map (·.id) := by
  induction l with
  | nil => simp
  | cons a as ih =>
    have ha := (List.pairwise_cons.mp hd).1
    have has := (List.pairwise_cons.mp hd).2
    have tail : (as.map (·.id)).filter (fun i => decide (i ∈ ((a :: as).filter P).map (·.id))) =
        (as.map (·.id)).filter (fun i => decide (i ∈ (as.filter P).map (·.id))) := by
      apply List.filter_congr
      intro i hi
      obtain ⟨b, hb, rfl⟩ := List.mem_map.mp hi
      cases hP : P a with
      | false => simp [List.filter_cons, hP]
      | true =>
        simp only [List.filter_cons, hP, if_true, List.map_cons, List.mem_cons, decide_eq_decide]
        constructor
        · rintro (h | h)
          · exact absurd h.symm (ha b hb)
          · exact h
        · exact Or.inr
    cases hP : P a with
    | false =>
      have hn : a.id ∉ ((a :: as).filter P).map (·.id) := by
        simp only [List.filter_cons, hP]
        intro h
        obtain ⟨b, hb, hid⟩ := List.mem_map.mp h
        exact ha b (List.mem_filter.mp hb).1 hid.symm
      rw [List.map_cons, List.filter_cons, if_neg (by simpa using hn), tail, ih has]
      simp [List.filter_cons, hP]
    | true =>
      have hy : a.id ∈ ((a :: as).filter P).map (·.id) := by simp [List.filter_cons, hP]
      rw [List.map_cons, List.filter_cons, if_pos (by simpa using hy), tail, ih has]
      simp [List.filter_cons, hP]

/-- T `effectiveDq_own_eq`: for a universe with distinct ids the repaired wiring hands the resolver literally the
model's list, so every theorem of C14 about `resolve c w (disqualifyDifference archs self)` is a theorem about
the wired resolution (`glue_available_partial`) -/
theorem effectiveDq_own_eq (archs : List (Text × Universe)) (self : Text) (u : Universe) (g0 : Nat)
    (gen : Text → Nat) (hu : lookupT archs self = some u) (hd : C02.IdsDistinct u) (hown : gen self = g0) :
    effectiveDq archs self g0 gen = disqualifyDifference archs self := by
  have hcongr : effectiveDq archs self g0 gen =
      (u.all.map (·.id)).filter (fun i => decide (i ∈ disqualifyDifference archs self)) := by
    have hm : ∀ i, i ∈ effectiveDq archs self g0 gen ↔ i ∈ disqualifyDifference archs self :=
      effectiveDq_own archs self g0 gen hown
    unfold effectiveDq at hm ⊢
    simp only [hu] at hm ⊢
    apply List.filter_congr
    intro i hi
    have := hm i
    simp only [List.mem_filter, hi, true_and] at this
    cases hc : (dqObjects archs gen).contains (self, i, g0) with
    | true => simpa using this.mp hc
    | false =>
      have hne : ¬ i ∈ disqualifyDifference archs self := fun h => by
        have := this.mpr h; rw [hc] at this; cases this
      simpa using hne
  rw [hcongr]
  unfold disqualifyDifference
  by_cases hl : archs.length = 1
  · simp [hl]
  · simp only [hl, if_false, hu]
    exact filter_ids_eq hd _

/-- C14's headline through the wiring: two or more architectures, the repaired `ResolveWorld` (own objects under
its own key), no install_if expansion ⇒ every member of the install set exists on every other architecture —
whatever object generations the sibling fetches returned -/
theorem glue_available_partial (archs : List (Text × Universe)) (self : Text) (u : Universe)
    (hl : archs.length ≠ 1) (hu : lookupT archs self = some u) (c : Cfg) (hc : c.u = u) (hd : C02.IdsDistinct u)
    (g0 : Nat) (gen : Text → Nat) (hown : gen self = g0)
    (w : List Text) (r : Resolution)
    (h : resolve c w (effectiveDq archs self g0 gen) = .ok r) (hf : "F02b" ∉ r.flags) :
    Driver.Resolver.firstUnavailable archs self r.install = none := by
  rw [effectiveDq_own_eq archs self u g0 gen hu hd hown] at h
  exact C14.resolve_available_partial archs self u hl hu c hc w r h hf

/-- F14b witness (corpus/glue-avail/F14b-*.json): lib-1.1-r0 exists for x86_64 only.  The model disqualifies it
(id 1); with re-fetched objects the resolver sees an empty filter and selects it. -/
def famF14b : List (Text × Universe) :=
  [("x86_64".toList, [⟨[], "r/x86_64".toList,
      [⟨0, "lib".toList, "1.0-r0".toList, [], "r/x86_64".toList, [], 0, [], [], []⟩,
       ⟨1, "lib".toList, "1.1-r0".toList, [], "r/x86_64".toList, [], 0, [], [], []⟩,
       ⟨2, "app".toList, "2.0-r0".toList, [], "r/x86_64".toList, [], 0, ["lib".toList], [], []⟩]⟩]),
   ("aarch64".toList, [⟨[], "r/aarch64".toList,
      [⟨0, "lib".toList, "1.0-r0".toList, [], "r/aarch64".toList, [], 0, [], [], []⟩,
       ⟨1, "app".toList, "2.0-r0".toList, [], "r/aarch64".toList, [], 0, ["lib".toList], [], []⟩]⟩])]

theorem F14b_witness :
    disqualifyDifference famF14b "x86_64".toList = [1] ∧
    effectiveDq famF14b "x86_64".toList 0 (fun _ => 0) = [1] ∧
    effectiveDq famF14b "x86_64".toList 0 (fun a => if a = "x86_64".toList then 1 else 0) = [] := by decide

/-! ## 5. ties to the source (regenerated by extract/glue.go on every run) -/

/-- the world is the sorted set of `contents.packages` and the appended packages (`Glue.world`) -/
theorem tie_worldExpr : Generated.worldExpr =
    "sets.List(sets.New(bc.ic.Contents.Packages...).Insert(bc.o.ExtraPackages...))" := by rfl

/-- the repositories file is the sorted set of the four lists of lines (`Glue.indexesOf`) -/
theorem tie_buildReposExpr : Generated.buildReposExpr =
    "sets.List( sets.New(bc.ic.Contents.BuildRepositories...). Insert(bc.ic.Contents.RuntimeRepositories...). Insert(bc.o.ExtraBuildRepos...). Insert(bc.o.ExtraRuntimeRepos...), )" := by rfl

/-- `SetWorld` sorts once more and `GetWorld` splits on white space: sorted, blank-free entries come back as written -/
theorem tie_worldFile : Generated.setWorldSorts = true ∧
    Generated.getWorldReturn = "return strings.Fields(string(worldData)), nil" := ⟨rfl, rfl⟩

/-- siblings are keyed by the architecture itself (armhf and armv7 are two keys; C14 assumes distinct names) -/
theorem tie_byArchKey : Generated.byArchKey = "arch.String()" := by rfl

/-- `ResolveWorld` puts its OWN index objects under its own key (hypothesis `gen self = g0` of `effectiveDq_own`)
and fetches only the siblings -/
theorem tie_resolveWorldSiblings : Generated.resolveWorldSiblings =
    ["if otherAPK == a { allArchs[otherArch] = indexes continue }",
     "indexes, err := otherAPK.GetRepositoryIndexes(ctx, a.ignoreSignatures)"] := by rfl

end Apko.GlueThm
