/-
C02 lemmas, part 6: from the dependency walk to `resolve`.

* `gpwd_inv`      what a successful `getPackageWithDependencies` did;
* `worldLoop_infl` the first loop only adds to `dq`;
* `go_subset`     everything installed is a package of the universe (all inputs, flags or not);
* `go_flags`      ghost flags only grow along the world entries;
* `go_sound`      with no flag at the end: the install set only grows, every world entry still to do ends
                  up satisfied, and every installed package that was not there before has all its
                  dependencies satisfied inside the final set.

Core only.
-/
import Apko.Proofs.Lemmas.ResolverClosed

namespace Apko.C02
open Apko Apko.Resolver

/-- the two ghost updates at the end of `getPackageWithDependencies` -/
theorem st2_facts (s : St) (b : Bool) (deps t : List Pkg) :
    let st1 := if b then s.flag "F02a" else s
    let st2 := if (deps ++ t).length != deps.length then st1.flag "F02b" else st1
    st2.dq = s.dq ∧ st2.selected = s.selected ∧
      (st2.flags = [] → s.flags = [] ∧ b = false ∧ deps ++ t = deps) := by
  intro st1 st2
  have h1 : st1.dq = s.dq ∧ st1.selected = s.selected ∧ (st1.flags = [] → s.flags = [] ∧ b = false) := by
    cases b
    · exact ⟨rfl, rfl, fun h => ⟨h, rfl⟩⟩
    · exact ⟨flag_dq _ _, flag_selected _ _, fun h => absurd h (flag_flags_ne _ _)⟩
  by_cases hl : ((deps ++ t).length != deps.length) = true
  · have : st2 = st1.flag "F02b" := by simp only [st2, hl, if_true]
    rw [this]
    exact ⟨by rw [flag_dq]; exact h1.1, by rw [flag_selected]; exact h1.2.1,
      fun h => absurd h (flag_flags_ne _ _)⟩
  · have : st2 = st1 := by simp only [st2, hl, Bool.false_eq_true, if_false]
    rw [this]
    refine ⟨h1.1, h1.2.1, fun h => ⟨(h1.2.2 h).1, (h1.2.2 h).2, ?_⟩⟩
    have hlen : (deps ++ t).length = deps.length := by simpa using hl
    exact eq_of_append_length rfl hlen

/-- what a successful `getPackageWithDependencies` did -/
theorem gpwd_inv {c : Cfg} {fuel : Nat} {w : Text} {existing : List (Text × Pkg)} {st : St} {r : WithDeps}
    (h : getPackageWithDependencies c fuel w existing st = .ok r) :
    ∃ out origins, resolvePackage c w st.dq = some r.pkg ∧
      getDeps c fuel r.pkg (parseConstraint w).pin [] ⟨st, existing, origins⟩ = .ok out ∧
      r.st.dq = out.ds.st.dq ∧ r.st.selected = out.ds.st.selected ∧
      (∃ t, r.deps = addFold [] out.deps ++ t ∧ ∀ x ∈ t, x ∈ c.u.all) ∧
      (r.st.flags = [] →
        out.ds.st.flags = [] ∧ dedupDropsOther [] out.deps = false ∧ r.deps = addFold [] out.deps) := by
  unfold getPackageWithDependencies at h
  simp only at h
  split at h
  · simp at h
  · next pkg hpkg =>
    split at h
    · simp at h
    · simp at h
    · next out hout =>
      simp only [Res.ok.injEq] at h
      subst h
      simp only
      cases hfix : c.installIfFixed
      · obtain ⟨t, ht, htu⟩ := installIfMapLoop_append c (dedupByName out.deps)
        simp only [Bool.false_eq_true, if_false, ht]
        have := st2_facts out.ds.st (dedupDropsOther [] out.deps) (dedupByName out.deps) t
        exact ⟨out, _, hpkg, hout, this.1, this.2.1, ⟨t, rfl, htu⟩, this.2.2⟩
      · obtain ⟨t, ht, htu⟩ := installIfFixedLoop_append c
          (c.u.all.length + (dedupByName out.deps).length + 1) 0 (dedupByName out.deps)
        simp only [if_true, ht]
        have := st2_facts out.ds.st (dedupDropsOther [] out.deps) (dedupByName out.deps) t
        exact ⟨out, _, hpkg, hout, this.1, this.2.1, ⟨t, rfl, htu⟩, this.2.2⟩

/-- the root and every dependency returned by `getPackageWithDependencies` is a package of the universe -/
theorem gpwd_subset {c : Cfg} {fuel : Nat} {w : Text} {existing : List (Text × Pkg)} {st : St}
    {r : WithDeps} (h : getPackageWithDependencies c fuel w existing st = .ok r) :
    ∀ p ∈ r.deps ++ [r.pkg], p ∈ c.u.all := by
  obtain ⟨out, origins, hpkg, hout, _, _, ⟨t, ht, htu⟩, _⟩ := gpwd_inv h
  have hm := getDeps_mono c _ fuel _ _ _ _ hout
  intro p hp
  rw [ht] at hp
  simp only [List.append_assoc, List.mem_append, List.mem_singleton] at hp
  rcases hp with hp | hp | hp
  · rcases addFold_mem [] out.deps p hp with h1 | h1
    · simp at h1
    · rcases hm.deps_u p h1 with h2 | h2
      · simp at h2
      · exact h2
  · exact htu p hp
  · subst hp
    exact (nameMap_mem (resolvePackage_mem hpkg).1).1

/-- the first loop only adds to `dq` -/
theorem worldLoop_infl (c : Cfg) (fuel : Nat) :
    ∀ (constraints : List Text) (depMap : List (Text × Pkg)) (dq : List Nat)
      (r : List (Text × Pkg) × List Nat),
      worldLoop c fuel constraints depMap dq = .ok r → dq ⊆ r.2 := by
  induction fuel with
  | zero => intro _ _ _ _ h; simp [worldLoop] at h
  | succ n ih =>
    intro constraints depMap dq r h
    unfold worldLoop at h
    split at h
    · simp only [Res.ok.injEq] at h
      subst h
      exact fun _ h => h
    · split at h
      · simp at h
      · split at h
        · simp at h
        · split at h
          · simp at h
          · next dq1 hdq =>
            exact fun a ha => ih _ _ _ _ h (disqualifyConflicts_infl c _ _ _ hdq ha)

/-- T `go_subset`: everything installed is a package of the universe -/
theorem go_subset (c : Cfg) (ws : List Text) :
    ∀ (depMap : List (Text × Pkg)) (st : St) (inst : List Pkg) (confs : List Text) (r : Resolution),
      resolve.go c ws depMap st inst confs = .ok r → (∀ p ∈ inst, p ∈ c.u.all) →
      ∀ p ∈ r.install, p ∈ c.u.all := by
  induction ws with
  | nil =>
    intro _ _ _ _ r h hi
    simp only [resolve.go, Res.ok.injEq] at h
    subst h
    exact hi
  | cons w ws ih =>
    intro depMap st inst confs r h hi
    simp only [resolve.go] at h
    split at h
    · simp at h
    · simp at h
    · next r1 hg =>
      apply ih _ _ _ _ _ h
      intro p hp
      rcases addFold_mem inst (r1.deps ++ [r1.pkg]) p hp with h1 | h1
      · exact hi p h1
      · exact gpwd_subset hg p h1

/-- T `go_flags` (`flags_monotone` along the world entries) -/
theorem go_flags (c : Cfg) (ws : List Text) :
    ∀ (depMap : List (Text × Pkg)) (st : St) (inst : List Pkg) (confs : List Text) (r : Resolution),
      resolve.go c ws depMap st inst confs = .ok r → r.flags = [] → st.flags = [] := by
  induction ws with
  | nil =>
    intro _ _ _ _ r h hf
    simp only [resolve.go, Res.ok.injEq] at h
    subst h
    exact hf
  | cons w ws ih =>
    intro depMap st inst confs r h hf
    simp only [resolve.go] at h
    split at h
    · simp at h
    · simp at h
    · next r1 hg =>
      have h1 := ih _ _ _ _ _ h hf
      split at h1
      · exact absurd h1 (flag_flags_ne _ _)
      · obtain ⟨out, origins, _, hout, _, _, _, hnf⟩ := gpwd_inv hg
        exact (getDeps_mono c _ _ _ _ _ _ hout).flags (hnf h1).1

/-- T `go_sound`: the second loop of `resolve`, with no ghost flag at the end -/
theorem go_sound (c : Cfg) (hu : IdsDistinct c.u) (ws : List Text) :
    ∀ (depMap : List (Text × Pkg)) (st : St) (inst : List Pkg) (confs : List Text) (r : Resolution),
      resolve.go c ws depMap st inst confs = .ok r → r.flags = [] →
      (∀ p ∈ inst, p ∈ c.u.all) → (∀ e ∈ st.selected, e.2 ∈ inst) → (∀ e ∈ st.selected, KeyOK e) →
      (∀ w ∈ ws, isConflict w = false → Tight c st.dq w) →
      (∀ p ∈ inst, p ∈ r.install) ∧
      (∀ w ∈ ws, isConflict w = false → ∃ p ∈ r.install, sat p w = true) ∧
      (∀ p ∈ r.install, p ∈ inst ∨ DepsSat r.install p) := by
  induction ws with
  | nil =>
    intro _ _ _ _ r h _ _ _ _ _
    simp only [resolve.go, Res.ok.injEq] at h
    subst h
    exact ⟨fun _ h => h, by simp, fun _ h => Or.inl h⟩
  | cons w ws ih =>
    intro depMap st inst confs r h hf hiu hsel hkey htight
    have hgo := h
    simp only [resolve.go] at h
    split at h
    · simp at h
    · simp at h
    · next r1 hg =>
      -- no flag in this iteration
      have hf1 := go_flags c ws _ _ _ _ _ h hf
      have hdd : dedupDropsOther inst (r1.deps ++ [r1.pkg]) = false := by
        split at hf1
        · exact absurd hf1 (flag_flags_ne _ _)
        · next hd => simpa using hd
      simp only [hdd, Bool.false_eq_true, if_false] at h hf1
      obtain ⟨out, origins, hpkg, hout, hdq, hsl, _, hnf⟩ := gpwd_inv hg
      obtain ⟨hfo, hdd0, hdeps⟩ := hnf hf1
      have hm := getDeps_mono c _ _ _ _ _ _ hout
      simp only at hm
      have haddu := gpwd_subset hg
      have hpu : r1.pkg ∈ c.u.all := haddu _ (by simp)
      have houtu : ∀ p ∈ out.deps, p ∈ c.u.all := by
        intro p hp
        rcases hm.deps_u p hp with h2 | h2
        · simp at h2
        · exact h2
      -- everything offered is installed
      have hkeep : ∀ p ∈ r1.deps ++ [r1.pkg], p ∈ addFold inst (r1.deps ++ [r1.pkg]) :=
        addFold_keeps_mem hu hiu haddu hdd
      have hkeep0 : ∀ p ∈ out.deps, p ∈ r1.deps := by
        rw [hdeps]
        exact addFold_keeps_mem hu (by simp) houtu hdd0
      have hpkgI : r1.pkg ∈ addFold inst (r1.deps ++ [r1.pkg]) := hkeep _ (by simp)
      have houtI : ∀ p ∈ out.deps, p ∈ addFold inst (r1.deps ++ [r1.pkg]) :=
        fun p hp => hkeep _ (List.mem_append_left _ (hkeep0 p hp))
      have hselI : ∀ e ∈ out.ds.st.selected, e.2 ∈ addFold inst (r1.deps ++ [r1.pkg]) := by
        intro e he
        rcases hm.prov e he with h1 | ⟨h1 | h1, _⟩
        · exact addFold_sub _ _ _ (hsel e h1)
        · rw [h1]; exact hpkgI
        · exact houtI _ h1
      -- the tail
      have hiu' : ∀ p ∈ addFold inst (r1.deps ++ [r1.pkg]), p ∈ c.u.all := by
        intro p hp
        rcases addFold_mem _ _ p hp with h1 | h1
        · exact hiu p h1
        · exact haddu p h1
      obtain ⟨t1, t2, t3⟩ := ih _ _ _ _ _ h hf hiu'
        (by rw [hsl]; exact hselI)
        (by
          rw [hsl]
          intro e he
          rcases hm.prov e he with h1 | ⟨_, h1⟩
          · exact hkey e h1
          · exact h1)
        (by
          intro w' hw' hnc
          refine (htight w' (List.mem_cons_of_mem _ hw') hnc).mono ?_
          rw [hdq]
          exact hm.dq)
      refine ⟨fun p hp => t1 p (addFold_sub _ _ p hp), ?_, ?_⟩
      · intro w' hw' hnc
        rcases List.mem_cons.mp hw' with rfl | hw'
        · exact ⟨r1.pkg, t1 _ hpkgI, candidate_sat hpkg (htight _ (List.mem_cons_self ..) hnc)⟩
        · exact t2 w' hw' hnc
      · intro p hp
        rcases t3 p hp with h1 | h1
        · rcases addFold_mem _ _ p h1 with h2 | h2
          · exact Or.inl h2
          · right
            have hcl := getDeps_closed c hu r.install _ _ _ _ _ _ hout hpu (t1 _ hpkgI)
              (fun x hx => t1 _ (houtI x hx)) (fun e he => t1 _ (hselI e he)) hkey hfo
            have hp' : p = r1.pkg ∨ p ∈ out.deps := by
              rcases List.mem_append.mp h2 with h3 | h3
              · right
                rw [hdeps] at h3
                rcases addFold_mem _ _ p h3 with h4 | h4
                · simp at h4
                · exact h4
              · left; simpa using h3
            rcases hcl p hp' with ⟨a, ha, _⟩ | h3
            · simp at ha
            · exact h3
        · exact Or.inr h1

end Apko.C02
