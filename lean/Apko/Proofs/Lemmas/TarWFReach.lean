import Apko.Model.Tar
import Apko.Proofs.Lemmas.TarWFNode
import Apko.Proofs.Lemmas.FSDirBit
/-!
# `Tar.WF` is an invariant of the file-system operations

`Tar.WF fs` = `Inv fs` ∧ every node is `nodeOK`.  `Inv` is `C17.inv_step`; this file shows that `nodeOK`
of every node is preserved by `step` for every operation that satisfies the decidable guard `opTarOK`
(`nodeok_step`), hence holds in every state reachable from the empty file system (`tar_wf_run`,
`tar_wf_reachable`).  `opTarOK` implies `opModeOK` (`opModeOK_of_opTarOK`), so it is the only guard.

Every conjunct of the guard is forced: the `…_iff` lemmas of `Lemmas/TarWFNode.lean` and the witnesses at
the end (`guard_needed_*`) show an operation violating it that leads to a node that is not `nodeOK`.
-/
namespace Apko.Tar
open Apko Apko.Path Apko.FS

/-! ## the guard -/

/-- What `nodeok_step` needs of a `WriteHeader` header.

* `'2'` (symlink) entries name a target.  **The code can violate this**: `tarfs.WriteHeader` takes
  `hdr.Linkname` from the package's tar stream unchecked (`pkg/apk/apk/install.go: lazilyInstallAPKFiles`
  → `pkg/tarfs/fs.go: writeHeader`, `linkTarget: te.header.Linkname`); a package with a symlink entry
  whose link name is empty installs.  See `emptyTarget_*` below for what the layer then contains.
* for `'0'` and `'2'` entries the announced size is the length of what the package file delivers.  The
  code cannot violate this as long as the expanded package file is not modified under it: the content
  is what `archive/tar` delivers for the entry, which is exactly `Size` bytes or an error.  (It is a
  constraint on the harness: `fsHdr.Size` and `fsHdr.Content` are independent fields there.)

**A conjunct the model cannot state.**  `hdrMode` (Model/FS.lean) reads the low twelve bits of the header's
mode *field* and takes the type from the type flag — the headers the suites generate.  The real
`te.header.FileInfo().Mode()` also decodes `c_ISDIR` / `c_ISLNK` / `c_ISBLK` / `c_ISCHR` / `c_ISFIFO` /
`c_ISSOCK` from bits 12–15 of the field.  Probed on the pinned tree (`tarfs.WriteHeader` of a `'0'` entry):
field `040644` gives a node with `ModeDir`, `dir = false` and a nil children map (`Mkdir` below it panics:
assignment to entry in nil map — `DirBit` is violated in the real file system, not in the model);
`0120644` a symbolic link with an empty target; `060644` / `010644` / `0140644` a block device / FIFO /
socket node carrying a package entry.  For mode fields below `0o10000` (what every tar writer emits for `'0'`
and `'2'` entries, and what the suites generate) the model is exact and this file applies.

Type flags other than `'0' '1' '2' '5'` need no guard: `WriteHeader` refuses them (`unsupported file
type`, `writeHeaderOp`'s last branch; FIFO / block / character device entries of a package never reach
the file system). -/
def hdrTarOK (h : Hdr) : Bool :=
  (h.typeflag != 50 || h.linkname != []) &&
  (!(h.typeflag == 48 || h.typeflag == 50) || h.size == h.content.length)

/-- The guard of `nodeok_step`, conjunct by conjunct (can the code violate it?):

* `Mkdir` / `MkdirAll`: the permission argument carries neither `ModeSymlink` (bit 27) nor
  `ModeCharDevice` (bit 21); every other bit, `ModeDir` included, is harmless (`nodeOK_newDir_iff`).
  Not violated by apko: the callers pass literals, `header.FileInfo().Mode().Perm()`, `e.perms` of
  `baseDirectories`/`initDirectories`, and `permissionsToFileMode(mut.Permissions)` (`pkg/build/paths.go`,
  which builds the mode from the low twelve bits only).  The API (`fs.FileMode`) does not prevent it.
* `OpenFile` / `WriteFile`: no bit of `fs.ModeType` in the permission argument (`Create` passes 0o666).
  apko's own calls pass literals and `e.perms`; **`installFile` passes `header.FileInfo().Mode()`**
  (`pkg/apk/apk/install.go:57`, the non-lazy path used when the target is not a `tarfs`), which for a
  `'0'` entry whose mode *field* carries `c_ISLNK`/`c_ISBLK`/`c_ISFIFO`/`c_ISSOCK`/`c_ISDIR` has type bits.
  The layer build (`tarfs`) does not take that path.
* `Chmod`: no bit of `fs.ModeType` (`anode.mode = perm | (anode.mode & os.ModeType)` or's them in).  Not
  violated: the only callers are `permissionsToFileMode(perms)` and the literal `0444`.
* `Symlink`: the target is not empty.  **Can be violated**: `mutateSymLink` passes `mut.Source` of a
  `paths:` entry of the image configuration unchecked (`pkg/build/paths.go:141`), and the non-lazy
  installer passes `header.Linkname`.
* `Mknod`: the `uint32` mode carries neither bit 31 nor bit 27.  Not violated: the callers pass
  `unix.S_IFCHR|perms` and `unix.S_IFCHR` (bit 13).  Note what is *not* demanded: that the mode says
  "character device" — `Mknod` makes a character device whatever `S_IF*` says (`nodeOK_newDev`).
* `WriteHeader`: `hdrTarOK`. -/
def opTarOK : Op → Bool
  | .mkdir _ perm => !perm.testBit 27 && !perm.testBit 21
  | .mkdirAll _ perm => !perm.testBit 27 && !perm.testBit 21
  | .openFile _ _ perm => noTypeBits perm
  | .writeFile _ _ perm => noTypeBits perm
  | .chmod _ perm => noTypeBits perm
  | .symlink target _ => target != []
  | .mknod _ mode _ => !mode.testBit 31 && !mode.testBit 27
  | .writeHeader h => hdrTarOK h
  | _ => true

/-- the guard of `C17.dirbit_step` is implied -/
theorem opModeOK_of_opTarOK (op : Op) (h : opTarOK op = true) : opModeOK op := by
  cases op <;> simp only [opModeOK, opTarOK, noDirBit] at * <;> try trivial
  all_goals first
    | exact ((noTypeBits_iff _).mp h).1
    | (simp only [Bool.and_eq_true, Bool.not_eq_true'] at h; exact h.1)

/-! ## `nodeOK` of every node, as a structure -/

structure NB (fs : FS) : Prop where
  ok : ∀ i, nodeOK (fs.node i) = true

theorem nodeOK_dflt : nodeOK (default : Inode) = true := by decide

theorem NB.empty : NB FS.empty := by
  refine ⟨fun i => ?_⟩
  rcases i with _ | i
  · decide
  · rw [node_empty_succ]; exact nodeOK_dflt

theorem NB.of_nodes_eq {fs fs' : FS} (h : fs'.nodes = fs.nodes) (hb : NB fs) : NB fs' := by
  refine ⟨fun i => ?_⟩
  have : fs'.node i = fs.node i := by simp [FS.node, h]
  rw [this]; exact hb.ok i

theorem NB.handles {fs : FS} (hs : List Handle) (hb : NB fs) : NB { fs with handles := hs } :=
  NB.of_nodes_eq (fs := fs) rfl hb

theorem NB.setNode {fs : FS} (hb : NB fs) (i : Nat) (n : Inode) (hn : nodeOK n = true) : NB (fs.setNode i n) := by
  refine ⟨fun j => ?_⟩
  rw [node_setNode]
  split
  · exact hn
  · exact hb.ok j

theorem NB.modify {fs : FS} (hb : NB fs) (i : Nat) (f : Inode → Inode)
    (hf : nodeOK (fs.node i) = true → nodeOK (f (fs.node i)) = true) : NB (fs.modify i f) :=
  hb.setNode i _ (hf (hb.ok i))

/-- an update that keeps everything `nodeOK` reads -/
theorem NB.modify_same {fs : FS} (hb : NB fs) (i : Nat) (f : Inode → Inode)
    (hm : ∀ n, (f n).mode = n.mode) (hd : ∀ n, (f n).dir = n.dir) (ht : ∀ n, (f n).target = n.target)
    (hte : ∀ n, (f n).te = n.te) (hh : ∀ n, (f n).hardlinks = n.hardlinks) : NB (fs.modify i f) :=
  hb.modify i f (by intro h; rw [nodeOK_same _ _ (hm _) (hd _) (ht _) (hte _) (hh _)]; exact h)

theorem NB.setNode_same {fs : FS} (hb : NB fs) (i : Nat) (n : Inode)
    (hm : n.mode = (fs.node i).mode) (hd : n.dir = (fs.node i).dir) (ht : n.target = (fs.node i).target)
    (hte : n.te = (fs.node i).te) (hh : n.hardlinks = (fs.node i).hardlinks) : NB (fs.setNode i n) :=
  hb.setNode i n (by rw [nodeOK_same _ _ hm hd ht hte hh]; exact hb.ok i)

theorem NB.alloc {fs : FS} (hb : NB fs) (nd : Inode) (hn : nodeOK nd = true) : NB (fs.alloc nd).1 := by
  refine ⟨fun j => ?_⟩
  rw [node_alloc]
  split
  · exact hn
  · exact hb.ok j

theorem NB.link {fs : FS} (hb : NB fs) (d : Nat) (n : Name) (t : Nat) : NB (fs.link d n t) :=
  hb.modify_same d _ (fun _ => rfl) (fun _ => rfl) (fun _ => rfl) (fun _ => rfl) (fun _ => rfl)

theorem NB.unlink {fs : FS} (hb : NB fs) (d : Nat) (n : Name) : NB (fs.unlink d n) :=
  hb.modify_same d _ (fun _ => rfl) (fun _ => rfl) (fun _ => rfl) (fun _ => rfl) (fun _ => rfl)

theorem NB.create {fs : FS} (hb : NB fs) (d : Nat) (n : Name) (nd : Inode) (hn : nodeOK nd = true) :
    NB (fs.create d n nd).1 := by
  unfold FS.create
  exact (hb.alloc nd hn).link d n _

/-- `nodeOK`'s first conjunct gives `DirBit` -/
theorem NB.dirBit {fs : FS} (hb : NB fs) : DirBit fs := by
  intro i h
  rw [nodeOK_dirBit _ (hb.ok i)]; exact h

/-! ## the operations -/

theorem mkdirAllLoop_nb (c : Cfg) (mode : Nat) (hm : nodeOK (newDir mode) = true) :
    ∀ (rest : List Name) (fs : FS) (at_ : Pos) (tr : List Name),
      NB fs → NB (mkdirAllLoop c mode rest fs at_ tr).1 := by
  intro rest
  induction rest with
  | nil => intro fs at_ tr hb; simpa [mkdirAllLoop] using hb
  | cons part rest ih =>
    intro fs at_ tr hb
    unfold mkdirAllLoop
    cases hl : fs.lookup at_.ino part with
    | some n =>
      simp only []
      repeat' split
      all_goals (try exact hb)
      all_goals (exact ih _ _ _ hb)
    | none =>
      have hb1 := hb.create at_.ino part (newDir mode) hm
      simp only []
      repeat' split
      all_goals (try exact hb1)
      all_goals (exact ih _ _ _ hb1)

theorem mkdirAll_nb (c : Cfg) (fs : FS) (p : Text) (perm : Nat)
    (h27 : perm.testBit 27 = false) (h21 : perm.testBit 21 = false) (hb : NB fs) :
    NB (mkdirAll c fs p perm).1 := by
  unfold mkdirAll
  simp only []
  split
  · exact hb
  · have := mkdirAllLoop_nb c (modeDir ||| perm) (nodeOK_newDir perm h27 h21) ((parts p).filter (· ≠ dot)) fs { ino := 0 } [] hb
    split <;> simp_all

theorem openFileD_nb (c : Cfg) (flag perm : Nat) (hp : nodeOK { mode := perm } = true) :
    ∀ (budget : Nat) (fs : FS) (start : List Ino) (name : Text),
      NB fs → NB (openFileD c flag perm budget fs start name).1 := by
  intro budget
  induction budget with
  | zero =>
    intro fs start name hb
    unfold openFileD
    simp only []
    repeat' split
    all_goals (try exact hb)
    all_goals (try exact hb.create _ _ _ hp)
    all_goals (try exact NB.setNode_same (hb.create _ _ _ hp) _ _ rfl rfl rfl rfl rfl)
    all_goals (exact NB.setNode_same hb _ _ rfl rfl rfl rfl rfl)
  | succ k ih =>
    intro fs start name hb
    unfold openFileD
    simp only []
    repeat' split
    all_goals (try exact hb)
    all_goals (try exact ih _ _ _ hb)
    all_goals (try exact ih _ _ _ (hb.create _ _ _ hp))
    all_goals (try exact hb.create _ _ _ hp)
    all_goals (try exact NB.setNode_same (hb.create _ _ _ hp) _ _ rfl rfl rfl rfl rfl)
    all_goals (exact NB.setNode_same hb _ _ rfl rfl rfl rfl rfl)

theorem openCore_nb (c : Cfg) (fs : FS) (name : Text) (flag perm : Nat) (hp : nodeOK { mode := perm } = true)
    (hb : NB fs) : NB (openCore c fs name flag perm).1 := by
  unfold openCore
  have := openFileD_nb c flag perm hp maxLinks fs [0] name hb
  split
  · rename_i heq; simpa [heq] using this
  · rename_i fs1 o heq
    simp only [heq] at this
    simp only [newMemFile]
    split
    · exact NB.setNode_same this _ _ rfl rfl rfl rfl rfl
    · exact this

theorem setXattr_nb (c : Cfg) (fs : FS) (p : Text) (a : Name) (d : Text) (hb : NB fs) :
    NB (setXattr c fs p a d).1 := by
  unfold setXattr
  split
  · exact hb
  · simp only []
    apply NB.modify_same hb <;> (intro n; rfl)

theorem setXattrs_nb (c : Cfg) (name : Text) :
    ∀ (l : List (Name × Text)) (fs : FS), NB fs → NB (setXattrs c name l fs).1 := by
  intro l
  induction l with
  | nil => intro fs hb; simpa [setXattrs] using hb
  | cons e rest ih =>
    intro fs hb
    obtain ⟨k, v⟩ := e
    unfold setXattrs
    have := setXattr_nb c fs name k v hb
    generalize setXattr c fs name k v = r at this
    obtain ⟨fs1, o⟩ := r
    cases o <;> simp only [] <;> first | exact ih _ this | exact this

theorem finishXattrs_nb (c : Cfg) (h : Hdr) (fs : FS) (v : Val) (hb : NB fs) : NB (finishXattrs c h fs v).1 := by
  unfold finishXattrs
  have := setXattrs_nb c h.name h.xattrs fs hb
  split <;> simp_all

theorem link_node_dir (fs : FS) (d : Nat) (n : Name) (t j : Nat) :
    ((fs.link d n t).node j).dir = (fs.node j).dir := by
  unfold FS.link
  rw [node_modify]
  split
  · rename_i h; rw [h.1]
  · rfl

theorem link_node_mode (fs : FS) (d : Nat) (n : Name) (t j : Nat) :
    ((fs.link d n t).node j).mode = (fs.node j).mode := by
  unfold FS.link
  rw [node_modify]
  split
  · rename_i h; rw [h.1]
  · rfl

/-- `Link` and the `'1'` entries of `WriteHeader`: the old name resolves to a node that is neither a
directory (refused, F17h) nor a symbolic link (`getNode` follows it), so a registered hard-link header
ends up on a regular file or a device -/
theorem linkOp_nb (c : Cfg) (fs : FS) (o n : Text) (hdr : Bool) (hroot : (fs.node 0).dir = true) (hb : NB fs) :
    NB (linkOp c fs o n hdr).1 := by
  have h0 : (fs.node 0).isSymlink = false := nodeOK_dir_notSymlink _ (hb.ok 0) hroot
  unfold linkOp
  repeat' split
  all_goals (try exact hb)
  all_goals
    simp only []
    rename_i t hg hnd _ _ _
    have hts : (fs.node t).isSymlink = false := getNode_notSymlink h0 c o t hg
    have htd : (fs.node t).dir = false := by simpa using hnd
    apply NB.modify (hb.link _ _ _)
    intro hok
    apply nodeOK_addHardlink _ hok
    · rw [link_node_dir]; exact htd
    · unfold Inode.isSymlink; rw [link_node_mode]; exact hts

theorem writeHeaderFile_nb (c : Cfg) (fs : FS) (h : Hdr) (sum : Text) (hty : h.typeflag = 48 ∨ h.typeflag = 50)
    (hlink : h.typeflag = 50 → h.linkname ≠ []) (hsz : h.size = h.content.length) (hb : NB fs) :
    NB (writeHeaderFile c fs h sum).1 := by
  unfold writeHeaderFile
  simp only []
  repeat' split
  all_goals (try exact hb)
  all_goals exact hb.create _ _ _ (nodeOK_hdrNode h _ hty hlink hsz)

theorem perm777_bit (m k : Nat) (hk : 9 ≤ k) : (m &&& 0o777).testBit k = false := by
  rw [Nat.testBit_and]
  have : (0o777 : Nat).testBit k = false :=
    Nat.testBit_lt_two_pow (Nat.lt_of_lt_of_le (by decide : (0o777 : Nat) < 2 ^ 9) (Nat.pow_le_pow_right (by omega) hk))
  simp [this]

theorem whDir_nb (c : Cfg) (fs : FS) (h : Hdr) (hb : NB fs) : NB (whDir c fs h).1 := by
  unfold whDir
  have h1 := mkdirAll_nb c fs h.name (h.mode &&& 0o777) (perm777_bit _ 27 (by omega)) (perm777_bit _ 21 (by omega)) hb
  generalize mkdirAll c fs h.name (h.mode &&& 0o777) = r at h1
  obtain ⟨fs1, o⟩ := r
  cases o with
  | ok v =>
    simp only []
    split
    · exact h1
    · apply finishXattrs_nb
      apply NB.modify_same h1 <;> (intro n; rfl)
  | err e => exact h1
  | nohandle => exact h1

theorem whFile_nb (c : Cfg) (fs : FS) (h : Hdr) (hty : h.typeflag = 48 ∨ h.typeflag = 50)
    (hlink : h.typeflag = 50 → h.linkname ≠ []) (hsz : h.size = h.content.length) (hb : NB fs) :
    NB (whFile c fs h).1 := by
  unfold whFile
  split
  · exact hb
  · split
    · exact hb
    · rename_i sum _
      have h1 := writeHeaderFile_nb c fs h sum hty hlink hsz hb
      generalize writeHeaderFile c fs h sum = r at h1 ⊢
      obtain ⟨fs1, o⟩ := r
      cases o with
      | error e => exact h1
      | ok b => exact finishXattrs_nb c h fs1 _ h1

theorem hdrTarOK_spec (h : Hdr) (hg : hdrTarOK h = true) :
    (h.typeflag = 50 → h.linkname ≠ []) ∧ ((h.typeflag = 48 ∨ h.typeflag = 50) → h.size = h.content.length) := by
  unfold hdrTarOK at hg
  simp only [Bool.and_eq_true, Bool.or_eq_true, bne_iff_ne, ne_eq, Bool.not_eq_true', beq_iff_eq,
    Bool.or_eq_false_iff, beq_eq_false_iff_ne] at hg
  obtain ⟨h1, h2⟩ := hg
  refine ⟨fun h50 => ?_, fun hty => ?_⟩
  · rcases h1 with h1 | h1
    · exact absurd h50 h1
    · exact h1
  · rcases h2 with h2 | h2
    · rcases hty with hty | hty
      · exact absurd hty h2.1
      · exact absurd hty h2.2
    · exact h2

theorem writeHeaderOp_nb (c : Cfg) (fs : FS) (h : Hdr) (hg : hdrTarOK h = true) (hroot : (fs.node 0).dir = true)
    (hb : NB fs) : NB (writeHeaderOp c fs h).1 := by
  obtain ⟨hlink, hsz⟩ := hdrTarOK_spec h hg
  unfold writeHeaderOp
  split
  · exact hb
  · split
    · exact whDir_nb c fs h hb
    · split
      · rename_i hty
        exact whFile_nb c fs h hty hlink (hsz hty) hb
      · split
        · have h1 := linkOp_nb c fs h.linkname h.name true hroot hb
          generalize linkOp c fs h.linkname h.name true = r at h1
          obtain ⟨fs1, o⟩ := r
          cases o <;> exact h1
        · exact hb

theorem nb_step (c : Cfg) (fs : FS) (op : Op) (hg : opTarOK op = true) (hroot : (fs.node 0).dir = true)
    (hb : NB fs) : NB (step c fs op).1 := by
  cases op with
  | mkdirAll p perm =>
    simp only [opTarOK, Bool.and_eq_true, Bool.not_eq_true'] at hg
    exact mkdirAll_nb c fs p perm hg.1 hg.2 hb
  | mkdir p perm =>
    simp only [opTarOK, Bool.and_eq_true, Bool.not_eq_true'] at hg
    simp only [step]
    repeat' split
    all_goals (try exact hb)
    exact hb.create _ _ _ (nodeOK_newDir perm hg.1 hg.2)
  | openFile p flag perm =>
    simp only [step]
    have := openCore_nb c fs p flag perm (nodeOK_newFile perm hg) hb
    split <;> (rename_i heq; simp only [heq] at this; exact NB.handles _ this)
  | create p =>
    simp only [step]
    have := openCore_nb c fs p flagsWriteFile 0o666 (by decide) hb
    split <;> (rename_i heq; simp only [heq] at this; exact NB.handles _ this)
  | readFile p =>
    simp only [step]
    have := openCore_nb c fs p 0 0o644 (by decide) hb
    split <;> (rename_i heq; simp only [heq] at this; exact this)
  | writeFile p data perm =>
    simp only [step]
    have := openCore_nb c fs p flagsWriteFile perm (nodeOK_newFile perm hg) hb
    split
    · rename_i heq; simp only [heq] at this; exact this
    · rename_i heq; simp only [heq] at this; exact NB.setNode_same this _ _ rfl rfl rfl rfl rfl
  | setXattr p a d => exact setXattr_nb c fs p a d hb
  | link o n => exact linkOp_nb c fs o n false hroot hb
  | writeHeader h => exact writeHeaderOp_nb c fs h hg hroot hb
  | chmod p perm =>
    simp only [step]
    split
    · exact hb
    · simp only []
      apply hb.modify
      intro h0
      rw [nodeOK_chmod _ perm hg]; exact h0
  | symlink target newname =>
    have ht : target ≠ [] := by simpa [opTarOK] using hg
    simp only [step]
    repeat' split
    all_goals (try exact hb)
    exact hb.create _ _ _ (nodeOK_newSymlink _ _ ht)
  | mknod p mode dev =>
    simp only [opTarOK, Bool.and_eq_true, Bool.not_eq_true'] at hg
    simp only [step]
    repeat' split
    all_goals (try exact hb)
    exact hb.create _ _ _ (nodeOK_newDev _ _ _ _ hg.1 hg.2)
  | _ =>
    simp only [step]
    repeat' split
    all_goals (try exact hb)
    all_goals (try exact NB.handles _ hb)
    all_goals (try (simp only []; apply NB.modify_same hb <;> (intro n; rfl)))
    all_goals (try exact NB.handles _ (NB.setNode_same hb _ _ rfl rfl rfl rfl rfl))
    all_goals (try exact NB.unlink (NB.modify_same hb _ _ (by intro n; rfl) (by intro n; rfl) (by intro n; rfl)
      (by intro n; rfl) (by intro n; rfl)) _ _)

/-- **nodeok_step**: every operation satisfying `opTarOK` keeps every node `nodeOK`.  Beyond the
invariant itself only "the root is a directory" (`Inv.root`) is used of the state; `DirBit` is the first
conjunct of `nodeOK` (`NB.dirBit`), not a separate hypothesis. -/
theorem nodeok_step (c : Cfg) (fs : FS) (op : Op) (hg : opTarOK op = true) (hroot : (fs.node 0).dir = true)
    (hn : ∀ i, nodeOK (fs.node i) = true) : ∀ i, nodeOK ((step c fs op).1.node i) = true :=
  (nb_step c fs op hg hroot ⟨hn⟩).ok

/-! ## reachable states -/

theorem tar_wf_step (c : Cfg) (fs : FS) (op : Op) (hg : opTarOK op = true) (h : WF fs) : WF (step c fs op).1 :=
  ⟨FS.inv_step c fs op h.inv (NB.dirBit ⟨h.nodes⟩), nodeok_step c fs op hg h.inv.root h.nodes⟩

theorem tar_wf_run (c : Cfg) :
    ∀ (ops : List Op) (fs : FS), (∀ op ∈ ops, opTarOK op = true) → WF fs → WF (run c fs ops).1 := by
  intro ops
  induction ops with
  | nil => intro fs _ h; exact h
  | cons op rest ih =>
    intro fs hm h
    simp only [run]
    exact ih _ (fun o ho => hm o (List.mem_cons_of_mem _ ho)) (tar_wf_step c fs op (hm op List.mem_cons_self) h)

theorem tar_wf_empty : WF FS.empty := ⟨Inv.empty, NB.empty.ok⟩

/-- every state reachable from the empty file system (memfs or tarfs, Impl or Spec) through operations
satisfying `opTarOK` is `Tar.WF` -/
theorem tar_wf_reachable_tarOK (c : Cfg) (ops : List Op) (hm : ∀ op ∈ ops, opTarOK op = true) :
    WF (run c FS.empty ops).1 :=
  tar_wf_run c ops FS.empty hm tar_wf_empty

end Apko.Tar
