/-
C16 helper lemmas: the file-record codec of the installed db (`F:` / `M:` / `R:` / `a:` / `Z:` lines):
what `AddInstalledPackage` writes for a header list in `sortTarHeaders` order, `ParseInstalled` reads
back record by record.
-/
import Apko.Proofs.Lemmas.FormatsIndex
import Apko.Proofs.Lemmas.FormatsPath
import Apko.Proofs.Lemmas.FormatsSort

namespace Apko.Formats
open Apko

/-! ## permission strings -/

theorem parseIntB_of_ge (b : Nat) (c : Char) (r : Text) (h : 48 ≤ c.toNat) :
    parseIntB b (c :: r) =
      (parseUintB b (c :: r)).bind fun n => if n < 2 ^ 63 then some (Int.ofNat n) else none := by
  unfold parseIntB
  split
  · next heq => injection heq with h1 _; subst h1; exact absurd h (by decide)
  · next heq => injection heq with h1 _; subst h1; exact absurd h (by decide)
  · rfl

theorem isDigitB8_digitChar (d : Nat) (h : d < 8) : isDigitB 8 (digitChar d) = true := by
  simp [isDigitB, digitChar_toNat d (by omega)]; omega

theorem parseIntB_oct4 (n : Nat) (h : n < 4096) : parseIntB 8 (oct4 n) = some (Int.ofNat n) := by
  unfold oct4
  rw [parseIntB_of_ge 8 _ _ (by rw [digitChar_toNat _ (by omega)]; omega)]
  have e : digitsToNatB 8 [digitChar (n / 512 % 8), digitChar (n / 64 % 8), digitChar (n / 8 % 8), digitChar (n % 8)] = n := by
    simp only [digitsToNatB, List.foldl_cons, List.foldl_nil, digitChar_toNat (n / 512 % 8) (by omega),
      digitChar_toNat (n / 64 % 8) (by omega), digitChar_toNat (n / 8 % 8) (by omega),
      digitChar_toNat (n % 8) (by omega)]
    omega
  unfold parseUintB
  simp only [e, List.all_cons, List.all_nil, isDigitB8_digitChar (n / 512 % 8) (by omega),
    isDigitB8_digitChar (n / 64 % 8) (by omega), isDigitB8_digitChar (n / 8 % 8) (by omega),
    isDigitB8_digitChar (n % 8) (by omega)]
  have h1 : n < 2 ^ 64 := by omega
  have h2 : n < 2 ^ 63 := by omega
  simp [h1, h2]

theorem intToDec_chars (i : Int) : ∀ c ∈ intToDec i, c = '-' ∨ isDigitB 10 c = true := by
  intro c hc
  unfold intToDec at hc
  split at hc
  · rcases List.mem_cons.mp hc with h | h
    · exact Or.inl h
    · exact Or.inr (natToDec_digits _ c h)
  · exact Or.inr (natToDec_digits _ c hc)

theorem intToDec_no_colon (i : Int) : ':' ∉ intToDec i := by
  intro m
  rcases intToDec_chars i ':' m with h | h
  · exact absurd h (by decide)
  · exact absurd h (by decide)

theorem oct4_chars (n : Nat) : ∀ c ∈ oct4 n, isDigitB 10 c = true := by
  intro c hc
  simp only [oct4, List.mem_cons, List.not_mem_nil, or_false] at hc
  rcases hc with h | h | h | h <;> subst h <;> exact isDigitB_digitChar _ (by omega)

theorem oct4_no_colon (n : Nat) : ':' ∉ oct4 n := by
  intro m; exact absurd (oct4_chars n ':' m) (by decide)

def int64 (i : Int) : Bool := decide (-(2 ^ 63) ≤ i) && decide (i < 2 ^ 63)

/-- the text of an `M:` / `a:` line after the tag -/
def permText (u g : Int) (n : Nat) : Text := intToDec u ++ ':' :: (intToDec g ++ ':' :: oct4 n)

theorem parsePerms_permText (u g : Int) (n : Nat) (hu : int64 u = true) (hg : int64 g = true) (hn : n < 4096) :
    parsePerms (permText u g n) = some (u, g, Int.ofNat n) := by
  simp only [int64, Bool.and_eq_true, decide_eq_true_eq] at hu hg
  unfold parsePerms permText
  rw [splitOnChar_append_sep _ _ _ (intToDec_no_colon u), splitOnChar_append_sep _ _ _ (intToDec_no_colon g),
    splitOnChar_no_sep _ _ (oct4_no_colon n)]
  simp only [parseIntB_intToDec u hu.1 hu.2, parseIntB_intToDec g hg.1 hg.2, parseIntB_oct4 n hn]

theorem permText_safe (u g : Int) (n : Nat) : lineSafe (permText u g n) = true := by
  apply lineSafe_of_all
  intro c hc
  simp only [permText, List.mem_append, List.mem_cons] at hc
  have dig : ∀ c, (c = '-' ∨ isDigitB 10 c = true) → c ≠ '\n' ∧ c ≠ '\r' := by
    intro c h
    rcases h with h | h
    · subst h; exact ⟨by decide, by decide⟩
    · exact digit_safe c h
  rcases hc with h | h | h | h | h
  · exact dig c (intToDec_chars u c h)
  · subst h; exact ⟨by decide, by decide⟩
  · exact dig c (intToDec_chars g c h)
  · subst h; exact ⟨by decide, by decide⟩
  · exact digit_safe c (oct4_chars n c h)

theorem emodPerm (m : Int) : ∃ n : Nat, n < 4096 ∧ m.emod 4096 = Int.ofNat n ∧ (m.emod 4096).toNat = n := by
  have h1 : 0 ≤ m.emod 4096 := Int.emod_nonneg m (by decide)
  have h2 : m.emod 4096 < 4096 := Int.emod_lt_of_pos m (by decide)
  refine ⟨(m.emod 4096).toNat, by omega, ?_, rfl⟩
  simp only [Int.ofNat_eq_natCast]; omega

/-! ## what comes back of a file record -/

/-- what the installed db carries of a header: name, dir / non-dir, permission bits incl. setuid / setgid /
sticky (`& 0o7777`, F16d repaired), owner; the checksum is written but never read (F16c) -/
def fileProj (f : FileRec) : FileRec := { f with mode := f.mode.emod 4096, csum := [] }

/-- well-formed header: clean relative name free of LF / CR, owner ids in `int64`, line-safe checksum -/
def WFFile (f : FileRec) : Bool :=
  cleanRel f.name && lineSafe f.name && int64 f.uid && int64 f.gid && lineSafe f.csum

structure WFFileP (f : FileRec) : Prop where
  clean : cleanRel f.name = true
  safe : lineSafe f.name = true
  uid : int64 f.uid = true
  gid : int64 f.gid = true
  csum : lineSafe f.csum = true

theorem WFFile_spec (f : FileRec) (h : WFFile f = true) : WFFileP f := by
  unfold WFFile at h
  simp only [Bool.and_eq_true] at h
  obtain ⟨⟨⟨⟨a, b⟩, c⟩, d⟩, e⟩ := h
  exact ⟨a, b, c, d, e⟩

/-- the reader's cases for the file lines -/
structure FileCases (cs : List Case) : Prop where
  F : findCase cs 'F' = some .dirLine
  M : findCase cs 'M' = some (.dirPerm true)
  R : findCase cs 'R' = some .fileLine
  a : findCase cs 'a' = some (.filePerm true)
  Z : findCase cs 'Z' = none

def fileCasesOK (cs : List Case) : Bool :=
  findCase cs 'F' == some .dirLine && findCase cs 'M' == some (.dirPerm true) &&
  findCase cs 'R' == some .fileLine && findCase cs 'a' == some (.filePerm true) &&
  findCase cs 'Z' == none

theorem fileCasesOK_spec (cs : List Case) (h : fileCasesOK cs = true) : FileCases cs := by
  unfold fileCasesOK at h
  simp only [Bool.and_eq_true, beq_iff_eq] at h
  obtain ⟨⟨⟨⟨a, b⟩, c⟩, d⟩, e⟩ := h
  exact ⟨a, b, c, d, e⟩

/-! ## single lines -/

/-- the full path `ParseInstalled` gives an `R:` line -/
def fullName (ld : Option (Nat × FileRec)) (val : Text) : Text :=
  match ld with
  | some (_, d) => sanitizeJoin d.name val
  | none => val

section steps
variable (c : Codec) (cs : List Case) (g : Bool) (hcs : FileCases cs)
include hcs

theorem step_F (pk : List IPkg) (q : Pkg) (fs : List FileRec) (ld : Option (Nat × FileRec)) (lf : Option FileRec)
    (val : Text) :
    idbStep c cs g ⟨pk, q, fs, ld, lf⟩ ('F' :: ':' :: val) =
      .ok ⟨pk, q, fs ++ [⟨val, true, 0o755, 0, 0, []⟩], some (fs.length, ⟨val, true, 0o755, 0, 0, []⟩), none⟩ := by
  simp [idbStep, hcs.F]

theorem step_M (pk : List IPkg) (q : Pkg) (fs : List FileRec) (i : Nat) (h : FileRec) (lf : Option FileRec)
    (val : Text) (u gd m : Int) (hp : parsePerms val = some (u, gd, m)) :
    idbStep c cs g ⟨pk, q, fs, some (i, h), lf⟩ ('M' :: ':' :: val) =
      .ok ⟨pk, q, setAt fs i { h with uid := u, gid := gd, mode := m },
        some (i, { h with uid := u, gid := gd, mode := m }), lf⟩ := by
  simp [idbStep, hcs.M, hp]

theorem step_R (pk : List IPkg) (q : Pkg) (fs : List FileRec) (ld : Option (Nat × FileRec)) (lf : Option FileRec)
    (val : Text) :
    idbStep c cs g ⟨pk, q, fs, ld, lf⟩ ('R' :: ':' :: val) =
      .ok ⟨pk, q, fs ++ [⟨fullName ld val, false, 0o644, 0, 0, []⟩], ld, some ⟨fullName ld val, false, 0o644, 0, 0, []⟩⟩ := by
  cases ld with
  | none => simp [idbStep, hcs.R, fullName]
  | some p => obtain ⟨i, d⟩ := p; simp [idbStep, hcs.R, fullName]

theorem step_a (pk : List IPkg) (q : Pkg) (fs : List FileRec) (ld : Option (Nat × FileRec)) (h : FileRec)
    (val : Text) (u gd m : Int) (hp : parsePerms val = some (u, gd, m)) :
    idbStep c cs g ⟨pk, q, fs, ld, some h⟩ ('a' :: ':' :: val) =
      .ok ⟨pk, q, setAt fs (fs.length - 1) { h with uid := u, gid := gd, mode := m }, ld,
        some { h with uid := u, gid := gd, mode := m }⟩ := by
  simp [idbStep, hcs.a, hp]

theorem step_Z (st : IdbState) (val : Text) : idbStep c cs g st ('Z' :: ':' :: val) = .ok st := by
  simp [idbStep, hcs.Z]

end steps

theorem setAt_last (fs : List FileRec) (h h' : FileRec) : setAt (fs ++ [h]) fs.length h' = fs ++ [h'] := by
  unfold setAt
  rw [List.set_append_right _ _ (by omega)]
  simp

theorem setAt_lastIdx (fs : List FileRec) (h h' : FileRec) : setAt (fs ++ [h]) ((fs ++ [h]).length - 1) h' = fs ++ [h'] := by
  have : (fs ++ [h]).length - 1 = fs.length := by simp
  rw [this, setAt_last]

theorem idbFold_cons (c : Codec) (cs : List Case) (g : Bool) (st : IdbState) (l : Text) (ls : List Text) :
    idbFold c cs g st (l :: ls) = (idbStep c cs g st l).bind fun st' => idbFold c cs g st' ls := rfl

/-! ## one record -/

/-- the directory state the reader must be in for the record to read back -/
def dirOK (ld : Option (Nat × FileRec)) (f : FileRec) : Prop :=
  f.isDir = true ∨
  match ld with
  | none => pathDir f.name = ['.']
  | some (_, d) => cleanRel d.name = true ∧ d.name = pathDir f.name

/-- the reader state after the lines of one record -/
def afterRec (st : IdbState) (f : FileRec) : IdbState :=
  if f.isDir then ⟨st.pkgs, st.cur, st.files ++ [fileProj f], some (st.files.length, fileProj f), none⟩
  else ⟨st.pkgs, st.cur, st.files ++ [fileProj f], st.lastDir, some (fileProj f)⟩

theorem fileProj_dir (f : FileRec) (hd : f.isDir = true) :
    fileProj f = ⟨f.name, true, f.mode.emod 4096, f.uid, f.gid, []⟩ := by
  cases f; simp_all [fileProj]

theorem fileProj_file (f : FileRec) (hd : f.isDir = false) :
    fileProj f = ⟨f.name, false, f.mode.emod 4096, f.uid, f.gid, []⟩ := by
  cases f; simp_all [fileProj]

theorem idbFold_dirRec (c : Codec) (cs : List Case) (g : Bool) (hcs : FileCases cs) (f : FileRec)
    (st : IdbState) (ls rest : List Text) (hd : f.isDir = true) (hl : fileLines c f = .ok ls) (hw : WFFileP f) :
    idbFold c cs g st (ls ++ rest) = idbFold c cs g (afterRec st f) rest := by
  obtain ⟨pk, q, fs, ld, lf⟩ := st
  obtain ⟨n, hn, he, hn'⟩ := emodPerm f.mode
  unfold fileLines at hl
  simp only [hd, if_true, Res.ok.injEq] at hl
  subst hl
  simp only [afterRec, hd, if_true, fileProj_dir f hd, trimSuffixSlash_cleanRel f.name hw.clean,
    List.cons_append, idbFold_cons, step_F c cs g hcs, Res.bind]
  split
  · next hcond =>
    simp only [List.singleton_append, idbFold_cons, permLine]
    rw [step_M c cs g hcs pk q _ _ _ none _ f.uid f.gid (Int.ofNat n)
      (by rw [hn']; exact parsePerms_permText f.uid f.gid n hw.uid hw.gid hn)]
    simp only [Res.bind, setAt_last, he]
  · next hcond =>
    have h1 : f.mode.emod 4096 = 0o755 := by omega
    have h2 : f.uid = 0 := by omega
    have h3 : f.gid = 0 := by omega
    simp only [List.nil_append, h1, h2, h3]

theorem idbFold_Z (c : Codec) (cs : List Case) (g : Bool) (hcs : FileCases cs) (st : IdbState) (rest : List Text) :
    ∀ (zs : List Text), (∀ z ∈ zs, ∃ v, z = 'Z' :: ':' :: v) →
      idbFold c cs g st (zs ++ rest) = idbFold c cs g st rest := by
  intro zs
  induction zs with
  | nil => intro _; rfl
  | cons z zs ih =>
    intro h
    obtain ⟨v, rfl⟩ := h z (by simp)
    simp only [List.cons_append, idbFold_cons, step_Z c cs g hcs, Res.bind]
    exact ih (fun x hx => h x (by simp [hx]))

/-- the lines of a non-directory record: `R:`, possibly `a:`, then only `Z:` lines -/
theorem fileLines_file (c : Codec) (f : FileRec) (ls : List Text) (hd : f.isDir = false)
    (hl : fileLines c f = .ok ls) :
    ∃ zs, (∀ z ∈ zs, ∃ v, z = 'Z' :: ':' :: v) ∧
      ls = (('R' :: ':' :: pathBase f.name) ::
        (if f.mode.emod 4096 ≠ 0o644 ∨ f.uid ≠ 0 ∨ f.gid ≠ 0 then [permLine 'a' f] else [])) ++ zs := by
  unfold fileLines at hl
  simp only [hd, Bool.false_eq_true, if_false] at hl
  split at hl
  · simp only [Res.ok.injEq] at hl; exact ⟨[], by simp, by simp [← hl]⟩
  · split at hl
    · simp only [Res.ok.injEq] at hl; exact ⟨[_], by simp, hl.symm⟩
    · split at hl
      · exact absurd hl (by simp)
      · simp only [Res.ok.injEq] at hl; exact ⟨[_], by simp, hl.symm⟩

theorem idbFold_fileRec (c : Codec) (cs : List Case) (g : Bool) (hcs : FileCases cs) (f : FileRec)
    (st : IdbState) (ls rest : List Text) (hd : f.isDir = false) (hl : fileLines c f = .ok ls) (hw : WFFileP f)
    (hdir : dirOK st.lastDir f) :
    idbFold c cs g st (ls ++ rest) = idbFold c cs g (afterRec st f) rest := by
  obtain ⟨pk, q, fs, ld, lf⟩ := st
  obtain ⟨n, hn, he, hn'⟩ := emodPerm f.mode
  obtain ⟨zs, hzs, rfl⟩ := fileLines_file c f ls hd hl
  have hname : fullName ld (pathBase f.name) = f.name := by
    unfold fullName
    rcases hdir with h | h
    · rw [hd] at h; exact absurd h (by simp)
    · cases ld with
      | none => exact pathBase_of_dir_dot f.name hw.clean h
      | some p => obtain ⟨i, d⟩ := p; exact sanitizeJoin_dir_base d.name f.name hw.clean h.1 h.2
  simp only [afterRec, hd, Bool.false_eq_true, if_false, fileProj_file f hd, List.cons_append, List.append_assoc,
    idbFold_cons, step_R c cs g hcs, Res.bind, hname]
  by_cases hcond : f.mode.emod 4096 ≠ 0o644 ∨ f.uid ≠ 0 ∨ f.gid ≠ 0
  · rw [if_pos hcond]
    simp only [List.singleton_append, idbFold_cons, permLine]
    rw [step_a c cs g hcs pk q _ ld _ _ f.uid f.gid (Int.ofNat n)
      (by rw [hn']; exact parsePerms_permText f.uid f.gid n hw.uid hw.gid hn)]
    simp only [Res.bind, setAt_lastIdx, he]
    exact idbFold_Z c cs g hcs _ rest zs hzs
  · rw [if_neg hcond]
    have h1 : f.mode.emod 4096 = 0o644 := by omega
    have h2 : f.uid = 0 := by omega
    have h3 : f.gid = 0 := by omega
    simp only [List.nil_append, h1, h2, h3]
    exact idbFold_Z c cs g hcs _ rest zs hzs

/-! ## a header list in `sortTarHeaders` order -/

theorem filesLines_cons (c : Codec) (f : FileRec) (fs : List FileRec) (fl : List Text)
    (h : filesLines c (f :: fs) = .ok fl) :
    ∃ a b, fileLines c f = .ok a ∧ filesLines c fs = .ok b ∧ fl = a ++ b := by
  simp only [filesLines] at h
  cases ha : fileLines c f with
  | ok a =>
    cases hb : filesLines c fs with
    | ok b => simp only [ha, hb, Res.bind, Res.ok.injEq] at h; exact ⟨a, b, rfl, rfl, h.symm⟩
    | err => simp [ha, hb, Res.bind] at h
    | oob => simp [ha, hb, Res.bind] at h
  | err => simp [ha, Res.bind] at h
  | oob => simp [ha, Res.bind] at h

/-- the reader state agrees with the `followsDir` state -/
def dirInv (ld : Option (Nat × FileRec)) (cur : Option Text) : Prop :=
  match ld with
  | none => cur = none
  | some (_, d) => cleanRel d.name = true ∧ cur = some d.name

theorem idbFold_files (c : Codec) (cs : List Case) (g : Bool) (hcs : FileCases cs) (rest : List Text) :
    ∀ (fs : List FileRec) (fl : List Text) (st : IdbState) (cur : Option Text),
      filesLines c fs = .ok fl → (∀ f ∈ fs, WFFile f = true) → followsDir cur fs = true → dirInv st.lastDir cur →
      ∃ ld lf, idbFold c cs g st (fl ++ rest) =
        idbFold c cs g ⟨st.pkgs, st.cur, st.files ++ fs.map fileProj, ld, lf⟩ rest := by
  intro fs
  induction fs with
  | nil =>
    intro fl st cur hl _ _ _
    simp only [filesLines, Res.ok.injEq] at hl
    subst hl
    exact ⟨st.lastDir, st.lastFile, by simp⟩
  | cons f fs ih =>
    intro fl st cur hl hwf hfd hinv
    obtain ⟨a, b, ha, hb, rfl⟩ := filesLines_cons c f fs fl hl
    have hw := WFFile_spec f (hwf f (by simp))
    have hclean := pathClean_cleanRel f.name hw.clean
    simp only [followsDir, hclean] at hfd
    rw [List.append_assoc]
    cases hd : f.isDir with
    | true =>
      rw [idbFold_dirRec c cs g hcs f st a (b ++ rest) hd ha hw]
      simp only [hd, if_true] at hfd
      obtain ⟨ld, lf, h⟩ := ih b (afterRec st f) (some f.name) hb (fun x hx => hwf x (by simp [hx])) hfd
        (by simp only [afterRec, hd, if_true, dirInv, fileProj]; exact ⟨hw.clean, trivial⟩)
      refine ⟨ld, lf, ?_⟩
      rw [h]; simp [afterRec, hd]
    | false =>
      simp only [hd, Bool.false_eq_true, if_false, Bool.and_eq_true, beq_iff_eq] at hfd
      have hdir : dirOK st.lastDir f := by
        right
        unfold dirInv at hinv
        cases hld : st.lastDir with
        | none => rw [hld] at hinv; simp only at hinv ⊢; rw [hfd.1, hinv]; rfl
        | some p =>
          obtain ⟨i, d⟩ := p
          rw [hld] at hinv; simp only at hinv ⊢
          refine ⟨hinv.1, ?_⟩
          rw [hfd.1, hinv.2]; rfl
      rw [idbFold_fileRec c cs g hcs f st a (b ++ rest) hd ha hw hdir]
      obtain ⟨ld, lf, h⟩ := ih b (afterRec st f) cur hb (fun x hx => hwf x (by simp [hx])) hfd.2
        (by simpa [afterRec, hd] using hinv)
      refine ⟨ld, lf, ?_⟩
      rw [h]; simp [afterRec, hd]

/-! ## the written lines are line-safe -/

theorem lineSafe_tag (t v : Text) (ht : lineSafe t = true) (hv : lineSafe v = true) : lineSafe (t ++ v) = true := by
  rw [lineSafe_append, ht, hv]; rfl

theorem fileLines_safe (c : Codec) (hc : c.Lawful) (f : FileRec) (ls : List Text) (hl : fileLines c f = .ok ls)
    (hw : WFFileP f) : ∀ l ∈ ls, lineSafe l = true := by
  have hperm : ∀ tag : Char, lineSafe [tag, ':'] = true → lineSafe (permLine tag f) = true := by
    intro tag ht
    exact lineSafe_tag [tag, ':'] _ ht (permText_safe f.uid f.gid _)
  have hbase : lineSafe (pathBase f.name) = true := by
    apply lineSafe_of_all
    intro ch hch
    exact lineSafe_mem f.name hw.safe ch (pathBase_subset f.name hw.clean ch hch)
  cases hd : f.isDir with
  | true =>
    unfold fileLines at hl
    simp only [hd, if_true, Res.ok.injEq] at hl
    subst hl
    intro l hl
    simp only [List.mem_cons] at hl
    rcases hl with h | h
    · subst h
      rw [trimSuffixSlash_cleanRel f.name hw.clean]
      exact lineSafe_tag ['F', ':'] _ (by decide) hw.safe
    · split at h
      · simp only [List.mem_singleton] at h; subst h; exact hperm 'M' (by decide)
      · simp at h
  | false =>
    obtain ⟨zs, _, rfl⟩ := fileLines_file c f ls hd hl
    unfold fileLines at hl
    simp only [hd, Bool.false_eq_true, if_false] at hl
    intro l hmem
    have hhead : ∀ l ∈ (('R' :: ':' :: pathBase f.name) ::
        (if f.mode.emod 4096 ≠ 0o644 ∨ f.uid ≠ 0 ∨ f.gid ≠ 0 then [permLine 'a' f] else [])), lineSafe l = true := by
      intro l hl
      simp only [List.mem_cons] at hl
      rcases hl with h | h
      · subst h; exact lineSafe_tag ['R', ':'] _ (by decide) hbase
      · split at h
        · simp only [List.mem_singleton] at h; subst h; exact hperm 'a' (by decide)
        · simp at h
    split at hl
    · simp only [Res.ok.injEq] at hl
      rw [← hl] at hmem; exact hhead l hmem
    · split at hl
      · simp only [Res.ok.injEq] at hl
        rw [← hl] at hmem
        rcases List.mem_append.mp hmem with h | h
        · exact hhead l h
        · simp only [List.mem_singleton] at h; subst h
          exact lineSafe_tag ['Z', ':'] _ (by decide) hw.csum
      · split at hl
        · exact absurd hl (by simp)
        · next b _ =>
          simp only [Res.ok.injEq] at hl
          rw [← hl] at hmem
          rcases List.mem_append.mp hmem with h | h
          · exact hhead l h
          · simp only [List.mem_singleton] at h; subst h
            exact lineSafe_tag ['Z', ':', 'Q', '1'] _ (by decide) (hc.2 b)

theorem filesLines_safe (c : Codec) (hc : c.Lawful) : ∀ (fs : List FileRec) (fl : List Text),
    filesLines c fs = .ok fl → (∀ f ∈ fs, WFFile f = true) → ∀ l ∈ fl, lineSafe l = true := by
  intro fs
  induction fs with
  | nil => intro fl h _ l hl; simp only [filesLines, Res.ok.injEq] at h; subst h; simp at hl
  | cons f fs ih =>
    intro fl h hwf l hl
    obtain ⟨a, b, ha, hb, rfl⟩ := filesLines_cons c f fs fl h
    rcases List.mem_append.mp hl with h1 | h1
    · exact fileLines_safe c hc f a ha (WFFile_spec f (hwf f (by simp))) l h1
    · exact ih b hb (fun x hx => hwf x (by simp [hx])) l h1

end Apko.Formats
