/-
Lemmas for the relock half of C09: what `constrain` does to a locked world, monotonicity of the disqualified
set, and the invariant "every pick is a member of the locked set" through `getPackageDependencies`.
-/
import Apko.Model.Lock
import Apko.Proofs.C02

namespace Apko.Lock
open Apko Apko.Resolver

/-! ### the disqualified set only grows -/

def dqSub (a b : List Nat) : Prop := ∀ i, a.contains i = true → b.contains i = true

theorem dqSub_refl (a : List Nat) : dqSub a a := fun _ h => h
theorem dqSub_trans {a b c : List Nat} (h1 : dqSub a b) (h2 : dqSub b c) : dqSub a c := fun i h => h2 i (h1 i h)

theorem dqAdd_sub (dq : List Nat) (id : Nat) : dqSub dq (dqAdd dq id) := by
  intro i h
  unfold dqAdd
  split
  · exact h
  · simp only [List.contains_iff_mem] at h ⊢
    exact List.mem_append_left _ h

theorem dqAdd_mem (dq : List Nat) (id : Nat) : (dqAdd dq id).contains id = true := by
  unfold dqAdd
  split
  · next h => exact h
  · simp

theorem foldl_sub {α} (f : List Nat → α → List Nat) (hf : ∀ d x, dqSub d (f d x)) (l : List α) (d : List Nat) :
    dqSub d (l.foldl f d) := by
  induction l generalizing d with
  | nil => exact dqSub_refl d
  | cons x xs ih => exact dqSub_trans (hf d x) (ih (f d x))

/-- a fold whose step disqualifies `q` when it meets `q`, and never un-disqualifies -/
theorem foldl_hits (f : List Nat → Pkg → List Nat) (hf : ∀ d x, dqSub d (f d x)) (q : Pkg)
    (hq : ∀ d, (f d q).contains q.id = true) (l : List Pkg) (hm : q ∈ l) (d : List Nat) :
    (l.foldl f d).contains q.id = true := by
  induction l generalizing d with
  | nil => cases hm
  | cons x xs ih =>
    simp only [List.foldl_cons]
    rcases List.mem_cons.mp hm with rfl | hm'
    · exact foldl_sub f hf xs _ _ (hq d)
    · exact ih hm' _

theorem disqualifyProviders_sub (c : Cfg) (con : Text) (dq : List Nat) : dqSub dq (disqualifyProviders c con dq) := by
  unfold disqualifyProviders
  simp only
  split
  · exact dqSub_refl dq
  · exact foldl_sub _ (fun d (q : Pkg) => dqAdd_sub d q.id) _ _

/-- the `=`/`<`/… step of `constrain` for one provider -/
def constrainStep (p : Constraint) (req : Version) (d : List Nat) (prov : Pkg) : List Nat :=
  if prov.name = p.name then
    match pv prov.version with
    | none => dqAdd d prov.id
    | some act => if !p.dep.satisfies act req then dqAdd d prov.id else d
  else
    prov.provides.foldl (fun d' pr =>
      let pp := parseConstraint pr
      if pp.name != p.name then d'
      else match pv pp.version with
        | none => dqAdd d' prov.id
        | some act => if !p.dep.satisfies act req then dqAdd d' prov.id else d') d

theorem constrainStep_sub (p : Constraint) (req : Version) (d : List Nat) (prov : Pkg) :
    dqSub d (constrainStep p req d prov) := by
  unfold constrainStep
  split
  · split
    · exact dqAdd_sub _ _
    · split
      · exact dqAdd_sub _ _
      · exact dqSub_refl _
  · apply foldl_sub
    intro d' pr
    simp only
    split
    · exact dqSub_refl _
    · split
      · exact dqAdd_sub _ _
      · split
        · exact dqAdd_sub _ _
        · exact dqSub_refl _

theorem constrain_bang (c : Cfg) (x : Text) (rest : List Text) (dq : List Nat) :
    constrain c (('!' :: x) :: rest) dq = constrain c rest (disqualifyProviders c x dq) := by
  rw [constrain]

theorem constrain_other (c : Cfg) (con : Text) (rest : List Text) (dq : List Nat) (hnb : ∀ x, con ≠ '!' :: x) :
    constrain c (con :: rest) dq =
        if (parseConstraint con).dep = .any then constrain c rest dq
        else if !hasName c.u (parseConstraint con).name then constrain c rest dq
        else match pv (parseConstraint con).version with
          | none => none
          | some req => constrain c rest ((c.nm (parseConstraint con).name).foldl (constrainStep (parseConstraint con) req) dq) := by
  rw [constrain]
  · rfl
  · intro x hx; exact hnb x hx

theorem bang_or_not (con : Text) : (∃ x, con = '!' :: x) ∨ (∀ x, con ≠ '!' :: x) := by
  cases con with
  | nil => right; intro x h; cases h
  | cons ch x =>
    by_cases h : ch = '!'
    · left; exact ⟨x, by rw [h]⟩
    · right; intro y hy; injection hy with h1 _; exact h h1

/-- `constrain` only adds to the disqualified set -/
theorem constrain_sub (c : Cfg) : ∀ (l : List Text) (dq dq' : List Nat), constrain c l dq = some dq' → dqSub dq dq' := by
  intro l
  induction l with
  | nil => intro dq dq' h; simp only [constrain, Option.some.injEq] at h; exact h ▸ dqSub_refl dq
  | cons con rest ih =>
    intro dq dq' h
    rcases bang_or_not con with ⟨x, rfl⟩ | hnb
    · rw [constrain_bang] at h
      exact dqSub_trans (disqualifyProviders_sub c _ dq) (ih _ _ h)
    · rw [constrain_other c con rest dq hnb] at h
      split at h
      · exact ih _ _ h
      · split at h
        · exact ih _ _ h
        · split at h
          · cases h
          · exact dqSub_trans (foldl_sub _ (constrainStep_sub _ _) _ _) (ih _ _ h)

/-- does version string `qv` equal the locked version `v` (as versions)? -/
def versionMatches (qv v : Text) : Bool :=
  match pv qv, pv v with
  | some a, some r => Dep.eq.satisfies a r
  | _, _ => false

/-- T `constrain_locks`: after `constrain` has processed a world that contains the entry `e = n=v`, every package
*named* `n` whose version is not `v` is disqualified — whatever else is in the world.  (This is "`constrain`
disqualifies every other version of a locked name".) -/
theorem constrain_locks (c : Cfg) (e n v pin : Text) (hbang : ∀ x, e ≠ '!' :: x)
    (hparse : parseConstraint e = ⟨n, v, .eq, pin⟩) (hname : hasName c.u n = true)
    (q : Pkg) (hq : q ∈ c.nm n) (hqn : q.name = n) (hv : versionMatches q.version v = false) :
    ∀ (l : List Text) (dq dq' : List Nat), e ∈ l → constrain c l dq = some dq' → dq'.contains q.id = true := by
  intro l
  induction l with
  | nil => intro _ _ h; cases h
  | cons con rest ih =>
    intro dq dq' hm h
    rcases List.mem_cons.mp hm with rfl | hm'
    · rw [constrain_other c e rest dq hbang] at h
      simp only [hparse, reduceCtorEq, ↓reduceIte, hname, Bool.not_true, Bool.false_eq_true] at h
      split at h
      · cases h
      · next req hreq =>
        refine constrain_sub c rest _ _ h _ ?_
        apply foldl_hits _ (constrainStep_sub _ _) q _ _ hq
        intro d
        unfold constrainStep
        simp only [hqn, ↓reduceIte]
        unfold versionMatches at hv
        split
        · exact dqAdd_mem _ _
        · next act hact =>
          simp only [hact, hreq] at hv
          simp only [hv, Bool.not_false, ↓reduceIte]
          exact dqAdd_mem _ _
    · rcases bang_or_not con with ⟨x, rfl⟩ | hnb
      · rw [constrain_bang] at h
        exact ih _ _ hm' h
      · rw [constrain_other c con rest dq hnb] at h
        split at h
        · exact ih _ _ hm' h
        · split at h
          · exact ih _ _ hm' h
          · split at h
            · cases h
            · exact ih _ _ hm' h

/-! ### `comparePackages` looks at "already chosen with this version" first -/

def matchesExisting (existing : List (Text × Pkg)) (a : Pkg) : Bool :=
  match lookupT existing a.name with
  | some e => e.version = a.version
  | none => false

/-- T `compare_prefers_existing`: a candidate that is already chosen (same name and version in `existing`) beats
one that is not, before origin, pin, priority and version are looked at -/
theorem compare_prefers_existing (bothBad : Ordering) (name pin : Text) (existing : List (Text × Pkg))
    (origins : List Text) (a b : Pkg) (ha : matchesExisting existing a = true) (hb : matchesExisting existing b = false) :
    comparePackages bothBad name pin existing origins a b = .lt ∧
    comparePackages bothBad name pin existing origins b a = .gt := by
  unfold matchesExisting at ha hb
  unfold comparePackages
  cases hla : lookupT existing a.name with
  | none => rw [hla] at ha; cases ha
  | some ea =>
    rw [hla] at ha
    simp only at ha
    cases hlb : lookupT existing b.name with
    | none => simp [ha]
    | some eb =>
      rw [hlb] at hb
      simp only at hb
      simp [ha, hb]

/-- T `minFunc_prefers`: if the comparison always prefers `P`-candidates to others, `slices.MinFunc` returns a
`P`-candidate whenever there is one -/
theorem minFunc_prefers (cmp : Pkg → Pkg → Ordering) (P : Pkg → Bool)
    (hcmp : ∀ a b, P a = true → P b = false → cmp a b = .lt ∧ cmp b a ≠ .lt)
    (l : List Pkg) (b : Pkg) (hex : ∃ x ∈ l, P x = true) (h : minFunc cmp l = some b) : P b = true := by
  cases l with
  | nil => obtain ⟨x, hx, _⟩ := hex; cases hx
  | cons x xs =>
    simp only [minFunc, Option.some.injEq] at h
    subst h
    -- invariant: once the running minimum is a P-candidate it stays one; and a P-candidate replaces a non-P one
    suffices ∀ (ys : List Pkg) (m : Pkg), (P m = true ∨ ∃ y ∈ ys, P y = true) →
        P (ys.foldl (fun m y => if cmp y m = .lt then y else m) m) = true by
      apply this
      obtain ⟨y, hy, hp⟩ := hex
      rcases List.mem_cons.mp hy with rfl | hy'
      · exact Or.inl hp
      · exact Or.inr ⟨y, hy', hp⟩
    intro ys
    induction ys with
    | nil =>
      intro m hm
      rcases hm with hm | ⟨y, hy, _⟩
      · exact hm
      · cases hy
    | cons y ys ih =>
      intro m hm
      simp only [List.foldl_cons]
      apply ih
      cases hPm : P m with
      | true =>
        left
        split
        · next hlt =>
          cases hPy : P y with
          | true => rfl
          | false => exact absurd hlt (hcmp m y hPm hPy).2
        · exact hPm
      | false =>
        rcases hm with hm | ⟨z, hz, hPz⟩
        · rw [hPm] at hm; cases hm
        · rcases List.mem_cons.mp hz with rfl | hz'
          · left
            simp [(hcmp z m hPz hPm).1, hPz]
          · right
            exact ⟨z, hz', hPz⟩

end Apko.Lock
