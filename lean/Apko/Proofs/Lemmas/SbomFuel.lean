/-
The closure loop of `copySBOMElements` in the model is fuelled with `rels.length + 1` sweeps.
This file proves that the fuel always suffices: `copyElements` never answers `Err.fuel`.
-/
import Apko.Proofs.Lemmas.SbomDoc

namespace Apko.Sbom
open Apko

theorem filter_len_mono {α} (l : List α) (p q : α → Bool) (h : ∀ a ∈ l, p a = true → q a = true) :
    (l.filter p).length ≤ (l.filter q).length := by
  induction l with
  | nil => simp
  | cons a as ih =>
    have ih' := ih (fun b hb => h b (by simp [hb]))
    simp only [List.filter_cons]
    cases hp : p a
    · cases hq : q a <;> simp <;> omega
    · have hq := h a (by simp) hp
      simp [hq]; omega

theorem filter_len_strict {α} (l : List α) (p q : α → Bool) (h : ∀ a ∈ l, p a = true → q a = true)
    {a0 : α} (h0 : a0 ∈ l) (hq0 : q a0 = true) (hp0 : p a0 = false) :
    (l.filter p).length < (l.filter q).length := by
  induction l with
  | nil => cases h0
  | cons a as ih =>
    have hm := filter_len_mono as p q (fun b hb => h b (by simp [hb]))
    simp only [List.filter_cons]
    rcases List.mem_cons.mp h0 with e | e
    · subst e
      simp [hq0, hp0]; omega
    · have ih' := ih (fun b hb => h b (by simp [hb])) e
      cases hp : p a
      · cases hq : q a <;> simp <;> omega
      · have hq := h a (by simp) hp
        simp [hq]; omega

/-- relationships of `R` whose `related` end is not yet in the set -/
def mu (R : List Rel) (t : List Id) : Nat := (R.filter (fun r => !t.contains r.related)).length

theorem mu_le_length (R : List Rel) (t : List Id) : mu R t ≤ R.length := List.length_filter_le _ _

theorem passStep_mu {R : List Rel} {r : Rel} (hr : r ∈ R) (t : List Id) :
    mu R (passStep t r) ≤ mu R t ∧ ((passStep t r).length ≠ t.length → mu R (passStep t r) < mu R t) := by
  rcases passStep_cases t r with e | e
  · rw [e]; exact ⟨Nat.le_refl _, fun h => absurd rfl h⟩
  · -- appended: r.related was not in t
    have hnot : t.contains r.related = false := by
      unfold passStep at e
      split at e
      · have := congrArg List.length e; simp at this
      · split at e
        · unfold insertNew at e
          split at e
          · have := congrArg List.length e; simp at this
          · next h => simpa using h
        · have := congrArg List.length e; simp at this
    have hmono : ∀ a ∈ R, (!(t ++ [r.related]).contains a.related) = true → (!t.contains a.related) = true := by
      intro a _ h
      simp only [Bool.not_eq_true', List.contains_eq_mem, List.mem_append, List.mem_singleton,
        decide_eq_false_iff_not, not_or] at h ⊢
      exact h.1
    rw [e]
    have hs : mu R (t ++ [r.related]) < mu R t :=
      filter_len_strict R _ _ hmono hr (by rw [hnot]; rfl) (by simp)
    exact ⟨Nat.le_of_lt hs, fun _ => hs⟩

theorem foldl_passStep_mu {R : List Rel} (rs : List Rel) (hrs : ∀ r ∈ rs, r ∈ R) (t : List Id) :
    mu R (rs.foldl passStep t) ≤ mu R t ∧
      ((rs.foldl passStep t).length ≠ t.length → mu R (rs.foldl passStep t) < mu R t) := by
  induction rs generalizing t with
  | nil => exact ⟨Nat.le_refl _, fun h => absurd rfl h⟩
  | cons r rs ih =>
    simp only [List.foldl_cons]
    have h1 := passStep_mu (hrs r (by simp)) t
    have h2 := ih (fun x hx => hrs x (by simp [hx])) (passStep t r)
    refine ⟨Nat.le_trans h2.1 h1.1, ?_⟩
    intro hne
    by_cases ha : (passStep t r).length = t.length
    · have := h2.2 (by rw [ha]; exact hne)
      omega
    · have := h1.2 ha
      omega

theorem pass_mu (R : List Rel) (t : List Id) :
    (pass R t).length ≠ t.length → mu R (pass R t) < mu R t :=
  (foldl_passStep_mu R (fun _ h => h) t).2

theorem closure_fuel_suffices (R : List Rel) (fuel prev : Nat) (t : List Id)
    (h : t.length ≠ prev → mu R t < fuel) : closure R fuel prev t ≠ none := by
  induction fuel generalizing prev t with
  | zero =>
    simp only [closure]
    split
    · simp
    · next hne => exact absurd (h hne) (Nat.not_lt_zero _)
  | succ n ih =>
    simp only [closure]
    split
    · simp
    · next hne =>
      apply ih
      intro hgrow
      have := pass_mu R t hgrow
      have := h hne
      omega

/-- the model never runs out of fuel: `copyElements` answers a document or `missing` -/
theorem copyElements_never_fuel (src tgt : Doc) (t0 : List Id) : copyElements src tgt t0 ≠ .error .fuel := by
  unfold copyElements
  split
  · next hc =>
    exact absurd hc (closure_fuel_suffices _ _ _ _ (fun _ => Nat.lt_succ_of_le (mu_le_length _ _)))
  · split
    · intro h; cases h
    · intro h; cases h

end Apko.Sbom
