/-
C03 — `matchPackageName` against `Generated.packageNameRegex` read as a relation:
`PkgMatch s n o v p` lists every way the anchored expression
`^([^@=><~]+)(([=><~]+)([^@]+))?(@([a-zA-Z0-9]+))?$` matches `s` with submatches `n o v p`;
Go reports the one whose operator run is longest.  `matchPackageName_iff` says the model returns
exactly that one, and `matchPackageName_none_iff` that it fails exactly when nothing matches.
-/
import Apko.Proofs.Lemmas.VersionConstraint

namespace Apko.VersionGrammar
open Apko

/-- every submatch assignment of the anchored expression on `s` -/
def PkgMatch (s n o v p : Text) : Prop :=
  ∃ pp, s = n ++ (o ++ (v ++ pp)) ∧ NameText n ∧ PinG pp p ∧
    ((o = [] ∧ v = []) ∨ (OpsText o ∧ v ≠ [] ∧ v.all (fun c => c != '@') = true))

/-- the operator run cannot be extended: the version does not start with an operator character,
or it is the single character the run had to give back -/
def OpsLongest (v : Text) : Prop := StartsNot isOpChar v ∨ ∃ c, v = [c]

theorem pinSuffix_sound {pp p : Text} (h : pinSuffix pp = some p) : PinG pp p := by
  unfold pinSuffix at h
  split at h
  · simp only [Option.some.injEq] at h; subst h; exact .none
  · rename_i q
    split at h
    · rename_i hc
      simp only [Option.some.injEq] at h; subst h
      simp only [Bool.and_eq_true, Bool.not_eq_true', List.isEmpty_eq_false_iff] at hc
      exact .some _ ⟨hc.1, hc.2⟩
    · simp at h
  · simp at h

theorem notName_op_or_at {c : Char} (h : isNameChar c = false) : isOpChar c = true ∨ c = '@' := by
  simp only [isNameChar, Bool.not_eq_false', Bool.or_eq_true, decide_eq_true_eq] at h
  simp only [isOpChar, Bool.or_eq_true, decide_eq_true_eq]
  rcases h with (((h | h) | h) | h) | h <;> simp [h]

theorem spanP_head {p : Char → Bool} {c : Char} {cs : Text} (h : p c = true) :
    ∃ d, (spanP p (c :: cs)).1 = c :: d := by
  simp only [spanP, h, if_true]; exact ⟨_, rfl⟩

theorem matchPackageName_sound {s n o v p : Text} (h : matchPackageName s = some (n, o, v, p)) :
    PkgMatch s n o v p ∧ OpsLongest v := by
  unfold matchPackageName at h
  have h1 := spanP_spec isNameChar s
  generalize spanP isNameChar s = sp at h h1
  obtain ⟨name, r1⟩ := sp
  simp only at h h1
  split at h
  · simp at h
  · rename_i hne
    have hname : NameText name := ⟨by intro e; simp [e] at hne, h1.2.1⟩
    split at h
    · simp only [Option.some.injEq, Prod.mk.injEq] at h
      obtain ⟨rfl, rfl, rfl, rfl⟩ := h
      exact ⟨⟨[], by simpa using h1.1, hname, .none, .inl ⟨rfl, rfl⟩⟩, .inl (startsNot_nil _)⟩
    · rename_i t
      split at h
      · rename_i p' hp
        simp only [Option.some.injEq, Prod.mk.injEq] at h
        obtain ⟨rfl, rfl, rfl, rfl⟩ := h
        exact ⟨⟨'@' :: t, by simpa using h1.1, hname, pinSuffix_sound hp, .inl ⟨rfl, rfl⟩⟩,
          .inl (startsNot_nil _)⟩
      · simp at h
    · rename_i hnil hat
      -- r1 starts with an operator character
      obtain ⟨c, cs, rfl⟩ := List.exists_cons_of_ne_nil (l := r1) (fun e => hnil e)
      have hc : isOpChar c = true := by
        rcases notName_op_or_at (h1.2.2 c rfl) with hc | hc
        · exact hc
        · subst hc; exact absurd rfl (hat cs)
      have h2 := spanP_spec isOpChar (c :: cs)
      obtain ⟨d, hd⟩ := spanP_head (cs := cs) hc
      generalize spanP isOpChar (c :: cs) = sp2 at h h2 hd
      obtain ⟨ops, r2⟩ := sp2
      simp only at h h2 hd
      have h3 := spanP_spec (fun c => c != '@') r2
      generalize spanP (fun c => c != '@') r2 = sp3 at h h3
      obtain ⟨ver, r3⟩ := sp3
      simp only at h h3
      have hops : OpsText ops := ⟨by rw [hd]; simp, h2.2.1⟩
      split at h
      · rename_i hv
        have hvne : ver ≠ [] := by intro e; simp [e] at hv
        split at h
        · rename_i p' hp
          simp only [Option.some.injEq, Prod.mk.injEq] at h
          obtain ⟨rfl, rfl, rfl, rfl⟩ := h
          refine ⟨⟨r3, ?_, hname, pinSuffix_sound hp, .inr ⟨hops, hvne, h3.2.1⟩⟩, .inl ?_⟩
          · rw [← h3.1, ← h2.1]; exact h1.1
          · obtain ⟨a, as, rfl⟩ := List.exists_cons_of_ne_nil hvne
            have := h2.2.2 a (by rw [h3.1]; simp)
            exact startsNot_cons this
        · simp at h
      · rename_i hv
        have hve : ver = [] := by simpa using hv
        subst hve
        split at h
        · rename_i last initRev hrev
          split at h
          · simp at h
          · rename_i hinit
            split at h
            · rename_i p' hp
              simp only [Option.some.injEq, Prod.mk.injEq] at h
              obtain ⟨rfl, rfl, rfl, rfl⟩ := h
              have hopsEq : ops = initRev.reverse ++ [last] := by
                have := congrArg List.reverse hrev; simpa using this
              have hall : initRev.reverse.all isOpChar = true ∧ isOpChar last = true := by
                have := hops.2; rw [hopsEq] at this; simpa using this
              refine ⟨⟨r2, ?_, hname, pinSuffix_sound hp, .inr ⟨⟨?_, hall.1⟩, by simp, ?_⟩⟩,
                .inr ⟨last, rfl⟩⟩
              · rw [h1.1, h2.1, hopsEq]; simp
              · intro e; simp at e; simp [e] at hinit
              · simp only [List.all_cons, List.all_nil, Bool.and_true, bne_iff_ne, ne_eq]
                exact opChar_not_at hall.2
            · simp at h
        · simp at h

theorem matchPackageName_complete {s n o v p : Text} (h : PkgMatch s n o v p) (hl : OpsLongest v) :
    matchPackageName s = some (n, o, v, p) := by
  obtain ⟨pp, rfl, hn, hp, hov⟩ := h
  rcases hov with ⟨rfl, rfl⟩ | ⟨ho, hv1, hv2⟩
  · simpa using matchPackageName_bare hn hp
  · rcases hl with hl | ⟨c, rfl⟩
    · exact matchPackageName_full hn ho ⟨hv1, hv2, hl⟩ hp
    · by_cases hc : isOpChar c = true
      · simpa using matchPackageName_giveback hn ho hc hp
      · exact matchPackageName_full hn ho
          ⟨hv1, hv2, startsNot_cons (by simpa using hc)⟩ hp

/-- the model returns exactly the regex match with the longest operator run -/
theorem matchPackageName_iff (s n o v p : Text) :
    matchPackageName s = some (n, o, v, p) ↔ PkgMatch s n o v p ∧ OpsLongest v :=
  ⟨matchPackageName_sound, fun h => matchPackageName_complete h.1 h.2⟩

/-- every match can be re-split so that the operator run is longest -/
theorem pkgMatch_longest {s n o v p : Text} (h : PkgMatch s n o v p) :
    ∃ o' v', PkgMatch s n o' v' p ∧ OpsLongest v' ∧ o.length ≤ o'.length := by
  obtain ⟨pp, rfl, hn, hp, hov⟩ := h
  rcases hov with ⟨rfl, rfl⟩ | ⟨ho, hv1, hv2⟩
  · exact ⟨[], [], ⟨pp, rfl, hn, hp, .inl ⟨rfl, rfl⟩⟩, .inl (startsNot_nil _), Nat.le_refl _⟩
  · have hs := spanP_spec isOpChar v
    generalize spanP isOpChar v = sp at hs
    obtain ⟨o2, v2⟩ := sp
    simp only at hs
    obtain ⟨hv, ho2, hv2s⟩ := hs
    by_cases hv2e : v2 = []
    · -- the version is all operator characters: give back the last one
      subst hv2e
      simp only [List.append_nil] at hv
      subst hv
      have hne := hv1
      refine ⟨o ++ v.dropLast, [v.getLast hne], ⟨pp, ?_, hn, hp, .inr ⟨⟨?_, ?_⟩, by simp, ?_⟩⟩,
        .inr ⟨_, rfl⟩, by simp⟩
      · have : v = v.dropLast ++ [v.getLast hne] := (List.dropLast_concat_getLast hne).symm
        conv => lhs; rw [this]
        simp
      · intro e; simp at e; exact ho.1 e.1
      · have hd : v.dropLast.all isOpChar = true := by
          rw [List.all_eq_true] at ho2 ⊢
          intro x hx; exact ho2 x (List.dropLast_subset _ hx)
        simp [ho.2, hd]
      · have := List.all_eq_true.mp hv2 (v.getLast hne) (List.getLast_mem hne)
        simpa using this
    · refine ⟨o ++ o2, v2, ⟨pp, ?_, hn, hp, .inr ⟨⟨?_, ?_⟩, hv2e, ?_⟩⟩, .inl hv2s, by simp⟩
      · rw [hv]; simp
      · intro e; simp at e; exact ho.1 e.1
      · simp [ho.2, ho2]
      · rw [hv, List.all_append, Bool.and_eq_true] at hv2; exact hv2.2

/-- the model fails exactly when the expression does not match -/
theorem matchPackageName_none_iff (s : Text) :
    matchPackageName s = none ↔ ¬ ∃ n o v p, PkgMatch s n o v p := by
  constructor
  · rintro h ⟨n, o, v, p, hm⟩
    obtain ⟨o', v', hm', hl, _⟩ := pkgMatch_longest hm
    rw [matchPackageName_complete hm' hl] at h; cases h
  · intro h
    cases hm : matchPackageName s with
    | none => rfl
    | some q =>
      obtain ⟨n, o, v, p⟩ := q
      exact absurd ⟨n, o, v, p, (matchPackageName_sound hm).1⟩ h

/-- among all matches the reported one has the longest operator run, and name and pin are the
same in every match -/
theorem matchPackageName_longest {s n o v p n' o' v' p' : Text}
    (h : matchPackageName s = some (n, o, v, p)) (h' : PkgMatch s n' o' v' p') :
    o'.length ≤ o.length := by
  obtain ⟨o2, v2, hm2, hl2, hlen⟩ := pkgMatch_longest h'
  have := (matchPackageName_complete hm2 hl2).symm.trans h
  simp only [Option.some.injEq, Prod.mk.injEq] at this
  obtain ⟨_, rfl, _, _⟩ := this
  exact hlen

end Apko.VersionGrammar
