import Apko.Proofs.Lemmas.FSTree
import Apko.Proofs.Lemmas.ConfinePath
/-! `fs.WalkDir` as the code runs it — through the public API, by *path* (`walkDirP`/`walkDirOp` in
`Model/FS.lean`, what the driver executes for the `walk` operation of `corr:fs`) — returns on every
well-formed state: the nesting never exceeds the fuel (`walkDirOp_some`).  The key step is that the
path `Join(name, child)` the walk descends into resolves to the child node (`getNode_child`), which
is younger than its parent (`Tree.up`).  Impl resolution (lexical, `posix = false`). -/
namespace Apko.FS
open Apko Apko.Path

/-! ### `Clean` on paths without `..` -/

def keepC (c : Name) : Bool := decide (c ≠ []) && decide (c ≠ dot)

theorem foldl_cleanStep_nodotdot (r : Bool) (l : List Name) : ∀ (acc : List Name), (∀ c ∈ l, c ≠ dotdot) →
    l.foldl (cleanStep r) acc = (l.filter keepC).reverse ++ acc := by
  induction l with
  | nil => intro acc _; simp
  | cons c l ih =>
    intro acc h
    have hc := h c (by simp)
    simp only [List.foldl_cons]
    rw [ih _ (fun d hd => h d (by simp [hd]))]
    by_cases h1 : c = []
    · subst h1
      have : cleanStep r acc [] = acc := by simp [cleanStep]
      simp [this, List.filter, keepC]
    · by_cases h2 : c = dot
      · subst h2
        have : cleanStep r acc dot = acc := by simp [cleanStep]
        have hk : keepC dot = false := by decide
        simp [this, List.filter, hk]
      · have : cleanStep r acc c = c :: acc := by simp [cleanStep, h1, h2, hc]
        have hk : keepC c = true := by simp [keepC, h1, h2]
        simp [this, List.filter, hk]

theorem parts_eq_filter (x : Text) : (parts x).filter (· ≠ dot) = (splitOnChar '/' x).filter keepC := by
  simp only [parts, List.filter_filter]
  congr 1
  funext c
  by_cases h1 : c = [] <;> by_cases h2 : c = dot <;> simp [keepC, h1, h2]

/-- the components of `Clean(x)` are the components of `x` without the `.` ones, when `x` has no `..`
and at least one real component -/
theorem parts_clean (x : Text) (h1 : ∀ c ∈ parts x, c ≠ dotdot) (h2 : ∃ c ∈ parts x, c ≠ dot) :
    parts (clean x) = (parts x).filter (· ≠ dot) := by
  have hx : x ≠ [] := by
    rintro rfl
    obtain ⟨c, hc, _⟩ := h2
    simp [parts, splitOnChar] at hc
  have hcs : ∀ c ∈ splitOnChar '/' x, c ≠ dotdot := by
    intro c hc hdd
    exact h1 c (by simp only [parts, List.mem_filter, decide_eq_true_eq]; exact ⟨hc, by rw [hdd]; decide⟩) hdd
  have hout : ∀ r, cleanParts r (splitOnChar '/' x) = (splitOnChar '/' x).filter keepC := by
    intro r
    unfold cleanParts
    rw [foldl_cleanStep_nodotdot r _ [] hcs]
    simp
  have hnorm : ∀ c ∈ (splitOnChar '/' x).filter keepC, Confine.Normal c ∧ '/' ∉ c := by
    intro c hc
    obtain ⟨hm, hk⟩ := List.mem_filter.mp hc
    have hk' : c ≠ [] ∧ c ≠ dot := by simpa [keepC] using hk
    exact ⟨⟨hk'.1, hk'.2, hcs c hm⟩, Confine.mem_splitOnChar_no_sep '/' x c hm⟩
  have hne : (splitOnChar '/' x).filter keepC ≠ [] := by
    obtain ⟨c, hc, hd⟩ := h2
    have : c ∈ (parts x).filter (· ≠ dot) := List.mem_filter.mpr ⟨hc, by simpa using hd⟩
    rw [parts_eq_filter] at this
    exact List.ne_nil_of_mem this
  rw [parts_eq_filter]
  unfold clean
  simp only [hx, if_false, hout]
  repeat' split
  all_goals first
    | (rw [Confine.parts_slash_cons, Confine.parts_joinWith_normal _ hnorm])
    | exact Confine.parts_joinWith_normal _ hnorm
    | (rename_i hc; exact absurd hc hne)

theorem parts_name {n : Name} (h : NameOK n) : parts n = [n] := by
  unfold parts
  rw [Confine.splitOnChar_no_sep '/' n h.2.1]
  simp [h.1]

/-- the components of `Join(name, n)` -/
theorem parts_join2_child (name : Text) (n : Name) (hn : NameOK n) (h : ∀ c ∈ parts name, c ≠ dotdot) :
    parts (join2 name n) = (parts name).filter (· ≠ dot) ++ [n] := by
  have hnd : ∀ c ∈ [n], c ≠ dotdot := by intro c hc; simp at hc; rw [hc]; exact hn.2.2.2
  by_cases hname : name = []
  · subst hname
    have hj : join2 [] n = clean n := by simp [join2, hn.1]
    have hp0 : parts ([] : Text) = [] := by decide
    rw [hj, parts_clean n (by rw [parts_name hn]; exact hnd) ⟨n, by rw [parts_name hn]; simp, hn.2.2.1⟩,
      parts_name hn, hp0]
    simp [hn.2.2.1]
  · have hj : join2 name n = clean (name ++ slash ++ n) := by simp [join2, hname]
    have hp : parts (name ++ slash ++ n) = parts name ++ [n] := by
      have : name ++ slash ++ n = name ++ '/' :: n := by simp [slash]
      rw [this, Confine.parts_append_sep, parts_name hn]
    have h1 : ∀ c ∈ parts (name ++ slash ++ n), c ≠ dotdot := by
      rw [hp]; intro c hc
      rcases List.mem_append.mp hc with hc | hc
      · exact h c hc
      · exact hnd c hc
    rw [hj, parts_clean _ h1 ⟨n, by rw [hp]; simp, hn.2.2.1⟩, hp]
    simp [List.filter_append, hn.2.2.1]

/-! ### resolution of `Join(name, child)` -/

theorem walkImpl_append (fs : FS) (recur : Option (Text → Nat → Except Err (Ino × Nat))) :
    ∀ (ps qs : List Name) (node : Ino) (tr : List Name) (cnt : Nat),
      walkImpl fs recur (ps ++ qs) node tr cnt =
        match walkImpl fs recur ps node tr cnt with
        | .error e => .error e
        | .ok (n', cnt') => walkImpl fs recur qs n' (tr ++ ps) cnt' := by
  intro ps
  induction ps with
  | nil => intro qs node tr cnt; simp [walkImpl]
  | cons part rest ih =>
    intro qs node tr cnt
    simp only [List.cons_append, walkImpl]
    by_cases hd : (fs.node node).dir = true
    · simp only [hd, Bool.not_true, Bool.false_eq_true, if_false]
      cases hl : fs.lookup node part with
      | none => rfl
      | some child =>
        simp only []
        by_cases hs : (fs.node child).isSymlink = true
        · simp only [hs, if_true]
          by_cases hc : cnt + 1 > maxLinks
          · simp [hc]
          · simp only [hc, if_false]
            cases recur with
            | none => rfl
            | some r =>
              simp only []
              generalize r (if isAbs (fs.node child).target = true then (fs.node child).target
                else join2 (joinNames tr) (fs.node child).target) (cnt + 1) = res
              cases res with
              | error e => rfl
              | ok v =>
                obtain ⟨tn, cnt'⟩ := v
                simp only []
                rw [ih]; simp [List.append_assoc]
        · simp only [hs, Bool.false_eq_true, if_false]
          rw [ih]; simp [List.append_assoc]
    · simp [hd]

/-- a lookup that succeeds only used edge labels -/
theorem walkImpl_parts_ok {fs : FS} (ht : Tree fs) (recur : Option (Text → Nat → Except Err (Ino × Nat))) :
    ∀ (ps : List Name) (node : Ino) (tr : List Name) (cnt : Nat) (r : Ino × Nat),
      walkImpl fs recur ps node tr cnt = .ok r → ∀ p ∈ ps, NameOK p := by
  intro ps
  induction ps with
  | nil => intro _ _ _ _ _ p hp; simp at hp
  | cons part rest ih =>
    intro node tr cnt r h p hp
    unfold walkImpl at h
    simp only [] at h
    have hpart : ∀ child, fs.lookup node part = some child → NameOK part :=
      fun child hl => ht.names node part child (lookup_mem' hl)
    repeat' split at h
    all_goals (try (cases h; done))
    all_goals
      rcases List.mem_cons.mp hp with rfl | hp
      · exact hpart _ (by assumption)
      · exact ih _ _ _ _ h p hp

def eparts (name : Text) : List Name := (parts name).filter (· ≠ dot)

theorem parts_slash : parts slash = [] := by decide
theorem parts_dot : parts dot = [dot] := by decide

/-- a successful lookup is the component loop over the path's components (the special cases `/` and
`.` included), none of which is `..` -/
theorem getNodeD_eparts {fs : FS} (ht : Tree fs) (d : Nat) (name : Text) (cnt : Nat) (r : Ino × Nat)
    (h : getNodeD fs (d + 1) name cnt = .ok r) :
    walkImpl fs (some (getNodeD fs d)) (eparts name) 0 [] cnt = .ok r ∧ ∀ p ∈ parts name, p ≠ dotdot := by
  unfold getNodeD at h
  split at h
  · rename_i hsd
    rcases hsd with rfl | rfl
    · simp only [eparts, parts_slash]; exact ⟨by simpa [walkImpl] using h, by simp⟩
    · simp only [eparts, parts_dot]
      refine ⟨by simpa [walkImpl] using h, ?_⟩
      intro p hp; simp at hp; rw [hp]; decide
  · have hok := walkImpl_parts_ok ht _ _ _ _ _ _ h
    have : eparts name = parts name := by
      unfold eparts
      apply List.filter_eq_self.mpr
      intro p hp; simpa using (hok p hp).2.2.1
    rw [this]
    exact ⟨h, fun p hp => (hok p hp).2.2.2⟩

/-- directories are not symbolic links (true as long as no caller passes `ModeSymlink` as a
permission to `Mkdir`/`MkdirAll`/`Chmod`; `permissionsToFileMode` cannot) -/
def SymOK (fs : FS) : Prop := ∀ j : Nat, (fs.node j).dir = true → (fs.node j).isSymlink = false

/-- **getNode_child**: the path `Join(name, n)` resolves to the entry `n` of the directory `name`
resolves to (when that entry is not a symbolic link) -/
theorem getNode_child {c : Cfg} (hc : c.posix = false) {fs : FS} (ht : Tree fs) (name : Text) (n : Name) (i j : Ino)
    (hg : getNode c fs name = .ok i) (hd : (fs.node i).dir = true) (hl : fs.lookup i n = some j)
    (hs : (fs.node j).isSymlink = false) : getNode c fs (join2 name n) = .ok j := by
  have hn : NameOK n := ht.names i n j (lookup_mem' hl)
  simp only [getNode, resolveFrom, hc, Bool.false_eq_true, if_false] at hg ⊢
  cases hgd : getNodeD fs (maxLinks + 1) name 0 with
  | error e => simp [hgd, Except.map] at hg
  | ok r =>
    obtain ⟨i', cnt⟩ := r
    have hi' : i' = i := by simpa [hgd, Except.map] using hg
    subst hi'
    obtain ⟨hw, hdd⟩ := getNodeD_eparts ht maxLinks name 0 _ hgd
    have hparts := parts_join2_child name n hn hdd
    have hq1 : join2 name n ≠ slash := by
      intro hq; rw [hq, parts_slash] at hparts
      exact absurd hparts.symm (by simp)
    have hq2 : join2 name n ≠ dot := by
      intro hq; rw [hq, parts_dot] at hparts
      have := congrArg List.getLast? hparts
      simp at this
      exact hn.2.2.1 this.symm
    have : getNodeD fs (maxLinks + 1) (join2 name n) 0 = .ok (j, cnt) := by
      unfold getNodeD
      simp only [hq1, hq2, or_self, if_false, hparts]
      rw [walkImpl_append]
      unfold eparts at hw
      rw [hw]
      simp only []
      unfold walkImpl
      simp only [hd, hl, hs, Bool.not_true, Bool.false_eq_true, if_false]
      simp [walkImpl]
    simp [this, Except.map]

/-! ### the walk returns -/

theorem foldl_walk_some {α : Type} (f : α → Option (List Visit)) (es : List α) (h : ∀ e ∈ es, (f e).isSome = true) :
    ∀ init : List Visit, (es.foldl (fun (acc : Option (List Visit)) e =>
      match acc with
      | none => none
      | some vs => match f e with | none => none | some v1 => some (vs ++ v1)) (some init)).isSome = true := by
  induction es with
  | nil => intro init; rfl
  | cons e rest ih =>
    intro init
    simp only [List.foldl_cons]
    have he := h e List.mem_cons_self
    cases hf : f e with
    | none => rw [hf] at he; cases he
    | some v => exact ih (fun x hx => h x (List.mem_cons_of_mem _ hx)) _

theorem lookup_of_mem {cs : List (Name × Ino)} (hnd : (cs.map (·.1)).Nodup) {n : Name} {j : Ino}
    (h : (n, j) ∈ cs) : cs.lookup n = some j := by
  induction cs with
  | nil => cases h
  | cons e rest ih =>
    obtain ⟨k, v⟩ := e
    simp only [List.map_cons, List.nodup_cons] at hnd
    rcases List.mem_cons.mp h with h1 | h2
    · cases h1; simp [List.lookup]
    · have hne : n ≠ k := by
        intro hk; subst hk
        exact hnd.1 (List.mem_map.mpr ⟨(n, j), h2, rfl⟩)
      have : (n == k) = false := by simpa using hne
      simp only [List.lookup, this]
      exact ih hnd.2 h2

theorem fuel_arith1 (a l f : Nat) (h1 : a < l) (h2 : l - a + 1 ≤ f + 1) : 1 ≤ f := by omega
theorem fuel_arith2 (a b l f : Nat) (h1 : a < l) (h2 : l - a + 1 ≤ f + 1) (h3 : a < b) (h4 : b < l) :
    l - b + 1 ≤ f := by omega
theorem fuel_arith3 (a l : Nat) : l - a + 1 ≤ l + 2 := by omega

/-- **walkDirP_some**: below a path that resolves to node `i`, fuel `nodes.length - i + 1` is enough -/
theorem walkDirP_some {c : Cfg} (hc : c.posix = false) {fs : FS} (hi : Inv fs) (ht : Tree fs) (hs : SymOK fs) :
    ∀ (fuel : Nat) (name : Text) (isDir : Bool), 1 ≤ fuel →
      (∀ i : Nat, getNode c fs name = .ok i → fs.nodes.length - i + 1 ≤ fuel) →
      (walkDirP c fs id fuel name isDir).isSome = true := by
  intro fuel
  induction fuel with
  | zero => intro _ _ h; omega
  | succ f ih =>
    intro name isDir _ hfuel
    unfold walkDirP
    cases isDir with
    | false => rfl
    | true =>
      simp only [Bool.not_true, Bool.false_eq_true, if_false, step, id]
      cases hg : getNode c fs name with
      | error e => rfl
      | ok i =>
        simp only []
        cases hd : (fs.node i).dir with
        | false => rfl
        | true =>
          simp only [Bool.not_true, Bool.false_eq_true, if_false]
          have hil : (i : Nat) < fs.nodes.length := dir_lt fs i hd
          have hf : fs.nodes.length - (i : Nat) + 1 ≤ f + 1 := hfuel i hg
          apply foldl_walk_some (fun (s : StatInfo) => walkDirP c fs id f (join2 name s.name) s.isDir)
          intro s hsm
          obtain ⟨e, he, rfl⟩ := List.mem_map.mp hsm
          have hmem : (e.1, e.2) ∈ (fs.node i).children := by
            have : e ∈ sortNames (fs.node i).children := he
            simpa [sortNames, List.mem_mergeSort] using this
          simp only [statOf]
          cases hed : (fs.node e.2).dir with
          | false =>
            have hf1 := fuel_arith1 i _ f hil hf
            cases f with
            | zero => cases hf1
            | succ f' => simp [walkDirP]
          | true =>
            have hup : (i : Nat) < (e.2 : Nat) := ht.up i e.1 e.2 hmem hed
            have hlive : (e.2 : Nat) < fs.nodes.length := hi.live i e.1 e.2 hmem
            have hl : fs.lookup i e.1 = some e.2 := lookup_of_mem (hi.names i) hmem
            have hch := getNode_child hc ht name e.1 i e.2 hg hd hl (hs e.2 hed)
            apply ih _ _ (fuel_arith1 i _ f hil hf)
            intro i' hi'
            rw [hch] at hi'
            cases hi'
            exact fuel_arith2 i _ _ f hil hf hup hlive

/-- **walkDirOp_some** (no `HANG`): on a well-formed state `fs.WalkDir`, run by path through the public
API from any root, returns -/
theorem walkDirOp_some {c : Cfg} (hc : c.posix = false) {fs : FS} (hi : Inv fs) (ht : Tree fs) (hs : SymOK fs)
    (root : Text) : (walkDirOp c fs id root).isSome = true := by
  unfold walkDirOp
  simp only [step, id]
  cases hg : getNode c fs root with
  | error e => rfl
  | ok i =>
    simp only []
    apply walkDirP_some hc hi ht hs _ _ _ (by omega)
    intro i' hi'
    rw [hg] at hi'
    cases hi'
    exact fuel_arith3 _ _

end Apko.FS
