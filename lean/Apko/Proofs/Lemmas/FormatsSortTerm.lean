/-
C16 / C07 / C15 helper lemmas: `sortTarHeaders` terminates on headers with clean relative names (the
only way the Go function recurses forever is a header that cleans to "."): the fuel of the model,
`len + 2`, is never exhausted, because every nesting level passes a distinct record.
-/
import Apko.Proofs.Lemmas.FormatsPath
import Apko.Proofs.Lemmas.FormatsSort

namespace Apko.Formats
open Apko

/-- `x` lies strictly below the directory path `n` -/
def belowB (n x : Text) : Bool := (n ++ ['/']).isPrefixOf x

theorem belowB_iff (n x : Text) : belowB n x = true ↔ ∃ r, x = n ++ '/' :: r := by
  unfold belowB
  rw [List.isPrefixOf_iff_prefix]
  constructor
  · rintro ⟨r, h⟩; exact ⟨r, by rw [← h]; simp⟩
  · rintro ⟨r, h⟩; exact ⟨r, by rw [h]; simp⟩

theorem belowB_trans (n m x : Text) (h1 : belowB n m = true) (h2 : belowB m x = true) : belowB n x = true := by
  rw [belowB_iff] at *
  obtain ⟨r1, rfl⟩ := h1
  obtain ⟨r2, rfl⟩ := h2
  exact ⟨r1 ++ '/' :: r2, by simp⟩

theorem belowB_irrefl (n : Text) : belowB n n = false := by
  cases h : belowB n n with
  | false => rfl
  | true =>
    obtain ⟨r, hr⟩ := (belowB_iff n n).mp h
    have := congrArg List.length hr
    simp at this

theorem child_below (c n : Text) (hc : cleanRel c = true) (hd : pathDir c = n) (hn : n ≠ ['.']) :
    belowB n c = true := by
  rcases cleanRel_cases c hc with ⟨_, h, _⟩ | ⟨d, b, _, _, hf, hdir, _⟩
  · rw [h] at hd; exact absurd hd.symm hn
  · rw [belowB_iff]; exact ⟨b, by rw [← hd, hdir]; exact hf⟩

theorem countP_lt_of {α : Type} (p q : α → Bool) (w : α) : ∀ (l : List α), (∀ x ∈ l, p x = true → q x = true) →
    w ∈ l → q w = true → p w = false → l.countP p < l.countP q := by
  intro l
  induction l with
  | nil => intro _ hw; simp at hw
  | cons a l ih =>
    intro himp hw hq hp
    have hle : l.countP p ≤ l.countP q := List.countP_mono_left (fun x hx => himp x (by simp [hx]))
    rcases List.mem_cons.mp hw with e | hw'
    · subst e
      simp only [List.countP_cons, hq, hp, if_true, Bool.false_eq_true, if_false]
      omega
    · have := ih (fun x hx => himp x (by simp [hx])) hw' hq hp
      simp only [List.countP_cons]
      cases hpa : p a with
      | false => simp only [Bool.false_eq_true, if_false]; split <;> omega
      | true => simp only [himp a (by simp) hpa, if_true]; omega

/-- number of records strictly below `n` -/
def weight (hs : List FileRec) (n : Text) : Nat := hs.countP fun h => belowB n (pathClean h.name)

theorem weight_le (hs : List FileRec) (n : Text) : weight hs n ≤ hs.length := List.countP_le_length

theorem go_total (hs : List FileRec) (fuel : Nat) : ∀ (dirs : List (Text × FileRec)),
    (∀ p ∈ dirs, ∃ out, sortChildren hs fuel (childrenOf hs p.1) = some out) →
    ∃ out, sortChildren.go hs fuel dirs = some out := by
  intro dirs
  induction dirs with
  | nil => intro _; exact ⟨[], sortChildren.go.eq_1 _ _⟩
  | cons p rest ih =>
    intro h
    obtain ⟨n, d⟩ := p
    obtain ⟨sub, hsub⟩ := h (n, d) (by simp)
    obtain ⟨tl, htl⟩ := ih (fun q hq => h q (by simp [hq]))
    exact ⟨_, go_eval_cons hs fuel n d rest sub tl hsub htl⟩

theorem mem_dirs (hs : List FileRec) (children : List Text) (p : Text × FileRec)
    (hp : p ∈ dirsOf hs (sortTexts children)) :
    p.1 ∈ children ∧ lookupHeader hs p.1 = some p.2 ∧ p.2.isDir = true := by
  simp only [dirsOf, List.mem_filterMap] at hp
  obtain ⟨n, hn, hm⟩ := hp
  split at hm
  · next h' hl =>
    split at hm
    · next hd =>
      simp only [Option.some.injEq] at hm; subst hm
      exact ⟨(mem_sortTexts _ _).mp hn, hl, hd⟩
    · exact absurd hm (by simp)
  · exact absurd hm (by simp)

theorem sortChildren_total_step (hs : List FileRec) (fuel : Nat) (children : List Text)
    (h : ∀ n ∈ children, ∀ d, lookupHeader hs n = some d → d.isDir = true →
      ∃ out, sortChildren hs fuel (childrenOf hs n) = some out) :
    ∃ out, sortChildren hs (fuel + 1) children = some out := by
  rw [sortChildren.eq_2]
  show ∃ out, Option.map _ (sortChildren.go hs fuel (dirsOf hs (sortTexts children))) = some out
  obtain ⟨x, hx⟩ := go_total hs fuel (dirsOf hs (sortTexts children)) (fun p hp => by
    obtain ⟨h1, h2, h3⟩ := mem_dirs hs children p hp
    exact h p.1 h1 p.2 h2 h3)
  rw [hx]
  exact ⟨_, rfl⟩

theorem sortChildren_total (hs : List FileRec) (hwf : ∀ h ∈ hs, cleanRel h.name = true) :
    ∀ (fuel : Nat) (n : Text), cleanRel n = true → weight hs n < fuel →
      ∃ out, sortChildren hs fuel (childrenOf hs n) = some out := by
  intro fuel
  induction fuel with
  | zero => intro n _ h; omega
  | succ fuel ih =>
    intro n hn hw
    apply sortChildren_total_step
    intro m hm d hl _
    obtain ⟨hmem, hname⟩ := lookupHeader_some hs m d hl
    have hdc := hwf d hmem
    rw [pathClean_cleanRel d.name hdc] at hname
    have hmc : cleanRel m = true := hname ▸ hdc
    apply ih m hmc
    have hbelow : belowB n m = true := child_below m n hmc (mem_childrenOf hs n m hm) (cleanRel_ne_dot n hn)
    have : weight hs m < weight hs n := by
      unfold weight
      apply countP_lt_of _ _ d hs
      · intro x _ hx; exact belowB_trans n m _ hbelow hx
      · exact hmem
      · rw [pathClean_cleanRel d.name hdc, hname]; exact hbelow
      · rw [pathClean_cleanRel d.name hdc, hname]; exact belowB_irrefl m
    omega

/-- `sortTarHeaders` terminates (the model's fuel is not exhausted) on every header list whose names
are clean and relative -/
theorem sortHeaders_total (hs : List FileRec) (hwf : ∀ h ∈ hs, cleanRel h.name = true) :
    ∃ out, sortHeaders hs = some out := by
  unfold sortHeaders
  simp only []
  apply sortChildren_total_step
  intro t _ d hl _
  obtain ⟨hmem, hname⟩ := lookupHeader_some hs t d hl
  have hdc := hwf d hmem
  rw [pathClean_cleanRel d.name hdc] at hname
  exact sortChildren_total hs hwf _ t (hname ▸ hdc) (by have := weight_le hs t; omega)

/-! ## the hypothesis is needed: a header that cleans to "." exhausts every fuel (Go recurses forever) -/

def dotDir : FileRec := ⟨['.'], true, 0o755, 0, 0, []⟩

theorem sortChildren_dot : ∀ fuel, sortChildren [dotDir] fuel [['.']] = none := by
  intro fuel
  induction fuel with
  | zero => exact sortChildren.eq_1 _ _
  | succ fuel ih =>
    rw [sortChildren.eq_2, sortTexts_sorted _ (by decide)]
    show Option.map _ (sortChildren.go [dotDir] fuel (dirsOf [dotDir] [['.']])) = none
    rw [show dirsOf [dotDir] [['.']] = [(['.'], dotDir)] by decide, sortChildren.go.eq_2,
      show childrenOf [dotDir] ['.'] = [['.']] by decide, ih]
    rfl

theorem sortHeaders_dot : sortHeaders [dotDir] = none := by
  unfold sortHeaders
  simp only []
  rw [show (dedupTexts ([dotDir].map fun h => pathDir (pathClean h.name))).filter (fun d => pathDir d = ['.']) = [['.']] by decide,
    sortTexts_sorted _ (by decide)]
  exact sortChildren_dot _

end Apko.Formats
