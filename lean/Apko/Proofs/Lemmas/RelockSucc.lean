/-
C09, success of the re-resolution (`relock_succeeds_partial`): in a universe without `provides` and `install_if`,
the lock of a closed set with unique names / (name, version), parsable versions, kept pins and no violated `!x`
dependency does re-resolve — no step of the resolver model answers `.err` (and `C02.resolve_total`: never
`.outOfFuel`).  The invariant carried through `getPackageDependencies`:

* `locked`  every non-member carrying a member's name is disqualified (so every candidate is a member);
* `free`    no member is disqualified (so the member that satisfied a dependency originally is still a candidate);
* `sel`     `selected` maps names to the members of that name (so `pick` never reports a conflict and the
            `selected` shortcut tests the member that satisfies the dependency);
* `ex`      `existing` maps every member's name to that member — the first loop of `GetPackagesWithDependencies`
            put all of them there — which is what lets a pinned member pass `filterPackages` as a dependency.
-/
import Apko.Proofs.Lemmas.RelockInv
import Apko.Proofs.C03

namespace Apko.Lock
open Apko Apko.Resolver

/-! ### small facts (maps: copies of the private lemmas of Proofs/C09.lean, needed below it) -/

theorem m_find_map_set {α} (m : List (Text × α)) (k k' : Text) (v : α) :
    (m.map fun e => if e.1 = k then (k, v) else e).find? (fun e => e.1 = k') =
      if k' = k then (if m.any (fun e => e.1 = k) then some (k, v) else none)
      else m.find? (fun e => e.1 = k') := by
  induction m with
  | nil => simp
  | cons e m ih =>
    rw [List.map_cons, List.find?_cons, List.find?_cons, List.any_cons]
    by_cases he : e.1 = k
    · by_cases hk : k' = k
      · subst hk; simp [he]
      · have h1 : ¬ k = k' := fun h => hk h.symm
        have h2 : ¬ e.1 = k' := fun h => hk (h.symm.trans he)
        simp only [he, ↓reduceIte, h1, decide_false, h2] at ih ⊢
        simpa [hk] using ih
    · by_cases hk : k' = k
      · subst hk
        simp only [he, ↓reduceIte, decide_false, Bool.false_or] at ih ⊢
        simpa using ih
      · simp only [he, ↓reduceIte, hk] at ih ⊢
        by_cases h2 : e.1 = k'
        · simp [h2]
        · simp only [h2, decide_false]; exact ih

theorem m_lookupT_map_set {α} (m : List (Text × α)) (k k' : Text) (v : α) :
    lookupT (m.map fun e => if e.1 = k then (k, v) else e) k' =
      if k' = k then (if m.any (fun e => e.1 = k) then some v else none) else lookupT m k' := by
  unfold lookupT
  rw [m_find_map_set]
  split
  · split <;> rfl
  · rfl

theorem m_lookupT_append_single {α} (m : List (Text × α)) (k k' : Text) (v : α) :
    lookupT (m ++ [(k, v)]) k' =
      match lookupT m k' with
      | some x => some x
      | none => if k = k' then some v else none := by
  induction m with
  | nil => simp [lookupT, List.find?_cons]; split <;> simp_all
  | cons e m ih =>
    unfold lookupT at ih ⊢
    simp only [List.cons_append, List.find?_cons]
    by_cases he : e.1 = k'
    · simp [he]
    · simp only [he, decide_false]
      exact ih

theorem m_lookupT_none_of_not_any {α} (m : List (Text × α)) (k : Text) (h : m.any (fun e => e.1 = k) = false) :
    lookupT m k = none := by
  unfold lookupT
  rw [Option.map_eq_none_iff, List.find?_eq_none]
  intro x hx
  have := List.any_eq_false.mp h x hx
  exact this

theorem lkp_setT {α} (m : List (Text × α)) (k k' : Text) (v : α) :
    lookupT (setT m k v) k' = if k' = k then some v else lookupT m k' := by
  unfold setT
  split
  · next h => rw [m_lookupT_map_set]; simp [h]
  · next h =>
    rw [m_lookupT_append_single]
    by_cases hk : k' = k
    · subst hk
      have := m_lookupT_none_of_not_any m k' (by simp only [Bool.not_eq_true] at h; exact h)
      simp [this]
    · have : ¬ k = k' := fun h => hk h.symm
      simp only [this, ↓reduceIte, hk]
      cases lookupT m k' <;> rfl

/-! ### the side conditions -/

/-- what the success theorem needs on top of `Ctx` (closure, no provides / install_if) -/
structure Side (c : Cfg) (S : List Pkg) : Prop where
  /-- model well-formedness: `id` is Go's pointer identity -/
  ids : C02.IdsDistinct c.u
  /-- one member per name (C02 `Valid`, clause 3) -/
  names : ∀ p ∈ S, ∀ q ∈ S, p.name = q.name → p = q
  /-- not F09e: every member's version parses -/
  pvOk : ∀ p ∈ S, (pv p.version).isSome = true
  /-- the version text of every dependency of a member parses (only restricts dependencies whose operator run is
  not an operator, e.g. `b==x`: those read as "any version" but keep the text, see `depAnyJunk_witness`) -/
  depPv : ∀ p ∈ S, ∀ d ∈ p.deps, isConflict d = false →
    (parseConstraint d).version = [] ∨ (pv (parseConstraint d).version).isSome = true
  /-- not F09f (conflict part): no `!x` dependency of a member is violated by a member -/
  noConf : ∀ p ∈ S, ∀ d ∈ p.deps, isConflict d = true → ∀ q ∈ S, sat q (d.drop 1) = false

/-- no member is disqualified -/
def Free (S : List Pkg) (dq : List Nat) : Prop := ∀ p ∈ S, dq.contains p.id = false

theorem satisfies_eq_self (a : Version) : Dep.eq.satisfies a a = true := by
  simp [Dep.satisfies, C03.cmp_refl]

/-- a package that passes every test of `filterPackages` is in its result -/
theorem mem_filter_intro {cands : List Pkg} {dq : List Nat} {ver : Text} {dep : Dep} {allow prefer : Text}
    {inst : Option Pkg} {p : Pkg} (hc : p ∈ cands) (hdq : dq.contains p.id = false)
    (hpin : p.pin = [] ∨ p.pin = allow ∨ p.pin = prefer ∨ inst = some p)
    (hver : dep = .any ∨ ∃ req act, pv ver = some req ∧ pv p.version = some act ∧ dep.satisfies act req = true) :
    p ∈ filterPackages cands dq ver dep allow prefer inst := by
  have hsurv : p ∈ cands.filter fun p => !dq.contains p.id &&
      !((!p.pin.isEmpty && p.pin != allow && p.pin != prefer) &&
        (match inst with | none => true | some i => Pkg.url i != Pkg.url p)) := by
    rw [List.mem_filter]
    refine ⟨hc, ?_⟩
    simp only [hdq, Bool.not_false, Bool.true_and, Bool.not_eq_true', Bool.and_eq_false_iff]
    rcases hpin with h | h | h | h
    · left; left; left; simp [h]
    · left; left; right; simp [h]
    · left; right; simp [h]
    · right; subst h; simp
  unfold filterPackages
  simp only
  split
  · exact hsurv
  · next hne =>
    rcases hver with h | ⟨req, act, hreq, hact, hs⟩
    · exact absurd h hne
    · simp only [hreq]
      rw [List.mem_filter]
      exact ⟨hsurv, by simp [hact, hs]⟩

/-- in the parsed form of a constraint an empty version means "any version" -/
theorem parse_version_nil_any (d : Text) (h : (parseConstraint d).version = []) : (parseConstraint d).dep = .any := by
  unfold parseConstraint at h ⊢
  simp only at h ⊢
  split
  · rfl
  · next name ops ver pin hm =>
    simp only [hm] at h
    simp only
    split
    · rfl
    · next hops =>
      exfalso
      -- a non-empty operator run comes with a non-empty version
      unfold matchPackageName at hm
      simp only at hm
      repeat' split at hm
      all_goals simp only [Option.some.injEq, Prod.mk.injEq, reduceCtorEq] at hm
      all_goals (try (obtain ⟨_, h2, h3, _⟩ := hm; subst h2; subst h3; simp_all))

/-! ### `constrain` keeps the members free -/

theorem id_ne_of_not_mem {c : Cfg} {S : List Pkg} (ctx : Ctx c S) (sd : Side c S) {x q : Pkg}
    (hx : x ∈ c.u.all) (hxs : x ∉ S) (hq : q ∈ S) : q.id ≠ x.id := by
  intro h
  have := C02.eq_of_id_eq sd.ids (ctx.sIn q hq) hx h
  exact hxs (this ▸ hq)

theorem free_dqAdd {S : List Pkg} {d : List Nat} {i : Nat} (hf : Free S d) (hi : ∀ q ∈ S, q.id ≠ i) :
    Free S (dqAdd d i) := by
  intro q hq
  rw [C02.contains_false_iff, C02.mem_dqAdd]
  rintro (h | h)
  · exact absurd h (C02.contains_false_iff.mp (hf q hq))
  · exact hi q hq h

/-- a candidate of a no-provides universe that passes the filter for the parsed constraint `x` satisfies `x` -/
theorem filter_sat_noprov {c : Cfg} {S : List Pkg} (ctx : Ctx c S) {dq : List Nat} {x allow prefer : Text}
    {inst : Option Pkg} {q : Pkg}
    (h : q ∈ filterPackages (c.nm (parseConstraint x).name) dq (parseConstraint x).version (parseConstraint x).dep
      allow prefer inst) : sat q x = true := by
  obtain ⟨_, hn, _⟩ := candidate_in ctx h
  unfold sat
  simp only [Bool.or_eq_true, Bool.and_eq_true, decide_eq_true_eq]
  left
  refine ⟨hn, ?_⟩
  by_cases hany : (parseConstraint x).dep = .any
  · simp [hany]
  · obtain ⟨req, act, hreq, hact, hs⟩ := C02.filter_sound hany h
    have hp : q.provides = [] := ctx.noprov q (candidate_in ctx h).1
    rw [hp] at hs
    rcases hs with hs | ⟨_, hmem, _⟩
    · right; simp [hreq, hact, hs]
    · cases hmem

theorem disqualifyProviders_free {c : Cfg} {S : List Pkg} (ctx : Ctx c S) (sd : Side c S) (x : Text) (dq : List Nat)
    (hx : ∀ q ∈ S, sat q x = false) (hf : Free S dq) : Free S (disqualifyProviders c x dq) := by
  unfold disqualifyProviders
  simp only
  split
  · exact hf
  · generalize hl : filterPackages (c.nm (parseConstraint x).name) dq (parseConstraint x).version
      (parseConstraint x).dep [] (parseConstraint x).pin none = l
    have hmem : ∀ q ∈ l, q ∈ c.u.all ∧ q ∉ S := by
      intro q hq
      rw [← hl] at hq
      refine ⟨(candidate_in ctx hq).1, fun hqs => ?_⟩
      have := filter_sat_noprov ctx hq
      rw [hx q hqs] at this
      cases this
    clear hl
    induction l generalizing dq with
    | nil => exact hf
    | cons y ys ih =>
      simp only [List.foldl_cons]
      apply ih
      · exact free_dqAdd hf (fun q hq => id_ne_of_not_mem ctx sd (hmem y List.mem_cons_self).1
          (hmem y List.mem_cons_self).2 hq)
      · exact fun q hq => hmem q (List.mem_cons_of_mem _ hq)

theorem constrainStep_free {c : Cfg} {S : List Pkg} (ctx : Ctx c S) (sd : Side c S) (p : Constraint) (req : Version)
    (d : List Nat) (prov : Pkg) (hprov : prov ∈ c.u.all) (hn : prov.name = p.name)
    (hok : prov ∈ S → ∃ act, pv prov.version = some act ∧ p.dep.satisfies act req = true)
    (hf : Free S d) : Free S (constrainStep p req d prov) := by
  unfold constrainStep
  simp only [hn, ↓reduceIte]
  by_cases hs : prov ∈ S
  · obtain ⟨act, hact, hsat⟩ := hok hs
    simp only [hact, hsat, Bool.not_true, Bool.false_eq_true, ↓reduceIte]
    exact hf
  · have hne : ∀ q ∈ S, q.id ≠ prov.id := fun q hq => id_ne_of_not_mem ctx sd hprov hs hq
    split
    · exact free_dqAdd hf hne
    · split
      · exact free_dqAdd hf hne
      · exact hf

/-- a constraint that leaves the members alone -/
def ConOK (S : List Pkg) (con : Text) : Prop :=
  (∃ x, con = '!' :: x ∧ ∀ q ∈ S, sat q x = false) ∨
  ((∀ x, con ≠ '!' :: x) ∧ ((parseConstraint con).dep = .any ∨
     ∃ req, pv (parseConstraint con).version = some req ∧
       ∀ q ∈ S, q.name = (parseConstraint con).name →
         ∃ act, pv q.version = some act ∧ (parseConstraint con).dep.satisfies act req = true))

theorem constrain_free {c : Cfg} {S : List Pkg} (ctx : Ctx c S) (sd : Side c S) :
    ∀ (l : List Text) (dq : List Nat), (∀ con ∈ l, ConOK S con) → Free S dq →
      ∃ dq', constrain c l dq = some dq' ∧ Free S dq' := by
  intro l
  induction l with
  | nil => intro dq _ hf; exact ⟨dq, by simp [constrain], hf⟩
  | cons con rest ih =>
    intro dq hok hf
    have hrest : ∀ con ∈ rest, ConOK S con := fun x hx => hok x (List.mem_cons_of_mem _ hx)
    rcases hok con List.mem_cons_self with ⟨x, rfl, hx⟩ | ⟨hnb, hc⟩
    · rw [constrain_bang]
      exact ih _ hrest (disqualifyProviders_free ctx sd x dq hx hf)
    · rw [constrain_other c con rest dq hnb]
      split
      · exact ih _ hrest hf
      · next hany =>
        split
        · exact ih _ hrest hf
        · rcases hc with hc | ⟨req, hreq, hall⟩
          · exact absurd hc hany
          · simp only [hreq]
            apply ih _ hrest
            -- the fold over `nameMap[name]`
            have hnm : ∀ prov ∈ c.nm (parseConstraint con).name, prov ∈ c.u.all ∧ prov.name = (parseConstraint con).name := by
              intro prov hp
              unfold Cfg.nm at hp
              rw [nameMap_noprov _ _ _ ctx.noprov] at hp
              obtain ⟨h1, h2⟩ := List.mem_filter.mp hp
              exact ⟨h1, by simpa using h2⟩
            generalize c.nm (parseConstraint con).name = l at hnm
            induction l generalizing dq with
            | nil => exact hf
            | cons y ys ihl =>
              simp only [List.foldl_cons]
              apply ihl
              · exact constrainStep_free ctx sd _ req dq y (hnm y List.mem_cons_self).1 (hnm y List.mem_cons_self).2
                  (fun hys => hall y hys (hnm y List.mem_cons_self).2) hf
              · exact fun q hq => hnm q (List.mem_cons_of_mem _ hq)

/-! ### what closure gives for one dependency of a member -/

theorem isConflict_false_of_not_bang {d : Text} (h : ∀ x, d ≠ '!' :: x) : isConflict d = false := by
  unfold isConflict
  split
  · next x => exact absurd rfl (h x)
  · rfl

theorem closed_member {c : Cfg} {S : List Pkg} (ctx : Ctx c S) {pkg : Pkg} (hpkg : pkg ∈ S) {d : Text}
    (hd : d ∈ pkg.deps) (hnc : isConflict d = false) :
    ∃ q ∈ S, q.name = (parseConstraint d).name ∧ ((parseConstraint d).dep = .any ∨
      ∃ req act, pv (parseConstraint d).version = some req ∧ pv q.version = some act ∧
        (parseConstraint d).dep.satisfies act req = true) := by
  obtain ⟨q, hq, hsat⟩ := ctx.closed pkg hpkg d hd hnc
  refine ⟨q, hq, sat_noprov q d (ctx.noprov q (ctx.sIn q hq)) hsat, ?_⟩
  by_cases hany : (parseConstraint d).dep = .any
  · exact Or.inl hany
  · right
    have hv : (parseConstraint d).version ≠ [] := fun h => hany (parse_version_nil_any d h)
    unfold sat at hsat
    simp only [ctx.noprov q (ctx.sIn q hq), List.any_nil, Bool.or_false, Bool.and_eq_true, decide_eq_true_eq,
      Bool.or_eq_true, List.isEmpty_iff, hv, hany, false_or] at hsat
    obtain ⟨_, h2⟩ := hsat
    split at h2
    · next a r ha hr => exact ⟨r, a, hr, ha, h2⟩
    · cases h2

theorem dep_conOK {c : Cfg} {S : List Pkg} (ctx : Ctx c S) (sd : Side c S) {pkg : Pkg} (hpkg : pkg ∈ S) :
    ∀ d ∈ pkg.deps, ConOK S d := by
  intro d hd
  rcases bang_or_not d with ⟨x, rfl⟩ | hnb
  · exact Or.inl ⟨x, rfl, sd.noConf pkg hpkg _ hd rfl⟩
  · right
    refine ⟨hnb, ?_⟩
    obtain ⟨q, hq, hqn, hv⟩ := closed_member ctx hpkg hd (isConflict_false_of_not_bang hnb)
    rcases hv with hv | ⟨req, act, hreq, hact, hs⟩
    · exact Or.inl hv
    · right
      refine ⟨req, hreq, fun q' hq' hn' => ?_⟩
      have : q' = q := sd.names q' hq' q hq (hn'.trans hqn.symm)
      subst this
      exact ⟨act, hact, hs⟩

/-! ### the invariant of the dependency walk -/

structure SInv (c : Cfg) (S : List Pkg) (ds : DepSt) : Prop where
  locked : Locked c S ds.st.dq
  free : Free S ds.st.dq
  sel : ∀ n p, lookupT ds.st.selected n = some p → p ∈ S ∧ p.name = n
  ex : ∀ p ∈ S, lookupT ds.existing p.name = some p

theorem mem_nm_of_member {c : Cfg} {S : List Pkg} (ctx : Ctx c S) {q : Pkg} (hq : q ∈ S) : q ∈ c.nm q.name := by
  unfold Cfg.nm
  rw [nameMap_noprov _ _ _ ctx.noprov]
  exact List.mem_filter.mpr ⟨ctx.sIn q hq, by simp⟩

theorem hasName_of_member {c : Cfg} {S : List Pkg} (ctx : Ctx c S) {q : Pkg} (hq : q ∈ S) : hasName c.u q.name = true := by
  unfold hasName
  exact List.any_eq_true.mpr ⟨q, ctx.sIn q hq, by simp⟩

/-- no dependency of a member fails in a pass of the loop -/
theorem depOption_not_fail {c : Cfg} {S : List Pkg} (ctx : Ctx c S) (sd : Side c S) {pkg : Pkg} (hpkg : pkg ∈ S)
    (allowPin : Text) {ds : DepSt} (inv : SInv c S ds) {d : Text} (hd : d ∈ pkg.deps) :
    depOption c pkg allowPin ds d ≠ .fail := by
  rw [C02.depOption_eq]
  unfold C02.depOption'
  split
  · intro h; cases h
  · next hnb =>
    have hnc := isConflict_false_of_not_bang hnb
    obtain ⟨q, hq, hqn, hv⟩ := closed_member ctx hpkg hd hnc
    simp only [ctx.noprov pkg (ctx.sIn pkg hpkg), List.any_nil, Bool.or_false, Bool.false_eq_true, ↓reduceIte]
    split
    · intro h; cases h
    · split
      · next picked hsel =>
        obtain ⟨hps, hpn⟩ := inv.sel _ _ hsel
        have hpq : picked = q := sd.names picked hps q hq (hpn.trans hqn.symm)
        subst hpq
        unfold C02.selectedCase
        simp only
        split
        · intro h; cases h
        · next hve =>
          have hve' : (parseConstraint d).version ≠ [] := by simpa using hve
          obtain ⟨act, hact⟩ := Option.isSome_iff_exists.mp (sd.pvOk picked hps)
          obtain ⟨req, hreq⟩ : ∃ v, pv (parseConstraint d).version = some v := by
            rcases sd.depPv pkg hpkg d hd hnc with h | h
            · exact absurd h hve'
            · exact Option.isSome_iff_exists.mp h
          have hsc : depOption.scan (parseConstraint d).name req picked.provides = some false := by
            rw [ctx.noprov picked (ctx.sIn picked hps)]; rfl
          have hs : (parseConstraint d).dep.satisfies act req = true := by
            rcases hv with hv | ⟨req', act', hreq', hact', hs⟩
            · rw [hv]; rfl
            · rw [hreq] at hreq'; rw [hact] at hact'
              cases hreq'; cases hact'; exact hs
          simp only [hact, hreq, hsc, hs, ↓reduceIte]
          split <;> (intro h; cases h)
      · next hsel =>
        unfold C02.candidateCase
        simp only [← hqn, hasName_of_member ctx hq, Bool.not_true, Bool.false_eq_true, ↓reduceIte]
        have hmem : q ∈ filterPackages (c.nm q.name) ds.st.dq (parseConstraint d).version (parseConstraint d).dep
            allowPin [] (lookupT ds.existing q.name) :=
          mem_filter_intro (mem_nm_of_member ctx hq) (inv.free q hq)
            (Or.inr (Or.inr (Or.inr (inv.ex q hq)))) (by
              rcases hv with hv | ⟨req, act, h1, h2, h3⟩
              · exact Or.inl hv
              · exact Or.inr ⟨req, act, h1, h2, h3⟩)
        split
        · next he =>
          rw [List.isEmpty_iff] at he
          rw [he] at hmem
          cases hmem
        · intro h; cases h

theorem depOption_options_ne {c : Cfg} {pkg : Pkg} {allowPin : Text} {ds : DepSt} {dep d : Text} {pkgs : List Pkg}
    (h : depOption c pkg allowPin ds dep = .options d pkgs) : pkgs ≠ [] := by
  rw [C02.depOption_eq] at h
  unfold C02.depOption' at h
  split at h
  · cases h
  · simp only at h
    split at h
    · split at h <;> cases h
    · split at h
      · cases h
      · split at h
        · exact absurd h C02.selectedCase_not_options
        · unfold C02.candidateCase at h
          simp only at h
          split at h
          · cases h
          · split at h
            · cases h
            · next hne =>
              simp only [Opt.options.injEq] at h
              rw [← h.2]
              simpa using hne

/-! ### the dependency loop does not fail -/

def ResOK {α} (P : α → Prop) : Res α → Prop
  | .ok a => P a
  | .err => False
  | .outOfFuel => True

structure GoodS (c : Cfg) (S : List Pkg) (out : DepOut) : Prop where
  deps : ∀ d ∈ out.deps, d ∈ S
  inv : SInv c S out.ds

theorem SInv.congr {c : Cfg} {S : List Pkg} {ds ds2 : DepSt} (h : SInv c S ds) (h1 : ds2.st.dq = ds.st.dq)
    (h2 : ds2.st.selected = ds.st.selected) (h3 : ds2.existing = ds.existing) : SInv c S ds2 :=
  ⟨h1 ▸ h.locked, h1 ▸ h.free, h2 ▸ h.sel, h3 ▸ h.ex⟩

theorem passFold_some (c : Cfg) (pkg : Pkg) (allowPin : Text) (ds : DepSt) :
    ∀ (l : List Text) (s0 : C02.PassSt), (∀ d ∈ l, depOption c pkg allowPin ds d ≠ .fail) →
      ∃ r, l.foldl (C02.passStep c pkg allowPin ds) (some s0) = some r := by
  intro l
  induction l with
  | nil => intro s0 _; exact ⟨s0, rfl⟩
  | cons d ds' ih =>
    intro s0 h
    obtain ⟨o, cf, fl⟩ := s0
    simp only [List.foldl_cons]
    have hd := h d List.mem_cons_self
    have hr := fun s1 => ih s1 (fun x hx => h x (List.mem_cons_of_mem _ hx))
    cases hopt : depOption c pkg allowPin ds d with
    | skip => simp only [C02.passStep, hopt]; exact hr _
    | skipF f => simp only [C02.passStep, hopt]; exact hr _
    | conflict x => simp only [C02.passStep, hopt]; exact hr _
    | fail => exact absurd hopt hd
    | options d2 pkgs => simp only [C02.passStep, hopt]; exact hr _

theorem minFunc_ne_nil {cmp : Pkg → Pkg → Ordering} {l : List Pkg} (h : l ≠ []) : ∃ b, minFunc cmp l = some b := by
  cases l with
  | nil => exact absurd rfl h
  | cons x xs => exact ⟨_, rfl⟩

theorem flag_selected1 (s : St) (f : String) : (s.flag f).selected = s.selected := by
  unfold St.flag; split <;> rfl

theorem pick_ok {c : Cfg} {S : List Pkg} (ctx : Ctx c S) (sd : Side c S) {pkg : Pkg} (hpkg : pkg ∈ S)
    {sel : List (Text × Pkg)} (hsel : ∀ n p, lookupT sel n = some p → p ∈ S ∧ p.name = n) :
    ∃ sel2, pick pkg sel = some sel2 ∧ ∀ n p, lookupT sel2 n = some p → p ∈ S ∧ p.name = n := by
  unfold pick
  cases hl : lookupT sel pkg.name with
  | some conflict =>
    obtain ⟨h1, h2⟩ := hsel _ _ hl
    have : conflict = pkg := sd.names conflict h1 pkg hpkg h2
    subst this
    exact ⟨sel, by simp, hsel⟩
  | none =>
    simp only [ctx.noprov pkg (ctx.sIn pkg hpkg)]
    refine ⟨setT sel pkg.name pkg, rfl, fun n p h => ?_⟩
    rw [lkp_setT] at h
    split at h
    · next e => simp only [Option.some.injEq] at h; subst h; exact ⟨hpkg, e.symm⟩
    · exact hsel n p h

theorem ex_fold {S : List Pkg} (names : ∀ p ∈ S, ∀ q ∈ S, p.name = q.name → p = q) :
    ∀ (deps : List Pkg) (e : List (Text × Pkg)), (∀ d ∈ deps, d ∈ S) → (∀ p ∈ S, lookupT e p.name = some p) →
      ∀ p ∈ S, lookupT (deps.foldl (fun e d => setT e d.name d) e) p.name = some p := by
  intro deps
  induction deps with
  | nil => intro e _ he; exact he
  | cons d ds ih =>
    intro e hd he
    simp only [List.foldl_cons]
    apply ih _ (fun x hx => hd x (List.mem_cons_of_mem _ hx))
    intro p hp
    rw [lkp_setT]
    split
    · next hn => rw [names p hp d (hd d List.mem_cons_self) hn]
    · exact he p hp

theorem depLoop_succ {c : Cfg} {S : List Pkg} (ctx : Ctx c S) (sd : Side c S)
    (rec : Pkg → List (Text × Nat) → DepSt → Res DepOut)
    (hrec : ∀ best ps ds, best ∈ S → SInv c S ds → ResOK (GoodS c S) (rec best ps ds))
    (pkg : Pkg) (hpkg : pkg ∈ S) (allowPin : Text) (parents : List (Text × Nat)) :
    ∀ (fuel : Nat) (constraints : List Text) (acc : DepOut),
      (∀ d ∈ constraints, d ∈ pkg.deps) → GoodS c S acc →
      ResOK (GoodS c S) (depLoop c rec pkg allowPin parents fuel constraints acc) := by
  intro fuel
  induction fuel with
  | zero => intro constraints acc _ _; simp [depLoop, ResOK]
  | succ fuel ih =>
    intro constraints acc hcs hacc
    rw [depLoop]
    split
    · exact hacc
    · simp only
      obtain ⟨r, hpass⟩ := passFold_some c pkg allowPin acc.ds constraints ([], acc.conflicts, [])
        (fun d hd => depOption_not_fail ctx sd hpkg allowPin hacc.inv (hcs d hd))
      split
      · next hnone =>
        have : (some r : Option C02.PassSt) = none := hpass.symm.trans hnone
        cases this
      · next opts confs fl hfold =>
        have hfold2 : constraints.foldl (C02.passStep c pkg allowPin acc.ds) (some ([], acc.conflicts, [])) =
            some (opts, confs, fl) := hfold
        obtain ⟨_, hopts, _, _⟩ := C02.passFold_spec c pkg allowPin acc.ds constraints [] acc.conflicts [] opts confs fl hfold2
        have hinvfl : SInv c S { acc.ds with st := fl.foldl St.flag acc.ds.st } :=
          hacc.inv.congr (foldl_flag_dq _ _) (C02.foldl_flag_selected _ _) rfl
        split
        · exact ⟨hacc.deps, hinvfl⟩
        · next lowest pkgs hlow =>
          have hmem := hopts _ (lowestOption_mem _ _ hlow)
          rcases hmem with hmem | ⟨hlc, hopt⟩
          · cases hmem
          · simp only at hlc hopt
            obtain ⟨_, hnc, hpk⟩ := depOption_options c pkg allowPin acc.ds lowest lowest pkgs hopt
            obtain ⟨best, hbest⟩ := minFunc_ne_nil (cmp := comparePackages c.bothBad (parseConstraint lowest).name []
              acc.ds.existing acc.ds.origins) (depOption_options_ne hopt)
            simp only [hbest]
            have hbmem : best ∈ pkgs := C02.mem_of_minFunc hbest
            obtain ⟨q, hqS, hqn, _⟩ := closed_member ctx hpkg (hcs _ hlc) hnc
            rw [hpk] at hbmem
            have hbS : best ∈ S := candidate_member ctx hacc.inv.locked ⟨q, hqS, hqn⟩ hbmem
            rw [disqualifyConflicts_noprov c best _ (ctx.noprov best (ctx.sIn best hbS))]
            simp only
            obtain ⟨sel1, hpick, hsel1⟩ := pick_ok ctx sd hpkg hinvfl.sel
            simp only at hpick
            rw [hpick]
            simp only
            have hinv1 : SInv c S { acc.ds with st := { (fl.foldl St.flag acc.ds.st) with
                dq := (fl.foldl St.flag acc.ds.st).dq, selected := sel1 } } :=
              ⟨hinvfl.locked, hinvfl.free, hsel1, hinvfl.ex⟩
            have hr := hrec best (parents ++ [(pkg.name, pkg.id)]) _ hbS hinv1
            split
            · next heq => rw [heq] at hr; exact hr
            · trivial
            · next sub heq =>
              rw [heq] at hr
              apply ih
              · intro d hd
                have hd2 := (List.mem_filter.mp hd).1
                obtain ⟨e, he, rfl⟩ := List.mem_map.mp hd2
                rcases hopts e he with h | ⟨h, _⟩
                · cases h
                · exact hcs _ h
              · refine ⟨?_, ⟨hr.inv.locked, hr.inv.free, hr.inv.sel, ?_⟩⟩
                · intro d hd
                  simp only [List.mem_append, List.mem_singleton] at hd
                  rcases hd with (hd | hd) | rfl
                  · exact hacc.deps d hd
                  · exact hr.deps d hd
                  · exact hbS
                · exact ex_fold sd.names sub.deps sub.ds.existing hr.deps hr.inv.ex

theorem getDeps_succ {c : Cfg} {S : List Pkg} (ctx : Ctx c S) (sd : Side c S) :
    ∀ (fuel : Nat) (pkg : Pkg) (allowPin : Text) (parents : List (Text × Nat)) (ds : DepSt),
      pkg ∈ S → SInv c S ds → ResOK (GoodS c S) (getDeps c fuel pkg allowPin parents ds) := by
  intro fuel
  induction fuel with
  | zero => intro pkg allowPin parents ds _ _; simp [getDeps, ResOK]
  | succ fuel ih =>
    intro pkg allowPin parents ds hpkg inv
    rw [getDeps]
    split
    · refine ⟨(by intro d hd; cases hd), ?_⟩
      simp only
      split
      · exact inv.congr (flag_dq _ _) (flag_selected1 _ _) rfl
      · exact inv
    · obtain ⟨dq1, hcon, hfree⟩ := constrain_free ctx sd pkg.deps ds.st.dq (dep_conOK ctx sd hpkg) inv.free
      rw [hcon]
      simp only
      refine depLoop_succ ctx sd _ (fun best ps ds2 hb hi => ih best allowPin ps ds2 hb hi) pkg hpkg allowPin parents
        _ _ _ (fun d hd => hd) ⟨(by intro d hd; cases hd), ?_⟩
      exact ⟨inv.locked.mono (constrain_sub c _ _ _ hcon), hfree, inv.sel, inv.ex⟩

end Apko.Lock
