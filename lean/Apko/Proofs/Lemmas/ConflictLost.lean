import Apko.Proofs.Lemmas.ConflictSort
/-! C07 / F07a: what `sortTarHeaders` keeps and what it loses, for every input.

`sortTarHeaders` starts from the keys of `directoryChildren` whose `Dir` is "." (names that HAVE a
child in the list) and descends only through names whose header is a directory.  `Reach hs n` is that
walk; the output is exactly the headers of the reached names.  Everything else is lost: a top-level name
without children (a top-level file, an empty top-level directory) and every name whose parent has no
directory header in the list. -/
namespace Apko.C07
open Apko Apko.Formats

/-- the keys of `directoryChildren`: the `Dir` of some cleaned header name -/
def dirKeys (hs : List FileRec) : List Text := hs.map fun h => pathDir (pathClean h.name)

/-- the names `sortTarHeaders` visits -/
inductive Reach (hs : List FileRec) : Text → Prop
  | top {n : Text} : pathDir n = ['.'] → n ∈ dirKeys hs → Reach hs n
  | step {d n : Text} {h : FileRec} : Reach hs d → lookupHeader hs d = some h → h.isDir = true →
      n ∈ childrenOf hs d → Reach hs n

theorem mem_dedupTexts {a : Text} : ∀ {l : List Text}, a ∈ dedupTexts l ↔ a ∈ l := by
  intro l
  induction l with
  | nil => simp [dedupTexts]
  | cons b t ih =>
    simp only [dedupTexts, List.mem_cons, List.mem_filter, ih, bne_iff_ne, ne_eq]
    constructor
    · rintro (h | ⟨h, _⟩)
      · exact Or.inl h
      · exact Or.inr h
    · intro h
      by_cases hab : a = b
      · exact Or.inl hab
      · rcases h with h | h
        · exact Or.inl h
        · exact Or.inr ⟨h, hab⟩

/-! ### soundness: everything in the output is the header of a reached name -/

theorem go_sound (hs : List FileRec) (fuel : Nat)
    (A : ∀ children out, (∀ n ∈ children, Reach hs n) → sortChildren hs fuel children = some out →
      ∀ f ∈ out, ∃ n, Reach hs n ∧ lookupHeader hs n = some f) :
    ∀ dirs out, (∀ e ∈ dirs, Reach hs e.1 ∧ lookupHeader hs e.1 = some e.2 ∧ e.2.isDir = true) →
      sortChildren.go hs fuel dirs = some out → ∀ f ∈ out, ∃ n, Reach hs n ∧ lookupHeader hs n = some f := by
  intro dirs
  induction dirs with
  | nil =>
    intro out _ h f hf
    rw [sortChildren.go.eq_1] at h
    cases h; cases hf
  | cons e rest ih =>
    obtain ⟨n, h⟩ := e
    intro out hd hgo f hf
    rw [sortChildren.go.eq_2] at hgo
    obtain ⟨hr, hl, hdir⟩ := hd (n, h) (by simp)
    cases hsub : sortChildren hs fuel (childrenOf hs n) with
    | none => simp [hsub] at hgo
    | some sub =>
      cases htl : sortChildren.go hs fuel rest with
      | none => simp [hsub, htl] at hgo
      | some tl =>
        simp only [hsub, htl, Option.some.injEq] at hgo
        subst hgo
        simp only [List.cons_append, List.mem_cons, List.mem_append] at hf
        rcases hf with hf | hf | hf
        · subst hf; exact ⟨n, hr, hl⟩
        · exact A _ sub (fun m hm => Reach.step hr hl hdir hm) hsub f hf
        · exact ih tl (fun e he => hd e (by simp [he])) htl f hf

theorem sortChildren_sound (hs : List FileRec) :
    ∀ fuel children out, (∀ n ∈ children, Reach hs n) → sortChildren hs fuel children = some out →
      ∀ f ∈ out, ∃ n, Reach hs n ∧ lookupHeader hs n = some f := by
  intro fuel
  induction fuel with
  | zero => intro children out _ h; rw [sortChildren.eq_1] at h; cases h
  | succ fuel ih =>
    intro children out hc h f hf
    rw [sortChildren.eq_2] at h
    obtain ⟨x, hgo, hx⟩ := Option.map_eq_some_iff.1 h
    subst hx
    rcases List.mem_append.1 hf with hf | hf
    · obtain ⟨hf1, _⟩ := List.mem_filter.1 hf
      obtain ⟨n, hn, hl⟩ := List.mem_filterMap.1 hf1
      exact ⟨n, hc n (mem_sortTexts.1 hn), hl⟩
    · refine go_sound hs fuel ih _ x ?_ hgo f hf
      intro e he
      obtain ⟨n, hn, hl⟩ := List.mem_filterMap.1 he
      cases hlk : lookupHeader hs n with
      | none => simp [hlk] at hl
      | some h =>
        by_cases hd : h.isDir = true
        · simp only [hlk, hd, if_true, Option.some.injEq] at hl
          subst hl
          exact ⟨hc n (mem_sortTexts.1 hn), hlk, hd⟩
        · simp [hlk, hd] at hl

/-! ### completeness: the header of every reached name is in the output -/

theorem go_complete (hs : List FileRec) (fuel : Nat) :
    ∀ dirs out, sortChildren.go hs fuel dirs = some out → ∀ p ∈ dirs,
      p.2 ∈ out ∧ ∃ sub, sortChildren hs fuel (childrenOf hs p.1) = some sub ∧ ∀ f ∈ sub, f ∈ out := by
  intro dirs
  induction dirs with
  | nil => intro out _ p hp; cases hp
  | cons e rest ih =>
    obtain ⟨n, h⟩ := e
    intro out hgo p hp
    rw [sortChildren.go.eq_2] at hgo
    cases hsub : sortChildren hs fuel (childrenOf hs n) with
    | none => simp [hsub] at hgo
    | some sub =>
      cases htl : sortChildren.go hs fuel rest with
      | none => simp [hsub, htl] at hgo
      | some tl =>
        simp only [hsub, htl, Option.some.injEq] at hgo
        subst hgo
        rcases List.mem_cons.1 hp with hp | hp
        · subst hp
          exact ⟨by simp, sub, hsub, fun f hf => by simp [hf]⟩
        · obtain ⟨h1, s2, h2, h3⟩ := ih tl htl p hp
          exact ⟨by simp [h1], s2, h2, fun f hf => by simp [h3 f hf]⟩

/-- one call: the header of every child is emitted, and every directory child gets a recursive call
whose output is part of this one -/
theorem sortChildren_complete (hs : List FileRec) (fuel : Nat) (children : List Text) (out : List FileRec)
    (h : sortChildren hs fuel children = some out) :
    (∀ n ∈ children, ∀ f, lookupHeader hs n = some f → f ∈ out) ∧
    (∀ n ∈ children, ∀ d, lookupHeader hs n = some d → d.isDir = true →
      ∃ fuel2 sub, sortChildren hs fuel2 (childrenOf hs n) = some sub ∧ ∀ f ∈ sub, f ∈ out) := by
  cases fuel with
  | zero => rw [sortChildren.eq_1] at h; cases h
  | succ fuel =>
    rw [sortChildren.eq_2] at h
    obtain ⟨x, hgo, hx⟩ := Option.map_eq_some_iff.1 h
    subst hx
    have key : ∀ n ∈ children, ∀ d, lookupHeader hs n = some d → d.isDir = true →
        d ∈ x ∧ ∃ sub, sortChildren hs fuel (childrenOf hs n) = some sub ∧ ∀ f ∈ sub, f ∈ x := by
      intro n hn d hl hd
      refine go_complete hs fuel _ x hgo (n, d) ?_
      refine List.mem_filterMap.2 ⟨n, mem_sortTexts.2 hn, ?_⟩
      simp [hl, hd]
    refine ⟨?_, ?_⟩
    · intro n hn f hl
      by_cases hd : f.isDir = true
      · exact List.mem_append_right _ (key n hn f hl hd).1
      · refine List.mem_append_left _ (List.mem_filter.2 ⟨List.mem_filterMap.2 ⟨n, mem_sortTexts.2 hn, hl⟩, ?_⟩)
        simpa using hd
    · intro n hn d hl hd
      obtain ⟨_, sub, h1, h2⟩ := key n hn d hl hd
      exact ⟨fuel, sub, h1, fun f hf => List.mem_append_right _ (h2 f hf)⟩

/-- a name some call of the walk has among its children, the call's output being part of `out` -/
def Visited (hs : List FileRec) (out : List FileRec) (n : Text) : Prop :=
  ∃ fuel children o, sortChildren hs fuel children = some o ∧ n ∈ children ∧ ∀ f ∈ o, f ∈ out

theorem reach_visited (hs out : List FileRec) (h : sortHeaders hs = some out) (n : Text) (hr : Reach hs n) :
    Visited hs out n := by
  induction hr with
  | top hd hk =>
    unfold sortHeaders at h
    refine ⟨_, _, out, h, ?_, fun f hf => hf⟩
    exact mem_sortTexts.2 (List.mem_filter.2 ⟨mem_dedupTexts.2 hk, by simpa using hd⟩)
  | step _ hl hdir hn ih =>
    obtain ⟨fuel, children, o, ho, hm, hsub⟩ := ih
    obtain ⟨fuel2, sub, h1, h2⟩ := (sortChildren_complete hs fuel children o ho).2 _ hm _ hl hdir
    exact ⟨fuel2, _, sub, h1, hn, fun f hf => hsub f (h2 f hf)⟩

/-- **sortTarHeaders_keeps_exactly**: for every header list, the output of `sortTarHeaders` consists of
exactly the headers of the names the walk reaches (`lookupHeader`: the last header of that cleaned name) -/
theorem sortHeaders_mem_iff (hs out : List FileRec) (h : sortHeaders hs = some out) (f : FileRec) :
    f ∈ out ↔ ∃ n, Reach hs n ∧ lookupHeader hs n = some f := by
  constructor
  · intro hf
    have h0 := h
    unfold sortHeaders at h
    refine sortChildren_sound hs _ _ out ?_ h f hf
    intro n hn
    obtain ⟨h1, h2⟩ := List.mem_filter.1 (mem_sortTexts.1 hn)
    exact Reach.top (by simpa using h2) (mem_dedupTexts.1 h1)
  · rintro ⟨n, hr, hl⟩
    obtain ⟨fuel, children, o, ho, hm, hsub⟩ := reach_visited hs out h n hr
    exact hsub f ((sortChildren_complete hs fuel children o ho).1 n hm f hl)

/-! ### the lost set -/

theorem reach_cases {hs : List FileRec} {n : Text} (hr : Reach hs n) :
    (pathDir n = ['.'] ∧ n ∈ dirKeys hs) ∨
    (∃ h, lookupHeader hs (pathDir n) = some h ∧ h.isDir = true ∧ Reach hs (pathDir n)) := by
  cases hr with
  | top hd hk => exact Or.inl ⟨hd, hk⟩
  | step hr hl hdir hn => rw [mem_childrenOf hn]; exact Or.inr ⟨_, hl, hdir, hr⟩

/-- F07a, first form: a top-level name that is nobody's directory (a top-level regular file, an empty
top-level directory) is never in the output.  (`hdot`: no header cleans to "." — Go skips such names.) -/
theorem toplevel_leaf_lost (hs out : List FileRec) (h : sortHeaders hs = some out) (f : FileRec)
    (hdot : lookupHeader hs ['.'] = none)
    (htop : pathDir (pathClean f.name) = ['.']) (hleaf : pathClean f.name ∉ dirKeys hs) : f ∉ out := by
  intro hf
  obtain ⟨n, hr, hl⟩ := (sortHeaders_mem_iff hs out h f).1 hf
  have hn := lookupHeader_name hl
  subst hn
  rcases reach_cases hr with ⟨_, hk⟩ | ⟨d, hld, _, _⟩
  · exact hleaf hk
  · rw [htop, hdot] at hld; cases hld

/-- F07a, second form: a name below the top level whose parent has no directory header in the list is
never in the output (and so is everything below it) -/
theorem orphan_lost (hs out : List FileRec) (h : sortHeaders hs = some out) (f : FileRec)
    (hsub : pathDir (pathClean f.name) ≠ ['.'])
    (horph : ∀ d, lookupHeader hs (pathDir (pathClean f.name)) = some d → d.isDir = false) : f ∉ out := by
  intro hf
  obtain ⟨n, hr, hl⟩ := (sortHeaders_mem_iff hs out h f).1 hf
  have hn := lookupHeader_name hl
  subst hn
  rcases reach_cases hr with ⟨ht, _⟩ | ⟨d, hld, hdir, _⟩
  · exact hsub ht
  · rw [horph d hld] at hdir; cases hdir

/-- …and a name whose parent is lost is lost -/
theorem lost_parent_lost (hs out : List FileRec) (h : sortHeaders hs = some out) (f : FileRec)
    (hsub : pathDir (pathClean f.name) ≠ ['.'])
    (hpar : ∀ d, lookupHeader hs (pathDir (pathClean f.name)) = some d → d ∉ out) : f ∉ out := by
  intro hf
  obtain ⟨n, hr, hl⟩ := (sortHeaders_mem_iff hs out h f).1 hf
  have hn := lookupHeader_name hl
  subst hn
  rcases reach_cases hr with ⟨ht, _⟩ | ⟨d, hld, _, hrd⟩
  · exact hsub ht
  · exact hpar d hld ((sortHeaders_mem_iff hs out h d).2 ⟨_, hrd, hld⟩)

/-- the side condition under which nothing is lost: the header of a name is kept as soon as its parent's
header is a directory that is kept, or the name is a top-level name that has a child -/
theorem kept_of_parent_kept (hs out : List FileRec) (h : sortHeaders hs = some out) (f d : FileRec)
    (hf : lookupHeader hs (pathClean f.name) = some f)
    (hd : lookupHeader hs (pathDir (pathClean f.name)) = some d) (hdir : d.isDir = true) (hdo : d ∈ out)
    (hmem : f ∈ hs) : f ∈ out := by
  obtain ⟨n, hr, hl⟩ := (sortHeaders_mem_iff hs out h d).1 hdo
  have hn := lookupHeader_name hl
  have hn2 := lookupHeader_name hd
  refine (sortHeaders_mem_iff hs out h f).2 ⟨_, Reach.step (hn2 ▸ hn ▸ hr) hd hdir ?_, hf⟩
  unfold childrenOf
  exact List.mem_filter.2 ⟨List.mem_map.2 ⟨f, hmem, rfl⟩, by simp⟩

theorem kept_of_toplevel_parent (hs out : List FileRec) (h : sortHeaders hs = some out) (f : FileRec)
    (hf : lookupHeader hs (pathClean f.name) = some f)
    (htop : pathDir (pathClean f.name) = ['.']) (hchild : pathClean f.name ∈ dirKeys hs) : f ∈ out :=
  (sortHeaders_mem_iff hs out h f).2 ⟨_, Reach.top htop hchild, hf⟩

end Apko.C07
