/-
C11 — what remains of "one element per installed apk" when embedded SBOMs replace the apko-generated
elements (the inputs of class F11c): every installed apk still has an element *named* after it.

Hypotheses: at most one target element per embedded SBOM (¬F11d) and `nameById`: among all the elements that
can enter the document (header, apko-generated, embedded) two elements with the same identifier have the same
name.  Then neither a replace round nor the de-dup pass can take away the last element of a name.
-/
import Apko.Proofs.Lemmas.SbomVerdict

namespace Apko.Sbom
open Apko

/-- everything that can enter the document -/
def allPkgs (o : Opts) (fs : SbomDir) : List Pkg :=
  (header o).packages ++ o.apks.map (apkPackage (nonceOf o.imageDigest)) ++ embeddedPkgs fs

/-- two candidate elements with the same identifier have the same name -/
def nameById (o : Opts) (fs : SbomDir) : Bool :=
  (allPkgs o fs).all fun p => (allPkgs o fs).all fun q => p.id ≠ q.id || p.name = q.name

theorem nameById_iff {o : Opts} {fs : SbomDir} : nameById o fs = true ↔
    ∀ p ∈ allPkgs o fs, ∀ q ∈ allPkgs o fs, p.id = q.id → p.name = q.name := by
  simp only [nameById, List.all_eq_true, Bool.or_eq_true, decide_eq_true_eq]
  constructor
  · intro h p hp q hq e
    rcases h p hp q hq with h | h
    · exact absurd e h
    · exact h
  · intro h p hp q hq
    by_cases e : p.id = q.id
    · exact Or.inr (h p hp q hq e)
    · exact Or.inl e

/-! ### target elements are elements of the embedded document named like the apk -/

theorem insertNew_mem {t : List Id} {x i : Id} (h : i ∈ insertNew t x) : i ∈ t ∨ i = x := by
  unfold insertNew at h
  split at h
  · exact Or.inl h
  · simpa using h

theorem targetsLoop_mem {name : Text} {descr : List Id} {n : Nat} (ps : List Pkg) (acc : List Id) {t : Id}
    (h : t ∈ targetsLoop name descr n ps acc) : t ∈ acc ∨ ∃ p ∈ ps, p.id = t ∧ p.name = name := by
  induction ps generalizing acc with
  | nil => exact Or.inl h
  | cons p ps ih =>
    have lift : (t ∈ acc ∨ ∃ q ∈ ps, q.id = t ∧ q.name = name) →
        (t ∈ acc ∨ ∃ q ∈ p :: ps, q.id = t ∧ q.name = name) := by
      rintro (h | ⟨q, hq, h⟩)
      · exact Or.inl h
      · exact Or.inr ⟨q, by simp [hq], h⟩
    simp only [targetsLoop] at h
    split at h
    · exact lift (ih acc h)
    · next hn =>
      have hn' : p.name = name := by simpa using hn
      split at h
      · exact lift (ih acc h)
      · have here : t ∈ insertNew acc p.id → (t ∈ acc ∨ ∃ q ∈ p :: ps, q.id = t ∧ q.name = name) := by
          intro hm
          rcases insertNew_mem hm with hm | hm
          · exact Or.inl hm
          · exact Or.inr ⟨p, by simp, hm.symm, hn'⟩
        split at h
        · exact here h
        · rcases ih _ h with h | ⟨q, hq, h⟩
          · exact here h
          · exact Or.inr ⟨q, by simp [hq], h⟩

theorem targets_mem {emb : Doc} {name : Text} {t : Id} (h : t ∈ targets emb name) :
    ∃ p ∈ emb.packages, p.id = t ∧ p.name = name := by
  rcases targetsLoop_mem _ _ h with h | h
  · cases h
  · exact h

/-! ### the invariant -/

/-- all elements are candidates, and every name of `ns` is the name of an element -/
structure Named (o : Opts) (fs : SbomDir) (ns : List Text) (d : Doc) : Prop where
  sub : ∀ p ∈ d.packages, p ∈ allPkgs o fs
  has : ∀ n ∈ ns, ∃ p ∈ d.packages, p.name = n

theorem replaceRound_named {o : Opts} {fs : SbomDir} {ns : List Text} {name : Text} {d : Doc} {t : Id}
    (hj : nameById o fs = true) (h : Named o fs ns d)
    (ht : ∃ pt ∈ d.packages, pt.id = t ∧ pt.name = name) :
    Named o fs ns (replaceRound name d t) ∧ ∃ pt ∈ (replaceRound name d t).packages, pt.id = t ∧ pt.name = name := by
  unfold replaceRound
  split
  · next q hq =>
    have hqm : q ∈ d.packages := List.mem_of_find?_eq_some hq
    have hqn : q.name = name := by simpa using List.find?_some hq
    unfold replacePackage
    split
    · exact ⟨h, ht⟩
    · next hne =>
      obtain ⟨pt, hpt, hpi, hpn⟩ := ht
      have hptk : pt ∈ d.packages.filter (fun p => p.id ≠ q.id) := by
        simp only [List.mem_filter, decide_eq_true_eq]
        exact ⟨hpt, fun e => hne (by rw [← e, hpi])⟩
      have hkne : (d.packages.filter (fun p => p.id ≠ q.id)).isEmpty = false := by
        cases hk : d.packages.filter (fun p => p.id ≠ q.id) with
        | nil => rw [hk] at hptk; cases hptk
        | cons _ _ => rfl
      have hpk : (replaceBody d q.id t).packages = d.packages.filter (fun p => p.id ≠ q.id) := by
        simp only [replaceBody, hkne, Bool.false_eq_true, if_false]
      refine ⟨⟨?_, ?_⟩, ⟨pt, hpk ▸ hptk, hpi, hpn⟩⟩
      · intro p hp
        exact h.sub p (replaceBody_packages_sub hp)
      · intro n hn
        obtain ⟨p, hp, hpn'⟩ := h.has n hn
        by_cases e : p.id = q.id
        · have : p.name = q.name := nameById_iff.mp hj p (h.sub p hp) q (h.sub q hqm) e
          exact ⟨pt, hpk ▸ hptk, by rw [hpn, ← hqn, ← this, hpn']⟩
        · refine ⟨p, ?_, hpn'⟩
          rw [hpk]
          simp only [List.mem_filter, decide_eq_true_eq]
          exact ⟨hp, e⟩
  · exact ⟨h, ht⟩

theorem foldl_replaceRound_named {o : Opts} {fs : SbomDir} {ns : List Text} {name : Text} {t : Id}
    (hj : nameById o fs = true) (l : List Id) (hl : ∀ x ∈ l, x = t) {d : Doc} (h : Named o fs ns d)
    (ht : ∃ pt ∈ d.packages, pt.id = t ∧ pt.name = name) : Named o fs ns (l.foldl (replaceRound name) d) := by
  induction l generalizing d with
  | nil => exact h
  | cons x xs ih =>
    have hx : x = t := hl x (by simp)
    subst hx
    have := replaceRound_named hj h ht
    exact ih (fun y hy => hl y (by simp [hy])) this.1 this.2

theorem processInternal_named {o : Opts} {fs : SbomDir} {ord : List Id → List Id} {ns : List Text}
    {doc d : Doc} {name version : Text} (hord : OrdOk ord) (hj : nameById o fs = true)
    (hone : ∀ emb, locate fs (sbomStems name version) = .ok (some (.doc emb)) → (targets emb name).length ≤ 1)
    (h : Named o fs ns doc) (hp : processInternal fs ord doc name version = .ok d) : Named o fs ns d := by
  unfold processInternal at hp
  split at hp
  · cases hp
  · cases hp; exact h
  · cases hp; exact h
  · cases hp; exact h
  · next emb hloc =>
    dsimp only at hp
    split at hp
    · cases hp
    · next doc1 hcp =>
      split at hp
      · cases hp
      · next lics hl =>
        cases hp
        obtain ⟨todo, _, hsub, _, hpk, _, _, _⟩ := copyElements_spec hcp
        have h1 : Named o fs ns { doc1 with lics := lics } := by
          refine ⟨?_, ?_⟩
          · intro p hp'
            have : p ∈ doc1.packages := hp'
            rw [hpk] at this
            rcases List.mem_append.mp this with hp'' | hp''
            · exact h.sub p hp''
            · exact List.mem_append_right _ (locate_doc_pkgs hloc p (List.mem_filter.mp hp'').1)
          · intro n hn
            obtain ⟨p, hp', hpn⟩ := h.has n hn
            refine ⟨p, ?_, hpn⟩
            show p ∈ doc1.packages
            rw [hpk]; exact List.mem_append_left _ hp'
        obtain ⟨t, ht⟩ := targets_le_one_all_eq (hone emb hloc)
        by_cases hem : ord (targets emb name) = []
        · rw [hem]; exact h1
        · obtain ⟨x, hx⟩ := List.exists_mem_of_ne_nil _ hem
          have hxt : x ∈ targets emb name := hord _ _ hx
          have hxe : x = t := ht x hxt
          subst hxe
          obtain ⟨pt, hpt, hpi, hpn⟩ := targets_mem hxt
          refine foldl_replaceRound_named hj _ (fun y hy => ht y (hord _ _ hy)) h1 ⟨pt, ?_, hpi, hpn⟩
          show pt ∈ doc1.packages
          rw [hpk]
          refine List.mem_append_right _ (List.mem_filter.mpr ⟨hpt, ?_⟩)
          have := hsub x hxt
          simpa [hpi] using this

theorem addApks_named {o : Opts} {fs : SbomDir} {ord : List Id → List Id} (hord : OrdOk ord)
    (hj : nameById o fs = true) (apks : List Apk) (hsub : ∀ a ∈ apks, a ∈ o.apks)
    (hone : ∀ a ∈ apks, targetCount fs a ≤ 1) {ns : List Text} {doc d : Doc} (h : Named o fs ns doc)
    (hp : addApks fs ord (nonceOf o.imageDigest) apks doc = .ok d) :
    Named o fs (apks.reverse.map (·.name) ++ ns) d := by
  induction apks generalizing doc ns with
  | nil => simp only [addApks] at hp; cases hp; simpa using h
  | cons a as ih =>
    simp only [addApks] at hp
    split at hp
    · cases hp
    · next doc' ha =>
      unfold addApk at ha
      have h0 : Named o fs (a.name :: ns) { doc with packages := doc.packages ++ [apkPackage (nonceOf o.imageDigest) a] } := by
        refine ⟨?_, ?_⟩
        · intro p hp'
          rcases List.mem_append.mp hp' with hp' | hp'
          · exact h.sub p hp'
          · simp only [List.mem_singleton] at hp'
            subst hp'
            exact List.mem_append_left _ (List.mem_append_right _ (List.mem_map_of_mem (hsub a (by simp))))
        · intro n hn
          rcases List.mem_cons.mp hn with rfl | hn
          · exact ⟨apkPackage (nonceOf o.imageDigest) a, List.mem_append_right _ (by simp), rfl⟩
          · obtain ⟨p, hp', hpn⟩ := h.has n hn
            exact ⟨p, List.mem_append_left _ hp', hpn⟩
      have h1 := processInternal_named hord hj (targetCount_le (hone a (by simp))) h0 ha
      have := ih (fun b hb => hsub b (by simp [hb])) (fun b hb => hone b (by simp [hb])) h1 hp
      simpa [List.append_assoc] using this

/-- every installed apk has an element named after it -/
theorem generate_named {o : Opts} {fs : SbomDir} {ord : List Id → List Id} {d : Doc} (hord : OrdOk ord)
    (hone : multiTarget o fs = false) (hj : nameById o fs = true) (h : generate o fs ord = .ok d) :
    ∀ a ∈ o.apks, ∃ p ∈ d.packages, p.name = a.name := by
  unfold generate at h
  split at h
  · cases h
  · split at h
    · cases h
    · next doc ha =>
      cases h
      have h0 : Named o fs [] (header o) :=
        ⟨fun p hp => List.mem_append_left _ (List.mem_append_left _ hp), fun n hn => by cases hn⟩
      have hN := addApks_named hord hj _ (fun _ h => h) (multiTarget_false.mp hone) h0 ha
      intro a ha'
      obtain ⟨p, hp, hpn⟩ := hN.has a.name (by
        simp only [List.append_nil, List.map_reverse, List.mem_reverse, List.mem_map]
        exact ⟨a, ha', rfl⟩)
      have hpi : p.id ∈ (dedup doc.packages).map (·.id) :=
        (dedup_ids _ _).mpr (List.mem_map_of_mem (f := fun x : Pkg => x.id) hp)
      obtain ⟨p', hp', hpi'⟩ := List.mem_map.mp hpi
      refine ⟨p', hp', ?_⟩
      rw [← hpn]
      exact nameById_iff.mp hj p' (hN.sub p' (dedup_mem hp')) p (hN.sub p hp) hpi'

end Apko.Sbom
