import Apko.Model.Accounts
import Apko.Proofs.Lemmas.FSShape
import Apko.Proofs.Lemmas.FSInvStep
/-! helper lemmas for C13 -/
namespace Apko.Accounts
open Apko Apko.Path Apko.FS Apko.Formats

end Apko.Accounts
