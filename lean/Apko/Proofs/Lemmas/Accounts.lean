import Apko.Model.Accounts
import Apko.Proofs.Lemmas.FSShape
import Apko.Proofs.Lemmas.FSInvStep
/-! helper lemmas for C13 -/
namespace Apko.Accounts
open Apko Apko.Path Apko.FS Apko.Formats

/-! ### sequencing -/

theorem seqM_cons {α ε : Type} (f : FS → α → FS × Option ε) (fs : FS) (a : α) (l : List α) :
    seqM f fs (a :: l) = andThen (f fs a) fun fs1 => seqM f fs1 l := by
  simp only [seqM, andThen]

theorem seqM_append {α ε : Type} (f : FS → α → FS × Option ε) (fs : FS) (l1 l2 : List α) :
    seqM f fs (l1 ++ l2) = andThen (seqM f fs l1) fun fs1 => seqM f fs1 l2 := by
  induction l1 generalizing fs with
  | nil => simp [seqM, andThen]
  | cons a rest ih =>
    rw [List.cons_append, seqM_cons, seqM_cons]
    rcases f fs a with ⟨fs1, _ | e⟩
    · simpa [andThen] using ih fs1
    · simp [andThen]

theorem andThen_ok {ε : Type} {r : FS × Option ε} {k : FS → FS × Option ε} {fs' : FS}
    (h : andThen r k = (fs', none)) : ∃ fs1, r = (fs1, none) ∧ k fs1 = (fs', none) := by
  rcases r with ⟨fs1, _ | e⟩
  · exact ⟨fs1, rfl, h⟩
  · simp [andThen] at h

theorem liftE_ok {r : FS × Option Err} {fs' : FS} (h : liftE r = (fs', none)) : r = (fs', none) := by
  rcases r with ⟨fs1, _ | e⟩
  · simpa [liftE] using h
  · simp [liftE] at h

/-- a successful `act` is a successful `step` -/
theorem act_ok {c : Cfg} {fs fs' : FS} {op : Op} (h : act c fs op = (fs', none)) :
    (step c fs op).1 = fs' ∧ ∀ e, (step c fs op).2 ≠ .err e := by
  simp only [act, Prod.mk.injEq] at h
  refine ⟨h.1, ?_⟩
  intro e he
  rw [he] at h
  simp [errOf] at h

/-! ### `Chmod` / `Chown` -/

theorem chmod_ok {c : Cfg} {fs fs' : FS} {p : Text} {perm : Nat} (h : act c fs (.chmod p perm) = (fs', none)) :
    ∃ i, getNode c fs p = .ok i ∧ fs' = fs.modify i fun n => { n with mode := typeKeep n.mode perm } := by
  simp only [act, step] at h
  cases hg : getNode c fs p with
  | error e => simp [hg, errOf] at h
  | ok i => simp only [hg, Prod.mk.injEq] at h; exact ⟨i, rfl, h.1.symm⟩

theorem chown_ok {c : Cfg} {fs fs' : FS} {p : Text} {uid gid : Int} (h : act c fs (.chown p uid gid) = (fs', none)) :
    ∃ i, getNode c fs p = .ok i ∧ fs' = fs.modify i fun n => { n with uid := uid, gid := gid } := by
  simp only [act, step] at h
  cases hg : getNode c fs p with
  | error e => simp [hg, errOf] at h
  | ok i => simp only [hg, Prod.mk.injEq] at h; exact ⟨i, rfl, h.1.symm⟩

/-! ### permission bits -/


theorem permMode_bit27 (perms : Nat) : (permMode perms).testBit 27 = false := by
  simp only [permMode, unixToFileMode, Nat.testBit_or, Nat.testBit_and]
  have h1 : (0o777 : Nat).testBit 27 = false := by decide
  have h2 : modeSetuid.testBit 27 = false := by decide
  have h3 : modeSetgid.testBit 27 = false := by decide
  have h4 : modeSticky.testBit 27 = false := by decide
  split <;> split <;> split <;> simp [h1, h2, h3, h4]



theorem testBit_ite_pow (b : Bool) (k i : Nat) : (if b then 2 ^ k else 0).testBit i = (b && decide (k = i)) := by
  cases b <;> simp [Nat.testBit_two_pow]

theorem unixPerm_testBit (m i : Nat) :
    (unixPerm m).testBit i =
      ((m.testBit i && decide (i < 9)) || (m.testBit 23 && decide (i = 11)) || (m.testBit 22 && decide (i = 10)) ||
        (m.testBit 20 && decide (i = 9))) := by
  have e1 : (0o777 : Nat) = 2 ^ 9 - 1 := by decide
  have e2 : (0o4000 : Nat) = 2 ^ 11 := by decide
  have e3 : (0o2000 : Nat) = 2 ^ 10 := by decide
  have e4 : (0o1000 : Nat) = 2 ^ 9 := by decide
  simp only [unixPerm, e1, e2, e3, e4, Nat.testBit_or, Nat.testBit_and, Nat.testBit_two_pow_sub_one, testBit_ite_pow]
  simp [eq_comm]

theorem unixToFileMode_testBit (p i : Nat) :
    (unixToFileMode p).testBit i =
      ((p.testBit i && decide (i < 9)) || (p.testBit 11 && decide (i = 23)) || (p.testBit 10 && decide (i = 22)) ||
        (p.testBit 9 && decide (i = 20))) := by
  have e1 : (0o777 : Nat) = 2 ^ 9 - 1 := by decide
  simp only [unixToFileMode, modeSetuid, modeSetgid, modeSticky, e1, Nat.testBit_or, Nat.testBit_and,
    Nat.testBit_two_pow_sub_one, testBit_ite_pow]
  simp [eq_comm]

theorem modeType_low (i : Nat) (h : i < 9 ∨ i = 20 ∨ i = 22 ∨ i = 23) : modeType.testBit i = false := by
  rcases h with h | h | h | h
  · have : i = 0 ∨ i = 1 ∨ i = 2 ∨ i = 3 ∨ i = 4 ∨ i = 5 ∨ i = 6 ∨ i = 7 ∨ i = 8 := by omega
    rcases this with h | h | h | h | h | h | h | h | h <;> subst h <;> decide
  all_goals subst h; decide

/-- **F13b repaired**: whatever the node's mode was, after `Chmod(path, permissionsToFileMode(perms))`
the Unix permission bits the layer will carry are exactly the declared ones (set-id and sticky
included) -/
theorem unixPerm_permMode (old perms : Nat) : unixPerm (typeKeep old (permMode perms)) = wantPerm perms := by
  apply Nat.eq_of_testBit_eq
  intro i
  have e : (0o7777 : Nat) = 2 ^ 12 - 1 := by decide
  rw [unixPerm_testBit, wantPerm, e, Nat.testBit_and, Nat.testBit_two_pow_sub_one]
  simp only [typeKeep, permMode, Nat.testBit_or, Nat.testBit_and, unixToFileMode_testBit,
    modeType_low 23 (by omega), modeType_low 22 (by omega), modeType_low 20 (by omega)]
  by_cases h9 : i < 9
  · have a1 : (i = 23) = False := by simp; omega
    have a2 : (i = 22) = False := by simp; omega
    have a3 : (i = 20) = False := by simp; omega
    have a4 : (i = 11) = False := by simp; omega
    have a5 : (i = 10) = False := by simp; omega
    have a6 : (i = 9) = False := by simp; omega
    have a7 : (i < 12) = True := by simp; omega
    simp [h9, modeType_low i (Or.inl h9), a1, a2, a3, a4, a5, a6, a7]
  · by_cases h11 : i = 11
    · subst h11; simp
    · by_cases h10 : i = 10
      · subst h10; simp
      · by_cases h99 : i = 9
        · subst h99; simp
        · have a7 : (i < 12) = False := by simp; omega
          simp [h9, h11, h10, h99, a7]



/-! ### the invariant of the node graph is kept by everything the mutators do -/

/-- `inv_step` of C17 without the `DirBit` side condition, for every operation but `Mkdir` -/
theorem inv_step' (c : Cfg) (fs : FS) (op : Op) (hi : Inv fs) (hm : ∀ p m, op ≠ .mkdir p m) :
    Inv (step c fs op).1 := by
  cases op with
  | mkdir p perm => exact absurd rfl (hm p perm)
  | mkdirAll p perm => exact mkdirAll_inv c fs p perm hi
  | openFile p flag perm =>
    simp only [step]
    have := openCore_inv c fs p flag perm hi
    split <;> (rename_i heq; simp only [heq] at this; exact handles_irrelevant _ this)
  | create p =>
    simp only [step]
    have := openCore_inv c fs p flagsWriteFile 0o666 hi
    split <;> (rename_i heq; simp only [heq] at this; exact handles_irrelevant _ this)
  | readFile p =>
    simp only [step]
    have := openCore_inv c fs p 0 0o644 hi
    split <;> (rename_i heq; simp only [heq] at this; exact this)
  | writeFile p data perm =>
    simp only [step]
    have := openCore_inv c fs p flagsWriteFile perm hi
    split
    · rename_i heq; simp only [heq] at this; exact this
    · rename_i heq; simp only [heq] at this; exact Inv.setNode_meta this _ _ rfl rfl
  | setXattr p a d => exact setXattr_inv c fs p a d hi
  | link o n => exact linkOp_inv c fs o n false hi
  | writeHeader h => exact writeHeaderOp_inv c fs h hi
  | _ =>
    simp only [step]
    repeat' split
    all_goals (try exact hi)
    all_goals (try exact handles_irrelevant _ hi)
    all_goals (try exact Inv.create hi _ _ _ (by simp_all) rfl)
    all_goals (try (simp only []; apply Inv.modify_meta hi <;> (intro n; rfl)))
    all_goals (try exact handles_irrelevant _ (Inv.setNode_meta hi _ _ rfl rfl))
    all_goals (try exact Inv.unlink (Inv.modify_meta hi _ _ (by intro n; rfl) (by intro n; rfl)) _ _)

theorem inv_act (c : Cfg) (fs : FS) (op : Op) (hi : Inv fs) (hm : ∀ p m, op ≠ .mkdir p m) :
    Inv (act c fs op).1 := inv_step' c fs op hi hm

theorem inv_andThen {ε : Type} (r : FS × Option ε) (k : FS → FS × Option ε) (h1 : Inv r.1)
    (h2 : ∀ fs : FS, FS.Inv fs → FS.Inv (k fs).1) : Inv (andThen r k).1 := by
  rcases r with ⟨fs1, _ | e⟩
  · exact h2 fs1 h1
  · exact h1

theorem inv_mpd (c : Cfg) (fs : FS) (p : Text) (perms uid gid : Nat) (hi : Inv fs) :
    Inv (mutatePermissionsDirect c fs p perms uid gid).1 := by
  unfold mutatePermissionsDirect
  apply inv_andThen
  · exact inv_act c fs _ hi (by intro p m h; cases h)
  · intro fs1 h1; exact inv_act c fs1 _ h1 (by intro p m h; cases h)



/-! ### `WalkDir`: whatever the callback keeps, the walk keeps -/

theorem walkDir_keeps (c : Cfg) (cb : FS → Text → FS × Option Err) (P : FS → Prop)
    (hcb : ∀ fs p, P fs → P (cb fs p).1) :
    ∀ (fuel : Nat) (fs : FS) (name : Text) (isDir : Bool), P fs → P (walkDir c cb fuel fs name isDir).1 := by
  intro fuel
  induction fuel with
  | zero => intro fs name isDir h; simpa [walkDir] using h
  | succ fuel ih =>
    intro fs name isDir h
    unfold walkDir
    have h1 := hcb fs name h
    cases hc : cb fs name with
    | mk fs1 r =>
      rw [hc] at h1
      cases r with
      | some e => exact h1
      | none =>
        simp only []
        split
        · exact h1
        · split
          · rename_i es _
            -- the fold over the directory entries
            have : ∀ (l : List StatInfo) (acc : FS × Option Err × List Text), P acc.1 →
                P (l.foldl (fun (acc : FS × Option Err × List Text) e =>
                  match acc with
                  | (_, some _, _) => acc
                  | (fs', none, vs) =>
                    let r := walkDir c cb fuel fs' (join2 name e.name) e.isDir
                    (r.1, r.2.1, vs ++ r.2.2)) acc).1 := by
              intro l
              induction l with
              | nil => intro acc ha; exact ha
              | cons e rest ihl =>
                intro acc ha
                simp only [List.foldl]
                apply ihl
                rcases acc with ⟨fs', _ | er, vs⟩
                · exact ih fs' _ _ ha
                · exact ha
            exact this es (fs1, none, [name]) h1
          · exact h1
          · exact h1

theorem walkRoot_keeps (c : Cfg) (cb : FS → Text → FS × Option Err) (P : FS → Prop)
    (hcb : ∀ fs p, P fs → P (cb fs p).1) (fs : FS) (root : Text) (h : P fs) : P (walkRoot c cb fs root).1 := by
  unfold walkRoot
  split
  · exact walkDir_keeps c cb P hcb _ _ _ _ h
  · exact h
  · exact h



theorem inv_mutateDirectory (c : Cfg) (fs : FS) (m : Mutation) (hi : FS.Inv fs) : FS.Inv (mutateDirectory c fs m).1 := by
  unfold mutateDirectory
  have h1 := inv_act c fs (.mkdirAll m.path (permMode m.perms)) hi (by intro p q h; cases h)
  cases ha : act c fs (.mkdirAll m.path (permMode m.perms)) with
  | mk fs1 r =>
    rw [ha] at h1
    cases r with
    | some e => exact h1
    | none =>
      simp only []
      split
      · exact walkRoot_keeps c _ FS.Inv (fun fs p h => inv_mpd c fs p _ _ _ h) fs1 m.path h1
      · exact h1

theorem inv_ensureParent (c : Cfg) (fs : FS) (p : Text) (hi : FS.Inv fs) : FS.Inv (ensureParentDirectory c fs p).1 :=
  inv_act c fs _ hi (by intro p q h; cases h)

theorem inv_mutateEmptyFile (c : Cfg) (fs : FS) (m : Mutation) (hi : FS.Inv fs) : FS.Inv (mutateEmptyFile c fs m).1 := by
  unfold mutateEmptyFile
  apply inv_andThen _ _ (inv_ensureParent c fs _ hi)
  intro fs1 h1
  unfold createEmpty
  have := openCore_inv c fs1 m.path flagsWriteFile createPerm h1
  split <;> (rename_i heq; simp only [heq] at this; exact this)

theorem inv_mutateSymLink (c : Cfg) (fs : FS) (m : Mutation) (hi : FS.Inv fs) : FS.Inv (mutateSymLink c fs m).1 := by
  unfold mutateSymLink
  apply inv_andThen _ _ (inv_ensureParent c fs _ hi)
  intro fs1 h1
  exact inv_act c fs1 _ h1 (by intro p q h; cases h)

theorem inv_mutateHardLink (c : Cfg) (fs : FS) (m : Mutation) (hi : FS.Inv fs) : FS.Inv (mutateHardLink c fs m).1 := by
  unfold mutateHardLink
  apply inv_andThen _ _ (inv_ensureParent c fs _ hi)
  intro fs1 h1
  apply inv_andThen
  · split
    · exact inv_act c fs1 _ h1 (by intro p q h; cases h)
    · exact h1
  · intro fs2 h2
    exact inv_act c fs2 _ h2 (by intro p q h; cases h)

/-! ### `mutatePermissionsDirect`: exactly one node changes, in mode and owner only -/

/-- `fs` with the permission part of the mode (type bits kept) and the owner of node `i` replaced -/
def setAttrs (fs : FS) (i : Ino) (pm : Nat) (uid gid : Int) : FS :=
  (fs.modify i fun n => { n with mode := typeKeep n.mode pm }).modify i fun n => { n with uid := uid, gid := gid }

theorem node_setAttrs (fs : FS) (i j : Ino) (pm : Nat) (uid gid : Int) :
    (setAttrs fs i pm uid gid).node j =
      if j = i ∧ i < fs.nodes.length then { fs.node i with mode := typeKeep (fs.node i).mode pm, uid := uid, gid := gid }
      else fs.node j := by
  unfold setAttrs
  rw [node_modify, node_modify]
  by_cases h : j = i ∧ i < fs.nodes.length
  · simp [h]
  · simp only [length_modify, h, if_false]
    rw [node_modify]; simp only [h, if_false]

theorem shape_setAttrs (fs : FS) (i : Ino) (pm : Nat) (hp : pm.testBit 27 = false) (uid gid : Int) :
    ShapeEq fs (setAttrs fs i pm uid gid) := by
  refine ⟨?_, ?_, ?_, ?_⟩ <;> intro j <;> rw [node_setAttrs] <;> split <;> try rfl
  · rename_i h; rw [h.1]
  · rename_i h; rw [h.1]
  · rename_i h; rw [h.1]; simp [Inode.isSymlink, typeKeep_bit27 _ _ hp]
  · rename_i h; rw [h.1]

theorem mpd_ok {c : Cfg} {fs fs' : FS} {p : Text} {perms uid gid : Nat}
    (h : mutatePermissionsDirect c fs p perms uid gid = (fs', none)) :
    ∃ i, getNode c fs p = .ok i ∧ fs' = setAttrs fs i (permMode perms) uid gid := by
  unfold mutatePermissionsDirect at h
  obtain ⟨fs1, h1, h2⟩ := andThen_ok h
  obtain ⟨i, hg, rfl⟩ := chmod_ok h1
  obtain ⟨j, hg2, rfl⟩ := chown_ok h2
  have hs : getNode c (fs.modify i fun n => { n with mode := typeKeep n.mode (permMode perms) }) p = getNode c fs p :=
    getNode_shape (ShapeEq.modify fs i _ (by intro n; rfl) (by intro n; rfl)
      (by simp [Inode.isSymlink, typeKeep_bit27 _ _ (permMode_bit27 perms)]) (by intro n; rfl)) c p
  rw [hs, hg] at hg2
  cases hg2
  exact ⟨i, hg, rfl⟩

end Apko.Accounts
