import Apko.Model.CacheGlue
/-!
C19 — invariants of the glue model (`Model/CacheGlue.lean`), for every configuration that keys the HEAD memo
injectively and returns the copy error, every legal history (any number of processes, cache objects, builds,
repository updates, cut connections, offline requests).
-/
namespace Apko.C19.Glue
open Apko.CacheGlue

/-- the server assumption: within one entry directory an ETag value is served with one body only.  For an
index the entry directory belongs to one URL, so this is "an ETag identifies one body of a URL"; for keys of
one remote directory it is a real restriction (finding F19d) -/
def EtagSep (cfg : Cfg) (srv : List (Url × Etag × Body)) : Prop :=
  ∀ u u2 e b b2, (u, e, b) ∈ srv → (u2, e, b2) ∈ srv → cfg.dirOf u = cfg.dirOf u2 → b = b2

/-- every advertised entry holds the COMPLETE body the server served under that ETag for a URL of that
directory -/
def EntriesOk (cfg : Cfg) (s : St) : Prop :=
  ∀ f, f ∈ s.files → ∀ e, f.etag = some e →
    f.complete = true ∧ ∃ u, cfg.dirOf u = f.dir ∧ (u, e, f.body) ∈ s.srv

/-- every remembered HEAD answer is an ETag the server served for the URL(s) the memo key stands for -/
def MemoOk (cfg : Cfg) (s : St) : Prop :=
  ∀ m, m ∈ s.memo → ∀ u, cfg.memoKey u = m.1.2 → ∃ b, (u, m.2, b) ∈ s.srv

/-- every parsed index the process remembers for a URL is a body the server served under that URL (under the
remembered ETag, unless the HEAD answer came from a stale memo while the entry was missing: then it is the body
that was current at the time of the GET) -/
def ParsedOk (s : St) : Prop :=
  ∀ p, p ∈ s.parsed → ∀ b, p.2 = some b → ∃ e, (p.1.1, e, b) ∈ s.srv

structure Inv (cfg : Cfg) (s : St) : Prop where
  sep : EtagSep cfg s.srv
  entries : EntriesOk cfg s
  memo : MemoOk cfg s
  parsed : ParsedOk s

def MemoKeyInj (cfg : Cfg) : Prop := ∀ u u2, cfg.memoKey u = cfg.memoKey u2 → u = u2

/-- what a publish must respect for the server assumption to keep holding -/
def evLegal (cfg : Cfg) (s : St) : Ev → Prop
  | .publish u e b => ∀ u2 b2, (u2, e, b2) ∈ s.srv → cfg.dirOf u2 = cfg.dirOf u → b2 = b
  | _ => True

def Legal (cfg : Cfg) : List Ev → St → Prop
  | [], _ => True
  | ev :: rest, s => evLegal cfg s ev ∧ Legal cfg rest (step cfg s ev)

/-! ### look-ups -/

theorem cur_mem {s : St} {u : Url} {e : Etag} {b : Body} (h : s.cur u = some (e, b)) : (u, e, b) ∈ s.srv := by
  unfold St.cur at h
  cases hf : s.srv.find? (fun t => t.1 = u) with
  | none => rw [hf] at h; cases h
  | some t =>
    rw [hf] at h
    have hm := List.mem_of_find?_eq_some hf
    have hp := List.find?_some hf
    simp only [Option.map_some, Option.some.injEq] at h
    obtain ⟨tu, te, tb⟩ := t
    simp only [decide_eq_true_eq] at hp
    simp only [Prod.mk.injEq] at h
    obtain ⟨h1, h2⟩ := h
    subst hp; subst h1; subst h2
    exact hm

theorem entry_mem {s : St} {d : Dir} {e : Etag} {f : File} (h : s.entry d e = some f) :
    f ∈ s.files ∧ f.dir = d ∧ f.etag = some e := by
  unfold St.entry at h
  have hm := List.mem_of_find?_eq_some h
  have hp := List.find?_some h
  simp only [Bool.and_eq_true, decide_eq_true_eq, beq_iff_eq] at hp
  exact ⟨hm, hp.1, hp.2⟩

theorem memoGet_mem {s : St} {c : CacheId} {k : MemoKey} {e : Etag} (h : s.memoGet c k = some e) :
    ((c, k), e) ∈ s.memo := by
  unfold St.memoGet at h
  cases hf : s.memo.find? (fun m => m.1 = (c, k)) with
  | none => rw [hf] at h; cases h
  | some m =>
    rw [hf] at h
    have hm := List.mem_of_find?_eq_some hf
    have hp := List.find?_some hf
    simp only [decide_eq_true_eq] at hp
    simp only [Option.map_some, Option.some.injEq] at h
    obtain ⟨mk, me⟩ := m
    simp only at hp h
    subst hp; subst h
    exact hm

/-! ### `head` -/

theorem head_spec {cfg : Cfg} (hk : MemoKeyInj cfg) {s : St} (hinv : Inv cfg s) {c : CacheId} {m : Bool} {u : Url}
    {e : Etag} {s1 : St} (h : head cfg s c m u = some (e, s1)) :
    (∃ b, (u, e, b) ∈ s.srv) ∧ s1.srv = s.srv ∧ s1.files = s.files ∧ s1.parsed = s.parsed ∧ Inv cfg s1 := by
  unfold head at h
  split at h
  · -- memo hit
    rename_i e0 hm
    simp only [Option.some.injEq, Prod.mk.injEq] at h
    obtain ⟨h1, h2⟩ := h
    subst h1; subst h2
    cases m with
    | false => simp at hm
    | true =>
      simp only [↓reduceIte] at hm
      have := hinv.memo _ (memoGet_mem hm) u rfl
      exact ⟨this, rfl, rfl, rfl, hinv⟩
  · -- HEAD request
    split at h
    · cases h
    · rename_i e0 b0 hc
      simp only [Option.some.injEq, Prod.mk.injEq] at h
      obtain ⟨h1, h2⟩ := h
      subst h1
      have hmem := cur_mem hc
      refine ⟨⟨b0, hmem⟩, ?_, ?_, ?_, ?_⟩
      · subst h2; split <;> rfl
      · subst h2; split <;> rfl
      · subst h2; split <;> rfl
      · subst h2
        split
        · refine ⟨hinv.sep, hinv.entries, ?_, hinv.parsed⟩
          intro mm hmm u2 hu2
          simp only [List.mem_append, List.mem_singleton] at hmm
          rcases hmm with hmm | hmm
          · exact hinv.memo mm hmm u2 hu2
          · subst hmm
            simp only at hu2
            have := hk _ _ hu2
            subst this
            exact ⟨b0, hmem⟩
        · exact hinv

/-- `head` without a memo is a plain HEAD request -/
theorem head_nomemo (cfg : Cfg) (s : St) (c : CacheId) (u : Url) :
    head cfg s c false u = (s.cur u).map fun eb => (eb.1, s) := by
  unfold head
  simp only [Bool.false_eq_true, ↓reduceIte]
  cases s.cur u with
  | none => rfl
  | some eb => rfl

/-! ### `advertise`, `fetch` -/

theorem advertise_spec {cfg : Cfg} {s : St} (hinv : Inv cfg s) {u : Url} {e : Etag} {b : Body}
    (hsrv : (u, e, b) ∈ s.srv) {s2 : St} {r : Res} (h : advertise s (cfg.dirOf u) e b true = (s2, r)) :
    r = some (b, true) ∧ s2.srv = s.srv ∧ s2.memo = s.memo ∧ s2.parsed = s.parsed ∧ Inv cfg s2 := by
  unfold advertise at h
  split at h
  · rename_i f hf
    simp only [Prod.mk.injEq] at h
    obtain ⟨h1, h2⟩ := h
    subst h1
    obtain ⟨hm, hd, he⟩ := entry_mem hf
    obtain ⟨hc, u2, hu2, hs2⟩ := hinv.entries f hm e he
    have : f.body = b := hinv.sep u2 u e f.body b hs2 hsrv (by rw [hu2, hd])
    refine ⟨?_, rfl, rfl, rfl, hinv⟩
    rw [← h2, this, hc]
  · simp only [Prod.mk.injEq] at h
    obtain ⟨h1, h2⟩ := h
    subst h1
    refine ⟨h2.symm, rfl, rfl, rfl, hinv.sep, ?_, hinv.memo, hinv.parsed⟩
    intro f hf e2 he2
    simp only [List.mem_append, List.mem_singleton] at hf
    rcases hf with hf | hf
    · exact hinv.entries f hf e2 he2
    · subst hf
      simp only [Option.some.injEq] at he2
      subst he2
      exact ⟨rfl, u, rfl, hsrv⟩

/-- `fetch` keeps the invariant; what it hands to the caller is a COMPLETE body the server served under THIS
url (or an error) -/
theorem fetch_spec {cfg : Cfg} (hk : MemoKeyInj cfg) (hce : cfg.copyErrKept = true) {s : St} (hinv : Inv cfg s)
    (c : CacheId) (m : Bool) (u : Url) (cut : Bool) :
    Inv cfg (fetch cfg s c m u cut).1 ∧ (fetch cfg s c m u cut).1.srv = s.srv ∧
    (fetch cfg s c m u cut).1.parsed = s.parsed ∧
    ∀ b compl, (fetch cfg s c m u cut).2 = some (b, compl) → compl = true ∧ ∃ e, (u, e, b) ∈ s.srv := by
  unfold fetch
  cases hh : head cfg s c m u with
  | none => exact ⟨hinv, rfl, rfl, fun _ _ h => by cases h⟩
  | some es =>
    obtain ⟨e, s1⟩ := es
    obtain ⟨⟨b0, hb0⟩, hsrv1, hfiles1, hparsed1, hinv1⟩ := head_spec hk hinv hh
    dsimp only
    cases hen : s1.entry (cfg.dirOf u) e with
    | some f =>
      dsimp only
      refine ⟨hinv1, hsrv1, hparsed1, ?_⟩
      intro b compl hr
      simp only [Option.some.injEq, Prod.mk.injEq] at hr
      obtain ⟨hm, hd, he⟩ := entry_mem hen
      obtain ⟨hc, u2, hu2, hs2⟩ := hinv1.entries f hm e he
      rw [hsrv1] at hs2
      have : f.body = b0 := by
        have hsep := hinv.sep
        exact hsep u2 u e f.body b0 hs2 hb0 (by rw [hu2, hd])
      refine ⟨by rw [← hr.2, hc], e, ?_⟩
      rw [← hr.1, this]; exact hb0
    | none =>
      dsimp only
      cases hc : s1.cur u with
      | none => exact ⟨hinv1, hsrv1, hparsed1, fun _ _ h => by cases h⟩
      | some eb =>
        obtain ⟨e2, b2⟩ := eb
        dsimp only
        have hmem1 : (u, e2, b2) ∈ s1.srv := cur_mem hc
        cases cut with
        | true =>
          simp only [↓reduceIte, hce]
          refine ⟨⟨hinv1.sep, ?_, hinv1.memo, hinv1.parsed⟩, hsrv1, hparsed1, fun _ _ h => by cases h⟩
          intro f hf e3 he3
          simp only [List.mem_append, List.mem_singleton] at hf
          rcases hf with hf | hf
          · exact hinv1.entries f hf e3 he3
          · subst hf; cases he3
        | false =>
          simp only [Bool.false_eq_true, ↓reduceIte]
          cases ha : advertise s1 (cfg.dirOf u) e2 b2 true with
          | mk s2 r =>
            obtain ⟨hr, hsrv2, -, hparsed2, hinv2⟩ := advertise_spec hinv1 hmem1 ha
            refine ⟨hinv2, by rw [hsrv2, hsrv1], by rw [hparsed2, hparsed1], ?_⟩
            intro b compl hbc
            dsimp only at hbc
            rw [hr] at hbc
            simp only [Option.some.injEq, Prod.mk.injEq] at hbc
            refine ⟨hbc.2.symm, e2, ?_⟩
            rw [← hbc.1, ← hsrv1]; exact hmem1

/-! ### index requests: the process-wide table of parsed indexes -/

theorem parsedGet_mem {s : St} {u : Url} {e : Etag} {r : Option Body} (h : s.parsedGet u e = some r) :
    ((u, e), r) ∈ s.parsed := by
  unfold St.parsedGet at h
  cases hf : s.parsed.find? (fun p => p.1 = (u, e)) with
  | none => rw [hf] at h; cases h
  | some p =>
    rw [hf] at h
    have hm := List.mem_of_find?_eq_some hf
    have hp := List.find?_some hf
    simp only [decide_eq_true_eq] at hp
    simp only [Option.map_some, Option.some.injEq] at h
    obtain ⟨pk, pr⟩ := p
    simp only at hp h
    subst hp; subst h
    exact hm

theorem parseRes_some {r : Res} {b : Body} (h : parseRes r = some b) : r = some (b, true) := by
  unfold parseRes at h
  split at h
  · simp only [Option.some.injEq] at h; subst h; rfl
  · cases h

/-- an index request through the cache keeps the invariant; its answer is a complete body served under this url,
or an error -/
theorem fetchIndex_spec {cfg : Cfg} (hk : MemoKeyInj cfg) (hce : cfg.copyErrKept = true) {s : St} (hinv : Inv cfg s)
    (c : CacheId) (m : Bool) (u : Url) (cut : Bool) :
    Inv cfg (fetchIndex cfg s c m u cut).1 ∧ (fetchIndex cfg s c m u cut).1.srv = s.srv ∧
    ∀ b compl, (fetchIndex cfg s c m u cut).2 = some (b, compl) → compl = true ∧ ∃ e, (u, e, b) ∈ s.srv := by
  unfold fetchIndex
  cases hh : head cfg s c m u with
  | none => exact ⟨hinv, rfl, fun _ _ h => by cases h⟩
  | some es =>
    obtain ⟨e, s1⟩ := es
    obtain ⟨⟨b0, hb0⟩, hsrv1, -, -, hinv1⟩ := head_spec hk hinv hh
    dsimp only
    cases hp : s1.parsedGet u e with
    | some r =>
      dsimp only
      refine ⟨hinv1, hsrv1, ?_⟩
      intro b compl hr
      cases r with
      | none => cases hr
      | some b1 =>
        simp only [Option.map_some, Option.some.injEq, Prod.mk.injEq] at hr
        obtain ⟨e2, he2⟩ := hinv1.parsed _ (parsedGet_mem hp) b1 rfl
        rw [hsrv1] at he2
        exact ⟨hr.2.symm, e2, by rw [← hr.1]; exact he2⟩
    | none =>
      dsimp only
      obtain ⟨hinv2, hsrv2, hparsed2, hauth⟩ := fetch_spec hk hce hinv1 c m u cut
      refine ⟨⟨hinv2.sep, hinv2.entries, hinv2.memo, ?_⟩, by rw [← hsrv1]; exact hsrv2, ?_⟩
      · intro p hpm b1 hb1
        simp only [List.mem_append, List.mem_singleton] at hpm
        rcases hpm with hpm | hpm
        · exact hinv2.parsed p hpm b1 hb1
        · subst hpm
          simp only at hb1
          have hr := parseRes_some hb1
          obtain ⟨-, e2, he2⟩ := hauth b1 true hr
          exact ⟨e2, by rw [hsrv2]; exact he2⟩
      · intro b compl hr
        cases hpr : parseRes (fetch cfg s1 c m u cut).2 with
        | none => rw [hpr] at hr; cases hr
        | some b1 =>
          rw [hpr] at hr
          simp only [Option.map_some, Option.some.injEq, Prod.mk.injEq] at hr
          obtain ⟨-, e2, he2⟩ := hauth b1 true (parseRes_some hpr)
          rw [hsrv1] at he2
          exact ⟨hr.2.symm, e2, by rw [← hr.1]; exact he2⟩

theorem fetchIndexDirect_spec {cfg : Cfg} {s : St} (hinv : Inv cfg s) (u : Url) :
    Inv cfg (fetchIndexDirect s u).1 ∧ (fetchIndexDirect s u).1.srv = s.srv ∧
    ∀ b compl, (fetchIndexDirect s u).2 = some (b, compl) → compl = true ∧ ∃ e, (u, e, b) ∈ s.srv := by
  unfold fetchIndexDirect
  cases hc : s.cur u with
  | none => exact ⟨hinv, rfl, fun _ _ h => by cases h⟩
  | some eb =>
    obtain ⟨e, b0⟩ := eb
    dsimp only
    cases hp : s.parsedGet u e with
    | some r =>
      dsimp only
      refine ⟨hinv, rfl, ?_⟩
      intro b compl hr
      cases r with
      | none => cases hr
      | some b1 =>
        simp only [Option.map_some, Option.some.injEq, Prod.mk.injEq] at hr
        obtain ⟨e2, he2⟩ := hinv.parsed _ (parsedGet_mem hp) b1 rfl
        exact ⟨hr.2.symm, e2, by rw [← hr.1]; exact he2⟩
    | none =>
      dsimp only
      refine ⟨⟨hinv.sep, hinv.entries, hinv.memo, ?_⟩, rfl, ?_⟩
      · intro p hpm b1 hb1
        simp only [List.mem_append, List.mem_singleton] at hpm
        rcases hpm with hpm | hpm
        · exact hinv.parsed p hpm b1 hb1
        · subst hpm
          simp only [Option.some.injEq] at hb1
          subst hb1
          exact ⟨e, cur_mem hc⟩
      · intro b compl hr
        simp only [Option.some.injEq, Prod.mk.injEq] at hr
        exact ⟨hr.2.symm, e, by rw [← hr.1]; exact cur_mem hc⟩

theorem inv_empty (cfg : Cfg) : Inv cfg {} where
  sep := fun _ _ _ _ _ h => absurd h List.not_mem_nil
  entries := fun _ h => absurd h List.not_mem_nil
  memo := fun _ h => absurd h List.not_mem_nil
  parsed := fun _ h => absurd h List.not_mem_nil

theorem step_inv {cfg : Cfg} (hk : MemoKeyInj cfg) (hce : cfg.copyErrKept = true) {s : St} (hinv : Inv cfg s)
    (ev : Ev) (hl : evLegal cfg s ev) : Inv cfg (step cfg s ev) := by
  cases ev with
  | publish u e b =>
    simp only [step]
    refine ⟨?_, ?_, ?_, ?_⟩
    · intro u1 u2 e1 b1 b2 h1 h2 hd
      simp only [List.mem_cons, Prod.mk.injEq] at h1 h2
      rcases h1 with h1 | h1 <;> rcases h2 with h2 | h2
      · rw [h1.2.2, h2.2.2]
      · obtain ⟨hu1, he1, hb1⟩ := h1
        rw [hu1] at hd; rw [he1] at h2; rw [hb1]
        exact (hl u2 b2 h2 hd.symm).symm
      · obtain ⟨hu2, he2, hb2⟩ := h2
        rw [hu2] at hd; rw [he2] at h1; rw [hb2]
        exact hl u1 b1 h1 hd
      · exact hinv.sep u1 u2 e1 b1 b2 h1 h2 hd
    · intro f hf e1 he1
      obtain ⟨hc, u1, hu1, hs1⟩ := hinv.entries f hf e1 he1
      exact ⟨hc, u1, hu1, List.mem_cons_of_mem _ hs1⟩
    · intro m hm u1 hu1
      obtain ⟨b1, hb1⟩ := hinv.memo m hm u1 hu1
      exact ⟨b1, List.mem_cons_of_mem _ hb1⟩
    · intro p hp b1 hb1
      obtain ⟨e1, he1⟩ := hinv.parsed p hp b1 hb1
      exact ⟨e1, List.mem_cons_of_mem _ he1⟩
  | fetch c m u cut => exact (fetch_spec hk hce hinv c m u cut).1
  | index c m u cut => exact (fetchIndex_spec hk hce hinv c m u cut).1
  | indexDirect u => exact (fetchIndexDirect_spec hinv u).1
  | offline u => exact hinv
  | exit => exact ⟨hinv.sep, hinv.entries, fun _ h => absurd h List.not_mem_nil, fun _ h => absurd h List.not_mem_nil⟩

theorem run_inv {cfg : Cfg} (hk : MemoKeyInj cfg) (hce : cfg.copyErrKept = true) (evs : List Ev) :
    ∀ s, Inv cfg s → Legal cfg evs s → Inv cfg (run cfg evs s) := by
  induction evs with
  | nil => intro s h _; exact h
  | cons ev rest ih =>
    intro s hinv hl
    exact ih _ (step_inv hk hce hinv ev hl.1) hl.2

/-! ### transparency: the memo of a cache object holds current ETags only -/

/-- every HEAD answer cache object `c` remembers is what the server answers now -/
def MemoCurrent (cfg : Cfg) (s : St) (c : CacheId) : Prop :=
  ∀ m, m ∈ s.memo → m.1.1 = c → ∀ u, cfg.memoKey u = m.1.2 → ∃ b, s.cur u = some (m.2, b)

theorem memoCurrent_fresh (cfg : Cfg) (s : St) (c : CacheId) (h : ∀ m, m ∈ s.memo → m.1.1 ≠ c) :
    MemoCurrent cfg s c := fun m hm hc => absurd hc (h m hm)

theorem memoCurrent_exit (cfg : Cfg) (s : St) (c : CacheId) : MemoCurrent cfg (step cfg s .exit) c :=
  fun _ hm => by cases hm

/-- with current ETags in its memo (or no memo at all) a request through the cache is answered exactly like
the same request without the cache: the complete body the server serves NOW -/
theorem fetch_transparent {cfg : Cfg} (hk : MemoKeyInj cfg) {s : St} (hinv : Inv cfg s) (c : CacheId) (m : Bool)
    (u : Url) (hm : m = true → MemoCurrent cfg s c) :
    (fetch cfg s c m u false).2 = direct s u ∧ (m = true → MemoCurrent cfg (fetch cfg s c m u false).1 c) ∧
    (fetch cfg s c m u false).1.srv = s.srv := by
  unfold fetch direct
  cases hh : head cfg s c m u with
  | none =>
    dsimp only
    -- no memo entry and a 404
    unfold head at hh
    split at hh
    · cases hh
    · split at hh
      · rename_i hc; rw [hc]; exact ⟨rfl, hm, rfl⟩
      · cases hh
  | some es =>
    obtain ⟨e, s1⟩ := es
    obtain ⟨-, hsrv1, hfiles1, -, hinv1⟩ := head_spec hk hinv hh
    -- the ETag `head` answers is the current one, and the memo stays current
    have hcur : (∃ b, s.cur u = some (e, b)) ∧ (m = true → MemoCurrent cfg s1 c) := by
      unfold head at hh
      split at hh
      · rename_i e0 hme
        simp only [Option.some.injEq, Prod.mk.injEq] at hh
        obtain ⟨h1, h2⟩ := hh
        subst h1; subst h2
        cases m with
        | false => simp at hme
        | true =>
          simp only [↓reduceIte] at hme
          exact ⟨hm rfl _ (memoGet_mem hme) rfl u rfl, hm⟩
      · split at hh
        · cases hh
        · rename_i e0 b0 hc
          simp only [Option.some.injEq, Prod.mk.injEq] at hh
          obtain ⟨h1, h2⟩ := hh
          subst h1
          refine ⟨⟨b0, hc⟩, ?_⟩
          intro hmt
          subst h2
          simp only [hmt, ↓reduceIte]
          intro mm hmm hcc u2 hu2
          simp only [List.mem_append, List.mem_singleton] at hmm
          have hcurEq : ∀ (mm : List ((CacheId × MemoKey) × Etag)) v, St.cur { s with memo := mm } v = s.cur v :=
            fun _ _ => rfl
          rw [hcurEq]
          rcases hmm with hmm | hmm
          · exact hm hmt mm hmm hcc u2 hu2
          · subst hmm
            simp only at hu2
            have := hk _ _ hu2
            subst this
            exact ⟨b0, hc⟩
    obtain ⟨⟨b0, hb0⟩, hmc1⟩ := hcur
    have hcur1 : ∀ v, s1.cur v = s.cur v := by
      intro v; unfold St.cur; rw [hsrv1]
    dsimp only
    rw [hb0]
    simp only [Option.map_some]
    cases hen : s1.entry (cfg.dirOf u) e with
    | some f =>
      dsimp only
      obtain ⟨hfm, hd, he⟩ := entry_mem hen
      obtain ⟨hc, u2, hu2, hs2⟩ := hinv1.entries f hfm e he
      have hb : f.body = b0 := by
        have h0 : (u, e, b0) ∈ s1.srv := by rw [hsrv1]; exact cur_mem hb0
        exact hinv1.sep u2 u e f.body b0 hs2 h0 (by rw [hu2, hd])
      exact ⟨by rw [hb, hc], hmc1, hsrv1⟩
    | none =>
      dsimp only
      rw [hcur1 u, hb0]
      dsimp only
      simp only [Bool.false_eq_true, ↓reduceIte]
      have h0 : (u, e, b0) ∈ s1.srv := by rw [hsrv1]; exact cur_mem hb0
      cases ha : advertise s1 (cfg.dirOf u) e b0 true with
      | mk s2 r =>
        obtain ⟨hr, hsrv2, hmemo2, -, -⟩ := advertise_spec hinv1 h0 ha
        dsimp only
        refine ⟨hr, ?_, by rw [hsrv2, hsrv1]⟩
        intro hmt mm hmm hcc u2 hu2
        rw [hmemo2] at hmm
        have := hmc1 hmt mm hmm hcc u2 hu2
        unfold St.cur at this ⊢
        rw [hsrv2]; exact this

/-- a whole build: every request of a build through one cache object whose memo is current (a fresh cache
object; any cache object without a memo) — with no repository update and no cut connection during the build —
is answered with what the server serves now, i.e. what the build without the disk cache gets -/
theorem fetchAll_transparent {cfg : Cfg} (hk : MemoKeyInj cfg) (hce : cfg.copyErrKept = true) (c : CacheId) (m : Bool)
    (us : List (Url × Bool)) : ∀ s, Inv cfg s → (m = true → MemoCurrent cfg s c) → (∀ p, p ∈ us → p.2 = false) →
    (fetchAll cfg c m us s).2 = us.map (fun p => direct s p.1) ∧ Inv cfg (fetchAll cfg c m us s).1 := by
  induction us with
  | nil => intro s hinv _ _; exact ⟨rfl, hinv⟩
  | cons p rest ih =>
    intro s hinv hm hcut
    obtain ⟨u, cut⟩ := p
    have hc : cut = false := hcut (u, cut) (List.mem_cons_self ..)
    subst hc
    obtain ⟨hr, hm1, hsrv1⟩ := fetch_transparent hk hinv c m u hm
    have hinv1 := (fetch_spec hk hce hinv c m u false).1
    obtain ⟨hrs, hinvn⟩ := ih _ hinv1 hm1 (fun p hp => hcut p (List.mem_cons_of_mem _ hp))
    simp only [fetchAll, List.map_cons]
    refine ⟨?_, hinvn⟩
    rw [hr, hrs]
    congr 1
    apply List.map_congr_left
    intro p _
    unfold direct St.cur
    rw [hsrv1]

/-- an index request through the cache is answered exactly like the index request of a build without the disk
cache at the same moment in the same process (both consult the process-wide table of parsed indexes first) -/
theorem fetchIndex_transparent {cfg : Cfg} (hk : MemoKeyInj cfg) {s : St} (hinv : Inv cfg s) (c : CacheId) (m : Bool)
    (u : Url) (hm : m = true → MemoCurrent cfg s c) :
    (fetchIndex cfg s c m u false).2 = (fetchIndexDirect s u).2 := by
  unfold fetchIndex fetchIndexDirect
  cases hh : head cfg s c m u with
  | none =>
    dsimp only
    unfold head at hh
    split at hh
    · cases hh
    · split at hh
      · rename_i hc
        first | rfl | (rw [hc])
      · cases hh
  | some es =>
    obtain ⟨e, s1⟩ := es
    obtain ⟨-, hsrv1, -, hparsed1, hinv1⟩ := head_spec hk hinv hh
    -- the ETag `head` answers is the current one; the memo of `c` stays current
    have hcur : (∃ b, s.cur u = some (e, b)) ∧ (m = true → MemoCurrent cfg s1 c) := by
      unfold head at hh
      split at hh
      · rename_i e0 hme
        simp only [Option.some.injEq, Prod.mk.injEq] at hh
        obtain ⟨h1, h2⟩ := hh
        subst h1; subst h2
        cases m with
        | false => simp at hme
        | true =>
          simp only [↓reduceIte] at hme
          exact ⟨hm rfl _ (memoGet_mem hme) rfl u rfl, hm⟩
      · split at hh
        · cases hh
        · rename_i e0 b0 hc
          simp only [Option.some.injEq, Prod.mk.injEq] at hh
          obtain ⟨h1, h2⟩ := hh
          subst h1
          refine ⟨⟨b0, hc⟩, ?_⟩
          intro hmt
          subst h2
          simp only [hmt, ↓reduceIte]
          intro mm hmm hcc u2 hu2
          simp only [List.mem_append, List.mem_singleton] at hmm
          have hcurEq : ∀ (mm : List ((CacheId × MemoKey) × Etag)) v, St.cur { s with memo := mm } v = s.cur v :=
            fun _ _ => rfl
          rw [hcurEq]
          rcases hmm with hmm | hmm
          · exact hm hmt mm hmm hcc u2 hu2
          · subst hmm
            simp only at hu2
            have := hk _ _ hu2
            subst this
            exact ⟨b0, hc⟩
    obtain ⟨⟨b0, hb0⟩, hmc1⟩ := hcur
    dsimp only
    rw [hb0]
    dsimp only
    have hpg : s1.parsedGet u e = s.parsedGet u e := by unfold St.parsedGet; rw [hparsed1]
    rw [hpg]
    cases hp : s.parsedGet u e with
    | some r => rfl
    | none =>
      dsimp only
      have ht := (fetch_transparent hk hinv1 c m u hmc1).1
      have hd : direct s1 u = some (b0, true) := by
        unfold direct St.cur; rw [hsrv1]
        have : (s.srv.find? fun t => t.1 = u).map (·.2) = some (e, b0) := hb0
        rw [this]; rfl
      rw [ht, hd]
      rfl

/-! ### a cut connection -/

/-- a download whose connection is cut hands an error to the caller and advertises nothing: the set of
advertised entries is unchanged (a partial temp file stays behind) -/
theorem cut_advertises_nothing {cfg : Cfg} (hce : cfg.copyErrKept = true) (s : St) (c : CacheId) (m : Bool) (u : Url) :
    ((fetch cfg s c m u true).1.files.filter fun f => f.etag.isSome) = s.files.filter (fun f => f.etag.isSome) ∧
    ((fetch cfg s c m u true).2 = none ∨
      ∃ e f, (head cfg s c m u).map (·.1) = some e ∧ s.entry (cfg.dirOf u) e = some f ∧
        (fetch cfg s c m u true).2 = some (f.body, f.complete)) := by
  unfold fetch
  cases hh : head cfg s c m u with
  | none => exact ⟨rfl, Or.inl rfl⟩
  | some es =>
    obtain ⟨e, s1⟩ := es
    have hfiles : s1.files = s.files := by
      unfold head at hh
      split at hh
      · simp only [Option.some.injEq, Prod.mk.injEq] at hh; rw [← hh.2]
      · split at hh
        · cases hh
        · simp only [Option.some.injEq, Prod.mk.injEq] at hh
          rw [← hh.2]; split <;> rfl
    have hentry : ∀ d e, s1.entry d e = s.entry d e := by intro d e; unfold St.entry; rw [hfiles]
    dsimp only
    cases hen : s1.entry (cfg.dirOf u) e with
    | some f =>
      dsimp only
      refine ⟨by rw [hfiles], Or.inr ⟨e, f, rfl, ?_, rfl⟩⟩
      rw [← hentry]; exact hen
    | none =>
      dsimp only
      cases hc : s1.cur u with
      | none => exact ⟨by rw [hfiles], by simp⟩
      | some eb =>
        obtain ⟨e2, b2⟩ := eb
        simp only [↓reduceIte, hce]
        refine ⟨?_, by simp⟩
        rw [hfiles, List.filter_append]
        simp

/-! ### offline -/

/-- the entry directory of `u` belongs to `u` alone -/
def DirOwn (cfg : Cfg) (u : Url) : Prop := ∀ u2, cfg.dirOf u2 = cfg.dirOf u → u2 = u

/-- offline, a URL whose entry directory is its own (an index; a key that is alone in its remote directory) is
answered with an error or with a COMPLETE body the server once served under this very URL -/
theorem offline_authentic_partial {cfg : Cfg} (hskip : cfg.offlineSkipsTmp = true) {s : St} (hinv : Inv cfg s)
    (u : Url) (hown : DirOwn cfg u) (b : Body) (compl : Bool) (h : fetchOffline cfg s u = some (b, compl)) :
    compl = true ∧ ∃ e, (u, e, b) ∈ s.srv := by
  unfold fetchOffline at h
  cases hl : (s.files.filter (offlineCand cfg (cfg.dirOf u))).getLast? with
  | none => rw [hl] at h; cases h
  | some f =>
    rw [hl] at h
    simp only [Option.map_some, Option.some.injEq, Prod.mk.injEq] at h
    have hm := List.mem_of_getLast? hl
    rw [List.mem_filter] at hm
    obtain ⟨hfm, hcand⟩ := hm
    unfold offlineCand at hcand
    simp only [hskip, Bool.not_true, Bool.or_false, Bool.and_eq_true, decide_eq_true_eq] at hcand
    obtain ⟨hd, hsome⟩ := hcand
    cases he : f.etag with
    | none => rw [he] at hsome; cases hsome
    | some e =>
      obtain ⟨hc, u2, hu2, hs2⟩ := hinv.entries f hfm e he
      have : u2 = u := hown u2 (by rw [hu2, hd])
      subst this
      exact ⟨by rw [← h.2, hc], e, by rw [← h.1]; exact hs2⟩

/-! ### a decidable check of `Legal` (for concrete histories) -/

def evLegalB (cfg : Cfg) (s : St) : Ev → Bool
  | .publish u e b => s.srv.all fun t => !(decide (t.2.1 = e) && decide (cfg.dirOf t.1 = cfg.dirOf u)) || decide (t.2.2 = b)
  | _ => true

def legalB (cfg : Cfg) : List Ev → St → Bool
  | [], _ => true
  | ev :: rest, s => evLegalB cfg s ev && legalB cfg rest (step cfg s ev)

theorem evLegalB_sound (cfg : Cfg) (s : St) (ev : Ev) (h : evLegalB cfg s ev = true) : evLegal cfg s ev := by
  cases ev with
  | publish u e b =>
    intro u2 b2 hm hd
    simp only [evLegalB, List.all_eq_true] at h
    have := h (u2, e, b2) hm
    simp only [decide_true, hd, Bool.and_self, Bool.not_true, Bool.false_or, decide_eq_true_eq] at this
    exact this
  | fetch c m u cut => trivial
  | index c m u cut => trivial
  | indexDirect u => trivial
  | offline u => trivial
  | exit => trivial

theorem legalB_sound (cfg : Cfg) (evs : List Ev) : ∀ s, legalB cfg evs s = true → Legal cfg evs s := by
  induction evs with
  | nil => intro _ _; trivial
  | cons ev rest ih =>
    intro s h
    simp only [legalB, Bool.and_eq_true] at h
    exact ⟨evLegalB_sound cfg s ev h.1, ih _ h.2⟩

/-- the per-URL server assumption only: an ETag identifies one body OF A URL -/
def evUrlLegal (s : St) : Ev → Prop
  | .publish u e b => ∀ b2, (u, e, b2) ∈ s.srv → b2 = b
  | _ => True

def UrlLegal (cfg : Cfg) : List Ev → St → Prop
  | [], _ => True
  | ev :: rest, s => evUrlLegal s ev ∧ UrlLegal cfg rest (step cfg s ev)

def evUrlLegalB (s : St) : Ev → Bool
  | .publish u e b => s.srv.all fun t => !(decide (t.1 = u) && decide (t.2.1 = e)) || decide (t.2.2 = b)
  | _ => true

def urlLegalB (cfg : Cfg) : List Ev → St → Bool
  | [], _ => true
  | ev :: rest, s => evUrlLegalB s ev && urlLegalB cfg rest (step cfg s ev)

theorem urlLegalB_sound (cfg : Cfg) (evs : List Ev) : ∀ s, urlLegalB cfg evs s = true → UrlLegal cfg evs s := by
  induction evs with
  | nil => intro _ _; trivial
  | cons ev rest ih =>
    intro s h
    simp only [urlLegalB, Bool.and_eq_true] at h
    refine ⟨?_, ih _ h.2⟩
    cases ev with
    | publish u e b =>
      intro b2 hm
      have h1 := h.1
      simp only [evUrlLegalB, List.all_eq_true] at h1
      have := h1 (u, e, b2) hm
      simp only [decide_true, Bool.and_self, Bool.not_true, Bool.false_or, decide_eq_true_eq] at this
      exact this
    | fetch c m u cut => trivial
    | index c m u cut => trivial
    | indexDirect u => trivial
    | offline u => trivial
    | exit => trivial

/-- where every URL has an entry directory of its own, the per-URL assumption is the whole server assumption -/
theorem legal_of_urlLegal {cfg : Cfg} (hd : ∀ u u2, cfg.dirOf u = cfg.dirOf u2 → u = u2) (evs : List Ev) :
    ∀ s, UrlLegal cfg evs s → Legal cfg evs s := by
  induction evs with
  | nil => intro _ _; trivial
  | cons ev rest ih =>
    intro s h
    refine ⟨?_, ih _ h.2⟩
    cases ev with
    | publish u e b =>
      intro u2 b2 hm hdir
      have := hd _ _ hdir
      subst this
      exact h.1 b2 hm
    | fetch c m u cut => trivial
    | index c m u cut => trivial
    | indexDirect u => trivial
    | offline u => trivial
    | exit => trivial

end Apko.C19.Glue
