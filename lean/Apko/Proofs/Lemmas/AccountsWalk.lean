import Apko.Proofs.Lemmas.AccountsExt
import Apko.Proofs.Lemmas.AccountsOpen
/-! The recursive `directory` mutation: every path the walk visits ends with the declared
permission bits and owner (the callbacks all set the same values, and change nothing else). -/
namespace Apko.Accounts
open Apko Apko.Path Apko.FS Apko.Formats

/-- node `n` carries the declared attributes -/
def Attr (perms uid gid : Nat) (n : Inode) : Prop := permBitsOK n perms = true ∧ ownerOK n uid gid = true

/-- every path of `P` resolves to a node with the declared attributes -/
def Good (c : Cfg) (perms uid gid : Nat) (fs : FS) (P : List Text) : Prop :=
  ∀ p ∈ P, ∃ i, getNode c fs p = .ok i ∧ Attr perms uid gid (fs.node i)

theorem attr_setAttrs (fs : FS) (i : Ino) (hl : i < fs.nodes.length) (perms uid gid : Nat) :
    Attr perms uid gid ((setAttrs fs i (permMode perms) uid gid).node i) := by
  simp [Attr, node_setAttrs, hl, permBitsOK, ownerOK, unixPerm_permMode]

/-- one successful callback: the path joins the good ones, the others stay good -/
theorem good_cb (c : Cfg) (perms uid gid : Nat) (fs fs1 : FS) (P : List Text) (q : Text)
    (hi : FS.Inv fs) (hg : Good c perms uid gid fs P)
    (h : mutatePermissionsDirect c fs q perms uid gid = (fs1, none)) :
    FS.Inv fs1 ∧ Good c perms uid gid fs1 (q :: P) := by
  have hi1 : FS.Inv fs1 := by have := inv_mpd c fs q perms uid gid hi; rw [h] at this; exact this
  obtain ⟨i, hq, rfl⟩ := mpd_ok h
  have hl := getNode_live hi c q i hq
  have hsh := shape_setAttrs fs i (permMode perms) (permMode_bit27 perms) uid gid
  refine ⟨hi1, ?_⟩
  intro p hp
  rcases List.mem_cons.mp hp with rfl | hp
  · exact ⟨i, by rw [getNode_shape hsh]; exact hq, attr_setAttrs fs i hl perms uid gid⟩
  · obtain ⟨j, hj, ha⟩ := hg p hp
    refine ⟨j, by rw [getNode_shape hsh]; exact hj, ?_⟩
    by_cases hji : j = i
    · subst hji; exact attr_setAttrs fs j hl perms uid gid
    · rw [node_setAttrs]; simp only [hji, false_and, if_false]; exact ha

theorem good_mono (c : Cfg) (perms uid gid : Nat) (fs : FS) (P Q : List Text) (h : ∀ p ∈ Q, p ∈ P)
    (hg : Good c perms uid gid fs P) : Good c perms uid gid fs Q := fun p hp => hg p (h p hp)

/-- the walk: all visited paths (and those that were good before) are good afterwards -/
theorem walkDir_good (c : Cfg) (perms uid gid : Nat) :
    ∀ (fuel : Nat) (fs fs' : FS) (name : Text) (isDir : Bool) (vs P : List Text),
      FS.Inv fs → Good c perms uid gid fs P →
      walkDir c (fun fs p => mutatePermissionsDirect c fs p perms uid gid) fuel fs name isDir = (fs', none, vs) →
      FS.Inv fs' ∧ Good c perms uid gid fs' (vs ++ P) ∧ name ∈ vs := by
  intro fuel
  induction fuel with
  | zero => intro fs fs' name isDir vs P _ _ h; simp [walkDir] at h
  | succ fuel ih =>
    intro fs fs' name isDir vs P hi hg h
    unfold walkDir at h
    cases hc : mutatePermissionsDirect c fs name perms uid gid with
    | mk fs1 r =>
      cases r with
      | some e => simp [hc] at h
      | none =>
        obtain ⟨hi1, hg1⟩ := good_cb c perms uid gid fs fs1 P name hi hg hc
        simp only [hc] at h
        -- a leaf (or an unreadable / odd directory): nothing more happens
        have leaf : (fs1, (none : Option Err), [name]) = (fs', none, vs) →
            FS.Inv fs' ∧ Good c perms uid gid fs' (vs ++ P) ∧ name ∈ vs := by
          intro he
          simp only [Prod.mk.injEq, true_and] at he
          obtain ⟨rfl, rfl⟩ := he
          exact ⟨hi1, by simpa using hg1, by simp⟩
        split at h
        · exact leaf h
        · split at h
          · rename_i es _
            -- the fold over the entries, for any accumulator that is still successful
            have fold : ∀ (l : List StatInfo) (f0 : FS) (v0 : List Text) (f' : FS) (v' : List Text),
                FS.Inv f0 → Good c perms uid gid f0 (v0 ++ P) → name ∈ v0 →
                l.foldl (fun (acc : FS × Option Err × List Text) e =>
                  match acc with
                  | (_, some _, _) => acc
                  | (fs', none, vs) =>
                    let r := walkDir c (fun fs p => mutatePermissionsDirect c fs p perms uid gid) fuel fs'
                      (join2 name e.name) e.isDir
                    (r.1, r.2.1, vs ++ r.2.2)) (f0, none, v0) = (f', none, v') →
                FS.Inv f' ∧ Good c perms uid gid f' (v' ++ P) ∧ name ∈ v' := by
              intro l
              induction l with
              | nil =>
                intro f0 v0 f' v' h0 g0 n0 he
                simp only [List.foldl, Prod.mk.injEq, true_and] at he
                obtain ⟨rfl, rfl⟩ := he
                exact ⟨h0, g0, n0⟩
              | cons e rest ihl =>
                intro f0 v0 f' v' h0 g0 n0 he
                simp only [List.foldl] at he
                cases hw : walkDir c (fun fs p => mutatePermissionsDirect c fs p perms uid gid) fuel f0
                    (join2 name e.name) e.isDir with
                | mk f1 r1 =>
                  obtain ⟨e1, v1⟩ := r1
                  simp only [hw] at he
                  cases e1 with
                  | some er =>
                    -- an error sticks: the fold cannot end without one
                    exfalso
                    have stuck : ∀ (l : List StatInfo) (x : FS) (y : List Text),
                        (l.foldl (fun (acc : FS × Option Err × List Text) e =>
                          match acc with
                          | (_, some _, _) => acc
                          | (fs', none, vs) =>
                            let r := walkDir c (fun fs p => mutatePermissionsDirect c fs p perms uid gid) fuel fs'
                              (join2 name e.name) e.isDir
                            (r.1, r.2.1, vs ++ r.2.2)) (x, some er, y)).2.1 = some er := by
                      intro l
                      induction l with
                      | nil => intro x y; rfl
                      | cons _ _ ih2 => intro x y; simp only [List.foldl]; exact ih2 x y
                    have := stuck rest f1 (v0 ++ v1)
                    rw [he] at this
                    cases this
                  | none =>
                    obtain ⟨h1, g1, _⟩ := ih f0 f1 (join2 name e.name) e.isDir v1 (v0 ++ P) h0 g0 hw
                    apply ihl f1 (v0 ++ v1) f' v' h1 _ (by simp [n0]) he
                    apply good_mono c perms uid gid f1 _ _ _ g1
                    intro p hp; simp only [List.mem_append] at hp ⊢
                    rcases hp with (hp | hp) | hp
                    · exact Or.inr (Or.inl hp)
                    · exact Or.inl hp
                    · exact Or.inr (Or.inr hp)
            exact fold es fs1 [name] fs' vs hi1 (by simpa using hg1) (by simp) h
          · simp at h
          · exact leaf h

theorem inv_liftE (r : FS × Option Err) (h : FS.Inv r.1) : FS.Inv (liftE r).1 := h

/-- every iteration of `mutatePaths`, successful or not, keeps the graph invariant -/
theorem inv_mutateOne (c : Cfg) (fs : FS) (m : Mutation) (hi : FS.Inv fs) : FS.Inv (mutateOne c fs m).1 := by
  by_cases hk : m.type ∈ [tDirectory, tEmptyFile, tHardlink, tSymlink, tPermissions]
  · simp only [List.mem_cons, List.mem_nil_iff, or_false] at hk
    have hp : ∀ fs1, FS.Inv fs1 → FS.Inv (mutatePermissions c fs1 m).1 := fun fs1 h => inv_mpd c fs1 _ _ _ _ h
    rcases hk with hk | hk | hk | hk | hk
    · rw [mutateOne_directory c fs m hk]; exact inv_andThen _ _ (inv_mutateDirectory c fs m hi) hp
    · rw [mutateOne_emptyFile c fs m hk]; exact inv_andThen _ _ (inv_mutateEmptyFile c fs m hi) hp
    · rw [mutateOne_hardlink c fs m hk]; exact inv_andThen _ _ (inv_mutateHardLink c fs m hi) hp
    · rw [mutateOne_symlink c fs m hk]; exact inv_andThen _ _ (inv_mutateSymLink c fs m hi) hp
    · rw [mutateOne_permissions c fs m hk]; exact hp fs hi
  · rw [mutateOne_unknown c fs m hk]; exact hi

theorem inv_mutatePaths (c : Cfg) (ms : List Mutation) : ∀ (fs : FS), FS.Inv fs → FS.Inv (mutatePaths c fs ms).1 := by
  induction ms with
  | nil => intro fs hi; exact hi
  | cons m rest ih =>
    intro fs hi
    unfold mutatePaths at ih ⊢
    rw [seqM_cons]
    exact inv_andThen _ _ (inv_mutateOne c fs m hi) ih

/-- a successful `Link(old, new)` -/
theorem link_ok {c : Cfg} {fs fs' : FS} {o n : Text} (h : act c fs (.link o n) = (fs', none)) :
    ∃ pi t, getNode c fs (dir n) = .ok pi ∧ (fs.node pi).dir = true ∧ getNode c fs o = .ok t ∧
      fs.lookup pi (base n) = none ∧
      fs' = (fs.link pi (base n) t).modify t fun nd => { nd with nlink := nd.nlink + 1 } := by
  simp only [act, step, linkOp, parentOf] at h
  cases hg : getNode c fs (dir n) with
  | error e => simp [hg, errOf] at h
  | ok pi =>
    simp only [hg] at h
    by_cases hd : (fs.node pi).dir = true
    · simp only [hd, Bool.not_true, Bool.false_eq_true, if_false] at h
      cases ho : getNode c fs o with
      | error e => simp [ho, errOf] at h
      | ok t =>
        simp only [ho] at h
        cases htd : (fs.node t).dir with
        | true => simp [htd, errOf] at h
        | false =>
        simp only [htd, Bool.false_eq_true, if_false] at h
        cases hdn : dotName (base n) with
        | true => simp [hdn, errOf] at h
        | false =>
        simp only [hdn, Bool.false_eq_true, if_false] at h
        cases hl : fs.lookup pi (base n) with
        | some x => simp [hl, errOf] at h
        | none =>
          simp only [hl, Option.isSome_none, Bool.false_eq_true, if_false, Prod.mk.injEq] at h
          refine ⟨pi, t, rfl, hd, rfl, hl, ?_⟩
          rw [← h.1]
    · simp [hd, errOf] at h

/-- entering an existing node under a free name extends the graph -/
theorem ext_link {fs : FS} (pi t : Ino) (b : Name) (hd : (fs.node pi).dir = true)
    (hfree : fs.lookup pi b = none) :
    Ext fs ((fs.link pi b t).modify t fun nd => { nd with nlink := nd.nlink + 1 }) ∧
    ((fs.link pi b t).modify t fun nd => { nd with nlink := nd.nlink + 1 }).lookup pi b = some t := by
  have hpl := dir_lt fs pi hd
  -- the nodes of the new state
  have proj : ∀ {α : Type} (g : Inode → α) (x : FS) (i : Ino) (f : Inode → Inode), (∀ n, g (f n) = g n) →
      ∀ j, g ((x.modify i f).node j) = g (x.node j) := by
    intro α g x i f hf j
    rw [node_modify]; split
    · rename_i h; rw [h.1]; exact hf _
    · rfl
  have hnode : ∀ j, (((fs.link pi b t).modify t fun nd => { nd with nlink := nd.nlink + 1 }).node j).dir = (fs.node j).dir ∧
      (((fs.link pi b t).modify t fun nd => { nd with nlink := nd.nlink + 1 }).node j).isSymlink = (fs.node j).isSymlink ∧
      (((fs.link pi b t).modify t fun nd => { nd with nlink := nd.nlink + 1 }).node j).target = (fs.node j).target ∧
      (((fs.link pi b t).modify t fun nd => { nd with nlink := nd.nlink + 1 }).node j).children =
        (if j = pi then setChild (fs.node pi).children b t else (fs.node j).children) := by
    intro j
    refine ⟨?_, ?_, ?_, ?_⟩
    · exact (proj (·.dir) (fs.link pi b t) t (fun nd => { nd with nlink := nd.nlink + 1 }) (fun n => rfl) j).trans
        (proj (·.dir) fs pi (fun nd => { nd with children := setChild nd.children b t }) (fun n => rfl) j)
    · exact (proj (·.isSymlink) (fs.link pi b t) t (fun nd => { nd with nlink := nd.nlink + 1 }) (fun n => rfl) j).trans
        (proj (·.isSymlink) fs pi (fun nd => { nd with children := setChild nd.children b t }) (fun n => rfl) j)
    · exact (proj (·.target) (fs.link pi b t) t (fun nd => { nd with nlink := nd.nlink + 1 }) (fun n => rfl) j).trans
        (proj (·.target) fs pi (fun nd => { nd with children := setChild nd.children b t }) (fun n => rfl) j)
    · rw [show _ = _ from proj (·.children) (fs.link pi b t) t (fun nd => { nd with nlink := nd.nlink + 1 }) (fun n => rfl) j]
      simp only [FS.link, node_modify]
      by_cases hj : j = pi
      · subst hj; simp [hpl]
      · simp [hj]
  refine ⟨⟨fun i h => by rw [(hnode i).1]; exact h, ?_, fun d n j _ _ => ⟨(hnode j).2.1, (hnode j).2.2.1, (hnode j).1⟩⟩, ?_⟩
  · intro d n j _ hl
    simp only [FS.lookup, (hnode d).2.2.2] at hl ⊢
    by_cases hdp : d = pi
    · subst hdp
      have hnb : n ≠ b := by intro h; subst h; simp only [FS.lookup] at hfree; rw [hfree] at hl; cases hl
      simp only [if_true]; rw [lookup_setChild_ne _ _ _ _ hnb]; exact hl
    · simp only [hdp, if_false]; exact hl
  · simp only [FS.lookup, (hnode pi).2.2.2, if_true]; exact lookup_setChild_self _ _ _

/-- the graph invariant together with "mode bit 31 only on directories" -/
def WF (fs : FS) : Prop := FS.Inv fs ∧ DirBit fs

theorem wf_openCore (c : Cfg) (fs : FS) (p : Text) (flag perm : Nat) (hperm : perm.testBit 31 = false)
    (h : WF fs) : WF (openCore c fs p flag perm).1 :=
  ⟨openCore_inv c fs p flag perm h.1, openCore_dirBit c fs p flag perm hperm h.2⟩

theorem wf_readOrCreate (c : Cfg) (fs : FS) (p : Text) (h : WF fs) : WF (readOrCreate c fs p).1 := by
  unfold readOrCreate
  have := wf_openCore c fs p flagsReadOrCreate readOrCreatePerm (by decide) h
  split <;> (rename_i heq; simp only [heq] at this; exact this)

theorem wf_writeBack (c : Cfg) (fs : FS) (p t : Text) (h : WF fs) : WF (writeBack c fs p t).1 := by
  refine ⟨inv_act c fs _ h.1 (by intro p q h; cases h), ?_⟩
  simp only [writeBack, act, step]
  have := openCore_dirBit c fs p flagsWriteFile createPerm (by decide) h.2
  split
  · rename_i heq; simp only [heq] at this; exact this
  · rename_i heq; simp only [heq] at this; exact dirBit_setNode this _ _ rfl rfl

theorem wf_homeStep (c : Cfg) (fs : FS) (u : User) (h : WF fs) : WF (homeStep c fs u).1 := by
  unfold homeStep
  split
  · exact h
  · simp only []
    split
    · split <;> exact h
    · -- MkdirAll, Mkdir, Chown
      have h1 : WF (act c fs (.mkdirAll (dir (clean u.home)) homeParentPerm)).1 :=
        ⟨mkdirAll_inv c fs _ _ h.1, mkdirAll_dirBit c fs _ _ h.1 h.2⟩
      have hmk : ∀ x : FS, WF x → WF (act c x (.mkdir (clean u.home) homePerm)).1 := by
        intro x hx
        refine ⟨inv_step c x _ hx.1 hx.2, ?_⟩
        simp only [act, step]
        repeat' split
        all_goals (try exact hx.2)
        exact dirBit_create hx.2 _ _ _ (hx.2 _ (by simp_all)) (by intro _; rfl)
      have hch : ∀ x : FS, WF x → WF (act c x (.chown (clean u.home) u.uid u.gid)).1 := by
        intro x hx
        refine ⟨inv_act c x _ hx.1 (by intro p q h; cases h), ?_⟩
        simp only [act, step]
        split
        · exact hx.2
        · exact dirBit_setNode hx.2 _ _ rfl rfl
      show WF (liftE _).1
      simp only [liftE]
      generalize act c fs (.mkdirAll (dir (clean u.home)) homeParentPerm) = r1 at h1
      rcases r1 with ⟨f1, _ | e⟩
      · simp only [andThen]
        have h2 := hmk f1 h1
        generalize act c f1 (.mkdir (clean u.home) homePerm) = r2 at h2
        rcases r2 with ⟨f2, _ | e⟩
        · exact hch f2 h2
        · exact h2
      · exact h1
    · exact h
    · exact h

theorem wf_seqM_home (c : Cfg) (us : List User) : ∀ fs, WF fs → WF (seqM (homeStep c) fs us).1 := by
  induction us with
  | nil => intro fs h; exact h
  | cons u rest ih =>
    intro fs h
    rw [seqM_cons]
    have h1 := wf_homeStep c fs u h
    generalize homeStep c fs u = r at h1
    rcases r with ⟨f1, _ | e⟩
    · exact ih f1 h1
    · exact h1

end Apko.Accounts
