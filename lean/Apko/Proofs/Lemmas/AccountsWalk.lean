import Apko.Proofs.Lemmas.AccountsExt
/-! The recursive `directory` mutation: every path the walk visits ends with the declared
permission bits and owner (the callbacks all set the same values, and change nothing else). -/
namespace Apko.Accounts
open Apko Apko.Path Apko.FS Apko.Formats

/-- node `n` carries the declared attributes -/
def Attr (perms uid gid : Nat) (n : Inode) : Prop := permBitsOK n perms = true ∧ ownerOK n uid gid = true

/-- every path of `P` resolves to a node with the declared attributes -/
def Good (c : Cfg) (perms uid gid : Nat) (fs : FS) (P : List Text) : Prop :=
  ∀ p ∈ P, ∃ i, getNode c fs p = .ok i ∧ Attr perms uid gid (fs.node i)

theorem attr_setAttrs (fs : FS) (i : Ino) (hl : i < fs.nodes.length) (perms uid gid : Nat) :
    Attr perms uid gid ((setAttrs fs i (permMode perms) uid gid).node i) := by
  simp [Attr, node_setAttrs, hl, permBitsOK, ownerOK, unixPerm_permMode]

/-- one successful callback: the path joins the good ones, the others stay good -/
theorem good_cb (c : Cfg) (perms uid gid : Nat) (fs fs1 : FS) (P : List Text) (q : Text)
    (hi : FS.Inv fs) (hg : Good c perms uid gid fs P)
    (h : mutatePermissionsDirect c fs q perms uid gid = (fs1, none)) :
    FS.Inv fs1 ∧ Good c perms uid gid fs1 (q :: P) := by
  have hi1 : FS.Inv fs1 := by have := inv_mpd c fs q perms uid gid hi; rw [h] at this; exact this
  obtain ⟨i, hq, rfl⟩ := mpd_ok h
  have hl := getNode_live hi c q i hq
  have hsh := shape_setAttrs fs i (permMode perms) (permMode_bit27 perms) uid gid
  refine ⟨hi1, ?_⟩
  intro p hp
  rcases List.mem_cons.mp hp with rfl | hp
  · exact ⟨i, by rw [getNode_shape hsh]; exact hq, attr_setAttrs fs i hl perms uid gid⟩
  · obtain ⟨j, hj, ha⟩ := hg p hp
    refine ⟨j, by rw [getNode_shape hsh]; exact hj, ?_⟩
    by_cases hji : j = i
    · subst hji; exact attr_setAttrs fs j hl perms uid gid
    · rw [node_setAttrs]; simp only [hji, false_and, if_false]; exact ha

theorem good_mono (c : Cfg) (perms uid gid : Nat) (fs : FS) (P Q : List Text) (h : ∀ p ∈ Q, p ∈ P)
    (hg : Good c perms uid gid fs P) : Good c perms uid gid fs Q := fun p hp => hg p (h p hp)

/-- the walk: all visited paths (and those that were good before) are good afterwards -/
theorem walkDir_good (c : Cfg) (perms uid gid : Nat) :
    ∀ (fuel : Nat) (fs fs' : FS) (name : Text) (isDir : Bool) (vs P : List Text),
      FS.Inv fs → Good c perms uid gid fs P →
      walkDir c (fun fs p => mutatePermissionsDirect c fs p perms uid gid) fuel fs name isDir = (fs', none, vs) →
      FS.Inv fs' ∧ Good c perms uid gid fs' (vs ++ P) ∧ name ∈ vs := by
  intro fuel
  induction fuel with
  | zero => intro fs fs' name isDir vs P _ _ h; simp [walkDir] at h
  | succ fuel ih =>
    intro fs fs' name isDir vs P hi hg h
    unfold walkDir at h
    cases hc : mutatePermissionsDirect c fs name perms uid gid with
    | mk fs1 r =>
      cases r with
      | some e => simp [hc] at h
      | none =>
        obtain ⟨hi1, hg1⟩ := good_cb c perms uid gid fs fs1 P name hi hg hc
        simp only [hc] at h
        -- a leaf (or an unreadable / odd directory): nothing more happens
        have leaf : (fs1, (none : Option Err), [name]) = (fs', none, vs) →
            FS.Inv fs' ∧ Good c perms uid gid fs' (vs ++ P) ∧ name ∈ vs := by
          intro he
          simp only [Prod.mk.injEq, true_and] at he
          obtain ⟨rfl, rfl⟩ := he
          exact ⟨hi1, by simpa using hg1, by simp⟩
        split at h
        · exact leaf h
        · split at h
          · rename_i es _
            -- the fold over the entries, for any accumulator that is still successful
            have fold : ∀ (l : List StatInfo) (f0 : FS) (v0 : List Text) (f' : FS) (v' : List Text),
                FS.Inv f0 → Good c perms uid gid f0 (v0 ++ P) → name ∈ v0 →
                l.foldl (fun (acc : FS × Option Err × List Text) e =>
                  match acc with
                  | (_, some _, _) => acc
                  | (fs', none, vs) =>
                    let r := walkDir c (fun fs p => mutatePermissionsDirect c fs p perms uid gid) fuel fs'
                      (join2 name e.name) e.isDir
                    (r.1, r.2.1, vs ++ r.2.2)) (f0, none, v0) = (f', none, v') →
                FS.Inv f' ∧ Good c perms uid gid f' (v' ++ P) ∧ name ∈ v' := by
              intro l
              induction l with
              | nil =>
                intro f0 v0 f' v' h0 g0 n0 he
                simp only [List.foldl, Prod.mk.injEq, true_and] at he
                obtain ⟨rfl, rfl⟩ := he
                exact ⟨h0, g0, n0⟩
              | cons e rest ihl =>
                intro f0 v0 f' v' h0 g0 n0 he
                simp only [List.foldl] at he
                cases hw : walkDir c (fun fs p => mutatePermissionsDirect c fs p perms uid gid) fuel f0
                    (join2 name e.name) e.isDir with
                | mk f1 r1 =>
                  obtain ⟨e1, v1⟩ := r1
                  simp only [hw] at he
                  cases e1 with
                  | some er =>
                    -- an error sticks: the fold cannot end without one
                    exfalso
                    have stuck : ∀ (l : List StatInfo) (x : FS) (y : List Text),
                        (l.foldl (fun (acc : FS × Option Err × List Text) e =>
                          match acc with
                          | (_, some _, _) => acc
                          | (fs', none, vs) =>
                            let r := walkDir c (fun fs p => mutatePermissionsDirect c fs p perms uid gid) fuel fs'
                              (join2 name e.name) e.isDir
                            (r.1, r.2.1, vs ++ r.2.2)) (x, some er, y)).2.1 = some er := by
                      intro l
                      induction l with
                      | nil => intro x y; rfl
                      | cons _ _ ih2 => intro x y; simp only [List.foldl]; exact ih2 x y
                    have := stuck rest f1 (v0 ++ v1)
                    rw [he] at this
                    cases this
                  | none =>
                    obtain ⟨h1, g1, _⟩ := ih f0 f1 (join2 name e.name) e.isDir v1 (v0 ++ P) h0 g0 hw
                    apply ihl f1 (v0 ++ v1) f' v' h1 _ (by simp [n0]) he
                    apply good_mono c perms uid gid f1 _ _ _ g1
                    intro p hp; simp only [List.mem_append] at hp ⊢
                    rcases hp with (hp | hp) | hp
                    · exact Or.inr (Or.inl hp)
                    · exact Or.inl hp
                    · exact Or.inr (Or.inr hp)
            exact fold es fs1 [name] fs' vs hi1 (by simpa using hg1) (by simp) h
          · simp at h
          · exact leaf h

theorem inv_liftE (r : FS × Option Err) (h : FS.Inv r.1) : FS.Inv (liftE r).1 := h

/-- every iteration of `mutatePaths`, successful or not, keeps the graph invariant -/
theorem inv_mutateOne (c : Cfg) (fs : FS) (m : Mutation) (hi : FS.Inv fs) : FS.Inv (mutateOne c fs m).1 := by
  by_cases hk : m.type ∈ [tDirectory, tEmptyFile, tHardlink, tSymlink, tPermissions]
  · simp only [List.mem_cons, List.mem_nil_iff, or_false] at hk
    have hp : ∀ fs1, FS.Inv fs1 → FS.Inv (mutatePermissions c fs1 m).1 := fun fs1 h => inv_mpd c fs1 _ _ _ _ h
    rcases hk with hk | hk | hk | hk | hk
    · rw [mutateOne_directory c fs m hk]; exact inv_andThen _ _ (inv_mutateDirectory c fs m hi) hp
    · rw [mutateOne_emptyFile c fs m hk]; exact inv_andThen _ _ (inv_mutateEmptyFile c fs m hi) hp
    · rw [mutateOne_hardlink c fs m hk]; exact inv_andThen _ _ (inv_mutateHardLink c fs m hi) hp
    · rw [mutateOne_symlink c fs m hk]; exact inv_andThen _ _ (inv_mutateSymLink c fs m hi) hp
    · rw [mutateOne_permissions c fs m hk]; exact hp fs hi
  · rw [mutateOne_unknown c fs m hk]; exact hi

theorem inv_mutatePaths (c : Cfg) (ms : List Mutation) : ∀ (fs : FS), FS.Inv fs → FS.Inv (mutatePaths c fs ms).1 := by
  induction ms with
  | nil => intro fs hi; exact hi
  | cons m rest ih =>
    intro fs hi
    unfold mutatePaths at ih ⊢
    rw [seqM_cons]
    exact inv_andThen _ _ (inv_mutateOne c fs m hi) ih

end Apko.Accounts
