/-
C16 / C07: exactly which records `sortTarHeaders` emits for a tree-shaped header list: every record
that is not top-level, and the top-level directories that have a child.  (Top-level files and
childless top-level directories are dropped: F16h / F07a.)
-/
import Apko.Proofs.Lemmas.FormatsSortTree

namespace Apko.Formats
open Apko

theorem go_mem (hs : List FileRec) (fuel : Nat) : ∀ (dirs : List (Text × FileRec)) (x : List FileRec),
    sortChildren.go hs fuel dirs = some x →
    ∀ h, h ∈ x ↔ ∃ p ∈ dirs, h = p.2 ∨ h ∈ (sortChildren hs fuel (childrenOf hs p.1)).getD [] := by
  intro dirs
  induction dirs with
  | nil =>
    intro x hx h
    rw [sortChildren.go.eq_1] at hx
    simp only [Option.some.injEq] at hx; subst hx
    simp
  | cons p rest ih =>
    intro x hx h
    obtain ⟨n, d⟩ := p
    rw [sortChildren.go.eq_2] at hx
    split at hx
    · next sub tl hsub htl =>
      simp only [Option.some.injEq] at hx; subst hx
      simp only [List.cons_append, List.mem_cons, List.mem_append, ih tl htl h, hsub, Option.getD_some,
        exists_eq_or_imp]
      constructor
      · rintro (h1 | h1 | h1)
        · exact Or.inl (Or.inl h1)
        · exact Or.inl (Or.inr h1)
        · exact Or.inr h1
      · rintro ((h1 | h1) | h1)
        · exact Or.inl h1
        · exact Or.inr (Or.inl h1)
        · exact Or.inr (Or.inr h1)
    · exact absurd hx (by simp)

theorem mem_dirsOf (hs : List FileRec) (sorted : List Text) (p : Text × FileRec) :
    p ∈ dirsOf hs sorted ↔ p.1 ∈ sorted ∧ lookupHeader hs p.1 = some p.2 ∧ p.2.isDir = true := by
  simp only [dirsOf, List.mem_filterMap]
  constructor
  · rintro ⟨n, hn, hm⟩
    split at hm
    · next h' hl =>
      split at hm
      · next hd => simp only [Option.some.injEq] at hm; subst hm; exact ⟨hn, hl, hd⟩
      · exact absurd hm (by simp)
    · exact absurd hm (by simp)
  · rintro ⟨h1, h2, h3⟩
    exact ⟨p.1, h1, by simp [h2, h3]⟩

theorem mem_filesOf (hs : List FileRec) (sorted : List Text) (x : FileRec) :
    x ∈ filesOf hs sorted ↔ x.isDir = false ∧ ∃ c ∈ sorted, lookupHeader hs c = some x := by
  simp only [filesOf, List.mem_filter, List.mem_filterMap, Bool.not_eq_true']
  exact ⟨fun ⟨h1, h2⟩ => ⟨h2, h1⟩, fun ⟨h1, h2⟩ => ⟨h2, h1⟩⟩

/-- members of one level of `sortChildrenTarHeaders` -/
theorem sortChildren_mem_step (hs : List FileRec) (fuel : Nat) (children : List Text) (out : List FileRec)
    (h : sortChildren hs (fuel + 1) children = some out) (x : FileRec) :
    x ∈ out ↔ (x.isDir = false ∧ ∃ c ∈ children, lookupHeader hs c = some x) ∨
      (∃ c ∈ children, ∃ d, lookupHeader hs c = some d ∧ d.isDir = true ∧
        (x = d ∨ x ∈ (sortChildren hs fuel (childrenOf hs c)).getD [])) := by
  rw [sortChildren.eq_2] at h
  change Option.map (fun y => filesOf hs (sortTexts children) ++ y)
    (sortChildren.go hs fuel (dirsOf hs (sortTexts children))) = some out at h
  simp only [Option.map_eq_some_iff] at h
  obtain ⟨y, hy, rfl⟩ := h
  rw [List.mem_append, mem_filesOf, go_mem hs fuel _ y hy x]
  simp only [mem_sortTexts]
  constructor
  · rintro (h1 | ⟨p, hp, h2⟩)
    · exact Or.inl h1
    · rw [mem_dirsOf, mem_sortTexts] at hp
      exact Or.inr ⟨p.1, hp.1, p.2, hp.2.1, hp.2.2, h2⟩
  · rintro (h1 | ⟨c, hc, d, hl, hd, h2⟩)
    · exact Or.inl h1
    · exact Or.inr ⟨(c, d), by rw [mem_dirsOf, mem_sortTexts]; exact ⟨hc, hl, hd⟩, h2⟩

theorem weight_child (hs : List FileRec) (ht : TreeP hs) (n m : Text) (hn : cleanRel n = true)
    (hm : m ∈ childrenOf hs n) : cleanRel m = true ∧ belowB n m = true ∧ weight hs m < weight hs n := by
  obtain ⟨⟨d, hd, hname⟩, hdir⟩ := (mem_childrenOf_iff hs ht n m).mp hm
  have hdc := ht.clean d hd
  have hmc : cleanRel m = true := hname ▸ hdc
  have hbelow : belowB n m = true := child_below m n hmc hdir (cleanRel_ne_dot n hn)
  refine ⟨hmc, hbelow, ?_⟩
  unfold weight
  apply countP_lt_of _ _ d hs
  · intro x _ hx; exact belowB_trans n m _ hbelow hx
  · exact hd
  · rw [pathClean_cleanRel d.name hdc, hname]; exact hbelow
  · rw [pathClean_cleanRel d.name hdc, hname]; exact belowB_irrefl m

/-- the block below a directory: exactly the records strictly below it -/
theorem sortChildren_mem (hs : List FileRec) (ht : TreeP hs) :
    ∀ (fuel : Nat) (n : Text), cleanRel n = true → weight hs n < fuel →
      ∃ out, sortChildren hs fuel (childrenOf hs n) = some out ∧
        ∀ x, x ∈ out ↔ (x ∈ hs ∧ belowB n x.name = true) := by
  intro fuel
  induction fuel with
  | zero => intro n _ h; omega
  | succ fuel ih =>
    intro n hn hw
    obtain ⟨out, hout⟩ := sortChildren_total hs ht.clean (fuel + 1) n hn hw
    refine ⟨out, hout, ?_⟩
    intro x
    rw [sortChildren_mem_step hs fuel _ out hout x]
    have hchild : ∀ c ∈ childrenOf hs n, ∀ d, lookupHeader hs c = some d → d ∈ hs ∧ belowB n d.name = true := by
      intro c hc d hl
      obtain ⟨h1, h2⟩ := (lookupHeader_iff hs ht c d).mp hl
      exact ⟨h1, by rw [h2]; exact (weight_child hs ht n c hn hc).2.1⟩
    have hsub : ∀ c ∈ childrenOf hs n, ∃ o, sortChildren hs fuel (childrenOf hs c) = some o ∧
        ∀ x, x ∈ o ↔ (x ∈ hs ∧ belowB c x.name = true) := by
      intro c hc
      obtain ⟨h1, _, h3⟩ := weight_child hs ht n c hn hc
      exact ih c h1 (by omega)
    constructor
    · rintro (⟨_, c, hc, hl⟩ | ⟨c, hc, d, hl, _, hx | hx⟩)
      · exact hchild c hc x hl
      · subst hx; exact hchild c hc x hl
      · obtain ⟨o, ho, hiff⟩ := hsub c hc
        rw [ho, Option.getD_some, hiff] at hx
        exact ⟨hx.1, belowB_trans n c _ (weight_child hs ht n c hn hc).2.1 hx.2⟩
    · rintro ⟨hx, hb⟩
      obtain ⟨r, hr, hrn, hor⟩ := chain_to_child hs ht n x.name.length x (Nat.le_refl _) hx hb
      have hrc : r.name ∈ childrenOf hs n := (mem_childrenOf_iff hs ht n r.name).mpr ⟨⟨r, hr, rfl⟩, hrn⟩
      have hrl : lookupHeader hs r.name = some r := (lookupHeader_iff hs ht r.name r).mpr ⟨hr, rfl⟩
      rcases hor with e | ⟨hrd, hrb⟩
      · subst e
        cases hd : x.isDir with
        | false => exact Or.inl ⟨rfl, x.name, hrc, hrl⟩
        | true => exact Or.inr ⟨x.name, hrc, x, hrl, hd, Or.inl rfl⟩
      · obtain ⟨o, ho, hiff⟩ := hsub r.name hrc
        exact Or.inr ⟨r.name, hrc, r, hrl, hrd, Or.inr (by rw [ho, Option.getD_some, hiff]; exact ⟨hx, hrb⟩)⟩

/-- which records a tree-shaped header list keeps: all but top-level files and childless top-level
directories -/
def emitted (hs : List FileRec) (x : FileRec) : Bool :=
  pathDir x.name != ['.'] || (x.isDir && hs.any fun y => pathDir y.name == x.name)

theorem emitted_iff (hs : List FileRec) (x : FileRec) :
    emitted hs x = true ↔ (pathDir x.name ≠ ['.'] ∨ (x.isDir = true ∧ ∃ y ∈ hs, pathDir y.name = x.name)) := by
  simp [emitted]

theorem mem_top (hs : List FileRec) (ht : TreeP hs) (t : Text) :
    t ∈ sortTexts ((dedupTexts (hs.map fun h => pathDir (pathClean h.name))).filter fun d => pathDir d = ['.']) ↔
      (∃ y ∈ hs, pathDir y.name = t) ∧ pathDir t = ['.'] := by
  rw [mem_sortTexts, List.mem_filter, mem_dedupTexts, List.mem_map]
  simp only [decide_eq_true_eq]
  constructor
  · rintro ⟨⟨y, hy, e⟩, h2⟩
    rw [pathClean_cleanRel y.name (ht.clean y hy)] at e
    exact ⟨⟨y, hy, e⟩, h2⟩
  · rintro ⟨⟨y, hy, e⟩, h2⟩
    exact ⟨⟨y, hy, by rw [pathClean_cleanRel y.name (ht.clean y hy)]; exact e⟩, h2⟩

/-- `sortTarHeaders` on a tree: terminates, and emits exactly the `emitted` records -/
theorem sortHeaders_mem (hs : List FileRec) (ht : TreeP hs) :
    ∃ out, sortHeaders hs = some out ∧ ∀ x, x ∈ out ↔ (x ∈ hs ∧ emitted hs x = true) := by
  obtain ⟨out, hout⟩ := sortHeaders_total hs ht.clean
  refine ⟨out, hout, ?_⟩
  unfold sortHeaders at hout
  simp only [] at hout
  intro x
  rw [sortChildren_mem_step hs (hs.length + 1) _ out hout x, emitted_iff]
  have hblock : ∀ d ∈ hs, ∃ o, sortChildren hs (hs.length + 1) (childrenOf hs d.name) = some o ∧
      ∀ x, x ∈ o ↔ (x ∈ hs ∧ belowB d.name x.name = true) := by
    intro d hd
    exact sortChildren_mem hs ht (hs.length + 1) d.name (ht.clean d hd) (by have := weight_le hs d.name; omega)
  constructor
  · rintro (⟨hxd, t, ht', hl⟩ | ⟨t, ht', d, hl, hdd, hx | hx⟩)
    · exfalso
      obtain ⟨hx, hxn⟩ := (lookupHeader_iff hs ht t x).mp hl
      obtain ⟨⟨y, hy, hyd⟩, _⟩ := (mem_top hs ht t).mp ht'
      obtain ⟨p, hp, hpd, hpn⟩ := ht.parent y hy (by rw [hyd, ← hxn]; exact cleanRel_ne_dot _ (ht.clean x hx))
      have : p = x := ht.distinct p hp x hx (by rw [hpn, hyd, hxn])
      rw [this, hxd] at hpd
      exact absurd hpd (by simp)
    · subst hx
      obtain ⟨hx, hxn⟩ := (lookupHeader_iff hs ht t x).mp hl
      obtain ⟨⟨y, hy, hyd⟩, _⟩ := (mem_top hs ht t).mp ht'
      exact ⟨hx, Or.inr ⟨hdd, y, hy, by rw [hyd, hxn]⟩⟩
    · obtain ⟨hd, hdn⟩ := (lookupHeader_iff hs ht t d).mp hl
      obtain ⟨o, ho, hiff⟩ := hblock d hd
      rw [← hdn, ho, Option.getD_some, hiff] at hx
      refine ⟨hx.1, Or.inl ?_⟩
      rw [Ne, dir_dot_of_no_slash x.name (ht.clean x hx.1)]
      exact fun h => h (below_has_slash _ _ hx.2)
  · rintro ⟨hx, hor⟩
    by_cases hnd : pathDir x.name = ['.']
    · rcases hor with h | ⟨hxd, y, hy, hyd⟩
      · exact absurd hnd h
      · have htop : x.name ∈ sortTexts ((dedupTexts (hs.map fun h => pathDir (pathClean h.name))).filter
            fun d => pathDir d = ['.']) := (mem_top hs ht x.name).mpr ⟨⟨y, hy, hyd⟩, hnd⟩
        exact Or.inr ⟨x.name, htop, x, (lookupHeader_iff hs ht x.name x).mpr ⟨hx, rfl⟩, hxd, Or.inl rfl⟩
    · obtain ⟨r, hr, hr1, hr2, hr3⟩ := chain_to_top hs ht x.name.length x (Nat.le_refl _) hx hnd
      obtain ⟨r', hr', hr'n, _⟩ := chain_to_child hs ht r.name x.name.length x (Nat.le_refl _) hx hr3
      have htop : r.name ∈ sortTexts ((dedupTexts (hs.map fun h => pathDir (pathClean h.name))).filter
          fun d => pathDir d = ['.']) := (mem_top hs ht r.name).mpr ⟨⟨r', hr', hr'n⟩, hr1⟩
      obtain ⟨o, ho, hiff⟩ := hblock r hr
      exact Or.inr ⟨r.name, htop, r, (lookupHeader_iff hs ht r.name r).mpr ⟨hr, rfl⟩, hr2,
        Or.inr (by rw [ho, Option.getD_some, hiff]; exact ⟨hx, hr3⟩)⟩

end Apko.Formats
