import Apko.Proofs.Lemmas.ConfineCache
/-!
`Dir` of an arbitrary absolute path, the directory and file names derived from an ETag (`cacheDirFromFile`,
`cacheFileFromEtag`), the name chosen by `os.CreateTemp`, and the list of host paths the caching transport
writes, on the normal form of `ConfineCache`.
-/
namespace Apko.Confine
open Apko Apko.Path

/-! ### `Dir` of an absolute path is a cleaned absolute path -/

theorem last_segment (p : Text) : '/' ∉ p ∨ ∃ a x, p = a ++ '/' :: x ∧ '/' ∉ x := by
  induction p with
  | nil => left; simp
  | cons c p ih =>
    rcases ih with h | ⟨a, x, h, hx⟩
    · by_cases hc : c = '/'
      · right; exact ⟨[], p, by simp [hc], h⟩
      · left; intro hm
        rcases List.mem_cons.1 hm with e | e
        · exact hc e.symm
        · exact h e
    · right; exact ⟨c :: a, x, by simp [h], hx⟩

theorem isAbs_uptoLastSlash {p : Text} (h : isAbs p = true) : isAbs (uptoLastSlash p) = true := by
  obtain ⟨q, rfl⟩ := isAbs_cons h
  rcases last_segment ('/' :: q) with hn | ⟨a, x, hp, hx⟩
  · exact absurd (by simp) hn
  · rw [hp, uptoLastSlash_append _ _ hx]
    cases a with
    | nil => rfl
    | cons c a' =>
      simp at hp
      simp [isAbs, hp.1.symm]

theorem dir_abs_normal {p : Text} (h : isAbs p = true) : ∃ out, NL out ∧ dir p = absOf out := by
  obtain ⟨out, hn, hc, -⟩ := clean_abs_normal (isAbs_uptoLastSlash h)
  exact ⟨out, hn, hc⟩

theorem base_absOf_ne_dotdot {out : List Name} (hn : NL out) : base (absOf out) ≠ dotdot := by
  rcases List.eq_nil_or_concat out with h | ⟨l, x, h⟩
  · subst h; decide
  · rw [List.concat_eq_append] at h
    subst h
    have hx := hn x (by simp)
    rw [base_absOf_snoc l hx]
    exact hx.1.2.2

/-- for an empty or absolute URL path the architecture directory is never `..` -/
theorem base_dir_ne_dotdot {path : Text} (h : path = [] ∨ isAbs path = true) : base (dir path) ≠ dotdot := by
  rcases h with h | h
  · subst h; decide
  · obtain ⟨out, hn, hd⟩ := dir_abs_normal h
    rw [hd]; exact base_absOf_ne_dotdot hn

/-! ### names derived from an ETag -/

/-- a non-empty text without `/` and `.` followed by an extension without `/` is one component that `Clean` keeps -/
theorem name_normal {e ext : Text} (he : e ≠ []) (hs : '/' ∉ e) (hd : '.' ∉ e) (hext : '/' ∉ ext) :
    Normal (e ++ ext) ∧ '/' ∉ (e ++ ext) := by
  cases e with
  | nil => exact absurd rfl he
  | cons c e' =>
    have hc : c ≠ '.' := fun h => hd (by simp [h])
    refine ⟨⟨by simp, ?_, ?_⟩, ?_⟩
    · simp [dot, hc]
    · simp [dotdot, hc]
    · intro hm
      rcases List.mem_append.1 hm with h | h
      · exact hs h
      · exact hext h

theorem etagExt_no_slash (cf : Text) : '/' ∉ etagExt cf := by
  unfold etagExt; split <;> decide

theorem cacheFileFromEtag_eq (cf e : Text) :
    cacheFileFromEtag cf e =
      if !hasPrefix (clean (join2 (cacheDirFromFile cf) (e ++ etagExt cf))) (cacheDirFromFile cf) then none
      else some (clean (join2 (cacheDirFromFile cf) (e ++ etagExt cf))) := rfl

/-- the directory `cacheDirFromFile` derives from an absolute cache file, in normal form -/
theorem cacheDirFromFile_normal {cf : Text} (h : isAbs cf = true) :
    ∃ D0 D, NL D0 ∧ NL D ∧ dir cf = absOf D0 ∧ cacheDirFromFile cf = absOf D ∧
      (D = D0 ∨ D = D0 ++ [T "APKINDEX"]) := by
  obtain ⟨D0, hn0, hd⟩ := dir_abs_normal h
  have hidx : Normal (T "APKINDEX") ∧ '/' ∉ T "APKINDEX" := by
    refine ⟨⟨by decide, by decide, by decide⟩, by decide⟩
  unfold cacheDirFromFile
  split
  · refine ⟨D0, D0 ++ [T "APKINDEX"], hn0, ?_, hd, ?_, Or.inr rfl⟩
    · exact NL_append hn0 (NL_cons hidx NL_nil)
    · rw [hd, join2_absOf hn0 hidx]
  · exact ⟨D0, D0, hn0, hn0, hd, hd, Or.inl rfl⟩

/-- `cacheFileFromEtag` never fails on a name without `/` and `.` and puts the file directly into
`cacheDirFromFile` -/
theorem cacheFileFromEtag_normal {cf e : Text} (h : isAbs cf = true) (he : e ≠ []) (hs : '/' ∉ e) (hd : '.' ∉ e) :
    ∃ D, NL (D ++ [e ++ etagExt cf]) ∧ cacheDirFromFile cf = absOf D ∧
      cacheFileFromEtag cf e = some (absOf (D ++ [e ++ etagExt cf])) := by
  obtain ⟨D0, D, -, hn, -, hc, -⟩ := cacheDirFromFile_normal h
  have hname := name_normal he hs hd (etagExt_no_slash cf)
  have hnl : NL (D ++ [e ++ etagExt cf]) := NL_append hn (NL_cons hname NL_nil)
  refine ⟨D, hnl, hc, ?_⟩
  rw [cacheFileFromEtag_eq, hc, join2_absOf hn hname, clean_absOf hnl, hasPrefix_absOf_snoc]
  rfl

/-! ### `os.CreateTemp(dir, "*.tmp")` -/

/-- the name `os.CreateTemp(dir, "*.tmp")` opens: `joinPath(dir, "") + nextRandom() + ".tmp"`, where
`joinPath` adds a separator unless `dir` ends with one; `rnd` is the decimal random string -/
def createTempName (dir rnd : Text) : Text :=
  (if hasSuffix dir slash then dir else dir ++ slash) ++ rnd ++ T ".tmp"

theorem hasSuffix_slash_iff (b : Text) : hasSuffix b slash = true ↔ b.reverse.head? = some '/' := by
  unfold hasSuffix slash
  have : (['/'] : Text).reverse = ['/'] := rfl
  rw [this]
  generalize b.reverse = r
  cases r with
  | nil => decide
  | cons c t =>
    simp only [List.isPrefixOf, List.head?_cons, Option.some.injEq, Bool.and_true, beq_iff_eq]
    exact eq_comm

theorem hasSuffix_absOf {D : List Name} (hn : NL D) : hasSuffix (absOf D) slash = decide (D = []) := by
  rcases List.eq_nil_or_concat D with h | ⟨l, x, h⟩
  · subst h; decide
  · rw [List.concat_eq_append] at h
    subst h
    have hx := hn x (by simp)
    have hne : l ++ [x] ≠ [] := by simp
    rw [decide_eq_false hne]
    cases hh : hasSuffix (absOf (l ++ [x])) slash with
    | false => rfl
    | true =>
      rw [hasSuffix_slash_iff, absOf_snoc] at hh
      simp only [List.reverse_append, List.reverse_cons] at hh
      cases hr : x.reverse with
      | nil => simp at hr; exact absurd hr hx.1.1
      | cons c y =>
        rw [hr] at hh
        simp at hh
        exact absurd (List.mem_reverse.1 (by rw [hr, hh]; simp)) hx.2

theorem tmp_name_normal {rnd : Text} (hr : '/' ∉ rnd) : Normal (rnd ++ T ".tmp") ∧ '/' ∉ (rnd ++ T ".tmp") := by
  have hlen : 4 ≤ (rnd ++ T ".tmp").length := by simp [T]
  refine ⟨⟨?_, ?_, ?_⟩, ?_⟩
  · intro e; rw [e] at hlen; simp at hlen
  · intro e; rw [e] at hlen; simp [dot] at hlen
  · intro e; rw [e] at hlen; simp [dotdot] at hlen
  · intro hm
    rcases List.mem_append.1 hm with h | h
    · exact hr h
    · revert h; decide

theorem createTempName_absOf {D : List Name} (hn : NL D) (rnd : Text) :
    createTempName (absOf D) rnd = absOf (D ++ [rnd ++ T ".tmp"]) := by
  unfold createTempName
  rw [hasSuffix_absOf hn, absOf_snoc]
  by_cases h : D = []
  · subst h; simp [absOf, joinWith]
  · simp [h, slash]

/-! ### what the caching transport writes (`cacheTransport.RoundTrip` → `fetchAndCache` → `get` →
`retrieveAndSaveFile` → `paths.AdvertiseCachedFile`) -/

/-- The host paths handed to *writing* calls on the etag route, in the code's order, for the request URL
(`path`, `esc`), the `ETag` header `hdr` of the GET response and the random string `rnd` drawn by `os.CreateTemp`:

* `cacheFile, err := cachePathFromURL(t.root, *request.URL)` — an error ends the round trip;
* `finalEtag, ok := etagFromResponse(r)`; `!ok` ends it ("GET response did not contain an etag");
* `cacheFileFromEtag(cacheFile, finalEtag)` — an error (the etag value is rejected) ends it;
* `cacheDir := filepath.Dir(etagFile)`; `os.MkdirAll(cacheDir, 0755)`;
* `os.CreateTemp(cacheDir, "*.tmp")`, then `tmp.Chmod`, `io.Copy(tmp, …)`, and in `AdvertiseCachedFile` `os.Remove(src)`;
* `os.Symlink(rel, etagFile)` — the advertised name (the link's *content* `rel` is not a path that is written).

`none`: nothing is written.  The call order is tied by `tie_cache_write_calls` (C18) to the regenerated call lists. -/
def cacheTransportWrites (root path esc : Text) (hdr : Option (List Text)) (rnd : Text) : Option (List Text) :=
  match cachePathFromURL root path esc with
  | none => none
  | some cacheFile =>
    match etagFromResponse hdr with
    | none => none
    | some etag =>
      match cacheFileFromEtag cacheFile etag with
      | none => none
      | some etagFile =>
        let cacheDir := dir etagFile
        some [cacheDir, createTempName cacheDir rnd, etagFile]

end Apko.Confine
