/-
Helper lemmas about the `path/filepath` models: `filepath.Clean`, `Dir`, `Base` and `Join` on clean
relative paths (non-empty components without '/', none of them "." or "..").
-/
import Apko.Proofs.Lemmas.FormatsPasswd
namespace Apko.Formats
open Apko

/-- a path component that filepath.Clean keeps: non-empty, no '/', not "." and not ".." -/
def normalComp (c : Text) : Bool := !c.isEmpty && !c.contains '/' && c != ['.'] && c != ['.', '.']
/-- clean relative path without "..": what filepath.Clean leaves alone (and not ".") -/
def cleanRel (p : Text) : Bool := (splitOnChar '/' p).all normalComp

theorem normalComp_spec (c : Text) :
    normalComp c = true ↔ c ≠ [] ∧ '/' ∉ c ∧ c ≠ ['.'] ∧ c ≠ ['.', '.'] := by
  simp [normalComp, and_assoc]

/-! ## list helpers -/

theorem dropWhile_append_of_all {α : Type} (p : α → Bool) (l r : List α) (h : ∀ x ∈ l, p x = true) :
    (l ++ r).dropWhile p = r.dropWhile p := by
  induction l with
  | nil => rfl
  | cons a l ih =>
    have ha : p a = true := h a (by simp)
    simp [ha, ih (fun x hx => h x (by simp [hx]))]

theorem takeWhile_append_of_all {α : Type} (p : α → Bool) (l r : List α) (h : ∀ x ∈ l, p x = true) :
    (l ++ r).takeWhile p = l ++ r.takeWhile p := by
  induction l with
  | nil => rfl
  | cons a l ih =>
    have ha : p a = true := h a (by simp)
    simp [ha, ih (fun x hx => h x (by simp [hx]))]

theorem joinWith_snoc (sep : Text) (cs : List Text) (b : Text) (h : cs ≠ []) :
    joinWith sep (cs ++ [b]) = joinWith sep cs ++ sep ++ b := by
  induction cs with
  | nil => exact absurd rfl h
  | cons a cs ih =>
    cases cs with
    | nil => simp [joinWith]
    | cons c rest =>
      have := ih (by simp)
      simp only [List.cons_append] at this ⊢
      simp only [joinWith, this, List.append_assoc]

/-! ## `cleanComps` on normal components -/

theorem cleanComps_normal (rooted : Bool) (cs : List Text) (h : ∀ c ∈ cs, normalComp c = true) :
    ∀ (acc rest : List Text),
      cleanComps rooted acc (cs ++ rest) = cleanComps rooted (cs.reverse ++ acc) rest := by
  induction cs with
  | nil => intro acc rest; rfl
  | cons c cs ih =>
    intro acc rest
    obtain ⟨h1, _, h3, h4⟩ := (normalComp_spec c).1 (h c (by simp))
    have := ih (fun x hx => h x (by simp [hx])) (c :: acc) rest
    simp [cleanComps, h1, h3, h4, this]

/-! ## the shape of a clean relative path -/

theorem cleanRel_joinWith (cs : List Text) (hne : cs ≠ []) (h : ∀ c ∈ cs, normalComp c = true) :
    cleanRel (joinWith ['/'] cs) = true := by
  unfold cleanRel
  rw [splitOnChar_joinWith '/' cs hne (fun a ha => ((normalComp_spec a).1 (h a ha)).2.1)]
  simpa using h

theorem cleanRel_spec (p : Text) (h : cleanRel p = true) :
    ∃ cs, cs ≠ [] ∧ (∀ c ∈ cs, normalComp c = true) ∧ p = joinWith ['/'] cs ∧ splitOnChar '/' p = cs :=
  ⟨splitOnChar '/' p, splitOnChar_ne_nil _ _, by simpa [cleanRel] using h,
    (joinWith_splitOnChar '/' p).symm, rfl⟩

/-! ## `filepath.Base` and `filepath.Dir` on `b` and on `d ++ "/" ++ b` -/

theorem base_aux (b tail : Text) (hb : b ≠ []) (hs : '/' ∉ b) (ht : tail = [] ∨ ∃ t, tail = '/' :: t) :
    ((b.reverse ++ tail).dropWhile (· == '/')).takeWhile (· != '/') = b.reverse := by
  have hall : ∀ x ∈ b.reverse, (x != '/') = true := by
    intro x hx
    have : x ≠ '/' := fun e => hs (by simpa [e] using hx)
    simpa using this
  have hd : (b.reverse ++ tail).dropWhile (· == '/') = b.reverse ++ tail := by
    cases hr : b.reverse with
    | nil => exact absurd (by simpa using hr) hb
    | cons x xs =>
      have := hall x (by simp [hr])
      simp at this
      simp [this]
  rw [hd, takeWhile_append_of_all _ _ _ hall]
  rcases ht with rfl | ⟨t, rfl⟩ <;> simp

theorem dir_aux (b tail : Text) (hs : '/' ∉ b) (ht : tail = [] ∨ ∃ t, tail = '/' :: t) :
    (b.reverse ++ tail).dropWhile (· != '/') = tail := by
  have hall : ∀ x ∈ b.reverse, (x != '/') = true := by
    intro x hx
    have : x ≠ '/' := fun e => hs (by simpa [e] using hx)
    simpa using this
  rw [dropWhile_append_of_all _ _ _ hall]
  rcases ht with rfl | ⟨t, rfl⟩ <;> simp

theorem pathBase_single (b : Text) (hb : b ≠ []) (hs : '/' ∉ b) : pathBase b = b := by
  have := base_aux b [] hb hs (Or.inl rfl)
  simp only [List.append_nil] at this
  simp [pathBase, hb, this]

theorem pathBase_multi (d b : Text) (hb : b ≠ []) (hs : '/' ∉ b) : pathBase (d ++ '/' :: b) = b := by
  have := base_aux b ('/' :: d.reverse) hb hs (Or.inr ⟨_, rfl⟩)
  simp [pathBase, hb, this]

theorem pathDir_single (b : Text) (hs : '/' ∉ b) : pathDir b = ['.'] := by
  have := dir_aux b [] hs (Or.inl rfl)
  simp only [List.append_nil] at this
  simp [pathDir, this, pathClean]

theorem pathDir_multi_raw (d b : Text) (hs : '/' ∉ b) :
    pathDir (d ++ '/' :: b) = pathClean (d ++ ['/']) := by
  have := dir_aux b ('/' :: d.reverse) hs (Or.inr ⟨_, rfl⟩)
  simp [pathDir, this]

/-! ## `filepath.Clean` -/

theorem joinWith_cons_ne_nil (sep c : Text) (cs : List Text) (hc : c ≠ []) : joinWith sep (c :: cs) ≠ [] := by
  cases cs with
  | nil => simpa [joinWith] using hc
  | cons b rest => simp [joinWith, hc]

theorem pathClean_of_split (p : Text) (cs tail : List Text) (hsplit : splitOnChar '/' p = cs ++ tail)
    (htail : tail = [] ∨ tail = [[]]) (hne : cs ≠ []) (h : ∀ c ∈ cs, normalComp c = true) :
    pathClean p = joinWith ['/'] cs := by
  cases cs with
  | nil => exact absurd rfl hne
  | cons c cs' =>
    obtain ⟨hc, _, _, _⟩ := (normalComp_spec c).1 (h c (by simp))
    cases p with
    | nil =>
      simp only [splitOnChar, List.cons_append, List.cons.injEq] at hsplit
      exact absurd hsplit.1.symm hc
    | cons x q =>
      have hx : x ≠ '/' := by
        intro e
        subst e
        simp only [splitOnChar, if_true, List.cons_append, List.cons.injEq] at hsplit
        exact absurd hsplit.1.symm hc
      have hcl : cleanComps false [] (c :: cs' ++ tail) = c :: cs' := by
        rw [cleanComps_normal false (c :: cs') h [] tail]
        rcases htail with rfl | rfl <;> simp [cleanComps]
      have hj := joinWith_cons_ne_nil ['/'] c cs' hc
      simp only [List.cons_append] at hcl
      simp [pathClean, hx, hsplit, hcl, hj]

/-! ## the two shapes of a clean relative path: one component, or `d ++ "/" ++ b` with `d` clean -/

theorem cleanRel_cases (f : Text) (h : cleanRel f = true) :
    (normalComp f = true ∧ pathDir f = ['.'] ∧ pathBase f = f) ∨
    (∃ d b, cleanRel d = true ∧ normalComp b = true ∧ f = d ++ '/' :: b ∧ pathDir f = d ∧
      pathBase f = b) := by
  obtain ⟨cs, hne, hall, rfl, _⟩ := cleanRel_spec f h
  rcases List.eq_nil_or_concat cs with rfl | ⟨init, b, hcs⟩
  · exact absurd rfl hne
  · rw [List.concat_eq_append] at hcs
    subst hcs
    have hb := hall b (by simp)
    obtain ⟨hb1, hb2, _, _⟩ := (normalComp_spec b).1 hb
    have hinit : ∀ c ∈ init, normalComp c = true := fun c hc => hall c (by simp [hc])
    by_cases hi : init = []
    · subst hi
      left
      simp only [List.nil_append, joinWith]
      exact ⟨hb, pathDir_single b hb2, pathBase_single b hb1 hb2⟩
    · right
      have e : joinWith ['/'] (init ++ [b]) = joinWith ['/'] init ++ '/' :: b := by
        rw [joinWith_snoc _ _ _ hi]; simp
      refine ⟨joinWith ['/'] init, b, cleanRel_joinWith init hi hinit, hb, e, ?_, ?_⟩
      · rw [e, pathDir_multi_raw _ _ hb2]
        apply pathClean_of_split _ init [[]] _ (Or.inr rfl) hi hinit
        have e2 : joinWith ['/'] init ++ ['/'] = joinWith ['/'] (init ++ [[]]) := by
          rw [joinWith_snoc _ _ _ hi]; simp
        rw [e2, splitOnChar_joinWith '/' _ (by simp)]
        intro a ha
        rcases List.mem_append.1 ha with ha | ha
        · exact ((normalComp_spec a).1 (hinit a ha)).2.1
        · simp at ha; subst ha; simp
      · rw [e, pathBase_multi _ _ hb1 hb2]

/-! ## the lemmas used by the proofs -/

theorem pathClean_cleanRel (p : Text) (h : cleanRel p = true) : pathClean p = p := by
  obtain ⟨cs, hne, hall, hp, hs⟩ := cleanRel_spec p h
  rw [pathClean_of_split p cs [] (by simpa using hs) (Or.inl rfl) hne hall, ← hp]

theorem cleanRel_ne_dot (p : Text) (h : cleanRel p = true) : p ≠ ['.'] := by
  intro e
  subst e
  exact absurd h (by decide)

theorem trimSuffixSlash_cleanRel (p : Text) (h : cleanRel p = true) : trimSuffixSlash p = p := by
  unfold trimSuffixSlash
  split
  · next r hr =>
    exfalso
    have hp : p = r.reverse ++ ['/'] := by
      have := congrArg List.reverse hr
      simpa using this
    rcases cleanRel_cases p h with ⟨hn, _, _⟩ | ⟨d, b, _, hb, e, _, _⟩
    · exact ((normalComp_spec p).1 hn).2.1 (by simp [hp])
    · obtain ⟨hb1, hb2, _, _⟩ := (normalComp_spec b).1 hb
      have : p.reverse = b.reverse ++ '/' :: d.reverse := by simp [e]
      rw [hr] at this
      cases hbr : b.reverse with
      | nil => exact hb1 (by simpa using hbr)
      | cons x xs =>
        rw [hbr] at this
        simp only [List.cons_append, List.cons.injEq] at this
        exact hb2 (by rw [← List.mem_reverse, hbr, ← this.1]; simp)
  · rfl

theorem pathBase_of_dir_dot (f : Text) (h : cleanRel f = true) (hd : pathDir f = ['.']) :
    pathBase f = f := by
  rcases cleanRel_cases f h with ⟨_, _, hb⟩ | ⟨d, b, hcd, _, _, hdir, _⟩
  · exact hb
  · rw [hd] at hdir
    exact absurd hdir.symm (cleanRel_ne_dot d hcd)

theorem sanitizeJoin_dir_base (d f : Text) (hf : cleanRel f = true) (hd : cleanRel d = true)
    (h : d = pathDir f) : sanitizeJoin d (pathBase f) = f := by
  rcases cleanRel_cases f hf with ⟨_, hdir, _⟩ | ⟨d', b, _, _, e, hdir, hb⟩
  · rw [hdir] at h
    exact absurd h (cleanRel_ne_dot d hd)
  · rw [hdir] at h
    subst h
    have hne : d ≠ [] := by
      intro e0; subst e0; exact absurd hd (by decide)
    have hj : pathJoin2 d b = f := by
      simp only [pathJoin2, hne, ne_eq, not_false_eq_true, if_true]
      rw [← e, pathClean_cleanRel f hf]
    have hts := trimSuffixSlash_cleanRel d hd
    unfold sanitizeJoin isWithin
    simp only [hb, hj, pathClean_cleanRel d hd]
    have hpre : (d ++ ['/']).isPrefixOf f = true := by
      rw [e]; simp [List.isPrefixOf_iff_prefix]
    have hm : withSlash d = d ++ ['/'] := by
      unfold withSlash
      split
      · next r hr =>
        exfalso
        unfold trimSuffixSlash at hts
        rw [hr] at hts
        have := congrArg List.length hts
        have hl := congrArg List.length hr
        simp at this hl
        omega
      · rfl
    rw [hm, hpre]
    simp

/-- the ingredients of `sanitizeJoin_dir_base`, independent of how `sanitizeArchivePath` tests containment
(`v == Clean(d) || HasPrefix(v, Clean(d)+"/")`, `isWithin` in common.go and in the model): the join is the path, the directory is clean, the path is the directory, "/", a name -/
theorem pathJoin2_dir_base (d f : Text) (hf : cleanRel f = true) (hd : cleanRel d = true) (h : d = pathDir f) :
    pathJoin2 d (pathBase f) = f ∧ pathClean d = d ∧ ∃ b, f = d ++ '/' :: b := by
  rcases cleanRel_cases f hf with ⟨_, hdir, _⟩ | ⟨d', b, _, _, e, hdir, hb⟩
  · rw [hdir] at h
    exact absurd h (cleanRel_ne_dot d hd)
  · rw [hdir] at h
    subst h
    have hne : d ≠ [] := by
      intro e0; subst e0; exact absurd hd (by decide)
    refine ⟨?_, pathClean_cleanRel d hd, b, e⟩
    simp only [pathJoin2, hne, ne_eq, not_false_eq_true, if_true, hb]
    rw [← e, pathClean_cleanRel f hf]

theorem pathBase_subset (f : Text) (h : cleanRel f = true) : ∀ c ∈ pathBase f, c ∈ f := by
  rcases cleanRel_cases f h with ⟨_, _, hb⟩ | ⟨d, b, _, _, e, _, hb⟩
  · rw [hb]; exact fun _ hc => hc
  · rw [hb, e]; intro c hc; simp [hc]

theorem cleanRel_pathDir (f : Text) (h : cleanRel f = true) (hd : pathDir f ≠ ['.']) :
    cleanRel (pathDir f) = true := by
  rcases cleanRel_cases f h with ⟨_, hdir, _⟩ | ⟨d, b, hcd, _, _, hdir, _⟩
  · exact absurd hdir hd
  · rw [hdir]; exact hcd

example : cleanRel "usr/lib/libz.so.1".toList = true := by decide
example : sanitizeJoin "usr/lib".toList (pathBase "usr/lib/libz.so.1".toList) = "usr/lib/libz.so.1".toList := by decide

end Apko.Formats
