import Apko.Proofs.Lemmas.TarWFReach
import Apko.Proofs.Lemmas.FSTree
import Apko.Proofs.Lemmas.FSWalkDir
import Apko.Proofs.Lemmas.AccountsWalk
/-! C13: the well-formedness the layer theorems of C06 need (`Tar.WF`: graph invariant and `nodeOK` of
every node) together with the tree shape of the directories (`FS.Tree`) is kept by everything
`mutateAccounts` and `mutatePaths` do — every file-system call they make satisfies the guard `opTarOK`
(the only caller-controlled datum is the source of a `symlink` mutation, which must not be empty). -/
namespace Apko.Accounts
open Apko Apko.Path Apko.FS Apko.Formats

/-- a well-formed tree: `Tar.WF` (the structural invariant and `nodeOK` of every node: directory flag =
mode bit, supported node kinds, symbolic links are not directories and name a target, package entries
have the size they announce) and the directories form a tree (`FS.Tree`: valid edge names, no
directory cycle, one parent per directory) -/
structure WFT (fs : FS) : Prop where
  wf : Tar.WF fs
  tree : FS.Tree fs

theorem WFT.inv {fs : FS} (h : WFT fs) : FS.Inv fs := h.wf.inv

theorem WFT.dirBit {fs : FS} (h : WFT fs) : DirBit fs := (Tar.NB.mk h.wf.nodes).dirBit

theorem WFT.toWF {fs : FS} (h : WFT fs) : WF fs := ⟨h.inv, h.dirBit⟩

theorem nodeOK_symOK (n : Inode) (h : Tar.nodeOK n = true) (hd : n.dir = true) : n.isSymlink = false := by
  unfold Tar.nodeOK at h
  simp only [Bool.and_eq_true, Bool.or_eq_true, beq_iff_eq, Bool.not_eq_true', decide_eq_true_eq] at h
  obtain ⟨⟨⟨⟨⟨h1, _⟩, _⟩, h4⟩, _⟩, _⟩ := h
  rcases h4 with h4 | h4
  · exact h4
  · exfalso
    have hb : n.mode.testBit 31 = true := by rw [← h1]; exact hd
    have := h4.1
    unfold Tar.obsKind at this
    simp [hb] at this

theorem WFT.symOK {fs : FS} (h : WFT fs) : SymOK fs := fun j hd => nodeOK_symOK _ (h.wf.nodes j) hd

theorem WFT.of_nodes_eq {fs fs' : FS} (he : fs'.nodes = fs.nodes) (h : WFT fs) : WFT fs' :=
  ⟨⟨Inv.of_nodes_eq he h.inv, (Tar.NB.of_nodes_eq he ⟨h.wf.nodes⟩).ok⟩, Tree.of_nodes_eq he h.tree⟩

theorem wft_step (c : Cfg) (fs : FS) (op : Op) (hg : Tar.opTarOK op = true) (h : WFT fs) : WFT (step c fs op).1 :=
  ⟨Tar.tar_wf_step c fs op hg h.wf, tree_step c fs op h.inv h.tree⟩

theorem wft_act (c : Cfg) (fs : FS) (op : Op) (hg : Tar.opTarOK op = true) (h : WFT fs) : WFT (act c fs op).1 :=
  wft_step c fs op hg h

theorem openFile_nodes (c : Cfg) (fs : FS) (p : Text) (flag perm : Nat) :
    (step c fs (.openFile p flag perm)).1.nodes = (openCore c fs p flag perm).1.nodes := by
  simp only [step]
  split <;> (rename_i heq; simp [heq])

theorem wft_openCore (c : Cfg) (fs : FS) (p : Text) (flag perm : Nat) (hp : Tar.noTypeBits perm = true)
    (h : WFT fs) : WFT (openCore c fs p flag perm).1 :=
  WFT.of_nodes_eq (openFile_nodes c fs p flag perm).symm (wft_step c fs (.openFile p flag perm) hp h)

theorem wft_andThen {ε : Type} (r : FS × Option ε) (k : FS → FS × Option ε) (h1 : WFT r.1)
    (h2 : ∀ fs : FS, WFT fs → WFT (k fs).1) : WFT (andThen r k).1 := by
  rcases r with ⟨fs1, _ | e⟩
  · exact h2 fs1 h1
  · exact h1

theorem noTypeBits_permMode (perms : Nat) : Tar.noTypeBits (permMode perms) = true := by
  rw [Tar.noTypeBits_iff]
  simp only [permMode, unixToFileMode_testBit]
  simp

theorem wft_mpd (c : Cfg) (fs : FS) (p : Text) (perms uid gid : Nat) (h : WFT fs) :
    WFT (mutatePermissionsDirect c fs p perms uid gid).1 := by
  unfold mutatePermissionsDirect
  apply wft_andThen
  · exact wft_act c fs _ (noTypeBits_permMode perms) h
  · intro fs1 h1; exact wft_act c fs1 _ rfl h1

theorem mkdirAll_guard (perms : Nat) (p : Text) : Tar.opTarOK (.mkdirAll p (permMode perms)) = true := by
  have := (Tar.noTypeBits_iff _).mp (noTypeBits_permMode perms)
  simp [Tar.opTarOK, this.2.1, this.2.2.2.2.2.1]

theorem wft_mutateDirectory (c : Cfg) (fs : FS) (m : Mutation) (h : WFT fs) : WFT (mutateDirectory c fs m).1 := by
  unfold mutateDirectory
  have h1 := wft_act c fs (.mkdirAll m.path (permMode m.perms)) (mkdirAll_guard _ _) h
  cases ha : act c fs (.mkdirAll m.path (permMode m.perms)) with
  | mk fs1 r =>
    rw [ha] at h1
    cases r with
    | some e => exact h1
    | none =>
      simp only []
      split
      · exact walkRoot_keeps c _ WFT (fun fs p h => wft_mpd c fs p _ _ _ h) fs1 m.path h1
      · exact h1

theorem wft_ensureParent (c : Cfg) (fs : FS) (p : Text) (h : WFT fs) : WFT (ensureParentDirectory c fs p).1 :=
  wft_act c fs _ rfl h

theorem wft_mutateEmptyFile (c : Cfg) (fs : FS) (m : Mutation) (h : WFT fs) : WFT (mutateEmptyFile c fs m).1 := by
  unfold mutateEmptyFile
  apply wft_andThen _ _ (wft_ensureParent c fs _ h)
  intro fs1 h1
  unfold createEmpty
  have := wft_openCore c fs1 m.path flagsWriteFile createPerm (by decide) h1
  split <;> (rename_i heq; simp only [heq] at this; exact this)

theorem wft_mutateSymLink (c : Cfg) (fs : FS) (m : Mutation) (hs : m.source ≠ []) (h : WFT fs) :
    WFT (mutateSymLink c fs m).1 := by
  unfold mutateSymLink
  apply wft_andThen _ _ (wft_ensureParent c fs _ h)
  intro fs1 h1
  exact wft_act c fs1 _ (by simpa [Tar.opTarOK] using hs) h1

theorem wft_mutateHardLink (c : Cfg) (fs : FS) (m : Mutation) (h : WFT fs) : WFT (mutateHardLink c fs m).1 := by
  unfold mutateHardLink
  apply wft_andThen _ _ (wft_ensureParent c fs _ h)
  intro fs1 h1
  apply wft_andThen
  · split
    · exact wft_act c fs1 _ rfl h1
    · exact h1
  · intro fs2 h2
    exact wft_act c fs2 _ rfl h2

/-- the one datum of a mutation the guard depends on: a `symlink` mutation names a target -/
def mutOK (m : Mutation) : Prop := m.type = tSymlink → m.source ≠ []

theorem wft_mutateOne (c : Cfg) (fs : FS) (m : Mutation) (hm : mutOK m) (h : WFT fs) : WFT (mutateOne c fs m).1 := by
  have hp : ∀ f, WFT f → WFT (mutatePermissions c f m).1 := fun f hf => wft_mpd c f _ _ _ _ hf
  by_cases h1 : m.type = tDirectory
  · rw [mutateOne_directory c fs m h1]
    exact wft_andThen (ε := Err) ((mutateDirectory c fs m).1, (mutateDirectory c fs m).2.1) _
      (wft_mutateDirectory c fs m h) hp
  by_cases h2 : m.type = tEmptyFile
  · rw [mutateOne_emptyFile c fs m h2]
    exact wft_andThen (ε := Err) _ _ (wft_mutateEmptyFile c fs m h) hp
  by_cases h3 : m.type = tHardlink
  · rw [mutateOne_hardlink c fs m h3]
    exact wft_andThen (ε := Err) _ _ (wft_mutateHardLink c fs m h) hp
  by_cases h4 : m.type = tSymlink
  · rw [mutateOne_symlink c fs m h4]
    exact wft_andThen (ε := Err) _ _ (wft_mutateSymLink c fs m (hm h4) h) hp
  by_cases h5 : m.type = tPermissions
  · rw [mutateOne_permissions c fs m h5]
    exact hp fs h
  · rw [mutateOne_unknown c fs m (by simp [h1, h2, h3, h4, h5])]
    exact h

theorem wft_mutatePaths (c : Cfg) (ms : List Mutation) (hm : ∀ m ∈ ms, mutOK m) :
    ∀ (fs : FS), WFT fs → WFT (mutatePaths c fs ms).1 := by
  induction ms with
  | nil => intro fs h; exact h
  | cons m rest ih =>
    intro fs h
    unfold mutatePaths
    rw [seqM_cons]
    apply wft_andThen _ _ (wft_mutateOne c fs m (hm m List.mem_cons_self) h)
    intro f hf
    exact ih (fun x hx => hm x (List.mem_cons_of_mem _ hx)) f hf

/-! ### accounts -/

theorem wft_readOrCreate (c : Cfg) (fs : FS) (p : Text) (h : WFT fs) : WFT (readOrCreate c fs p).1 := by
  unfold readOrCreate
  have := wft_openCore c fs p flagsReadOrCreate readOrCreatePerm (by decide) h
  split <;> (rename_i heq; simp only [heq] at this; exact this)

theorem wft_writeBack (c : Cfg) (fs : FS) (p t : Text) (h : WFT fs) : WFT (writeBack c fs p t).1 :=
  wft_act c fs _ rfl h

theorem inv_liftE_wft (r : FS × Option Err) (h : WFT r.1) : WFT (liftE r).1 := h

theorem wft_homeStep (c : Cfg) (fs : FS) (u : User) (h : WFT fs) : WFT (homeStep c fs u).1 := by
  unfold homeStep
  split
  · exact h
  · simp only []
    split
    · split <;> exact h
    · apply inv_liftE_wft
      apply wft_andThen _ _ (wft_act c fs _ rfl h)
      intro f1 h1
      apply wft_andThen _ _ (wft_act c f1 _ rfl h1)
      intro f2 h2
      exact wft_act c f2 _ rfl h2
    · exact h
    · exact h

theorem wft_seqM_home (c : Cfg) (us : List User) : ∀ fs, WFT fs → WFT (seqM (homeStep c) fs us).1 := by
  induction us with
  | nil => intro fs h; exact h
  | cons u rest ih =>
    intro fs h
    rw [seqM_cons]
    exact wft_andThen _ _ (wft_homeStep c fs u h) (fun f hf => ih f hf)

theorem wft_groupsPart (c : Cfg) (fs : FS) (gs : List GroupCfg) (h : WFT fs) : WFT (groupsPart c fs gs).1 := by
  unfold groupsPart
  split
  · exact h
  · have h1 := wft_readOrCreate c fs groupPath h
    split
    · rename_i heq; simp only [heq] at h1; exact h1
    · rename_i fs1 t heq
      simp only [heq] at h1
      split
      · exact h1
      · exact wft_writeBack c fs1 groupPath _ h1

theorem wft_usersPart (c : Cfg) (fs : FS) (cfg : AccCfg) (h : WFT fs) : WFT (usersPart c fs cfg).1 := by
  unfold usersPart
  have h1 := wft_readOrCreate c fs passwdPath h
  split
  · rename_i heq; simp only [heq] at h1; exact h1
  · rename_i fs1 t heq
    simp only [heq] at h1
    split
    · exact h1
    · rename_i old _
      simp only []
      have h2 := wft_seqM_home c (old ++ cfg.users.map userToUserEntry) fs1 h1
      split
      · rename_i heq2; simp only [heq2] at h2; exact h2
      · rename_i fs2 heq2
        simp only [heq2] at h2
        have h3 := wft_writeBack c fs2 passwdPath (writeUsers (old ++ cfg.users.map userToUserEntry)) h2
        split <;> (rename_i heq3; simp only [heq3] at h3; exact h3)

/-- **well-formedness is kept by `mutateAccounts`** (whatever its outcome) -/
theorem wft_mutateAccounts (c : Cfg) (fs : FS) (cfg : AccCfg) (h : WFT fs) : WFT (mutateAccounts c fs cfg).1 := by
  unfold mutateAccounts
  exact wft_usersPart c _ cfg (wft_groupsPart c fs cfg.groups h)

end Apko.Accounts
