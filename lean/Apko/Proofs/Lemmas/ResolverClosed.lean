/-
C02 lemmas, part 5: the core invariant of the dependency walk.

`getDeps_closed`: let `S` be any set of packages that contains the walked package, everything the walk
emits and everything recorded in `selected` when the walk ends.  If the walk succeeds and no ghost flag
is raised, then every non-conflict dependency of the walked package and of every emitted package is
satisfied (spec `sat`) by a member of `S` — except for packages that are ancestors still being walked
(`InParents`), whose own walk establishes the same fact when it finishes.

By induction on fuel, for every universe with distinct ids and every input state.  Core only.
-/
import Apko.Proofs.Lemmas.ResolverMono

namespace Apko.C02
open Apko Apko.Resolver

/-- every non-conflict dependency of `p` is satisfied by a member of `S` -/
def DepsSat (S : List Pkg) (p : Pkg) : Prop :=
  ∀ d ∈ p.deps, isConflict d = false → ∃ q ∈ S, sat q d = true

/-- `p` is an ancestor whose walk is still in progress (identified by id) -/
def InParents (parents : List (Text × Nat)) (p : Pkg) : Prop := ∃ a ∈ parents, a.2 = p.id

/-- the conclusion for a walk of `pkg` that returned `out` -/
def Closed (S : List Pkg) (parents : List (Text × Nat)) (pkg : Pkg) (out : DepOut) : Prop :=
  ∀ p, (p = pkg ∨ p ∈ out.deps) → InParents parents p ∨ DepsSat S p

def RecClosed (c : Cfg) (S : List Pkg) (rec : Pkg → List (Text × Nat) → DepSt → Res DepOut) : Prop :=
  ∀ p ps d o, rec p ps d = .ok o → p ∈ c.u.all → p ∈ S → (∀ x ∈ o.deps, x ∈ S) →
    (∀ e ∈ o.ds.st.selected, e.2 ∈ S) → (∀ e ∈ d.st.selected, KeyOK e) → o.ds.st.flags = [] →
    Closed S ps p o

/-- a dependency skipped without a flag is satisfied by the package itself or by a selected package -/
theorem skip_sat {c : Cfg} {pkg : Pkg} {allowPin : Text} {ds : DepSt} {dep : Text} {S : List Pkg}
    (h : depOption c pkg allowPin ds dep = .skip) (hp : pkg ∈ S)
    (hsel : ∀ e ∈ ds.st.selected, e.2 ∈ S) (hkey : ∀ e ∈ ds.st.selected, KeyOK e) :
    ∃ q ∈ S, sat q dep = true := by
  rcases depOption_skip h with h1 | ⟨picked, hl, h2⟩
  · exact ⟨pkg, hp, h1⟩
  · have hm := lookupT_some_mem hl
    refine ⟨picked, hsel _ hm, ?_⟩
    rcases h2 with h2 | h2
    · exact sat_of_carries_any (hkey _ hm) (Or.inr h2)
    · exact h2

theorem depLoop_closed {c : Cfg} {S : List Pkg} {rec : Pkg → List (Text × Nat) → DepSt → Res DepOut}
    (hmono : RecMono c rec) (hrec : RecClosed c S rec)
    (pkg : Pkg) (allowPin : Text) (parents : List (Text × Nat)) (fuel : Nat) :
    ∀ (constraints : List Text) (acc out : DepOut),
      depLoop c rec pkg allowPin parents fuel constraints acc = .ok out →
      pkg ∈ S → (∀ x ∈ out.deps, x ∈ S) → (∀ e ∈ out.ds.st.selected, e.2 ∈ S) →
      (∀ e ∈ acc.ds.st.selected, KeyOK e) → out.ds.st.flags = [] →
      (∀ d ∈ constraints, d ∈ pkg.deps) →
      (∀ d ∈ pkg.deps, isConflict d = false → Tight c acc.ds.st.dq d) →
      (∀ d ∈ pkg.deps, isConflict d = false → d ∈ constraints ∨ ∃ q ∈ S, sat q d = true) →
      (∀ p ∈ acc.deps, InParents parents p ∨ p.id = pkg.id ∨ DepsSat S p) →
      DepsSat S pkg ∧ (∀ p ∈ out.deps, InParents parents p ∨ p.id = pkg.id ∨ DepsSat S p) := by
  induction fuel with
  | zero => intro _ _ _ h; simp [depLoop] at h
  | succ n ih =>
    intro constraints acc out h hpS hdS hselS hkey hfl hcons htight hinv hacc
    have hm := depLoop_mono hmono pkg allowPin parents _ _ _ _ h
    rcases depLoop_inv h with ⟨rfl, rfl⟩ | ⟨opts, confs, fl, hpass, hcase⟩
    · refine ⟨?_, hacc⟩
      intro d hd hnc
      rcases hinv d hd hnc with h1 | h1
      · simp at h1
      · exact h1
    · obtain ⟨_, hp2, _, hp4⟩ :=
        passFold_spec c pkg allowPin acc.ds constraints [] acc.conflicts [] opts confs fl hpass
      -- a skipped dependency is satisfied inside `S`
      have hskip : ∀ d, depOption c pkg allowPin acc.ds d = .skip → ∃ q ∈ S, sat q d = true :=
        fun d hd => skip_sat hd hpS (fun e he => hselS e (hm.sel e he)) hkey
      rcases hcase with ⟨hlow, rfl⟩ | ⟨lowest, pkgs, best, dq1, sel1, sub, ex, og, hlow, hbest, hdq, hsel,
        hsub, hloop⟩
      · have hfl0 : fl = [] := (foldl_flag_nil hfl).1
        have hopts := lowestOption_none hlow
        refine ⟨?_, hacc⟩
        intro d hd hnc
        rcases hinv d hd hnc with h1 | h1
        · rcases hp4 hfl0 d h1 with h2 | h2 | h2
          · exact hskip d h2
          · rw [hnc] at h2; simp at h2
          · rw [hopts] at h2; simp at h2
        · exact h1
      · have hs := hmono _ _ _ _ hsub
        have hl := depLoop_mono hmono pkg allowPin parents _ _ _ _ hloop
        have hpk := pick_spec hsel
        have hpl := pass_lowest hpass hlow hbest
        simp only at hs hl
        have hflsub : sub.ds.st.flags = [] := hl.flags hfl
        have hfl0 : fl = [] := (foldl_flag_nil (hs.flags hflsub)).1
        have hbestS : best ∈ S := hdS _ (hl.deps _ (by simp))
        have hsubS : ∀ x ∈ sub.deps, x ∈ S := fun x hx => hdS _ (hl.deps _ (by simp [hx]))
        have hkey1 : ∀ e ∈ sel1, KeyOK e := by
          intro e he
          rcases hpk.2 e he with h1 | ⟨_, h1⟩
          · exact hkey e h1
          · exact h1
        have hkeysub : ∀ e ∈ sub.ds.st.selected, KeyOK e := by
          intro e he
          rcases hs.prov e he with h1 | ⟨_, h1⟩
          · exact hkey1 e h1
          · exact h1
        have hdqsub : acc.ds.st.dq ⊆ sub.ds.st.dq :=
          fun a ha => hs.dq (disqualifyConflicts_infl c best _ _ hdq ha)
        -- the recursive walk of `best`
        have hcl := hrec _ _ _ _ hsub (nameMap_mem hpl.2.2.1).1 hbestS hsubS
          (fun e he => hselS e (hl.sel e he)) hkey1 hflsub
        apply ih _ _ _ hloop hpS hdS hselS hkeysub hfl
        · intro d hd
          simp only [List.mem_filter, List.mem_map] at hd
          obtain ⟨⟨e, he, rfl⟩, _⟩ := hd
          rcases hp2 e he with h1 | h1
          · simp at h1
          · exact hcons _ h1.1
        · exact fun d hd hnc => (htight d hd hnc).mono hdqsub
        · intro d hd hnc
          rcases hinv d hd hnc with h1 | h1
          · rcases hp4 hfl0 d h1 with h2 | h2 | h2
            · exact Or.inr (hskip d h2)
            · rw [hnc] at h2; simp at h2
            · by_cases hdl : d = lowest
              · subst hdl
                exact Or.inr ⟨best, hbestS, htight d hd hnc best hpl.2.2.1 hpl.2.2.2⟩
              · left
                simp only [List.mem_filter, bne_iff_ne, ne_eq]
                exact ⟨h2, hdl⟩
          · exact Or.inr h1
        · intro p hp
          simp only [List.append_assoc, List.mem_append, List.mem_singleton] at hp
          have hsubcase : (p = best ∨ p ∈ sub.deps) →
              InParents parents p ∨ p.id = pkg.id ∨ DepsSat S p := by
            intro hc
            rcases hcl p hc with ⟨a, ha, hid⟩ | h1
            · rcases List.mem_append.mp ha with ha | ha
              · exact Or.inl ⟨a, ha, hid⟩
              · simp only [List.mem_singleton] at ha
                subst ha
                exact Or.inr (Or.inl hid.symm)
            · exact Or.inr (Or.inr h1)
          rcases hp with hp | hp | hp
          · exact hacc p hp
          · exact hsubcase (Or.inr hp)
          · exact hsubcase (Or.inl hp)

/-- T `getDeps_closed` (`deps_closed`): see the header. -/
theorem getDeps_closed (c : Cfg) (hu : IdsDistinct c.u) (S : List Pkg) (allowPin : Text) (fuel : Nat) :
    RecClosed c S (fun p ps d => getDeps c fuel p allowPin ps d) := by
  induction fuel with
  | zero => intro _ _ _ _ h; simp [getDeps] at h
  | succ n ih =>
    intro pkg parents ds out h hpu hpS hdS hselS hkey hfl
    have hm := getDeps_mono c allowPin (n + 1) _ _ _ _ h
    rcases getDeps_inv h with ⟨hc, rfl⟩ | ⟨_, dq1, hdq, hloop⟩
    · intro p hp
      simp only [List.not_mem_nil, or_false] at hp
      subst hp
      left
      split at hfl
      · exact absurd hfl (flag_flags_ne _ _)
      · next hno =>
        rw [List.any_eq_true] at hc
        obtain ⟨a, ha, hn⟩ := hc
        refine ⟨a, ha, ?_⟩
        rw [Bool.not_eq_true, List.any_eq_false] at hno
        have := hno a ha
        simp only [hn, Bool.true_and, Bool.not_eq_true, bne_eq_false_iff_eq] at this
        exact this
    · have := depLoop_closed (getDeps_mono c allowPin n) ih pkg allowPin parents _ _ _ _ hloop hpS hdS
        hselS hkey hfl (fun _ h => h) (constrain_tightens c _ _ _ hdq) (fun d hd _ => Or.inl hd)
        (by simp)
      intro p hp
      rcases hp with rfl | hp
      · exact Or.inr this.1
      · rcases this.2 p hp with h1 | h1 | h1
        · exact Or.inl h1
        · have hpu' : p ∈ c.u.all := by
            rcases hm.deps_u p hp with h2 | h2
            · simp at h2
            · exact h2
          rw [eq_of_id_eq hu hpu' hpu h1]
          exact Or.inr this.1
        · exact Or.inr h1

end Apko.C02
