/-
C10 — splitLayers: invariants of the walk loop and the four splitting theorems.
-/
import Apko.Proofs.Lemmas.LayersStmt

namespace Apko.C10.Split
open Apko Apko.Layers

/-! ## alignStacks in closed form -/

theorem alignStacks_eq (ws : List Path) (stack : List WEntry) :
    alignStacks ws stack = (stack.map (·.path), stack.drop (lcp ws stack)) := by
  induction stack generalizing ws with
  | nil => cases ws <;> simp [alignStacks]
  | cons e s ih =>
    cases ws with
    | nil => simp [alignStacks, lcp]
    | cons w ws =>
      simp only [alignStacks, lcp]
      split
      · rename_i hw; simp [ih, hw]
      · simp

/-! ## popTo / pushDir -/

theorem popTo_prefix (p : Path) (s : List WEntry) : ∃ t, s = popTo p s ++ t := by
  refine ⟨(s.reverse.takeWhile (fun e => e.path != p)).reverse, ?_⟩
  unfold popTo
  rw [← List.reverse_append, List.takeWhile_append_dropWhile, List.reverse_reverse]

/-- the part of the main stack that survives the visit of `f` -/
def baseOf (stack : List WEntry) (f : WEntry) : List WEntry :=
  if f.isDir then popTo (parentOf f.path) stack else stack

theorem baseOf_prefix (stack : List WEntry) (f : WEntry) : ∃ t, stack = baseOf stack f ++ t := by
  unfold baseOf
  split
  · exact popTo_prefix _ _
  · exact ⟨[], by simp⟩

theorem pushDir_eq (stack : List WEntry) (f : WEntry) :
    pushDir stack f = baseOf stack f ++ (if f.isDir then [f] else []) := by
  unfold pushDir baseOf
  split <;> simp

/-! ## lcp -/

theorem lcp_le (ws : List Path) (s : List WEntry) : lcp ws s ≤ s.length := by
  induction s generalizing ws with
  | nil => cases ws <;> simp [lcp]
  | cons e s ih =>
    cases ws with
    | nil => simp [lcp]
    | cons w ws =>
      simp only [lcp]
      split
      · have := ih ws; simp; omega
      · simp

theorem lcp_append_fresh (ws : List Path) (s : List WEntry) (x : WEntry) (h : x.path ∉ ws) :
    lcp ws (s ++ [x]) = lcp ws s := by
  induction s generalizing ws with
  | nil =>
    cases ws with
    | nil => simp [lcp]
    | cons w ws =>
      simp only [List.nil_append, lcp]
      split
      · rename_i hw; subst hw; simp at h
      · rfl
  | cons e s ih =>
    cases ws with
    | nil => simp [lcp]
    | cons w ws =>
      simp only [List.cons_append, lcp]
      split
      · rw [ih ws (by intro hm; exact h (List.mem_cons_of_mem _ hm))]
      · rfl

theorem lcp_take_mem (ws : List Path) (s : List WEntry) :
    ∀ d ∈ s.take (lcp ws s), d.path ∈ ws := by
  induction s generalizing ws with
  | nil => intro d hd; simp at hd
  | cons e s ih =>
    cases ws with
    | nil => intro d hd; simp [lcp] at hd
    | cons w ws =>
      intro d hd
      simp only [lcp] at hd
      split at hd
      · rename_i hw
        simp only [List.take_succ_cons, List.mem_cons] at hd
        rcases hd with rfl | hd
        · simp [hw]
        · exact List.mem_cons_of_mem _ (ih ws d hd)
      · simp at hd

theorem lcp_drop_prefix (ws : List Path) (base t : List WEntry) :
    ∀ d ∈ base.drop (lcp ws base), d ∈ (base ++ t).drop (lcp ws (base ++ t)) := by
  induction base generalizing ws with
  | nil => intro d hd; simp at hd
  | cons e s ih =>
    cases ws with
    | nil => intro d hd; simp [lcp] at hd ⊢; rcases hd with h | h <;> simp [h]
    | cons w ws =>
      intro d hd
      simp only [lcp, List.cons_append] at hd ⊢
      split
      · rename_i hw
        simp only [hw, if_true, List.drop_succ_cons] at hd ⊢
        exact ih ws d hd
      · rename_i hw
        simp only [hw, if_false, List.drop_zero] at hd ⊢
        simp only [List.mem_cons] at hd
        rcases hd with h | h <;> simp [h]

theorem lcp_prefix_self (base : List WEntry) (r : List Path) :
    lcp (base.map (·.path) ++ r) base = base.length := by
  induction base with
  | nil => cases r <;> simp [lcp]
  | cons e s ih => simp [lcp, ih]

/-! ## what one step writes -/

def blockOf (ws : List Path) (base : List WEntry) (f : WEntry) : List Entry :=
  (base.drop (lcp ws base)).map (fun d => { d.toEntry with mtime := f.mtime }) ++ [f.toEntry]

theorem emitted_eq (ws : List Path) (stack : List WEntry) (f : WEntry)
    (hs : ∀ d ∈ stack, d.path ≠ f.path) (hw : f.path ∉ ws) :
    emitted ((pushDir stack f).drop (lcp ws (pushDir stack f))) f =
      blockOf ws (baseOf stack f) f := by
  obtain ⟨t, ht⟩ := baseOf_prefix stack f
  have hb : ∀ d ∈ baseOf stack f, d.path ≠ f.path := by
    intro d hd; apply hs; rw [ht]; exact List.mem_append_left _ hd
  have hfilter : ∀ l : List WEntry, (∀ d ∈ l, d.path ≠ f.path) →
      l.filter (fun d => d.path != f.path) = l := by
    intro l hl; rw [List.filter_eq_self]; intro d hd; simp [hl d hd]
  rw [pushDir_eq]
  unfold emitted blockOf
  by_cases hdir : f.isDir = true
  · simp only [hdir, if_true]
    rw [lcp_append_fresh _ _ _ hw, List.drop_append_of_le_length (lcp_le _ _), List.filter_append,
      hfilter _ (fun d hd => hb d (List.mem_of_mem_drop hd))]
    simp
  · simp only [hdir]
    simp only [Bool.false_eq_true, if_false, List.append_nil]
    rw [hfilter _ (fun d hd => hb d (List.mem_of_mem_drop hd))]

/-! ## chains -/

/-- every stack element's parent is the root or an earlier stack element -/
def ChainOK : List WEntry → List WEntry → Prop
  | _, [] => True
  | seen, d :: r =>
    (parentOf d.path = [] ∨ ∃ d' ∈ seen, d'.path = parentOf d.path) ∧ ChainOK (seen ++ [d]) r

theorem chainOK_append (seen a b : List WEntry) :
    ChainOK seen (a ++ b) ↔ ChainOK seen a ∧ ChainOK (seen ++ a) b := by
  induction a generalizing seen with
  | nil => simp [ChainOK]
  | cons d a ih => simp [ChainOK, ih, and_assoc]

theorem parentsFirst_append (pre a b : List Entry) :
    ParentsFirst pre (a ++ b) = (ParentsFirst pre a && ParentsFirst (pre ++ a) b) := by
  induction a generalizing pre with
  | nil => simp [ParentsFirst]
  | cons d a ih => simp [ParentsFirst, ih, Bool.and_assoc]

theorem parentsFirst_block (f : WEntry) (blk seen : List WEntry) (acc : List Entry)
    (hseen : ∀ d ∈ seen, ∃ x ∈ acc, x.isDir = true ∧ x.path = d.path)
    (hchain : ChainOK seen blk) (hdir : ∀ d ∈ blk, d.isDir = true) :
    ParentsFirst acc (blk.map (fun d => { d.toEntry with mtime := f.mtime })) = true := by
  induction blk generalizing seen acc with
  | nil => simp [ParentsFirst]
  | cons d blk ih =>
    simp only [ChainOK] at hchain
    simp only [List.map_cons, ParentsFirst, Bool.and_eq_true, Bool.or_eq_true, decide_eq_true_eq,
      List.any_eq_true]
    refine ⟨?_, ?_⟩
    · rcases hchain.1 with h | ⟨d', hd', hp⟩
      · exact Or.inl h
      · obtain ⟨x, hx, hxd, hxp⟩ := hseen d' hd'
        exact Or.inr ⟨x, hx, by simp [hxd, hxp, hp]⟩
    · apply ih (seen ++ [d]) _ _ hchain.2 (fun d' hd' => hdir d' (List.mem_cons_of_mem _ hd'))
      intro d' hd'
      rcases List.mem_append.1 hd' with h | h
      · obtain ⟨x, hx, hxd, hxp⟩ := hseen d' h
        exact ⟨x, List.mem_append_left _ hx, hxd, hxp⟩
      · simp only [List.mem_singleton] at h
        subst h
        exact ⟨_, List.mem_append_right _ (List.mem_singleton.2 rfl),
          hdir d' (List.mem_cons_self), rfl⟩

theorem lcp_self (s : List WEntry) : lcp (s.map (·.path)) s = s.length := by
  have := lcp_prefix_self s []
  simpa using this

theorem parentOf_ne (p : Path) (h : p ≠ []) : parentOf p ≠ p := by
  intro he
  have : (parentOf p).length = p.length := by rw [he]
  unfold parentOf at this
  rw [List.length_dropLast] at this
  have : p.length ≠ 0 := by
    intro h0; exact h (List.length_eq_zero_iff.1 h0)
  omega

/-! ## the step on the layer list -/

theorem step_layers (layerOf : Text → Nat) (n : Nat) (S : SplitSt) (f : WEntry) (k : Nat)
    (L : LayerSt) (h : (step layerOf n S f).layers[k]? = some L) :
    (k ≠ target layerOf n f ∧ S.layers[k]? = some L) ∨
    (k = target layerOf n f ∧ ∃ L0, S.layers[k]? = some L0 ∧
      L = ⟨(pushDir S.stack f).map (·.path),
           L0.out ++ emitted ((pushDir S.stack f).drop (lcp L0.stack (pushDir S.stack f))) f⟩) := by
  unfold step at h
  simp only [alignStacks_eq, List.getElem?_set] at h
  split at h
  · rename_i hk
    split at h
    · rename_i hlt
      right
      refine ⟨hk.symm, S.layers[target layerOf n f], ?_, ?_⟩
      · rw [← hk]; exact List.getElem?_eq_getElem hlt
      · have hg : S.layers.getD (target layerOf n f) default = S.layers[target layerOf n f] := by
          rw [List.getD_eq_getElem?_getD, List.getElem?_eq_getElem hlt]; rfl
        rw [hg] at h
        exact (Option.some.inj h).symm
    · exact absurd h (by simp)
  · rename_i hk
    exact Or.inl ⟨fun h' => hk h'.symm, h⟩

/-! ## invariants -/

/-- facts about the visited prefix and the main stack -/
structure GInv (pre stack : List WEntry) : Prop where
  sub : stack.Sublist pre
  nd : (pre.map (·.path)).Nodup
  dirs : ∀ d ∈ stack, d.isDir = true
  chain : ChainOK [] stack

/-- what the walk hypotheses give for the entry visited next -/
structure StepOK (pre stack : List WEntry) (f : WEntry) : Prop where
  fresh : f.path ∉ pre.map (·.path)
  ne : f.path ≠ []
  par : parentOf f.path = [] ∨ ∃ d ∈ pushDir stack f, d.path = parentOf f.path

theorem GInv.stack_ne {pre stack : List WEntry} {f : WEntry} (g : GInv pre stack)
    (so : StepOK pre stack f) : ∀ d ∈ stack, d.path ≠ f.path := by
  intro d hd he
  apply so.fresh
  rw [← he]
  exact List.mem_map_of_mem (g.sub.subset hd)

theorem StepOK.par_base {pre stack : List WEntry} {f : WEntry} (so : StepOK pre stack f) :
    parentOf f.path = [] ∨ ∃ d ∈ baseOf stack f, d.path = parentOf f.path := by
  rcases so.par with h | ⟨d, hd, hp⟩
  · exact Or.inl h
  · right
    rw [pushDir_eq] at hd
    rcases List.mem_append.1 hd with h | h
    · exact ⟨d, h, hp⟩
    · split at h
      · simp only [List.mem_singleton] at h
        subst h
        exact absurd hp.symm (parentOf_ne _ so.ne)
      · simp at h

theorem GInv.step {pre stack : List WEntry} {f : WEntry} (g : GInv pre stack)
    (so : StepOK pre stack f) : GInv (pre ++ [f]) (pushDir stack f) := by
  obtain ⟨t, ht⟩ := baseOf_prefix stack f
  have hbsub : (baseOf stack f).Sublist pre :=
    List.Sublist.trans (by rw (occs := .pos [2]) [ht]; exact List.sublist_append_left _ _) g.sub
  refine ⟨?_, ?_, ?_, ?_⟩
  · rw [pushDir_eq]
    apply List.Sublist.append hbsub
    split
    · exact List.Sublist.refl _
    · exact List.nil_sublist _
  · rw [List.map_append, List.nodup_append]
    refine ⟨g.nd, by simp, ?_⟩
    intro a ha b hb
    simp only [List.map_cons, List.map_nil, List.mem_singleton] at hb
    subst hb
    intro he; subst he
    exact so.fresh ha
  · intro d hd
    rw [pushDir_eq] at hd
    rcases List.mem_append.1 hd with h | h
    · apply g.dirs; rw [ht]; exact List.mem_append_left _ h
    · split at h
      · rename_i hdir
        simp only [List.mem_singleton] at h
        subst h; exact hdir
      · simp at h
  · have hc := g.chain
    rw [ht, chainOK_append] at hc
    rw [pushDir_eq, chainOK_append]
    refine ⟨hc.1, ?_⟩
    split
    · simp only [ChainOK, List.nil_append, and_true]
      exact so.par_base
    · simp [ChainOK]

/-- per-layer invariant -/
structure LInv (pre stack : List WEntry) (L : LayerSt) : Prop where
  e : ∀ x ∈ L.out, x.path ∈ pre.map (·.path)
  l1 : ∀ p ∈ L.stack, ∃ x ∈ L.out, x.isDir = true ∧ x.path = p
  m : ∀ d ∈ stack.drop (lcp L.stack stack), d.path ∉ L.out.map (·.path)
  nd : (L.out.map (·.path)).Nodup
  pf : ParentsFirst [] L.out = true

theorem LInv.stack_fresh {pre stack : List WEntry} {f : WEntry} {L : LayerSt}
    (li : LInv pre stack L) (so : StepOK pre stack f) : f.path ∉ L.stack := by
  intro hm
  obtain ⟨x, hx, _, hp⟩ := li.l1 _ hm
  apply so.fresh
  rw [← hp]
  exact li.e x hx

theorem LInv.other {pre stack : List WEntry} {f : WEntry} {L : LayerSt}
    (so : StepOK pre stack f) (li : LInv pre stack L) :
    LInv (pre ++ [f]) (pushDir stack f) L := by
  refine ⟨?_, li.l1, ?_, li.nd, li.pf⟩
  · intro x hx
    rw [List.map_append]
    exact List.mem_append_left _ (li.e x hx)
  · obtain ⟨t, ht⟩ := baseOf_prefix stack f
    intro d hd
    rw [pushDir_eq] at hd
    by_cases hdir : f.isDir = true
    · simp only [hdir, if_true] at hd
      rw [lcp_append_fresh _ _ _ (li.stack_fresh so),
        List.drop_append_of_le_length (lcp_le _ _)] at hd
      rcases List.mem_append.1 hd with h | h
      · apply li.m
        have := lcp_drop_prefix L.stack (baseOf stack f) t d h
        rw [← ht] at this
        exact this
      · simp only [List.mem_singleton] at h
        subst h
        intro hm
        obtain ⟨x, hx, hp⟩ := List.mem_map.1 hm
        apply so.fresh
        rw [← hp]
        exact li.e x hx
    · simp only [hdir] at hd
      simp only [Bool.false_eq_true, if_false, List.append_nil] at hd
      apply li.m
      have : baseOf stack f = stack := by unfold baseOf; simp [hdir]
      rw [this] at hd
      exact hd

theorem mem_blockOf {ws : List Path} {base : List WEntry} {f : WEntry} {x : Entry}
    (h : x ∈ blockOf ws base f) :
    (∃ d ∈ base.drop (lcp ws base), x = { d.toEntry with mtime := f.mtime }) ∨ x = f.toEntry := by
  unfold blockOf at h
  rcases List.mem_append.1 h with h | h
  · obtain ⟨d, hd, he⟩ := List.mem_map.1 h
    exact Or.inl ⟨d, hd, he.symm⟩
  · exact Or.inr (List.mem_singleton.1 h)

theorem LInv.target {pre stack : List WEntry} {f : WEntry} {L : LayerSt} (g : GInv pre stack)
    (so : StepOK pre stack f) (li : LInv pre stack L) :
    LInv (pre ++ [f]) (pushDir stack f)
      ⟨(pushDir stack f).map (·.path), L.out ++ blockOf L.stack (baseOf stack f) f⟩ := by
  obtain ⟨t, ht⟩ := baseOf_prefix stack f
  have hbstack : ∀ d ∈ baseOf stack f, d ∈ stack := by
    intro d hd; rw [ht]; exact List.mem_append_left _ hd
  have hbpre : ∀ d ∈ baseOf stack f, d.path ∈ pre.map (·.path) :=
    fun d hd => List.mem_map_of_mem (g.sub.subset (hbstack d hd))
  -- every element of the base is available as a directory in the new output
  have havail : ∀ d ∈ baseOf stack f, ∃ x ∈ L.out ++ blockOf L.stack (baseOf stack f) f,
      x.isDir = true ∧ x.path = d.path := by
    intro d hd
    rw [← List.take_append_drop (lcp L.stack (baseOf stack f)) (baseOf stack f)] at hd
    rcases List.mem_append.1 hd with h | h
    · obtain ⟨x, hx, hxd, hxp⟩ := li.l1 _ (lcp_take_mem _ _ d h)
      exact ⟨x, List.mem_append_left _ hx, hxd, hxp⟩
    · refine ⟨{ d.toEntry with mtime := f.mtime }, List.mem_append_right _ ?_, ?_, rfl⟩
      · unfold blockOf
        exact List.mem_append_left _ (List.mem_map_of_mem (f := fun d : WEntry => { d.toEntry with mtime := f.mtime }) h)
      · exact g.dirs d (hbstack d (List.mem_of_mem_drop h))
  refine ⟨?_, ?_, ?_, ?_, ?_⟩
  · -- e
    intro x hx
    simp only at hx
    rw [List.map_append]
    rcases List.mem_append.1 hx with h | h
    · exact List.mem_append_left _ (li.e x h)
    · rcases mem_blockOf h with ⟨d, hd, rfl⟩ | rfl
      · exact List.mem_append_left _ (hbpre d (List.mem_of_mem_drop hd))
      · exact List.mem_append_right _ (by simp)
  · -- l1
    intro p hp
    simp only at hp ⊢
    obtain ⟨d, hd, rfl⟩ := List.mem_map.1 hp
    rw [pushDir_eq] at hd
    rcases List.mem_append.1 hd with h | h
    · exact havail d h
    · split at h
      · rename_i hdir
        simp only [List.mem_singleton] at h
        subst h
        refine ⟨d.toEntry, List.mem_append_right _ ?_, hdir, rfl⟩
        unfold blockOf
        exact List.mem_append_right _ (List.mem_singleton.2 rfl)
      · simp at h
  · -- m
    intro d hd
    simp only [lcp_self, List.drop_length] at hd
    simp at hd
  · -- nd
    simp only
    unfold blockOf
    rw [List.map_append, List.map_append, List.map_map, List.nodup_append]
    have hcomp : ((fun x : Entry => x.path) ∘ fun d : WEntry => { d.toEntry with mtime := f.mtime })
        = fun d : WEntry => d.path := rfl
    rw [hcomp]
    refine ⟨li.nd, ?_, ?_⟩
    · rw [List.nodup_append]
      refine ⟨?_, by simp, ?_⟩
      · have hsub : ((baseOf stack f).drop (lcp L.stack (baseOf stack f))).Sublist pre :=
          List.Sublist.trans (List.drop_sublist _ _)
            (List.Sublist.trans (by rw (occs := .pos [2]) [ht]; exact List.sublist_append_left _ _) g.sub)
        exact List.Nodup.sublist (hsub.map _) g.nd
      · intro a ha b hb
        simp only [List.map_cons, List.map_nil, List.mem_singleton] at hb
        subst hb
        intro he; subst he
        obtain ⟨d, hd, hp⟩ := List.mem_map.1 ha
        apply so.fresh
        rw [← hp]
        exact hbpre d (List.mem_of_mem_drop hd)
    · intro a ha b hb he
      subst he
      rcases List.mem_append.1 hb with h | h
      · obtain ⟨d, hd, hp⟩ := List.mem_map.1 h
        have := lcp_drop_prefix L.stack (baseOf stack f) t d hd
        rw [← ht] at this
        exact li.m d this (hp ▸ ha)
      · simp only [List.map_cons, List.map_nil, List.mem_singleton] at h
        subst h
        obtain ⟨x, hx, hp⟩ := List.mem_map.1 ha
        apply so.fresh
        rw [← hp]
        exact li.e x hx
  · -- pf
    simp only
    unfold blockOf
    rw [← List.append_assoc, parentsFirst_append, parentsFirst_append, li.pf]
    simp only [Bool.true_and, Bool.and_eq_true, List.nil_append]
    refine ⟨?_, ?_⟩
    · apply parentsFirst_block f _ ((baseOf stack f).take (lcp L.stack (baseOf stack f)))
      · intro d hd
        exact li.l1 _ (lcp_take_mem _ _ d hd)
      · have hc := g.chain
        rw [ht, chainOK_append] at hc
        have hc1 := hc.1
        rw [← List.take_append_drop (lcp L.stack (baseOf stack f)) (baseOf stack f),
          chainOK_append] at hc1
        simpa using hc1.2
      · intro d hd
        exact g.dirs d (hbstack d (List.mem_of_mem_drop hd))
    · simp only [ParentsFirst, Bool.and_true, Bool.or_eq_true, decide_eq_true_eq, List.any_eq_true]
      rcases so.par_base with h | ⟨d, hd, hp⟩
      · exact Or.inl h
      · right
        obtain ⟨x, hx, hxd, hxp⟩ := havail d hd
        unfold blockOf at hx
        rw [← List.append_assoc] at hx
        rcases List.mem_append.1 hx with h | h
        · exact ⟨x, h, by simp [hxd, hxp, hp]⟩
        · simp only [List.mem_singleton] at h
          subst h
          exfalso
          have : d.path = f.path := hxp.symm
          exact g.stack_ne so d (hbstack d hd) this

theorem nodup_map_inj {α β : Type} (f : α → β) {l : List α} (h : (l.map f).Nodup) {a b : α}
    (ha : a ∈ l) (hb : b ∈ l) (he : f a = f b) : a = b := by
  induction l with
  | nil => simp at ha
  | cons x l ih =>
    rw [List.map_cons, List.nodup_cons] at h
    rcases List.mem_cons.1 ha with rfl | ha' <;> rcases List.mem_cons.1 hb with rfl | hb'
    · rfl
    · exact absurd (he ▸ List.mem_map_of_mem hb') h.1
    · exact absurd (he ▸ List.mem_map_of_mem ha') h.1
    · exact ih h.2 ha' hb'

/-- invariant of the walk loop: `pre` is the visited prefix -/
structure Inv (layerOf : Text → Nat) (n : Nat) (pre : List WEntry) (S : SplitSt) : Prop where
  len : S.layers.length = n + 1
  g : GInv pre S.stack
  li : ∀ (k : Nat) (L : LayerSt), S.layers[k]? = some L → LInv pre S.stack L
  fo : ∀ (k : Nat) (L : LayerSt), S.layers[k]? = some L → ∀ h ∈ pre, h.isDir = false →
    L.out.filter (fun x => x.path = h.path) =
      if k = target layerOf n h then [h.toEntry] else []
  top : (∀ h ∈ pre, h.isDir = true → h.owner = none) → ∀ (L : LayerSt), S.layers[n]? = some L →
    L.stack = S.stack.map (·.path) ∧
      L.out = (pre.filter (fun h => target layerOf n h = n)).map (·.toEntry)

theorem filter_blockOf_old {pre stack : List WEntry} {f h : WEntry} (ws : List Path)
    (g : GInv pre stack) (so : StepOK pre stack f) (hh : h ∈ pre) (hd : h.isDir = false) :
    (blockOf ws (baseOf stack f) f).filter (fun x => x.path = h.path) = [] := by
  obtain ⟨t, ht⟩ := baseOf_prefix stack f
  rw [List.filter_eq_nil_iff]
  intro x hx
  simp only [decide_eq_true_eq]
  intro hp
  rcases mem_blockOf hx with ⟨d, hdm, rfl⟩ | rfl
  · have hds : d ∈ stack := by rw [ht]; exact List.mem_append_left _ (List.mem_of_mem_drop hdm)
    have : d = h := nodup_map_inj (·.path) g.nd (g.sub.subset hds) hh hp
    subst this
    have := g.dirs d hds
    rw [hd] at this
    exact absurd this (by simp)
  · apply so.fresh
    have hp' : f.path = h.path := hp
    rw [hp']
    exact List.mem_map_of_mem hh

theorem filter_blockOf_new {pre stack : List WEntry} {f : WEntry} (ws : List Path)
    (g : GInv pre stack) (so : StepOK pre stack f) :
    (blockOf ws (baseOf stack f) f).filter (fun x => x.path = f.path) = [f.toEntry] := by
  obtain ⟨t, ht⟩ := baseOf_prefix stack f
  unfold blockOf
  rw [List.filter_append]
  have : List.filter (fun x : Entry => decide (x.path = f.path))
      (((baseOf stack f).drop (lcp ws (baseOf stack f))).map
        (fun d : WEntry => ({ d.toEntry with mtime := f.mtime } : Entry))) = [] := by
    rw [List.filter_eq_nil_iff]
    intro x hx
    obtain ⟨d, hdm, rfl⟩ := List.mem_map.1 hx
    simp only [decide_eq_true_eq]
    have hds : d ∈ stack := by rw [ht]; exact List.mem_append_left _ (List.mem_of_mem_drop hdm)
    exact g.stack_ne so d hds
  rw [this]
  simp

theorem Inv.step {layerOf : Text → Nat} {n : Nat} {pre : List WEntry} {S : SplitSt} {f : WEntry}
    (inv : Inv layerOf n pre S) (so : StepOK pre S.stack f) :
    Inv layerOf n (pre ++ [f]) (step layerOf n S f) := by
  have hem : ∀ L0, LInv pre S.stack L0 →
      emitted ((pushDir S.stack f).drop (lcp L0.stack (pushDir S.stack f))) f =
        blockOf L0.stack (baseOf S.stack f) f :=
    fun L0 l0 => emitted_eq _ _ _ (inv.g.stack_ne so) (l0.stack_fresh so)
  refine ⟨?_, ?_, ?_, ?_, ?_⟩
  · simp [Layers.step, inv.len]
  · exact inv.g.step so
  · intro k L hk
    rcases step_layers layerOf n S f k L hk with ⟨_, h⟩ | ⟨_, L0, h0, rfl⟩
    · exact (inv.li k L h).other so
    · rw [hem L0 (inv.li k L0 h0)]
      exact (inv.li k L0 h0).target inv.g so
  · intro k L hk h hh hd
    rcases step_layers layerOf n S f k L hk with ⟨hne, h1⟩ | ⟨heq, L0, h0, rfl⟩
    · rcases List.mem_append.1 hh with hh | hh
      · exact inv.fo k L h1 h hh hd
      · simp only [List.mem_singleton] at hh
        subst hh
        rw [if_neg hne, List.filter_eq_nil_iff]
        intro x hx
        simp only [decide_eq_true_eq]
        intro hp
        apply so.fresh
        rw [← hp]
        exact (inv.li k L h1).e x hx
    · rw [hem L0 (inv.li k L0 h0)]
      simp only
      rw [List.filter_append]
      rcases List.mem_append.1 hh with hh | hh
      · rw [inv.fo k L0 h0 h hh hd, filter_blockOf_old _ inv.g so hh hd]
        simp
      · simp only [List.mem_singleton] at hh
        subst hh
        rw [filter_blockOf_new _ inv.g so, if_pos heq]
        have : L0.out.filter (fun x => x.path = h.path) = [] := by
          rw [List.filter_eq_nil_iff]
          intro x hx
          simp only [decide_eq_true_eq]
          intro hp
          apply so.fresh
          rw [← hp]
          exact (inv.li k L0 h0).e x hx
        rw [this]; simp
  · intro hdu L hk
    have hdu' : ∀ h ∈ pre, h.isDir = true → h.owner = none :=
      fun h hh => hdu h (List.mem_append_left _ hh)
    rcases step_layers layerOf n S f n L hk with ⟨hne, h1⟩ | ⟨heq, L0, h0, rfl⟩
    · obtain ⟨hs, ho⟩ := inv.top hdu' L h1
      have hnd : f.isDir = false := by
        cases hfd : f.isDir with
        | false => rfl
        | true =>
          exfalso
          have := hdu f (List.mem_append_right _ (List.mem_singleton.2 rfl)) hfd
          apply hne
          simp [target, this]
      have hst : (Layers.step layerOf n S f).stack = S.stack := by
        simp [Layers.step, pushDir, hnd]
      rw [hst]
      refine ⟨hs, ?_⟩
      rw [List.filter_append, ho]
      have : target layerOf n f ≠ n := fun h => hne h.symm
      simp [this]
    · obtain ⟨hs, ho⟩ := inv.top hdu' L0 h0
      rw [hem L0 (inv.li n L0 h0)]
      refine ⟨rfl, ?_⟩
      simp only
      obtain ⟨t, ht⟩ := baseOf_prefix S.stack f
      have hl : lcp L0.stack (baseOf S.stack f) = (baseOf S.stack f).length := by
        rw [hs]
        rw (occs := .pos [1]) [ht]
        rw [List.map_append, lcp_prefix_self]
      unfold blockOf
      rw [hl, List.drop_length, List.filter_append, ho]
      simp [heq.symm]

/-! ## the fold -/

/-- `StackOK` from an arbitrary main stack -/
def StacksOK (s rest : List WEntry) : Bool :=
  (mainStacks s rest).all fun (f, s) =>
    parentOf f.path = [] || s.any (fun d => d.path = parentOf f.path)

theorem stackOK_eq (walk : List WEntry) : StackOK walk = StacksOK [] walk := rfl

theorem stacksOK_cons (s : List WEntry) (f : WEntry) (r : List WEntry) :
    StacksOK s (f :: r) =
      ((decide (parentOf f.path = []) || (pushDir s f).any (fun d => d.path = parentOf f.path)) &&
        StacksOK (pushDir s f) r) := by
  simp [StacksOK, mainStacks]

theorem Inv.fold {layerOf : Text → Nat} {n : Nat} :
    ∀ (rest pre : List WEntry) (S : SplitSt), Inv layerOf n pre S →
      ((pre ++ rest).map (·.path)).Nodup → (∀ f ∈ rest, f.path ≠ []) →
      StacksOK S.stack rest = true →
      Inv layerOf n (pre ++ rest) (rest.foldl (Layers.step layerOf n) S) := by
  intro rest
  induction rest with
  | nil => intro pre S inv _ _ _; simpa using inv
  | cons f r ih =>
    intro pre S inv hnd hne hso
    rw [stacksOK_cons, Bool.and_eq_true] at hso
    have so : StepOK pre S.stack f := by
      refine ⟨?_, hne f (List.mem_cons_self), ?_⟩
      · rw [List.map_append, List.nodup_append] at hnd
        intro hm
        exact hnd.2.2 _ hm f.path (by simp) rfl
      · have h1 := hso.1
        simp only [Bool.or_eq_true, decide_eq_true_eq, List.any_eq_true] at h1
        exact h1
    have := ih (pre ++ [f]) (Layers.step layerOf n S f) (inv.step so) (by simpa using hnd)
      (fun g hg => hne g (List.mem_cons_of_mem _ hg)) hso.2
    simpa using this

theorem Inv.init (layerOf : Text → Nat) (n : Nat) :
    Inv layerOf n [] ⟨[], List.replicate (n + 1) ⟨[], []⟩⟩ := by
  have hL : ∀ (k : Nat) (L : LayerSt),
      (List.replicate (n + 1) (⟨[], []⟩ : LayerSt))[k]? = some L → L = ⟨[], []⟩ := by
    intro k L h
    rw [List.getElem?_replicate] at h
    split at h
    · exact (Option.some.inj h).symm
    · exact absurd h (by simp)
  refine ⟨by simp, ⟨List.Sublist.refl _, by simp, by simp, by simp [ChainOK]⟩, ?_, ?_, ?_⟩
  · intro k L h
    rw [hL k L h]
    exact ⟨by simp, by simp, by simp, by simp, by simp [ParentsFirst]⟩
  · intro k L _ h hh; simp at hh
  · intro _ L h
    rw [hL n L h]
    simp

theorem inv_final (layerOf : Text → Nat) (n : Nat) (walk : List WEntry) (hw : WalkOK walk) :
    Inv layerOf n walk (splitCore layerOf n walk) := by
  have := Inv.fold walk [] _ (Inv.init layerOf n) (by simpa using hw.1) hw.2.1
    (by rw [← stackOK_eq]; exact hw.2.2)
  simpa [splitCore] using this

theorem outs_getD (layerOf : Text → Nat) (n : Nat) (walk : List WEntry) (hw : WalkOK walk)
    (k : Nat) (hk : k ≤ n) :
    ∃ L, (splitCore layerOf n walk).layers[k]? = some L ∧
      (splitOuts layerOf n walk).getD k [] = L.out := by
  have inv := inv_final layerOf n walk hw
  have hlt : k < (splitCore layerOf n walk).layers.length := by rw [inv.len]; omega
  refine ⟨(splitCore layerOf n walk).layers[k], List.getElem?_eq_getElem hlt, ?_⟩
  unfold splitOuts
  rw [List.getD_eq_getElem?_getD, List.getElem?_map, List.getElem?_eq_getElem hlt]
  rfl

theorem mem_outs_flatten {layerOf : Text → Nat} {n : Nat} {walk : List WEntry} {x : Entry} :
    x ∈ (splitOuts layerOf n walk).flatten ↔
      ∃ (k : Nat) (L : LayerSt), (splitCore layerOf n walk).layers[k]? = some L ∧ x ∈ L.out := by
  unfold splitOuts
  simp only [List.mem_flatten, List.mem_map]
  constructor
  · rintro ⟨l, ⟨L, hL, rfl⟩, hx⟩
    obtain ⟨k, hk⟩ := List.mem_iff_getElem?.1 hL
    exact ⟨k, L, hk, hx⟩
  · rintro ⟨k, L, hk, hx⟩
    exact ⟨L.out, ⟨L, List.mem_iff_getElem?.2 ⟨k, hk⟩, rfl⟩, hx⟩

/-! ## the theorems -/

theorem fileOnce : FileOnce := by
  intro layerOf n walk hw _ f hf hd k hk
  obtain ⟨L, hL, hg⟩ := outs_getD layerOf n walk hw k hk
  rw [hg]
  exact (inv_final layerOf n walk hw).fo k L hL f hf hd

theorem layerWellFormed : LayerWellFormed := by
  intro layerOf n walk hw _ L hL
  unfold splitOuts at hL
  obtain ⟨Ls, hLs, rfl⟩ := List.mem_map.1 hL
  obtain ⟨k, hk⟩ := List.mem_iff_getElem?.1 hLs
  have li := (inv_final layerOf n walk hw).li k Ls hk
  unfold Layers.layerWellFormed
  simp [li.pf, li.nd]

/-- the top layer is exactly the entries whose writer is `top`, in walk order, with their true
headers (general form: an owned entry whose group's writer index is `n` also lands here) -/
theorem top_eq (layerOf : Text → Nat) (n : Nat) (walk : List WEntry) (hw : WalkOK walk)
    (hdu : DirsUnowned walk) :
    (splitOuts layerOf n walk).getD n [] =
      (walk.filter (fun h => target layerOf n h = n)).map (·.toEntry) := by
  obtain ⟨L, hL, hg⟩ := outs_getD layerOf n walk hw n (Nat.le_refl n)
  rw [hg]
  exact ((inv_final layerOf n walk hw).top hdu L hL).2

/-- `TopHasTrueDirs` (owned entries are written to a group layer, index `< n`; without that
hypothesis the statement is false: an owner mapped to index `n` lands in top). -/
theorem topHasTrueDirs : TopHasTrueDirs := by
  intro layerOf n walk hw _ hdu hlt
  rw [top_eq layerOf n walk hw hdu]
  congr 1
  apply List.filter_congr
  intro f hf
  cases ho : f.owner with
  | none => simp [target, ho]
  | some p =>
    have := hlt f hf p ho
    simp only [target, ho, Option.isNone_some, decide_eq_false_iff_not]
    omega

theorem find?_unique {α : Type} (p : α → Bool) (l : List α) (x : α) (hx : x ∈ l)
    (hp : p x = true) (hu : ∀ y ∈ l, p y = true → y = x) : l.find? p = some x := by
  induction l with
  | nil => simp at hx
  | cons a l ih =>
    rw [List.find?_cons]
    cases hpa : p a with
    | true =>
      have := hu a List.mem_cons_self hpa
      simp [this]
    | false =>
      simp only
      apply ih
      · rcases List.mem_cons.1 hx with rfl | h
        · rw [hp] at hpa; contradiction
        · exact h
      · intro y hy; exact hu y (List.mem_cons_of_mem _ hy)

theorem flattenEqSingle : FlattenEqSingle := by
  intro layerOf n walk hw ht hdu p
  have inv := inv_final layerOf n walk hw
  unfold lastFor
  by_cases hex : ∃ f ∈ walk, f.path = p
  · obtain ⟨f, hf, rfl⟩ := hex
    have hR : (singleLayer walk).reverse.find? (fun e => e.path = f.path) = some f.toEntry := by
      apply find?_unique
      · rw [List.mem_reverse]; exact List.mem_map_of_mem hf
      · simp
      · intro y hy hp
        rw [List.mem_reverse] at hy
        obtain ⟨g, hg, rfl⟩ := List.mem_map.1 hy
        simp only [decide_eq_true_eq] at hp
        rw [nodup_map_inj (·.path) hw.1 hg hf hp]
    rw [hR]
    cases hd : f.isDir with
    | false =>
      apply find?_unique
      · rw [List.mem_reverse, mem_outs_flatten]
        have hk : target layerOf n f ≤ n := ht f hf
        have hlt : target layerOf n f < (splitCore layerOf n walk).layers.length := by
          rw [inv.len]; omega
        refine ⟨_, _, List.getElem?_eq_getElem hlt, ?_⟩
        have := inv.fo _ _ (List.getElem?_eq_getElem hlt) f hf hd
        rw [if_pos rfl] at this
        have hm : f.toEntry ∈ [f.toEntry] := List.mem_singleton.2 rfl
        rw [← this] at hm
        exact (List.mem_filter.1 hm).1
      · simp
      · intro y hy hp
        rw [List.mem_reverse, mem_outs_flatten] at hy
        obtain ⟨k, L, hL, hy⟩ := hy
        have hm : y ∈ L.out.filter (fun x => x.path = f.path) := List.mem_filter.2 ⟨hy, hp⟩
        rw [inv.fo k L hL f hf hd] at hm
        split at hm
        · exact List.mem_singleton.1 hm
        · simp at hm
    | true =>
      have hne : splitOuts layerOf n walk ≠ [] := by
        intro h0
        have : (splitOuts layerOf n walk).length = n + 1 := by
          unfold splitOuts; rw [List.length_map, inv.len]
        rw [h0] at this; simp at this
      have hlen : (splitOuts layerOf n walk).length = n + 1 := by
        unfold splitOuts; rw [List.length_map, inv.len]
      have hlast : (splitOuts layerOf n walk).getLast hne =
          (walk.filter (fun h => target layerOf n h = n)).map (·.toEntry) := by
        have hn : n < (splitOuts layerOf n walk).length := by omega
        rw [← top_eq layerOf n walk hw hdu, List.getLast_eq_getElem,
          List.getD_eq_getElem?_getD, List.getElem?_eq_getElem hn]
        have : (splitOuts layerOf n walk).length - 1 = n := by omega
        simp [this]
      rw [← List.dropLast_concat_getLast hne, List.flatten_append, List.reverse_append,
        List.find?_append, hlast]
      have hT : ((walk.filter (fun h => target layerOf n h = n)).map (·.toEntry)).reverse.find?
          (fun e => e.path = f.path) = some f.toEntry := by
        apply find?_unique
        · rw [List.mem_reverse]
          apply List.mem_map_of_mem
          rw [List.mem_filter]
          refine ⟨hf, ?_⟩
          simp [target, hdu f hf hd]
        · simp
        · intro y hy hp
          rw [List.mem_reverse] at hy
          obtain ⟨g, hg, rfl⟩ := List.mem_map.1 hy
          simp only [decide_eq_true_eq] at hp
          rw [nodup_map_inj (·.path) hw.1 (List.mem_filter.1 hg).1 hf hp]
      simp only [List.flatten_cons, List.flatten_nil, List.append_nil]
      rw [hT]
      simp
  · have hR : (singleLayer walk).reverse.find? (fun e => e.path = p) = none := by
      rw [List.find?_eq_none]
      intro x hx
      rw [List.mem_reverse] at hx
      obtain ⟨g, hg, rfl⟩ := List.mem_map.1 hx
      simp only [decide_eq_true_eq]
      exact fun h => hex ⟨g, hg, h⟩
    rw [hR, List.find?_eq_none]
    intro x hx
    rw [List.mem_reverse, mem_outs_flatten] at hx
    obtain ⟨k, L, hL, hx⟩ := hx
    simp only [decide_eq_true_eq]
    intro hp
    obtain ⟨g, hg, hgp⟩ := List.mem_map.1 ((inv.li k L hL).e x hx)
    exact hex ⟨g, hg, hgp.trans hp⟩

end Apko.C10.Split
