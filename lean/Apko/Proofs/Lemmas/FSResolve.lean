import Apko.Proofs.Lemmas.FSInv
/-! Path resolution returns live nodes. -/
namespace Apko.FS
open Apko Apko.Path

theorem lookup_mem' {cs : List (Name × Ino)} {n : Name} {j : Ino} (h : cs.lookup n = some j) : (n, j) ∈ cs := by
  induction cs with
  | nil => simp at h
  | cons e rest ih =>
    obtain ⟨k, v⟩ := e
    simp only [List.lookup] at h
    split at h
    · rename_i heq
      have : n = k := by simpa using heq
      cases h; subst this; exact List.mem_cons_self
    · exact List.mem_cons_of_mem _ (ih h)

theorem lookup_live {fs : FS} (hi : Inv fs) {d : Nat} {n : Name} {j : Ino} (h : fs.lookup d n = some j) :
    j < fs.nodes.length := hi.live d n j (lookup_mem' h)

theorem walkImpl_live {fs : FS} (hi : Inv fs) (recur : Option (Text → Nat → Except Err (Ino × Nat)))
    (hr : ∀ f, recur = some f → ∀ t c i c', f t c = .ok (i, c') → i < fs.nodes.length) :
    ∀ (ps : List Name) (node : Ino) (tr : List Name) (cnt : Nat) (i : Ino) (c' : Nat),
      node < fs.nodes.length → walkImpl fs recur ps node tr cnt = .ok (i, c') → i < fs.nodes.length := by
  intro ps
  induction ps with
  | nil => intro node tr cnt i c' hn h; simp [walkImpl] at h; rw [← h.1]; exact hn
  | cons part rest ih =>
    intro node tr cnt i c' hn h
    unfold walkImpl at h
    simp only [] at h
    repeat' split at h
    all_goals (try (cases h; done))
    all_goals (refine ih _ _ _ _ _ ?_ h)
    all_goals first
      | exact lookup_live hi (by assumption)
      | exact hr _ rfl _ _ _ _ (by assumption)

theorem getNodeD_live {fs : FS} (hi : Inv fs) :
    ∀ (d : Nat) (path : Text) (cnt : Nat) (i : Ino) (c' : Nat),
      getNodeD fs d path cnt = .ok (i, c') → i < fs.nodes.length := by
  have h0 : 0 < fs.nodes.length := dir_lt fs 0 hi.root
  intro d
  induction d with
  | zero =>
    intro path cnt i c' h
    unfold getNodeD at h
    split at h
    · cases h; exact h0
    · exact walkImpl_live hi none (by intro f hf; cases hf) _ _ _ _ _ _ h0 h
  | succ d ih =>
    intro path cnt i c' h
    unfold getNodeD at h
    split at h
    · cases h; exact h0
    · exact walkImpl_live hi _ (by intro f hf; cases hf; exact ih) _ _ _ _ _ _ h0 h

def StackLive (fs : FS) (st : List Ino) : Prop := ∀ x ∈ st, x < fs.nodes.length

theorem walkPosix_live {fs : FS} (hi : Inv fs)
    (recur : Option (List Ino → List Name → Nat → Except Err (List Ino × Nat)))
    (hr : ∀ f, recur = some f → ∀ st ps c st' c', StackLive fs st → f st ps c = .ok (st', c') → StackLive fs st') :
    ∀ (ps : List Name) (st : List Ino) (cnt : Nat) (st' : List Ino) (c' : Nat),
      StackLive fs st → walkPosix fs recur ps st cnt = .ok (st', c') → StackLive fs st' := by
  have h0 : 0 < fs.nodes.length := dir_lt fs 0 hi.root
  intro ps
  induction ps with
  | nil => intro st cnt st' c' hs h; simp [walkPosix] at h; rw [← h.1]; exact hs
  | cons part rest ih =>
    intro st cnt st' c' hs h
    unfold walkPosix at h
    simp only [] at h
    repeat' split at h
    all_goals (try (cases h; done))
    all_goals (refine ih _ _ _ _ ?_ h)
    all_goals first
      | exact hs
      | (intro x hx; exact hs x (List.mem_of_mem_tail hx))
      | (refine hr _ rfl _ _ _ _ _ ?_ (by assumption)
         split
         · intro x hx; simp at hx; subst hx; exact h0
         · exact hs)
      | (intro x hx
         rcases List.mem_cons.mp hx with rfl | hx
         · exact lookup_live hi (by assumption)
         · exact hs x hx)

theorem resolvePosixD_live {fs : FS} (hi : Inv fs) :
    ∀ (d : Nat) (st : List Ino) (ps : List Name) (cnt : Nat) (st' : List Ino) (c' : Nat),
      StackLive fs st → resolvePosixD fs d st ps cnt = .ok (st', c') → StackLive fs st' := by
  intro d
  induction d with
  | zero =>
    intro st ps cnt st' c' hs h
    exact walkPosix_live hi none (by intro f hf; cases hf) _ _ _ _ _ hs h
  | succ d ih =>
    intro st ps cnt st' c' hs h
    exact walkPosix_live hi _ (by intro f hf; cases hf; intro st ps c st' c' h1 h2; exact ih _ _ _ _ _ h1 h2) _ _ _ _ _ hs h

theorem stackLive_root {fs : FS} (hi : Inv fs) : StackLive fs [0] := by
  intro x hx; simp at hx; subst hx; exact dir_lt fs 0 hi.root

theorem resolveFrom_live {fs : FS} (hi : Inv fs) (c : Cfg) (start : List Ino) (path : Text) (p : Pos)
    (hs : StackLive fs start) (h : resolveFrom c fs start path = .ok p) :
    p.ino < fs.nodes.length ∧ StackLive fs p.stack := by
  have h0 : 0 < fs.nodes.length := dir_lt fs 0 hi.root
  unfold resolveFrom at h
  split at h
  · split at h
    · cases h
    · rename_i st cnt heq
      cases h
      have : StackLive fs st := resolvePosixD_live hi _ _ _ _ _ _ (by split; exact stackLive_root hi; exact hs) heq
      refine ⟨?_, this⟩
      cases st with
      | nil => simpa using h0
      | cons a t => simpa using this a List.mem_cons_self
  · split at h
    · cases h
    · rename_i i cnt heq
      cases h
      exact ⟨getNodeD_live hi _ _ _ _ _ heq, stackLive_root hi⟩

theorem getNode_live {fs : FS} (hi : Inv fs) (c : Cfg) (path : Text) (i : Ino)
    (h : getNode c fs path = .ok i) : i < fs.nodes.length := by
  unfold getNode at h
  cases hr : resolveFrom c fs [0] path with
  | error e => simp [hr, Except.map] at h
  | ok p =>
    simp [hr, Except.map] at h
    rw [← h]
    exact (resolveFrom_live hi c _ _ _ (stackLive_root hi) hr).1

end Apko.FS
