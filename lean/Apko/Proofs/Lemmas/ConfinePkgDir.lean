import Apko.Proofs.Lemmas.ConfineEtag
/-!
`cacheDirForPackage` (`cache.go`): the directory the expanded sections of a package are cached in is the cache
path of the package URL with the extension `.apk` cut off — *not* cleaned again, so a file name `...apk` turns
into a trailing `..`.  The functions (`filepath.Ext`, `strings.TrimSuffix`, `cacheDirForPackage`) live in `Model/Confine.lean`; the lemmas here.
-/
namespace Apko.Confine
open Apko Apko.Path

theorem dropWhile_ne_mem {c : Char} : ∀ (l : Text), c ∈ l → ∃ r, l.dropWhile (· ≠ c) = c :: r := by
  intro l
  induction l with
  | nil => intro h; cases h
  | cons a l ih =>
    intro h
    by_cases ha : a = c
    · subst ha; exact ⟨l, by simp [List.dropWhile]⟩
    · have hm : c ∈ l := by
        rcases List.mem_cons.1 h with e | e
        · exact absurd e.symm ha
        · exact e
      obtain ⟨r, hr⟩ := ih hm
      refine ⟨r, ?_⟩
      rw [List.dropWhile_cons_of_pos (by simpa using ha)]
      exact hr

theorem ext_apk {p : Text} (h : ext p = T ".apk") : ∃ s0, lastSeg p = s0 ++ T ".apk" := by
  unfold ext at h
  simp only at h
  split at h
  · next hm =>
    have he : ((lastSeg p).reverse.takeWhile (· ≠ '.')).reverse = T "apk" := by
      have : T ".apk" = '.' :: T "apk" := rfl
      rw [this] at h
      exact (List.cons.inj h).2
    obtain ⟨r, hr⟩ := dropWhile_ne_mem (lastSeg p).reverse (List.mem_reverse.2 hm)
    have hsplit := (List.takeWhile_append_dropWhile (p := (· ≠ '.')) (l := (lastSeg p).reverse)).symm
    rw [hr] at hsplit
    have := congrArg List.reverse hsplit
    simp only [List.reverse_reverse, List.reverse_append, List.reverse_cons, List.append_assoc] at this
    rw [he] at this
    exact ⟨r.reverse, by rw [this]; rfl⟩
  · cases h

theorem lastSeg_append (a l : Text) (hl : '/' ∉ l) : lastSeg (a ++ '/' :: l) = l := by
  unfold lastSeg
  have : (a ++ '/' :: l).reverse = l.reverse ++ '/' :: a.reverse := by simp
  rw [this, List.takeWhile_append_of_pos]
  · simp [List.takeWhile]
  · intro c hc
    have : c ≠ '/' := by intro e; subst e; exact hl (List.mem_reverse.1 hc)
    simpa using this

theorem trimSuffix_append (a suf : Text) : trimSuffix (a ++ suf) suf = a := by
  unfold trimSuffix hasSuffix
  have h : (suf.reverse).isPrefixOf (a ++ suf).reverse = true := by
    rw [List.isPrefixOf_iff_prefix, List.reverse_append]; exact List.prefix_append _ _
  rw [if_pos h]
  simp [List.reverse_append]

/-- the cleaned package directory, on the normal form: the cache path with its last component `s0 ++ ".apk"`
replaced by `s0` — dropped when `s0` is empty or `.`, and dropped together with its parent when `s0` is `..` -/
theorem pkgdir_clean {L : List Name} {s0 : Text} (hL : NL L) (hs : '/' ∉ s0) :
    clean (trimSuffix (absOf (L ++ [s0 ++ T ".apk"])) (T ".apk")) = absOf (cleanStep true L.reverse s0).reverse := by
  rw [absOf_snoc]
  have e : (if L = [] then [] else absOf L) ++ '/' :: (s0 ++ T ".apk")
      = ((if L = [] then [] else absOf L) ++ '/' :: s0) ++ T ".apk" := by simp
  rw [e, trimSuffix_append]
  by_cases h : L = []
  · subst h
    have ha : isAbs ([] ++ '/' :: s0) = true := by simp [isAbs]
    simp only [if_true]
    rw [clean_abs_stk ha, stk_append_sep, stk_nil, stk_comp _ hs]
    rfl
  · simp only [h, if_false]
    have ha : isAbs (absOf L ++ '/' :: s0) = true := by simp [isAbs, absOf]
    rw [clean_abs_stk ha, stk_append_sep, stk_absOf hL, stk_comp _ hs]

end Apko.Confine
