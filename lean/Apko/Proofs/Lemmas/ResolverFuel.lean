/-
C02 lemmas, part 9: the fuel of the model is always sufficient — `resolve` never answers `outOfFuel`.

* `depLoop`: every pass that continues removes the chosen key from a duplicate-free subset of the
  constraints, so `constraints.length + 1` passes suffice;
* `getDeps`: the recursion only descends into packages of the universe whose NAME is not among the
  ancestors (the by-name cycle guard), so the depth is bounded by the number of packages;
* `worldLoop`: every pass removes the chosen entry from the world.

So every theorem of the form `resolve … = .ok r → …` / `… = .err` covers all behaviours of the model.
Core only.  For all inputs (no hypothesis on the universe).
-/
import Apko.Proofs.Lemmas.ResolverMono

namespace Apko.C02
open Apko Apko.Resolver

/-! ## counting -/

/-- pigeonhole: a duplicate-free list drawn from `m` is no longer than `m` -/
theorem nodup_length_le {l m : List Text} (hn : l.Nodup) (hs : ∀ x ∈ l, x ∈ m) : l.length ≤ m.length := by
  induction l generalizing m with
  | nil => simp
  | cons x xs ih =>
    rw [List.nodup_cons] at hn
    have hx : x ∈ m := hs x (List.mem_cons_self ..)
    have hsub : ∀ y ∈ xs, y ∈ m.erase x := by
      intro y hy
      have hne : y ≠ x := fun he => hn.1 (he ▸ hy)
      exact (List.mem_erase_of_ne hne).mpr (hs y (List.mem_cons_of_mem _ hy))
    have := ih hn.2 hsub
    rw [List.length_erase_of_mem hx] at this
    have := List.length_pos_of_mem hx
    simp only [List.length_cons]
    omega

theorem length_setT_le {α : Type} (m : List (Text × α)) (k : Text) (v : α) :
    (setT m k v).length ≤ m.length + 1 := by
  unfold setT
  split <;> simp

theorem passFold_length (c : Cfg) (pkg : Pkg) (allowPin : Text) (ds : DepSt) (l : List Text)
    (opts0 : List (Text × List Pkg)) (confs0 : List Text) (fl0 : List String)
    (opts : List (Text × List Pkg)) (confs : List Text) (fl : List String)
    (h : l.foldl (passStep c pkg allowPin ds) (some (opts0, confs0, fl0)) = some (opts, confs, fl)) :
    opts.length ≤ opts0.length + l.length := by
  induction l generalizing opts0 confs0 fl0 with
  | nil =>
    simp only [List.foldl_nil, Option.some.injEq, Prod.mk.injEq] at h
    obtain ⟨rfl, _, _⟩ := h
    simp
  | cons x xs ih =>
    simp only [List.foldl_cons] at h
    simp only [List.length_cons]
    cases hx : depOption c pkg allowPin ds x with
    | skip => simp only [passStep, hx] at h; have := ih _ _ _ h; omega
    | skipF g => simp only [passStep, hx] at h; have := ih _ _ _ h; omega
    | conflict y => simp only [passStep, hx] at h; have := ih _ _ _ h; omega
    | fail =>
      simp only [passStep, hx] at h
      rw [passFold_none] at h
      simp at h
    | options d pkgs =>
      simp only [passStep, hx] at h
      have := ih _ _ _ h
      have := length_setT_le opts0 d pkgs
      omega

/-- the constraints left for the next pass are strictly fewer -/
theorem rest_length_lt {c : Cfg} {pkg : Pkg} {allowPin : Text} {ds : DepSt} {constraints : List Text}
    {confs0 : List Text} {opts : List (Text × List Pkg)} {confs : List Text} {fl : List String}
    {lowest : Text} {pkgs : List Pkg}
    (hpass : constraints.foldl (passStep c pkg allowPin ds) (some ([], confs0, [])) = some (opts, confs, fl))
    (hlow : lowestOption opts = some (lowest, pkgs)) :
    ((opts.map (·.1)).filter (· != lowest)).length < constraints.length := by
  have h1 := passFold_length c pkg allowPin ds constraints [] confs0 [] opts confs fl hpass
  have h2 : ((opts.map (·.1)).filter (· != lowest)).length < (opts.map (·.1)).length := by
    rw [List.length_filter_lt_length_iff_exists]
    exact ⟨lowest, List.mem_map.mpr ⟨_, lowestOption_mem hlow, rfl⟩, by simp⟩
  simp only [List.length_map, List.length_nil, Nat.zero_add] at h1 h2 ⊢
  omega

/-! ## `depLoop` -/

/-- what a `depLoop` step that ran out of fuel must have done -/
theorem depLoop_oof_inv {c : Cfg} {rec : Pkg → List (Text × Nat) → DepSt → Res DepOut} {pkg : Pkg}
    {allowPin : Text} {parents : List (Text × Nat)} {fuel : Nat} {constraints : List Text} {acc : DepOut}
    (h : depLoop c rec pkg allowPin parents (fuel + 1) constraints acc = .outOfFuel) :
    ∃ opts confs fl,
      constraints.foldl (passStep c pkg allowPin acc.ds) (some ([], acc.conflicts, [])) =
        some (opts, confs, fl) ∧
      ∃ lowest pkgs best, lowestOption opts = some (lowest, pkgs) ∧ best ∈ pkgs ∧
        ((∃ ds1, rec best (parents ++ [(pkg.name, pkg.id)]) ds1 = .outOfFuel) ∨
         ∃ acc', depLoop c rec pkg allowPin parents fuel ((opts.map (·.1)).filter (· != lowest)) acc' =
           .outOfFuel) := by
  unfold depLoop at h
  split at h
  · simp at h
  · simp only at h
    split at h
    · simp at h
    · next opts confs fl hpass =>
      refine ⟨opts, confs, fl, hpass, ?_⟩
      split at h
      · simp at h
      · next lowest pkgs hlow =>
        split at h
        · simp at h
        · next best hbest =>
          refine ⟨lowest, pkgs, best, hlow, mem_of_minFunc hbest, ?_⟩
          split at h
          · simp at h
          · split at h
            · simp at h
            · split at h
              · simp at h
              · next hsub => exact Or.inl ⟨_, hsub⟩
              · exact Or.inr ⟨_, h⟩

/-- `depLoop` has enough fuel when the recursive walk does -/
theorem depLoop_no_oof {c : Cfg} {rec : Pkg → List (Text × Nat) → DepSt → Res DepOut} {pkg : Pkg}
    {allowPin : Text} {parents : List (Text × Nat)}
    (hrec : ∀ best ds1, best ∈ c.u.all → rec best (parents ++ [(pkg.name, pkg.id)]) ds1 ≠ .outOfFuel)
    (fuel : Nat) : ∀ (constraints : List Text) (acc : DepOut), constraints.length < fuel →
      depLoop c rec pkg allowPin parents fuel constraints acc ≠ .outOfFuel := by
  induction fuel with
  | zero => intro _ _ h; omega
  | succ n ih =>
    intro constraints acc hlen h
    obtain ⟨opts, confs, fl, hpass, lowest, pkgs, best, hlow, hbest, hcase⟩ := depLoop_oof_inv h
    rcases hcase with ⟨ds1, h1⟩ | ⟨acc', h1⟩
    · exact hrec best ds1 (nameMap_mem (pass_lowest hpass hlow hbest).2.2.1).1 h1
    · have := rest_length_lt hpass hlow
      exact ih _ acc' (by omega) h1

/-! ## `getDeps` -/

/-- ancestors carry pairwise different names of packages of the universe -/
def ParentsOK (c : Cfg) (parents : List (Text × Nat)) : Prop :=
  (parents.map (·.1)).Nodup ∧ ∀ n ∈ parents.map (·.1), n ∈ c.u.all.map (·.name)

theorem ParentsOK.length_le {c : Cfg} {parents : List (Text × Nat)} (h : ParentsOK c parents) :
    parents.length ≤ c.u.all.length := by
  have := nodup_length_le h.1 h.2
  simpa using this

/-- `getDeps` has enough fuel as long as fuel + depth exceeds the number of packages by two -/
theorem getDeps_no_oof (c : Cfg) (allowPin : Text) (fuel : Nat) :
    ∀ (pkg : Pkg) (parents : List (Text × Nat)) (ds : DepSt), pkg ∈ c.u.all → ParentsOK c parents →
      c.u.all.length + 2 ≤ fuel + parents.length →
      getDeps c fuel pkg allowPin parents ds ≠ .outOfFuel := by
  induction fuel with
  | zero =>
    intro pkg parents ds _ hp hf
    have := hp.length_le
    omega
  | succ n ih =>
    intro pkg parents ds hpu hp hf h
    unfold getDeps at h
    split at h
    · simp at h
    · next hc =>
      split at h
      · simp at h
      · refine depLoop_no_oof ?_ _ _ _ (Nat.lt_succ_self _) h
        intro best ds1 hb
        apply ih best _ ds1 hb
        · have hnot : pkg.name ∉ parents.map (·.1) := by
            intro hm
            apply hc
            rw [List.any_eq_true]
            obtain ⟨a, ha, hn⟩ := List.mem_map.mp hm
            exact ⟨a, ha, by simpa using hn⟩
          refine ⟨?_, ?_⟩
          · simp only [List.map_append, List.map_cons, List.map_nil]
            rw [List.nodup_append]
            refine ⟨hp.1, by simp, ?_⟩
            intro a ha b hb
            simp only [List.mem_singleton] at hb
            subst hb
            exact fun he => hnot (he ▸ ha)
          · intro m hm
            simp only [List.map_append, List.map_cons, List.map_nil, List.mem_append,
              List.mem_singleton] at hm
            rcases hm with hm | hm
            · exact hp.2 m hm
            · subst hm
              exact List.mem_map.mpr ⟨pkg, hpu, rfl⟩
        · simp only [List.length_append, List.length_cons, List.length_nil]
          omega

/-! ## `getPackageWithDependencies`, `worldLoop`, `resolve` -/

theorem gpwd_no_oof (c : Cfg) (w : Text) (existing : List (Text × Pkg)) (st : St) :
    getPackageWithDependencies c (fuelFor c.u) w existing st ≠ .outOfFuel := by
  intro h
  unfold getPackageWithDependencies at h
  simp only at h
  split at h
  · simp at h
  · next pkg hpkg =>
    split at h
    · simp at h
    · next hoof =>
      refine getDeps_no_oof c _ _ pkg [] _ (nameMap_mem (resolvePackage_mem hpkg).1).1 ?_ ?_ hoof
      · exact ⟨by simp, by simp⟩
      · simp [fuelFor]
    · simp at h

theorem nextPackage_go_mem (c : Cfg) (dq : List Nat) (ps : List Text) :
    ∀ (best r : Option (Text × Nat)), nextPackage.go c dq ps best = some r →
      (∀ b n, r = some (b, n) → b ∈ ps ∨ ∃ n', best = some (b, n')) ∧ (r = none → ps = []) := by
  induction ps with
  | nil =>
    intro best r h
    simp only [nextPackage.go, Option.some.injEq] at h
    subst h
    exact ⟨fun b n hb => Or.inr ⟨n, hb⟩, fun _ => rfl⟩
  | cons p ps ih =>
    intro best r h
    unfold nextPackage.go at h
    have key : ∀ (best' : Option (Text × Nat)), (∀ b n, best' = some (b, n) → b = p ∨ ∃ n', best = some (b, n')) →
        best' ≠ none → nextPackage.go c dq ps best' = some r →
        (∀ b n, r = some (b, n) → b ∈ p :: ps ∨ ∃ n', best = some (b, n')) ∧ (r = none → p :: ps = []) := by
      intro best' hb' hne hgo
      obtain ⟨h1, h2⟩ := ih best' r hgo
      refine ⟨?_, ?_⟩
      · intro b n hr
        rcases h1 b n hr with h3 | ⟨n', h3⟩
        · exact Or.inl (List.mem_cons_of_mem _ h3)
        · rcases hb' b n' h3 with h4 | h4
          · exact Or.inl (by simp [h4])
          · exact Or.inr h4
      · intro hr
        exfalso
        have hps := h2 hr
        subst hps
        simp only [nextPackage.go, Option.some.injEq] at hgo
        exact hne (hgo.trans hr)
    split at h
    · simp at h
    · next l _ =>
      split at h
      · exact key _ (fun b n hb => by simp only [Option.some.injEq, Prod.mk.injEq] at hb; exact Or.inl hb.1.symm)
          (by simp) h
      · next b0 n0 =>
        split at h
        · exact key _ (fun b n hb => by simp only [Option.some.injEq, Prod.mk.injEq] at hb; exact Or.inl hb.1.symm)
            (by simp) h
        · split at h
          · exact key _ (fun b n hb => by simp only [Option.some.injEq, Prod.mk.injEq] at hb; exact Or.inl hb.1.symm)
              (by simp) h
          · exact key _ (fun b n hb => Or.inr ⟨n, hb⟩) (by simp) h

/-- the entry `nextPackage` picks from a non-empty list is a member of the list -/
theorem nextPackage_mem {c : Cfg} {ps : List Text} {dq : List Nat} {next : Text}
    (h : nextPackage c ps dq = some next) (hne : ps ≠ []) : next ∈ ps := by
  unfold nextPackage at h
  split at h
  · simp at h
  · next hgo => exact absurd ((nextPackage_go_mem c dq ps none none hgo).2 rfl) hne
  · next b n hgo =>
    simp only [Option.some.injEq] at h
    subst h
    rcases (nextPackage_go_mem c dq ps none _ hgo).1 b n rfl with h1 | ⟨_, h1⟩
    · exact h1
    · simp at h1

theorem worldLoop_no_oof (c : Cfg) (fuel : Nat) :
    ∀ (constraints : List Text) (depMap : List (Text × Pkg)) (dq : List Nat),
      constraints.length < fuel → worldLoop c fuel constraints depMap dq ≠ .outOfFuel := by
  induction fuel with
  | zero => intro _ _ _ h; omega
  | succ n ih =>
    intro constraints depMap dq hlen h
    unfold worldLoop at h
    split at h
    · simp at h
    · next hne =>
      split at h
      · simp at h
      · next next hnext =>
        split at h
        · simp at h
        · split at h
          · simp at h
          · refine ih _ _ _ ?_ h
            have hmem : next ∈ constraints :=
              nextPackage_mem hnext (by intro he; apply hne; simp [he])
            have : (constraints.filter (· != next)).length < constraints.length := by
              rw [List.length_filter_lt_length_iff_exists]
              exact ⟨next, hmem, by simp⟩
            omega

theorem go_no_oof (c : Cfg) (ws : List Text) :
    ∀ (depMap : List (Text × Pkg)) (st : St) (inst : List Pkg) (confs : List Text),
      resolve.go c ws depMap st inst confs ≠ .outOfFuel := by
  induction ws with
  | nil => intro _ _ _ _ h; simp [resolve.go] at h
  | cons w ws ih =>
    intro depMap st inst confs h
    simp only [resolve.go] at h
    split at h
    · simp at h
    · next hg => exact gpwd_no_oof c w depMap st hg
    · exact ih _ _ _ _ h

end Apko.C02
