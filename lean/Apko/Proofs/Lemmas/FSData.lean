import Apko.Model.FS
/-! File contents: `writeAt` against the "last write wins, holes read as zero" reference. -/
namespace Apko.FS
open Apko

theorem length_zeros (n : Nat) : (zeros n).length = n := by simp [zeros]

theorem writeAt_length (d p : Text) (off : Nat) (hp : p ≠ []) :
    (writeAt d off p).length = max d.length (off + p.length) := by
  unfold writeAt
  simp only [hp, if_false]
  split
  · simp [length_zeros]; omega
  · simp; omega

/-- byte `i` of the data after writing `p` at `off` -/
theorem writeAt_getElem? (d p : Text) (off i : Nat) (hp : p ≠ []) :
    (writeAt d off p)[i]? =
      if off ≤ i ∧ i < off + p.length then p[i - off]?
      else match d[i]? with
        | some b => some b
        | none => if i < off then some (Char.ofNat 0) else none := by
  unfold writeAt
  simp only [hp, if_false]
  by_cases hgrow : off + p.length > d.length
  · simp only [hgrow, if_true]
    have hlen : ((d ++ zeros (off - d.length)).take off).length = off := by
      simp [length_zeros]; omega
    by_cases hi : i < off
    · have h1 : ¬ (off ≤ i ∧ i < off + p.length) := by omega
      simp only [h1, if_false]
      rw [List.getElem?_append_left (by omega), List.getElem?_take_of_lt hi]
      by_cases hd : i < d.length
      · rw [List.getElem?_append_left hd]
        rw [List.getElem?_eq_getElem hd]
      · rw [List.getElem?_append_right (by omega)]
        rw [List.getElem?_eq_none (l := d) (by omega)]
        simp [zeros, hi, List.getElem?_replicate]; omega
    · rw [List.getElem?_append_right (by omega), hlen]
      by_cases hr : i < off + p.length
      · simp [show off ≤ i by omega, hr]
      · have h1 : ¬ (off ≤ i ∧ i < off + p.length) := by omega
        simp only [h1, if_false]
        rw [List.getElem?_eq_none (by omega), List.getElem?_eq_none (l := d) (by omega)]
        simp [hi]
  · simp only [hgrow, if_false]
    have hto : (d.take off).length = off := by simp; omega
    by_cases hi : i < off
    · have h1 : ¬ (off ≤ i ∧ i < off + p.length) := by omega
      simp only [h1, if_false]
      rw [List.append_assoc, List.getElem?_append_left (by omega), List.getElem?_take_of_lt hi]
      rw [List.getElem?_eq_getElem (by omega)]
    · by_cases hr : i < off + p.length
      · rw [if_pos (show off ≤ i ∧ i < off + p.length from ⟨by omega, hr⟩)]
        rw [List.append_assoc, List.getElem?_append_right (by omega), hto,
            List.getElem?_append_left (by omega)]
      · have h1 : ¬ (off ≤ i ∧ i < off + p.length) := by omega
        simp only [h1, if_false]
        rw [List.getElem?_append_right (by simp; omega)]
        simp only [List.length_append, hto, List.getElem?_drop]
        rw [show off + p.length + (i - (off + p.length)) = i by omega]
        cases hdi : d[i]? with
        | some b => rfl
        | none => simp [hi]

/-- reading back exactly the range that was just written returns what was written -/
theorem writeAt_read_back (d p : Text) (off : Nat) (hp : p ≠ []) :
    ((writeAt d off p).drop off).take p.length = p := by
  apply List.ext_getElem?
  intro i
  rw [List.getElem?_take]
  split
  · rename_i hi
    rw [List.getElem?_drop, writeAt_getElem? d p off (off + i) hp]
    simp [hi]
  · rename_i hi
    rw [List.getElem?_eq_none (by omega)]

/-- writes applied newest first -/
def applyWrites : List (Nat × Text) → Text
  | [] => []
  | w :: older => writeAt (applyWrites older) w.1 w.2

/-- reference: the newest write that covers `i` wins; a position below the start of a later write
that nothing wrote reads as zero; everything else is past the end -/
def lastWriteWins : List (Nat × Text) → Nat → Option Char
  | [], _ => none
  | w :: older, i =>
    if w.2 = [] then lastWriteWins older i
    else if w.1 ≤ i ∧ i < w.1 + w.2.length then w.2[i - w.1]?
    else match lastWriteWins older i with
      | some b => some b
      | none => if i < w.1 then some (Char.ofNat 0) else none

theorem applyWrites_spec (ws : List (Nat × Text)) (i : Nat) :
    (applyWrites ws)[i]? = lastWriteWins ws i := by
  induction ws with
  | nil => simp [applyWrites, lastWriteWins]
  | cons w older ih =>
    unfold applyWrites lastWriteWins
    by_cases hw : w.2 = []
    · simp [hw, writeAt, ih]
    · simp only [hw, if_false]
      rw [writeAt_getElem? _ _ _ _ hw, ih]

end Apko.FS
