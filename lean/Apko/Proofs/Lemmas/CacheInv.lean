/-
C19 helper lemmas: the advertise invariant and its preservation by every step of every builder
(except the `.dat.tar` regeneration write, which breaks it — see Proofs/C19.lean).
-/
import Apko.Model.Cache

namespace Apko.C19
open Apko.Cache

/-- what the property asks of the directory alone: a final name that is a regular file (old cache
layouts) holds the complete content it names; a final name that is a link points at a complete file
with that content (in particular it is not dangling). -/
structure GoodFS (g : Name → Option Node) : Prop where
  advFile : ∀ k c b, g (.adv k) = some (.file c b) → c = k ∧ b = true
  advLink : ∀ k t, g (.adv k) = some (.link t) → g t = some (.file k true)

/-- the inductive invariant: directory + ghost typestates of all builders -/
structure Inv (g : Name → Option Node) (P : Nat → Proc) : Prop where
  good : GoodFS g
  linkFree : ∀ k t i, g (.adv k) = some (.link t) → ¬ Owns (P i).ctx t
  ownOpen : ∀ i t c, (P i).ctx t = .opened c → g t = some (.file c false)
  ownClosed : ∀ i t c, (P i).ctx t = .closed c → g t = some (.file c true)
  ownTmp : ∀ i t, Owns (P i).ctx t → t.isTmp = true
  disjoint : ∀ i j t, i ≠ j → Owns (P i).ctx t → ¬ Owns (P j).ctx t
  typed : ∀ i, wt (P i).ctx (P i).prog
  obsOk : ∀ i n c b k, (n, c, b) ∈ (P i).obs → n = .adv k → c = k ∧ b = true

def resolveG (g : Name → Option Node) (n : Name) : Option (Cid × Bool) :=
  match g n with
  | some (.file c b) => some (c, b)
  | some (.link t) =>
    match g t with
    | some (.file c b) => some (c, b)
    | _ => none
  | none => none

theorem resolve_eq (fs : FS) (n : Name) : fs.resolve n = resolveG fs.get n := rfl

theorem good_resolve {g : Name → Option Node} (hg : GoodFS g) {k c b}
    (h : resolveG g (.adv k) = some (c, b)) : c = k ∧ b = true := by
  unfold resolveG at h
  split at h
  · next c' b' he => cases h; exact hg.advFile k _ _ he
  · next t he =>
    rw [hg.advLink k t he] at h
    cases h; exact ⟨rfl, rfl⟩
  · cases h

theorem set_get (fs : FS) (n : Name) (v : Option Node) (x : Name) :
    (fs.set n v).get x = if x = n then v else fs.get x := rfl

theorem owns_opened {Γ : Ctx} {t c} (h : Γ t = .opened c) : Owns Γ t := Or.inl ⟨c, h⟩
theorem owns_closed {Γ : Ctx} {t c} (h : Γ t = .closed c) : Owns Γ t := Or.inr ⟨c, h⟩

theorem owns_exists {g P} (h : Inv g P) {i t} (ho : Owns (P i).ctx t) : ∃ n, g t = some n := by
  rcases ho with ⟨c, hc⟩ | ⟨c, hc⟩
  · exact ⟨_, h.ownOpen i t c hc⟩
  · exact ⟨_, h.ownClosed i t c hc⟩

theorem upd_same (Γ : Ctx) (t : Name) (s : TS) : Γ.upd t s t = s := by simp [Ctx.upd]
theorem upd_other (Γ : Ctx) {t x : Name} (s : TS) (h : x ≠ t) : Γ.upd t s x = Γ x := by
  simp [Ctx.upd, h]

/-- Frame lemma: the directory is unchanged and builder `i` only *loses* ownership. -/
theorem inv_same_fs {g : Name → Option Node} {P P' : Nat → Proc} (i : Nat) (h : Inv g P)
    (hj : ∀ j, j ≠ i → P' j = P j)
    (hop : ∀ x c, (P' i).ctx x = .opened c → (P i).ctx x = .opened c)
    (hcl : ∀ x c, (P' i).ctx x = .closed c → (P i).ctx x = .closed c)
    (hty : wt (P' i).ctx (P' i).prog)
    (hobs : ∀ n c b k, (n, c, b) ∈ (P' i).obs → n = .adv k → c = k ∧ b = true) : Inv g P' := by
  have howns : ∀ j x, Owns (P' j).ctx x → Owns (P j).ctx x := by
    intro j x ho
    by_cases hji : j = i
    · subst hji
      rcases ho with ⟨c, hc⟩ | ⟨c, hc⟩
      · exact owns_opened (hop x c hc)
      · exact owns_closed (hcl x c hc)
    · rw [hj j hji] at ho; exact ho
  refine ⟨h.good, ?_, ?_, ?_, ?_, ?_, ?_, ?_⟩
  · intro k t j hl ho; exact h.linkFree k t j hl (howns j t ho)
  · intro j t c hc
    by_cases hji : j = i
    · subst hji; exact h.ownOpen j t c (hop t c hc)
    · rw [hj j hji] at hc; exact h.ownOpen j t c hc
  · intro j t c hc
    by_cases hji : j = i
    · subst hji; exact h.ownClosed j t c (hcl t c hc)
    · rw [hj j hji] at hc; exact h.ownClosed j t c hc
  · intro j t ho; exact h.ownTmp j t (howns j t ho)
  · intro a b t hab ha hb; exact h.disjoint a b t hab (howns a t ha) (howns b t hb)
  · intro j
    by_cases hji : j = i
    · subst hji; exact hty
    · rw [hj j hji]; exact h.typed j
  · intro j n c b k hm hn
    by_cases hji : j = i
    · subst hji; exact hobs n c b k hm hn
    · rw [hj j hji] at hm; exact h.obsOk j n c b k hm hn

/-- `create t c` on an absent temp name -/
theorem inv_create {g : Name → Option Node} {P P' : Nat → Proc} (i : Nat) (h : Inv g P)
    {t : Name} {c : Cid} (habs : g t = none) (htmp : t.isTmp = true)
    (hj : ∀ j, j ≠ i → P' j = P j)
    (hctx : (P' i).ctx = (P i).ctx.upd t (.opened c))
    (hty : wt (P' i).ctx (P' i).prog)
    (hobs : (P' i).obs = (P i).obs) :
    Inv (fun x => if x = t then some (.file c false) else g x) P' := by
  have hne : ∀ x n, g x = some n → x ≠ t := by
    intro x n hx hxt; rw [hxt, habs] at hx; cases hx
  have hadv : ∀ k, Name.adv k ≠ t := by
    intro k hk; rw [← hk] at htmp; simp [Name.isTmp] at htmp
  have howns : ∀ j x, x ≠ t → Owns (P' j).ctx x → Owns (P j).ctx x := by
    intro j x hx ho
    by_cases hji : j = i
    · subst hji; rw [hctx] at ho
      unfold Owns at ho; rw [upd_other _ _ hx] at ho; exact ho
    · rw [hj j hji] at ho; exact ho
  have hnot : ∀ j, j ≠ i → ¬ Owns (P j).ctx t := by
    intro j _ ho
    obtain ⟨n, hn⟩ := owns_exists h ho
    rw [habs] at hn; cases hn
  refine ⟨⟨?_, ?_⟩, ?_, ?_, ?_, ?_, ?_, ?_, ?_⟩
  · intro k c' b' he
    simp only [hadv k, if_false] at he
    exact h.good.advFile k c' b' he
  · intro k t' he
    simp only [hadv k, if_false] at he
    have := h.good.advLink k t' he
    simp only [hne t' _ this, if_false]; exact this
  · intro k t' j he ho
    simp only [hadv k, if_false] at he
    have ht' := hne t' _ (h.good.advLink k t' he)
    exact h.linkFree k t' j he (howns j t' ht' ho)
  · intro j x c' hc
    by_cases hxt : x = t
    · subst hxt
      by_cases hji : j = i
      · subst hji; rw [hctx, upd_same] at hc; cases hc; simp
      · rw [hj j hji] at hc; exact absurd (owns_opened hc) (hnot j hji)
    · simp only [hxt, if_false]
      by_cases hji : j = i
      · subst hji; rw [hctx, upd_other _ _ hxt] at hc; exact h.ownOpen j x c' hc
      · rw [hj j hji] at hc; exact h.ownOpen j x c' hc
  · intro j x c' hc
    by_cases hxt : x = t
    · subst hxt
      by_cases hji : j = i
      · subst hji; rw [hctx, upd_same] at hc; cases hc
      · rw [hj j hji] at hc; exact absurd (owns_closed hc) (hnot j hji)
    · simp only [hxt, if_false]
      by_cases hji : j = i
      · subst hji; rw [hctx, upd_other _ _ hxt] at hc; exact h.ownClosed j x c' hc
      · rw [hj j hji] at hc; exact h.ownClosed j x c' hc
  · intro j x ho
    by_cases hxt : x = t
    · subst hxt; exact htmp
    · exact h.ownTmp j x (howns j x hxt ho)
  · intro a b x hab ha hb
    by_cases hxt : x = t
    · subst hxt
      by_cases hai : a = i
      · subst hai
        have hbi : b ≠ a := fun e => hab e.symm
        rw [hj b hbi] at hb; exact hnot b hbi hb
      · rw [hj a hai] at ha; exact hnot a hai ha
    · exact h.disjoint a b x hab (howns a x hxt ha) (howns b x hxt hb)
  · intro j
    by_cases hji : j = i
    · subst hji; exact hty
    · rw [hj j hji]; exact h.typed j
  · intro j n c' b k hm hn
    by_cases hji : j = i
    · subst hji; rw [hobs] at hm; exact h.obsOk j n c' b k hm hn
    · rw [hj j hji] at hm; exact h.obsOk j n c' b k hm hn

/-- `finish t` on a temp the builder holds open -/
theorem inv_finish {g : Name → Option Node} {P P' : Nat → Proc} (i : Nat) (h : Inv g P)
    {t : Name} {c : Cid} (hopen : (P i).ctx t = .opened c)
    (hj : ∀ j, j ≠ i → P' j = P j)
    (hctx : (P' i).ctx = (P i).ctx.upd t (.closed c))
    (hty : wt (P' i).ctx (P' i).prog)
    (hobs : (P' i).obs = (P i).obs) :
    Inv (fun x => if x = t then some (.file c true) else g x) P' := by
  have hgt := h.ownOpen i t c hopen
  have htmp := h.ownTmp i t (owns_opened hopen)
  have hadv : ∀ k, Name.adv k ≠ t := by
    intro k hk; rw [← hk] at htmp; simp [Name.isTmp] at htmp
  have howns : ∀ j x, Owns (P' j).ctx x → Owns (P j).ctx x := by
    intro j x ho
    by_cases hji : j = i
    · subst hji; rw [hctx] at ho
      by_cases hxt : x = t
      · subst hxt; exact owns_opened hopen
      · unfold Owns at ho; rw [upd_other _ _ hxt] at ho; exact ho
    · rw [hj j hji] at ho; exact ho
  have hlink : ∀ k t', g (.adv k) = some (.link t') → t' ≠ t := by
    intro k t' he hx; subst hx
    exact h.linkFree k t' i he (owns_opened hopen)
  have hother : ∀ j, j ≠ i → ¬ Owns (P j).ctx t := fun j hji =>
    h.disjoint i j t (fun e => hji e.symm) (owns_opened hopen)
  refine ⟨⟨?_, ?_⟩, ?_, ?_, ?_, ?_, ?_, ?_, ?_⟩
  · intro k c' b' he
    simp only [hadv k, if_false] at he
    exact h.good.advFile k c' b' he
  · intro k t' he
    simp only [hadv k, if_false] at he
    simp only [hlink k t' he, if_false]; exact h.good.advLink k t' he
  · intro k t' j he ho
    simp only [hadv k, if_false] at he
    exact h.linkFree k t' j he (howns j t' ho)
  · intro j x c' hc
    by_cases hji : j = i
    · subst hji; rw [hctx] at hc
      by_cases hxt : x = t
      · subst hxt; rw [upd_same] at hc; cases hc
      · rw [upd_other _ _ hxt] at hc; simp only [hxt, if_false]; exact h.ownOpen j x c' hc
    · rw [hj j hji] at hc
      have hxt : x ≠ t := fun e => hother j hji (e ▸ owns_opened hc)
      simp only [hxt, if_false]; exact h.ownOpen j x c' hc
  · intro j x c' hc
    by_cases hji : j = i
    · subst hji; rw [hctx] at hc
      by_cases hxt : x = t
      · subst hxt; rw [upd_same] at hc; cases hc; simp
      · rw [upd_other _ _ hxt] at hc; simp only [hxt, if_false]; exact h.ownClosed j x c' hc
    · rw [hj j hji] at hc
      have hxt : x ≠ t := fun e => hother j hji (e ▸ owns_closed hc)
      simp only [hxt, if_false]; exact h.ownClosed j x c' hc
  · intro j x ho; exact h.ownTmp j x (howns j x ho)
  · intro a b x hab ha hb; exact h.disjoint a b x hab (howns a x ha) (howns b x hb)
  · intro j
    by_cases hji : j = i
    · subst hji; exact hty
    · rw [hj j hji]; exact h.typed j
  · intro j n c' b k hm hn
    by_cases hji : j = i
    · subst hji; rw [hobs] at hm; exact h.obsOk j n c' b k hm hn
    · rw [hj j hji] at hm; exact h.obsOk j n c' b k hm hn

/-- a builder gives a closed temp up (`symlink` that created the link, or `remove`): the directory
changes at one name `y` only, `y` is not an owned temp of anybody afterwards -/
theorem inv_release {g g' : Name → Option Node} {P P' : Nat → Proc} (i : Nat) (h : Inv g P)
    {t : Name} {c : Cid} (hclosed : (P i).ctx t = .closed c)
    (hj : ∀ j, j ≠ i → P' j = P j)
    (hctx : (P' i).ctx = (P i).ctx.upd t .gone)
    (hty : wt (P' i).ctx (P' i).prog)
    (hobs : (P' i).obs = (P i).obs)
    (hgood : GoodFS g')
    (hkeep : ∀ x, x ≠ t → x.isTmp = true → g' x = g x)
    (hlinks : ∀ k t', g' (.adv k) = some (.link t') → g (.adv k) = some (.link t') ∨ t' = t) :
    Inv g' P' := by
  have howns : ∀ j x, Owns (P' j).ctx x → Owns (P j).ctx x ∧ (j = i → x ≠ t) := by
    intro j x ho
    by_cases hji : j = i
    · subst hji; rw [hctx] at ho
      by_cases hxt : x = t
      · subst hxt; unfold Owns at ho; rw [upd_same] at ho
        rcases ho with ⟨_, hc⟩ | ⟨_, hc⟩ <;> cases hc
      · unfold Owns at ho; rw [upd_other _ _ hxt] at ho; exact ⟨ho, fun _ => hxt⟩
    · rw [hj j hji] at ho; exact ⟨ho, fun e => absurd e hji⟩
  have hother : ∀ j, j ≠ i → ¬ Owns (P j).ctx t := fun j hji =>
    h.disjoint i j t (fun e => hji e.symm) (owns_closed hclosed)
  have hnott : ∀ j x, Owns (P' j).ctx x → x ≠ t := by
    intro j x ho hxt
    by_cases hji : j = i
    · exact (howns j x ho).2 hji hxt
    · subst hxt; exact hother j hji (howns j x ho).1
  refine ⟨hgood, ?_, ?_, ?_, ?_, ?_, ?_, ?_⟩
  · intro k t' j he ho
    rcases hlinks k t' he with hold | heq
    · exact h.linkFree k t' j hold (howns j t' ho).1
    · exact hnott j t' ho heq
  · intro j x c' hc
    have ho : Owns (P' j).ctx x := owns_opened hc
    have hxt := hnott j x ho
    rw [hkeep x hxt (h.ownTmp j x (howns j x ho).1)]
    by_cases hji : j = i
    · subst hji; rw [hctx, upd_other _ _ hxt] at hc; exact h.ownOpen j x c' hc
    · rw [hj j hji] at hc; exact h.ownOpen j x c' hc
  · intro j x c' hc
    have ho : Owns (P' j).ctx x := owns_closed hc
    have hxt := hnott j x ho
    rw [hkeep x hxt (h.ownTmp j x (howns j x ho).1)]
    by_cases hji : j = i
    · subst hji; rw [hctx, upd_other _ _ hxt] at hc; exact h.ownClosed j x c' hc
    · rw [hj j hji] at hc; exact h.ownClosed j x c' hc
  · intro j x ho; exact h.ownTmp j x (howns j x ho).1
  · intro a b x hab ha hb; exact h.disjoint a b x hab (howns a x ha).1 (howns b x hb).1
  · intro j
    by_cases hji : j = i
    · subst hji; exact hty
    · rw [hj j hji]; exact h.typed j
  · intro j n c' b k hm hn
    by_cases hji : j = i
    · subst hji; rw [hobs] at hm; exact h.obsOk j n c' b k hm hn
    · rw [hj j hji] at hm; exact h.obsOk j n c' b k hm hn

end Apko.C19
