import Apko.Proofs.Lemmas.ConfineCache
/-!
The names of key files (`pkg/apk/apk/implementation.go`): `InitKeyring` (already in the model: `keyringFile`),
`fetchChainguardKeys` (`chainguardKeyFile`) and — modelled here, it is not part of the executable model —
`fetchAlpineKeys`, whose base name is `url.PathUnescape`d *after* `filepath.Base` was taken.
-/
namespace Apko.Confine
open Apko Apko.Path

/-! ### `url.PathUnescape` -/

def hexVal (c : Char) : Option Nat :=
  if '0' ≤ c ∧ c ≤ '9' then some (c.toNat - '0'.toNat)
  else if 'a' ≤ c ∧ c ≤ 'f' then some (c.toNat - 'a'.toNat + 10)
  else if 'A' ≤ c ∧ c ≤ 'F' then some (c.toNat - 'A'.toNat + 10)
  else none

/-- `url.PathUnescape` (`unescape(s, encodePathSegment)`): every `%XX` is decoded to the byte `XX`, a `%` that
is not followed by two hexadecimal digits is an `EscapeError` (`none`); `+` stays (path mode) -/
def pathUnescape : Text → Option Text
  | [] => some []
  | '%' :: a :: b :: rest =>
    match hexVal a, hexVal b with
    | some x, some y => (pathUnescape rest).map (Char.ofNat (16 * x + y) :: ·)
    | _, _ => none
  | ['%'] => none
  | ['%', _] => none
  | c :: rest => (pathUnescape rest).map (c :: ·)

/-- `fetchAlpineKeys`: `basefilenameEscape := filepath.Base(u)`; `basefilename, err := url.PathUnescape(…)`;
`filename := filepath.Join(keysDirPath, basefilename)` — `u` is a key URL taken from the `releases.json`
document; `none`: "failed to unescape key filename" -/
def alpineKeyFile (u : Text) : Option Text := (pathUnescape (base u)).map (join2 keysDir)

/-! ### a single kept component below `etc/apk/keys` -/

theorem keysDir_join_normal {b : Name} (hb : Normal b ∧ '/' ∉ b) : join2 keysDir b = keysDir ++ '/' :: b := by
  have hk : keysDir ≠ [] := by decide
  have hsplit : splitOnChar '/' (keysDir ++ '/' :: b) = [T "etc", T "apk", T "keys", b] := by
    rw [splitOnChar_append_sep, splitOnChar_no_sep _ _ hb.2]
    have : splitOnChar '/' keysDir = [T "etc", T "apk", T "keys"] := by decide
    rw [this]; rfl
  have hn : ∀ c ∈ [T "etc", T "apk", T "keys", b], Normal c := by
    intro c hc
    simp only [List.mem_cons, List.not_mem_nil, or_false] at hc
    rcases hc with e | e | e | e
    · subst e; exact ⟨by decide, by decide, by decide⟩
    · subst e; exact ⟨by decide, by decide, by decide⟩
    · subst e; exact ⟨by decide, by decide, by decide⟩
    · subst e; exact hb.1
  have e1 : keysDir ++ slash ++ b = keysDir ++ '/' :: b := by simp [slash]
  have hne : keysDir ++ '/' :: b ≠ [] := by simp
  have hrel : isAbs (keysDir ++ '/' :: b) = false := by
    have : keysDir = 'e' :: (T "tc/apk/keys") := by decide
    rw [this]; simp [isAbs]
  unfold join2
  rw [if_pos hk, e1]
  unfold clean
  rw [if_neg hne]
  simp only [hrel, hsplit]
  unfold cleanParts
  rw [foldl_cleanStep_normal false _ [] hn]
  have : keysDir = T "etc" ++ slash ++ (T "apk" ++ slash ++ T "keys") := by decide
  simp [joinWith, this]
  rfl

/-- then the file is `etc/apk/keys/<b>`: component-wise directly inside the keys directory -/
theorem keysDir_join_parts {b : Name} (hb : Normal b ∧ '/' ∉ b) :
    parts (join2 keysDir b) = [T "etc", T "apk", T "keys", b] := by
  rw [keysDir_join_normal hb, parts_append_sep]
  have : parts keysDir = [T "etc", T "apk", T "keys"] := by decide
  rw [this]
  have : parts b = [b] := by
    unfold parts; rw [splitOnChar_no_sep _ _ hb.2]; simp [hb.1.1]
  rw [this]; rfl

/-- `InitKeyring`: the four outcomes of `Join("etc", "apk", "keys", Base(element))` -/
theorem keyringFile_cases (element : Text) :
    (Normal (base element) ∧ '/' ∉ base element ∧ keyringFile element = keysDir ++ '/' :: base element)
    ∨ ((base element = slash ∨ base element = dot) ∧ keyringFile element = keysDir)
    ∨ (base element = dotdot ∧ keyringFile element = T "etc/apk") := by
  have hb := baseLike_base element
  have hne := base_ne_nil element
  have hj : keyringFile element = join2 keysDir (base element) := by
    unfold keyringFile joinList join2
    have h1 : T "etc" ≠ [] := by decide
    have h2 : T "apk" ≠ [] := by decide
    have h3 : T "keys" ≠ [] := by decide
    have : keysDir = T "etc" ++ slash ++ (T "apk" ++ slash ++ T "keys") := by decide
    simp [h1, h2, h3, hne, joinWith, this]
  rw [hj]
  generalize base element = b at *
  by_cases h1 : b = slash
  · subst h1; exact Or.inr (Or.inl ⟨Or.inl rfl, by decide⟩)
  · by_cases h2 : b = dot
    · subst h2; exact Or.inr (Or.inl ⟨Or.inr rfl, by decide⟩)
    · by_cases h3 : b = dotdot
      · subst h3; exact Or.inr (Or.inr ⟨rfl, by decide⟩)
      · rcases hb with e | ⟨hs, _⟩
        · exact absurd e h1
        · exact Or.inl ⟨⟨hne, h2, h3⟩, hs, keysDir_join_normal ⟨⟨hne, h2, h3⟩, hs⟩⟩

/-- a JWKS key id without separator gives one kept component (`kid ++ ".rsa.pub"` is never empty, `.` or `..`) -/
theorem chainguard_name_normal {kid : Text} (h : '/' ∉ kid) :
    Normal (kid ++ T ".rsa.pub") ∧ '/' ∉ (kid ++ T ".rsa.pub") := by
  have hlen : 8 ≤ (kid ++ T ".rsa.pub").length := by simp [T]
  refine ⟨⟨?_, ?_, ?_⟩, ?_⟩
  · intro e; rw [e] at hlen; simp at hlen
  · intro e; rw [e] at hlen; simp [dot] at hlen
  · intro e; rw [e] at hlen; simp [dotdot] at hlen
  · intro hm
    rcases List.mem_append.1 hm with h' | h'
    · exact h h'
    · revert h'; decide

end Apko.Confine
