import Apko.Model.Tar
import Apko.Proofs.Lemmas.FSInvStep
/-! `nodeOK` (the per-node half of `Tar.WF`) node by node: which fields it reads, which freshly made nodes
satisfy it, and that a successful path lookup never ends on a symbolic link.  Used by
`Lemmas/TarWFReach.lean` to show that `nodeOK` is an invariant of `step`. -/
namespace Apko.Tar
open Apko Apko.Path Apko.FS

/-! ## what `nodeOK` reads -/

/-- `nodeOK` reads the `dir` flag, the seven bits of `fs.ModeType`, the link target, the package entry
and the registered hard-link headers — nothing else (not the permission / set-id bits, owner, times,
content, xattrs, link count, children) -/
theorem nodeOK_congr (n m : Inode) (hd : m.dir = n.dir)
    (h31 : m.mode.testBit 31 = n.mode.testBit 31) (h27 : m.mode.testBit 27 = n.mode.testBit 27)
    (h26 : m.mode.testBit 26 = n.mode.testBit 26) (h25 : m.mode.testBit 25 = n.mode.testBit 25)
    (h24 : m.mode.testBit 24 = n.mode.testBit 24) (h21 : m.mode.testBit 21 = n.mode.testBit 21)
    (h19 : m.mode.testBit 19 = n.mode.testBit 19)
    (ht : m.target = n.target) (hte : m.te = n.te) (hh : m.hardlinks = n.hardlinks) :
    nodeOK m = nodeOK n := by
  unfold nodeOK obsKind isRegularMode Inode.isSymlink
  rw [hd, h31, h27, h26, h25, h24, h21, h19, ht, hte, hh]

/-- an update that keeps mode, `dir` flag, target, package entry and hard-link headers -/
theorem nodeOK_same (n m : Inode) (hm : m.mode = n.mode) (hd : m.dir = n.dir) (ht : m.target = n.target)
    (hte : m.te = n.te) (hh : m.hardlinks = n.hardlinks) : nodeOK m = nodeOK n :=
  nodeOK_congr n m hd (by rw [hm]) (by rw [hm]) (by rw [hm]) (by rw [hm]) (by rw [hm]) (by rw [hm]) (by rw [hm])
    ht hte hh

/-! ## permission arguments -/

/-- no bit of `fs.ModeType` (`ModeDir | ModeSymlink | ModeNamedPipe | ModeSocket | ModeDevice |
ModeCharDevice | ModeIrregular`) is set -/
def noTypeBits (perm : Nat) : Bool :=
  !perm.testBit 31 && !perm.testBit 27 && !perm.testBit 26 && !perm.testBit 25 && !perm.testBit 24 &&
    !perm.testBit 21 && !perm.testBit 19

theorem noTypeBits_iff (perm : Nat) : noTypeBits perm = true ↔
    perm.testBit 31 = false ∧ perm.testBit 27 = false ∧ perm.testBit 26 = false ∧ perm.testBit 25 = false ∧
    perm.testBit 24 = false ∧ perm.testBit 21 = false ∧ perm.testBit 19 = false := by
  unfold noTypeBits
  simp only [Bool.and_eq_true, Bool.not_eq_true', and_assoc]

/-- `noTypeBits` is `perm & fs.ModeType == 0` -/
theorem noTypeBits_eq_and (perm : Nat) : noTypeBits perm = true ↔ perm &&& modeType = 0 := by
  rw [noTypeBits_iff]
  constructor
  · rintro ⟨h31, h27, h26, h25, h24, h21, h19⟩
    apply Nat.eq_of_testBit_eq
    intro k
    rw [Nat.testBit_and, Nat.zero_testBit]
    by_cases hk : k = 31 ∨ k = 27 ∨ k = 26 ∨ k = 25 ∨ k = 24 ∨ k = 21 ∨ k = 19
    · rcases hk with rfl | rfl | rfl | rfl | rfl | rfl | rfl <;> simp [*]
    · have : modeType.testBit k = false := by
        have e : modeType = 2 ^ 31 + 2 ^ 27 + 2 ^ 26 + 2 ^ 25 + 2 ^ 24 + 2 ^ 21 + 2 ^ 19 := rfl
        by_cases hlt : k < 32
        · have : k ∈ List.range 32 := List.mem_range.mpr hlt
          revert hk
          have hall : ∀ j ∈ List.range 32,
              ¬(j = 31 ∨ j = 27 ∨ j = 26 ∨ j = 25 ∨ j = 24 ∨ j = 21 ∨ j = 19) → modeType.testBit j = false := by
            decide
          exact hall k this
        · apply Nat.testBit_lt_two_pow
          have : (2 : Nat) ^ 32 ≤ 2 ^ k := Nat.pow_le_pow_right (by omega) (by omega)
          have : modeType < 2 ^ 32 := by decide
          omega
      simp [this]
  · intro h
    have hb : ∀ k, modeType.testBit k = true → perm.testBit k = false := by
      intro k hk
      have := congrArg (fun x => x.testBit k) h
      simp only [Nat.testBit_and, Nat.zero_testBit, hk, Bool.and_true] at this
      exact this
    exact ⟨hb 31 (by decide), hb 27 (by decide), hb 26 (by decide), hb 25 (by decide), hb 24 (by decide),
      hb 21 (by decide), hb 19 (by decide)⟩

theorem typeKeep_testBit (old perm k : Nat) (hp : perm.testBit k = false) (hk : modeType.testBit k = true) :
    (typeKeep old perm).testBit k = old.testBit k := by
  simp [typeKeep, Nat.testBit_or, Nat.testBit_and, hp, hk]

/-- `Chmod` with a permission argument without type bits keeps `nodeOK` -/
theorem nodeOK_chmod (n : Inode) (perm : Nat) (hp : noTypeBits perm = true) :
    nodeOK { n with mode := typeKeep n.mode perm } = nodeOK n := by
  obtain ⟨h31, h27, h26, h25, h24, h21, h19⟩ := (noTypeBits_iff perm).mp hp
  exact nodeOK_congr n _ rfl
    (typeKeep_testBit _ _ 31 h31 (by decide)) (typeKeep_testBit _ _ 27 h27 (by decide))
    (typeKeep_testBit _ _ 26 h26 (by decide)) (typeKeep_testBit _ _ 25 h25 (by decide))
    (typeKeep_testBit _ _ 24 h24 (by decide)) (typeKeep_testBit _ _ 21 h21 (by decide))
    (typeKeep_testBit _ _ 19 h19 (by decide)) rfl rfl rfl

/-! ## the nodes the operations create -/

/-- a node without package entry and hard-link headers: `nodeOK` in terms of the bits -/
theorem nodeOK_plain (n : Inode) (hte : n.te = none) (hh : n.hardlinks = []) :
    nodeOK n =
      ((n.dir == n.mode.testBit 31) &&
       (obsKind n = .reg || obsKind n = .dir || obsKind n = .symlink || obsKind n = .char) &&
       (!n.mode.testBit 21 || obsKind n = .char) &&
       (!n.isSymlink || (obsKind n = .symlink && n.target ≠ []))) := by
  unfold nodeOK
  rw [hte, hh]
  simp

/-- what `Mkdir` / `MkdirAll` make: fine unless the permission argument carries `ModeSymlink` or
`ModeCharDevice` (`ModeDir` and every other bit is harmless: the node is a directory) -/
theorem nodeOK_newDir (perm : Nat) (h27 : perm.testBit 27 = false) (h21 : perm.testBit 21 = false) :
    nodeOK (newDir (modeDir ||| perm)) = true := by
  rw [nodeOK_plain _ rfl rfl]
  have b31 : (modeDir ||| perm).testBit 31 = true := by rw [Nat.testBit_or]; simp [show modeDir.testBit 31 = true by decide]
  have b27 : (modeDir ||| perm).testBit 27 = false := by rw [Nat.testBit_or, h27]; decide
  have b21 : (modeDir ||| perm).testBit 21 = false := by rw [Nat.testBit_or, h21]; decide
  simp [newDir, obsKind, Inode.isSymlink, b31, b27, b21]

/-- … and these two bits are exactly what is needed -/
theorem nodeOK_newDir_iff (perm : Nat) :
    nodeOK (newDir (modeDir ||| perm)) = true ↔ perm.testBit 27 = false ∧ perm.testBit 21 = false := by
  constructor
  · intro h
    rw [nodeOK_plain _ rfl rfl] at h
    have b31 : (modeDir ||| perm).testBit 31 = true := by rw [Nat.testBit_or]; simp [show modeDir.testBit 31 = true by decide]
    have b27 : (modeDir ||| perm).testBit 27 = perm.testBit 27 := by rw [Nat.testBit_or]; simp [show modeDir.testBit 27 = false by decide]
    have b21 : (modeDir ||| perm).testBit 21 = perm.testBit 21 := by rw [Nat.testBit_or]; simp [show modeDir.testBit 21 = false by decide]
    simp [newDir, obsKind, Inode.isSymlink, b31, b27, b21] at h
    exact ⟨h.2, h.1⟩
  · rintro ⟨h1, h2⟩; exact nodeOK_newDir perm h1 h2

/-- what `OpenFile(O_CREATE)` / `WriteFile` / `Create` make -/
theorem nodeOK_newFile (perm : Nat) (hp : noTypeBits perm = true) : nodeOK { mode := perm } = true := by
  obtain ⟨h31, h27, h26, h25, h24, h21, h19⟩ := (noTypeBits_iff perm).mp hp
  rw [nodeOK_plain _ rfl rfl]
  simp [obsKind, isRegularMode, Inode.isSymlink, h31, h27, h26, h25, h24, h21, h19]

/-- what `Symlink(target, _)` makes -/
theorem nodeOK_newSymlink (target : Text) (mt : Int) (ht : target ≠ []) :
    nodeOK { mode := modeSymlink + 0o777, target := target, mtime := mt } = true := by
  rw [nodeOK_plain _ rfl rfl]
  have b31 : (modeSymlink + 0o777).testBit 31 = false := by decide
  have b27 : (modeSymlink + 0o777).testBit 27 = true := by decide
  have b21 : (modeSymlink + 0o777).testBit 21 = false := by decide
  simp [obsKind, Inode.isSymlink, b31, b27, b21, ht]

/-- a symbolic link with an empty target is the one thing `Symlink` can make that is not `nodeOK` -/
theorem nodeOK_newSymlink_iff (target : Text) (mt : Int) :
    nodeOK { mode := modeSymlink + 0o777, target := target, mtime := mt } = true ↔ target ≠ [] := by
  constructor
  · intro h ht
    rw [nodeOK_plain _ rfl rfl] at h
    have b31 : (modeSymlink + 0o777).testBit 31 = false := by decide
    have b27 : (modeSymlink + 0o777).testBit 27 = true := by decide
    have b21 : (modeSymlink + 0o777).testBit 21 = false := by decide
    simp [obsKind, Inode.isSymlink, b31, b27, b21, ht] at h
  · exact nodeOK_newSymlink target mt

/-- what `Mknod(_, mode, dev)` makes: a character device whatever `mode` says (`S_IFCHR`, `S_IFBLK`, … of
the `uint32` argument are bits 12–15, outside `fs.ModeType`), fine unless `mode` carries `ModeDir` or
`ModeSymlink` -/
theorem nodeOK_newDev (mode ma mi : Nat) (mt : Int) (h31 : mode.testBit 31 = false) (h27 : mode.testBit 27 = false) :
    nodeOK { mode := mode ||| modeCharDevice ||| modeDevice, major := ma, minor := mi, mtime := mt } = true := by
  rw [nodeOK_plain _ rfl rfl]
  have b31 : (mode ||| modeCharDevice ||| modeDevice).testBit 31 = false := by
    simp only [Nat.testBit_or, h31]; decide
  have b27 : (mode ||| modeCharDevice ||| modeDevice).testBit 27 = false := by
    simp only [Nat.testBit_or, h27]; decide
  have b26 : (mode ||| modeCharDevice ||| modeDevice).testBit 26 = true := by
    simp only [Nat.testBit_or]; simp [show modeDevice.testBit 26 = true by decide]
  have b21 : (mode ||| modeCharDevice ||| modeDevice).testBit 21 = true := by
    simp only [Nat.testBit_or]; simp [show modeCharDevice.testBit 21 = true by decide]
  simp [obsKind, Inode.isSymlink, b31, b27, b26, b21]

/-! ### package entries (`tarfs.writeHeader`) -/

theorem hdrMode_testBit_hi (h : Hdr) (k : Nat) (hk : 24 ≤ k) :
    (hdrMode h).testBit k =
      (if h.typeflag = 50 then modeSymlink else if h.typeflag = 53 then modeDir else 0).testBit k := by
  unfold hdrMode
  simp only [Nat.testBit_or, Nat.testBit_and]
  have h1 : (0o777 : Nat).testBit k = false :=
    Nat.testBit_lt_two_pow (Nat.lt_of_lt_of_le (by decide : (0o777 : Nat) < 2 ^ 24) (Nat.pow_le_pow_right (by omega) hk))
  have h2 : (if h.mode.testBit 11 then modeSetuid else 0).testBit k = false := by
    split
    · exact Nat.testBit_lt_two_pow (Nat.lt_of_lt_of_le (by decide : modeSetuid < 2 ^ 24) (Nat.pow_le_pow_right (by omega) hk))
    · exact Nat.zero_testBit k
  have h3 : (if h.mode.testBit 10 then modeSetgid else 0).testBit k = false := by
    split
    · exact Nat.testBit_lt_two_pow (Nat.lt_of_lt_of_le (by decide : modeSetgid < 2 ^ 24) (Nat.pow_le_pow_right (by omega) hk))
    · exact Nat.zero_testBit k
  have h4 : (if h.mode.testBit 9 then modeSticky else 0).testBit k = false := by
    split
    · exact Nat.testBit_lt_two_pow (Nat.lt_of_lt_of_le (by decide : modeSticky < 2 ^ 24) (Nat.pow_le_pow_right (by omega) hk))
    · exact Nat.zero_testBit k
  simp [h1, h2, h3, h4]

/-- bits 21 and 19 of a header mode: never set (`ModeSetuid` = 2^23, `ModeSetgid` = 2^22, `ModeSticky` = 2^20) -/
theorem hdrMode_testBit_lo (h : Hdr) (k : Nat) (hk : k = 21 ∨ k = 19) : (hdrMode h).testBit k = false := by
  unfold hdrMode
  simp only [Nat.testBit_or, Nat.testBit_and]
  rcases hk with rfl | rfl
  · have h1 : (0o777 : Nat).testBit 21 = false := by decide
    simp only [h1, Bool.and_false, Bool.false_or]
    repeat' split
    all_goals decide
  · have h1 : (0o777 : Nat).testBit 19 = false := by decide
    simp only [h1, Bool.and_false, Bool.false_or]
    repeat' split
    all_goals decide

/-- the node `tarfs.writeHeader` enters for a regular-file (`'0'`) or symlink (`'2'`) header: fine when a
symlink header names a target and the announced size is the length of what the package file delivers -/
theorem nodeOK_hdrNode (h : Hdr) (te : TarEntry) (hty : h.typeflag = 48 ∨ h.typeflag = 50)
    (hlink : h.typeflag = 50 → h.linkname ≠ []) (hsz : te.size = te.content.length) :
    nodeOK { mode := hdrMode h, mtime := h.mtime, target := h.linkname, te := some te } = true := by
  have b21 := hdrMode_testBit_lo h 21 (Or.inl rfl)
  have b19 := hdrMode_testBit_lo h 19 (Or.inr rfl)
  have b31 := hdrMode_testBit_hi h 31 (by omega)
  have b27 := hdrMode_testBit_hi h 27 (by omega)
  have b26 := hdrMode_testBit_hi h 26 (by omega)
  have b25 := hdrMode_testBit_hi h 25 (by omega)
  have b24 := hdrMode_testBit_hi h 24 (by omega)
  unfold nodeOK obsKind isRegularMode Inode.isSymlink
  simp only [b21, b19, b31, b27, b26, b25, b24]
  rcases hty with ht | ht
  · have e : (if h.typeflag = 50 then modeSymlink else if h.typeflag = 53 then modeDir else 0) = 0 := by
      simp [ht]
    simp [e, hsz]
  · have e : (if h.typeflag = 50 then modeSymlink else if h.typeflag = 53 then modeDir else 0) = modeSymlink := by
      simp [ht]
    have s31 : modeSymlink.testBit 31 = false := by decide
    have s27 : modeSymlink.testBit 27 = true := by decide
    simp [e, hsz, s31, s27, hlink ht]

/-! ### a further hard-link header on a file or device -/

/-- registering a hard-link header (`tarfs.link` with a header) on a node that is neither a directory
nor a symbolic link keeps `nodeOK` -/
theorem nodeOK_addHardlink (n : Inode) (hn : nodeOK n = true) (hd : n.dir = false) (hs : n.isSymlink = false)
    (k : Nat) (hl : List (Text × Text)) : nodeOK { n with nlink := k, hardlinks := hl } = true := by
  unfold nodeOK at hn ⊢
  simp only [Bool.and_eq_true] at hn ⊢
  obtain ⟨⟨⟨⟨⟨h1, h2⟩, h3⟩, h4⟩, h5⟩, _⟩ := hn
  refine ⟨⟨⟨⟨⟨h1, h2⟩, h3⟩, h4⟩, h5⟩, ?_⟩
  show (hl.isEmpty || decide (obsKind { n with nlink := k, hardlinks := hl } = .reg) ||
    decide (obsKind { n with nlink := k, hardlinks := hl } = .char)) = true
  have hk : obsKind { n with nlink := k, hardlinks := hl } = obsKind n := rfl
  rw [hk]
  revert h1 h2 h3 hs
  unfold obsKind isRegularMode Inode.isSymlink
  rw [hd]
  generalize n.mode.testBit 31 = b31
  generalize n.mode.testBit 27 = b27
  generalize n.mode.testBit 26 = b26
  generalize n.mode.testBit 25 = b25
  generalize n.mode.testBit 24 = b24
  generalize n.mode.testBit 21 = b21
  generalize n.mode.testBit 19 = b19
  cases b31 <;> cases b27 <;> cases b26 <;> cases b25 <;> cases b24 <;> cases b21 <;> cases b19 <;> simp

/-- a directory that is `nodeOK` is not a symbolic link -/
theorem nodeOK_dir_notSymlink (n : Inode) (hn : nodeOK n = true) (hd : n.dir = true) : n.isSymlink = false := by
  unfold nodeOK at hn
  simp only [Bool.and_eq_true] at hn
  obtain ⟨⟨⟨⟨⟨h1, _⟩, _⟩, h4⟩, _⟩, _⟩ := hn
  revert h1 h4
  unfold obsKind Inode.isSymlink
  rw [hd]
  generalize n.mode.testBit 31 = b31
  generalize n.mode.testBit 27 = b27
  cases b31 <;> cases b27 <;> simp

/-- `nodeOK`'s first conjunct is `DirBit` (and its converse) -/
theorem nodeOK_dirBit (n : Inode) (hn : nodeOK n = true) : n.dir = n.mode.testBit 31 := by
  unfold nodeOK at hn
  simp only [Bool.and_eq_true] at hn
  simpa using hn.1.1.1.1.1

/-! ## a successful lookup does not end on a symbolic link -/

/-- node `i` is not a symbolic link -/
def NotSym (fs : FS) (i : Ino) : Prop := (fs.node i).isSymlink = false

theorem walkImpl_notSym {fs : FS} (recur : Option (Text → Nat → Except Err (Ino × Nat)))
    (hr : ∀ f, recur = some f → ∀ t c i c', f t c = .ok (i, c') → NotSym fs i) :
    ∀ (ps : List Name) (node : Ino) (tr : List Name) (cnt : Nat) (i : Ino) (c' : Nat),
      NotSym fs node → walkImpl fs recur ps node tr cnt = .ok (i, c') → NotSym fs i := by
  intro ps
  induction ps with
  | nil => intro node tr cnt i c' hn h; simp [walkImpl] at h; rw [← h.1]; exact hn
  | cons part rest ih =>
    intro node tr cnt i c' hn h
    unfold walkImpl at h
    simp only [] at h
    repeat' split at h
    all_goals (try (cases h; done))
    all_goals (refine ih _ _ _ _ _ ?_ h)
    all_goals first
      | exact hr _ rfl _ _ _ _ (by assumption)
      | (unfold NotSym; simpa using (by assumption : ¬ (Inode.isSymlink _ = true)))

theorem getNodeD_notSym {fs : FS} (h0 : NotSym fs 0) :
    ∀ (d : Nat) (path : Text) (cnt : Nat) (i : Ino) (c' : Nat),
      getNodeD fs d path cnt = .ok (i, c') → NotSym fs i := by
  intro d
  induction d with
  | zero =>
    intro path cnt i c' h
    unfold getNodeD at h
    split at h
    · cases h; exact h0
    · exact walkImpl_notSym none (by intro f hf; cases hf) _ _ _ _ _ _ h0 h
  | succ d ih =>
    intro path cnt i c' h
    unfold getNodeD at h
    split at h
    · cases h; exact h0
    · exact walkImpl_notSym _ (by intro f hf; cases hf; exact ih) _ _ _ _ _ _ h0 h

def StackNotSym (fs : FS) (st : List Ino) : Prop := ∀ x ∈ st, NotSym fs x

theorem walkPosix_notSym {fs : FS} (h0 : NotSym fs 0)
    (recur : Option (List Ino → List Name → Nat → Except Err (List Ino × Nat)))
    (hr : ∀ f, recur = some f → ∀ st ps c st' c', StackNotSym fs st → f st ps c = .ok (st', c') → StackNotSym fs st') :
    ∀ (ps : List Name) (st : List Ino) (cnt : Nat) (st' : List Ino) (c' : Nat),
      StackNotSym fs st → walkPosix fs recur ps st cnt = .ok (st', c') → StackNotSym fs st' := by
  intro ps
  induction ps with
  | nil => intro st cnt st' c' hs h; simp [walkPosix] at h; rw [← h.1]; exact hs
  | cons part rest ih =>
    intro st cnt st' c' hs h
    unfold walkPosix at h
    simp only [] at h
    repeat' split at h
    all_goals (try (cases h; done))
    all_goals (refine ih _ _ _ _ ?_ h)
    all_goals first
      | exact hs
      | (intro x hx; exact hs x (List.mem_of_mem_tail hx))
      | (refine hr _ rfl _ _ _ _ _ ?_ (by assumption)
         split
         · intro x hx; simp at hx; subst hx; exact h0
         · exact hs)
      | (intro x hx
         rcases List.mem_cons.mp hx with rfl | hx
         · unfold NotSym; simpa using (by assumption : ¬ (Inode.isSymlink _ = true))
         · exact hs x hx)

theorem resolvePosixD_notSym {fs : FS} (h0 : NotSym fs 0) :
    ∀ (d : Nat) (st : List Ino) (ps : List Name) (cnt : Nat) (st' : List Ino) (c' : Nat),
      StackNotSym fs st → resolvePosixD fs d st ps cnt = .ok (st', c') → StackNotSym fs st' := by
  intro d
  induction d with
  | zero =>
    intro st ps cnt st' c' hs h
    exact walkPosix_notSym h0 none (by intro f hf; cases hf) _ _ _ _ _ hs h
  | succ d ih =>
    intro st ps cnt st' c' hs h
    exact walkPosix_notSym h0 _ (by intro f hf; cases hf; intro st ps c st' c' h1 h2; exact ih _ _ _ _ _ h1 h2) _ _ _ _ _ hs h

theorem stackNotSym_root {fs : FS} (h0 : NotSym fs 0) : StackNotSym fs [0] := by
  intro x hx; simp at hx; subst hx; exact h0

/-- **getNode_notSymlink**: `getNode` follows the link at the end of a path too (memfs and tarfs have
no `Lstat` semantics in `getNode`), so what it returns is never a symbolic link — as long as the root is
not one -/
theorem getNode_notSymlink {fs : FS} (h0 : (fs.node 0).isSymlink = false) (c : Cfg) (path : Text) (i : Ino)
    (h : getNode c fs path = .ok i) : (fs.node i).isSymlink = false := by
  have h0' : NotSym fs 0 := h0
  unfold getNode at h
  cases hr : resolveFrom c fs [0] path with
  | error e => simp [hr, Except.map] at h
  | ok p =>
    simp [hr, Except.map] at h
    rw [← h]
    unfold resolveFrom at hr
    split at hr
    · split at hr
      · cases hr
      · rename_i st cnt heq
        cases hr
        have : StackNotSym fs st :=
          resolvePosixD_notSym h0' _ _ _ _ _ _ (by split <;> exact stackNotSym_root h0') heq
        cases st with
        | nil => simpa using h0
        | cons a t => simpa [NotSym] using this a List.mem_cons_self
    · split at hr
      · cases hr
      · rename_i j cnt heq
        cases hr
        exact getNodeD_notSym h0' _ _ _ _ _ heq

end Apko.Tar
