import Apko.Proofs.Lemmas.ConflictInv
/-! C07: the Impl run refines the Spec run wherever it raises no ghost flag.

`Cfg.spec = true` replaces the decisions by the rule table and never raises a flag.  Every place where
the two differ raises a flag in the Impl run, so an Impl result (success *or* error) whose flag list is
empty is literally the Spec result: same tree, same `installedFiles`, same decision log, same `files`
of every package, same outcome. -/
namespace Apko.C07
open Apko Apko.Conflict Apko.Path

/-- the ghost flags a step / run ends with (carried by the state on success, by the error otherwise) -/
def resFlags {α : Type} : Except (Outcome × List Flag) (St × α) → List Flag
  | .ok (st, _) => st.flags
  | .error (_, fl) => fl

/-- the Spec configuration of the same backend -/
def specOf (c : Cfg) : Cfg := { c with spec := true }

theorem cfg_eta (c : Cfg) (hc : c.spec = false) : ({ c with spec := false } : Cfg) = c := by
  cases c; simp_all

theorem decideOwned_specOf (c : Cfg) (got : Pkg) (gs : Text) (want : Pkg) (ws : Text) :
    decideOwned (specOf c) got gs want ws = decideSpec got gs want ws := by
  simp [decideOwned, specOf]

theorem decisionFlags_nil (c : Cfg) (name : Text) (got : Pkg) (gotSum : Text) (want : Pkg) (wantSum : Text) :
    decisionFlags c name got gotSum want wantSum = [] ↔
      decideOwned { c with spec := false } got gotSum want wantSum = decideSpec got gotSum want wantSum := by
  unfold decisionFlags
  by_cases h : decideOwned { c with spec := false } got gotSum want wantSum = decideSpec got gotSum want wantSum
  · simp [h]
  · by_cases h2 : got.origin = [] ∨ want.origin = [] <;> simp [h, h2]

/-- no decision flag: the Impl decision is the rule table's -/
theorem decideOwned_noflag (c : Cfg) (hc : c.spec = false) (name : Text) (got : Pkg) (gs : Text) (want : Pkg)
    (ws : Text) (h : decisionFlags c name got gs want ws = []) :
    decideSpec got gs want ws = decideOwned c got gs want ws := by
  have := (decisionFlags_nil c name got gs want ws).1 h
  rw [cfg_eta c hc] at this
  exact this.symm

/-! ### flags only grow, on success and on error -/

theorem lazyFile_mono (c : Cfg) (pkgs : List Pkg) (i : Nat) (e : Entry) (st : St) :
    ∃ x, resFlags (lazyFile c pkgs i e st) = st.flags ++ x := by
  unfold lazyFile
  dsimp only
  repeat' split
  all_goals first
    | exact ⟨[], (List.append_nil _).symm⟩
    | exact ⟨_, rfl⟩
    | exact ⟨_, List.append_assoc _ _ _⟩

theorem streamReg_mono (c : Cfg) (pkgs : List Pkg) (i : Nat) (e : Entry) (st : St) :
    ∃ x, resFlags (streamReg c pkgs i e st) = st.flags ++ x := by
  unfold streamReg
  dsimp only
  repeat' split
  all_goals first
    | exact ⟨[], (List.append_nil _).symm⟩
    | exact ⟨_, rfl⟩
    | exact ⟨_, List.append_assoc _ _ _⟩

theorem streamLink_mono (c : Cfg) (i : Nat) (e : Entry) (st : St) :
    ∃ x, resFlags (streamLink c i e st) = st.flags ++ x := by
  unfold streamLink
  dsimp only
  repeat' split
  all_goals first
    | exact ⟨[], (List.append_nil _).symm⟩
    | exact ⟨_, rfl⟩
    | exact ⟨_, List.append_assoc _ _ _⟩

theorem resFlags_addFlags (fl : List Flag) (r : Except (Outcome × List Flag) (St × Bool)) :
    resFlags (addFlags fl r) = resFlags r ++ fl := by
  cases r with
  | error x => obtain ⟨o, f⟩ := x; rfl
  | ok v => obtain ⟨st, b⟩ := v; rfl

/-! ### one header -/

theorem decideOwned_specB (c : Cfg) (got : Pkg) (gs : Text) (want : Pkg) (ws : Text) :
    decideOwned { backend := c.backend, spec := true } got gs want ws = decideSpec got gs want ws := by
  simp [decideOwned]

theorem lazyFile_refines (c : Cfg) (hc : c.spec = false) (pkgs : List Pkg) (i : Nat) (e : Entry) (st : St)
    (h : resFlags (lazyFile c pkgs i e st) = st.flags) :
    lazyFile (specOf c) pkgs i e st = lazyFile c pkgs i e st := by
  unfold lazyFile at h ⊢
  dsimp only at h ⊢
  cases hp : parentOf st.tree (parts e.name) with
  | none => rfl
  | some d =>
    simp only [hp] at h ⊢
    cases hl : lookupT st.tree (d ++ [(parts e.name).getLastD []]) with
    | none => simp
    | some n =>
      simp only [hl] at h ⊢
      cases n with
      | dir p => rfl
      | link tgt s perm owner =>
        by_cases hsame : e.kind = .link ∧ tgt = e.target
        · simp [hsame]
        · simp only [hsame, if_false] at h ⊢
          cases owner with
          | none => rfl
          | some j =>
            simp only [decideOwned_specB, hc, specOf] at h ⊢
            cases hdec : decideOwned c (pkgs.getD j default) s (pkgs.getD i default) e.sum
            all_goals simp only [hdec, resFlags] at h
            all_goals (
              simp only [List.append_assoc, List.append_right_eq_self, List.append_eq_nil_iff, Bool.false_eq_true,
                if_false] at h
              have hfl := decideOwned_noflag c hc _ _ _ _ _ (by first | exact h.1 | exact h)
              simp only [hfl, hdec]
              simp_all)
            all_goals (obtain ⟨h1, _, h3⟩ := h; subst h3; exact h1)
      | file s perm owner empty =>
        cases owner with
        | none =>
          by_cases hem : empty = true
          · simp [hem]
          · by_cases hs : s = e.sum
            · simp only [hem, hs, hc, resFlags] at h
              simp at h
            · simp [hem, hs]
        | some j =>
            simp only [decideOwned_specB, hc, specOf] at h ⊢
            cases hdec : decideOwned c (pkgs.getD j default) s (pkgs.getD i default) e.sum
            all_goals simp only [hdec, resFlags] at h
            all_goals (
              simp only [List.append_assoc, List.append_right_eq_self, List.append_eq_nil_iff, Bool.false_eq_true,
                if_false] at h
              have hfl := decideOwned_noflag c hc _ _ _ _ _ (by first | exact h.1 | exact h)
              simp only [hfl, hdec]
              simp_all)


theorem streamReg_refines (c : Cfg) (hc : c.spec = false) (pkgs : List Pkg) (i : Nat) (e : Entry) (st : St)
    (h : resFlags (streamReg c pkgs i e st) = st.flags) :
    streamReg (specOf c) pkgs i e st = streamReg c pkgs i e st := by
  unfold streamReg at h ⊢
  dsimp only at h ⊢
  cases hr : resolve st.tree (parts e.name) with
  | found p =>
    simp only [hr] at h ⊢
    cases hl : lookupT st.tree p with
    | none => rfl
    | some n =>
      cases n with
      | dir _ => rfl
      | link _ _ _ _ => rfl
      | file s perm ow em =>
        simp only [hl] at h ⊢
        cases hown : st.inst.lookup e.name with
        | some j =>
          simp only [hown, decideOwned_specB, hc, specOf] at h ⊢
          cases hdec : decideOwned c (pkgs.getD j default) s (pkgs.getD i default) e.sum
          all_goals simp only [hdec] at h
          all_goals (
            cases hpar : parentOf st.tree (parts e.name)
            all_goals (
              simp only [hpar, resFlags, List.append_right_eq_self, Bool.false_eq_true, if_false] at h
              have hfl := decideOwned_noflag c hc _ _ _ _ _ h
              simp only [hfl, hdec]
              simp_all))
        | none =>
          simp only [hown, hc, specOf] at h ⊢
          cases hdec : decideUnowned c s (pkgs.getD i default) e.sum
          all_goals simp only [hdec] at h
          all_goals (
            cases hpar : parentOf st.tree (parts e.name)
            all_goals (
              simp only [hpar, resFlags, List.append_right_eq_self, Bool.false_eq_true, if_false] at h
              split at h
              · rename_i heq
                simp only [← heq]
                simp_all
              · simp at h))
  | missing p =>
    simp only [hr] at h ⊢
    cases hpar : parentOf st.tree (parts e.name) with
    | none => rfl
    | some d =>
      simp only [hpar] at h ⊢
      by_cases hown : p = d ++ [(parts e.name).getLastD []]
      · simp [hown]
      · simp only [hown, if_false, specOf, hc] at h ⊢
        by_cases hb : c.backend = .dirfs
        · simp [hb]
        · simp [hb, resFlags] at h
  | fail => rfl

theorem streamLink_refines (c : Cfg) (i : Nat) (e : Entry) (st : St) :
    streamLink (specOf c) i e st = streamLink c i e st := rfl

theorem addFlags_nil (r : Except (Outcome × List Flag) (St × Bool)) : addFlags [] r = r := by
  cases r with
  | error x => obtain ⟨o, f⟩ := x; simp [addFlags]
  | ok v => obtain ⟨st, b⟩ := v; simp [addFlags]

theorem addFlags_mono {st : St} (fl : List Flag) {r : Except (Outcome × List Flag) (St × Bool)}
    (hm : ∃ x, resFlags r = st.flags ++ x) : ∃ x, resFlags (addFlags fl r) = st.flags ++ x := by
  obtain ⟨x, hx⟩ := hm
  exact ⟨x ++ fl, by rw [resFlags_addFlags, hx, List.append_assoc]⟩

theorem stepEntry_mono (c : Cfg) (pkgs : List Pkg) (i : Nat) (e : Entry) (st : St) :
    ∃ x, resFlags (stepEntry c pkgs i e st) = st.flags ++ x := by
  unfold stepEntry
  cases e.kind with
  | dir =>
    dsimp only
    split
    · exact ⟨[], (List.append_nil _).symm⟩
    · exact ⟨[], (List.append_nil _).symm⟩
  | reg =>
    dsimp only
    by_cases hb : c.backend = .lazy
    · simp only [hb, if_true]; exact addFlags_mono _ (lazyFile_mono c pkgs i e st)
    · simp only [hb, if_false]; exact addFlags_mono _ (streamReg_mono c pkgs i e st)
  | link =>
    dsimp only
    by_cases hb : c.backend = .lazy
    · simp only [hb, if_true]; exact addFlags_mono _ (lazyFile_mono c pkgs i e st)
    · simp only [hb, if_false]; exact addFlags_mono _ (streamLink_mono c i e st)

theorem addFlags_refines {st : St} {fl : List Flag} {r rs : Except (Outcome × List Flag) (St × Bool)}
    (hm : ∃ x, resFlags r = st.flags ++ x) (h : resFlags (addFlags fl r) = st.flags)
    (hr : resFlags r = st.flags → rs = r) : addFlags [] rs = addFlags fl r := by
  obtain ⟨x, hx⟩ := hm
  rw [resFlags_addFlags, hx, List.append_assoc, List.append_right_eq_self, List.append_eq_nil_iff] at h
  rw [h.2, hr (by rw [hx, h.1, List.append_nil])]

/-- one header: an Impl step that raises no flag is the Spec step -/
theorem stepEntry_refines (c : Cfg) (hc : c.spec = false) (pkgs : List Pkg) (i : Nat) (e : Entry) (st : St)
    (h : resFlags (stepEntry c pkgs i e st) = st.flags) :
    stepEntry (specOf c) pkgs i e st = stepEntry c pkgs i e st := by
  unfold stepEntry at h ⊢
  cases hk : e.kind with
  | dir => rfl
  | reg =>
    simp only [hk, hc, specOf, if_true, Bool.false_eq_true, if_false] at h ⊢
    by_cases hb : c.backend = .lazy
    · simp only [hb, if_true] at h ⊢
      exact addFlags_refines (lazyFile_mono c pkgs i e st) h (lazyFile_refines c hc pkgs i e st)
    · simp only [hb, if_false] at h ⊢
      exact addFlags_refines (streamReg_mono c pkgs i e st) h (streamReg_refines c hc pkgs i e st)
  | link =>
    simp only [hk, hc, specOf, if_true, Bool.false_eq_true, if_false] at h ⊢
    by_cases hb : c.backend = .lazy
    · simp only [hb, if_true] at h ⊢
      exact addFlags_refines (lazyFile_mono c pkgs i e st) h (lazyFile_refines c hc pkgs i e st)
    · simp only [hb, if_false] at h ⊢
      exact addFlags_refines (streamLink_mono c i e st) h (fun _ => rfl)

/-! ### the folds -/

theorem installPkg_mono (c : Cfg) (pkgs : List Pkg) (i : Nat) :
    ∀ (es : List Entry) (st : St) (files : List Entry),
      ∃ x, resFlags (installPkg c pkgs i es st files) = st.flags ++ x := by
  intro es
  induction es with
  | nil => intro st files; exact ⟨[], (List.append_nil _).symm⟩
  | cons e rest ih =>
    intro st files
    unfold installPkg
    obtain ⟨x1, hx1⟩ := stepEntry_mono c pkgs i e st
    cases hstep : stepEntry c pkgs i e st with
    | error o => rw [hstep] at hx1; exact ⟨x1, hx1⟩
    | ok v =>
      obtain ⟨st1, app⟩ := v
      rw [hstep] at hx1
      obtain ⟨x2, hx2⟩ := ih st1 (if app then files ++ [e] else files)
      exact ⟨x1 ++ x2, by
        show resFlags (installPkg c pkgs i rest st1 _) = _
        rw [hx2, show st1.flags = st.flags ++ x1 from hx1, List.append_assoc]⟩

theorem installPkg_refines (c : Cfg) (hc : c.spec = false) (pkgs : List Pkg) (i : Nat) :
    ∀ (es : List Entry) (st : St) (files : List Entry),
      resFlags (installPkg c pkgs i es st files) = st.flags →
      installPkg (specOf c) pkgs i es st files = installPkg c pkgs i es st files := by
  intro es
  induction es with
  | nil => intro st files _; rfl
  | cons e rest ih =>
    intro st files h
    unfold installPkg at h ⊢
    obtain ⟨x1, hx1⟩ := stepEntry_mono c pkgs i e st
    cases hstep : stepEntry c pkgs i e st with
    | error o =>
      rw [hstep] at h
      have := stepEntry_refines c hc pkgs i e st (by rw [hstep]; exact h)
      rw [this, hstep]
    | ok v =>
      obtain ⟨st1, app⟩ := v
      rw [hstep] at h hx1
      have h1 : st1.flags = st.flags ++ x1 := hx1
      obtain ⟨x2, hx2⟩ := installPkg_mono c pkgs i rest st1 (if app then files ++ [e] else files)
      have h' : resFlags (installPkg c pkgs i rest st1 (if app then files ++ [e] else files)) = st.flags := h
      rw [hx2, h1, List.append_assoc, List.append_right_eq_self, List.append_eq_nil_iff] at h'
      have hs := stepEntry_refines c hc pkgs i e st (by rw [hstep]; show st1.flags = _; rw [h1, h'.1, List.append_nil])
      rw [hs, hstep]
      exact ih st1 _ (by rw [hx2, h'.2, List.append_nil])

theorem installFrom_mono (c : Cfg) (pkgs : List Pkg) :
    ∀ (ps : List Pkg) (i : Nat) (st : St) (all : List (List Entry)),
      ∃ x, resFlags (installFrom c pkgs i ps st all) = st.flags ++ x := by
  intro ps
  induction ps with
  | nil => intro i st all; exact ⟨[], (List.append_nil _).symm⟩
  | cons p rest ih =>
    intro i st all
    unfold installFrom
    obtain ⟨x1, hx1⟩ := installPkg_mono c pkgs i p.entries st []
    cases hstep : installPkg c pkgs i p.entries st [] with
    | error o => rw [hstep] at hx1; exact ⟨x1, hx1⟩
    | ok v =>
      obtain ⟨st1, files⟩ := v
      rw [hstep] at hx1
      obtain ⟨x2, hx2⟩ := ih (i + 1) st1 (all ++ [files])
      exact ⟨x1 ++ x2, by
        show resFlags (installFrom c pkgs (i + 1) rest st1 _) = _
        rw [hx2, show st1.flags = st.flags ++ x1 from hx1, List.append_assoc]⟩

theorem installFrom_refines (c : Cfg) (hc : c.spec = false) (pkgs : List Pkg) :
    ∀ (ps : List Pkg) (i : Nat) (st : St) (all : List (List Entry)),
      resFlags (installFrom c pkgs i ps st all) = st.flags →
      installFrom (specOf c) pkgs i ps st all = installFrom c pkgs i ps st all := by
  intro ps
  induction ps with
  | nil => intro i st all _; rfl
  | cons p rest ih =>
    intro i st all h
    unfold installFrom at h ⊢
    obtain ⟨x1, hx1⟩ := installPkg_mono c pkgs i p.entries st []
    cases hstep : installPkg c pkgs i p.entries st [] with
    | error o =>
      rw [hstep] at h
      have := installPkg_refines c hc pkgs i p.entries st [] (by rw [hstep]; exact h)
      rw [this, hstep]
    | ok v =>
      obtain ⟨st1, files⟩ := v
      rw [hstep] at h hx1
      have h1 : st1.flags = st.flags ++ x1 := hx1
      obtain ⟨x2, hx2⟩ := installFrom_mono c pkgs rest (i + 1) st1 (all ++ [files])
      have h' : resFlags (installFrom c pkgs (i + 1) rest st1 (all ++ [files])) = st.flags := h
      rw [hx2, h1, List.append_assoc, List.append_right_eq_self, List.append_eq_nil_iff] at h'
      have hs := installPkg_refines c hc pkgs i p.entries st [] (by rw [hstep]; show st1.flags = _; rw [h1, h'.1, List.append_nil])
      rw [hs, hstep]
      exact ih (i + 1) st1 _ (by rw [hx2, h'.2, List.append_nil])

end Apko.C07
