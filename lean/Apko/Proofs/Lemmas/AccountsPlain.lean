import Apko.Model.AccountsSched
import Apko.Proofs.Lemmas.AccountsFrame
/-! C13: what the calls of one goroutine of `mutateAccounts` do to a file that exists as a plain entry
(`PlainFile`: the parent resolves to a directory that holds the base name, and the entry is neither a
directory nor a symbolic link): opening never changes the graph, `Create` and `Write` are content
updates of that one node (`FS.modify a F` with a `DataOnly` transformer), what is read is a function of
that node's content. -/
namespace Apko.Accounts
open Apko Apko.Path Apko.FS Apko.Formats

/-- the last component of `p` is an existing entry `a` of the directory `pi`: a non-directory that is not
a symbolic link -/
structure PlainFile (c : Cfg) (fs : FS) (p : Text) (pi a : Nat) : Prop where
  par : getNode c fs (dir p) = .ok pi
  pdir : (fs.node pi).dir = true
  look : fs.lookup pi (base p) = some a
  ndir : (fs.node a).dir = false
  nsym : (fs.node a).isSymlink = false

theorem PlainFile.live {c : Cfg} {fs : FS} {p : Text} {pi a : Nat} (h : PlainFile c fs p pi a) (hi : FS.Inv fs) :
    a < fs.nodes.length := lookup_live hi h.look

theorem PlainFile.ext {c : Cfg} (hc : c.posix = false) {fs fs' : FS} {p : Text} {pi a : Nat}
    (h : PlainFile c fs p pi a) (he : Ext fs fs') : PlainFile c fs' p pi a := by
  have hs := he.sym pi (base p) a h.pdir h.look
  exact ⟨getNode_ext hc he h.par, he.dir pi h.pdir, he.look pi _ a h.pdir h.look, by rw [hs.2.2]; exact h.ndir,
    by rw [hs.1]; exact h.nsym⟩

theorem PlainFile.shape {c : Cfg} {fs fs' : FS} {p : Text} {pi a : Nat}
    (h : PlainFile c fs p pi a) (hs : ShapeEq fs fs') : PlainFile c fs' p pi a :=
  ⟨by rw [getNode_shape hs]; exact h.par, by rw [hs.dir]; exact h.pdir,
   by simp only [FS.lookup, hs.children pi]; exact h.look, by rw [hs.dir]; exact h.ndir, by rw [hs.sym]; exact h.nsym⟩

/-- the content fields of a node: what a reader of the file gets is a function of these -/
def ContentEq (n n' : Inode) : Prop := n.data = n'.data ∧ n.mat = n'.mat ∧ n.te = n'.te

theorem ContentEq.same (n : Inode) : ContentEq n n := ⟨rfl, rfl, rfl⟩

/-- `O_TRUNC` (after the package content was buffered, when there was any) -/
def truncF (n : Inode) : Inode := { n with data := [], mat := true }

/-- one `Write` of `t` at offset 0 -/
def writeF (t : Text) (n : Inode) : Inode := { n with data := writeAt n.data 0 t }

theorem dataOnly_id : DataOnly id := ⟨fun d _ _ => d, fun _ m _ => m, fun _ => rfl⟩
theorem dataOnly_trunc : DataOnly truncF := ⟨fun _ _ _ => [], fun _ _ _ => true, fun _ => rfl⟩
theorem dataOnly_write (t : Text) : DataOnly (writeF t) := ⟨fun d _ _ => writeAt d 0 t, fun _ m _ => m, fun _ => rfl⟩

theorem modify_id (fs : FS) (a : Nat) : fs.modify a id = fs := by
  apply FS.ext_nodes
  · simp
  · intro j; rw [node_modify]; split
    · rename_i h; rw [h.1]; rfl
    · rfl
  · rfl

theorem writeH_eq (fs : FS) (h : Handle) (t : Text) : writeH fs h t = fs.modify h.ino (writeF t) := rfl

/-- whether reads of a handle opened now are served by the package file -/
def rcOf (c : Cfg) (n : Inode) : Bool := (if c.backend = .tarfs then teLive c n else none).isSome

theorem rcOf_congr (c : Cfg) (n n' : Inode) (h : ContentEq n n') : rcOf c n = rcOf c n' := by
  unfold rcOf teLive
  rw [h.1, h.2.1, h.2.2]

/-- what a handle (`rc`: served by the package file) reads from a node -/
def rdOf (n : Inode) (rc : Bool) : Text :=
  if rc then (match n.te with | some te => te.content | none => []) else n.data

theorem handleData_eq (fs : FS) (h : Handle) : handleData fs h = rdOf (fs.node h.ino) h.rc := rfl

theorem rdOf_congr (n n' : Inode) (rc : Bool) (h : ContentEq n n') : rdOf n rc = rdOf n' rc := by
  unfold rdOf; rw [h.1, h.2.2]

/-- the handle an open of a plain file returns -/
def plainHandle (p : Text) (a : Nat) (rc : Bool) (flag : Nat) : Handle :=
  { ino := a, name := p, start := [0], offset := 0, flag := flag, rc := rc }

/-- **open for reading (or creating) a file that is there**: nothing changes -/
theorem openRC_plain (c : Cfg) (hc : c.posix = false) (fs : FS) (p : Text) (pi a : Nat) (h : PlainFile c fs p pi a) :
    openCore c fs p flagsReadOrCreate readOrCreatePerm =
      (fs, .ok (plainHandle p a (rcOf c (fs.node a)) flagsReadOrCreate)) := by
  have hex : ∀ a', fs.lookup pi (base p) = some a' → (fs.node a').dir = false ∧ (fs.node a').isSymlink = false := by
    intro a' h'; rw [h.look] at h'; cases h'; exact ⟨h.ndir, h.nsym⟩
  unfold openCore
  rw [openFileD_nolink c hc _ _ maxLinks fs [0] p pi (Or.inl (by decide)) h.par h.pdir hex (by decide)
    (by simp [h.look])]
  simp only [openTarget, h.look, rcOf]
  have h1 : oAppend flagsReadOrCreate = false := by decide
  have h2 : oTrunc flagsReadOrCreate = false := by decide
  have h3 : oRdwr flagsReadOrCreate = false := by decide
  have h4 : oWronly flagsReadOrCreate = false := by decide
  cases hte : (if c.backend = Backend.tarfs then teLive c (fs.node a) else none) with
  | none => simp only [newMemFile, h1, h2, Bool.false_eq_true, if_false, Option.isSome_none, plainHandle]
  | some te =>
    simp only [h1, h2, h3, h4, Bool.or_self, Bool.not_false, if_true, newMemFile, Bool.false_eq_true, if_false,
      Option.isSome_some, plainHandle]

/-- **`Create` of a file that is there**: the node's content is emptied, nothing else changes -/
theorem openW_plain (c : Cfg) (hc : c.posix = false) (fs : FS) (hi : FS.Inv fs) (p : Text) (pi a : Nat)
    (h : PlainFile c fs p pi a) :
    openCore c fs p flagsWriteFile createPerm = (fs.modify a truncF, .ok (plainHandle p a false flagsWriteFile)) := by
  have hex : ∀ a', fs.lookup pi (base p) = some a' → (fs.node a').dir = false ∧ (fs.node a').isSymlink = false := by
    intro a' h'; rw [h.look] at h'; cases h'; exact ⟨h.ndir, h.nsym⟩
  have hl := h.live hi
  unfold openCore
  rw [openFileD_nolink c hc _ _ maxLinks fs [0] p pi (Or.inl (by decide)) h.par h.pdir hex (by decide)
    (by simp [h.look])]
  simp only [openTarget, h.look]
  have htr : oTrunc flagsWriteFile = true := by decide
  have hap : oAppend flagsWriteFile = false := by decide
  have key : ∀ n0 : Inode, n0.dir = (fs.node a).dir → n0.mode = (fs.node a).mode → n0.uid = (fs.node a).uid →
      n0.gid = (fs.node a).gid → n0.mtime = (fs.node a).mtime → n0.target = (fs.node a).target →
      n0.major = (fs.node a).major → n0.minor = (fs.node a).minor → n0.children = (fs.node a).children →
      n0.xattrs = (fs.node a).xattrs → n0.nlink = (fs.node a).nlink → n0.te = (fs.node a).te →
      n0.hardlinks = (fs.node a).hardlinks →
      (fs.setNode a n0).setNode a { (fs.setNode a n0).node a with data := [], mat := true } = fs.modify a truncF := by
    intro n0 e1 e2 e3 e4 e5 e6 e7 e8 e9 e10 e11 e12 e13
    apply FS.ext_nodes
    · simp [FS.setNode]
    · intro j
      rw [node_setNode, node_modify]
      have hl' : a < (fs.setNode a n0).nodes.length := by simp [FS.setNode]; exact hl
      by_cases hj : j = a
      · rw [if_pos ⟨hj, hl'⟩, if_pos ⟨hj, hl⟩, node_setNode_same fs a n0 hl]
        simp only [truncF, e1, e2, e3, e4, e5, e6, e7, e8, e9, e10, e11, e12, e13]
      · rw [if_neg (fun h => hj h.1), if_neg (fun h => hj h.1), node_setNode_ne fs a j n0 hj]
    · rfl
  cases hte : (if c.backend = Backend.tarfs then teLive c (fs.node a) else none) with
  | none =>
    simp only [newMemFile, htr, hap, if_true, Bool.false_eq_true, if_false, plainHandle]
    rfl
  | some te =>
    have hw : oRdwr flagsWriteFile = true := by decide
    simp only [hw, hap, Bool.false_or, Bool.true_or, Bool.not_true, Bool.false_eq_true, if_false, newMemFile, htr,
      if_true, plainHandle]
    congr 1
    exact key { fs.node a with data := te.content, mat := true } rfl rfl rfl rfl rfl rfl rfl rfl rfl rfl rfl rfl rfl

end Apko.Accounts
