/-
C16 helper lemmas: passwd / group.  `strings.TrimSpace` on lines without padding, the field split
of a rendered line, the whole-file loaders on written text, and the converse on canonical text.
-/
import Apko.Proofs.Lemmas.Formats

namespace Apko.Formats
open Apko

/-! ## more split / join -/

theorem splitOnChar_ne_nil (sep : Char) (t : Text) : splitOnChar sep t ≠ [] := by
  induction t with
  | nil => simp [splitOnChar]
  | cons c cs ih =>
    simp only [splitOnChar]
    split
    · simp
    · split <;> simp

/-- `strings.Join(strings.Split(s, sep), sep) = s` -/
theorem joinWith_splitOnChar (sep : Char) (t : Text) : joinWith [sep] (splitOnChar sep t) = t := by
  induction t with
  | nil => simp [splitOnChar, joinWith]
  | cons c cs ih =>
    simp only [splitOnChar]
    split
    · next h =>
      subst h
      cases hs : splitOnChar c cs with
      | nil => exact absurd hs (splitOnChar_ne_nil c cs)
      | cons a rest => rw [hs] at ih; simp [joinWith, ih]
    · cases hs : splitOnChar sep cs with
      | nil => exact absurd hs (splitOnChar_ne_nil sep cs)
      | cons a rest =>
        rw [hs] at ih
        cases rest with
        | nil => simpa [joinWith] using ih
        | cons b r => simp only [joinWith, List.cons_append] at ih ⊢; rw [ih]

/-! ## `strings.TrimSpace` leaves unpadded text alone -/

theorem isPrefixOf_append_sep (c : Char) (r : Text) :
    ∀ (s a : Text), c ∉ s → s.isPrefixOf (a ++ c :: r) = true → s.isPrefixOf a = true := by
  intro s
  induction s with
  | nil => intro a _ _; simp
  | cons x s ih =>
    intro a hc h
    cases a with
    | nil =>
      simp only [List.nil_append, List.isPrefixOf_cons_cons, Bool.and_eq_true, beq_iff_eq] at h
      exact absurd h.1.symm (fun e => hc (by simp [e]))
    | cons y a =>
      simp only [List.cons_append, List.isPrefixOf_cons_cons, Bool.and_eq_true, beq_iff_eq] at h ⊢
      exact ⟨h.1, ih a (fun m => hc (by simp [m])) h.2⟩

/-- no encoded space contains the byte -/
def notInSpace (c : Char) : Bool := spaceSeqs.all fun s => !s.contains c

theorem notInSpace_spec (c : Char) (h : notInSpace c = true) : ∀ s ∈ spaceSeqs, c ∉ s := by
  intro s hs m
  have := List.all_eq_true.mp h s hs
  simp [m] at this

theorem leadSpace_none_iff (t : Text) : leadSpace t = none ↔ ∀ s ∈ spaceSeqs, s.isPrefixOf t = false := by
  unfold leadSpace
  simp only [Option.map_eq_none_iff, List.find?_eq_none, Bool.not_eq_true]

theorem trailSpace_none_iff (t : Text) :
    trailSpace t = none ↔ ∀ s ∈ spaceSeqs, s.reverse.isPrefixOf t.reverse = false := by
  unfold trailSpace
  simp only [Option.map_eq_none_iff, List.find?_eq_none, Bool.not_eq_true]

theorem leadSpace_append_sep (a r : Text) (c : Char) (hc : notInSpace c = true) (h : leadSpace a = none) :
    leadSpace (a ++ c :: r) = none := by
  rw [leadSpace_none_iff] at h ⊢
  intro s hs
  cases hp : s.isPrefixOf (a ++ c :: r) with
  | false => rfl
  | true =>
    have := isPrefixOf_append_sep c r s a (notInSpace_spec c hc s hs) hp
    rw [h s hs] at this; exact absurd this (by simp)

theorem trailSpace_sep_append (a r : Text) (c : Char) (hc : notInSpace c = true) (h : trailSpace a = none) :
    trailSpace (r ++ c :: a) = none := by
  rw [trailSpace_none_iff] at h ⊢
  intro s hs
  cases hp : s.reverse.isPrefixOf (r ++ c :: a).reverse with
  | false => rfl
  | true =>
    have e : (r ++ c :: a).reverse = a.reverse ++ c :: r.reverse := by simp
    rw [e] at hp
    have := isPrefixOf_append_sep c r.reverse s.reverse a.reverse
      (fun m => notInSpace_spec c hc s hs (by simpa using m)) hp
    rw [h s hs] at this; exact absurd this (by simp)

theorem trimLeft_id (fuel : Nat) (t : Text) (h : leadSpace t = none) : trimLeft fuel t = t := by
  cases fuel with
  | zero => rfl
  | succ n => simp [trimLeft, h]

theorem trimRightRev_id (fuel : Nat) (t : Text) (h : trailSpace t = none) :
    trimRightRev fuel t.reverse = t.reverse := by
  cases fuel with
  | zero => rfl
  | succ n =>
    unfold trailSpace at h
    simp [trimRightRev, h]

theorem trimSpace_id (t : Text) (h1 : leadSpace t = none) (h2 : trailSpace t = none) : trimSpace t = t := by
  unfold trimSpace
  simp only [trimLeft_id _ t h1, trimRightRev_id _ t h2, List.reverse_reverse]

theorem dropCR_of_trail (t : Text) (h : trailSpace t = none) : dropCR t = t := by
  unfold dropCR
  split
  · next r heq =>
    have := (trailSpace_none_iff t).mp h ['\r'] (by decide)
    rw [heq] at this
    simp at this
  · rfl

/-! ## `strings.TrimRight(line, "\r\n")` leaves a line alone that does not end in a terminator -/

/-- the last byte is not CR or LF -/
def noEOLEnd (t : Text) : Bool :=
  match t.reverse with
  | c :: _ => c != '\r' && c != '\n'
  | [] => true

theorem trimEOL_id (t : Text) (h : noEOLEnd t = true) : trimEOL t = t := by
  unfold trimEOL
  unfold noEOLEnd at h
  cases hr : t.reverse with
  | nil => have : t = [] := by simpa using hr
           subst this; rfl
  | cons c r =>
    rw [hr] at h
    simp only [Bool.and_eq_true, bne_iff_ne, ne_eq] at h
    have hp : (c == '\r' || c == '\n') = false := by simp [h.1, h.2]
    simp only [List.dropWhile_cons, hp]
    rw [← hr]; simp

theorem dropCR_of_noEOL (t : Text) (h : noEOLEnd t = true) : dropCR t = t := by
  unfold dropCR
  unfold noEOLEnd at h
  split
  · next r heq => rw [heq] at h; simp at h
  · rfl

theorem noEOLEnd_of_lineSafe (t : Text) (h : lineSafe t = true) : noEOLEnd t = true := by
  unfold noEOLEnd
  split
  · next c r heq =>
    have hc : c ∈ t := by
      have : c ∈ t.reverse := by rw [heq]; simp
      simpa using this
    unfold lineSafe at h
    have := List.all_eq_true.mp h c hc
    simp only [Bool.and_eq_true] at this
    simp [this.1, this.2]
  · rfl

/-! ## fields -/

/-- a passwd / group field: free of the field separator and of the line terminators -/
def fieldSafe (t : Text) : Bool := t.all fun c => c != ':' && c != '\n' && c != '\r'

theorem fieldSafe_spec (t : Text) (h : fieldSafe t = true) : ':' ∉ t ∧ lineSafe t = true := by
  unfold fieldSafe at h
  rw [List.all_eq_true] at h
  constructor
  · intro m; have := h _ m; simp at this
  · unfold lineSafe; rw [List.all_eq_true]; intro c hc
    have := h c hc
    simp only [Bool.and_eq_true] at this
    simp [this.1.2, this.2]

theorem natToDec_no (sep : Char) (hsep : isDigitB 10 sep = false) (n : Nat) : sep ∉ natToDec n := by
  intro m
  have := natToDec_digits n sep m
  rw [hsep] at this; exact absurd this (by simp)

theorem natToDec_lineSafe (n : Nat) : lineSafe (natToDec n) = true := by
  rw [lineSafe_iff]
  exact ⟨natToDec_no _ (by decide) n, natToDec_no _ (by decide) n⟩

theorem lineSafe_append (a b : Text) : lineSafe (a ++ b) = (lineSafe a && lineSafe b) := by
  simp [lineSafe, List.all_append]

theorem lineSafe_cons (c : Char) (b : Text) : lineSafe (c :: b) = ((c != '\n' && c != '\r') && lineSafe b) := by
  simp [lineSafe]

theorem parseInt_natToDec (n : Nat) (h : n < 2 ^ 63) : parseIntB 10 (natToDec n) = some (Int.ofNat n) := by
  have := parseIntB_intToDec (n : Int) (by omega) (by omega)
  have hn : ¬ ((n : Int) < 0) := by omega
  simpa [intToDec, hn] using this

theorem toU32_ofNat (n : Nat) (h : n < 2 ^ 32) : toU32 (Int.ofNat n) = n := by
  unfold toU32
  have : (n : Int).emod 4294967296 = (n : Int) := Int.emod_eq_of_lt (by omega) (by omega)
  simp only [Int.ofNat_eq_natCast, this, Int.toNat_natCast]

/-! ## passwd -/

/-- a passwd line without its terminator -/
def userLine (u : User) : Text :=
  u.name ++ ':' :: (u.password ++ ':' :: (natToDec u.uid ++ ':' :: (natToDec u.gid ++ ':' ::
    (u.info ++ ':' :: (u.home ++ ':' :: u.shell)))))

theorem renderUser_eq (u : User) : renderUser u = userLine u ++ ['\n'] := by
  simp [renderUser, userLine]

/-- well-formed passwd entry: fields free of `:` / LF / CR, ids fit `uint32`, the line fits the scanner
buffer (white space anywhere in a field is allowed since the repair of F16f) -/
def WFUser (u : User) : Bool :=
  fieldSafe u.name && fieldSafe u.password && fieldSafe u.info && fieldSafe u.home && fieldSafe u.shell &&
  decide (u.uid < 2 ^ 32) && decide (u.gid < 2 ^ 32) &&
  decide ((userLine u).length < defaultTokenMax)

/-- the padding clause the pinned reader needed (F16f): no white space at the start of the first or the
end of the last field -/
def unpaddedUser (u : User) : Bool := (leadSpace u.name).isNone && (trailSpace u.shell).isNone

structure WFUserP (u : User) : Prop where
  name : fieldSafe u.name = true
  password : fieldSafe u.password = true
  info : fieldSafe u.info = true
  home : fieldSafe u.home = true
  shell : fieldSafe u.shell = true
  uid : u.uid < 2 ^ 32
  gid : u.gid < 2 ^ 32
  fit : (userLine u).length < defaultTokenMax

theorem WFUser_spec (u : User) (h : WFUser u = true) : WFUserP u := by
  unfold WFUser at h
  simp only [Bool.and_eq_true, decide_eq_true_eq] at h
  obtain ⟨⟨⟨⟨⟨⟨⟨a, b⟩, c⟩, d⟩, e⟩, f⟩, g⟩, k⟩ := h
  exact ⟨a, b, c, d, e, f, g, k⟩

theorem userLine_lead (u : User) (h : leadSpace u.name = none) : leadSpace (userLine u) = none :=
  leadSpace_append_sep _ _ ':' (by decide) h

theorem userLine_trail (u : User) (h : trailSpace u.shell = none) : trailSpace (userLine u) = none := by
  have e : userLine u = (u.name ++ ':' :: (u.password ++ ':' :: (natToDec u.uid ++ ':' :: (natToDec u.gid ++ ':' ::
      (u.info ++ ':' :: u.home))))) ++ ':' :: u.shell := by simp [userLine]
  rw [e]
  exact trailSpace_sep_append _ _ ':' (by decide) h

theorem userLine_split (u : User) (w : WFUserP u) :
    splitOnChar ':' (userLine u) =
      [u.name, u.password, natToDec u.uid, natToDec u.gid, u.info, u.home, u.shell] := by
  unfold userLine
  rw [splitOnChar_append_sep _ _ _ (fieldSafe_spec _ w.name).1,
    splitOnChar_append_sep _ _ _ (fieldSafe_spec _ w.password).1,
    splitOnChar_append_sep _ _ _ (natToDec_no _ (by decide) _),
    splitOnChar_append_sep _ _ _ (natToDec_no _ (by decide) _),
    splitOnChar_append_sep _ _ _ (fieldSafe_spec _ w.info).1,
    splitOnChar_append_sep _ _ _ (fieldSafe_spec _ w.home).1,
    splitOnChar_no_sep _ _ (fieldSafe_spec _ w.shell).1]

theorem userLine_lineSafe (u : User) (w : WFUserP u) : lineSafe (userLine u) = true := by
  unfold userLine
  simp [lineSafe_append, lineSafe_cons, (fieldSafe_spec _ w.name).2, (fieldSafe_spec _ w.password).2,
    (fieldSafe_spec _ w.info).2, (fieldSafe_spec _ w.home).2, (fieldSafe_spec _ w.shell).2, natToDec_lineSafe]

theorem parseUserWith_userLine (trim : Text → Text) (u : User) (w : WFUserP u)
    (ht : trim (userLine u) = userLine u) : parseUserWith trim (userLine u) = some u := by
  unfold parseUserWith
  rw [ht, userLine_split u w]
  have h1 := w.uid
  have h2 := w.gid
  simp only [parseInt_natToDec u.uid (by omega), parseInt_natToDec u.gid (by omega),
    toU32_ofNat _ h1, toU32_ofNat _ h2]

theorem parseUser_userLine (u : User) (w : WFUserP u) : parseUser (userLine u) = some u :=
  parseUserWith_userLine trimEOL u w (trimEOL_id _ (noEOLEnd_of_lineSafe _ (userLine_lineSafe u w)))

/-- the pinned reader gave an entry back when it was not padded -/
theorem pinnedParseUser_userLine (u : User) (w : WFUserP u) (hp : unpaddedUser u = true) :
    pinnedParseUser (userLine u) = some u := by
  unfold unpaddedUser at hp
  simp only [Bool.and_eq_true, Option.isNone_iff_eq_none] at hp
  exact parseUserWith_userLine trimSpace u w (trimSpace_id _ (userLine_lead u hp.1) (userLine_trail u hp.2))

/-! ## the loaders on written text (generic in the entry type) -/

theorem flatMap_render_eq_unlines {α : Type} (render : α → Text) (line : α → Text)
    (h : ∀ a, render a = line a ++ ['\n']) (l : List α) : l.flatMap render = unlines (l.map line) := by
  induction l with
  | nil => rfl
  | cons a l ih => simp only [List.flatMap_cons, List.map_cons, unlines, h a] at ih ⊢; rw [ih]

theorem mapAllOpt_map {α : Type} (parse : Text → Option α) (line : α → Text) (l : List α)
    (h : ∀ a ∈ l, parse (line a) = some a) : mapAllOpt parse (l.map line) = some l := by
  induction l with
  | nil => rfl
  | cons a l ih =>
    simp only [List.map_cons, mapAllOpt, h a (by simp), ih (fun x hx => h x (by simp [hx]))]

theorem loadWith_write {α : Type} (parse : Text → Option α) (render line : α → Text)
    (hr : ∀ a, render a = line a ++ ['\n']) (l : List α)
    (hp : ∀ a ∈ l, parse (line a) = some a) (hs : ∀ a ∈ l, lineSafe (line a) = true)
    (hf : ∀ a ∈ l, (line a).length < defaultTokenMax) :
    loadWith parse (l.flatMap render) = some l := by
  unfold loadWith
  rw [flatMap_render_eq_unlines render line hr l, scanLines_unlines defaultTokenMax (l.map line)
    (by intro x hx; obtain ⟨a, ha, rfl⟩ := List.mem_map.mp hx; exact hs a ha)
    (by unfold linesFit; rw [List.all_eq_true]; intro x hx
        obtain ⟨a, ha, rfl⟩ := List.mem_map.mp hx; simpa using hf a ha)]
  simp [mapAllOpt_map parse line l hp]

/-! ## group -/

def groupLine (g : Group) : Text :=
  g.name ++ ':' :: (g.password ++ ':' :: (natToDec g.gid ++ ':' :: joinWith [','] g.members))

theorem renderGroup_eq (g : Group) : renderGroup g = groupLine g ++ ['\n'] := by
  simp [renderGroup, groupLine]

/-- a member name: free of the member separator, the field separator and the line terminators -/
def memberSafe (t : Text) : Bool := t.all fun c => c != ',' && c != ':' && c != '\n' && c != '\r'

/-- well-formed group entry.  The member list may be empty (F16e repaired); the only list excluded is
`[""]` (one member with an empty name), which the format cannot tell from the empty list: both are
written as an empty member field (`group_empty_member_ambiguous`). -/
def WFGroup (g : Group) : Bool :=
  fieldSafe g.name && fieldSafe g.password && decide (g.gid < 2 ^ 32) &&
  decide (g.members ≠ [[]]) && g.members.all memberSafe &&
  decide ((groupLine g).length < defaultTokenMax)

/-- the padding clause the pinned reader needed (F16f) -/
def unpaddedGroup (g : Group) : Bool :=
  (leadSpace g.name).isNone && (trailSpace (joinWith [','] g.members)).isNone

structure WFGroupP (g : Group) : Prop where
  name : fieldSafe g.name = true
  password : fieldSafe g.password = true
  gid : g.gid < 2 ^ 32
  ne : g.members ≠ [[]]
  mem : ∀ m ∈ g.members, memberSafe m = true
  fit : (groupLine g).length < defaultTokenMax

theorem WFGroup_spec (g : Group) (h : WFGroup g = true) : WFGroupP g := by
  unfold WFGroup at h
  simp only [Bool.and_eq_true, decide_eq_true_eq, List.all_eq_true] at h
  obtain ⟨⟨⟨⟨⟨a, b⟩, c⟩, d⟩, e⟩, i⟩ := h
  exact ⟨a, b, c, d, e, i⟩

theorem memberSafe_spec (t : Text) (h : memberSafe t = true) : ',' ∉ t ∧ fieldSafe t = true := by
  unfold memberSafe at h
  rw [List.all_eq_true] at h
  constructor
  · intro m; have := h _ m; simp at this
  · unfold fieldSafe; rw [List.all_eq_true]; intro c hc
    have := h c hc
    simp only [Bool.and_eq_true] at this
    simp [this.1.1.2, this.1.2, this.2]

theorem members_fieldSafe (l : List Text) (h : ∀ m ∈ l, memberSafe m = true) :
    fieldSafe (joinWith [','] l) = true := by
  unfold fieldSafe
  rw [List.all_eq_true]
  intro c hc
  have : ∀ (l : List Text), c ∈ joinWith [','] l → c = ',' ∨ ∃ a ∈ l, c ∈ a := by
    intro l
    induction l with
    | nil => intro h; simp [joinWith] at h
    | cons a rest ih =>
      intro h
      cases rest with
      | nil => simp only [joinWith] at h; exact Or.inr ⟨a, by simp, h⟩
      | cons b r =>
        simp only [joinWith, List.mem_append, List.mem_singleton] at h
        rcases h with (h | h) | h
        · exact Or.inr ⟨a, by simp, h⟩
        · exact Or.inl h
        · rcases ih h with h | ⟨x, hx, hcx⟩
          · exact Or.inl h
          · exact Or.inr ⟨x, by simp [hx], hcx⟩
  rcases this l hc with h1 | ⟨a, ha, hca⟩
  · subst h1; decide
  · have := (memberSafe_spec a (h a ha)).2
    unfold fieldSafe at this
    exact List.all_eq_true.mp this c hca

theorem groupLine_split (g : Group) (w : WFGroupP g) :
    splitOnChar ':' (groupLine g) = [g.name, g.password, natToDec g.gid, joinWith [','] g.members] := by
  unfold groupLine
  rw [splitOnChar_append_sep _ _ _ (fieldSafe_spec _ w.name).1,
    splitOnChar_append_sep _ _ _ (fieldSafe_spec _ w.password).1,
    splitOnChar_append_sep _ _ _ (natToDec_no _ (by decide) _),
    splitOnChar_no_sep _ _ (fieldSafe_spec _ (members_fieldSafe _ w.mem)).1]

/-- the member field read back: every list free of `,` except `[""]` -/
theorem splitMembers_joinWith (l : List Text) (hne : l ≠ [[]]) (h : ∀ a ∈ l, ',' ∉ a) :
    splitMembers (joinWith [','] l) = l := by
  unfold splitMembers
  by_cases hl : l = []
  · subst hl; simp [joinWith]
  · have hs := splitOnChar_joinWith ',' l hl h
    split
    · next he => rw [he] at hs; simp only [splitOnChar] at hs; exact absurd hs.symm hne
    · exact hs

/-- `strings.Join(members, ",")` of what the repaired reader made of the field is the field -/
theorem joinWith_splitMembers (mem : Text) : joinWith [','] (splitMembers mem) = mem := by
  unfold splitMembers
  split
  · next h => subst h; rfl
  · exact joinWith_splitOnChar ',' mem

theorem groupLine_lineSafe (g : Group) (w : WFGroupP g) : lineSafe (groupLine g) = true := by
  unfold groupLine
  simp [lineSafe_append, lineSafe_cons, (fieldSafe_spec _ w.name).2, (fieldSafe_spec _ w.password).2,
    (fieldSafe_spec _ (members_fieldSafe _ w.mem)).2, natToDec_lineSafe]

theorem parseGroupWith_groupLine (trim : Text → Text) (g : Group) (w : WFGroupP g)
    (ht : trim (groupLine g) = groupLine g) : parseGroupWith trim splitMembers (groupLine g) = some g := by
  unfold parseGroupWith
  rw [ht, groupLine_split g w]
  have h1 := w.gid
  simp only [parseInt_natToDec g.gid (by omega), toU32_ofNat _ h1,
    splitMembers_joinWith g.members w.ne (fun a ha => (memberSafe_spec a (w.mem a ha)).1)]

theorem parseGroup_groupLine (g : Group) (w : WFGroupP g) : parseGroup (groupLine g) = some g :=
  parseGroupWith_groupLine trimEOL g w (trimEOL_id _ (noEOLEnd_of_lineSafe _ (groupLine_lineSafe g w)))

/-- the reader with the pinned trimming gave an entry back when it was not padded -/
theorem pinnedTrimParseGroup_groupLine (g : Group) (w : WFGroupP g) (hp : unpaddedGroup g = true) :
    pinnedTrimParseGroup (groupLine g) = some g := by
  unfold unpaddedGroup at hp
  simp only [Bool.and_eq_true, Option.isNone_iff_eq_none] at hp
  have hl : leadSpace (groupLine g) = none := leadSpace_append_sep _ _ ':' (by decide) hp.1
  have ht : trailSpace (groupLine g) = none := by
    have e : groupLine g = (g.name ++ ':' :: (g.password ++ ':' :: natToDec g.gid)) ++ ':' :: joinWith [','] g.members := by
      simp [groupLine]
    rw [e]; exact trailSpace_sep_append _ _ ':' (by decide) hp.2
  exact parseGroupWith_groupLine trimSpace g w (trimSpace_id _ hl ht)

/-! ## the converse: canonical text is reproduced byte for byte -/

/-- every line of the text is terminated by LF -/
def terminated : Text → Bool
  | [] => true
  | [c] => c == '\n'
  | _ :: d :: r => terminated (d :: r)

theorem unlines_rawLinesAux : ∀ (t acc : Text), terminated t = true → (t = [] → acc = []) →
    unlines (rawLinesAux acc t) = acc.reverse ++ t := by
  intro t
  induction t with
  | nil => intro acc _ h; simp [h rfl, rawLinesAux, unlines]
  | cons c cs ih =>
    intro acc ht _
    simp only [rawLinesAux]
    split
    · next hc =>
      subst hc
      have ht' : terminated cs = true := by
        cases cs with
        | nil => rfl
        | cons d r => simpa [terminated] using ht
      have := ih [] ht' (fun _ => rfl)
      simp only [unlines, List.flatMap_cons, List.reverse_nil, List.nil_append] at this ⊢
      rw [this]; simp
    · next hc =>
      cases cs with
      | nil => simp [terminated, hc] at ht
      | cons d r =>
        have := ih (c :: acc) (by simpa [terminated] using ht) (by simp)
        rw [this]; simp

theorem unlines_rawLines (t : Text) (h : terminated t = true) : unlines (rawLines t) = t := by
  simpa [rawLines] using unlines_rawLinesAux t [] h (fun _ => rfl)

/-- a decimal number the way `%d` prints it, in `uint32` range -/
def canonNum (t : Text) : Bool :=
  match parseUintB 10 t with
  | some n => decide (n < 2 ^ 32) && t == natToDec n
  | none => false

theorem canonNum_spec (t : Text) (h : canonNum t = true) : ∃ n, n < 2 ^ 32 ∧ t = natToDec n := by
  unfold canonNum at h
  split at h
  · next n _ =>
    simp only [Bool.and_eq_true, decide_eq_true_eq, beq_iff_eq] at h
    exact ⟨n, h.1, h.2⟩
  · exact absurd h (by simp)

/-- line-level canonical form shared by passwd and group: does not end in CR (LF cannot occur in a
scanned line; white space is allowed everywhere since the repair of F16f), fits the scanner buffer -/
def canonLine (l : Text) : Bool := noEOLEnd l && decide (l.length < defaultTokenMax)

def canonUserLine (l : Text) : Bool :=
  canonLine l &&
  match splitOnChar ':' l with
  | [_, _, uid, gid, _, _, _] => canonNum uid && canonNum gid
  | _ => true

def canonGroupLine (l : Text) : Bool :=
  canonLine l &&
  match splitOnChar ':' l with
  | [_, _, gid, _] => canonNum gid
  | _ => true

/-- canonical file: every line is LF-terminated and canonical -/
def canonText (line : Text → Bool) (t : Text) : Bool := terminated t && (rawLines t).all line

theorem canonLine_spec (l : Text) (h : canonLine l = true) :
    noEOLEnd l = true ∧ l.length < defaultTokenMax := by
  unfold canonLine at h
  simpa [Bool.and_eq_true] using h

theorem join7 (a b c d e f g : Text) :
    joinWith [':'] [a, b, c, d, e, f, g] = a ++ ':' :: (b ++ ':' :: (c ++ ':' :: (d ++ ':' :: (e ++ ':' :: (f ++ ':' :: g))))) := by
  simp [joinWith]

theorem join4 (a b c d : Text) :
    joinWith [':'] [a, b, c, d] = a ++ ':' :: (b ++ ':' :: (c ++ ':' :: d)) := by
  simp [joinWith]

theorem renderUser_parseUser (l : Text) (u : User) (hc : canonUserLine l = true) (hp : parseUser l = some u) :
    renderUser u = l ++ ['\n'] := by
  unfold canonUserLine at hc
  simp only [Bool.and_eq_true] at hc
  obtain ⟨hcl, hnum⟩ := hc
  obtain ⟨h1, _⟩ := canonLine_spec l hcl
  unfold parseUser parseUserWith at hp
  rw [trimEOL_id l h1] at hp
  have hj := joinWith_splitOnChar ':' l
  split at hp
  · next n pw uid gid info home sh heq =>
    rw [heq] at hnum hj
    simp only [Bool.and_eq_true] at hnum
    obtain ⟨a, ha, rfl⟩ := canonNum_spec uid hnum.1
    obtain ⟨b, hb, rfl⟩ := canonNum_spec gid hnum.2
    rw [parseInt_natToDec a (by omega), parseInt_natToDec b (by omega)] at hp
    simp only [Option.some.injEq] at hp
    subst hp
    rw [renderUser_eq, userLine, toU32_ofNat a ha, toU32_ofNat b hb, ← join7, hj]
  · exact absurd hp (by simp)

theorem renderGroup_parseGroup (l : Text) (g : Group) (hc : canonGroupLine l = true) (hp : parseGroup l = some g) :
    renderGroup g = l ++ ['\n'] := by
  unfold canonGroupLine at hc
  simp only [Bool.and_eq_true] at hc
  obtain ⟨hcl, hnum⟩ := hc
  obtain ⟨h1, _⟩ := canonLine_spec l hcl
  unfold parseGroup parseGroupWith at hp
  rw [trimEOL_id l h1] at hp
  have hj := joinWith_splitOnChar ':' l
  split at hp
  · next n pw gid mem heq =>
    rw [heq] at hnum hj
    obtain ⟨a, ha, rfl⟩ := canonNum_spec gid hnum
    rw [parseInt_natToDec a (by omega)] at hp
    simp only [Option.some.injEq] at hp
    subst hp
    rw [renderGroup_eq, groupLine, toU32_ofNat a ha, joinWith_splitMembers mem, ← join4, hj]
  · exact absurd hp (by simp)

theorem mapAllOpt_render {α : Type} (parse : Text → Option α) (render : α → Text) :
    ∀ (ls : List Text) (es : List α), (∀ l ∈ ls, ∀ e, parse l = some e → render e = l ++ ['\n']) →
      mapAllOpt parse ls = some es → es.flatMap render = unlines ls := by
  intro ls
  induction ls with
  | nil => intro es _ h; simp only [mapAllOpt, Option.some.injEq] at h; subst h; rfl
  | cons l ls ih =>
    intro es hr h
    simp only [mapAllOpt] at h
    split at h
    · next b bs hb hbs =>
      simp only [Option.some.injEq] at h
      subst h
      have := ih bs (fun x hx => hr x (by simp [hx])) hbs
      simp only [List.flatMap_cons, unlines] at this ⊢
      rw [hr l (by simp) b hb, this]
    · exact absurd h (by simp)

theorem write_loadWith {α : Type} (parse : Text → Option α) (render : α → Text) (line : Text → Bool)
    (hline : ∀ l, line l = true → canonLine l = true)
    (hr : ∀ l e, line l = true → parse l = some e → render e = l ++ ['\n'])
    (t : Text) (es : List α) (hc : canonText line t = true) (hl : loadWith parse t = some es) :
    es.flatMap render = t := by
  unfold canonText at hc
  simp only [Bool.and_eq_true, List.all_eq_true] at hc
  obtain ⟨hterm, hlines⟩ := hc
  have hfit : ∀ l ∈ rawLines t, decide (l.length < defaultTokenMax) = true := by
    intro l hl; simpa using (canonLine_spec l (hline l (hlines l hl))).2
  have hcr : ∀ l ∈ rawLines t, dropCR l = l := by
    intro l hl; exact dropCR_of_noEOL l (canonLine_spec l (hline l (hlines l hl))).1
  unfold loadWith scanLines at hl
  simp only [takeWhile_all _ _ hfit, map_id_of dropCR _ hcr] at hl
  split at hl
  · next es' hes =>
    split at hl
    · exact absurd hl (by simp)
    · simp only [Option.some.injEq] at hl
      subst hl
      rw [mapAllOpt_render parse render (rawLines t) es' (fun l hl e he => hr l e (hlines l hl) he) hes,
        unlines_rawLines t hterm]
  · exact absurd hl (by simp)

end Apko.Formats
