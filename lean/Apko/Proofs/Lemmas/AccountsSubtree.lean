import Apko.Proofs.Lemmas.AccountsWF
import Apko.Proofs.Lemmas.AccountsHomes
import Apko.Proofs.Lemmas.FSWalk
/-! C13 (a): the recursive walk of a `directory` mutation is complete in the transitive sense — every
entry below the root (the list `walkFrom` of the FINAL tree, which is what `specMutation`'s
`subtreeFails` inspects) that is not a symbolic link was reached by a callback through a path that
resolves to it. -/
namespace Apko.Accounts
open Apko Apko.Path Apko.FS Apko.Formats

theorem readdir_shape {a b : FS} (h : ShapeEq a b) (d : Ino) : readdir b d = readdir a d := by
  simp only [readdir, h.children d]

/-- the structural walk looks at the shape only -/
theorem walkFrom_shape {a b : FS} (h : ShapeEq a b) : ∀ (k : Nat) (pre : List Name) (d : Ino),
    walkFrom b k pre d = walkFrom a k pre d := by
  intro k
  induction k with
  | zero => intro pre d; rfl
  | succ k ih =>
    intro pre d
    simp only [walkFrom, readdir_shape h d]
    apply flatMap_congr'
    intro e _
    rw [h.dir e.2, ih]

/-- the fold of `walkDir` over a directory's entries: for every entry of a successful fold there was
a successful nested call, started in a state satisfying whatever the nested calls keep, whose
visits are among the fold's -/
theorem walkFold_sub (c : Cfg) (cb : FS → Text → FS × Option Err) (fuel : Nat) (name : Text) (P : FS → Prop)
    (hkeep : ∀ (f : FS) (nm : Text) (d : Bool), P f → P (walkDir c cb fuel f nm d).1) :
    ∀ (l : List StatInfo) (f0 : FS) (v0 : List Text) (f' : FS) (v' : List Text), P f0 →
      l.foldl (fun (acc : FS × Option Err × List Text) e =>
        match acc with
        | (_, some _, _) => acc
        | (fs', none, vs) =>
          let r := walkDir c cb fuel fs' (join2 name e.name) e.isDir
          (r.1, r.2.1, vs ++ r.2.2)) (f0, none, v0) = (f', none, v') →
      (∀ p ∈ v0, p ∈ v') ∧ ∀ e ∈ l, ∃ fa fb va, P fa ∧
        walkDir c cb fuel fa (join2 name e.name) e.isDir = (fb, none, va) ∧ ∀ p ∈ va, p ∈ v' := by
  intro l
  induction l with
  | nil =>
    intro f0 v0 f' v' _ he
    simp only [List.foldl, Prod.mk.injEq, true_and] at he
    obtain ⟨_, rfl⟩ := he
    exact ⟨fun p hp => hp, fun e he => by cases he⟩
  | cons e rest ihl =>
    intro f0 v0 f' v' hp0 he
    simp only [List.foldl] at he
    have hk := hkeep f0 (join2 name e.name) e.isDir hp0
    cases hw : walkDir c cb fuel f0 (join2 name e.name) e.isDir with
    | mk f1 r1 =>
      obtain ⟨e1, v1⟩ := r1
      rw [hw] at hk
      simp only [hw] at he
      cases e1 with
      | some er =>
        exfalso
        have stuck : ∀ (l : List StatInfo) (x : FS) (y : List Text),
            (l.foldl (fun (acc : FS × Option Err × List Text) e =>
              match acc with
              | (_, some _, _) => acc
              | (fs', none, vs) =>
                let r := walkDir c cb fuel fs' (join2 name e.name) e.isDir
                (r.1, r.2.1, vs ++ r.2.2)) (x, some er, y)).2.1 = some er := by
          intro l
          induction l with
          | nil => intro x y; rfl
          | cons _ _ ih2 => intro x y; simp only [List.foldl]; exact ih2 x y
        have := stuck rest f1 (v0 ++ v1)
        rw [he] at this
        cases this
      | none =>
        obtain ⟨h1, h2⟩ := ihl f1 (v0 ++ v1) f' v' hk he
        refine ⟨fun p hp => h1 p (List.mem_append_left _ hp), ?_⟩
        intro e' he'
        rcases List.mem_cons.mp he' with rfl | hr
        · exact ⟨f0, f1, v1, hp0, hw, fun p hp => h1 p (List.mem_append_right _ hp)⟩
        · exact h2 e' hr

/-- **the walk is complete, transitively**: relative to a fixed shape `S` (that of every state the
walk passes through), a successful call for `name ↦ i` has visited, for every entry of the
structural walk below `i` that is not a symbolic link, a path that resolves to that entry -/
theorem walkDir_subtree (c : Cfg) (hc : c.posix = false) (cb : FS → Text → FS × Option Err)
    (hcb : ∀ fs p, ShapeEq fs (cb fs p).1) (S : FS) (hi : FS.Inv S) (ht : FS.Tree S) (hs : SymOK S) :
    ∀ (fuel : Nat) (fs fs' : FS) (name : Text) (isDir : Bool) (vs : List Text) (i : Ino),
      ShapeEq S fs → walkDir c cb fuel fs name isDir = (fs', none, vs) →
      getNode c S name = .ok i → (S.node i).dir = isDir →
      ∀ (k : Nat) (pre : List Name) (w : List Name × Ino), w ∈ walkFrom S k pre i →
        (S.node w.2).isSymlink = false → ∃ p ∈ vs, getNode c S p = .ok w.2 := by
  intro fuel
  induction fuel with
  | zero => intro fs fs' name isDir vs i _ h; simp [walkDir] at h
  | succ fuel ih =>
    intro fs fs' name isDir vs i hS h hg hd k pre w hw hsym
    cases k with
    | zero => simp [walkFrom] at hw
    | succ k =>
    have keepS : ∀ (f : FS) (nm : Text) (d : Bool), ShapeEq S f → ShapeEq S (walkDir c cb fuel f nm d).1 :=
      fun f nm d hf => walkDir_keeps c cb (ShapeEq S) (fun f p hf => ShapeEq.trans hf (hcb f p)) fuel f nm d hf
    unfold walkDir at h
    cases hcbr : cb fs name with
    | mk fs1 r =>
      have hS1 : ShapeEq S fs1 := by have := hcb fs name; rw [hcbr] at this; exact ShapeEq.trans hS this
      cases r with
      | some e => simp [hcbr] at h
      | none =>
        simp only [hcbr] at h
        cases hdd : isDir with
        | false =>
          -- not a directory: nothing below
          exfalso
          have hch : (S.node i).children = [] := hi.files i (by rw [hd, hdd])
          simp [walkFrom, readdir, hch, sortNames] at hw
        | true =>
          simp only [hdd, Bool.not_true, Bool.false_eq_true, if_false] at h
          have hdi : (S.node i).dir = true := by rw [hd, hdd]
          have hg1 : getNode c fs1 name = .ok i := by rw [getNode_shape hS1]; exact hg
          simp only [step, hg1, hS1.dir i, hdi, Bool.not_true, Bool.false_eq_true, if_false, hS1.children i] at h
          -- the entry of `i` the walk path `w` starts with
          simp only [walkFrom, List.mem_flatMap] at hw
          obtain ⟨e, he, hw⟩ := hw
          have hmem : (e.1, e.2) ∈ (S.node i).children := mem_readdir.mp he
          have hl : S.lookup i e.1 = some e.2 := lookup_of_mem (hi.names i) hmem
          obtain ⟨_, hsub⟩ := walkFold_sub c cb fuel name (ShapeEq S) keepS _ fs1 [name] fs' vs hS1 h
          obtain ⟨fa, fb, va, hSa, hwa, hva⟩ := hsub (statOf c (fs1.node e.2) e.1 (join2 name e.1))
            (List.mem_map.mpr ⟨e, he, rfl⟩)
          simp only [statOf, hS1.dir e.2] at hwa
          rcases List.mem_cons.mp hw with hw | hw
          · -- the entry itself
            subst hw
            have hch := getNode_child hc ht name e.1 i e.2 hg hdi hl hsym
            exact ⟨join2 name e.1, hva _ (walkDir_children c cb hcb fuel fa fb _ _ va hwa).1, hch⟩
          · -- below a directory entry
            by_cases hde : (S.node e.2).dir = true
            · simp only [hde, if_true] at hw
              have hch := getNode_child hc ht name e.1 i e.2 hg hdi hl (hs e.2 hde)
              obtain ⟨p, hp, hpg⟩ := ih fa fb (join2 name e.1) (S.node e.2).dir va e.2 hSa hwa hch rfl k _ w hw hsym
              exact ⟨p, hva p hp, hpg⟩
            · simp [hde] at hw

end Apko.Accounts
