import Apko.Model.Formats
/-! `sortTarHeaders` (Model/Formats.lean: `sortHeaders` / `sortChildren`): every file header follows the
header of the directory it sits in, with only files of the same directory in between — what
`ParseInstalled` relies on when it joins an `R:` line to the last `F:` line. -/
namespace Apko.C07
open Apko Apko.Formats

/-- `Adj cur l`: scanning `l` the way `ParseInstalled` does (a directory header becomes the current
directory), every non-directory header lies in the current directory; `cur` is the directory before
the first directory header (`.` at top level: no `F:` line yet, the name is taken as is). -/
def Adj : Text → List FileRec → Prop
  | _, [] => True
  | cur, h :: t => if h.isDir then Adj (pathClean h.name) t else (pathDir (pathClean h.name) = cur ∧ Adj cur t)

theorem Adj_append_files (cur : Text) (a b : List FileRec)
    (ha : ∀ f ∈ a, f.isDir = false ∧ pathDir (pathClean f.name) = cur) (hb : Adj cur b) : Adj cur (a ++ b) := by
  induction a with
  | nil => simpa using hb
  | cons f t ih =>
    have hf := ha f (by simp)
    have := ih (fun g hg => ha g (by simp [hg]))
    simp [Adj, hf.1, hf.2, this]

theorem Adj_append_indep (a b : List FileRec) (hb : ∀ c, Adj c b) : ∀ cur, Adj cur a → Adj cur (a ++ b) := by
  induction a with
  | nil => intro cur _; simpa using hb cur
  | cons f t ih =>
    intro cur h
    by_cases hd : f.isDir = true
    · simp only [List.cons_append, Adj, hd, if_true] at h ⊢
      exact ih _ h
    · simp only [List.cons_append, Adj, hd] at h ⊢
      exact ⟨h.1, ih _ h.2⟩

theorem lookupHeader_name {hs : List FileRec} {n : Text} {h : FileRec} (e : lookupHeader hs n = some h) :
    pathClean h.name = n := by
  unfold lookupHeader at e
  have := List.find?_some e
  simpa using this

theorem mem_childrenOf {hs : List FileRec} {d m : Text} (h : m ∈ childrenOf hs d) : pathDir m = d := by
  unfold childrenOf at h
  have := (List.mem_filter.1 h).2
  simpa using this

theorem mem_sortTexts {l : List Text} {n : Text} : n ∈ sortTexts l ↔ n ∈ l := by
  unfold sortTexts; exact List.mem_mergeSort

/-- the directory part (`go`), given the statement for the recursive calls at this fuel -/
theorem go_adj (hs : List FileRec) (fuel : Nat)
    (A : ∀ d children out, (∀ n ∈ children, pathDir n = d) → sortChildren hs fuel children = some out → Adj d out) :
    ∀ dirs out, (∀ e ∈ dirs, pathClean e.2.name = e.1 ∧ e.2.isDir = true) →
      sortChildren.go hs fuel dirs = some out → ∀ cur, Adj cur out := by
  intro dirs
  induction dirs with
  | nil =>
    intro out _ h cur
    rw [sortChildren.go.eq_1] at h
    cases h; trivial
  | cons e rest ih =>
    obtain ⟨n, h⟩ := e
    intro out hd hgo cur
    rw [sortChildren.go.eq_2] at hgo
    have hnh := hd (n, h) (by simp)
    cases hsub : sortChildren hs fuel (childrenOf hs n) with
    | none => simp [hsub] at hgo
    | some sub =>
      cases htl : sortChildren.go hs fuel rest with
      | none => simp [hsub, htl] at hgo
      | some tl =>
        simp only [hsub, htl, Option.some.injEq] at hgo
        subst hgo
        have h1 : Adj n sub := A n _ sub (fun m hm => mem_childrenOf hm) hsub
        have h2 : ∀ c, Adj c tl := ih tl (fun e he => hd e (by simp [he])) htl
        have hc1 : pathClean h.name = n := hnh.1
        have hc2 : h.isDir = true := hnh.2
        show (if h.isDir then Adj (pathClean h.name) (sub ++ tl)
              else (pathDir (pathClean h.name) = cur ∧ Adj cur (sub ++ tl)))
        rw [if_pos hc2, hc1]
        exact Adj_append_indep sub tl h2 n h1

theorem sortChildren_adj (hs : List FileRec) :
    ∀ fuel d children out, (∀ n ∈ children, pathDir n = d) → sortChildren hs fuel children = some out → Adj d out := by
  intro fuel
  induction fuel with
  | zero => intro d children out _ h; rw [sortChildren.eq_1] at h; cases h
  | succ fuel ih =>
    intro d children out hc h
    rw [sortChildren.eq_2] at h
    obtain ⟨x, hgo, hx⟩ := Option.map_eq_some_iff.1 h
    subst hx
    apply Adj_append_files
    · intro f hf
      obtain ⟨hf1, hf2⟩ := List.mem_filter.1 hf
      obtain ⟨n, hn, hl⟩ := List.mem_filterMap.1 hf1
      refine ⟨by simpa using hf2, ?_⟩
      rw [lookupHeader_name hl]
      exact hc n (mem_sortTexts.1 hn)
    · refine go_adj hs fuel ih _ x ?_ hgo d
      intro e he
      obtain ⟨n, _, hl⟩ := List.mem_filterMap.1 he
      cases hlk : lookupHeader hs n with
      | none => simp [hlk] at hl
      | some h =>
        by_cases hd : h.isDir = true
        · simp only [hlk, hd, if_true, Option.some.injEq] at hl
          subst hl
          exact ⟨lookupHeader_name hlk, hd⟩
        · simp [hlk, hd] at hl

end Apko.C07
