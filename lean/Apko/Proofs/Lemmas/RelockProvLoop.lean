/-
C09, the fixpoint with provides: the dependency loop and `getPackageDependencies` never fail on a locked closed set,
every pick is a member, the invariant `PInv` is kept.
-/
import Apko.Proofs.Lemmas.RelockProv

namespace Apko.LockP
open Apko Apko.Resolver Apko.Lock
open Apko.C02 (Carries)

structure GoodP (c : Cfg) (S : List Pkg) (out : DepOut) : Prop where
  deps : ∀ d ∈ out.deps, d ∈ S
  inv : PInv c S out.ds

theorem PInv.congr {c : Cfg} {S : List Pkg} {ds ds2 : DepSt} (h : PInv c S ds) (h1 : ds2.st.dq = ds.st.dq)
    (h2 : ds2.st.selected = ds.st.selected) (h3 : ds2.existing = ds.existing) : PInv c S ds2 :=
  ⟨h1 ▸ h.locked, h1 ▸ h.free, h2 ▸ h.sel, h3 ▸ h.ex, h3 ▸ h.exk⟩

/-- the member that satisfied a dependency originally is among the candidates -/
theorem member_candidate_dep {c : Cfg} {S : List Pkg} (ctx : PCtx c S) (sd : PSide c S) {pkg : Pkg} (hpkg : pkg ∈ S)
    {allowPin : Text} (hpins : PinsIn S allowPin) {ds : DepSt} (inv : PInv c S ds) {d : Text} (hd : d ∈ pkg.deps)
    (hnc : isConflict d = false) :
    ∃ q ∈ S, q ∈ filterPackages (c.nm (parseConstraint d).name) ds.st.dq (parseConstraint d).version
      (parseConstraint d).dep allowPin [] (lookupT ds.existing (parseConstraint d).name) := by
  obtain ⟨q, hq, hcar, hv⟩ := closed_member ctx sd hpkg hd hnc
  refine ⟨q, hq, mem_filter_intro (carrier_in_nm ctx sd hq hcar) (inv.free q hq) ?_ ?_⟩
  · rcases hpins q hq with h | h
    · exact Or.inl h
    · exact Or.inr (Or.inl h)
  · rcases hv with hv | ⟨_, req, act, h1, h2, h3⟩
    · exact Or.inl hv
    · exact Or.inr ⟨req, act, h1, h2, h3⟩

theorem exk_fold {S : List Pkg} :
    ∀ (deps : List Pkg) (e : List (Text × Pkg)), (∀ d ∈ deps, d ∈ S) →
      (∀ n m, lookupT e n = some m → m ∈ S ∧ m.name = n) →
      ∀ n m, lookupT (deps.foldl (fun e d => setT e d.name d) e) n = some m → m ∈ S ∧ m.name = n := by
  intro deps
  induction deps with
  | nil => intro e _ he; exact he
  | cons d ds ih =>
    intro e hd he
    simp only [List.foldl_cons]
    apply ih _ (fun x hx => hd x (List.mem_cons_of_mem _ hx))
    intro n m h
    rw [lkp_setT] at h
    split at h
    · next hn => simp only [Option.some.injEq] at h; subst h; exact ⟨hd _ List.mem_cons_self, hn.symm⟩
    · exact he n m h

theorem depLoop_succ {c : Cfg} {S : List Pkg} (ctx : PCtx c S) (sd : PSide c S)
    (rec : Pkg → List (Text × Nat) → DepSt → Res DepOut)
    (hrec : ∀ best ps ds, best ∈ S → PInv c S ds → ResOK (GoodP c S) (rec best ps ds))
    (pkg : Pkg) (hpkg : pkg ∈ S) (allowPin : Text) (hpins : PinsIn S allowPin) (parents : List (Text × Nat)) :
    ∀ (fuel : Nat) (constraints : List Text) (acc : DepOut),
      (∀ d ∈ constraints, d ∈ pkg.deps) → GoodP c S acc →
      ResOK (GoodP c S) (depLoop c rec pkg allowPin parents fuel constraints acc) := by
  intro fuel
  induction fuel with
  | zero => intro constraints acc _ _; simp [depLoop, ResOK]
  | succ fuel ih =>
    intro constraints acc hcs hacc
    rw [depLoop]
    split
    · exact hacc
    · simp only
      obtain ⟨r, hpass⟩ := passFold_some c pkg allowPin acc.ds constraints ([], acc.conflicts, [])
        (fun d hd => depOption_not_fail ctx sd hpkg hpins hacc.inv (hcs d hd))
      split
      · next hnone =>
        have : (some r : Option C02.PassSt) = none := hpass.symm.trans hnone
        cases this
      · next opts confs fl hfold =>
        have hfold2 : constraints.foldl (C02.passStep c pkg allowPin acc.ds) (some ([], acc.conflicts, [])) =
            some (opts, confs, fl) := hfold
        obtain ⟨_, hopts, _, _⟩ := C02.passFold_spec c pkg allowPin acc.ds constraints [] acc.conflicts [] opts confs fl hfold2
        have hinvfl : PInv c S { acc.ds with st := fl.foldl St.flag acc.ds.st } :=
          hacc.inv.congr (foldl_flag_dq _ _) (C02.foldl_flag_selected _ _) rfl
        split
        · exact ⟨hacc.deps, hinvfl⟩
        · next lowest pkgs hlow =>
          have hmem := hopts _ (lowestOption_mem _ _ hlow)
          rcases hmem with hmem | ⟨hlc, hopt⟩
          · cases hmem
          · simp only at hlc hopt
            obtain ⟨_, hnc, hpk⟩ := depOption_options c pkg allowPin acc.ds lowest lowest pkgs hopt
            obtain ⟨best, hbest⟩ := minFunc_ne_nil (cmp := comparePackages c.bothBad (parseConstraint lowest).name []
              acc.ds.existing acc.ds.origins) (depOption_options_ne hopt)
            simp only [hbest]
            obtain ⟨q, hqS, hqm⟩ := member_candidate_dep ctx sd hpkg hpins hacc.inv (hcs _ hlc) hnc
            rw [hpk] at hbest
            have hbS : best ∈ S := best_member hacc.inv hqS hqm hbest
            obtain ⟨dq1, hdc, hfree1, hsub⟩ := disqualifyConflicts_ok ctx sd hbS hinvfl.free
            have hdc2 : disqualifyConflicts c best (fl.foldl St.flag acc.ds.st).dq = some dq1 := hdc
            rw [hdc2]
            simp only
            obtain ⟨sel1, hpick, hsel1⟩ := pick_ok ctx sd hpkg hinvfl.sel
            simp only at hpick
            rw [hpick]
            simp only
            have hinv1 : PInv c S { acc.ds with st := { (fl.foldl St.flag acc.ds.st) with
                dq := dq1, selected := sel1 } } :=
              ⟨hinvfl.locked.mono hsub, hfree1, hsel1, hinvfl.ex, hinvfl.exk⟩
            have hr := hrec best (parents ++ [(pkg.name, pkg.id)]) _ hbS hinv1
            split
            · next heq => rw [heq] at hr; exact hr
            · trivial
            · next sub heq =>
              rw [heq] at hr
              apply ih
              · intro d hd
                have hd2 := (List.mem_filter.mp hd).1
                obtain ⟨e, he, rfl⟩ := List.mem_map.mp hd2
                rcases hopts e he with h | ⟨h, _⟩
                · cases h
                · exact hcs _ h
              · refine ⟨?_, ⟨hr.inv.locked, hr.inv.free, hr.inv.sel, ?_, ?_⟩⟩
                · intro d hd
                  simp only [List.mem_append, List.mem_singleton] at hd
                  rcases hd with (hd | hd) | rfl
                  · exact hacc.deps d hd
                  · exact hr.deps d hd
                  · exact hbS
                · exact ex_fold sd.names sub.deps sub.ds.existing hr.deps hr.inv.ex
                · exact exk_fold sub.deps sub.ds.existing hr.deps hr.inv.exk

theorem getDeps_succ {c : Cfg} {S : List Pkg} (ctx : PCtx c S) (sd : PSide c S) (allowPin : Text)
    (hpins : PinsIn S allowPin) :
    ∀ (fuel : Nat) (pkg : Pkg) (parents : List (Text × Nat)) (ds : DepSt),
      pkg ∈ S → PInv c S ds → ResOK (GoodP c S) (getDeps c fuel pkg allowPin parents ds) := by
  intro fuel
  induction fuel with
  | zero => intro pkg parents ds _ _; simp [getDeps, ResOK]
  | succ fuel ih =>
    intro pkg parents ds hpkg inv
    rw [getDeps]
    split
    · refine ⟨(by intro d hd; cases hd), ?_⟩
      simp only
      split
      · exact inv.congr (flag_dq _ _) (flag_selected1 _ _) rfl
      · exact inv
    · obtain ⟨dq1, hcon, hfree⟩ := constrain_free ctx sd pkg.deps ds.st.dq (dep_conOK ctx sd hpkg) inv.free
      rw [hcon]
      simp only
      refine depLoop_succ ctx sd _ (fun best ps ds2 hb hi => ih best ps ds2 hb hi) pkg hpkg allowPin hpins parents
        _ _ _ (fun d hd => hd) ⟨(by intro d hd; cases hd), ?_⟩
      exact ⟨inv.locked.mono (constrain_sub c _ _ _ hcon), hfree, inv.sel, inv.ex, inv.exk⟩

end Apko.LockP
