/-
C08 — what the cache key must determine.

`Memo.Table.getK κ f`: the caller asks for `x`, the table is consulted under `κ x`, a miss stores
`f x` under `κ x`.  `keyed_get_transparent`: the step returns `f x` for every history iff-direction
used here: whenever the key determines the value (`κ x = κ y → f x = f y`).
`weaker_key_not_transparent`: a key that forgets the order of a list while the value depends on it
answers a later request with the value of an earlier one (the resolver prefers, among equal
candidates, the index listed first — `newPkgResolver` over `[A,B]` and `[B,A]` are different values).
Over the regenerated statement list of shameful_global_caches.go (`Generated.aliasCacheStmts`):
`resolver_key_is_the_argument` — resolverCache.Get looks up, builds from and stores under the
parameter `indexes` itself, the ORDERED list of index objects, and never reassigns it, so κ = id and
the hypothesis holds trivially; `tie_cache_stmts` pins the rest (the disqualification key is the
name-sorted concatenation of every architecture's index objects; the value, a set of packages that
some other architecture lacks, does not depend on the order of the lists).
-/
import Apko.Model.Memo
import Apko.Generated.Alias

namespace Apko.C08.AliasKey
open Apko.Memo Apko.Generated

variable {K V X : Type} [DecidableEq K]

theorem findK_of_inv {κ : X → K} {f : X → V} {t : Table K V} (hi : InvK κ f t) {k : K} {v : V}
    (h : t.find k = some v) : ∃ x, κ x = k ∧ v = f x := by
  unfold Table.find at h
  simp only [Option.map_eq_some_iff] at h
  obtain ⟨e, he, rfl⟩ := h
  have hm := List.mem_of_find?_eq_some he
  have hk := List.find?_some he
  simp only [decide_eq_true_eq] at hk
  obtain ⟨x, hx, hv⟩ := hi e.1 e.2 hm
  exact ⟨x, hx.trans hk, hv⟩

/-- T: a cache consulted under a key that determines the value is transparent, after any history -/
theorem keyed_get_transparent (κ : X → K) (f : X → V) (hκ : ∀ x y, κ x = κ y → f x = f y)
    (t : Table K V) (x : X) (hi : InvK κ f t) :
    (t.getK κ f x).2 = f x ∧ InvK κ f (t.getK κ f x).1 := by
  unfold Table.getK
  split
  · next v hv =>
    obtain ⟨y, hy, rfl⟩ := findK_of_inv hi hv
    exact ⟨hκ y x hy, hi⟩
  · refine ⟨rfl, ?_⟩
    intro k v hm
    simp only [List.mem_append, List.mem_singleton, Prod.mk.injEq] at hm
    rcases hm with hm | ⟨rfl, rfl⟩
    · exact hi k v hm
    · exact ⟨x, rfl, rfl⟩

omit [DecidableEq K] in
theorem invK_empty (κ : X → K) (f : X → V) : InvK κ f (Table.empty : Table K V) := by
  intro k v h; simp [Table.empty] at h

/-- the key that IS the request: transparency without any hypothesis on `f` -/
theorem identity_key_transparent (f : K → V) (t : Table K V) (x : K) (hi : InvK id f t) :
    (t.getK id f x).2 = f x := (keyed_get_transparent id f (fun _ _ h => by simpa using congrArg f h) t x hi).1

/-- negative witness: the key forgets the order (sum of the list), the value does not (first element):
the second request is answered with the first one's value -/
theorem weaker_key_not_transparent :
    let κ : List Nat → Nat := fun l => l.foldl (· + ·) 0
    let f : List Nat → Option Nat := List.head?
    let t1 := ((Table.empty : Table Nat (Option Nat)).getK κ f [1, 2]).1
    (t1.getK κ f [2, 1]).2 = some 1 ∧ f [2, 1] = some 2 := by decide

theorem tie_cache_stmts : aliasCacheStmts = 
    [
      ("resolverCache.find", "len(indexes) == 0"),
      ("resolverCache.find", "return r.pr"),
      ("resolverCache.find", "r.children == nil"),
      ("resolverCache.find", "return nil"),
      ("resolverCache.find", "child, ok := r.children[indexes[0]]"),
      ("resolverCache.find", "!ok"),
      ("resolverCache.find", "return nil"),
      ("resolverCache.find", "return child.find(indexes[1:])"),
      ("resolverCache.fill", "len(indexes) == 0"),
      ("resolverCache.fill", "r.pr = pr"),
      ("resolverCache.fill", "return"),
      ("resolverCache.fill", "r.children == nil"),
      ("resolverCache.fill", "r.children = make(map[NamedIndex]*resolverCache)"),
      ("resolverCache.fill", "child, ok := r.children[indexes[0]]"),
      ("resolverCache.fill", "!ok"),
      ("resolverCache.fill", "child = &resolverCache{}"),
      ("resolverCache.fill", "r.children[indexes[0]] = child"),
      ("resolverCache.fill", "child.fill(indexes[1:], pr)"),
      ("resolverCache.Get", "r.Lock()"),
      ("resolverCache.Get", "defer r.Unlock()"),
      ("resolverCache.Get", "pr := r.find(indexes)"),
      ("resolverCache.Get", "pr != nil"),
      ("resolverCache.Get", "return pr.Clone()"),
      ("resolverCache.Get", "pr := newPkgResolver(ctx, indexes)"),
      ("resolverCache.Get", "r.fill(indexes, pr)"),
      ("resolverCache.Get", "return pr.Clone()"),
      ("disqualifyCache.find", "len(indexes) == 0"),
      ("disqualifyCache.find", "return r.dq"),
      ("disqualifyCache.find", "r.children == nil"),
      ("disqualifyCache.find", "return nil"),
      ("disqualifyCache.find", "child, ok := r.children[indexes[0]]"),
      ("disqualifyCache.find", "!ok"),
      ("disqualifyCache.find", "return nil"),
      ("disqualifyCache.find", "return child.find(indexes[1:])"),
      ("disqualifyCache.fill", "len(indexes) == 0"),
      ("disqualifyCache.fill", "r.dq = dq"),
      ("disqualifyCache.fill", "return"),
      ("disqualifyCache.fill", "r.children == nil"),
      ("disqualifyCache.fill", "r.children = make(map[NamedIndex]*disqualifyCache)"),
      ("disqualifyCache.fill", "child, ok := r.children[indexes[0]]"),
      ("disqualifyCache.fill", "!ok"),
      ("disqualifyCache.fill", "child = &disqualifyCache{}"),
      ("disqualifyCache.fill", "r.children[indexes[0]] = child"),
      ("disqualifyCache.fill", "child.fill(indexes[1:], dq)"),
      ("disqualifyCache.Get", "r.Lock()"),
      ("disqualifyCache.Get", "defer r.Unlock()"),
      ("disqualifyCache.Get", "indexes := slices.Concat(slices.Collect(maps.Values(byArch))...)"),
      ("disqualifyCache.Get", "slices.SortFunc(indexes, func(a, b NamedIndex) int { return strings.Compare(a.Name(), b.Name()) })"),
      ("disqualifyCache.Get", "dq := r.find(indexes)"),
      ("disqualifyCache.Get", "dq != nil"),
      ("disqualifyCache.Get", "return maps.Clone(dq)"),
      ("disqualifyCache.Get", "dq := disqualifyDifference(ctx, byArch)"),
      ("disqualifyCache.Get", "r.fill(indexes, dq)"),
      ("disqualifyCache.Get", "return maps.Clone(dq)")] := by rfl

def stmtsOf (fn : String) : List String := (aliasCacheStmts.filter (·.1 = fn)).map (·.2)

/-- T: resolverCache.Get consults, builds from and stores under its parameter `indexes` — the ordered
list of index objects — and nothing in it assigns or reorders that parameter -/
theorem resolver_key_is_the_argument :
    (stmtsOf "resolverCache.Get").contains "pr := r.find(indexes)" = true ∧
    (stmtsOf "resolverCache.Get").contains "pr := newPkgResolver(ctx, indexes)" = true ∧
    (stmtsOf "resolverCache.Get").contains "r.fill(indexes, pr)" = true ∧
    (stmtsOf "resolverCache.Get").length = 8 ∧
    (stmtsOf "resolverCache.find").contains "child, ok := r.children[indexes[0]]" = true ∧
    (stmtsOf "resolverCache.find").contains "return child.find(indexes[1:])" = true ∧
    (stmtsOf "resolverCache.fill").contains "r.children[indexes[0]] = child" = true ∧
    (stmtsOf "resolverCache.fill").contains "child.fill(indexes[1:], pr)" = true := by decide

/-- the disqualification cache: one key expression for lookup and store, computed from `byArch`, and
the value computed from the same `byArch` -/
theorem disqualify_key_and_value_from_same_request :
    (stmtsOf "disqualifyCache.Get").contains "indexes := slices.Concat(slices.Collect(maps.Values(byArch))...)" = true ∧
    (stmtsOf "disqualifyCache.Get").contains "dq := r.find(indexes)" = true ∧
    (stmtsOf "disqualifyCache.Get").contains "dq := disqualifyDifference(ctx, byArch)" = true ∧
    (stmtsOf "disqualifyCache.Get").contains "r.fill(indexes, dq)" = true ∧
    (stmtsOf "disqualifyCache.Get").length = 10 := by decide

end Apko.C08.AliasKey
