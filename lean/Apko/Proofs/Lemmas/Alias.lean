/-
C08 — frame / non-interference theorems of the heap model `Model/Alias.lean`.

For every clone table `tbl`, every published heap `ph`, every prototype address, every number of
clones and every interleaving of their stores, as long as every store goes through a field whose
container the clone owns (`maps.Clone` / new literal):
* `published_immutable`        no cell of the published world ever changes — whatever another
                                goroutine reads through the published value is what was published;
* `store_frame_other`          a store of clone j' leaves the containers of every other clone alone;
* `clone_view_schedule_independent`  what a clone sees in its own containers is a function of the
                                published heap and of its OWN stores only — not of the clones made
                                before or after it, not of their stores, not of the schedule.
Negative witnesses (`decide`): with a field copied by plain assignment a single store reaches the
published world (`shared_store_reaches_published`) and another clone (`shared_store_reaches_sibling`).
-/
import Apko.Model.Alias

namespace Apko.Alias

theorem private_lt {tbl : List CloneKind} {i : Nat} (h : (kindAt tbl i).isPrivate = true) : i < tbl.length := by
  unfold kindAt at h
  rcases Nat.lt_or_ge i tbl.length with hl | hl
  · exact hl
  · rw [List.getD_eq_getElem?_getD, List.getElem?_eq_none hl] at h
    simp [CloneKind.isPrivate] at h

/-- the invariant of every reachable state -/
structure Inv (tbl : List CloneKind) (ph : Nat → Key → PVal) (s : State) : Prop where
  pub : ∀ n k, s.heap (.pub n) k = (ph n k).toVal
  own : ∀ j i, j < s.nclones → (kindAt tbl i).isPrivate = true → s.heap (.root j) i = .ptr (.fld j i)
  later : ∀ j i, s.nclones ≤ j → s.heap (.root j) i = .nil

theorem inv_init (tbl : List CloneKind) (ph : Nat → Key → PVal) : Inv tbl ph (init ph) :=
  ⟨fun _ _ => rfl, fun _ _ h => absurd h (Nat.not_lt_zero _), fun _ _ _ => rfl⟩

theorem inv_clone {tbl : List CloneKind} {ph : Nat → Key → PVal} {s : State} (p : Addr)
    (hi : Inv tbl ph s) : Inv tbl ph (clone tbl p s) := by
  refine ⟨fun n k => hi.pub n k, ?_, ?_⟩
  · intro j i hj hp
    simp only [clone] at hj ⊢
    by_cases he : j = s.nclones
    · simp only [he, if_true]
      unfold cloneField
      rw [if_pos (private_lt hp)]
      cases hk : kindAt tbl i <;> simp_all [CloneKind.isPrivate]
    · simp only [he, if_false]
      exact hi.own j i (by omega) hp
  · intro j i hj
    simp only [clone] at hj ⊢
    have he : j ≠ s.nclones := by omega
    simp only [he, if_false]
    exact hi.later j i (by omega)

theorem store_eq {tbl : List CloneKind} {ph : Nat → Key → PVal} {s : State} (hi : Inv tbl ph s)
    (j i : Nat) (k : Key) (v : Val) (hp : (kindAt tbl i).isPrivate = true) :
    store j i k v s = if j < s.nclones then { s with heap := setCell s.heap (.fld j i) k v } else s := by
  unfold store
  by_cases hj : j < s.nclones
  · rw [hi.own j i hj hp, if_pos hj]
  · rw [hi.later j i (by omega), if_neg hj]

theorem inv_store {tbl : List CloneKind} {ph : Nat → Key → PVal} {s : State} (hi : Inv tbl ph s)
    (j i : Nat) (k : Key) (v : Val) (hp : (kindAt tbl i).isPrivate = true) :
    Inv tbl ph (store j i k v s) := by
  rw [store_eq hi j i k v hp]
  split
  · refine ⟨?_, ?_, ?_⟩
    · intro n k'; simp [setCell, hi.pub]
    · intro j' i' hj' hp'; simp [setCell]; exact hi.own j' i' hj' hp'
    · intro j' i' hj'; simp [setCell]; exact hi.later j' i' hj'
  · exact hi

theorem inv_step {tbl : List CloneKind} {ph : Nat → Key → PVal} {s : State} (p : Addr) (hi : Inv tbl ph s)
    (a : Action) (hl : a.legal tbl = true) : Inv tbl ph (step tbl p s a) := by
  cases a with
  | clone => exact inv_clone p hi
  | store j i k v => exact inv_store hi j i k v hl

theorem inv_run {tbl : List CloneKind} {ph : Nat → Key → PVal} (p : Addr) (acts : List Action) :
    ∀ {s : State}, Inv tbl ph s → (∀ a ∈ acts, a.legal tbl = true) → Inv tbl ph (run tbl p acts s) := by
  induction acts with
  | nil => intro s hi _; exact hi
  | cons a rest ih =>
    intro s hi hl
    simp only [run, List.foldl_cons]
    exact ih (inv_step p hi a (hl a (List.mem_cons_self ..))) (fun b hb => hl b (List.mem_cons_of_mem _ hb))

/-- T (frame): after publication no cell of the published world changes, for every number of clones
and every interleaving of their stores through fields they own. -/
theorem published_immutable (tbl : List CloneKind) (ph : Nat → Key → PVal) (p : Addr) (acts : List Action)
    (hl : ∀ a ∈ acts, a.legal tbl = true) (n : Nat) (k : Key) :
    (run tbl p acts (init ph)).heap (.pub n) k = (ph n k).toVal :=
  (inv_run p acts (inv_init tbl ph) hl).pub n k

/-- the same from any reachable state: later stores do not change what an earlier reader saw -/
theorem published_stable (tbl : List CloneKind) (ph : Nat → Key → PVal) (p : Addr) (pre post : List Action)
    (h1 : ∀ a ∈ pre, a.legal tbl = true) (h2 : ∀ a ∈ post, a.legal tbl = true) (n : Nat) (k : Key) :
    (run tbl p post (run tbl p pre (init ph))).heap (.pub n) k = (run tbl p pre (init ph)).heap (.pub n) k := by
  have hi := inv_run p pre (inv_init tbl ph) h1
  rw [(inv_run p post hi h2).pub, hi.pub]

/-- T (non-interference between clones): a store of clone j' does not touch the containers of clone j -/
theorem store_frame_other {tbl : List CloneKind} {ph : Nat → Key → PVal} {s : State} (hi : Inv tbl ph s)
    (j j' i : Nat) (k : Key) (v : Val) (hp : (kindAt tbl i).isPrivate = true) (hne : j' ≠ j) :
    view (store j' i k v s) j = view s j := by
  rw [store_eq hi j' i k v hp]
  split
  · funext i2 k2
    simp only [view, setCell]
    rw [if_neg]
    intro h
    exact hne (Addr.fld.inj h.1).1.symm
  · rfl

theorem clone_frame (tbl : List CloneKind) (p : Addr) (s : State) (j : Nat) (hj : j < s.nclones) :
    view (clone tbl p s) j = view s j := by
  funext i k
  have : j ≠ s.nclones := by omega
  simp [view, clone, this]

theorem nclones_mono (tbl : List CloneKind) (p : Addr) (s : State) (a : Action) :
    s.nclones ≤ (step tbl p s a).nclones := by
  cases a with
  | clone => simp [step, clone]
  | store j i k v =>
    simp only [step, store]
    split <;> exact Nat.le_refl _

/-- the containers of an existing clone after any further legal actions = its own stores applied in order -/
theorem view_own {tbl : List CloneKind} {ph : Nat → Key → PVal} (p : Addr) (j : Nat) (acts : List Action) :
    ∀ {s : State}, Inv tbl ph s → j < s.nclones → (∀ a ∈ acts, a.legal tbl = true) →
      view (run tbl p acts s) j = applyOwn (view s j) (ownStores j acts) := by
  induction acts with
  | nil => intro s _ _ _; rfl
  | cons a rest ih =>
    intro s hi hj hl
    have hla := hl a (List.mem_cons_self ..)
    have hrest : ∀ b ∈ rest, b.legal tbl = true := fun b hb => hl b (List.mem_cons_of_mem _ hb)
    have hi' := inv_step p hi a hla
    have hj' : j < (step tbl p s a).nclones := Nat.lt_of_lt_of_le hj (nclones_mono tbl p s a)
    simp only [run, List.foldl_cons]
    have := ih hi' hj' hrest
    simp only [run] at this
    rw [this]
    cases a with
    | clone =>
      simp only [step, ownStores]
      rw [clone_frame tbl p s j hj]
    | store j' i k v =>
      simp only [step, ownStores]
      by_cases he : j' = j
      · subst he
        simp only [if_true, applyOwn]
        congr 1
        rw [store_eq hi j' i k v hla, if_pos hj]
        funext i2 k2
        simp [view, setCell]
      · simp only [he, if_false]
        rw [store_frame_other hi j j' i k v hla he]

/-- what a new clone finds in its containers: a function of the published heap alone -/
def initialView (tbl : List CloneKind) (ph : Nat → Key → PVal) (p : Nat) : Nat → Key → Val := fun i k =>
  match kindAt tbl i with
  | .shallow => match ph p i with
    | .ptr m => (ph m k).toVal
    | _ => .nil
  | _ => .nil

theorem clone_view {tbl : List CloneKind} {ph : Nat → Key → PVal} {s : State} (hi : Inv tbl ph s) (p : Nat) :
    view (clone tbl (.pub p) s) s.nclones = initialView tbl ph p := by
  funext i k
  simp only [view, clone, if_true, cloneEntries, initialView]
  cases kindAt tbl i <;> try rfl
  rw [hi.pub]
  cases hph : ph p i <;> simp [PVal.toVal, hi.pub]

/-- T (purity at heap level): what a clone of the published prototype sees in its own containers
depends on the published heap and on its own stores only — for every history `pre` (other clones,
their stores), every interleaving `post` of its stores with those of any number of other clones. -/
theorem clone_view_schedule_independent (tbl : List CloneKind) (ph : Nat → Key → PVal) (p : Nat)
    (pre post : List Action) (h1 : ∀ a ∈ pre, a.legal tbl = true) (h2 : ∀ a ∈ post, a.legal tbl = true) :
    let s := run tbl (.pub p) pre (init ph)
    view (run tbl (.pub p) (.clone :: post) s) s.nclones =
      applyOwn (initialView tbl ph p) (ownStores s.nclones post) := by
  intro s
  have hi : Inv tbl ph s := inv_run (.pub p) pre (inv_init tbl ph) h1
  have hc := inv_clone (.pub p) hi
  have : run tbl (.pub p) (.clone :: post) s = run tbl (.pub p) post (clone tbl (.pub p) s) := rfl
  rw [this, view_own (.pub p) s.nclones post hc (by simp [clone]) h2, clone_view hi]

/-- what clone `j` reads at `p.f_i[k]` -/
def read (s : State) (j i : Nat) (k : Key) : Val :=
  match s.heap (.root j) i with
  | .ptr a => s.heap a k
  | _ => .nil

/-- a shared field (plain assignment) still reads the published container, and nobody changes it -/
theorem shared_read_stable (tbl : List CloneKind) (ph : Nat → Key → PVal) (p : Nat) (pre post : List Action)
    (h1 : ∀ a ∈ pre, a.legal tbl = true) (h2 : ∀ a ∈ post, a.legal tbl = true) (m : Nat) (k : Key) :
    (run tbl (.pub p) post (run tbl (.pub p) pre (init ph))).heap (.pub m) k = (ph m k).toVal :=
  (inv_run (.pub p) post (inv_run (.pub p) pre (inv_init tbl ph) h1) h2).pub m k

/-! ### why the hypothesis is needed: a field copied by plain assignment -/

/-- published: prototype at 0 whose field 0 is the container at 1 (empty) -/
def demoHeap : Nat → Key → PVal := fun n k => if n = 0 ∧ k = 0 then .ptr 1 else .nil

/-- negative witness: `nameMap: p.nameMap` + one store = the published container changes -/
theorem shared_store_reaches_published :
    (run [.share] (.pub 0) [.clone, .store 0 0 7 (.data 9)] (init demoHeap)).heap (.pub 1) 7 = .data 9 ∧
    (demoHeap 1 7).toVal = .nil := by decide

/-- negative witness: … and a sibling clone reads the other clone's store -/
theorem shared_store_reaches_sibling :
    read (run [.share] (.pub 0) [.clone, .clone, .store 0 0 7 (.data 9)] (init demoHeap)) 1 0 7 = .data 9 := by decide

/-- with `maps.Clone` the same history leaves both alone -/
theorem shallow_store_stays_private :
    (run [.shallow] (.pub 0) [.clone, .clone, .store 0 0 7 (.data 9)] (init demoHeap)).heap (.pub 1) 7 = .nil ∧
    read (run [.shallow] (.pub 0) [.clone, .clone, .store 0 0 7 (.data 9)] (init demoHeap)) 1 0 7 = .nil ∧
    read (run [.shallow] (.pub 0) [.clone, .clone, .store 0 0 7 (.data 9)] (init demoHeap)) 0 0 7 = .data 9 := by decide

/-- non-vacuity of the hypotheses: a two-clone interleaving over a three-field table -/
example : ∀ a ∈ [Action.clone, .store 0 1 3 (.data 1), .clone, .store 1 2 3 (.data 2), .store 0 2 4 (.ptr (.pub 5))],
    a.legal [.share, .shallow, .fresh] = true := by decide

end Apko.Alias
