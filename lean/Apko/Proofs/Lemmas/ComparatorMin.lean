/-
`slices.MinFunc` (first minimum) under a strict weak order: the result is the FIRST element of the
minimal equivalence class, so it is the same for two candidate lists in which every equivalence
class appears in the same order (e.g. a permutation that only moves inequivalent elements past
each other).
-/
import Apko.Proofs.Lemmas.ComparatorOrder

namespace Apko.Cmp
open Apko Apko.Resolver

/-- invariant of the `MinFunc` fold: having consumed `pre` with running minimum `m`, folding the
rest `ys` ends in a minimum of `pre ++ ys` that is the first element of its class. -/
theorem minFold_spec {α : Type} {cmp : α → α → Ordering} (h : SWO cmp) (ys pre : List α) (m : α)
    (hm : m ∈ pre) (hmin : ∀ z ∈ pre, cmp z m ≠ .lt)
    (hfirst : pre.find? (fun y => cmp y m = .eq) = some m) :
    let r := ys.foldl (fun m y => if cmp y m = .lt then y else m) m
    r ∈ pre ++ ys ∧ (∀ z ∈ pre ++ ys, cmp z r ≠ .lt) ∧
      (pre ++ ys).find? (fun y => cmp y r = .eq) = some r := by
  induction ys generalizing pre m with
  | nil => simpa using ⟨hm, hmin, hfirst⟩
  | cons y ys ih =>
    simp only [List.foldl_cons]
    have hassoc : pre ++ y :: ys = (pre ++ [y]) ++ ys := by simp
    rw [hassoc]
    by_cases hy : cmp y m = .lt
    · simp only [hy, if_true]
      apply ih (pre ++ [y]) y (by simp)
      · intro z hz
        rcases List.mem_append.mp hz with hz | hz
        · intro hzy; exact hmin z hz (h.lt_trans z y m hzy hy)
        · simp only [List.mem_singleton] at hz; subst hz; rw [h.refl]; simp
      · rw [List.find?_append]
        have hnone : pre.find? (fun z => cmp z y = .eq) = none := by
          rw [List.find?_eq_none]
          intro z hz hzy
          simp only [decide_eq_true_eq] at hzy
          exact hmin z hz (h.eq_lt_trans hzy hy)
        rw [hnone]
        simp [h.refl]
    · simp only [hy, if_false]
      apply ih (pre ++ [y]) m (by simp [hm])
      · intro z hz
        rcases List.mem_append.mp hz with hz | hz
        · exact hmin z hz
        · simp only [List.mem_singleton] at hz; subst hz; exact hy
      · rw [List.find?_append, hfirst]; rfl

/-- T `minFunc_spec`: under a strict weak order `slices.MinFunc` returns an element that no
candidate beats and that is the first candidate of its equivalence class. -/
theorem minFunc_spec {cmp : Pkg → Pkg → Ordering} (h : SWO cmp) {l : List Pkg} {r : Pkg}
    (hr : minFunc cmp l = some r) :
    r ∈ l ∧ (∀ z ∈ l, cmp z r ≠ .lt) ∧ l.find? (fun y => cmp y r = .eq) = some r := by
  cases l with
  | nil => simp [minFunc] at hr
  | cons x xs =>
    simp only [minFunc, Option.some.injEq] at hr
    have := minFold_spec h xs [x] x (by simp) (by simp [h.refl]) (by simp [h.refl])
    simp only [List.singleton_append] at this
    rw [hr] at this
    exact this

theorem minFunc_eq_none {cmp : Pkg → Pkg → Ordering} {l : List Pkg} :
    minFunc cmp l = none ↔ l = [] := by
  cases l <;> simp [minFunc]

/-- T `minFunc_perm_invariant`: for a strict weak order, two candidate lists in which every
equivalence class of the comparator appears in the same order (this makes the lists permutations
of each other; elements of DIFFERENT classes may be interleaved arbitrarily) have the same first
minimum. -/
theorem minFunc_perm_invariant {cmp : Pkg → Pkg → Ordering} (h : SWO cmp) (l₁ l₂ : List Pkg)
    (hcls : ∀ x, l₁.filter (fun y => cmp y x = .eq) = l₂.filter (fun y => cmp y x = .eq)) :
    minFunc cmp l₁ = minFunc cmp l₂ := by
  have hmem : ∀ x, x ∈ l₁ ↔ x ∈ l₂ := by
    intro x
    have hx := hcls x
    constructor
    · intro hx1
      have : x ∈ l₁.filter (fun y => cmp y x = .eq) := by simp [hx1, h.refl]
      rw [hx] at this; exact (List.mem_filter.mp this).1
    · intro hx2
      have : x ∈ l₂.filter (fun y => cmp y x = .eq) := by simp [hx2, h.refl]
      rw [← hx] at this; exact (List.mem_filter.mp this).1
  cases h1 : minFunc cmp l₁ with
  | none =>
    rw [minFunc_eq_none] at h1
    symm; rw [minFunc_eq_none]
    cases l₂ with
    | nil => rfl
    | cons x xs => have := (hmem x).mpr (by simp); rw [h1] at this; cases this
  | some r₁ =>
    cases h2 : minFunc cmp l₂ with
    | none =>
      rw [minFunc_eq_none] at h2
      have := (hmem r₁).mp (minFunc_spec h h1).1
      rw [h2] at this; cases this
    | some r₂ =>
      obtain ⟨m1, min1, f1⟩ := minFunc_spec h h1
      obtain ⟨m2, min2, f2⟩ := minFunc_spec h h2
      have e12 : cmp r₁ r₂ = .eq := by
        have a := min1 r₂ ((hmem r₂).mpr m2)
        have b := min2 r₁ ((hmem r₁).mp m1)
        cases hc : cmp r₁ r₂ with
        | lt => exact absurd hc b
        | eq => rfl
        | gt => exact absurd ((h.gt_iff_lt _ _).mp hc) a
      have hpred : (fun y => decide (cmp y r₂ = .eq)) = (fun y => decide (cmp y r₁ = .eq)) := by
        funext y; rw [h.congr_right e12 y]
      rw [hpred, ← List.head?_filter, ← hcls r₁, List.head?_filter, f1] at f2
      exact f2

/-- the hypothesis of `minFunc_perm_invariant` from "ties have one name" and "same-name packages
keep their relative order" -/
theorem classes_of_names {cmp : Pkg → Pkg → Ordering}
    (hname : ∀ a b, cmp a b = .eq → a.name = b.name) (l₁ l₂ : List Pkg)
    (hst : ∀ m : Text, l₁.filter (fun p => p.name = m) = l₂.filter (fun p => p.name = m)) (x : Pkg) :
    l₁.filter (fun y => cmp y x = .eq) = l₂.filter (fun y => cmp y x = .eq) := by
  have key : ∀ l : List Pkg, l.filter (fun y => cmp y x = .eq) =
      (l.filter (fun p => p.name = x.name)).filter (fun y => cmp y x = .eq) := by
    intro l
    rw [List.filter_filter]
    apply List.filter_congr
    intro y _
    by_cases hy : cmp y x = .eq
    · simp [hy, hname y x hy]
    · simp [hy]
  rw [key l₁, key l₂, hst x.name]

end Apko.Cmp
