/-
C10 — the tail of `groupByOriginAndSize`: `mkGrp`, `mergeSort gle`, `cutGroups`, `sortPkgs`.
-/
import Apko.Proofs.Lemmas.LayersStmt

namespace Apko.C10
open Apko Apko.Layers

/-! ## `finish` as a function of the collected package lists -/

/-- everything after `collect`, as a function of the collected package lists -/
def finishRaw (raw : List (List LPkg)) (budget : Nat) : List Grp :=
  (cutGroups budget ((raw.map mkGrp).mergeSort gle)).map sortPkgs

/-- the heap indices of the collected groups, in collection order -/
def finalIds (o4 : Order) (st : GState) : List Nat :=
  dedupNat [] ((o4 (akeys st.byOrigin)).filterMap (aget st.byOrigin))

theorem finish_eq_finishRaw (o4 : Order) (budget : Nat) (st : GState) :
    finish o4 budget st = finishRaw ((finalIds o4 st).map st.grp) budget := by
  simp [finish, finishRaw, collect, finalIds, List.map_map, Function.comp_def]

/-! ## F1: the number of groups -/

theorem cutGroups_length (b : Nat) (gs : List Grp) : (cutGroups b gs).length ≤ max b 1 := by
  unfold cutGroups
  split
  · simp only [List.length_append, List.length_take, List.length_cons, List.length_nil]
    omega
  · omega

theorem finishRaw_length (raw : List (List LPkg)) (b : Nat) :
    (finishRaw raw b).length ≤ max b 1 := by
  simp only [finishRaw, List.length_map]
  exact cutGroups_length _ _

theorem finish_length (o4 : Order) (b : Nat) (st : GState) :
    (finish o4 b st).length ≤ max b 1 := by
  simp only [finish, List.length_map]
  exact cutGroups_length _ _

/-- shape of a successful run -/
theorem ok_shape {pkgs : List LPkg} {budget : Int} {o1 o2 o3 o4 : Order} {gs : List Grp}
    (h : groupByOriginAndSize pkgs budget o1 o2 o3 o4 = .ok gs) :
    0 ≤ budget ∧ ∃ st4,
      phase4 o3 (phase3 o2 (phase2 o1 (phase1 pkgs))) (phase2 o1 (phase1 pkgs)) = .ok st4 ∧
      gs = finish o4 budget.toNat st4 := by
  unfold groupByOriginAndSize at h
  split at h
  · cases h
  · rename_i hb
    simp only at h
    cases h4 : phase4 o3 (phase3 o2 (phase2 o1 (phase1 pkgs))) (phase2 o1 (phase1 pkgs)) with
    | ok st4 =>
      rw [h4] at h
      simp only [Res.bind] at h
      refine ⟨by omega, st4, rfl, ?_⟩
      cases h
      rfl
    | err => rw [h4] at h; simp [Res.bind] at h
    | panic => rw [h4] at h; simp [Res.bind] at h

theorem groupCount : GroupCount := by
  intro pkgs budget o1 o2 o3 o4 gs h
  obtain ⟨_, st4, _, rfl⟩ := ok_shape h
  exact finish_length _ _ _

theorem negative_budget_not_ok (pkgs : List LPkg) (budget : Int) (o1 o2 o3 o4 : Order)
    (hb : budget < 0) : ∀ gs, groupByOriginAndSize pkgs budget o1 o2 o3 o4 ≠ .ok gs := by
  intro gs h
  have := (ok_shape h).1
  omega

theorem groupCount_pos (pkgs : List LPkg) (budget : Int) (o1 o2 o3 o4 : Order) (gs : List Grp)
    (hb : 1 ≤ budget) (h : groupByOriginAndSize pkgs budget o1 o2 o3 o4 = .ok gs) :
    gs.length + 1 ≤ budget.toNat + 1 := by
  have := groupCount pkgs budget o1 o2 o3 o4 gs h
  omega

/-! ## F2: membership is preserved -/

theorem mkGrp_foldl_pkgs (l : List LPkg) (g : Grp) :
    (l.foldl (fun g p => (⟨g.pkgs, addU64 g.size p.size, tmax g.tb p.name⟩ : Grp)) g).pkgs
      = g.pkgs := by
  induction l generalizing g with
  | nil => rfl
  | cons p l ih => simp only [List.foldl_cons]; rw [ih]

theorem mkGrp_pkgs (l : List LPkg) : (mkGrp l).pkgs = l := by
  unfold mkGrp; rw [mkGrp_foldl_pkgs]

theorem mergeGrps_foldl_pkgs (gs : List Grp) (m : Grp) :
    (gs.foldl (fun m g => (⟨m.pkgs ++ g.pkgs, addU64 m.size g.size, tmax m.tb g.tb⟩ : Grp)) m).pkgs
      = m.pkgs ++ gs.flatMap (·.pkgs) := by
  induction gs generalizing m with
  | nil => simp
  | cons g gs ih => simp only [List.foldl_cons]; rw [ih]; simp [List.flatMap_cons]

theorem mergeGrps_pkgs (gs : List Grp) : (mergeGrps gs).pkgs = gs.flatMap (·.pkgs) := by
  unfold mergeGrps; rw [mergeGrps_foldl_pkgs]; simp

theorem cutGroups_flatMap (b : Nat) (gs : List Grp) :
    (cutGroups b gs).flatMap (·.pkgs) = gs.flatMap (·.pkgs) := by
  unfold cutGroups
  split
  · simp only [List.flatMap_append, List.flatMap_cons, List.flatMap_nil, List.append_nil,
      mergeGrps_pkgs]
    rw [← List.flatMap_append, List.take_append_drop]
  · rfl

theorem sortPkgs_pkgs (g : Grp) : (sortPkgs g).pkgs = g.pkgs.mergeSort ple := rfl
theorem sortPkgs_size (g : Grp) : (sortPkgs g).size = g.size := rfl
theorem sortPkgs_tb (g : Grp) : (sortPkgs g).tb = g.tb := rfl

theorem map_sortPkgs_flatMap (gs : List Grp) :
    ((gs.map sortPkgs).flatMap (·.pkgs)).Perm (gs.flatMap (·.pkgs)) := by
  induction gs with
  | nil => simp
  | cons g gs ih =>
    simp only [List.map_cons, List.flatMap_cons]
    exact List.Perm.append (List.mergeSort_perm _ _) ih

theorem map_mkGrp_flatMap (raw : List (List LPkg)) :
    (raw.map mkGrp).flatMap (·.pkgs) = raw.flatten := by
  induction raw with
  | nil => rfl
  | cons r raw ih => simp [List.flatMap_cons, mkGrp_pkgs, ih]

theorem finishRaw_perm (raw : List (List LPkg)) (b : Nat) :
    ((finishRaw raw b).flatMap (·.pkgs)).Perm raw.flatten := by
  unfold finishRaw
  refine (map_sortPkgs_flatMap _).trans ?_
  rw [cutGroups_flatMap, ← map_mkGrp_flatMap]
  exact (List.mergeSort_perm _ _).flatMap_right _

/-! ## F3: the group structure is only coarsened -/

theorem cutGroups_coarsens (b : Nat) (gs : List Grp) (g : Grp) (hg : g ∈ gs) :
    ∃ g' ∈ cutGroups b gs, ∀ p ∈ g.pkgs, p ∈ g'.pkgs := by
  unfold cutGroups
  split
  · rw [← List.take_append_drop (b - 1) gs, List.mem_append] at hg
    rcases hg with hg | hg
    · exact ⟨g, by simp [hg], fun p hp => hp⟩
    · refine ⟨mergeGrps (List.drop (b - 1) gs), by simp, fun p hp => ?_⟩
      rw [mergeGrps_pkgs, List.mem_flatMap]
      exact ⟨g, hg, hp⟩
  · exact ⟨g, hg, fun p hp => hp⟩

theorem finish_coarsens (raw : List (List LPkg)) (b : Nat) (r : List LPkg) (hr : r ∈ raw) :
    ∃ g ∈ finishRaw raw b, ∀ p ∈ r, p ∈ g.pkgs := by
  have h1 : mkGrp r ∈ (raw.map mkGrp).mergeSort gle :=
    List.mem_mergeSort.mpr (List.mem_map_of_mem hr)
  obtain ⟨g', hg', hsub⟩ := cutGroups_coarsens b _ _ h1
  refine ⟨sortPkgs g', List.mem_map_of_mem hg', fun p hp => ?_⟩
  rw [sortPkgs_pkgs, List.mem_mergeSort]
  exact hsub p (by rw [mkGrp_pkgs]; exact hp)

/-- conversely every final group only contains packages of raw groups -/
theorem finishRaw_mem (raw : List (List LPkg)) (b : Nat) (g : Grp) (hg : g ∈ finishRaw raw b)
    (p : LPkg) (hp : p ∈ g.pkgs) : ∃ r ∈ raw, p ∈ r := by
  have : p ∈ (finishRaw raw b).flatMap (·.pkgs) := List.mem_flatMap.mpr ⟨g, hg, hp⟩
  have := (finishRaw_perm raw b).mem_iff.mp this
  simpa [List.mem_flatten] using this

/-! ## F5: each final group is sorted by name -/

theorem ple_trans (a b c : LPkg) (h1 : ple a b = true) (h2 : ple b c = true) : ple a c = true := by
  simp only [ple, decide_eq_true_eq] at *
  exact List.le_trans h1 h2

theorem ple_total (a b : LPkg) : (ple a b || ple b a) = true := by
  simp only [ple, Bool.or_eq_true, decide_eq_true_eq]
  exact List.le_total _ _

theorem finishRaw_sorted (raw : List (List LPkg)) (b : Nat) (g : Grp) (hg : g ∈ finishRaw raw b) :
    g.pkgs.Pairwise (fun a b => a.name ≤ b.name) := by
  unfold finishRaw at hg
  obtain ⟨g', _, rfl⟩ := List.mem_map.mp hg
  rw [sortPkgs_pkgs]
  have := List.pairwise_mergeSort ple_trans ple_total g'.pkgs
  exact this.imp (fun h => by simpa [ple] using h)

/-! ## F4: canonicity — the result depends only on the set of collected groups -/

theorem inj_of_nodup_map {α β : Type} (f : α → β) {l : List α} (h : (l.map f).Nodup)
    {a b : α} (ha : a ∈ l) (hb : b ∈ l) (hab : f a = f b) : a = b := by
  induction l with
  | nil => cases ha
  | cons x l ih =>
    rw [List.map_cons, List.nodup_cons] at h
    rcases List.mem_cons.mp ha with rfl | ha' <;> rcases List.mem_cons.mp hb with rfl | hb'
    · rfl
    · exact absurd (hab ▸ List.mem_map_of_mem hb') h.1
    · exact absurd (hab ▸ List.mem_map_of_mem ha') h.1
    · exact ih h.2 ha' hb'

theorem nodup_of_nodup_map {α β : Type} (f : α → β) {l : List α} (h : (l.map f).Nodup) :
    l.Nodup := by
  induction l with
  | nil => exact List.nodup_nil
  | cons x l ih =>
    rw [List.map_cons, List.nodup_cons] at h
    exact List.nodup_cons.mpr ⟨fun hx => h.1 (List.mem_map_of_mem hx), ih h.2⟩

theorem grp_ext {a b : Grp} (h1 : a.pkgs = b.pkgs) (h2 : a.size = b.size) (h3 : a.tb = b.tb) :
    a = b := by
  cases a; cases b; simp_all

/-! ### `mkGrp`: size and tiebreaker as functions of the package list -/

theorem mkGrp_foldl (l : List LPkg) (g : Grp) :
    l.foldl (fun g p => (⟨g.pkgs, addU64 g.size p.size, tmax g.tb p.name⟩ : Grp)) g
      = ⟨g.pkgs, l.foldl (fun s p => addU64 s p.size) g.size,
          l.foldl (fun t p => tmax t p.name) g.tb⟩ := by
  induction l generalizing g with
  | nil => rfl
  | cons p l ih => simp only [List.foldl_cons]; rw [ih]

theorem foldl_addU64 (l : List Nat) (s : Nat) (hs : s < u64) :
    l.foldl addU64 s = (s + l.sum) % u64 := by
  induction l generalizing s with
  | nil => simp [Nat.mod_eq_of_lt hs]
  | cons x l ih =>
    simp only [List.foldl_cons, List.sum_cons]
    rw [ih _ (by unfold addU64; exact Nat.mod_lt _ (by unfold u64; omega))]
    unfold addU64 u64
    omega

theorem mkGrp_size (l : List LPkg) : (mkGrp l).size = (l.map (·.size)).sum % u64 := by
  unfold mkGrp
  rw [mkGrp_foldl]
  simp only
  rw [← List.foldl_map (f := fun p : LPkg => p.size) (g := addU64), foldl_addU64 _ _ (by unfold u64; omega)]
  simp

theorem mkGrp_tb (l : List LPkg) : (mkGrp l).tb = (l.map (·.name)).foldl tmax [] := by
  unfold mkGrp
  rw [mkGrp_foldl, List.foldl_map]

theorem le_tmax_left (a b : Text) : a ≤ tmax a b := by
  unfold tmax; split
  · exact List.le_of_lt ‹_›
  · exact List.le_refl _

theorem le_tmax_right (a b : Text) : b ≤ tmax a b := by
  unfold tmax; split
  · exact List.le_refl _
  · exact List.not_lt.mp ‹_›

theorem tmax_mem (a b : Text) : tmax a b = a ∨ tmax a b = b := by
  unfold tmax; split <;> simp

theorem foldl_tmax_mem (l : List Text) (t : Text) : l.foldl tmax t ∈ t :: l := by
  induction l generalizing t with
  | nil => simp
  | cons x l ih =>
    simp only [List.foldl_cons]
    have := ih (tmax t x)
    rcases List.mem_cons.mp this with h | h
    · rw [h]
      rcases tmax_mem t x with e | e <;> simp [e]
    · simp [h]

theorem foldl_tmax_ge (l : List Text) (t : Text) : ∀ n ∈ t :: l, n ≤ l.foldl tmax t := by
  induction l generalizing t with
  | nil => intro n hn; simp at hn; subst hn; exact List.le_refl _
  | cons x l ih =>
    intro n hn
    simp only [List.foldl_cons]
    have h0 := ih (tmax t x) (tmax t x) (by simp)
    rcases List.mem_cons.mp hn with rfl | hn
    · exact List.le_trans (le_tmax_left _ _) h0
    · rcases List.mem_cons.mp hn with rfl | hn
      · exact List.le_trans (le_tmax_right _ _) h0
      · exact ih (tmax t x) n (by simp [hn])

theorem foldl_tmax_congr (l l' : List Text) (h : ∀ n, n ∈ l ↔ n ∈ l') :
    l.foldl tmax [] = l'.foldl tmax [] := by
  have hmem : ∀ n, n ∈ ([] : Text) :: l ↔ n ∈ ([] : Text) :: l' := by
    intro n; simp [h n]
  apply List.le_antisymm
  · exact foldl_tmax_ge l' [] _ ((hmem _).mp (foldl_tmax_mem l []))
  · exact foldl_tmax_ge l [] _ ((hmem _).mpr (foldl_tmax_mem l' []))

theorem mkGrp_size_perm {l l' : List LPkg} (h : l.Perm l') : (mkGrp l).size = (mkGrp l').size := by
  rw [mkGrp_size, mkGrp_size, (h.map _).sum_nat]

theorem mkGrp_tb_perm {l l' : List LPkg} (h : l.Perm l') : (mkGrp l).tb = (mkGrp l').tb := by
  rw [mkGrp_tb, mkGrp_tb]
  exact foldl_tmax_congr _ _ (fun n => (h.map _).mem_iff)

/-- the tiebreaker of a non-empty group is the name of one of its members -/
theorem mkGrp_tb_mem (l : List LPkg) (hl : l ≠ []) : (mkGrp l).tb ∈ l.map (·.name) := by
  rw [mkGrp_tb]
  rcases List.mem_cons.mp (foldl_tmax_mem (l.map (·.name)) []) with h | h
  · cases l with
    | nil => exact absurd rfl hl
    | cons p l =>
      have hp : p.name ≤ (List.map (·.name) (p :: l)).foldl tmax [] :=
        foldl_tmax_ge _ [] p.name (by simp)
      rw [h] at hp ⊢
      have : p.name = [] := List.le_antisymm hp (List.nil_le _)
      simp [this]
  · exact h

/-- the tiebreaker is the maximum of the member names -/
theorem mkGrp_tb_ge (l : List LPkg) : ∀ p ∈ l, p.name ≤ (mkGrp l).tb := by
  intro p hp
  rw [mkGrp_tb]
  exact foldl_tmax_ge _ [] p.name (List.mem_cons_of_mem _ (List.mem_map_of_mem hp))

/-! ### the comparator on groups -/

theorem gle_total (a b : Grp) : (gle a b || gle b a) = true := by
  simp only [gle, Bool.or_eq_true, Bool.and_eq_true, decide_eq_true_eq, beq_iff_eq]
  rcases Nat.lt_trichotomy a.size b.size with h | h | h
  · exact Or.inr (Or.inl h)
  · rcases List.le_total a.tb b.tb with h' | h'
    · exact Or.inl (Or.inr ⟨h, h'⟩)
    · exact Or.inr (Or.inr ⟨h.symm, h'⟩)
  · exact Or.inl (Or.inl h)

theorem gle_trans (a b c : Grp) (h1 : gle a b = true) (h2 : gle b c = true) : gle a c = true := by
  simp only [gle, Bool.or_eq_true, Bool.and_eq_true, decide_eq_true_eq, beq_iff_eq] at *
  rcases h1 with h1 | ⟨h1, h1'⟩ <;> rcases h2 with h2 | ⟨h2, h2'⟩
  · exact Or.inl (by omega)
  · exact Or.inl (by omega)
  · exact Or.inl (by omega)
  · exact Or.inr ⟨by omega, List.le_trans h1' h2'⟩

theorem gle_antisymm (a b : Grp) (h1 : gle a b = true) (h2 : gle b a = true) :
    a.size = b.size ∧ a.tb = b.tb := by
  simp only [gle, Bool.or_eq_true, Bool.and_eq_true, decide_eq_true_eq, beq_iff_eq] at *
  rcases h1 with h1 | ⟨h1, h1'⟩ <;> rcases h2 with h2 | ⟨h2, h2'⟩
  · omega
  · omega
  · omega
  · exact ⟨h1, List.le_antisymm h1' h2'⟩

theorem gle_sortPkgs (a b : Grp) : gle (sortPkgs a) (sortPkgs b) = gle a b := rfl

/-! ### sorting a group's packages is canonical -/

theorem mergeSort_ple_congr {l l' : List LPkg} (h : l.Perm l') (hnd : (l.map (·.name)).Nodup) :
    l.mergeSort ple = l'.mergeSort ple := by
  refine List.Perm.eq_of_pairwise (le := fun a b => ple a b = true) ?_
    (List.pairwise_mergeSort ple_trans ple_total l) (List.pairwise_mergeSort ple_trans ple_total l')
    ((List.mergeSort_perm _ _).trans (h.trans (List.mergeSort_perm _ _).symm))
  intro a b ha hb hab hba
  have ha' : a ∈ l := List.mem_mergeSort.mp ha
  have hb' : b ∈ l := h.mem_iff.mpr (List.mem_mergeSort.mp hb)
  simp only [ple, decide_eq_true_eq] at hab hba
  exact inj_of_nodup_map (·.name) hnd ha' hb' (List.le_antisymm hab hba)

theorem sortPkgs_mkGrp_congr {r r' : List LPkg} (h : r.Perm r') (hnd : (r.map (·.name)).Nodup) :
    sortPkgs (mkGrp r) = sortPkgs (mkGrp r') := by
  apply grp_ext
  · rw [sortPkgs_pkgs, sortPkgs_pkgs, mkGrp_pkgs, mkGrp_pkgs]; exact mergeSort_ple_congr h hnd
  · exact mkGrp_size_perm h
  · exact mkGrp_tb_perm h

/-! ### distinct collected groups have distinct tiebreakers -/

theorem names_nodup_of_mem {raw : List (List LPkg)} (hnd : (raw.flatten.map (·.name)).Nodup)
    {r : List LPkg} (hr : r ∈ raw) : (r.map (·.name)).Nodup :=
  ((List.sublist_flatten_of_mem hr).map _).nodup hnd

theorem tbs_nodup (raw : List (List LPkg)) (hnd : (raw.flatten.map (·.name)).Nodup)
    (hne : ∀ r ∈ raw, r ≠ []) : (raw.map (fun r => (mkGrp r).tb)).Nodup := by
  induction raw with
  | nil => exact List.nodup_nil
  | cons r raw ih =>
    rw [List.flatten_cons, List.map_append, List.nodup_append] at hnd
    obtain ⟨_, hnd2, hdisj⟩ := hnd
    rw [List.map_cons, List.nodup_cons]
    refine ⟨?_, ih hnd2 (fun s hs => hne s (List.mem_cons_of_mem _ hs))⟩
    intro hmem
    obtain ⟨s, hs, hst⟩ := List.mem_map.mp hmem
    have h1 := mkGrp_tb_mem r (hne r (List.mem_cons_self ..))
    have h2 := mkGrp_tb_mem s (hne s (List.mem_cons_of_mem _ hs))
    have h3 : (mkGrp s).tb ∈ raw.flatten.map (·.name) :=
      ((List.sublist_flatten_of_mem hs).map _).subset h2
    exact hdisj _ h1 _ h3 hst.symm

/-! ### the canonicalised collected groups are the same up to permutation -/

/-- the collected groups with their packages sorted -/
def canonGrps (raw : List (List LPkg)) : List Grp := (raw.map mkGrp).map sortPkgs

theorem canonGrps_tb (raw : List (List LPkg)) :
    (canonGrps raw).map (·.tb) = raw.map (fun r => (mkGrp r).tb) := by
  simp [canonGrps, List.map_map, Function.comp_def, sortPkgs_tb]

theorem canonGrps_tb_nodup (raw : List (List LPkg)) (hnd : (raw.flatten.map (·.name)).Nodup)
    (hne : ∀ r ∈ raw, r ≠ []) : ((canonGrps raw).map (·.tb)).Nodup := by
  rw [canonGrps_tb]; exact tbs_nodup raw hnd hne

theorem canonGrps_perm (raw raw' : List (List LPkg))
    (hnd : (raw.flatten.map (·.name)).Nodup) (hnd' : (raw'.flatten.map (·.name)).Nodup)
    (hne : ∀ r ∈ raw, r ≠ []) (hne' : ∀ r ∈ raw', r ≠ [])
    (h3 : ∀ r ∈ raw, ∃ r' ∈ raw', r.Perm r') (h3' : ∀ r' ∈ raw', ∃ r ∈ raw, r.Perm r') :
    (canonGrps raw).Perm (canonGrps raw') := by
  have n1 : (canonGrps raw).Nodup := nodup_of_nodup_map (·.tb) (canonGrps_tb_nodup raw hnd hne)
  have n2 : (canonGrps raw').Nodup := nodup_of_nodup_map (·.tb) (canonGrps_tb_nodup raw' hnd' hne')
  rw [List.perm_ext_iff_of_nodup n1 n2]
  intro a
  simp only [canonGrps, List.mem_map]
  constructor
  · rintro ⟨_, ⟨r, hr, rfl⟩, rfl⟩
    obtain ⟨r', hr', hp⟩ := h3 r hr
    exact ⟨_, ⟨r', hr', rfl⟩, (sortPkgs_mkGrp_congr hp (names_nodup_of_mem hnd hr)).symm⟩
  · rintro ⟨_, ⟨r', hr', rfl⟩, rfl⟩
    obtain ⟨r, hr, hp⟩ := h3' r' hr'
    exact ⟨_, ⟨r, hr, rfl⟩, sortPkgs_mkGrp_congr hp (names_nodup_of_mem hnd hr)⟩

/-- the sorted group lists agree once each group's packages are sorted -/
theorem sorted_canon_eq (raw raw' : List (List LPkg))
    (hnd : (raw.flatten.map (·.name)).Nodup) (hnd' : (raw'.flatten.map (·.name)).Nodup)
    (hne : ∀ r ∈ raw, r ≠ []) (hne' : ∀ r ∈ raw', r ≠ [])
    (h3 : ∀ r ∈ raw, ∃ r' ∈ raw', r.Perm r') (h3' : ∀ r' ∈ raw', ∃ r ∈ raw, r.Perm r') :
    ((raw.map mkGrp).mergeSort gle).map sortPkgs = ((raw'.map mkGrp).mergeSort gle).map sortPkgs := by
  have hP : (((raw.map mkGrp).mergeSort gle).map sortPkgs).Perm (canonGrps raw) :=
    (List.mergeSort_perm _ _).map _
  have hP' : (((raw'.map mkGrp).mergeSort gle).map sortPkgs).Perm (canonGrps raw') :=
    (List.mergeSort_perm _ _).map _
  have hK := canonGrps_perm raw raw' hnd hnd' hne hne' h3 h3'
  refine List.Perm.eq_of_pairwise (le := fun a b => gle a b = true) ?_ ?_ ?_
    (hP.trans (hK.trans hP'.symm))
  · intro a b ha hb hab hba
    have ha' : a ∈ canonGrps raw := hP.mem_iff.mp ha
    have hb' : b ∈ canonGrps raw := hK.mem_iff.mpr (hP'.mem_iff.mp hb)
    exact inj_of_nodup_map (·.tb) (canonGrps_tb_nodup raw hnd hne) ha' hb'
      (gle_antisymm a b hab hba).2
  · rw [List.pairwise_map]
    exact List.pairwise_mergeSort gle_trans gle_total _
  · rw [List.pairwise_map]
    exact List.pairwise_mergeSort gle_trans gle_total _

/-! ### `cutGroups` followed by `sortPkgs` only depends on the canonicalised list -/

theorem mergeGrps_foldl (gs : List Grp) (m : Grp) :
    gs.foldl (fun m g => (⟨m.pkgs ++ g.pkgs, addU64 m.size g.size, tmax m.tb g.tb⟩ : Grp)) m
      = ⟨m.pkgs ++ gs.flatMap (·.pkgs), (gs.map (·.size)).foldl addU64 m.size,
          (gs.map (·.tb)).foldl tmax m.tb⟩ := by
  induction gs generalizing m with
  | nil => simp
  | cons g gs ih => simp only [List.foldl_cons, List.map_cons]; rw [ih]; simp [List.flatMap_cons]

theorem mergeGrps_size (gs : List Grp) : (mergeGrps gs).size = (gs.map (·.size)).foldl addU64 0 := by
  unfold mergeGrps; rw [mergeGrps_foldl]

theorem mergeGrps_tb (gs : List Grp) : (mergeGrps gs).tb = (gs.map (·.tb)).foldl tmax [] := by
  unfold mergeGrps; rw [mergeGrps_foldl]

theorem map_sortPkgs_size (gs : List Grp) : (gs.map sortPkgs).map (·.size) = gs.map (·.size) := by
  simp [List.map_map, Function.comp_def, sortPkgs_size]

theorem map_sortPkgs_tb (gs : List Grp) : (gs.map sortPkgs).map (·.tb) = gs.map (·.tb) := by
  simp [List.map_map, Function.comp_def, sortPkgs_tb]

theorem sortPkgs_mergeGrps_congr (D D' : List Grp) (h : D.map sortPkgs = D'.map sortPkgs)
    (hnd : ((D.flatMap (·.pkgs)).map (·.name)).Nodup) :
    sortPkgs (mergeGrps D) = sortPkgs (mergeGrps D') := by
  apply grp_ext
  · rw [sortPkgs_pkgs, sortPkgs_pkgs, mergeGrps_pkgs, mergeGrps_pkgs]
    refine mergeSort_ple_congr ?_ hnd
    exact (map_sortPkgs_flatMap D).symm.trans (h ▸ map_sortPkgs_flatMap D')
  · rw [sortPkgs_size, sortPkgs_size, mergeGrps_size, mergeGrps_size, ← map_sortPkgs_size D, h,
      map_sortPkgs_size]
  · rw [sortPkgs_tb, sortPkgs_tb, mergeGrps_tb, mergeGrps_tb, ← map_sortPkgs_tb D, h,
      map_sortPkgs_tb]

theorem cut_sort_congr (b : Nat) (S S' : List Grp) (h : S.map sortPkgs = S'.map sortPkgs)
    (hnd : ((S.flatMap (·.pkgs)).map (·.name)).Nodup) :
    (cutGroups b S).map sortPkgs = (cutGroups b S').map sortPkgs := by
  have hlen : S.length = S'.length := by simpa using congrArg List.length h
  unfold cutGroups
  rw [hlen]
  split
  · simp only [List.map_append, List.map_cons, List.map_nil, List.map_take, h]
    have : sortPkgs (mergeGrps (List.drop (b - 1) S)) = sortPkgs (mergeGrps (List.drop (b - 1) S')) := by
      apply sortPkgs_mergeGrps_congr
      · rw [List.map_drop, List.map_drop, h]
      · rw [← List.take_append_drop (b - 1) S, List.flatMap_append, List.map_append,
          List.nodup_append] at hnd
        exact hnd.2.1
    rw [this]
  · exact h

/-- F4: the result of `finishRaw` depends only on the *set* of collected groups, each taken as a
*set* of packages (collection order and the order inside each collected group are irrelevant) -/
theorem finishRaw_canon (raw raw' : List (List LPkg)) (b : Nat)
    (hnd : (raw.flatten.map (·.name)).Nodup) (hnd' : (raw'.flatten.map (·.name)).Nodup)
    (hne : ∀ r ∈ raw, r ≠ []) (hne' : ∀ r ∈ raw', r ≠ [])
    (h3 : ∀ r ∈ raw, ∃ r' ∈ raw', r.Perm r') (h3' : ∀ r' ∈ raw', ∃ r ∈ raw, r.Perm r') :
    finishRaw raw b = finishRaw raw' b := by
  unfold finishRaw
  apply cut_sort_congr
  · exact sorted_canon_eq raw raw' hnd hnd' hne hne' h3 h3'
  · have hp : (((raw.map mkGrp).mergeSort gle).flatMap (·.pkgs)).Perm raw.flatten := by
      rw [← map_mkGrp_flatMap]
      exact (List.mergeSort_perm _ _).flatMap_right _
    exact ((hp.map _).nodup_iff).mpr hnd

/-- shape of a successful run, in terms of `finishRaw` -/
theorem ok_shape_raw {pkgs : List LPkg} {budget : Int} {o1 o2 o3 o4 : Order} {gs : List Grp}
    (h : groupByOriginAndSize pkgs budget o1 o2 o3 o4 = .ok gs) :
    0 ≤ budget ∧ ∃ st4,
      phase4 o3 (phase3 o2 (phase2 o1 (phase1 pkgs))) (phase2 o1 (phase1 pkgs)) = .ok st4 ∧
      gs = finishRaw ((finalIds o4 st4).map st4.grp) budget.toNat := by
  obtain ⟨hb, st4, h4, rfl⟩ := ok_shape h
  exact ⟨hb, st4, h4, finish_eq_finishRaw _ _ _⟩

end Apko.C10
