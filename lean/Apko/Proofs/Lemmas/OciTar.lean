/-
Helper lemmas for C12: the block-level tar model (reader over written archives, header scan,
overwrite at an offset).
-/
import Apko.Model.Oci

namespace Apko.Oci

theorem length_enc (e : Entry) : (enc e).length = 1 + dataBlocks e.size := by
  simp [enc]; omega

/-- number of blocks the entries occupy -/
def blocksOf : List Entry → Nat
  | [] => 0
  | e :: es => 1 + dataBlocks e.size + blocksOf es

theorem length_encAll (es : List Entry) : (encAll es).length = blocksOf es := by
  induction es with
  | nil => rfl
  | cons e es ih => simp [encAll, blocksOf, length_enc, ih]

theorem length_le_blocksOf (es : List Entry) : es.length ≤ blocksOf es := by
  induction es with
  | nil => simp [blocksOf]
  | cons e es ih => simp [blocksOf]; omega

/-- positions (stream offset after the header) of the entries of a written archive starting at block `i` -/
def positions : Nat → List Entry → List (Entry × Nat)
  | _, [] => []
  | i, e :: es => (e, 512 * (i + 1)) :: positions (i + 1 + dataBlocks e.size) es

theorem map_fst_positions (i : Nat) (es : List Entry) : (positions i es).map (·.1) = es := by
  induction es generalizing i with
  | nil => rfl
  | cons e es ih => simp [positions, ih]

theorem readPos_enc (f i : Nat) (e : Entry) (rest : List Block) :
    readPos (f + 1) i (enc e ++ rest) =
      (readPos f (i + 1 + dataBlocks e.size) rest).map (fun l => (e, 512 * (i + 1)) :: l) := by
  simp only [enc, List.cons_append, readPos]
  have h1 : ¬ (List.replicate (dataBlocks e.size) Block.data ++ rest).length < dataBlocks e.size := by
    simp
  have h2 : List.drop (dataBlocks e.size) (List.replicate (dataBlocks e.size) Block.data ++ rest) = rest := by
    have := List.drop_left (l₁ := List.replicate (dataBlocks e.size) Block.data) (l₂ := rest)
    rw [List.length_replicate] at this; exact this
  rw [if_neg h1, h2]

/-- reading what the writer wrote: entries, then the two zero blocks, then anything -/
theorem readPos_written (es : List Entry) (tail : List Block) (f i : Nat) (hf : es.length < f) :
    readPos f i (encAll es ++ trailer ++ tail) = some (positions i es) := by
  induction es generalizing f i with
  | nil =>
    cases f with
    | zero => simp at hf
    | succ f => simp [encAll, trailer, readPos, positions]
  | cons e es ih =>
    cases f with
    | zero => simp at hf
    | succ f =>
      simp only [encAll, List.append_assoc]
      rw [readPos_enc]
      have := ih f (i + 1 + dataBlocks e.size) (by simpa using hf)
      simp only [List.append_assoc] at this
      rw [this]; simp [positions]

theorem readWithPos_written (es : List Entry) :
    readWithPos (encAll es ++ trailer) = some (positions 0 es) := by
  have := readPos_written es [] ((encAll es ++ trailer).length + 1) 0 (by
    have := length_le_blocksOf es
    simp [length_encAll]; omega)
  simpa [readWithPos] using this

/-- a standard reader reads a closed archive back -/
theorem readArchive_written (es : List Entry) : readArchive (encAll es ++ trailer) = some es := by
  simp [readArchive, readWithPos_written, map_fst_positions]

/-- the header scan ends on the last entry: its data ends inside the last block the entries occupy -/
theorem lastPosSize_positions (i : Nat) (es : List Entry) (hne : es ≠ []) :
    Spec.nextBoundary ((lastPosSize (positions i es)).1 + (lastPosSize (positions i es)).2)
      = 512 * (i + blocksOf es) := by
  induction es generalizing i with
  | nil => exact absurd rfl hne
  | cons e es ih =>
    cases es with
    | nil =>
      simp only [positions, lastPosSize, List.getLast?_singleton, blocksOf, Spec.nextBoundary, dataBlocks]
      omega
    | cons e' es' =>
      have h := ih (i + 1 + dataBlocks e.size) (by simp)
      have hl : lastPosSize (positions i (e :: e' :: es')) =
          lastPosSize (positions (i + 1 + dataBlocks e.size) (e' :: es')) := by
        simp only [positions, lastPosSize, List.getLast?_cons_cons]
      rw [hl, h]
      simp only [blocksOf]; omega

theorem overwriteAt_end (a b new : List Block) (hb : b.length ≤ new.length) :
    overwriteAt (a ++ b) a.length new = a ++ new := by
  unfold overwriteAt
  have h1 : List.take a.length (a ++ b) = a := List.take_left
  have h2 : a.length - (a ++ b).length = 0 := by simp
  have h3 : List.drop (a.length + new.length) (a ++ b) = [] := by
    apply List.drop_eq_nil_of_le; simp; omega
  rw [h1, h2, h3]; simp

end Apko.Oci

namespace Apko.Oci

/-! ### MultiWrite: every layer of every image ends up in the archive despite the de-duplication -/

theorem writeLayers_spec (seen : List Text) (ls : List (Text × Nat)) :
    (∀ n ∈ (writeLayers seen ls).2, n ∈ seen ∨ n ∈ (writeLayers seen ls).1.map (·.name)) ∧
    (∀ n ∈ seen, n ∈ (writeLayers seen ls).2) ∧
    (∀ l ∈ ls, l.1 ∈ (writeLayers seen ls).2) := by
  induction ls generalizing seen with
  | nil => simp [writeLayers]
  | cons l ls ih =>
    simp only [writeLayers]
    split
    · next h =>
      obtain ⟨h1, h2, h3⟩ := ih seen
      refine ⟨h1, h2, ?_⟩
      intro x hx
      rcases List.mem_cons.mp hx with rfl | hx
      · exact h2 _ h
      · exact h3 x hx
    · next h =>
      obtain ⟨h1, h2, h3⟩ := ih (l.1 :: seen)
      refine ⟨?_, ?_, ?_⟩
      · intro n hn
        rcases h1 n hn with h' | h'
        · rcases List.mem_cons.mp h' with rfl | h'
          · right; simp
          · left; exact h'
        · right; simp only [List.map_cons, List.mem_cons]; right; exact h'
      · intro n hn; exact h2 n (List.mem_cons_of_mem _ hn)
      · intro x hx
        rcases List.mem_cons.mp hx with rfl | hx
        · exact h2 _ List.mem_cons_self
        · exact h3 x hx

/-- invariant of the image loop: a name already seen stays available, and the blobs of every image
are among the names seen before or written now -/
theorem writeImages_holds (seen : List Text) (imgs : List Img) :
    ∀ im ∈ imgs, im.cfgName ∈ (writeImages seen imgs).map (·.name) ∧
      ∀ l ∈ im.layers, l.1 ∈ seen ∨ l.1 ∈ (writeImages seen imgs).map (·.name) := by
  induction imgs generalizing seen with
  | nil => intro im h; cases h
  | cons x rest ih =>
    intro im him
    obtain ⟨h1, h2, h3⟩ := writeLayers_spec seen x.layers
    simp only [writeImages, List.map_cons, List.map_append, List.mem_cons, List.mem_append]
    rcases List.mem_cons.mp him with rfl | him
    · refine ⟨Or.inl (Or.inl rfl), ?_⟩
      intro l hl
      rcases h1 _ (h3 l hl) with h | h
      · exact Or.inl h
      · exact Or.inr (Or.inl (Or.inr h))
    · obtain ⟨a, b⟩ := ih (writeLayers seen x.layers).2 im him
      refine ⟨Or.inr a, ?_⟩
      intro l hl
      rcases b l hl with h | h
      · rcases h1 _ h with h' | h'
        · exact Or.inl h'
        · exact Or.inr (Or.inl (Or.inr h'))
      · exact Or.inr (Or.inr h)

theorem multiWrite_holds (imgs : List Img) (msize : Nat) :
    ∀ im ∈ imgs, Spec.HoldsImage ((multiWrite imgs msize).map (·.name)) im := by
  intro im him
  obtain ⟨a, b⟩ := writeImages_holds [] imgs im him
  refine ⟨by simp [multiWrite]; exact Or.inl (by simpa using a), ?_⟩
  intro l hl
  rcases b l hl with h | h
  · cases h
  · simp only [multiWrite, List.map_append, List.mem_append]; exact Or.inl h

end Apko.Oci
