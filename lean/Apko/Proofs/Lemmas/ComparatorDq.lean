/-
Lifting `bestPackage_order_irrelevant` to whole resolutions, part 1: the disqualified set.
Every other use of `nameMap` folds over it adding ids to `dq` (`constrain`,
`disqualifyProviders`, `disqualifyConflicts`), so two orders give `dq` lists with the same MEMBERS
(`DqEq`), and the resolver reads `dq` through membership only.
-/
import Apko.Proofs.Lemmas.ComparatorNameMap

namespace Apko.Cmp
open Apko Apko.Resolver

/-- two configurations that differ only in the map iteration order, with the repaired comparator -/
structure CfgRel (c₁ c₂ : Cfg) : Prop where
  u : c₁.u = c₂.u
  order : c₁.order.Perm c₂.order
  bb₁ : c₁.bothBad = .eq
  bb₂ : c₂.bothBad = .eq
  iif : c₁.installIfFixed = c₂.installIfFixed
  ao : c₁.addedOrder = c₂.addedOrder

theorem CfgRel.nm {c₁ c₂ : Cfg} (h : CfgRel c₁ c₂) (n : Text) : NameStable (c₁.nm n) (c₂.nm n) := by
  unfold Cfg.nm; rw [h.u]; exact nameMap_order_irrelevant c₂.u _ _ h.order n

/-- the same set of disqualified ids -/
def DqEq (d₁ d₂ : List Nat) : Prop := ∀ x, x ∈ d₁ ↔ x ∈ d₂

theorem DqEq.refl (d : List Nat) : DqEq d d := fun _ => Iff.rfl

theorem DqEq.contains {d₁ d₂ : List Nat} (h : DqEq d₁ d₂) (x : Nat) : d₁.contains x = d₂.contains x := by
  rw [Bool.eq_iff_iff, List.contains_iff_mem, List.contains_iff_mem]; exact h x

theorem mem_dqAdd (d : List Nat) (i x : Nat) : x ∈ dqAdd d i ↔ x ∈ d ∨ x = i := by
  unfold dqAdd
  split
  · next h =>
    rw [List.contains_iff_mem] at h
    constructor
    · exact Or.inl
    · rintro (h' | rfl); exact h'; exact h
  · simp

/-! ## relations on results -/

inductive ResRel {α : Type} (R : α → α → Prop) : Res α → Res α → Prop
  | ok {a b} : R a b → ResRel R (.ok a) (.ok b)
  | err : ResRel R .err .err
  | outOfFuel : ResRel R .outOfFuel .outOfFuel

theorem ResRel.eq {α : Type} {x y : Res α} (h : ResRel Eq x y) : x = y := by
  cases h with
  | ok h => rw [h]
  | err => rfl
  | outOfFuel => rfl

theorem OptRel.eq {α : Type} {x y : Option α} (h : OptRel Eq x y) : x = y := by
  cases x <;> cases y <;> simp_all [OptRel]

/-! ## filterPackages reads `dq` through membership -/

theorem keepPkg_dq {d₁ d₂ : List Nat} (h : DqEq d₁ d₂) (version : Text) (dep : Dep)
    (allowPin preferPin : Text) (installed : Option Pkg) :
    keepPkg d₁ version dep allowPin preferPin installed = keepPkg d₂ version dep allowPin preferPin installed := by
  funext p; unfold keepPkg; rw [h.contains]

theorem filterPackages_rel {l₁ l₂ : List Pkg} (h : NameStable l₁ l₂) {d₁ d₂ : List Nat} (hd : DqEq d₁ d₂)
    (version : Text) (dep : Dep) (allowPin preferPin : Text) (installed : Option Pkg) :
    NameStable (filterPackages l₁ d₁ version dep allowPin preferPin installed)
      (filterPackages l₂ d₂ version dep allowPin preferPin installed) := by
  rw [filterPackages_eq_filter, filterPackages_eq_filter, keepPkg_dq hd]; exact h.filter _

/-! ## folds that add ids -/

/-- a fold step over candidates that can only add the candidate's own id, under a condition that
does not depend on the accumulator -/
def AddsById (step : List Nat → Pkg → List Nat) (B : Pkg → Bool) : Prop :=
  ∀ d q x, x ∈ step d q ↔ x ∈ d ∨ (B q = true ∧ x = q.id)

theorem mem_foldl_adds {step : List Nat → Pkg → List Nat} {B : Pkg → Bool} (hs : AddsById step B)
    (l : List Pkg) (d : List Nat) (x : Nat) :
    x ∈ l.foldl step d ↔ x ∈ d ∨ ∃ q ∈ l, B q = true ∧ x = q.id := by
  induction l generalizing d with
  | nil => simp
  | cons q qs ih =>
    rw [List.foldl_cons, ih, hs]
    constructor
    · rintro ((h | h) | ⟨q', hq', h⟩)
      · exact Or.inl h
      · exact Or.inr ⟨q, by simp, h⟩
      · exact Or.inr ⟨q', by simp [hq'], h⟩
    · rintro (h | ⟨q', hq', h⟩)
      · exact Or.inl (Or.inl h)
      · rcases List.mem_cons.mp hq' with rfl | hq'
        · exact Or.inl (Or.inr h)
        · exact Or.inr ⟨q', hq', h⟩

theorem foldl_adds_rel {step : List Nat → Pkg → List Nat} {B : Pkg → Bool} (hs : AddsById step B)
    {l₁ l₂ : List Pkg} (hl : ∀ q, q ∈ l₁ ↔ q ∈ l₂) {d₁ d₂ : List Nat} (hd : DqEq d₁ d₂) :
    DqEq (l₁.foldl step d₁) (l₂.foldl step d₂) := by
  intro x
  rw [mem_foldl_adds hs, mem_foldl_adds hs, hd x]
  constructor
  · rintro (h | ⟨q, hq, h⟩)
    · exact Or.inl h
    · exact Or.inr ⟨q, (hl q).mp hq, h⟩
  · rintro (h | ⟨q, hq, h⟩)
    · exact Or.inl h
    · exact Or.inr ⟨q, (hl q).mpr hq, h⟩

/-! ## disqualifyProviders / constrain -/

theorem disqualifyProviders_rel {c₁ c₂ : Cfg} (hc : CfgRel c₁ c₂) (con : Text) {d₁ d₂ : List Nat}
    (hd : DqEq d₁ d₂) : DqEq (disqualifyProviders c₁ con d₁) (disqualifyProviders c₂ con d₂) := by
  unfold disqualifyProviders
  simp only [hc.u]
  split
  · exact hd
  · apply foldl_adds_rel (B := fun _ => true) _ _ hd
    · intro d q x; rw [mem_dqAdd]; simp
    · exact (filterPackages_rel (hc.nm _) hd ..).mem_iff

/-- the condition under which `constrain` disqualifies a candidate of `nameMap[p.name]` -/
def constrainB (p : Constraint) (req : Version) (prov : Pkg) : Bool :=
  if prov.name = p.name then
    match pv prov.version with
    | none => true
    | some act => !p.dep.satisfies act req
  else
    prov.provides.any fun pr =>
      let pp := parseConstraint pr
      pp.name = p.name && match pv pp.version with
        | none => true
        | some act => !p.dep.satisfies act req

def constrainStep (p : Constraint) (req : Version) (d : List Nat) (prov : Pkg) : List Nat :=
  if prov.name = p.name then
    match pv prov.version with
    | none => dqAdd d prov.id
    | some act => if !p.dep.satisfies act req then dqAdd d prov.id else d
  else
    prov.provides.foldl (fun d' pr =>
      let pp := parseConstraint pr
      if pp.name != p.name then d'
      else match pv pp.version with
        | none => dqAdd d' prov.id
        | some act => if !p.dep.satisfies act req then dqAdd d' prov.id else d') d

theorem constrainStep_adds (p : Constraint) (req : Version) :
    AddsById (constrainStep p req) (constrainB p req) := by
  intro d q x
  unfold constrainStep constrainB
  by_cases hn : q.name = p.name
  · simp only [hn, if_true]
    cases pv q.version with
    | none => simp [mem_dqAdd]
    | some act =>
      by_cases hs : p.dep.satisfies act req <;> simp [hs, mem_dqAdd]
  · simp only [hn, if_false]
    generalize q.provides = prs
    induction prs generalizing d with
    | nil => simp
    | cons pr rest ih =>
      rw [List.foldl_cons, ih, List.any_cons]
      by_cases hpn : (parseConstraint pr).name = p.name
      · simp only [hpn, bne_self_eq_false, Bool.false_eq_true, if_false, decide_true, Bool.true_and]
        cases pv (parseConstraint pr).version with
        | none => simp only [mem_dqAdd, Bool.true_or, true_and]; grind
        | some act =>
          by_cases hs : p.dep.satisfies act req
          · simp [hs]
          · simp only [hs, Bool.not_false, if_true, mem_dqAdd, Bool.true_or, true_and]; grind
      · have : ((parseConstraint pr).name != p.name) = true := by simp [hpn]
        simp [this, hpn]

theorem constrain_rel {c₁ c₂ : Cfg} (hc : CfgRel c₁ c₂) (cons : List Text) {d₁ d₂ : List Nat}
    (hd : DqEq d₁ d₂) : OptRel DqEq (constrain c₁ cons d₁) (constrain c₂ cons d₂) := by
  induction cons generalizing d₁ d₂ with
  | nil => exact hd
  | cons con rest ih =>
    unfold constrain
    split
    · exact ih (disqualifyProviders_rel hc _ hd)
    · simp only [hc.u]
      split
      · exact ih hd
      · split
        · exact ih hd
        · split
          · trivial
          · next req _ =>
            apply ih
            exact foldl_adds_rel (constrainStep_adds (parseConstraint con) req) (hc.nm _).mem_iff hd

/-! ## disqualifyConflicts -/

theorem mem_nameMap {u : Universe} {order : List Text} {name : Text} {q : Pkg}
    (h : q ∈ nameMap u order name) :
    q.name = name ∨ ∃ pr ∈ q.provides, provName pr = name := by
  unfold nameMap at h
  simp only [List.mem_append, List.mem_filter, List.mem_flatMap, List.mem_map, decide_eq_true_eq] at h
  rcases h with ⟨_, h⟩ | ⟨n, _, p, _, pr, ⟨hpr, hn⟩, rfl⟩
  · exact Or.inl h
  · exact Or.inr ⟨pr, hpr, hn⟩

/-- `conflictingVersion` cannot "panic" on a member of `nameMap[con.name]` -/
theorem conflictingVersion_isSome {u : Universe} {order : List Text} (con : Constraint) {q : Pkg}
    (h : q ∈ nameMap u order con.name) : ∃ b, conflictingVersion con q = some b := by
  unfold conflictingVersion
  split
  · exact ⟨_, rfl⟩
  · split
    · exact ⟨_, rfl⟩
    · next hne =>
      rcases mem_nameMap h with h | ⟨pr, hpr, hn⟩
      · exact absurd h hne
      · cases hf : q.provides.find? (fun pr => provName pr = con.name) with
        | none =>
          rw [List.find?_eq_none] at hf
          exact absurd (by simpa using hn) (hf pr hpr)
        | some pr' => exact ⟨_, rfl⟩

def conflictStep (pkg : Pkg) (con : Constraint) (d : List Nat) (conflict : Pkg) : List Nat :=
  if conflict.id = pkg.id then d
  else if d.contains conflict.id then d
  else match conflictingVersion con conflict with
    | some true => dqAdd d conflict.id
    | _ => d

def conflictB (pkg : Pkg) (con : Constraint) (conflict : Pkg) : Bool :=
  conflict.id != pkg.id && conflictingVersion con conflict == some true

theorem conflictStep_adds (pkg : Pkg) (con : Constraint) :
    AddsById (conflictStep pkg con) (conflictB pkg con) := by
  intro d q x
  unfold conflictStep conflictB
  by_cases h1 : q.id = pkg.id
  · simp [h1]
  · simp only [h1, if_false]
    by_cases h2 : d.contains q.id = true
    · simp only [h2, if_true]
      rw [List.contains_iff_mem] at h2
      constructor
      · exact Or.inl
      · rintro (h | ⟨_, rfl⟩); exact h; exact h2
    · simp only [h2]
      cases hcv : conflictingVersion con q with
      | none => simp
      | some b => cases b <;> simp [mem_dqAdd, h1]

theorem foldlM_eq_foldl {α β : Type} (f : β → α → Option β) (g : β → α → β) (l : List α)
    (h : ∀ a ∈ l, ∀ b, f b a = some (g b a)) (b : β) : l.foldlM f b = some (l.foldl g b) := by
  induction l generalizing b with
  | nil => rfl
  | cons a as ih =>
    rw [List.foldlM_cons, h a (by simp) b]
    exact ih (fun a' ha' => h a' (List.mem_cons_of_mem _ ha')) _

/-- one step of the outer fold of `disqualifyConflicts` (over the provides of the chosen package) -/
def dcStep (c : Cfg) (pkg : Pkg) (d : List Nat) (prov : Text) : Option (List Nat) :=
  let con := parseConstraint prov
  if !hasName c.u con.name then some d else
  (c.nm con.name).foldlM (fun d' conflict =>
    if conflict.id = pkg.id then some d'
    else if d'.contains conflict.id then some d'
    else match conflictingVersion con conflict with
      | none => none
      | some false => some d'
      | some true => some (dqAdd d' conflict.id)) d

theorem disqualifyConflicts_eq (c : Cfg) (pkg : Pkg) (dq : List Nat) :
    disqualifyConflicts c pkg dq = pkg.provides.foldlM (dcStep c pkg) dq := rfl

theorem dcStep_eq (c : Cfg) (pkg : Pkg) (d : List Nat) (prov : Text) :
    dcStep c pkg d prov =
      if !hasName c.u (parseConstraint prov).name then some d
      else some ((c.nm (parseConstraint prov).name).foldl (conflictStep pkg (parseConstraint prov)) d) := by
  unfold dcStep
  simp only []
  split
  · rfl
  · apply foldlM_eq_foldl
    intro q hq d'
    unfold conflictStep
    obtain ⟨b, hb⟩ := conflictingVersion_isSome (parseConstraint prov) hq
    split
    · rfl
    · split
      · rfl
      · rw [hb]; cases b <;> rfl

theorem disqualifyConflicts_rel {c₁ c₂ : Cfg} (hc : CfgRel c₁ c₂) (pkg : Pkg) {d₁ d₂ : List Nat}
    (hd : DqEq d₁ d₂) : OptRel DqEq (disqualifyConflicts c₁ pkg d₁) (disqualifyConflicts c₂ pkg d₂) := by
  rw [disqualifyConflicts_eq, disqualifyConflicts_eq]
  generalize pkg.provides = prs
  induction prs generalizing d₁ d₂ with
  | nil => exact hd
  | cons pr rest ih =>
    rw [List.foldlM_cons, List.foldlM_cons, dcStep_eq, dcStep_eq, hc.u]
    by_cases hn : hasName c₂.u (parseConstraint pr).name
    · simp only [hn, Bool.not_true, Bool.false_eq_true, if_false]
      exact ih (foldl_adds_rel (conflictStep_adds pkg _) (hc.nm _).mem_iff hd)
    · simp only [hn]
      exact ih hd

/-! ## candidates / resolvePackage / nextPackage / worldLoop -/

theorem candidates_rel {c₁ c₂ : Cfg} (hc : CfgRel c₁ c₂) (pkgName : Text) {d₁ d₂ : List Nat}
    (hd : DqEq d₁ d₂) : OptRel NameStable (candidates c₁ pkgName d₁) (candidates c₂ pkgName d₂) := by
  unfold candidates
  simp only [hc.u]
  by_cases hn : hasName c₂.u (parseConstraint pkgName).name
  · simp only [hn, Bool.not_true, Bool.false_eq_true, if_false]
    exact optRel_nonempty (filterPackages_rel (hc.nm _) hd ..)
  · simp [hn, OptRel]

theorem resolvePackage_rel {c₁ c₂ : Cfg} (hc : CfgRel c₁ c₂) (pkgName : Text) {d₁ d₂ : List Nat}
    (hd : DqEq d₁ d₂) : resolvePackage c₁ pkgName d₁ = resolvePackage c₂ pkgName d₂ := by
  have h := candidates_rel hc pkgName hd
  unfold resolvePackage
  generalize candidates c₁ pkgName d₁ = r₁ at h
  generalize candidates c₂ pkgName d₂ = r₂ at h
  match r₁, r₂, h with
  | none, none, _ => rfl
  | some l₁, some l₂, h =>
    show minFunc (comparePackages c₁.bothBad _ _ [] []) l₁ = minFunc (comparePackages c₂.bothBad _ _ [] []) l₂
    rw [hc.bb₁, hc.bb₂]; exact minFunc_nameStable h ..
  | some _, none, h => exact False.elim h
  | none, some _, h => exact False.elim h

theorem nextPackage_go_rel {c₁ c₂ : Cfg} (hc : CfgRel c₁ c₂) {d₁ d₂ : List Nat} (hd : DqEq d₁ d₂)
    (ps : List Text) (best : Option (Text × Nat)) :
    nextPackage.go c₁ d₁ ps best = nextPackage.go c₂ d₂ ps best := by
  induction ps generalizing best with
  | nil => rfl
  | cons p ps ih =>
    unfold nextPackage.go
    have h := candidates_rel hc p hd
    generalize candidates c₁ p d₁ = r₁ at h
    generalize candidates c₂ p d₂ = r₂ at h
    match r₁, r₂, h with
    | none, none, _ => rfl
    | some l₁, some l₂, h =>
      simp only [h.length_eq]
      cases best with
      | none => exact ih _
      | some bn => simp only [ih]
    | some _, none, h => exact False.elim h
    | none, some _, h => exact False.elim h

theorem nextPackage_rel {c₁ c₂ : Cfg} (hc : CfgRel c₁ c₂) (ps : List Text) {d₁ d₂ : List Nat}
    (hd : DqEq d₁ d₂) : nextPackage c₁ ps d₁ = nextPackage c₂ ps d₂ := by
  unfold nextPackage; rw [nextPackage_go_rel hc hd]

theorem worldLoop_rel {c₁ c₂ : Cfg} (hc : CfgRel c₁ c₂) (fuel : Nat) (cs : List Text)
    (m : List (Text × Pkg)) {d₁ d₂ : List Nat} (hd : DqEq d₁ d₂) :
    ResRel (fun a b => a.1 = b.1 ∧ DqEq a.2 b.2) (worldLoop c₁ fuel cs m d₁) (worldLoop c₂ fuel cs m d₂) := by
  induction fuel generalizing cs m d₁ d₂ with
  | zero => exact .outOfFuel
  | succ fuel ih =>
    unfold worldLoop
    split
    · exact .ok ⟨rfl, hd⟩
    · rw [nextPackage_rel hc cs hd]
      cases nextPackage c₂ cs d₂ with
      | none => exact .err
      | some next =>
        simp only []
        rw [resolvePackage_rel hc next hd]
        cases resolvePackage c₂ next d₂ with
        | none => exact .err
        | some pkg =>
          simp only []
          have h := disqualifyConflicts_rel hc pkg hd
          generalize disqualifyConflicts c₁ pkg d₁ = r₁ at h
          generalize disqualifyConflicts c₂ pkg d₂ = r₂ at h
          match r₁, r₂, h with
          | none, none, _ => exact .err
          | some e₁, some e₂, h => exact ih _ _ h
          | some _, none, h => exact False.elim h
          | none, some _, h => exact False.elim h

end Apko.Cmp
