/-
C08 — a lazily filled field on a shared object (Model/LazyCell.lean).

* `lazy_atomic_transparent`        with the assignment as one step (sync.Once / atomic / lock), for EVERY
                                    number of goroutines and EVERY schedule, every finished accessor
                                    returned the computed value and the cell is empty or complete;
* `lazy_sequential_transparent`    the accessor as written (word-by-word store) is transparent for every
                                    SEQUENTIAL history — which is why no sequential history, and no
                                    concurrent one that starts after the field was filled, can show it;
* `lazy_unsync_torn_read`          two goroutines that touch the object for the first time at once: there
                                    is a schedule in which a reader finds the pointer set and the length
                                    still zero and takes the object to provide NOTHING (the negation of
                                    transparency for the accessor as written; witness by evaluation);
* `lazy_unsync_not_transparent`    the full statement (every schedule gives the computed value) is false
                                    for the unsynchronised accessor.
The code has no such field: `AliasTable.shared_object_methods_read_only`, `shared_objects_never_written`
over the regenerated write-site inventory.  The purity suite's p.conc histories (concurrent FIRST touch
of fresh shared index objects, under the race detector) are the run-time side.
-/
import Apko.Model.LazyCell

namespace Apko.C08.AliasLazy
open Apko.LazyCell

/-- the cell is untouched or completely written -/
def CellOk {α : Type} (v : List α) (c : Cell α) : Prop := c = Cell.empty ∨ c = ⟨some v, v.length⟩

/-- a finished accessor returned the computed value -/
def PCOk {α : Type} (v : List α) : PC α → Prop
  | .done r => r = v
  | _ => True

theorem view_empty {α : Type} : (Cell.empty : Cell α).view = none := rfl

theorem view_full {α : Type} (v : List α) : (⟨some v, v.length⟩ : Cell α).view = some v := by
  simp [Cell.view]

theorem stepAtomic_ok {α : Type} (v : List α) (c : Cell α) (p : PC α)
    (hc : CellOk v c) (hp : PCOk v p) :
    CellOk v (stepAtomic v c p).1 ∧ PCOk v (stepAtomic v c p).2 := by
  cases p with
  | start =>
    rcases hc with h | h
    · subst h; simp [stepAtomic, view_empty, CellOk, PCOk]
    · subst h; simp [stepAtomic, view_full, CellOk, PCOk]
  | sawNil => simp [stepAtomic, CellOk, PCOk]
  | wrotePtr => simp [stepAtomic, CellOk, PCOk]
  | done r => exact ⟨hc, hp⟩

/-- T (all goroutine counts, all schedules): with an atomic assignment every finished accessor returned the
computed value, whoever filled the field -/
theorem lazy_atomic_transparent {α : Type} (v : List α) (sched : List Nat) :
    ∀ (c : Cell α) (ps : List (PC α)), CellOk v c → (∀ p ∈ ps, PCOk v p) →
      CellOk v (run (stepAtomic v) sched c ps).1 ∧ ∀ p ∈ (run (stepAtomic v) sched c ps).2, PCOk v p := by
  induction sched with
  | nil => intro c ps hc hps; exact ⟨hc, hps⟩
  | cons i rest ih =>
    intro c ps hc hps
    unfold run
    cases hi : ps[i]? with
    | none => exact ih c ps hc hps
    | some p =>
      have hp : PCOk v p := hps p (List.mem_of_getElem? hi)
      have hs := stepAtomic_ok v c p hc hp
      simp only []
      apply ih _ _ hs.1
      intro q hq
      rcases List.mem_or_eq_of_mem_set hq with h | h
      · exact hps q h
      · subst h; exact hs.2

/-- started from scratch: `n` goroutines at `start`, an empty cell -/
theorem lazy_atomic_from_scratch {α : Type} (v : List α) (n : Nat) (sched : List Nat) :
    ∀ p ∈ (run (stepAtomic v) sched Cell.empty (List.replicate n PC.start)).2, PCOk v p := by
  apply (lazy_atomic_transparent v sched Cell.empty _ (Or.inl rfl) _).2
  intro p hp
  rw [List.eq_of_mem_replicate hp]
  trivial

theorem complete_ok {α : Type} (v : List α) (c : Cell α) (hc : CellOk v c) :
    (complete v c).1 = ⟨some v, v.length⟩ ∧ (complete v c).2 = .done v := by
  rcases hc with h | h
  · subst h; exact ⟨rfl, rfl⟩
  · subst h
    have h1 : stepUnsync v ⟨some v, v.length⟩ .start = (⟨some v, v.length⟩, .done v) := by
      simp [stepUnsync, view_full]
    unfold complete
    rw [h1]
    exact ⟨rfl, rfl⟩

/-- T (every sequential history): the accessor as written returns the computed value every time -/
theorem lazy_sequential_transparent {α : Type} (v : List α) (n : Nat) :
    ∀ (c : Cell α), CellOk v c →
      CellOk v (sequential v n c).1 ∧ ∀ p ∈ (sequential v n c).2, p = .done v := by
  induction n with
  | zero => intro c hc; exact ⟨hc, by simp [sequential]⟩
  | succ n ih =>
    intro c hc
    have h := complete_ok v c hc
    have h2 := ih (complete v c).1 (Or.inr h.1)
    simp only [sequential]
    refine ⟨h2.1, ?_⟩
    intro p hp
    rcases List.mem_cons.mp hp with e | e
    · rw [e]; exact h.2
    · exact h2.2 p e

/-- the full statement for the accessor as written: every schedule gives every goroutine the computed value -/
def UnsyncTransparent : Prop :=
  ∀ (v : List Nat) (n : Nat) (sched : List Nat),
    ∀ p ∈ (run (stepUnsync v) sched Cell.empty (List.replicate n PC.start)).2, PCOk v p

/-- witness: goroutine 0 tests the field and stores the pointer word; goroutine 1 reads the header before the
length word is stored — pointer set, length 0 — and returns the EMPTY list: "provides nothing" -/
theorem lazy_unsync_torn_read :
    run (stepUnsync [7]) [0, 0, 1] Cell.empty [PC.start, PC.start]
      = (⟨some [7], 0⟩, [PC.wrotePtr, PC.done []]) := by decide

theorem lazy_unsync_not_transparent : ¬ UnsyncTransparent := by
  intro h
  have h1 : PCOk [7] (PC.done ([] : List Nat)) := h [7] 2 [0, 0, 1] (PC.done []) (by decide)
  have h2 : ([] : List Nat) = [7] := h1
  exact absurd h2 (by decide)

/-- the hypotheses of the positive theorems are met by a non-trivial run: three goroutines, all interleaved -/
example : (run (stepAtomic [7, 8]) [0, 1, 2, 0, 1, 2, 2] Cell.empty [PC.start, PC.start, PC.start]).2
    = [PC.done [7, 8], PC.done [7, 8], PC.done [7, 8]] := by decide

end Apko.C08.AliasLazy
