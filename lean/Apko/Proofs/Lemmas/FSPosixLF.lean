import Apko.Proofs.Lemmas.FSPosixSim
/-! Impl resolution against POSIX resolution, part 4: **exact agreement with relative targets that are
only met under link-free prefixes**.

"Met under a link-free prefix" is a property of Impl's run: when a component loop (at any nesting level)
reaches a link with a relative target, it has not followed a link before in that loop — the traversed
prefix is the real path of the directory that holds the link.  `safeL` is that condition as a Boolean
function running along Impl's (string-free) loop `walkL`/`getL`; `relPrefixesLinkFree fs p` is the condition
for the lookup of `p`.  Under it the prefix is walked again without meeting a link, hence without touching
the counter, and the two answers are *equal*, `ELOOP` included (`getNode_eq_of_linkFree`).  When every
target is absolute the condition holds trivially (`safeL_of_abs`). -/
namespace Apko.FS
open Apko Apko.Path

/-- walk over directory entries that are not links -/
def plainTo (fs : FS) : List Name → Ino → Option Ino
  | [], node => some node
  | part :: rest, node =>
    if !(fs.node node).dir then none else
    match fs.lookup node part with
    | none => none
    | some child => if (fs.node child).isSymlink then none else plainTo fs rest child

/-- the decomposition of a successful plain step -/
theorem plainTo_cons {fs : FS} {part : Name} {rest : List Name} {node n : Ino}
    (h : plainTo fs (part :: rest) node = some n) :
    (fs.node node).dir = true ∧ ∃ child, fs.lookup node part = some child ∧
      (fs.node child).isSymlink = false ∧ plainTo fs rest child = some n := by
  unfold plainTo at h
  by_cases hd : (fs.node node).dir = true
  · simp only [hd, Bool.not_true, Bool.false_eq_true, if_false] at h
    cases hl : fs.lookup node part with
    | none => simp [hl] at h
    | some child =>
      simp only [hl] at h
      by_cases hs : (fs.node child).isSymlink = true
      · simp [hs] at h
      · have hs' : (fs.node child).isSymlink = false := by simpa using hs
        simp only [hs', Bool.false_eq_true, if_false] at h
        exact ⟨hd, child, rfl, hs', h⟩
  · simp [hd] at h

theorem plainTo_snoc {fs : FS} {part : Name} {node child : Ino} (hd : (fs.node node).dir = true)
    (hl : fs.lookup node part = some child) (hs : (fs.node child).isSymlink = false) :
    ∀ (trav : List Name) (start : Ino), plainTo fs trav start = some node →
      plainTo fs (trav ++ [part]) start = some child := by
  intro trav
  induction trav with
  | nil =>
    intro start h
    simp only [plainTo, Option.some.injEq] at h
    subst h
    simp [plainTo, hd, hl, hs]
  | cons a rest ih =>
    intro start h
    obtain ⟨hd1, c1, hl1, hs1, hrest⟩ := plainTo_cons h
    simp only [List.cons_append, plainTo, hd1, hl1, hs1, Bool.not_true, Bool.false_eq_true, if_false]
    exact ih c1 hrest

/-- a link-free walk does not depend on the nested lookup and leaves the counter alone -/
theorem walkL_plainTo {fs : FS} (recur : Option (List Name → Nat → Except Err (Ino × Nat))) :
    ∀ (ps : List Name) (node n : Ino) (trav : List Name) (cnt : Nat), plainTo fs ps node = some n →
      walkL fs recur ps node trav cnt = .ok (n, cnt) := by
  intro ps
  induction ps with
  | nil => intro node n trav cnt h; simp only [plainTo, Option.some.injEq] at h; simp [walkL, h]
  | cons part rest ih =>
    intro node n trav cnt h
    obtain ⟨hd, child, hl, hs, hrest⟩ := plainTo_cons h
    rw [walkL_plain hd hl hs]
    exact ih _ _ _ _ hrest

/-! ### the condition -/

/-- along Impl's component loop: every link with a relative target is met while no link has been
followed yet in this loop (`lf`), and the same holds in the nested lookups (`recSafe`) -/
def walkSafe (fs : FS) (recur : Option (List Name → Nat → Except Err (Ino × Nat)))
    (recSafe : List Name → Nat → Bool) : List Name → Ino → List Name → Bool → Nat → Bool
  | [], _, _, _, _ => true
  | part :: rest, node, trav, lf, cnt =>
    if !(fs.node node).dir then true else
    match fs.lookup node part with
    | none => true
    | some child =>
      if (fs.node child).isSymlink then
        if cnt + 1 > maxLinks then true else
        match recur with
        | none => true
        | some r =>
          (isAbs (fs.node child).target || lf) &&
          recSafe (linkList trav (fs.node child).target) (cnt + 1) &&
          match r (linkList trav (fs.node child).target) (cnt + 1) with
          | .error _ => true
          | .ok (tn, cnt') => walkSafe fs recur recSafe rest tn (trav ++ [part]) false cnt'
      else walkSafe fs recur recSafe rest child (trav ++ [part]) lf cnt

def safeL (fs : FS) : Nat → List Name → Nat → Bool
  | 0, ps, cnt => walkSafe fs none (fun _ _ => true) ps 0 [] true cnt
  | d + 1, ps, cnt => walkSafe fs (some (getL fs d)) (safeL fs d) ps 0 [] true cnt

def recSafeL (fs : FS) : Nat → List Name → Nat → Bool
  | 0 => fun _ _ => true
  | d + 1 => safeL fs d

theorem safeL_eq (fs : FS) (d : Nat) (ps : List Name) (cnt : Nat) :
    safeL fs d ps cnt = walkSafe fs (recL fs d) (recSafeL fs d) ps 0 [] true cnt := by cases d <;> rfl

/-- **relative targets are only met under link-free prefixes** during the lookup of `p` -/
def relPrefixesLinkFree (fs : FS) (p : Text) : Bool := safeL fs (maxLinks + 1) (parts p) 0

theorem walkSafe_plain {fs : FS} {recur} {rs : List Name → Nat → Bool} {part : Name} {rest : List Name}
    {node child : Ino} {trav : List Name} {lf : Bool} {cnt : Nat}
    (hd : (fs.node node).dir = true) (hl : fs.lookup node part = some child)
    (hs : (fs.node child).isSymlink = false) :
    walkSafe fs recur rs (part :: rest) node trav lf cnt = walkSafe fs recur rs rest child (trav ++ [part]) lf cnt := by
  simp [walkSafe, hd, hl, hs]

theorem walkSafe_link {fs : FS} {r : List Name → Nat → Except Err (Ino × Nat)} {rs : List Name → Nat → Bool}
    {part : Name} {rest : List Name} {node child : Ino} {trav : List Name} {lf : Bool} {cnt : Nat}
    (hd : (fs.node node).dir = true) (hl : fs.lookup node part = some child)
    (hs : (fs.node child).isSymlink = true) (hc : ¬ cnt + 1 > maxLinks) :
    walkSafe fs (some r) rs (part :: rest) node trav lf cnt =
      ((isAbs (fs.node child).target || lf) &&
       rs (linkList trav (fs.node child).target) (cnt + 1) &&
       match r (linkList trav (fs.node child).target) (cnt + 1) with
       | .error _ => true
       | .ok (tn, cnt') => walkSafe fs (some r) rs rest tn (trav ++ [part]) false cnt') := by
  simp only [walkSafe, hd, hl, hs, hc, Bool.not_true, Bool.false_eq_true, if_false, if_true]

/-- the condition skips a link-free prefix -/
theorem walkSafe_plainTo {fs : FS} (recur : Option (List Name → Nat → Except Err (Ino × Nat)))
    (rs : List Name → Nat → Bool) :
    ∀ (ps qs : List Name) (node n : Ino) (trav : List Name) (lf : Bool) (cnt : Nat), plainTo fs ps node = some n →
      walkSafe fs recur rs (ps ++ qs) node trav lf cnt = walkSafe fs recur rs qs n (trav ++ ps) lf cnt := by
  intro ps
  induction ps with
  | nil => intro qs node n trav lf cnt h; simp only [plainTo, Option.some.injEq] at h; simp [h]
  | cons part rest ih =>
    intro qs node n trav lf cnt h
    obtain ⟨hd, child, hl, hs, hrest⟩ := plainTo_cons h
    rw [List.cons_append, walkSafe_plain hd hl hs, ih _ _ _ _ _ _ hrest]
    simp [List.append_assoc]

/-! ### exact agreement -/

theorem walk_exact_aux {fs : FS} (hnd : ∀ i : Nat, NoDots (parts (fs.node i).target)) (d : Nat)
    (ih : ∀ e, d = e + 1 → ∀ (ps : List Name) (node : Ino) (trav : List Name) (st : List Ino) (lf : Bool) (c : Nat),
      NoDots ps → st.headD 0 = node → (lf = true → plainTo fs trav 0 = some node) →
      walkSafe fs (recL fs e) (recSafeL fs e) ps node trav lf c = true →
      ResAgree (walkL fs (recL fs e) ps node trav c) (walkPosix fs (recS fs e) ps st c)) :
    ∀ (ps : List Name) (node : Ino) (trav : List Name) (st : List Ino) (lf : Bool) (c : Nat),
      NoDots ps → st.headD 0 = node → (lf = true → plainTo fs trav 0 = some node) →
      walkSafe fs (recL fs d) (recSafeL fs d) ps node trav lf c = true →
      ResAgree (walkL fs (recL fs d) ps node trav c) (walkPosix fs (recS fs d) ps st c) := by
  intro ps
  induction ps with
  | nil =>
    intro node trav st lf c _ hst _ _
    simp only [walkL, walkPosix, ResAgree]
    exact ⟨hst, trivial⟩
  | cons part rest ihp =>
    intro node trav st lf c hps hst hlf hsafe
    subst hst
    have hp := hps part List.mem_cons_self
    by_cases hd : (fs.node (st.headD 0)).dir = true
    · cases hl : fs.lookup (st.headD 0) part with
      | none => rw [walkL_none hd hl, walkPosix_none hp hd hl]; rfl
      | some child =>
        by_cases hs : (fs.node child).isSymlink = true
        · rw [walkL_link hd hl hs, walkPosix_link hp hd hl hs]
          by_cases hc : c + 1 > maxLinks
          · simp only [hc, if_true]; rfl
          · simp only [hc, if_false]
            cases d with
            | zero => rfl
            | succ e =>
              simp only [recL, recS, recSafeL] at hsafe ⊢
              rw [walkSafe_link hd hl hs hc] at hsafe
              simp only [Bool.and_eq_true, Bool.or_eq_true] at hsafe
              obtain ⟨⟨h1, h2⟩, h3⟩ := hsafe
              have key : ResAgree (getL fs e (linkList trav (fs.node child).target) (c + 1))
                  (resolvePosixD fs e (if isAbs (fs.node child).target then [0] else st)
                    (parts (fs.node child).target) (c + 1)) := by
                rw [getL_eq, resolvePosixD_eq]
                rw [safeL_eq] at h2
                unfold linkList at h2 ⊢
                by_cases ha : isAbs (fs.node child).target = true
                · simp only [ha, if_true] at h2 ⊢
                  exact ih e rfl _ 0 [] [0] true _ (hnd child) rfl (fun _ => rfl) h2
                · simp only [ha, Bool.false_eq_true, if_false] at h2 ⊢
                  have hplain := hlf (by simpa [ha] using h1)
                  rw [walkL_append, walkL_plainTo _ _ _ _ _ _ hplain]
                  rw [walkSafe_plainTo _ _ _ _ _ _ _ _ _ hplain] at h2
                  simp only [List.nil_append] at h2 ⊢
                  exact ih e rfl _ _ trav st true _ (hnd child) rfl (fun _ => hplain) h2
              revert key h3
              cases getL fs e (linkList trav (fs.node child).target) (c + 1) with
              | error ei =>
                cases resolvePosixD fs e (if isAbs (fs.node child).target then [0] else st)
                    (parts (fs.node child).target) (c + 1) with
                | error es => intro _ key; exact key
                | ok r' => intro _ key; exact absurd key (by simp [ResAgree])
              | ok r =>
                cases resolvePosixD fs e (if isAbs (fs.node child).target then [0] else st)
                    (parts (fs.node child).target) (c + 1) with
                | error es => intro _ key; exact absurd key (by simp [ResAgree])
                | ok r' =>
                  intro h3 key
                  obtain ⟨tn, c1⟩ := r
                  obtain ⟨st', c1'⟩ := r'
                  simp only [ResAgree] at key
                  obtain ⟨k1, k2⟩ := key
                  subst k2
                  exact ihp tn (trav ++ [part]) st' false c1' hps.tail k1 (fun h => by cases h) h3
        · have hs' : (fs.node child).isSymlink = false := by simpa using hs
          rw [walkL_plain hd hl hs', walkPosix_plain hp hd hl hs']
          rw [walkSafe_plain hd hl hs'] at hsafe
          exact ihp child (trav ++ [part]) (child :: st) lf c hps.tail (by simp)
            (fun h => plainTo_snoc hd hl hs' trav 0 (hlf h)) hsafe
    · have hd' : (fs.node (st.headD 0)).dir = false := by simpa using hd
      rw [walkL_notdir hd', walkPosix_notdir hd']; rfl

theorem walk_exact {fs : FS} (hnd : ∀ i : Nat, NoDots (parts (fs.node i).target)) :
    ∀ (d : Nat) (ps : List Name) (node : Ino) (trav : List Name) (st : List Ino) (lf : Bool) (c : Nat),
      NoDots ps → st.headD 0 = node → (lf = true → plainTo fs trav 0 = some node) →
      walkSafe fs (recL fs d) (recSafeL fs d) ps node trav lf c = true →
      ResAgree (walkL fs (recL fs d) ps node trav c) (walkPosix fs (recS fs d) ps st c) := by
  intro d
  induction d with
  | zero => exact walk_exact_aux hnd 0 (fun e he => by omega)
  | succ d ih => exact walk_exact_aux hnd (d + 1) (fun e he => by cases he; exact ih)

theorem getL_exact {fs : FS} (hnd : ∀ i : Nat, NoDots (parts (fs.node i).target)) (d : Nat) (ps : List Name)
    (cnt : Nat) (hps : NoDots ps) (hsafe : safeL fs d ps cnt = true) :
    ResAgree (getL fs d ps cnt) (resolvePosixD fs d [0] ps cnt) := by
  rw [getL_eq, resolvePosixD_eq]
  rw [safeL_eq] at hsafe
  exact walk_exact hnd d ps 0 [] [0] true cnt hps rfl (fun _ => rfl) hsafe

theorem getNode_eq_of_agree {ci cs : Cfg} (hi : ci.posix = false) (hs : cs.posix = true) {fs : FS} (p : Text)
    (h : ResAgree (getNodeD fs (maxLinks + 1) p 0) (resolvePosixD fs (maxLinks + 1) [0] (parts p) 0)) :
    getNode ci fs p = getNode cs fs p := by
  simp only [getNode, resolveFrom, hi, hs, Bool.false_eq_true, if_false, if_true, ite_self]
  revert h
  cases getNodeD fs (maxLinks + 1) p 0 with
  | error e =>
    cases resolvePosixD fs (maxLinks + 1) [0] (parts p) 0 with
    | error e' => intro h; simp only [ResAgree] at h; subst h; rfl
    | ok r' => intro h; exact absurd h (by simp [ResAgree])
  | ok r =>
    cases resolvePosixD fs (maxLinks + 1) [0] (parts p) 0 with
    | error e' => intro h; exact absurd h (by simp [ResAgree])
    | ok r' =>
      intro h
      simp only [ResAgree] at h
      simpa [Except.map] using h.1.symm

/-- **Impl = Spec when relative targets are only met under link-free prefixes** (dot-free input) -/
theorem getNode_eq_of_linkFree {ci cs : Cfg} (hi : ci.posix = false) (hs : cs.posix = true) {fs : FS}
    (hnd : ∀ i : Nat, NoDots (parts (fs.node i).target)) (p : Text) (hp : NoDots (parts p))
    (hsafe : relPrefixesLinkFree fs p = true) : getNode ci fs p = getNode cs fs p := by
  have h := getL_exact hnd (maxLinks + 1) (parts p) 0 hp hsafe
  rw [← getNodeD_eq_getL hnd _ p 0 hp] at h
  exact getNode_eq_of_agree hi hs p h

/-! ### absolute targets: the condition holds trivially -/

theorem walkSafe_of_abs {fs : FS}
    (habs : ∀ i : Nat, (fs.node i).isSymlink = true → isAbs (fs.node i).target = true)
    (recur : Option (List Name → Nat → Except Err (Ino × Nat))) (rs : List Name → Nat → Bool)
    (hrs : ∀ l c, rs l c = true) :
    ∀ (ps : List Name) (node : Ino) (trav : List Name) (lf : Bool) (cnt : Nat),
      walkSafe fs recur rs ps node trav lf cnt = true := by
  intro ps
  induction ps with
  | nil => intro node trav lf cnt; rfl
  | cons part rest ih =>
    intro node trav lf cnt
    unfold walkSafe
    by_cases hd : (fs.node node).dir = true
    · simp only [hd, Bool.not_true, Bool.false_eq_true, if_false]
      cases hl : fs.lookup node part with
      | none => rfl
      | some child =>
        simp only []
        by_cases hs : (fs.node child).isSymlink = true
        · simp only [hs, if_true]
          by_cases hc : cnt + 1 > maxLinks
          · simp [hc]
          · simp only [hc, if_false]
            cases recur with
            | none => rfl
            | some r =>
              simp only [habs child hs, hrs, Bool.true_or, Bool.true_and]
              cases r (linkList trav (fs.node child).target) (cnt + 1) with
              | error e => rfl
              | ok v => exact ih _ _ _ _
        · simp only [hs, Bool.false_eq_true, if_false]
          exact ih _ _ _ _
    · simp [hd]

theorem safeL_of_abs {fs : FS}
    (habs : ∀ i : Nat, (fs.node i).isSymlink = true → isAbs (fs.node i).target = true) :
    ∀ (d : Nat) (ps : List Name) (cnt : Nat), safeL fs d ps cnt = true := by
  intro d
  induction d with
  | zero => intro ps cnt; exact walkSafe_of_abs habs _ _ (fun _ _ => rfl) _ _ _ _ _
  | succ d ih => intro ps cnt; exact walkSafe_of_abs habs _ _ ih _ _ _ _ _

end Apko.FS
