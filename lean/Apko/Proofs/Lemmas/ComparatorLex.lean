/-
The repaired `comparePackages` (`bothBad = .eq`, F08b) is the lexicographic comparison of a
per-package key, hence a strict weak order on ALL packages whose ties are same-name packages.
With the pinned behaviour (`bothBad = .gt`) it is not antisymmetric (concrete witness).
-/
import Apko.Proofs.Lemmas.ComparatorOrder

namespace Apko.Cmp
open Apko Apko.Resolver

/-! ## the per-package key -/

/-- step 1: is this exact version already installed / selected (`existing[name].version`)? -/
def kExisting (existing : List (Text × Pkg)) (p : Pkg) : Bool :=
  match lookupT existing p.name with | some e => e.version = p.version | none => false

/-- step 2: does the origin match an origin already in the solution? -/
def kOrigin (origins : List Text) (p : Pkg) : Bool := origins.contains p.origin

/-- step 3: does the package come from the preferred pin? -/
def kPin (pin : Text) (p : Pkg) : Bool := p.pin = pin

/-- step 5: parse of the version under which the package provides `name` (its own for a same-name
candidate); unparsable = lowest class -/
def kProvided (name : Text) (p : Pkg) : Option Version := pv (getDepVersionForName p name)

/-- step 6: parse of the package's own version -/
def kOwn (p : Pkg) : Option Version := pv p.version

/-- the comparator as the lexicographic composition of per-package keys -/
def lexCmp (name pin : Text) (existing : List (Text × Pkg)) (origins : List Text) (a b : Pkg) :
    Ordering :=
  (cmpBool (kExisting existing a) (kExisting existing b)).then <|
  (cmpBool (kOrigin origins a) (kOrigin origins b)).then <|
  (cmpBool (kPin pin a) (kPin pin b)).then <|
  (cmpNatDesc a.priority b.priority).then <|
  (cmpOptVer (kProvided name a) (kProvided name b)).then <|
  (cmpOptVer (kOwn a) (kOwn b)).then <|
  cmpText a.name b.name

theorem ite_cmpBool (x y : Bool) (r : Ordering) :
    (if (x && !y) = true then Ordering.lt else if (y && !x) = true then Ordering.gt else r) =
      (cmpBool x y).then r := by
  cases x <;> cases y <;> simp [cmpBool]

theorem ite_cmpPin (p q pin : Text) (r : Ordering) :
    (if (decide (p = pin) && q != pin) = true then Ordering.lt
     else if (p != pin && decide (q = pin)) = true then Ordering.gt else r) =
      (cmpBool (decide (p = pin)) (decide (q = pin))).then r := by
  by_cases hx : p = pin <;> by_cases hy : q = pin <;> simp [cmpBool, hx, hy]

theorem ite_cmpNatDesc (x y : Nat) (r : Ordering) :
    (if (x != y) = true then (if x > y then Ordering.lt else Ordering.gt) else r) =
      (cmpNatDesc x y).then r := by
  unfold cmpNatDesc
  by_cases h : x = y
  · simp [h]
  · by_cases hg : x > y <;> simp [h, hg]

/-- the two version steps: the pair-dependent guard `iv != a.version || jv != b.version` of the
second step is immaterial — when it is false both own versions ARE the provided ones, which have
just compared equal. -/
theorem verSteps_eq (iv jv av bv : Text) (c : Bool) (r : Ordering)
    (hc : c = false → iv = av ∧ jv = bv) :
    (match verStep .eq iv jv with
     | some o => o
     | none =>
       match (if c = true then verStep .eq av bv else none) with
       | some o => o
       | none => r) =
      (cmpOptVer (pv iv) (pv jv)).then ((cmpOptVer (pv av) (pv bv)).then r) := by
  rw [verStep_eq]
  cases h : cmpOptVer (pv iv) (pv jv) with
  | lt => rfl
  | gt => rfl
  | eq =>
    simp only [Ordering.then]
    cases c with
    | true =>
      simp only [if_true]
      rw [verStep_eq]
      cases cmpOptVer (pv av) (pv bv) <;> rfl
    | false =>
      obtain ⟨h1, h2⟩ := hc rfl
      subst h1 h2
      simp [h]

/-- T `comparePackages_eq_lex`: for every (name, pin, existing, origins) and ALL packages the
repaired comparator is the lexicographic comparison of the per-package key
(existing-match, origin-match, pin-match, priority ↓, provided version ↓ [unparsable last],
own version ↓ [unparsable last], name ↑). -/
theorem comparePackages_eq_lex (name pin : Text) (existing : List (Text × Pkg))
    (origins : List Text) (a b : Pkg) :
    comparePackages .eq name pin existing origins a b = lexCmp name pin existing origins a b := by
  unfold comparePackages lexCmp
  simp only []
  change (if (kExisting existing a && !kExisting existing b) = true then Ordering.lt
    else if (kExisting existing b && !kExisting existing a) = true then Ordering.gt else _) = _
  rw [ite_cmpBool, ite_cmpBool, ite_cmpPin, ite_cmpNatDesc]
  refine congrArg _ (congrArg _ (congrArg _ (congrArg _ ?_)))
  exact verSteps_eq (getDepVersionForName a name) (getDepVersionForName b name) a.version b.version
    (getDepVersionForName a name != a.version || getDepVersionForName b name != b.version) _
    (fun h => by simpa only [Bool.or_eq_false_iff, bne_eq_false_iff_eq] using h)

theorem lexCmp_swo (name pin : Text) (existing : List (Text × Pkg)) (origins : List Text) :
    SWO (lexCmp name pin existing origins) := by
  unfold lexCmp
  exact (cmpBool_swo.comap (kExisting existing)).lex <|
    (cmpBool_swo.comap (kOrigin origins)).lex <|
    (cmpBool_swo.comap (kPin pin)).lex <|
    (cmpNatDesc_swo.comap (·.priority)).lex <|
    (cmpOptVer_swo.comap (kProvided name)).lex <|
    (cmpOptVer_swo.comap kOwn).lex <|
    (cmpText_swo.comap (·.name))

/-- T `comparePackages_swo`: the repaired comparator is a strict weak order on ALL packages. -/
theorem comparePackages_swo (name pin : Text) (existing : List (Text × Pkg)) (origins : List Text) :
    SWO (comparePackages .eq name pin existing origins) := by
  have : comparePackages .eq name pin existing origins = lexCmp name pin existing origins := by
    funext a b; exact comparePackages_eq_lex name pin existing origins a b
  rw [this]; exact lexCmp_swo name pin existing origins

/-- T `comparePackages_eq_same_name`: ties of the repaired comparator are same-name packages. -/
theorem comparePackages_eq_same_name (name pin : Text) (existing : List (Text × Pkg))
    (origins : List Text) (a b : Pkg)
    (h : comparePackages .eq name pin existing origins a b = .eq) : a.name = b.name := by
  rw [comparePackages_eq_lex] at h
  unfold lexCmp at h
  simp only [Ordering.then_eq_eq] at h
  exact (cmpText_eq_iff _ _).mp h.2.2.2.2.2.2

/-- what a tie means exactly: every key component agrees -/
theorem comparePackages_eq_iff (name pin : Text) (existing : List (Text × Pkg))
    (origins : List Text) (a b : Pkg) :
    comparePackages .eq name pin existing origins a b = .eq ↔
      (cmpBool (kExisting existing a) (kExisting existing b) = .eq ∧
       cmpBool (kOrigin origins a) (kOrigin origins b) = .eq ∧
       cmpBool (kPin pin a) (kPin pin b) = .eq ∧
       cmpNatDesc a.priority b.priority = .eq ∧
       cmpOptVer (kProvided name a) (kProvided name b) = .eq ∧
       cmpOptVer (kOwn a) (kOwn b) = .eq ∧
       a.name = b.name) := by
  rw [comparePackages_eq_lex]
  unfold lexCmp
  simp only [Ordering.then_eq_eq, cmpText_eq_iff]

/-! ## F08b: the pinned comparator is not antisymmetric -/

def wA : Pkg := { id := 0, name := "pa".toList, version := "1.0".toList, origin := [], repo := [], pin := [],
                  priority := 0, deps := [], provides := ["virt=abc".toList], installIf := [] }
def wB : Pkg := { wA with id := 1, name := "pb".toList, provides := ["virt=xyz".toList] }

/-- F08b witness: with the pinned `bothBad = .gt` (both provided versions unparsable) the
comparator answers "the other one is better" in BOTH directions, so `slices.MinFunc` returns
whichever candidate the map order put last … -/
theorem comparePackages_pinned_not_antisymm :
    comparePackages .gt "virt".toList [] [] [] wA wB = .gt ∧
    comparePackages .gt "virt".toList [] [] [] wB wA = .gt := by
  constructor <;> decide

/-- … and the first-minimum really differs between the two candidate orders (pinned), while the
repaired comparator picks `pa` in both. -/
theorem minFunc_pinned_order_dependent :
    minFunc (comparePackages .gt "virt".toList [] [] []) [wA, wB] = some wA ∧
    minFunc (comparePackages .gt "virt".toList [] [] []) [wB, wA] = some wB ∧
    minFunc (comparePackages .eq "virt".toList [] [] []) [wA, wB] = some wA ∧
    minFunc (comparePackages .eq "virt".toList [] [] []) [wB, wA] = some wA := by
  refine ⟨?_, ?_, ?_, ?_⟩ <;> decide

end Apko.Cmp
