/-
C06, the glue around the layer writer: `BuildLayer` serialises the file system it LEAVES behind (the reset of
/etc/apk/repositories to the runtime repositories happens before `ImageLayoutToLayer`, inline, not in a defer), the
layer file is created with truncation and named after apk's spelling of the architecture (injective on architectures;
the OCI architecture name is not: arm/v6 and arm/v7).  Facts regenerated from pkg/build/build.go and
pkg/options/options.go on every run; the end-to-end cases of corr:tar find the failing inputs.
-/
import Apko.Generated.GlueLayer

namespace Apko.C06.Glue
open Apko

theorem tie_glue_build_layer_order : Generated.buildLayerCalls =
    [("bc.BuildImage(ctx)", "inline"), ("bc.postBuildSetApk(ctx)", "inline"), ("bc.ImageLayoutToLayer(ctx)", "inline")] := rfl

theorem tie_glue_tarball_file_name : Generated.tarballFileNameArgs = ["\"apko-%s.tar.gz\"", "o.Arch.ToAPK()"] := rfl

theorem tie_glue_layer_file_created : Generated.layerFileOpens =
    ["os.Create(bc.o.TarballPath)", "os.Create(filepath.Join(bc.o.TempDir(), bc.o.TarballFileName()))"] := rfl

end Apko.C06.Glue
