/-
C19 helper: ordering dependencies between advertised entries.

`Dep k d` reads "the entry `adv k` may only become visible once `adv d` is" — for a signed package:
data section → signature section (`cachePackage` advertises control, signature, data, tar; a cache hit
requires control and data).  `safe Dep pres prog`: a builder that knows the entries `pres` to be present
(entries are never removed: `adv_present_persist`) only advertises an entry after its dependencies, and
never reaches the point `unsigned` ("use the package without its signature").  The invariant `SInv`
(advertise invariant + `DepOk` + every builder safe w.r.t. the entries that are present now) is
preserved by every step of every builder under every schedule.
-/
import Apko.Proofs.Lemmas.CacheLive

namespace Apko.C19
open Apko.Cache

/-- the advertised entries that are present -/
def presOf (g : Name → Option Node) : Cid → Prop := fun k => g (.adv k) ≠ none

/-- the directory respects the dependencies: an entry is never visible without the ones it depends on -/
def DepOk (Dep : Cid → Cid → Prop) (g : Name → Option Node) : Prop :=
  ∀ k d, Dep k d → g (.adv k) ≠ none → g (.adv d) ≠ none

/-- what a builder learns from seeing (or making) `n` present -/
def learn (Dep : Cid → Cid → Prop) (pres : Cid → Prop) : Name → Cid → Prop
  | .adv k => fun x => pres x ∨ x = k ∨ Dep k x
  | .tmp _ => pres

def opSafe (Dep : Cid → Cid → Prop) (pres : Cid → Prop) : Op → Prop
  | .symlink _ dst => ∀ k, dst = .adv k → ∀ d, Dep k d → pres d
  | .rename _ dst => ∀ k, dst = .adv k → ∀ d, Dep k d → pres d
  | .unsigned _ => False
  | _ => True

def learnOp (Dep : Cid → Cid → Prop) (pres : Cid → Prop) : Op → Cid → Prop
  | .symlink _ dst => learn Dep pres dst
  | .rename _ dst => learn Dep pres dst
  | _ => pres

/-- `pres` is a lower bound of the entries that are present (now and for ever) -/
def safe (Dep : Cid → Cid → Prop) : (Cid → Prop) → Prog → Prop
  | _, .halt _ => True
  | pres, .ifStat n y no =>
    safe Dep (learn Dep pres n) y ∧ ((∃ k, n = .adv k ∧ pres k) ∨ safe Dep pres no)
  | pres, .op o next => opSafe Dep pres o ∧ safe Dep (learnOp Dep pres o) next

theorem learn_mono (Dep : Cid → Cid → Prop) {A B : Cid → Prop} (hAB : ∀ x, A x → B x) (n : Name) :
    ∀ x, learn Dep A n x → learn Dep B n x := by
  intro x hx
  cases n with
  | tmp m => exact hAB x hx
  | adv k =>
    rcases hx with h | h | h
    · exact Or.inl (hAB x h)
    · exact Or.inr (Or.inl h)
    · exact Or.inr (Or.inr h)

theorem learn_sup (Dep : Cid → Cid → Prop) (A : Cid → Prop) (n : Name) : ∀ x, A x → learn Dep A n x := by
  intro x hx
  cases n with
  | tmp m => exact hx
  | adv k => exact Or.inl hx

theorem opSafe_mono (Dep : Cid → Cid → Prop) {A B : Cid → Prop} (hAB : ∀ x, A x → B x) (o : Op) :
    opSafe Dep A o → opSafe Dep B o := by
  intro h
  cases o <;> simp only [opSafe] at h ⊢
  all_goals first
    | exact fun k hk d hd => hAB d (h k hk d hd)
    | exact h

theorem learnOp_mono (Dep : Cid → Cid → Prop) {A B : Cid → Prop} (hAB : ∀ x, A x → B x) (o : Op) :
    ∀ x, learnOp Dep A o x → learnOp Dep B o x := by
  cases o <;> simp only [learnOp]
  all_goals first
    | exact learn_mono Dep hAB _
    | exact hAB

theorem safe_mono (Dep : Cid → Cid → Prop) (prog : Prog) :
    ∀ (A B : Cid → Prop), (∀ x, A x → B x) → safe Dep A prog → safe Dep B prog := by
  induction prog with
  | halt b => intro A B _ _; trivial
  | ifStat n y no ihy ihn =>
    intro A B hAB h
    refine ⟨ihy _ _ (learn_mono Dep hAB n) h.1, ?_⟩
    rcases h.2 with ⟨k, hn, hk⟩ | h2
    · exact Or.inl ⟨k, hn, hAB k hk⟩
    · exact Or.inr (ihn _ _ hAB h2)
  | op o next ih =>
    intro A B hAB h
    exact ⟨opSafe_mono Dep hAB o h.1, ih _ _ (learnOp_mono Dep hAB o) h.2⟩

/-- advertise invariant + dependency order + every builder safe w.r.t. what is present now -/
structure SInv (Dep : Cid → Cid → Prop) (s : State) : Prop where
  inv : Inv s.fs.get s.procs
  dep : DepOk Dep s.fs.get
  safe : ∀ i, safe Dep (presOf s.fs.get) (s.procs i).prog

/-- a final name that appears in a step was made by a `symlink` or a `rename` of the stepping builder
onto exactly that name -/
theorem adv_created (s : State) (i : Nat) (h : Inv s.fs.get s.procs) (k : Cid)
    (habs : s.fs.get (.adv k) = none) (hnew : (s.step i).fs.get (.adv k) ≠ none) :
    ∃ t next, (s.procs i).prog = .op (.symlink t (.adv k)) next ∨
      (s.procs i).prog = .op (.rename t (.adv k)) next := by
  have hty := h.typed i
  rw [step_fs] at hnew
  revert hty hnew
  generalize hp : s.procs i = p
  intro hnew hty
  obtain ⟨prog, Γ, obs, marks⟩ := p
  have hΓ : (s.procs i).ctx = Γ := by rw [hp]
  have tmpne : ∀ t, Owns Γ t → Name.adv k ≠ t := by
    intro t ho e
    have := h.ownTmp i t (by rw [hΓ]; exact ho)
    rw [← e] at this; simp [Name.isTmp] at this
  cases prog with
  | halt b => exact absurd habs hnew
  | ifStat n y no => exact absurd habs hnew
  | op o next =>
    simp only [wt] at hty
    obtain ⟨hok, _⟩ := hty
    simp only [stepProc] at hnew
    cases o with
    | mkdir => exact absurd habs hnew
    | mark m => exact absurd habs hnew
    | unsigned k0 => exact absurd habs hnew
    | create t c =>
      simp only [stepOp] at hnew
      cases hg : s.fs.get t with
      | none =>
        have : Name.adv k ≠ t := by
          intro e; have := hok.2; rw [← e] at this; simp [Name.isTmp] at this
        simp [hg, FS.set, this, habs] at hnew
      | some n => simp [hg, habs] at hnew
    | chunk t =>
      simp only [stepOp] at hnew
      obtain ⟨c0, hc0⟩ := hok
      have := tmpne t (owns_opened hc0)
      have hgt := h.ownOpen i t c0 (by rw [hΓ]; exact hc0)
      simp [hgt, FS.set, this, habs] at hnew
    | finish t =>
      simp only [stepOp] at hnew
      obtain ⟨c0, hc0⟩ := hok
      have := tmpne t (owns_opened hc0)
      have hgt := h.ownOpen i t c0 (by rw [hΓ]; exact hc0)
      simp [hgt, FS.set, this, habs] at hnew
    | symlink t dst =>
      simp only [stepOp] at hnew
      cases hd : s.fs.get dst with
      | none =>
        by_cases e : Name.adv k = dst
        · exact ⟨t, next, Or.inl (by rw [e])⟩
        · simp [hd, FS.set, e, habs] at hnew
      | some n => simp [hd, habs] at hnew
    | remove t =>
      simp only [stepOp] at hnew
      by_cases e : Name.adv k = t <;> simp [FS.set, e, habs] at hnew
    | rename t dst =>
      simp only [stepOp] at hnew
      obtain ⟨k0, hk0, hdst⟩ := hok
      have hne := tmpne t (owns_closed hk0)
      have hgt := h.ownClosed i t k0 (by rw [hΓ]; exact hk0)
      by_cases e : Name.adv k = dst
      · exact ⟨t, next, Or.inr (by rw [e])⟩
      · simp [hgt, FS.set, hne, e, habs] at hnew
    | regen dst c => exact hok.elim
    | read n checked =>
      simp only [stepOp] at hnew
      cases hres : s.fs.resolve n with
      | none => simp only [hres] at hnew; exact absurd habs hnew
      | some cb =>
        obtain ⟨c, b⟩ := cb
        simp only [hres] at hnew
        by_cases hc : (checked && !b) = true
        · simp only [hc, if_true] at hnew; exact absurd habs hnew
        · simp only [hc, Bool.false_eq_true, if_false] at hnew; exact absurd habs hnew
    | readNewest cands =>
      simp only [stepOp] at hnew
      cases hn : s.fs.newest cands with
      | none => simp only [hn] at hnew; exact absurd habs hnew
      | some n =>
        simp only [hn] at hnew
        cases hres : s.fs.resolve n with
        | none => simp only [hres] at hnew; exact absurd habs hnew
        | some cb =>
          obtain ⟨c, b⟩ := cb
          simp only [hres] at hnew
          by_cases hc : (!b) = true
          · simp only [hc, if_true] at hnew; exact absurd habs hnew
          · simp only [hc, Bool.false_eq_true, if_false] at hnew; exact absurd habs hnew

/-- after a step of builder `i` its program is: unchanged (halted), the branch `Stat` chose, the
continuation of its operation, or `halt false` (the operation failed); after a `symlink` / `rename`
that did not fail the destination is present -/
theorem step_prog (s : State) (i : Nat) :
    match (s.procs i).prog with
    | .halt b => ((s.step i).procs i).prog = .halt b
    | .ifStat n y no => ((s.step i).procs i).prog = (if s.fs.stat n then y else no) ∧ (s.step i).fs = s.fs
    | .op o next => ((s.step i).procs i).prog = .halt false ∨
        (((s.step i).procs i).prog = next ∧
          ∀ t dst, (o = .symlink t dst ∨ (o = .rename t dst ∧ dst ≠ t)) → (s.step i).fs.get dst ≠ none) := by
  rw [step_self, step_fs]
  generalize s.procs i = p
  obtain ⟨prog, Γ, obs, marks⟩ := p
  cases prog with
  | halt b => simp [stepProc]
  | ifStat n y no => simp [stepProc]
  | op o next =>
    simp only [stepProc]
    cases hop : stepOp s.fs obs o with
    | none => left; simp [Proc.abort]
    | some r =>
      obtain ⟨fs', obs'⟩ := r
      right
      refine ⟨rfl, ?_⟩
      intro t dst ho
      rcases ho with rfl | ⟨rfl, e⟩
      · simp only [stepOp] at hop
        cases hd : s.fs.get dst with
        | none =>
          rw [hd] at hop
          simp only [Option.some.injEq, Prod.mk.injEq] at hop
          rw [← hop.1]; simp [FS.set]
        | some n =>
          rw [hd] at hop
          simp only [Option.some.injEq, Prod.mk.injEq] at hop
          rw [← hop.1, hd]; simp
      · simp only [stepOp] at hop
        cases ht : s.fs.get t with
        | none => rw [ht] at hop; cases hop
        | some n =>
          rw [ht] at hop
          simp only [Option.some.injEq, Prod.mk.injEq] at hop
          rw [← hop.1]
          simp [FS.set, e]

/-- T: one step of any builder keeps `SInv` -/
theorem sinv_step (Dep : Cid → Cid → Prop) (s : State) (i : Nat) (h : SInv Dep s) :
    SInv Dep (s.step i) := by
  have hinv' := inv_step s i h.inv
  have hpers : ∀ k, presOf s.fs.get k → presOf (s.step i).fs.get k :=
    fun k hk => adv_present_persist s i h.inv k hk
  have hsi := h.safe i
  have hty := h.inv.typed i
  have hown := h.inv.ownTmp i
  have hprog := step_prog s i
  have hdep : DepOk Dep (s.step i).fs.get := by
    intro k d hkd hk
    by_cases habs : s.fs.get (.adv k) = none
    · obtain ⟨t, next, hp | hp⟩ := adv_created s i h.inv k habs hk
      · rw [hp] at hsi
        exact hpers d (hsi.1 k rfl d hkd)
      · rw [hp] at hsi
        exact hpers d (hsi.1 k rfl d hkd)
    · exact hpers d (h.dep k d hkd habs)
  refine ⟨hinv', hdep, ?_⟩
  intro j
  by_cases hj : j = i
  · subst hj
    revert hprog hsi hty
    generalize (s.procs j).prog = prog
    intro hsi hty hprog
    cases prog with
    | halt b => simp only at hprog; rw [hprog]; trivial
    | ifStat n y no =>
      simp only at hprog
      rw [hprog.1, hprog.2]
      have hst : s.fs.stat n = (resolveG s.fs.get n).isSome := rfl
      by_cases hs : s.fs.stat n = true
      · rw [if_pos hs]
        refine safe_mono Dep y _ _ ?_ hsi.1
        intro x hx
        cases n with
        | tmp m => exact hx
        | adv k =>
          have hk : presOf s.fs.get k := present_of_resolved (by rw [← hst]; exact hs)
          rcases hx with hx | hx | hx
          · exact hx
          · rw [hx]; exact hk
          · exact h.dep k x hx hk
      · rw [if_neg hs]
        rcases hsi.2 with ⟨k, hn, hk⟩ | h2
        · exfalso
          apply hs
          rw [hst, hn, present_resolves h.inv.good hk]; rfl
        · exact h2
    | op o next =>
      simp only at hprog
      rcases hprog with hp | ⟨hp, hdst⟩
      · rw [hp]; trivial
      · rw [hp]
        refine safe_mono Dep next _ _ ?_ hsi.2
        have hlearn : ∀ t dst, (o = .symlink t dst ∨ (o = .rename t dst ∧ dst ≠ t)) →
            ∀ x, learn Dep (presOf s.fs.get) dst x → presOf (s.step j).fs.get x := by
          intro t dst ho x hx
          cases dst with
          | tmp m => exact hpers x hx
          | adv k =>
            rcases hx with hx | hx | hx
            · exact hpers x hx
            · rw [hx]; exact hdst t (.adv k) ho
            · have hs1 := hsi.1
              rcases ho with ho | ⟨ho, _⟩ <;> (rw [ho] at hs1; exact hpers x (hs1 k rfl x hx))
        cases o with
        | symlink t dst => exact hlearn t dst (Or.inl rfl)
        | rename t dst =>
          simp only [wt, okOp] at hty
          obtain ⟨⟨k0, hk0, hd⟩, _⟩ := hty
          have htmp := hown t (owns_closed hk0)
          have hne : dst ≠ t := by
            intro e; rw [← e, hd] at htmp; simp [Name.isTmp] at htmp
          exact hlearn t dst (Or.inr ⟨rfl, hne⟩)
        | _ => exact hpers
  · rw [step_other s i j hj]
    exact safe_mono Dep _ _ _ hpers (h.safe j)

/-- T: `SInv` holds along every schedule -/
theorem sinv_runSched (Dep : Cid → Cid → Prop) (sched : List Nat) (s : State) (h : SInv Dep s) :
    SInv Dep (runSched sched s) := by
  induction sched generalizing s with
  | nil => exact h
  | cons i rest ih =>
    simp only [runSched]
    exact ih (s.step i) (sinv_step Dep s i h)

end Apko.C19
