/-
C03 — non-vacuity of the version grammar: a canonical `render : Version → Text`, the
well-formedness predicate `WFv` (true of everything the parser returns), and
`parse_render : WFv v → Spec.parseVersion (render v) = some v` — every well-formed `Version`
is the parse of some string.

Decimal rendering is `Formats.natToDec` (`%d`), whose round trip through `digitsToNat` is
`Formats.digitsToNatB_natToDec`.
-/
import Apko.Proofs.Lemmas.VersionGrammarComplete
import Apko.Proofs.Lemmas.Formats

namespace Apko.VersionGrammar
open Apko Apko.Formats

/-! ## well-formed versions -/

def preValues : List Nat := Generated.preSwitch.map (·.2)
def postValues : List Nat := Generated.postSwitch.map (·.2)

/-- what every parsed `Version` satisfies (`recognise_wfv`) and what suffices for it to be the
parse of a string (`parse_render`) -/
def WFv (v : Version) : Prop :=
  v.numbers ≠ [] ∧
  (v.letter = 0 ∨ (97 ≤ v.letter ∧ v.letter ≤ 122)) ∧
  v.pre ∈ preValues ∧ v.post ∈ postValues ∧
  (v.pre = Generated.preNone → v.preNum = 0) ∧
  (v.post = Generated.postNone → v.postNum = 0)

instance (v : Version) : Decidable (WFv v) := by unfold WFv; infer_instance

/-! ## canonical spelling -/

/-- canonical `[0-9]*` for a suffix / revision number: nothing for 0 -/
def decOpt (n : Nat) : Text := if n = 0 then [] else natToDec n

/-- the (first) token a switch table maps to the constant `v` -/
def tokOf (tbl : List (String × Nat)) (v : Nat) : String :=
  match tbl.find? (fun p => p.2 == v) with
  | some p => p.1
  | none => ""

def renderNums : List Nat → Text
  | [] => []
  | n :: ns => natToDec n ++ dotted (ns.map natToDec)

def renderLetter (l : Nat) : Text := if l = 0 then [] else [Char.ofNat l]

def renderSuffix (tbl : List (String × Nat)) (noneVal v n : Nat) : Text :=
  if v = noneVal then [] else (tokOf tbl v).toList ++ decOpt n

def renderRev (n : Nat) : Text := if n = 0 then [] else '-' :: 'r' :: natToDec n

def render (v : Version) : Text :=
  renderNums v.numbers ++ (renderLetter v.letter ++
    (renderSuffix Generated.preSwitch Generated.preNone v.pre v.preNum ++
      (renderSuffix Generated.postSwitch Generated.postNone v.post v.postNum ++ renderRev v.rev)))

/-- the pieces `recognise` records for `render v` -/
def rawOf (v : Version) : RawVersion :=
  ⟨v.numbers.map natToDec, v.letter, v.pre, if v.pre = Generated.preNone then [] else decOpt v.preNum,
   v.post, if v.post = Generated.postNone then [] else decOpt v.postNum, decOpt v.rev⟩

/-! ## digits -/

theorem isDigit_eq_isDigitB (c : Char) : isDigit c = isDigitB 10 c := by
  unfold isDigit isDigitB
  have h1 : ('0' ≤ c) ↔ 48 ≤ c.toNat := by
    rw [Char.le_def]; exact UInt32.le_iff_toNat_le
  have h2 : (c ≤ '9') ↔ c.toNat < 48 + 10 := by
    rw [Char.le_def, UInt32.le_iff_toNat_le]
    show c.toNat ≤ 57 ↔ _
    omega
  simp only [h1, h2]

theorem digitsToNat_eq (t : Text) : digitsToNat t = digitsToNatB 10 t := rfl

theorem natToDec_isNum (n : Nat) : IsNum (natToDec n) := by
  refine ⟨natToDec_ne_nil n, ?_⟩
  unfold IsDigits
  rw [List.all_eq_true]
  intro c hc
  rw [isDigit_eq_isDigitB]; exact natToDec_digits n c hc

theorem digitsToNat_natToDec (n : Nat) : digitsToNat (natToDec n) = n := by
  rw [digitsToNat_eq]; exact digitsToNatB_natToDec n

theorem decOpt_isDigits (n : Nat) : IsDigits (decOpt n) := by
  unfold decOpt; split
  · rfl
  · exact (natToDec_isNum n).2

theorem digitsToNat_decOpt (n : Nat) : digitsToNat (decOpt n) = n := by
  unfold decOpt; split
  · rename_i h; subst h; rfl
  · exact digitsToNat_natToDec n

/-! ## letters -/

theorem lower_ofNat (l : Nat) (h1 : 97 ≤ l) (h2 : l ≤ 122) :
    isLower (Char.ofNat l) = true ∧ (Char.ofNat l).toNat = l := by
  have : l = 97 ∨ l = 98 ∨ l = 99 ∨ l = 100 ∨ l = 101 ∨ l = 102 ∨ l = 103 ∨ l = 104 ∨ l = 105 ∨
      l = 106 ∨ l = 107 ∨ l = 108 ∨ l = 109 ∨ l = 110 ∨ l = 111 ∨ l = 112 ∨ l = 113 ∨ l = 114 ∨
      l = 115 ∨ l = 116 ∨ l = 117 ∨ l = 118 ∨ l = 119 ∨ l = 120 ∨ l = 121 ∨ l = 122 := by omega
  rcases this with h | h | h | h | h | h | h | h | h | h | h | h | h | h | h | h | h | h | h | h |
    h | h | h | h | h | h <;> subst h <;> decide

theorem isLower_range {c : Char} (h : isLower c = true) : 97 ≤ c.toNat ∧ c.toNat ≤ 122 := by
  simp only [isLower, Bool.and_eq_true, decide_eq_true_eq] at h
  refine ⟨?_, ?_⟩
  · have := h.1; rw [Char.le_def] at this; exact UInt32.le_iff_toNat_le.mp this
  · have := h.2; rw [Char.le_def] at this; exact UInt32.le_iff_toNat_le.mp this

/-! ## tables -/

theorem tokOf_mem {tbl : List (String × Nat)} {v : Nat} (h : v ∈ tbl.map (·.2)) :
    (tokOf tbl v, v) ∈ tbl := by
  unfold tokOf
  induction tbl with
  | nil => simp at h
  | cons p rest ih =>
    simp only [List.find?_cons]
    by_cases hp : p.2 = v
    · simp only [hp, beq_self_eq_true]
      rw [← hp]; simp
    · have hb : (p.2 == v) = false := by simpa using hp
      simp only [hb]
      simp only [List.map_cons, List.mem_cons] at h
      rcases h with h | h
      · exact absurd h.symm hp
      · exact List.mem_cons_of_mem _ (ih h)

/-- in both tables the empty key is exactly the `None` constant -/
theorem pre_empty_iff_none : Generated.preSwitch.all
    (fun p => (p.1 == "") == (p.2 == Generated.preNone)) = true := by decide
theorem post_empty_iff_none : Generated.postSwitch.all
    (fun p => (p.1 == "") == (p.2 == Generated.postNone)) = true := by decide

theorem preNone_mem : Generated.preNone ∈ preValues := by decide
theorem postNone_mem : Generated.postNone ∈ postValues := by decide

theorem empty_iff_none {tbl : List (String × Nat)} {nv : Nat}
    (ht : tbl.all (fun p => (p.1 == "") == (p.2 == nv)) = true) {tok : String} {val : Nat}
    (hm : (tok, val) ∈ tbl) : tok = "" ↔ val = nv := by
  have := List.all_eq_true.mp ht (tok, val) hm
  simp only [beq_iff_eq] at this
  by_cases h1 : tok = "" <;> by_cases h2 : val = nv <;> simp_all

/-! ## the rendered string is a grammar word -/

theorem renderSuffix_grammar {tbl : List (String × Nat)} {nv : Nat}
    (ht : tbl.all (fun p => (p.1 == "") == (p.2 == nv)) = true) {v : Nat} (n : Nat)
    (hv : v ∈ tbl.map (·.2)) :
    SuffixG tbl nv (renderSuffix tbl nv v n) v (if v = nv then [] else decOpt n) := by
  unfold renderSuffix
  by_cases h : v = nv
  · simp only [h, if_true]; exact .none
  · simp only [h, if_false]
    have hm := tokOf_mem hv
    exact .some _ _ _ hm (fun e => h ((empty_iff_none ht hm).mp e)) (decOpt_isDigits n)

theorem render_grammar {v : Version} (h : WFv v) : Grammar (render v) (rawOf v) := by
  obtain ⟨hn, hl, hp, hq, _, _⟩ := h
  cases hnum : v.numbers with
  | nil => exact absurd hnum hn
  | cons n ns =>
    refine ⟨natToDec n, ns.map natToDec, renderLetter v.letter, _, _, renderRev v.rev, ?_, ?_, ?_,
      renderSuffix_grammar pre_empty_iff_none v.preNum hp,
      renderSuffix_grammar post_empty_iff_none v.postNum hq, ?_, ?_⟩
    · simp [rawOf, hnum]
    · intro d hd
      simp only [List.mem_cons, List.mem_map] at hd
      rcases hd with rfl | ⟨m, _, rfl⟩ <;> exact natToDec_isNum _
    · show LetterG (renderLetter v.letter) v.letter
      unfold renderLetter
      rcases hl with h0 | ⟨h1, h2⟩
      · simp only [h0, if_true]; exact .none
      · have hne : v.letter ≠ 0 := by omega
        simp only [hne, if_false]
        have := lower_ofNat v.letter h1 h2
        have hc := LetterG.some (Char.ofNat v.letter) this.1
        rw [this.2] at hc; exact hc
    · show RevG (renderRev v.rev) (decOpt v.rev)
      unfold renderRev decOpt
      by_cases h0 : v.rev = 0
      · simp only [h0, if_true]; exact .none
      · simp only [h0, if_false]; exact .some _ (natToDec_isNum _)
    · simp only [render, hnum, renderNums, List.append_assoc]
      rfl

theorem rawOf_toVersion {v : Version} (h : WFv v) : (rawOf v).toVersion = v := by
  obtain ⟨_, _, _, _, hpn, hqn⟩ := h
  have hmap : List.map digitsToNat (List.map natToDec v.numbers) = v.numbers := by
    rw [List.map_map]
    have : (digitsToNat ∘ natToDec) = id := by funext n; exact digitsToNat_natToDec n
    rw [this, List.map_id]
  have h1 : digitsToNat (if v.pre = Generated.preNone then [] else decOpt v.preNum) = v.preNum := by
    split
    · rename_i h; rw [hpn h]; rfl
    · exact digitsToNat_decOpt _
  have h2 : digitsToNat (if v.post = Generated.postNone then [] else decOpt v.postNum) = v.postNum := by
    split
    · rename_i h; rw [hqn h]; rfl
    · exact digitsToNat_decOpt _
  cases v
  simp only [rawOf, RawVersion.toVersion] at *
  simp only [hmap, h1, h2, digitsToNat_decOpt]

/-- T `parse_render`: every well-formed version is reachable — the grammar-level parser reads
its canonical spelling back -/
theorem parse_render {v : Version} (h : WFv v) : Spec.parseVersion (render v) = some v := by
  unfold Spec.parseVersion
  rw [recognise_complete (render_grammar h)]
  simp [rawOf_toVersion h]

/-- the canonical spelling determines the version -/
theorem render_injective {v w : Version} (hv : WFv v) (hw : WFv w) (h : render v = render w) :
    v = w := by
  have := parse_render hv
  rw [h, parse_render hw] at this
  simpa using this.symm

/-- every field below 2^63 (what `strconv.Atoi` can return) -/
def Small (v : Version) : Prop :=
  (∀ n ∈ v.numbers, n ≤ maxInt) ∧ v.preNum ≤ maxInt ∧ v.postNum ≤ maxInt ∧ v.rev ≤ maxInt

instance (v : Version) : Decidable (Small v) := by unfold Small; infer_instance

theorem rawOf_fields_small {v : Version} (h : WFv v) (hs : Small v) :
    (rawOf v).fields.all (fun f => digitsToNat f ≤ maxInt) = true := by
  obtain ⟨_, _, _, _, hpn, hqn⟩ := h
  obtain ⟨h1, h2, h3, h4⟩ := hs
  rw [List.all_eq_true]
  intro f hf
  simp only [RawVersion.fields, rawOf, List.mem_append, List.mem_map, List.mem_cons,
    List.not_mem_nil, or_false] at hf
  simp only [decide_eq_true_eq]
  rcases hf with ⟨n, hn, rfl⟩ | rfl | rfl | rfl
  · rw [digitsToNat_natToDec]; exact h1 n hn
  · split
    · exact Nat.zero_le _
    · rw [digitsToNat_decOpt]; exact h2
  · split
    · exact Nat.zero_le _
    · rw [digitsToNat_decOpt]; exact h3
  · rw [digitsToNat_decOpt]; exact h4

/-- the code's parser reaches every well-formed version whose fields are below 2^63 -/
theorem impl_parse_render {v : Version} (h : WFv v) (hs : Small v) :
    Impl.parseVersion (render v) = some v := by
  unfold Impl.parseVersion
  rw [recognise_complete (render_grammar h)]
  simp [rawOf_fields_small h hs, rawOf_toVersion h]

theorem fields_small_toVersion {r : RawVersion}
    (h : r.fields.all (fun f => digitsToNat f ≤ maxInt) = true) : Small r.toVersion := by
  rw [List.all_eq_true] at h
  simp only [RawVersion.fields, List.mem_append, List.mem_cons, List.not_mem_nil, or_false,
    decide_eq_true_eq] at h
  refine ⟨?_, h _ (.inr (.inl rfl)), h _ (.inr (.inr (.inl rfl))), h _ (.inr (.inr (.inr rfl)))⟩
  intro n hn
  simp only [RawVersion.toVersion, List.mem_map] at hn
  obtain ⟨d, hd, rfl⟩ := hn
  exact h d (.inl hd)

/-! ## everything the parser returns is well-formed -/

theorem pre_mem_values {tok : String} {val : Nat} (h : (tok, val) ∈ Generated.preSwitch) :
    val ∈ preValues := List.mem_map.mpr ⟨(tok, val), h, rfl⟩
theorem post_mem_values {tok : String} {val : Nat} (h : (tok, val) ∈ Generated.postSwitch) :
    val ∈ postValues := List.mem_map.mpr ⟨(tok, val), h, rfl⟩

theorem grammar_wfv {s : Text} {r : RawVersion} (h : Grammar s r) : WFv r.toVersion := by
  obtain ⟨d1, more, tl, tp, tq, tr, hn, _, hl, hp, hq, _, _⟩ := h
  obtain ⟨nums, letter, pre, preNum, post, postNum, rev⟩ := r
  simp only at hn hl hp hq
  refine ⟨?_, ?_, ?_, ?_, ?_, ?_⟩
  · simp [RawVersion.toVersion, hn]
  · show letter = 0 ∨ _
    cases hl with
    | none => exact .inl rfl
    | some c hc => exact .inr (isLower_range hc)
  · show pre ∈ preValues
    cases hp with
    | none => exact preNone_mem
    | some tok _ _ hm hne hd => exact pre_mem_values hm
  · show post ∈ postValues
    cases hq with
    | none => exact postNone_mem
    | some tok _ _ hm hne hd => exact post_mem_values hm
  · show pre = Generated.preNone → digitsToNat preNum = 0
    intro he
    cases hp with
    | none => rfl
    | some tok _ _ hm hne hd => exact absurd ((empty_iff_none pre_empty_iff_none hm).mpr he) hne
  · show post = Generated.postNone → digitsToNat postNum = 0
    intro he
    cases hq with
    | none => rfl
    | some tok _ _ hm hne hd => exact absurd ((empty_iff_none post_empty_iff_none hm).mpr he) hne

theorem recognise_wfv {s : Text} {r : RawVersion} (h : recognise s = some r) : WFv r.toVersion :=
  grammar_wfv (recognise_sound h)

end Apko.VersionGrammar
