import Apko.Proofs.Lemmas.AccountsPlain
/-! C13: one step of the group goroutine commutes with one step of the passwd goroutine whenever
`etc/group` and `etc/passwd` are plain entries that are different nodes (`SInv`). -/
namespace Apko.Accounts
open Apko Apko.Path Apko.FS Apko.Formats

/-! ### the content of old nodes is not touched by what the home loop does -/

/-- no shrinking, and every old node keeps its content fields -/
def CFL (fs fs' : FS) : Prop :=
  fs.nodes.length ≤ fs'.nodes.length ∧ ∀ j : Nat, j < fs.nodes.length → ContentEq (fs'.node j) (fs.node j)

theorem CFL.refl (fs : FS) : CFL fs fs := ⟨Nat.le_refl _, fun _ _ => ContentEq.same _⟩

theorem CFL.trans {a b c : FS} (h1 : CFL a b) (h2 : CFL b c) : CFL a c := by
  refine ⟨Nat.le_trans h1.1 h2.1, fun j hj => ?_⟩
  have x := h1.2 j hj
  have y := h2.2 j (Nat.lt_of_lt_of_le hj h1.1)
  exact ⟨y.1.trans x.1, y.2.1.trans x.2.1, y.2.2.trans x.2.2⟩

theorem cfl_create (fs : FS) (d : Nat) (b : Name) (nd : Inode) (hd : (fs.node d).dir = true) :
    CFL fs (fs.create d b nd).1 := by
  refine ⟨by rw [length_create]; omega, fun j hj => ?_⟩
  by_cases hjd : j = d
  · rw [hjd, node_create_parent fs d b nd hd]; exact ⟨rfl, rfl, rfl⟩
  · rw [node_create_other fs d j b nd hjd (by omega)]; exact ContentEq.same _

theorem cfl_modify (fs : FS) (i : Nat) (f : Inode → Inode) (hf : ∀ n, ContentEq (f n) n) : CFL fs (fs.modify i f) := by
  refine ⟨by simp, fun j _ => ?_⟩
  rw [node_modify]; split
  · rename_i h; rw [h.1]; exact hf _
  · exact ContentEq.same _

theorem mkdirAllLoop_cfl (c : Cfg) (mode : Nat) :
    ∀ (rest : List Name) (fs : FS) (at_ : Pos) (tr : List Name), (fs.node at_.ino).dir = true →
      CFL fs (mkdirAllLoop c mode rest fs at_ tr).1 := by
  intro rest
  induction rest with
  | nil => intro fs at_ tr _; simpa [mkdirAllLoop] using CFL.refl fs
  | cons part rest ih =>
    intro fs at_ tr hd
    rw [mkdirAllLoop_cons]
    have tail : ∀ (fsk : FS) (nn : Ino), CFL fsk (mkdirAllTail c mode rest tr part at_ fsk nn).1 := by
      intro fsk nn
      have key : ∀ r : Except Err Pos, CFL fsk (tailOf c mode rest tr part fsk r).1 := by
        intro r
        cases r with
        | error e => exact CFL.refl fsk
        | ok p =>
          simp only [tailOf]
          by_cases hpd : (fsk.node p.ino).dir = true
          · simp only [hpd, Bool.not_true, Bool.false_eq_true, if_false]; exact ih fsk p _ hpd
          · simp only [hpd, Bool.not_false, if_true]; exact CFL.refl fsk
      rw [mkdirAllTail_eq]; exact key _
    cases hl : fs.lookup at_.ino part with
    | some x => exact tail fs x
    | none => exact (cfl_create fs _ _ _ hd).trans (tail _ _)

theorem mkdirAll_cfl (c : Cfg) (fs : FS) (p : Text) (perm : Nat) (hi : FS.Inv fs) : CFL fs (mkdirAll c fs p perm).1 := by
  unfold mkdirAll
  simp only []
  split
  · exact CFL.refl fs
  · have := mkdirAllLoop_cfl c (modeDir ||| perm) ((parts p).filter (· ≠ dot)) fs { ino := 0 } [] hi.root
    split <;> simp_all

/-! ### well-formedness -/

theorem nodeOK_dataOnly {F : Inode → Inode} (hF : DataOnly F) (n : Inode) : Tar.nodeOK (F n) = Tar.nodeOK n := by
  obtain ⟨fd, fm, hFe⟩ := hF
  rw [hFe]; rfl

theorem wft_modify_data {F : Inode → Inode} (hF : DataOnly F) (fs : FS) (g : Nat) (h : WFT fs) : WFT (fs.modify g F) := by
  have hsh := hF.shape fs g
  obtain ⟨fd, fm, hFe⟩ := id hF
  refine ⟨⟨Inv.modify_meta h.inv g F (by intro n; rw [hFe]) (by intro n; rw [hFe]), ?_⟩,
    Tree.modify_meta h.tree g F (by intro n; rw [hFe]) (by intro n; rw [hFe])⟩
  intro i
  rw [node_modify]; split
  · rw [nodeOK_dataOnly hF]; exact h.wf.nodes g
  · exact h.wf.nodes i

theorem wft_writeH (fs : FS) (h : Handle) (t : Text) (hw : WFT fs) : WFT (writeH fs h t) := by
  rw [writeH_eq]; exact wft_modify_data (dataOnly_write t) fs h.ino hw

theorem wft_gstep (c : Cfg) (gs : List GroupCfg) (st : GSt) (fs : FS) (hw : WFT fs) : WFT (gstep c gs st fs).2 := by
  cases st with
  | start =>
    simp only [gstep]
    split
    · exact hw
    · have := wft_openCore c fs groupPath flagsReadOrCreate readOrCreatePerm (by decide) hw
      split <;> (rename_i heq; simp only [heq] at this; exact this)
  | opened h => simp only [gstep]; split <;> exact hw
  | parsed t =>
    simp only [gstep]
    have := wft_openCore c fs groupPath flagsWriteFile createPerm (by decide) hw
    split <;> (rename_i heq; simp only [heq] at this; exact this)
  | created h t => exact wft_writeH fs h t hw
  | done e => exact hw

/-! ### the local states are about the right nodes -/

def GOK : GSt → Nat → Prop
  | .opened h, g => h.ino = g
  | .created h _, g => h.ino = g
  | _, _ => True

def UOK : USt → Nat → Prop
  | .opened h, p => h.ino = p
  | .created h _, p => h.ino = p
  | _, _ => True

/-! ### the group goroutine, on a plain file: a content update of one node -/

/-- the state after the read of the group goroutine, as a function of the node that was read -/
def gOpenedK (gs : List GroupCfg) (rc : Bool) (n : Inode) : GSt :=
  match loadGroups (rdOf n rc) with
  | none => .done (some .parse)
  | some old => .parsed (writeGroups (old ++ gs.map groupToGroupEntry))

theorem gOpenedK_ok (gs : List GroupCfg) (rc : Bool) (n : Inode) (g : Nat) : GOK (gOpenedK gs rc n) g := by
  unfold gOpenedK; split <;> trivial

/-- every step of the group goroutine is a content update `F` of node `g` together with a next local state
that is a function `k` of that node's content -/
theorem gstep_char (c : Cfg) (hc : c.posix = false) (gs : List GroupCfg) (pig g : Nat) (st : GSt) (hok : GOK st g) :
    ∃ (F : Inode → Inode) (k : Inode → GSt), DataOnly F ∧ (∀ n n', ContentEq n n' → k n = k n') ∧
      (∀ n, GOK (k n) g) ∧
      ∀ fs, FS.Inv fs → PlainFile c fs groupPath pig g → gstep c gs st fs = (k (fs.node g), fs.modify g F) := by
  cases st with
  | start =>
    by_cases hgs : gs = []
    · exact ⟨id, fun _ => .done none, dataOnly_id, fun _ _ _ => rfl, fun _ => trivial,
        fun fs _ _ => by simp [gstep, hgs, modify_id]⟩
    · refine ⟨id, fun n => .opened (plainHandle groupPath g (rcOf c n) flagsReadOrCreate), dataOnly_id,
        fun n n' h => by simp only [rcOf_congr c n n' h], fun _ => rfl, fun fs _ hp => ?_⟩
      simp only [gstep, hgs, if_false, openRC_plain c hc fs groupPath pig g hp, modify_id]
  | opened h =>
    simp only [GOK] at hok
    refine ⟨id, gOpenedK gs h.rc, dataOnly_id,
      fun n n' hh => by simp only [gOpenedK, rdOf_congr n n' h.rc hh], fun n => gOpenedK_ok gs h.rc n g, fun fs _ _ => ?_⟩
    simp only [gstep, handleData_eq, hok, modify_id, gOpenedK]
    cases loadGroups (rdOf (fs.node g) h.rc) <;> rfl
  | parsed t =>
    refine ⟨truncF, fun _ => .created (plainHandle groupPath g false flagsWriteFile) t, dataOnly_trunc,
      fun _ _ _ => rfl, fun _ => rfl, fun fs hi hp => ?_⟩
    simp only [gstep, openW_plain c hc fs hi groupPath pig g hp]
  | created h t =>
    simp only [GOK] at hok
    exact ⟨writeF t, fun _ => .done none, dataOnly_write t, fun _ _ _ => rfl, fun _ => trivial,
      fun fs _ _ => by simp only [gstep, writeH_eq, hok]⟩
  | done e =>
    exact ⟨id, fun _ => .done e, dataOnly_id, fun _ _ _ => rfl, fun _ => trivial,
      fun fs _ _ => by simp only [gstep, modify_id]⟩

/-! ### the passwd goroutine: oblivious of the content of any other node -/

theorem node_modify_ne (fs : FS) (g j : Nat) (F : Inode → Inode) (h : j ≠ g) : (fs.modify g F).node j = fs.node j := by
  rw [node_modify]; simp [h]

theorem act_modify (c : Cfg) (fs : FS) (g : Nat) (F : Inode → Inode) (op : Op)
    (h : step c (fs.modify g F) op = ((step c fs op).1.modify g F, (step c fs op).2)) :
    act c (fs.modify g F) op = ((act c fs op).1.modify g F, (act c fs op).2) := by
  simp only [act, h]

/-- **a step of the passwd goroutine does not see, and does not touch, the content of node `g ≠ p`** -/
theorem ustep_modify (c : Cfg) (hc : c.posix = false) (cfg : AccCfg) (pip p g : Nat) (hne : g ≠ p) (st : USt)
    (hok : UOK st p) (F : Inode → Inode) (hF : DataOnly F) (fs : FS) (hw : WFT fs) (hg : g < fs.nodes.length)
    (hp : PlainFile c fs passwdPath pip p) :
    ustep c cfg st (fs.modify g F) = ((ustep c cfg st fs).1, (ustep c cfg st fs).2.modify g F) := by
  have hsh := hF.shape fs g
  have hp' : PlainFile c (fs.modify g F) passwdPath pip p := hp.shape hsh
  have hnp : (fs.modify g F).node p = fs.node p := node_modify_ne fs g p F (Ne.symm hne)
  have hi' : FS.Inv (fs.modify g F) := (wft_modify_data hF fs g hw).inv
  cases st with
  | start => simp only [ustep, openRC_plain c hc _ passwdPath pip p hp', openRC_plain c hc fs passwdPath pip p hp, hnp]
  | opened h =>
    simp only [UOK] at hok
    simp only [ustep, handleData_eq, hok, hnp]
    cases loadUsers (rdOf (fs.node p) h.rc) <;> rfl
  | created h all =>
    simp only [UOK] at hok
    simp only [ustep, writeH_eq, hok, Prod.mk.injEq, true_and]
    exact modify_comm_ne fs g p F _ hne
  | done e r => rfl
  | homes all rest ph =>
    cases rest with
    | nil =>
      simp only [ustep, openW_plain c hc _ hi' passwdPath pip p hp', openW_plain c hc fs hw.inv passwdPath pip p hp,
        Prod.mk.injEq, true_and]
      exact modify_comm_ne fs g p F _ hne
    | cons u rest =>
      match ph with
      | 0 =>
        simp only [ustep]
        by_cases hdev : u.home = devNull
        · simp [hdev]
        · simp only [hdev, if_false, step, getNode_shape hsh]
          cases getNode c fs (clean u.home) with
          | error e => cases e <;> rfl
          | ok i =>
            simp only [statOf, hsh.dir i]
            by_cases hd : (fs.node i).dir = true <;> simp [hd]
      | 1 =>
        simp only [ustep, act_modify c fs g F _ (mkdirAll_modify c fs g F hF hg hw.inv _ _)]
        rcases act c fs (.mkdirAll (dir (clean u.home)) homeParentPerm) with ⟨f1, _ | e⟩ <;> rfl
      | 2 =>
        simp only [ustep, act_modify c fs g F _ (mkdir_modify c fs g F hF hg hw.dirBit _ _)]
        rcases act c fs (.mkdir (clean u.home) homePerm) with ⟨f1, _ | e⟩ <;> rfl
      | (k + 3) =>
        simp only [ustep, act_modify c fs g F _ (chown_modify c fs g F hF _ _ _)]
        rcases act c fs (.chown (clean u.home) u.uid u.gid) with ⟨f1, _ | e⟩ <;> rfl

/-- what a step of the passwd goroutine does to the rest of the graph: it extends it, never shrinks it,
and leaves the content of `g ≠ p` alone -/
theorem ustep_frame (c : Cfg) (hc : c.posix = false) (cfg : AccCfg) (pip p g : Nat) (hne : g ≠ p) (st : USt)
    (hok : UOK st p) (fs : FS) (hw : WFT fs) (hg : g < fs.nodes.length) (hp : PlainFile c fs passwdPath pip p) :
    Ext fs (ustep c cfg st fs).2 ∧ fs.nodes.length ≤ (ustep c cfg st fs).2.nodes.length ∧
      ContentEq ((ustep c cfg st fs).2.node g) (fs.node g) ∧ UOK (ustep c cfg st fs).1 p := by
  have same : ∀ st', UOK st' p → Ext fs fs ∧ fs.nodes.length ≤ fs.nodes.length ∧ ContentEq (fs.node g) (fs.node g) ∧ UOK st' p :=
    fun st' h => ⟨Ext.refl fs, Nat.le_refl _, ContentEq.same _, h⟩
  have upd : ∀ (F : Inode → Inode) st', DataOnly F → UOK st' p →
      Ext fs (fs.modify p F) ∧ fs.nodes.length ≤ (fs.modify p F).nodes.length ∧
        ContentEq ((fs.modify p F).node g) (fs.node g) ∧ UOK st' p :=
    fun F st' hF h => ⟨Ext.of_shape (hF.shape fs p), by simp, by rw [node_modify_ne fs p g F hne]; exact ContentEq.same _, h⟩
  cases st with
  | start => simp only [ustep, openRC_plain c hc fs passwdPath pip p hp]; exact same _ rfl
  | opened h =>
    simp only [ustep]
    split
    · exact same _ trivial
    · exact same _ trivial
  | created h all =>
    simp only [UOK] at hok
    simp only [ustep, writeH_eq, hok]
    exact upd _ _ (dataOnly_write _) trivial
  | done e r => exact same _ trivial
  | homes all rest ph =>
    cases rest with
    | nil =>
      simp only [ustep, openW_plain c hc fs hw.inv passwdPath pip p hp]
      exact upd _ _ dataOnly_trunc rfl
    | cons u rest =>
      match ph with
      | 0 =>
        simp only [ustep]
        split
        · exact same _ trivial
        · split
          · split <;> exact same _ trivial
          · exact same _ trivial
          · exact same _ trivial
          · exact same _ trivial
      | 1 =>
        simp only [ustep]
        have e1 : (act c fs (.mkdirAll (dir (clean u.home)) homeParentPerm)).1 = (mkdirAll c fs (dir (clean u.home)) homeParentPerm).1 := rfl
        have hef := mkdirAll_ef c fs (dir (clean u.home)) homeParentPerm hw.inv
        have hcf := mkdirAll_cfl c fs (dir (clean u.home)) homeParentPerm hw.inv
        rw [← e1] at hef hcf
        split <;> (rename_i heq; simp only [heq] at hef hcf; exact ⟨hef.ext, hcf.1, hcf.2 g hg, trivial⟩)
      | 2 =>
        simp only [ustep]
        cases ha : act c fs (.mkdir (clean u.home) homePerm) with
        | mk fs1 r =>
          cases r with
          | some e =>
            simp only []
            have : fs1 = fs := by
              have hs : (step c fs (.mkdir (clean u.home) homePerm)).1 = fs1 := by simpa [act] using congrArg Prod.fst ha
              have he : errOf (step c fs (.mkdir (clean u.home) homePerm)).2 = some e := by simpa [act] using congrArg Prod.snd ha
              rw [← hs]
              simp only [step] at he ⊢
              repeat' split
              all_goals first | rfl | (simp_all [errOf])
            rw [this]; exact same _ trivial
          | none =>
            simp only []
            obtain ⟨pi, _, hbit, hfree, rfl⟩ := mkdir_ok ha
            have hd := hw.dirBit pi hbit
            have hcf := cfl_create fs pi (base (clean u.home)) (newDir (modeDir ||| homePerm)) hd
            exact ⟨ext_create hw.inv pi _ _ hd hfree, hcf.1, hcf.2 g hg, trivial⟩
      | (k + 3) =>
        simp only [ustep]
        have hsh := shape_chown c fs (clean u.home) u.uid u.gid
        have hcf : CFL fs (act c fs (.chown (clean u.home) u.uid u.gid)).1 := by
          simp only [act, step]
          cases getNode c fs (clean u.home) with
          | error e => exact CFL.refl fs
          | ok i => exact cfl_modify fs i _ (fun n => ⟨rfl, rfl, rfl⟩)
        split <;> (rename_i heq; simp only [heq] at hsh hcf; exact ⟨Ext.of_shape hsh, hcf.1, hcf.2 g hg, trivial⟩)

theorem wft_ustep (c : Cfg) (cfg : AccCfg) (st : USt) (fs : FS) (hw : WFT fs) : WFT (ustep c cfg st fs).2 := by
  cases st with
  | start =>
    simp only [ustep]
    have := wft_openCore c fs passwdPath flagsReadOrCreate readOrCreatePerm (by decide) hw
    split <;> (rename_i heq; simp only [heq] at this; exact this)
  | opened h => simp only [ustep]; split <;> exact hw
  | created h all => exact wft_writeH fs h _ hw
  | done e r => exact hw
  | homes all rest ph =>
    cases rest with
    | nil =>
      simp only [ustep]
      have := wft_openCore c fs passwdPath flagsWriteFile createPerm (by decide) hw
      split <;> (rename_i heq; simp only [heq] at this; exact this)
    | cons u rest =>
      match ph with
      | 0 =>
        simp only [ustep]
        split
        · exact hw
        · split
          · split <;> exact hw
          · exact hw
          · exact hw
          · exact hw
      | 1 =>
        simp only [ustep]
        have := wft_act c fs (.mkdirAll (dir (clean u.home)) homeParentPerm) rfl hw
        split <;> (rename_i heq; simp only [heq] at this; exact this)
      | 2 =>
        simp only [ustep]
        have := wft_act c fs (.mkdir (clean u.home) homePerm) rfl hw
        split <;> (rename_i heq; simp only [heq] at this; exact this)
      | (k + 3) =>
        simp only [ustep]
        have := wft_act c fs (.chown (clean u.home) u.uid u.gid) rfl hw
        split <;> (rename_i heq; simp only [heq] at this; exact this)

end Apko.Accounts
