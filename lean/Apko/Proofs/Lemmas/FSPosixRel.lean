import Apko.Proofs.Lemmas.FSPosix
/-! Impl resolution against POSIX resolution, part 2: **relative link targets** (still no `.`/`..`).

Impl joins a relative target to the *traversed prefix* and looks the result up from the root; POSIX
continues from the directory that holds the link.  Without `.`/`..` the joined path is
`traversed ++ parts target` (`parts_linkDest`), and walking `traversed` again from the root leads to the
directory that holds the link — but every link among `traversed` is traversed (and counted) a second
time.  This file removes the strings from Impl's loop: `walkL`/`getL` work on component lists and are
equal to `walkImpl`/`getNodeD` on dot-free input (`getNodeD_eq_getL`).  `FSPosixSim.lean` then compares
`getL` with the POSIX walk. -/
namespace Apko.FS
open Apko Apko.Path

/-! ### components -/

theorem parts_mem_ok {x : Text} {c : Name} (h : c ∈ parts x) : c ≠ [] ∧ '/' ∉ c := by
  simp only [parts, List.mem_filter, decide_eq_true_eq] at h
  exact ⟨h.2, Confine.mem_splitOnChar_no_sep '/' x c h.1⟩

/-- the components of a dot-free path are valid path elements -/
theorem nameOK_of_parts {x : Text} (hx : NoDots (parts x)) : ∀ c ∈ parts x, NameOK c :=
  fun c hc => ⟨(parts_mem_ok hc).1, (parts_mem_ok hc).2, (hx c hc).1, (hx c hc).2⟩

theorem NameOK.noDots {l : List Name} (h : ∀ c ∈ l, NameOK c) : NoDots l :=
  fun c hc => ⟨(h c hc).2.2.1, (h c hc).2.2.2⟩

/-- a non-empty relative path has a component -/
theorem parts_ne_nil_of_rel {t : Text} (ht : t ≠ []) (hr : isAbs t = false) : parts t ≠ [] := by
  cases t with
  | nil => exact absurd rfl ht
  | cons c cs =>
    have hc : c ≠ '/' := by intro h; simp [isAbs, h] at hr
    unfold parts
    simp only [splitOnChar, hc, if_false]
    cases h : splitOnChar '/' cs with
    | nil => simp
    | cons a b => simp

theorem joinNames_ne_nil {a : Name} {rest : List Name} (ha : a ≠ []) : joinNames (a :: rest) ≠ [] := by
  cases rest with
  | nil => simpa [joinNames, joinWith] using ha
  | cons b r => simp [joinNames, joinWith, ha]

theorem filter_dot_self {l : List Name} (h : NoDots l) : l.filter (· ≠ dot) = l :=
  List.filter_eq_self.mpr (fun c hc => by simpa using (h c hc).1)

/-- **what Impl looks up for a relative target**: `Join(traversed, target)` has the components of the
traversed prefix followed by those of the target -/
theorem parts_linkDest (trav : List Name) (t : Text) (htr : ∀ n ∈ trav, NameOK n) (ht : NoDots (parts t))
    (hr : isAbs t = false) : parts (join2 (joinNames trav) t) = trav ++ parts t := by
  cases trav with
  | nil =>
    have hj : joinNames [] = [] := rfl
    by_cases hte : t = []
    · subst hte; simp [hj, join2]
    · have : join2 (joinNames []) t = clean t := by simp [hj, join2, hte]
      obtain ⟨c, hc⟩ := List.exists_mem_of_ne_nil _ (parts_ne_nil_of_rel hte hr)
      rw [this, parts_clean t (fun c hc => (ht c hc).2) ⟨c, hc, (ht c hc).1⟩, filter_dot_self ht]
      simp
  | cons a rest =>
    have hne := joinNames_ne_nil (rest := rest) (htr a List.mem_cons_self).1
    have hj : join2 (joinNames (a :: rest)) t = clean (joinNames (a :: rest) ++ '/' :: t) := by
      simp [join2, hne, slash]
    have hp : parts (joinNames (a :: rest) ++ '/' :: t) = (a :: rest) ++ parts t := by
      rw [Confine.parts_append_sep]
      unfold joinNames
      rw [Confine.parts_joinWith_normal _
        (fun x hx => ⟨⟨(htr x hx).1, (htr x hx).2.2.1, (htr x hx).2.2.2⟩, (htr x hx).2.1⟩)]
    have hnd : NoDots ((a :: rest) ++ parts t) := by
      intro c hc
      rcases List.mem_append.mp hc with hc | hc
      · exact NameOK.noDots htr c hc
      · exact ht c hc
    rw [hj, parts_clean _ (by rw [hp]; exact fun c hc => (hnd c hc).2)
      ⟨a, by rw [hp]; simp, (htr a List.mem_cons_self).2.2.1⟩, hp, filter_dot_self hnd]

/-! ### Impl's loop on component lists -/

/-- the components Impl looks up (from the root) for a link with target `t` met after `trav` -/
def linkList (trav : List Name) (t : Text) : List Name := if isAbs t then parts t else trav ++ parts t

/-- `walkImpl` without strings -/
def walkL (fs : FS) (recur : Option (List Name → Nat → Except Err (Ino × Nat))) :
    List Name → Ino → List Name → Nat → Except Err (Ino × Nat)
  | [], node, _, cnt => .ok (node, cnt)
  | part :: rest, node, trav, cnt =>
    if !(fs.node node).dir then .error .notExist else
    match fs.lookup node part with
    | none => .error .notExist
    | some child =>
      if (fs.node child).isSymlink then
        if cnt + 1 > maxLinks then .error .loop else
        match recur with
        | none => .error .loop
        | some r =>
          match r (linkList trav (fs.node child).target) (cnt + 1) with
          | .error e => .error e
          | .ok (tn, cnt') => walkL fs recur rest tn (trav ++ [part]) cnt'
      else walkL fs recur rest child (trav ++ [part]) cnt

/-- `getNodeD` without strings -/
def getL (fs : FS) : Nat → List Name → Nat → Except Err (Ino × Nat)
  | 0, ps, cnt => walkL fs none ps 0 [] cnt
  | d + 1, ps, cnt => walkL fs (some (getL fs d)) ps 0 [] cnt

/-- the nested lookup at budget `d` -/
def recL (fs : FS) : Nat → Option (List Name → Nat → Except Err (Ino × Nat))
  | 0 => none
  | d + 1 => some (getL fs d)

def recI (fs : FS) : Nat → Option (Text → Nat → Except Err (Ino × Nat))
  | 0 => none
  | d + 1 => some (getNodeD fs d)

def recS (fs : FS) : Nat → Option (List Ino → List Name → Nat → Except Err (List Ino × Nat))
  | 0 => none
  | d + 1 => some (resolvePosixD fs d)

theorem getL_eq (fs : FS) (d : Nat) (ps : List Name) (cnt : Nat) :
    getL fs d ps cnt = walkL fs (recL fs d) ps 0 [] cnt := by cases d <;> rfl

theorem resolvePosixD_eq (fs : FS) (d : Nat) (st : List Ino) (ps : List Name) (cnt : Nat) :
    resolvePosixD fs d st ps cnt = walkPosix fs (recS fs d) ps st cnt := by cases d <;> rfl

/-- on a dot-free path `getNodeD` is the component loop (the special cases `/` and `.` included) -/
theorem getNodeD_parts (fs : FS) (d : Nat) (p : Text) (cnt : Nat) (hp : NoDots (parts p)) :
    getNodeD fs d p cnt = walkImpl fs (recI fs d) (parts p) 0 [] cnt := by
  have hdot : p ≠ dot := by rintro rfl; exact absurd (hp dot (by simp [parts_dot])).1 (by simp)
  cases d with
  | zero =>
    unfold getNodeD
    split
    · rename_i h; rcases h with rfl | rfl
      · simp [parts_slash, walkImpl]
      · exact absurd rfl hdot
    · rfl
  | succ d =>
    unfold getNodeD
    split
    · rename_i h; rcases h with rfl | rfl
      · simp [parts_slash, walkImpl]
      · exact absurd rfl hdot
    · rfl

/-! ### step equations of `walkL` -/

theorem walkL_notdir {fs : FS} {recur} {part : Name} {rest : List Name} {node : Ino} {trav : List Name} {cnt : Nat}
    (hd : (fs.node node).dir = false) : walkL fs recur (part :: rest) node trav cnt = .error .notExist := by
  simp [walkL, hd]

theorem walkL_none {fs : FS} {recur} {part : Name} {rest : List Name} {node : Ino} {trav : List Name} {cnt : Nat}
    (hd : (fs.node node).dir = true) (hl : fs.lookup node part = none) :
    walkL fs recur (part :: rest) node trav cnt = .error .notExist := by
  simp [walkL, hd, hl]

theorem walkL_plain {fs : FS} {recur} {part : Name} {rest : List Name} {node child : Ino} {trav : List Name}
    {cnt : Nat} (hd : (fs.node node).dir = true) (hl : fs.lookup node part = some child)
    (hs : (fs.node child).isSymlink = false) :
    walkL fs recur (part :: rest) node trav cnt = walkL fs recur rest child (trav ++ [part]) cnt := by
  simp [walkL, hd, hl, hs]

theorem walkL_link {fs : FS} {recur} {part : Name} {rest : List Name} {node child : Ino} {trav : List Name}
    {cnt : Nat} (hd : (fs.node node).dir = true) (hl : fs.lookup node part = some child)
    (hs : (fs.node child).isSymlink = true) :
    walkL fs recur (part :: rest) node trav cnt =
      if cnt + 1 > maxLinks then .error .loop else
      match recur with
      | none => .error .loop
      | some r =>
        match r (linkList trav (fs.node child).target) (cnt + 1) with
        | .error e => .error e
        | .ok (tn, cnt') => walkL fs recur rest tn (trav ++ [part]) cnt' := by
  simp only [walkL, hd, hl, hs, Bool.not_true, Bool.false_eq_true, if_false, if_true]

/-! ### `walkImpl` = `walkL`, `getNodeD` = `getL` on dot-free input -/

theorem walkImpl_eq_walkL {fs : FS} (hnd : ∀ i : Nat, NoDots (parts (fs.node i).target)) (d : Nat)
    (ih : ∀ e, d = e + 1 → ∀ (p : Text) (cnt : Nat), NoDots (parts p) → getNodeD fs e p cnt = getL fs e (parts p) cnt) :
    ∀ (ps : List Name) (node : Ino) (trav : List Name) (cnt : Nat),
      (∀ n ∈ trav, NameOK n) → (∀ n ∈ ps, NameOK n) →
      walkImpl fs (recI fs d) ps node trav cnt = walkL fs (recL fs d) ps node trav cnt := by
  intro ps
  induction ps with
  | nil => intro node trav cnt _ _; simp [walkImpl, walkL]
  | cons part rest ihp =>
    intro node trav cnt htr hps
    have htr' : ∀ n ∈ trav ++ [part], NameOK n := by
      intro n hn
      rcases List.mem_append.mp hn with hn | hn
      · exact htr n hn
      · simp at hn; subst hn; exact hps _ List.mem_cons_self
    have hrest : ∀ n ∈ rest, NameOK n := fun n hn => hps n (List.mem_cons_of_mem _ hn)
    unfold walkImpl walkL
    by_cases hd : (fs.node node).dir = true
    · simp only [hd, Bool.not_true, Bool.false_eq_true, if_false]
      cases hl : fs.lookup node part with
      | none => rfl
      | some child =>
        simp only []
        by_cases hs : (fs.node child).isSymlink = true
        · simp only [hs, if_true]
          by_cases hc : cnt + 1 > maxLinks
          · simp [hc]
          · simp only [hc, if_false]
            cases d with
            | zero => rfl
            | succ e =>
              simp only [recI, recL]
              have hdest : NoDots (linkList trav (fs.node child).target) ∧
                  parts (if isAbs (fs.node child).target = true then (fs.node child).target
                    else join2 (joinNames trav) (fs.node child).target) = linkList trav (fs.node child).target := by
                unfold linkList
                by_cases ha : isAbs (fs.node child).target = true
                · simp only [ha, if_true]; exact ⟨hnd child, trivial⟩
                · simp only [ha, Bool.false_eq_true, if_false]
                  refine ⟨?_, parts_linkDest trav _ htr (hnd child) (by simpa using ha)⟩
                  intro c hc
                  rcases List.mem_append.mp hc with hc | hc
                  · exact NameOK.noDots htr c hc
                  · exact hnd child c hc
              rw [ih e rfl _ _ (by rw [hdest.2]; exact hdest.1), hdest.2]
              cases getL fs e (linkList trav (fs.node child).target) (cnt + 1) with
              | error e => rfl
              | ok r => exact ihp _ _ _ htr' hrest
        · simp only [hs, Bool.false_eq_true, if_false]
          exact ihp _ _ _ htr' hrest
    · simp [hd]

/-- **Impl's lookup is the string-free loop** on dot-free paths in states with dot-free link targets -/
theorem getNodeD_eq_getL {fs : FS} (hnd : ∀ i : Nat, NoDots (parts (fs.node i).target)) :
    ∀ (d : Nat) (p : Text) (cnt : Nat), NoDots (parts p) → getNodeD fs d p cnt = getL fs d (parts p) cnt := by
  intro d
  induction d with
  | zero =>
    intro p cnt hp
    rw [getNodeD_parts fs 0 p cnt hp, getL_eq]
    exact walkImpl_eq_walkL hnd 0 (fun e he => by omega) _ _ _ _ (by simp) (nameOK_of_parts hp)
  | succ d ih =>
    intro p cnt hp
    rw [getNodeD_parts fs (d + 1) p cnt hp, getL_eq]
    exact walkImpl_eq_walkL hnd (d + 1) (fun e he => by cases he; exact ih) _ _ _ _ (by simp) (nameOK_of_parts hp)

end Apko.FS
