/-
C10, the glue below the layering: the owner of a file is recorded by the lazy (WriteHeader) installer, which
`installPackage` must take whenever the file system can record owners — with or without a package cache.  Fact
regenerated from pkg/apk/apk/implementation.go on every run; corr:layers builds end to end with the cache on and off.
-/
import Apko.Generated.GlueLayer

namespace Apko.C10.Glue
open Apko

theorem tie_glue_lazy_install_unconditional : Generated.lazyInstallCond = "wh, ok := a.fs.(WriteHeaderer); ok" := rfl

end Apko.C10.Glue
