/- C15: lemmas about the checked accessors and the regenerated guards (used by Proofs/C15Readers.lean) -/
import Apko.Model.Robust

namespace Apko.Robust
open Apko Apko.Formats

theorem bind_ne_oob {α β : Type} {r : Res α} {f : α → Res β}
    (h1 : r ≠ .oob) (h2 : ∀ a, f a ≠ .oob) : r.bind f ≠ .oob := by
  cases r with
  | ok a => exact h2 a
  | err => simp [Res.bind]
  | oob => exact absurd rfl h1

theorem idx_ok {α : Type} {l : List α} {i : Nat} (h : i < l.length) : idx l i = .ok l[i] := by
  simp [idx, List.getElem?_eq_getElem h]

theorem idx_ne_oob {α : Type} {l : List α} {i : Nat} (h : i < l.length) : idx l i ≠ .oob := by
  rw [idx_ok h]; simp

theorem idx_oob {α : Type} {l : List α} {i : Nat} (h : l.length ≤ i) : idx l i = .oob := by
  simp [idx, List.getElem?_eq_none h]

theorem sliceFrom_ne_oob {α : Type} {l : List α} {k : Nat} (h : k ≤ l.length) : sliceFrom l k ≠ .oob := by
  simp [sliceFrom, h]

/-- binding through an in-range access never produces `oob` by itself -/
theorem idx_bind_ne_oob {α β : Type} {l : List α} {i : Nat} {f : α → Res β}
    (h : i < l.length) (hf : ∀ a, f a ≠ .oob) : (idx l i).bind f ≠ .oob :=
  bind_ne_oob (idx_ne_oob h) hf

theorem ofOption_ne_oob {α : Type} (o : Option α) : Res.ofOption o ≠ .oob := by
  cases o <;> simp [Res.ofOption]

theorem mapAllRes_ne_oob {α β : Type} (f : α → Res β) (h : ∀ a, f a ≠ .oob) (l : List α) :
    mapAllRes f l ≠ .oob := by
  induction l with
  | nil => simp [mapAllRes]
  | cons a rest ih =>
    simp only [mapAllRes]
    exact bind_ne_oob (h a) (fun _ => bind_ne_oob ih (fun _ => by simp))

/-- a slice guarded by a prefix test is in range when the literal is at least as long as the offset -/
theorem prefixSlice_ne_oob (lit : Text) (how : String) (k : Nat) (x : Text) (hk : k ≤ lit.length) :
    prefixSlice (some (lit, how)) k x ≠ some .oob := by
  unfold prefixSlice
  simp only
  split
  · next hp =>
    have : lit.length ≤ x.length := (List.isPrefixOf_iff_prefix.mp hp).length_le
    have h2 : k ≤ x.length := by omega
    simp [sliceFrom, h2]
  · simp

/-- without the prefix test the empty string panics -/
theorem prefixSlice_unguarded_oob (k : Nat) : prefixSlice none (k + 1) [] = some .oob := by
  simp [prefixSlice, sliceFrom]

end Apko.Robust
