/-
C14 lemmas: an up-front disqualification set `D` (⊆ the resolver's `dq` at the start) is respected by
the WHOLE resolution, for every configuration, world and `D`:

* `depLoop_avoids` / `getDeps_avoids`   every package the dependency walk emits came out of
                      `filterPackages … dq …` with `dq ⊇ D` (dq only grows: `getDeps_mono`);
* `installIf*_via`    the install_if loops only append, and only packages found through `installIfMap`
                      (so their `installIf` list is not empty);
* `gpwd_avoids`       one `getPackageWithDependencies`: root and de-duplicated walk avoid `D`; the appended
                      tail is empty unless ghost flag "F02b" is raised;
* `go_flags_sub`      ghost flags are never cleared along the world entries;
* `go_avoids`, `resolve_avoids`   every installed package avoids `D`, or "F02b" was raised and the package
                      was appended by the install_if path.

Core only.  Everything is stated for all inputs.
-/
import Apko.Proofs.Lemmas.ResolverTop

namespace Apko.C14
open Apko Apko.Resolver Apko.C02

/-- no member of `l` is in the set `D` -/
def Avoids (D : List Nat) (l : List Pkg) : Prop := ∀ p ∈ l, D.contains p.id = false

theorem not_contains_of_sub {D dq : List Nat} (h : D ⊆ dq) {i : Nat} (hi : dq.contains i = false) :
    D.contains i = false := by
  rw [contains_false_iff] at hi ⊢
  exact fun hm => hi (h hm)

/-! ## the dependency walk -/

def RecAvoids (D : List Nat) (rec : Pkg → List (Text × Nat) → DepSt → Res DepOut) : Prop :=
  ∀ p ps d o, rec p ps d = .ok o → D ⊆ d.st.dq → Avoids D o.deps

/-- the `for len(constraints) != 0` loop: what it adds to the dependency list avoids `D` -/
theorem depLoop_avoids {c : Cfg} {D : List Nat} {rec : Pkg → List (Text × Nat) → DepSt → Res DepOut}
    (hm : RecMono c rec) (hrec : RecAvoids D rec)
    (pkg : Pkg) (allowPin : Text) (parents : List (Text × Nat)) (fuel : Nat) :
    ∀ (constraints : List Text) (acc out : DepOut),
      depLoop c rec pkg allowPin parents fuel constraints acc = .ok out →
      D ⊆ acc.ds.st.dq → Avoids D acc.deps → Avoids D out.deps := by
  induction fuel with
  | zero => intro _ _ _ h; simp [depLoop] at h
  | succ n ih =>
    intro constraints acc out h hD ha
    rcases depLoop_inv h with ⟨_, rfl⟩ | ⟨opts, confs, fl, hpass, hcase⟩
    · exact ha
    · rcases hcase with ⟨_, rfl⟩ | ⟨lowest, pkgs, best, dq1, sel1, sub, ex, og, hlow, hbest, hdq, hsel,
        hsub, hloop⟩
      · exact ha
      · have hb := (pass_lowest hpass hlow hbest).2.2.2
        have hD1 : D ⊆ dq1 := fun a h => disqualifyConflicts_infl c best _ _ hdq (hD h)
        have hs := hrec _ _ _ _ hsub hD1
        have hms := hm _ _ _ _ hsub
        simp only at hms
        apply ih _ _ _ hloop
        · exact fun a h => hms.dq (hD1 h)
        · intro p hp
          simp only [List.append_assoc, List.mem_append, List.mem_singleton] at hp
          rcases hp with hp | hp | hp
          · exact ha p hp
          · exact hs p hp
          · subst hp; exact not_contains_of_sub hD hb

/-- T `getDeps_avoids`: everything the dependency walk emits avoids every set contained in the initial `dq` -/
theorem getDeps_avoids (c : Cfg) (D : List Nat) (allowPin : Text) (fuel : Nat) :
    RecAvoids D (fun p ps d => getDeps c fuel p allowPin ps d) := by
  induction fuel with
  | zero => intro _ _ _ _ h; simp [getDeps] at h
  | succ n ih =>
    intro pkg parents ds out h hD
    rcases getDeps_inv h with ⟨_, rfl⟩ | ⟨_, dq1, hdq, hloop⟩
    · intro p hp; simp at hp
    · exact depLoop_avoids (getDeps_mono c allowPin n) ih pkg allowPin parents _ _ _ _ hloop
        (fun a ha => constrain_infl c _ _ _ hdq (hD ha)) (by intro p hp; simp at hp)

/-! ## the install_if loops only append packages that carry an install_if rule -/

/-- `p` is reachable through the install_if table of the universe -/
def ViaInstallIf (u : Universe) (p : Pkg) : Prop := ∃ key, p ∈ installIfMap u key

theorem installIfMap_trigger {u : Universe} {key : Text} {p : Pkg} (h : p ∈ installIfMap u key) :
    key ∈ p.installIf := by
  unfold installIfMap at h
  simp only [List.mem_flatMap, List.mem_map, List.mem_filter] at h
  obtain ⟨q, _, k, ⟨hk, hkey⟩, rfl⟩ := h
  have : k = key := by simpa using hkey
  rw [← this]; exact hk

theorem ViaInstallIf.installIf_ne {u : Universe} {p : Pkg} (h : ViaInstallIf u p) : p.installIf ≠ [] := by
  obtain ⟨key, hk⟩ := h
  exact List.ne_nil_of_mem (installIfMap_trigger hk)

theorem ViaInstallIf.mem {u : Universe} {p : Pkg} (h : ViaInstallIf u p) : p ∈ u.all := by
  obtain ⟨key, hk⟩ := h
  exact installIfMap_mem hk

theorem installIfStep_via (c : Cfg) (deps : List Pkg) (d : Pkg) :
    ∃ t, installIfStep c deps d = deps ++ t ∧ ∀ x ∈ t, ViaInstallIf c.u x := by
  unfold installIfStep
  simp only
  have hl : ∀ x ∈ (if (!(installIfMap c.u d.name).isEmpty) = true then installIfMap c.u d.name
      else installIfMap c.u (d.name ++ ['='] ++ d.version)), ViaInstallIf c.u x := by
    intro x hx
    split at hx
    · exact ⟨_, hx⟩
    · exact ⟨_, hx⟩
  revert hl
  generalize (if (!(installIfMap c.u d.name).isEmpty) = true then installIfMap c.u d.name
    else installIfMap c.u (d.name ++ ['='] ++ d.version)) = l
  intro hl
  induction l generalizing deps with
  | nil => exact ⟨[], by simp⟩
  | cons x xs ih =>
    simp only [List.foldl_cons]
    have hxs : ∀ y ∈ xs, ViaInstallIf c.u y := fun y hy => hl y (List.mem_cons_of_mem _ hy)
    split
    · obtain ⟨t, ht, hu⟩ := ih (deps ++ [x]) hxs
      refine ⟨[x] ++ t, by rw [ht]; simp, ?_⟩
      intro y hy
      rcases List.mem_append.mp hy with hy | hy
      · simp only [List.mem_singleton] at hy
        subst hy
        exact hl y (List.mem_cons_self ..)
      · exact hu y hy
    · exact ih deps hxs

theorem installIfFixedLoop_via (c : Cfg) (fuel i : Nat) (deps : List Pkg) :
    ∃ t, installIfFixedLoop c fuel i deps = deps ++ t ∧ ∀ x ∈ t, ViaInstallIf c.u x := by
  induction fuel generalizing i deps with
  | zero => exact ⟨[], by simp [installIfFixedLoop]⟩
  | succ n ih =>
    unfold installIfFixedLoop
    split
    · exact ⟨[], by simp⟩
    · next d _ =>
      obtain ⟨t1, h1, u1⟩ := installIfStep_via c deps d
      obtain ⟨t2, h2, u2⟩ := ih (i + 1) (installIfStep c deps d)
      refine ⟨t1 ++ t2, by rw [h2, h1]; simp, ?_⟩
      intro y hy
      rcases List.mem_append.mp hy with hy | hy
      · exact u1 y hy
      · exact u2 y hy

theorem installIfMapLoop_via (c : Cfg) (deps : List Pkg) :
    ∃ t, installIfMapLoop c deps = deps ++ t ∧ ∀ x ∈ t, ViaInstallIf c.u x := by
  unfold installIfMapLoop
  simp only
  generalize c.addedOrder (deps.map (·.name)) = names
  suffices h : ∀ acc : List Pkg, ∃ t, names.foldl (fun acc n =>
      match deps.find? (·.name = n) with
      | some d => installIfStep c acc d
      | none => acc) acc = acc ++ t ∧ ∀ x ∈ t, ViaInstallIf c.u x from h deps
  induction names with
  | nil => exact fun acc => ⟨[], by simp⟩
  | cons n ns ih =>
    intro acc
    simp only [List.foldl_cons]
    split
    · next d _ =>
      obtain ⟨t1, h1, u1⟩ := installIfStep_via c acc d
      obtain ⟨t2, h2, u2⟩ := ih (installIfStep c acc d)
      refine ⟨t1 ++ t2, by rw [h2, h1]; simp, ?_⟩
      intro y hy
      rcases List.mem_append.mp hy with hy | hy
      · exact u1 y hy
      · exact u2 y hy
    · exact ih acc

/-! ## one `getPackageWithDependencies` -/

theorem flag_self (s : St) (f : String) : f ∈ (s.flag f).flags := by
  unfold St.flag
  split
  · next h => simpa using h
  · simp

/-- the two ghost updates at the end of `getPackageWithDependencies`: flags are kept, and the install_if
tail is empty unless "F02b" is raised -/
theorem st2_tail (s : St) (b : Bool) (deps t : List Pkg) :
    let st1 := if b then s.flag "F02a" else s
    let st2 := if (deps ++ t).length != deps.length then st1.flag "F02b" else st1
    st2.dq = s.dq ∧ (∀ f ∈ s.flags, f ∈ st2.flags) ∧ ("F02b" ∉ st2.flags → t = []) := by
  intro st1 st2
  have h1 : st1.dq = s.dq ∧ (∀ f ∈ s.flags, f ∈ st1.flags) := by
    cases b
    · exact ⟨rfl, fun _ h => h⟩
    · exact ⟨flag_dq _ _, flag_sub _ _⟩
  by_cases hl : ((deps ++ t).length != deps.length) = true
  · have : st2 = st1.flag "F02b" := by simp only [st2, hl, if_true]
    rw [this]
    exact ⟨by rw [flag_dq]; exact h1.1, fun f hf => flag_sub _ _ f (h1.2 f hf),
      fun h => absurd (flag_self _ _) h⟩
  · have : st2 = st1 := by simp only [st2, hl, Bool.false_eq_true, if_false]
    rw [this]
    refine ⟨h1.1, h1.2, fun _ => ?_⟩
    have hlen : (deps ++ t).length = deps.length := by simpa using hl
    have : t.length = 0 := by rw [List.length_append] at hlen; omega
    exact List.eq_nil_of_length_eq_zero this

/-- what a successful `getPackageWithDependencies` did, with the provenance of the appended tail -/
theorem gpwd_tail {c : Cfg} {fuel : Nat} {w : Text} {existing : List (Text × Pkg)} {st : St} {r : WithDeps}
    (h : getPackageWithDependencies c fuel w existing st = .ok r) :
    ∃ out origins, resolvePackage c w st.dq = some r.pkg ∧
      getDeps c fuel r.pkg (parseConstraint w).pin [] ⟨st, existing, origins⟩ = .ok out ∧
      r.st.dq = out.ds.st.dq ∧ (∀ f ∈ out.ds.st.flags, f ∈ r.st.flags) ∧
      ∃ t, r.deps = addFold [] out.deps ++ t ∧ (∀ x ∈ t, ViaInstallIf c.u x) ∧
        ("F02b" ∉ r.st.flags → t = []) := by
  unfold getPackageWithDependencies at h
  simp only at h
  split at h
  · simp at h
  · next pkg hpkg =>
    split at h
    · simp at h
    · simp at h
    · next out hout =>
      simp only [Res.ok.injEq] at h
      subst h
      simp only
      cases hfix : c.installIfFixed
      · obtain ⟨t, ht, htu⟩ := installIfMapLoop_via c (dedupByName out.deps)
        simp only [Bool.false_eq_true, if_false, ht]
        have := st2_tail out.ds.st (dedupDropsOther [] out.deps) (dedupByName out.deps) t
        exact ⟨out, _, hpkg, hout, this.1, this.2.1, t, rfl, htu, this.2.2⟩
      · obtain ⟨t, ht, htu⟩ := installIfFixedLoop_via c
          (c.u.all.length + (dedupByName out.deps).length + 1) 0 (dedupByName out.deps)
        simp only [if_true, ht]
        have := st2_tail out.ds.st (dedupDropsOther [] out.deps) (dedupByName out.deps) t
        exact ⟨out, _, hpkg, hout, this.1, this.2.1, t, rfl, htu, this.2.2⟩

/-- T `gpwd_avoids`: the root and every returned dependency avoid every `D ⊆ dq`, except the packages
appended by the install_if scan (which exist only when "F02b" is raised); `dq` and the flags only grow -/
theorem gpwd_avoids {c : Cfg} {fuel : Nat} {w : Text} {existing : List (Text × Pkg)} {st : St} {r : WithDeps}
    (h : getPackageWithDependencies c fuel w existing st = .ok r) {D : List Nat} (hD : D ⊆ st.dq) :
    D ⊆ r.st.dq ∧ (∀ f ∈ st.flags, f ∈ r.st.flags) ∧
    ∀ p ∈ r.deps ++ [r.pkg], D.contains p.id = false ∨ ("F02b" ∈ r.st.flags ∧ ViaInstallIf c.u p) := by
  obtain ⟨out, origins, hpkg, hout, hdq, hfl, t, ht, hvia, hnil⟩ := gpwd_tail h
  have hm := getDeps_mono c _ fuel _ _ _ _ hout
  simp only at hm
  refine ⟨?_, fun f hf => hfl f (hm.flags_sub f hf), ?_⟩
  · rw [hdq]; exact fun a ha => hm.dq (hD ha)
  · intro p hp
    rw [ht] at hp
    simp only [List.append_assoc, List.mem_append, List.mem_singleton] at hp
    rcases hp with hp | hp | hp
    · left
      rcases addFold_mem [] out.deps p hp with h1 | h1
      · simp at h1
      · exact getDeps_avoids c D _ fuel _ _ _ _ hout hD p h1
    · right
      refine ⟨?_, hvia p hp⟩
      apply Classical.byContradiction
      intro hn
      rw [hnil hn] at hp
      simp at hp
    · left
      subst hp
      exact not_contains_of_sub hD (resolvePackage_mem hpkg).2

/-! ## the second loop of `resolve` -/

/-- T `go_flags_sub` (`flags_monotone` along the world entries, flag by flag) -/
theorem go_flags_sub (c : Cfg) (ws : List Text) :
    ∀ (depMap : List (Text × Pkg)) (st : St) (inst : List Pkg) (confs : List Text) (r : Resolution),
      resolve.go c ws depMap st inst confs = .ok r → ∀ f ∈ st.flags, f ∈ r.flags := by
  induction ws with
  | nil =>
    intro _ _ _ _ r h
    simp only [resolve.go, Res.ok.injEq] at h
    subst h
    exact fun _ hf => hf
  | cons w ws ih =>
    intro depMap st inst confs r h f hf
    simp only [resolve.go] at h
    split at h
    · simp at h
    · simp at h
    · next r1 hg =>
      apply ih _ _ _ _ _ h f
      have h1 := (gpwd_avoids hg (D := []) (by simp)).2.1 f hf
      split
      · exact flag_sub _ _ f h1
      · exact h1

/-- T `go_avoids`: every installed package avoids `D ⊆ dq`, or "F02b" was raised and the package was
appended by the install_if path -/
theorem go_avoids (c : Cfg) (D : List Nat) (ws : List Text) :
    ∀ (depMap : List (Text × Pkg)) (st : St) (inst : List Pkg) (confs : List Text) (r : Resolution),
      resolve.go c ws depMap st inst confs = .ok r → D ⊆ st.dq →
      (∀ p ∈ inst, D.contains p.id = false ∨ ("F02b" ∈ r.flags ∧ ViaInstallIf c.u p)) →
      ∀ p ∈ r.install, D.contains p.id = false ∨ ("F02b" ∈ r.flags ∧ ViaInstallIf c.u p) := by
  induction ws with
  | nil =>
    intro _ _ _ _ r h _ hi
    simp only [resolve.go, Res.ok.injEq] at h
    subst h
    exact hi
  | cons w ws ih =>
    intro depMap st inst confs r h hD hi
    simp only [resolve.go] at h
    split at h
    · simp at h
    · simp at h
    · next r1 hg =>
      obtain ⟨hD1, _, hadd⟩ := gpwd_avoids hg hD
      have hfl : ∀ f ∈ r1.st.flags, f ∈ r.flags := by
        intro f hf
        apply go_flags_sub c ws _ _ _ _ _ h f
        split
        · exact flag_sub _ _ f hf
        · exact hf
      apply ih _ _ _ _ _ h
      · split
        · rw [flag_dq]; exact hD1
        · exact hD1
      · intro p hp
        rcases addFold_mem inst (r1.deps ++ [r1.pkg]) p hp with h1 | h1
        · exact hi p h1
        · rcases hadd p h1 with h2 | ⟨h2, h3⟩
          · exact Or.inl h2
          · exact Or.inr ⟨hfl _ h2, h3⟩

/-- T `resolve_avoids`: the general form for the whole resolution — every installed package is outside the
up-front set `dq0`, or ghost flag "F02b" was raised and the package came through the install_if table -/
theorem resolve_avoids (c : Cfg) (w : List Text) (dq0 : List Nat) (r : Resolution)
    (h : resolve c w dq0 = .ok r) :
    ∀ p ∈ r.install, dq0.contains p.id = false ∨ ("F02b" ∈ r.flags ∧ ViaInstallIf c.u p) := by
  unfold resolve at h
  split at h
  · simp at h
  · next dq1 hdq1 =>
    split at h
    · simp at h
    · simp at h
    · next depMap dq2 hwl =>
      have h1 : dq0 ⊆ dq1 := constrain_infl c _ _ _ hdq1
      have h2 : dq1 ⊆ dq2 := worldLoop_infl c _ _ _ _ _ hwl
      exact go_avoids c dq0 w depMap ⟨dq2, [], []⟩ [] [] r h (fun a ha => h2 (h1 ha)) (by simp)

end Apko.C14
